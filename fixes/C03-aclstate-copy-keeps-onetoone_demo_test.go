package list

// Demo for fixes/C03-aclstate-copy-keeps-onetoone.patch (copy to commonspace/object/acl/list/ to run):
// fails on the tree without the patch, passes with it.
//
// A one-to-one ACL must refuse every record.  AclList.AddRawRecord applies the record to AclState.Copy(); before the
// patch Copy() did not copy isOneToOne, so a record signed with the shared owner key (which both parties derive) was
// accepted and persisted, the live state stopped being one-to-one, and the list could no longer be rebuilt from its
// own storage (the state built from the root IS one-to-one and refuses the stored record).

import (
	"context"
	"testing"

	"github.com/stretchr/testify/require"

	"github.com/anyproto/any-sync/commonspace/object/accountdata"
	"github.com/anyproto/any-sync/commonspace/object/acl/aclrecordproto"
	"github.com/anyproto/any-sync/commonspace/object/acl/recordverifier"
	"github.com/anyproto/any-sync/consensus/consensusproto"
	"github.com/anyproto/any-sync/util/cidutil"
	"github.com/anyproto/any-sync/util/crypto"
)

func TestOneToOne_AddRawRecordIsRefusedOnTheLiveList(t *testing.T) {
	ka, err := accountdata.NewRandom()
	require.NoError(t, err)
	kb, err := accountdata.NewRandom()
	require.NoError(t, err)
	wa, _ := ka.SignKey.GetPublic().Marshall()
	wb, _ := kb.SignKey.GetPublic().Marshall()
	shared, err := crypto.GenerateSharedKey(ka.SignKey, kb.SignKey.GetPublic(), crypto.AnysyncOneToOneSpacePath)
	require.NoError(t, err)
	sharedPub, _ := shared.GetPublic().Marshall()
	rb := NewAclRecordBuilder("", crypto.NewKeyStorage(), nil, recordverifier.NewValidateFull())
	root, err := rb.BuildOneToOneRoot(RootContent{PrivKey: shared, MasterKey: shared},
		&aclrecordproto.AclOneToOneInfo{Owner: sharedPub, Writers: [][]byte{wa, wb}})
	require.NoError(t, err)

	st, err := NewInMemoryStorage(root.Id, []*consensusproto.RawRecordWithId{root})
	require.NoError(t, err)
	live, err := BuildAclListWithIdentity(ka, st, recordverifier.NewValidateFull())
	require.NoError(t, err)
	require.True(t, live.AclState().IsOneToOne())

	// party b derives the shared owner key and signs an invite chained onto the root
	sharedB, err := crypto.GenerateSharedKey(kb.SignKey, ka.SignKey.GetPublic(), crypto.AnysyncOneToOneSpacePath)
	require.NoError(t, err)
	_, invPub, err := crypto.GenerateRandomEd25519KeyPair()
	require.NoError(t, err)
	invKey, _ := invPub.Marshall()
	data, err := (&aclrecordproto.AclData{AclContent: []*aclrecordproto.AclContentValue{
		{Value: &aclrecordproto.AclContentValue_Invite{Invite: &aclrecordproto.AclAccountInvite{InviteKey: invKey}}},
	}}).MarshalVT()
	require.NoError(t, err)
	payload, err := (&consensusproto.Record{PrevId: root.Id, Identity: sharedPub, Data: data, Timestamp: 1}).MarshalVT()
	require.NoError(t, err)
	sig, err := sharedB.Sign(payload)
	require.NoError(t, err)
	rawBytes, err := (&consensusproto.RawRecord{Payload: payload, Signature: sig}).MarshalVT()
	require.NoError(t, err)
	id, err := cidutil.NewCidFromBytes(rawBytes)
	require.NoError(t, err)
	rec := &consensusproto.RawRecordWithId{Payload: rawBytes, Id: id}

	require.ErrorIs(t, live.AddRawRecord(rec), ErrAddRecordOneToOne)
	require.ErrorIs(t, live.AddRawRecords([]*consensusproto.RawRecordWithId{root, rec}), ErrAddRecordOneToOne)
	require.True(t, live.AclState().IsOneToOne())
	require.Equal(t, root.Id, live.Head().Id)
	require.Len(t, live.Records(), 1)
	require.Empty(t, live.AclState().Invites())
	head, err := st.Head(context.Background())
	require.NoError(t, err)
	require.Equal(t, root.Id, head)

	// restart: the same storage can be rebuilt and gives the same list
	rebuilt, err := BuildAclListWithIdentity(ka, st, recordverifier.NewValidateFull())
	require.NoError(t, err)
	require.True(t, rebuilt.AclState().IsOneToOne())
	require.Equal(t, live.Head().Id, rebuilt.Head().Id)
}
