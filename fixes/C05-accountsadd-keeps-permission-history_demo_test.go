package objecttree

// Demonstration for fixes/C05-accountsadd-keeps-permission-history.patch (intended path:
// commonspace/object/tree/objecttree/zz_c05_readd_demo_test.go).  b is a writer and writes into an encrypted tree;
// b is removed and later added again with AccountsAdd.  applyAccountsAdd used to REPLACE b's account state, dropping
// its earlier PermissionChanges, so PermissionsAtRecord(<acl head of b's old change>, b) answered None and
// ValidateFullTree refused the tree: no member could build the tree from its storage any more.

import (
	"testing"

	"github.com/stretchr/testify/require"

	"github.com/anyproto/any-sync/commonspace/headsync/headstorage"
	"github.com/anyproto/any-sync/commonspace/object/acl/list"
	"github.com/anyproto/any-sync/commonspace/object/acl/list/listtest"
	"github.com/anyproto/any-sync/commonspace/object/tree/treechangeproto"
)

func TestC05Demo_ReaddedWriterKeepsPermissionHistory(t *testing.T) {
	exec := list.NewAclExecutor("spaceId")
	for _, cmd := range []string{"a.init::a", "a.invite::invId", "b.join::invId", "a.approve::b,rw"} {
		require.NoError(t, exec.Execute(cmd), cmd)
	}
	a, b := exec.ActualAccounts()["a"], exec.ActualAccounts()["b"]
	store := createNamedStore(ctx, t, "a")
	root, err := CreateObjectTreeRoot(ObjectTreeCreatePayload{PrivKey: a.Keys.SignKey, ChangeType: "t", SpaceId: "spaceId", IsEncrypted: true}, a.Acl)
	require.NoError(t, err)
	heads, err := headstorage.New(ctx, store)
	require.NoError(t, err)
	st, err := CreateStorage(ctx, root, heads, store)
	require.NoError(t, err)
	initTestAddSeq(st)
	aTree, err := BuildObjectTree(st, a.Acl)
	require.NoError(t, err)

	// b writes while it is a writer; a's tree receives the change
	storeB := CopyStore(ctx, t, store.(TestStore), "b")
	headsB, err := headstorage.New(ctx, storeB)
	require.NoError(t, err)
	stB, err := NewStorage(ctx, root.Id, headsB, storeB)
	require.NoError(t, err)
	initTestAddSeq(stB)
	bTree, err := BuildObjectTree(stB, b.Acl)
	require.NoError(t, err)
	res, err := bTree.AddContent(ctx, SignableChangeContent{Data: []byte("by b"), Key: b.Keys.SignKey, ShouldBeEncrypted: true, DataType: mockDataType})
	require.NoError(t, err)
	_, err = aTree.AddRawChanges(ctx, RawChangesPayload{NewHeads: bTree.Heads(), RawChanges: []*treechangeproto.RawTreeChangeWithId{res.Added[0].RawTreeChangeWithId()}})
	require.NoError(t, err)

	require.NoError(t, exec.Execute("a.remove::b"))
	addRec, err := a.Acl.RecordBuilder().BuildAccountsAdd(list.AccountsAddPayload{Additions: []list.AccountAdd{{
		Identity: b.Keys.SignKey.GetPublic(), Permissions: list.AclPermissionsWriter, Metadata: []byte("b")}}})
	require.NoError(t, err)
	wrapped := listtest.WrapAclRecord(addRec)
	require.NoError(t, a.Acl.AddRawRecord(wrapped))
	require.NoError(t, b.Acl.AddRawRecord(wrapped))

	// every member can still open the tree from its storage
	st2, err := NewStorage(ctx, root.Id, heads, store)
	require.NoError(t, err)
	initTestAddSeq(st2)
	_, err = BuildObjectTree(st2, a.Acl)
	require.NoError(t, err, "a member can no longer build the tree: the re-added writer's old change fails validation")
}
