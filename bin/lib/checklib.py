"""Orchestration shared by all property checks (see bin/check)."""
import argparse, concurrent.futures, fcntl, glob, hashlib, json, os, re, shutil, subprocess, sys, time

ROOT = os.path.dirname(os.path.dirname(os.path.dirname(os.path.abspath(__file__))))
COQ = os.path.join(ROOT, "coq")
HARNESS = os.path.join(ROOT, "harness")
WORK = os.path.join(ROOT, ".work")
REPO = os.environ.get("VERIF_REPO", "/repo")
COQ_WARN = "-notation-overridden,-deprecated-hint-without-locality,-deprecated-instance-without-locality"

FORBIDDEN = re.compile(
    r"\b(Admitted|admit|Axiom|Axioms|Parameter|Parameters|Conjecture|Admit Obligations|bypass_check|"
    r"Unset Guard Checking|Unset Positivity Checking|Unset Universe Checking|type-in-type|impredicative-set)\b")


def log(msg):
    print(msg, flush=True)


def run(cmd, cwd=None, timeout=None, env=None, capture=True):
    e = dict(os.environ)
    if env:
        e.update(env)
    try:
        p = subprocess.run(cmd, cwd=cwd, timeout=timeout, env=e, stdout=subprocess.PIPE if capture else None,
                           stderr=subprocess.STDOUT if capture else None, text=True, errors="replace")
        return p.returncode, p.stdout or ""
    except subprocess.TimeoutExpired as ex:
        out = ex.stdout if isinstance(ex.stdout, str) else (ex.stdout or b"").decode("utf8", "replace")
        return 124, (out or "") + "\n[timeout after %ss]" % timeout


# ------------------------------------------------------------------------------------------------ Coq

def coq_files():
    fs = []
    for d in ("Lib", "Model", "Proofs", "Properties", "Run"):
        fs += sorted(glob.glob(os.path.join(COQ, d, "*.v")))
    return [os.path.relpath(f, COQ) for f in fs]


def ensure_coq_project():
    want = "-Q . AnySync\n-arg -w -arg %s\n" % COQ_WARN + "\n".join(coq_files()) + "\n"
    p = os.path.join(COQ, "_CoqProject")
    cur = open(p).read() if os.path.exists(p) else ""
    if cur != want or not os.path.exists(os.path.join(COQ, "Makefile")):
        open(p, "w").write(want)
        rc, out = run(["coq_makefile", "-f", "_CoqProject", "-o", "Makefile"], cwd=COQ, timeout=120)
        if rc != 0:
            raise RuntimeError("coq_makefile failed:\n" + out)


def coq_build(timeout=3000, targets=None):
    """Full .vo build under an exclusive lock. Returns (ok, output)."""
    os.makedirs(WORK, exist_ok=True)
    with open(os.path.join(WORK, "coq.lock"), "w") as lk:
        fcntl.flock(lk, fcntl.LOCK_EX)
        ensure_coq_project()
        cmd = ["make", "-j16"] + (targets or ["-k"])
        rc, out = run(cmd, cwd=COQ, timeout=timeout)
        return rc == 0, out


def scan_forbidden(files):
    hits = []
    for f in files:
        txt = open(os.path.join(COQ, f)).read()
        txt = re.sub(r"\(\*.*?\*\)", "", txt, flags=re.S)  # strip comments
        for m in FORBIDDEN.finditer(txt):
            hits.append("%s: %s" % (f, m.group(0)))
    return hits


def coq_deps(vfile):
    """Transitive AnySync dependencies (relative .v paths) of a file, via coqdep."""
    rc, out = run(["coqdep", "-Q", ".", "AnySync"] + coq_files(), cwd=COQ, timeout=120)
    deps = {}
    for line in out.splitlines():
        if ":" not in line:
            continue
        lhs, rhs = line.split(":", 1)
        tgt = [t for t in lhs.split() if t.endswith(".vo")]
        if not tgt:
            continue
        src = tgt[0][:-1]
        deps[src] = [d[:-1] for d in rhs.split() if d.endswith(".vo") and not d.startswith("/")]
    seen, todo = set(), [vfile]
    while todo:
        f = todo.pop()
        if f in seen:
            continue
        seen.add(f)
        todo += deps.get(f, [])
    return sorted(seen)


def compile_property(pid, propfile, workdir):
    """Re-compile the property file; returns dict(ok, theorems, examples, assumptions, output)."""
    out_vo = os.path.join(workdir, os.path.basename(propfile) + "o")
    rc, out = run(["coqc", "-Q", COQ, "AnySync", "-w", COQ_WARN, os.path.join(COQ, propfile), "-o", out_vo],
                  timeout=1200)
    src = open(os.path.join(COQ, propfile)).read()
    src_nc = re.sub(r"\(\*.*?\*\)", "", src, flags=re.S)
    theorems = re.findall(r"^\s*(?:Theorem|Corollary)\s+(\w+)", src_nc, flags=re.M)
    examples = re.findall(r"^\s*Example\s+(\w+)", src_nc, flags=re.M)
    printed = re.findall(r"^\s*Print Assumptions\s+(\w+)", src_nc, flags=re.M)
    # parse Print Assumptions blocks in order
    blocks, cur = [], None
    for line in out.splitlines():
        if line.startswith("Closed under the global context"):
            blocks.append([])
            cur = None
        elif line.startswith("Axioms:") or line.startswith("Section Variables:"):
            cur = []
            blocks.append(cur)
        elif cur is not None and line.strip():
            cur.append(line.rstrip())
    assumptions = {}
    for name, b in zip(printed, blocks):
        assumptions[name] = b
    axioms = sorted({re.split(r"\s*:\s", l.strip())[0] for b in blocks for l in b if re.match(r"^\S", l)})
    return dict(ok=(rc == 0 and len(blocks) == len(printed)), rc=rc, theorems=theorems, examples=examples,
                printed=printed, assumptions=assumptions, axioms=axioms, output=out)


def run_shard(path):
    d = os.path.dirname(path)
    rc, out = run(["coqc", "-Q", COQ, "AnySync", "-w", COQ_WARN, os.path.basename(path)], cwd=d, timeout=3000)
    for ext in (".vo", ".glob", ".vok", ".vos"):
        try:
            os.remove(path[:-2] + ext)
        except OSError:
            pass
    aux = os.path.join(d, "." + os.path.basename(path)[:-2] + ".aux")
    if os.path.exists(aux):
        os.remove(aux)
    if rc != 0:
        return None, out
    m = re.search(r"\bR\s*=\s*(.*?)\n\s*:\s*list", out, flags=re.S)
    if not m:
        return None, out
    pairs = [(int(a), int(b)) for a, b in re.findall(r"\(\s*(\d+)(?:%N)?\s*,\s*(\d+)(?:%N)?\s*\)", m.group(1))]
    return pairs, out


# ------------------------------------------------------------------------------------------------ Go harness

def go_env():
    return {"GOFLAGS": "-mod=mod", "GOPROXY": "off", "CGO_ENABLED": os.environ.get("CGO_ENABLED", "1")}


def build_harness(name, workdir):
    os.makedirs(os.path.join(WORK, "bin"), exist_ok=True)
    binpath = os.path.join(WORK, "bin", name + ("" if REPO == "/repo" else "_" + hashlib.sha1(REPO.encode()).hexdigest()[:8]))
    with open(os.path.join(WORK, "go.lock"), "w") as lk:
        fcntl.flock(lk, fcntl.LOCK_EX)
        args = ["go", "build", "-tags", "verif", "-o", binpath]
        sumsrc = os.path.join(REPO, "go.sum")
        if REPO == "/repo":
            if os.path.exists(sumsrc):
                shutil.copyfile(sumsrc, os.path.join(HARNESS, "go.sum"))
        else:
            mod = open(os.path.join(HARNESS, "go.mod")).read().replace("=> /repo", "=> " + REPO)
            alt = os.path.join(workdir, "alt.mod")
            open(alt, "w").write(mod)
            shutil.copyfile(sumsrc, os.path.join(workdir, "alt.sum"))
            args += ["-modfile", alt]
        args += ["./cmd/" + name]
        rc, out = run(args, cwd=HARNESS, timeout=1800, env=go_env())
    return rc == 0, binpath, out


# ------------------------------------------------------------------------------------------------ known findings

def load_known(pid):
    p = os.path.join(ROOT, "known_findings.json")
    if not os.path.exists(p):
        return []
    data = json.load(open(p))
    return [f for f in data.get("findings", []) if f.get("property") == pid and f.get("status") == "open"]


def case_tags(desc):
    d = desc.get("desc", desc) if isinstance(desc, dict) else {}
    t = d.get("tags") if isinstance(d, dict) else None
    return t or []


# ------------------------------------------------------------------------------------------------ one harness pass

def harness_pass(pid, prop, binpath, workdir, label, seed, tier, budget, replay=None, timeout=3000):
    """Runs the harness once and evaluates its case files. Returns a dict with counts and failing cases."""
    out = os.path.join(workdir, label)
    shutil.rmtree(out, ignore_errors=True)
    os.makedirs(out)
    cmd = [binpath, "-out", out, "-seed", str(seed), "-tier", tier, "-budget", str(budget)]
    if replay:
        cmd += ["-replay", os.path.abspath(replay)]
    t0 = time.time()
    rc, hout = run(cmd, cwd=out, timeout=timeout, env={"VERIF_REPO": REPO})
    open(os.path.join(out, "harness.log"), "w").write(hout)
    res = dict(label=label, dir=out, harness_rc=rc, harness_s=round(time.time() - t0, 2), fails=[], direct=[],
               stats={}, infra_error=None, cases={})
    sp = os.path.join(out, "stats.json")
    if rc != 0 or not os.path.exists(sp):
        res["infra_error"] = "harness exited with %s (log: %s)" % (rc, os.path.join(out, "harness.log"))
        res["harness_tail"] = hout[-3000:]
        return res
    res["stats"] = json.load(open(sp))
    res["direct"] = res["stats"].get("direct_violations") or []
    shards = sorted(glob.glob(os.path.join(out, "cases_*.v")))
    t1 = time.time()
    with concurrent.futures.ThreadPoolExecutor(max_workers=min(16, max(1, len(shards)))) as ex:
        results = list(ex.map(run_shard, shards))
    res["coq_s"] = round(time.time() - t1, 2)
    for sh, (pairs, cout) in zip(shards, results):
        if pairs is None:
            res["infra_error"] = "coqc failed on %s:\n%s" % (sh, cout[-3000:])
            return res
        res["fails"] += pairs
    # load failing case descriptions
    want = {i for i, _ in res["fails"]} | {d.get("case") for d in res["direct"]}
    if want:
        with open(os.path.join(out, "cases.jsonl")) as f:
            for line in f:
                try:
                    j = json.loads(line)
                except ValueError:
                    continue
                if j.get("case") in want:
                    res["cases"][j["case"]] = j
    return res


def classify(pid, res, known):
    """Split failures into: spec violations (unknown / known) and model mismatches."""
    known_tags = {}
    for f in known:
        for t in f.get("match", {}).get("tags", []):
            known_tags[t] = f
    unknown, knownhits, mismatches = [], {}, []
    for idx, code in res["fails"]:
        c = res["cases"].get(idx, {"case": idx})
        tags = case_tags(c)
        hit = next((known_tags[t] for t in tags if t in known_tags), None)
        if code == 2:
            if hit:
                knownhits.setdefault(hit["id"], []).append(c)
            else:
                unknown.append(("spec", c))
        else:
            if hit:
                knownhits.setdefault(hit["id"], []).append(c)
            else:
                mismatches.append(c)
    for d in res["direct"]:
        c = dict(res["cases"].get(d.get("case"), {"case": d.get("case")}))
        c["direct"] = d
        hit = known_tags.get(d.get("tag"))
        if hit:
            knownhits.setdefault(hit["id"], []).append(c)
        else:
            unknown.append(("direct", c))
    return unknown, knownhits, mismatches


def write_replay(pid, kind, payload_lines, header):
    os.makedirs(os.path.join(ROOT, "replays"), exist_ok=True)
    path = os.path.join(ROOT, "replays", "%s-%s-%d.jsonl" % (pid, kind, int(time.time() * 1000) % 10**10))
    with open(path, "w") as f:
        f.write(json.dumps({"property": pid, "kind": kind, **header}) + "\n")
        for l in payload_lines:
            f.write(json.dumps(l) + "\n")
    return path


# ------------------------------------------------------------------------------------------------ main

def main(argv):
    ap = argparse.ArgumentParser()
    ap.add_argument("pid")
    ap.add_argument("--tier", default=os.environ.get("VERIF_TIER", "quick"))
    ap.add_argument("--replay")
    ap.add_argument("--no-search", action="store_true")
    a = ap.parse_args(argv)
    tier = os.environ.get("VERIF_TIER", a.tier) if a.tier not in ("quick", "thorough") else a.tier
    pid = a.pid
    seed = int(os.environ.get("VERIF_SEED", "20260923"))
    t_start = time.time()
    prop = json.load(open(os.path.join(ROOT, "props", pid + ".json")))
    workdir = os.path.join(WORK, pid)
    os.makedirs(workdir, exist_ok=True)
    known = load_known(pid)
    broken = []       # (what, detail) — proof obligations / correspondence that no longer check
    violations = []   # concrete failing inputs

    # 1. proofs
    log("[%s] building Coq development (full .vo build)" % pid)
    ok, out = coq_build(targets=[prop["coq_property_file"] + "o", "Run/%s.vo" % prop["run_module"]])
    coqinfo = dict(ok=False, theorems=[], examples=[], axioms=[], assumptions={}, printed=[])
    deps = []
    if not ok:
        broken.append(("proof", "coq build failed:\n" + out[-4000:]))
    else:
        deps = coq_deps(prop["coq_property_file"])
        hits = scan_forbidden(deps)
        if hits:
            broken.append(("proof", "forbidden constructs in the development: " + "; ".join(hits)))
        coqinfo = compile_property(pid, prop["coq_property_file"], workdir)
        if not coqinfo["ok"]:
            broken.append(("proof", "Properties file does not check:\n" + coqinfo["output"][-4000:]))
        log("[%s] %d theorems, %d examples re-checked; axioms: %s" % (
            pid, len(coqinfo["theorems"]), len(coqinfo["examples"]), coqinfo["axioms"] or "none"))
    coqchk_out = None
    if tier == "thorough" and ok and os.environ.get("VERIF_SKIP_COQCHK") != "1":
        mod = "AnySync." + prop["coq_property_file"][:-2].replace("/", ".")
        log("[%s] coqchk -silent -o %s" % (pid, mod))
        with open(os.path.join(WORK, "coq.lock"), "w") as lk:
            fcntl.flock(lk, fcntl.LOCK_EX)
            rc, coqchk_out = run(["coqchk", "-silent", "-o", "-Q", COQ, "AnySync", mod], cwd=COQ, timeout=3000)
        if rc != 0:
            broken.append(("proof", "coqchk failed:\n" + coqchk_out[-3000:]))

    # 2. harness
    passes = []
    hname = prop["harness"]
    log("[%s] building harness %s against %s (-tags verif)" % (pid, hname, REPO))
    okb, binpath, bout = build_harness(hname, workdir)
    if not okb:
        broken.append(("correspondence", "harness does not build against the current tree:\n" + bout[-4000:]))
    else:
        if a.replay:
            passes.append(harness_pass(pid, prop, binpath, workdir, "replay", seed, tier, 1, replay=a.replay))
        else:
            for i, cf in enumerate(sorted(glob.glob(os.path.join(ROOT, "corpus", pid, "*.jsonl")))):
                passes.append(harness_pass(pid, prop, binpath, workdir, "corpus%d" % i, seed, tier, 1, replay=cf))
            passes.append(harness_pass(pid, prop, binpath, workdir, "run", seed, tier, 1,
                                       timeout=prop.get("timeout_s", {}).get(tier, 3000)))
    knownhits_all = {}
    mismatches_all = []
    for res in passes:
        if res["infra_error"]:
            broken.append(("correspondence", res["infra_error"] + "\n" + res.get("harness_tail", "")))
            continue
        unknown, knownhits, mismatches = classify(pid, res, known)
        violations += unknown
        mismatches_all += mismatches
        for k, v in knownhits.items():
            knownhits_all.setdefault(k, []).extend(v)
        log("[%s] pass %s: %d cases, %d failing (spec/direct unknown %d, known %d, model mismatches %d) harness %.1fs coq %.1fs" % (
            pid, res["label"], res["stats"].get("evaluations", 0), len(res["fails"]) + len(res["direct"]), len(unknown),
            sum(len(v) for v in knownhits.values()), len(mismatches), res["harness_s"], res.get("coq_s", 0)))
    if mismatches_all:
        broken.append(("correspondence", "%d cases where the implementation's observables differ from the model's" % len(mismatches_all)))

    # 3. violation search when something is broken but no concrete failing input is known yet
    searched = 0
    if broken and not violations and okb and not a.no_search and not a.replay:
        log("[%s] %s broken — searching for a concrete failing input (larger neighbourhood)" % (pid, broken[0][0]))
        t_search = time.time()
        for k in range(1, 3):
            if time.time() - t_search > 240:
                break
            res = harness_pass(pid, prop, binpath, workdir, "search%d" % k, seed + 7919 * k, tier, 2 * k, timeout=600)
            searched += res["stats"].get("evaluations", 0) if res["stats"] else 0
            if res["infra_error"]:
                continue
            unknown, knownhits, mismatches = classify(pid, res, known)
            mismatches_all += mismatches
            if unknown:
                violations += unknown
                break

    # 4. verdict
    main_pass = next((p for p in passes if p["label"] in ("run", "replay")), None)
    stats = (main_pass or {}).get("stats") or {}
    evaluations = sum((p["stats"] or {}).get("evaluations", 0) for p in passes) + searched
    exit_code = 0
    for f in known:
        n = len(knownhits_all.get(f["id"], []))
        log("KNOWN-FINDING: property=%s %s [%s; reproduced in %d case(s) this run]" % (pid, f["what"], f["id"], n))
    replay_path = None
    if violations:
        violations.sort(key=lambda v: len(json.dumps(v[1])))
        replay_path = write_replay(pid, "violation", [v[1] for v in violations[:20]],
                                   {"what": "cases on which the IMPLEMENTATION's observed behaviour violates the property predicate (spec_%s) or crashed/hung" % pid,
                                    "broken": [b[0] + ": " + b[1][:500] for b in broken],
                                    "replay_cmd": "bin/check %s --replay <this file>" % pid})
        log("VIOLATION property=%s replay=%s" % (pid, replay_path))
        exit_code = 1
    elif broken:
        replay_path = write_replay(pid, "broken", mismatches_all[:20],
                                   {"what": "no longer checks: " + "; ".join(sorted({b[0] for b in broken})),
                                    "theorem_or_correspondence": [b[0] + ": " + b[1][:2000] for b in broken],
                                    "property_file": prop["coq_property_file"], "run_module": prop["run_module"],
                                    "searched_cases": searched})
        log("VIOLATION property=%s replay=%s no-failing-input-found" % (pid, replay_path))
        exit_code = 1
    else:
        log("[%s] OK: property held on everything explored" % pid)

    # 5. evidence
    obligations = len(coqinfo["theorems"]) + len(coqinfo["examples"])
    discharged = obligations if (coqinfo["ok"] and ok) else 0
    lemma_count = 0
    for f in deps:
        txt = re.sub(r"\(\*.*?\*\)", "", open(os.path.join(COQ, f)).read(), flags=re.S)
        lemma_count += len(re.findall(r"^\s*(?:Lemma|Theorem|Corollary|Example|Fact|Remark)\s+\w+", txt, flags=re.M))
    tb = [
        "Coq 8.16.1 kernel (coqc full .vo build; vm_compute used for closed examples and for evaluating the model on harness cases; native_compute not used)",
        "Print Assumptions under every property theorem this run: " + (", ".join(coqinfo["axioms"]) if coqinfo["axioms"] else "Closed under the global context (no axioms)"),
        "hand-written Gallina model tied to the code only by the correspondence check (Go harness -> observed cases -> coqc evaluates model_ok/spec_ok); harness, case printer and bin/check are unverified glue",
    ] + prop.get("trusted_base", [])
    if coqchk_out is not None:
        tb.append("coqchk -silent -o: " + " ".join(coqchk_out.split())[-1500:])
    ev = {
        "property_id": pid, "tier": tier, "seed": seed, "level": "proof",
        "coverage": {
            "obligations": obligations, "discharged": discharged,
            "checker_cmd": "make -C coq -j16 && coqc -Q coq AnySync coq/%s (+ coqc on every generated cases_*.v)" % prop["coq_property_file"],
            "trusted_base": tb,
            "theorems": coqinfo["theorems"], "examples": coqinfo["examples"],
            "supporting_lemmas_in_dependency_closure": lemma_count,
            "coq_files": deps,
            "evaluations": evaluations,
            "distinct_nontrivial": stats.get("distinct_nontrivial", 0),
            "rule": stats.get("rule", ""),
            "samples": (stats.get("samples") or [])[:5] or [{"note": "no harness samples (harness did not run)"}],
            "distribution": stats.get("distribution", {}),
            "traces_validated_against_impl": evaluations,
            "model_mismatches": len(mismatches_all),
            "known_finding_hits": {k: len(v) for k, v in knownhits_all.items()},
            "corpus_files": len(glob.glob(os.path.join(ROOT, "corpus", pid, "*.jsonl"))),
            "violation_search_cases": searched,
            "repo": REPO,
        },
        "assumptions": prop.get("assumptions", []),
        "wall_s": round(time.time() - t_start, 2),
        "violations": len(violations) + (1 if (broken and not violations) else 0),
    }
    # harness statistics are extra coverage keys; keys the evidence schema types are renamed when the harness'
    # value has another type, so a harness cannot make the evidence invalid
    typed = {"states": int, "transitions": int, "programs": int, "disagreements_checked": int,
             "explanation": str, "exhaustive": bool}
    for k, v in stats.items():
        if k in ev["coverage"] or k in ("direct_violations", "shards"):
            continue
        if k in typed and (not isinstance(v, typed[k]) or (typed[k] is int and isinstance(v, bool))):
            k = "harness_" + k
        ev["coverage"][k] = v
    # evidence/ only ever describes runs against /repo itself; runs against another checkout (VERIF_REPO,
    # used for seeded changes) write to .work/evidence_alt/
    evdir = os.path.join(ROOT, "evidence") if os.path.realpath(REPO) == "/repo" else os.path.join(WORK, "evidence_alt")
    os.makedirs(evdir, exist_ok=True)
    with open(os.path.join(evdir, pid + ".json"), "w") as f:
        json.dump(ev, f, indent=1)
    return exit_code
