(* C11 — base lemmas on outcomes and Go slice primitives; no-panic theorems for the crypto header slicing
   and the handshake frame reader (Model/Decoders.v parts 1 and 3). *)
From Coq Require Import List NArith Bool Arith Lia ZifyBool ZifyNat ZifyN.
Import ListNotations.
From AnySync Require Import Model.Decoders.
Open Scope N_scope.

Definition no_panic {A} (o : outcome A) : Prop := forall w, o <> Panic w.

Lemma no_panic_ok : forall A (v : A), no_panic (Ok v).
Proof. intros A v w H. discriminate H. Qed.
Lemma no_panic_err : forall A e, no_panic (@Err A e).
Proof. intros A e w H. discriminate H. Qed.
#[export] Hint Resolve no_panic_ok no_panic_err : c11.

Lemma no_panic_bind : forall A B (x : outcome A) (f : A -> outcome B),
  no_panic x -> (forall v, x = Ok v -> no_panic (f v)) -> no_panic (bind x f).
Proof.
  intros A B x f Hx Hf. destruct x as [v|e|w]; cbn [bind].
  - apply Hf. reflexivity.
  - apply no_panic_err.
  - exfalso. apply (Hx w). reflexivity.
Qed.

Lemma no_panic_class : forall A (o : outcome A), no_panic o <-> class_of o <> CPanic.
Proof.
  intros A o. split.
  - intros H. destruct o as [v|e|w]; cbn; try discriminate. exfalso. apply (H w). reflexivity.
  - intros H w Hw. subst o. apply H. reflexivity.
Qed.

Lemma no_panic_spec : forall A (o : outcome A), no_panic o <-> spec_C11 (class_of o) = true.
Proof.
  intros A o. rewrite no_panic_class. destruct o; cbn; split; intros H; try reflexivity; try discriminate.
  exfalso. apply H. reflexivity.
Qed.

Lemma blen_length : forall b, blen b = N.of_nat (length b).
Proof. reflexivity. Qed.

Lemma slice_to_ok : forall b j, j <= blen b -> slice_to b j = Ok (firstn (N.to_nat j) b).
Proof. intros b j H. unfold slice_to. destruct (N.leb_spec j (blen b)); [reflexivity|lia]. Qed.
Lemma slice_from_ok : forall b i, i <= blen b -> slice_from b i = Ok (skipn (N.to_nat i) b).
Proof. intros b i H. unfold slice_from. destruct (N.leb_spec i (blen b)); [reflexivity|lia]. Qed.
Lemma slice_to_panic : forall b j, blen b < j -> slice_to b j = Panic PSlice.
Proof. intros b j H. unfold slice_to. destruct (N.leb_spec j (blen b)); [lia|reflexivity]. Qed.
Lemma slice_from_panic : forall b i, blen b < i -> slice_from b i = Panic PSlice.
Proof. intros b i H. unfold slice_from. destruct (N.leb_spec i (blen b)); [lia|reflexivity]. Qed.

Lemma index_ok : forall b i, i < blen b -> exists x, index b i = Ok x.
Proof.
  intros b i H. unfold index. destruct (nth_error b (N.to_nat i)) as [x|] eqn:E.
  - exists x. reflexivity.
  - apply nth_error_None in E. unfold blen in H. lia.
Qed.

Lemma blen_skipn : forall b n, blen (skipn n b) = blen b - N.of_nat n.
Proof. intros b n. unfold blen. rewrite skipn_length. lia. Qed.
Lemma blen_firstn : forall b n, blen (firstn n b) = N.min (N.of_nat n) (blen b).
Proof. intros b n. unfold blen. rewrite firstn_length. lia. Qed.

(* ------------------------------------------------------------------------------------------------ *)
(* (1) crypto                                                                                          *)

Theorem decrypt_x25519_no_panic : forall open enc, no_panic (decrypt_x25519 open enc).
Proof.
  intros open enc. unfold decrypt_x25519.
  destruct (N.ltb_spec (blen enc) 32) as [Hlt|Hge]; [apply no_panic_err|].
  unfold decrypt_x25519_legacy. rewrite slice_to_ok by lia. cbn [bind].
  rewrite slice_from_ok by lia. cbn [bind].
  destruct (open _ _); auto with c11.
Qed.

(* the code before the repair panics exactly on the short ciphertexts *)
Theorem decrypt_x25519_legacy_panics_iff : forall open enc,
  (exists w, decrypt_x25519_legacy open enc = Panic w) <-> blen enc < 32.
Proof.
  intros open enc. split.
  - intros [w H]. destruct (N.ltb_spec (blen enc) 32) as [Hlt|Hge]; [exact Hlt|].
    exfalso. revert H. unfold decrypt_x25519_legacy. rewrite slice_to_ok by lia. cbn [bind].
    rewrite slice_from_ok by lia. cbn [bind]. destruct (open _ _); discriminate.
  - intros Hlt. exists PSlice. unfold decrypt_x25519_legacy. rewrite slice_to_panic by lia. reflexivity.
Qed.

Theorem decrypt_x25519_legacy_refuted : exists open enc w, decrypt_x25519_legacy open enc = Panic w.
Proof. exists (fun _ _ => None), [1; 2; 3], PSlice. vm_compute. reflexivity. Qed.

(* on inputs the legacy code handles, the repair changes nothing *)
Theorem decrypt_x25519_conservative : forall open enc,
  32 <= blen enc -> decrypt_x25519 open enc = decrypt_x25519_legacy open enc.
Proof.
  intros open enc H. unfold decrypt_x25519. destruct (N.ltb_spec (blen enc) 32); [lia|reflexivity].
Qed.

Theorem ed25519_decrypt_no_panic : forall conv_ok open msg, no_panic (ed25519_decrypt conv_ok open msg).
Proof.
  intros conv_ok open msg. unfold ed25519_decrypt. destruct conv_ok; [apply decrypt_x25519_no_panic|apply no_panic_err].
Qed.

Theorem ed25519_decrypt_legacy_refuted : exists open msg w, ed25519_decrypt_legacy true open msg = Panic w.
Proof. exists (fun _ _ => None), [], PSlice. vm_compute. reflexivity. Qed.

Theorem aes_decrypt_no_panic : forall key open ct, no_panic (aes_decrypt key open ct).
Proof.
  intros key open ct. unfold aes_decrypt.
  destruct (N.eqb_spec (blen key) 32) as [Hk|Hk]; cbn [negb]; [|apply no_panic_err].
  destruct (N.ltb_spec (blen ct) 12) as [Hlt|Hge]; [apply no_panic_err|].
  rewrite slice_to_ok by lia. cbn [bind]. rewrite slice_to_ok by lia. cbn [bind].
  rewrite slice_from_ok by lia. cbn [bind]. destruct (open _ _); auto with c11.
Qed.

(* a successful decryption consumed a ciphertext of at least header size: the result is never produced from
   fewer bytes than the fixed header *)
Theorem decrypt_x25519_ok_len : forall open enc p, decrypt_x25519 open enc = Ok p -> 32 <= blen enc.
Proof.
  intros open enc p. unfold decrypt_x25519. destruct (N.ltb_spec (blen enc) 32); [discriminate|lia].
Qed.

(* ------------------------------------------------------------------------------------------------ *)
(* (3) handshake                                                                                       *)

Lemma reslice_grow_ok : forall b n, reslice_to (grow b n) n = Ok (mkBuf n (N.max (hb_cap b) (hb_len b + n))).
Proof.
  intros b n. unfold reslice_to, grow. cbn [hb_cap hb_len].
  destruct (N.leb_spec n (N.max (hb_cap b) (hb_len b + n))); [reflexivity|lia].
Qed.

Lemma le32_bound : forall a b c d, a < 256 -> b < 256 -> c < 256 -> d < 256 -> le32 a b c d < 4294967296.
Proof. intros a b c d Ha Hb Hc Hd. unfold le32. lia. Qed.

(* what a successful readMsg guarantees: the type is whitelisted, the declared size is within the limit, the
   buffer is exactly as long as the body, and the body was fully present *)
Lemma read_msg_ok_inv : forall allowed vt buf stream m buf' rest,
  read_msg allowed vt buf stream = Ok (m, buf', rest) ->
  mem_N (m_tp m) allowed = true /\ hb_len buf' <= size_limit /\ hb_len buf' <= hb_cap buf' /\
  blen stream = header_size + hb_len buf' + blen rest /\
  hb_cap buf' <= N.max (hb_cap buf) (hb_len buf + header_size + size_limit).
Proof.
  intros allowed vt buf stream m buf' rest. unfold read_msg.
  rewrite reslice_grow_ok. cbn [bind].
  destruct (N.ltb_spec (blen stream) header_size) as [Hs|Hs]; [discriminate|].
  unfold header_size in *.
  destruct (index_ok stream 0) as [tp Htp]; [lia|]. rewrite Htp. cbn [bind].
  destruct (mem_N tp allowed) eqn:Hmem; cbn [negb]; [|discriminate].
  destruct (index_ok stream 1) as [b1 Hb1]; [lia|]. rewrite Hb1. cbn [bind].
  destruct (index_ok stream 2) as [b2 Hb2]; [lia|]. rewrite Hb2. cbn [bind].
  destruct (index_ok stream 3) as [b3 Hb3]; [lia|]. rewrite Hb3. cbn [bind].
  destruct (index_ok stream 4) as [b4 Hb4]; [lia|]. rewrite Hb4. cbn [bind].
  set (size := le32 b1 b2 b3 b4).
  destruct (N.ltb_spec size_limit size) as [Hl|Hl]; [discriminate|].
  rewrite reslice_grow_ok. cbn [bind].
  rewrite slice_from_ok by lia. cbn [bind].
  set (rest0 := skipn (N.to_nat 5) stream).
  assert (Hr0 : blen rest0 = blen stream - 5) by (unfold rest0; rewrite blen_skipn; lia).
  clearbody rest0 size.
  destruct (N.ltb_spec (blen rest0) size) as [Hr|Hr]; [discriminate|].
  rewrite slice_to_ok by lia. cbn [bind]. rewrite slice_from_ok by lia. cbn [bind].
  assert (Hfin : forall c (X : outcome (hmsg * hbuf * bytes)),
            size <= c -> c <= N.max (hb_cap buf) (hb_len buf + 5 + size_limit) ->
            X = Ok (mkMsg tp, mkBuf size c, skipn (N.to_nat size) rest0) ->
            X = Ok (m, buf', rest) ->
            mem_N (m_tp m) allowed = true /\ hb_len buf' <= size_limit /\ hb_len buf' <= hb_cap buf' /\
            blen stream = 5 + hb_len buf' + blen rest /\
            hb_cap buf' <= N.max (hb_cap buf) (hb_len buf + 5 + size_limit)).
  { intros c X Hc Hc' HX HX'. rewrite HX in HX'. injection HX' as Hm Hb Hrest. subst m buf' rest.
    unfold m_tp, hb_len, hb_cap. rewrite blen_skipn. unfold size_limit in *.
    repeat split; try assumption; lia. }
  assert (Hcap : forall a c0, size <= N.max c0 (a + size)) by (intros a c0; lia).
  assert (Hcap2 : forall c0 l, N.max (N.max c0 (l + 5)) (5 + size) <= N.max c0 (l + 5 + size_limit))
    by (intros c0 l; unfold size_limit in *; lia).
  destruct ((tp =? msg_cred) || (tp =? msg_ack) || (tp =? msg_proto)).
  - destruct (vt tp _); [|discriminate]. intros H.
    eapply Hfin; [apply Hcap|apply (Hcap2 (hb_cap buf) (hb_len buf))|reflexivity|exact H].
  - intros H. eapply Hfin; [apply Hcap|apply (Hcap2 (hb_cap buf) (hb_len buf))|reflexivity|exact H].
Qed.

Theorem read_msg_no_panic : forall allowed vt buf stream, no_panic (read_msg allowed vt buf stream).
Proof.
  intros allowed vt buf stream. unfold read_msg.
  rewrite reslice_grow_ok. cbn [bind].
  destruct (N.ltb_spec (blen stream) header_size) as [Hs|Hs]; [apply no_panic_err|].
  unfold header_size in *.
  destruct (index_ok stream 0) as [tp Htp]; [lia|]. rewrite Htp. cbn [bind].
  destruct (mem_N tp allowed) eqn:Hmem; cbn [negb]; [|apply no_panic_err].
  destruct (index_ok stream 1) as [b1 Hb1]; [lia|]. rewrite Hb1. cbn [bind].
  destruct (index_ok stream 2) as [b2 Hb2]; [lia|]. rewrite Hb2. cbn [bind].
  destruct (index_ok stream 3) as [b3 Hb3]; [lia|]. rewrite Hb3. cbn [bind].
  destruct (index_ok stream 4) as [b4 Hb4]; [lia|]. rewrite Hb4. cbn [bind].
  set (size := le32 b1 b2 b3 b4).
  destruct (N.ltb_spec size_limit size) as [Hl|Hl]; [apply no_panic_err|].
  rewrite reslice_grow_ok. cbn [bind].
  rewrite slice_from_ok by lia. cbn [bind].
  set (rest0 := skipn (N.to_nat 5) stream).
  assert (Hr0 : blen rest0 = blen stream - 5) by (unfold rest0; rewrite blen_skipn; lia).
  clearbody rest0 size.
  destruct (N.ltb_spec (blen rest0) size) as [Hr|Hr]; [apply no_panic_err|].
  rewrite slice_to_ok by lia. cbn [bind]. rewrite slice_from_ok by lia. cbn [bind].
  destruct ((tp =? msg_cred) || (tp =? msg_ack) || (tp =? msg_proto)); [destruct (vt tp _)|]; auto with c11.
Qed.

Lemma mem_single : forall x y, mem_N x [y] = true -> x = y.
Proof. intros x y H. cbn in H. rewrite orb_false_r in H. apply N.eqb_eq. exact H. Qed.

Theorem incoming_handshake_no_panic : forall env buf stream, no_panic (incoming_handshake env buf stream).
Proof.
  intros env buf stream. unfold incoming_handshake.
  apply no_panic_bind; [apply read_msg_no_panic|]. intros [[m1 buf1] rest1] H1.
  apply read_msg_ok_inv in H1. destruct H1 as [Hm1 _]. apply mem_single in Hm1.
  unfold has_cred. rewrite Hm1, N.eqb_refl. cbn [need bind].
  destruct (e_cred_ok env); cbn [negb]; [|apply no_panic_err].
  destruct (e_write_ok env); cbn [negb]; [|apply no_panic_err].
  apply no_panic_bind; [apply read_msg_no_panic|]. intros [[m2 buf2] rest2] H2.
  apply read_msg_ok_inv in H2. destruct H2 as [Hm2 _]. apply mem_single in Hm2.
  unfold has_ack. rewrite Hm2, N.eqb_refl. cbn [need bind].
  destruct (e_ack_null env _); cbn [negb]; auto with c11.
Qed.

Theorem outgoing_handshake_no_panic : forall env buf stream, no_panic (outgoing_handshake env buf stream).
Proof.
  intros env buf stream. unfold outgoing_handshake.
  destruct (e_write_ok env); cbn [negb]; [|apply no_panic_err].
  apply no_panic_bind; [apply read_msg_no_panic|]. intros [[m1 buf1] rest1] H1.
  apply read_msg_ok_inv in H1. destruct H1 as [Hm1 _].
  cbn [mem_N] in Hm1. rewrite orb_false_r in Hm1.
  unfold has_ack, has_cred. destruct (N.eqb_spec (m_tp m1) msg_ack) as [Ha|Ha]; [apply no_panic_err|].
  cbn [orb] in Hm1. rewrite Hm1. cbn [need bind].
  destruct (e_cred_ok env); cbn [negb]; [|apply no_panic_err].
  apply no_panic_bind; [apply read_msg_no_panic|]. intros [[m2 buf2] rest2] H2.
  apply read_msg_ok_inv in H2. destruct H2 as [Hm2 _]. apply mem_single in Hm2.
  rewrite Hm2, N.eqb_refl. cbn [need bind].
  destruct (e_ack_null env _); cbn [negb]; auto with c11.
Qed.

Theorem incoming_proto_handshake_no_panic : forall env buf stream,
  no_panic (incoming_proto_handshake env buf stream).
Proof.
  intros env buf stream. unfold incoming_proto_handshake.
  apply no_panic_bind; [apply read_msg_no_panic|]. intros [[m1 buf1] rest1] H1.
  apply read_msg_ok_inv in H1. destruct H1 as [Hm1 _]. apply mem_single in Hm1.
  unfold has_proto. rewrite Hm1, N.eqb_refl. cbn [need bind].
  destruct (e_proto_allowed env _); cbn [negb]; [|apply no_panic_err].
  destruct (e_write_ok env); cbn [negb]; auto with c11.
Qed.

(* size bound: whatever the peer declares, the frame buffer never grows beyond max(previous cap, 5 + limit) *)
Theorem read_msg_buffer_bound : forall allowed vt buf stream m buf' rest,
  read_msg allowed vt buf stream = Ok (m, buf', rest) ->
  hb_len buf' <= size_limit /\ hb_cap buf' <= N.max (hb_cap buf) (hb_len buf + header_size + size_limit).
Proof.
  intros allowed vt buf stream m buf' rest H.
  pose proof (read_msg_ok_inv _ _ _ _ _ _ _ H) as [_ [Hl [_ [_ Hc]]]]. split; assumption.
Qed.
