(* C11 — base lemmas on outcomes and Go slice primitives; no-panic theorems for the crypto header slicing
   and the handshake frame reader (Model/Decoders.v parts 1 and 3). *)
From Coq Require Import List NArith Bool Arith Lia ZifyBool ZifyNat ZifyN.
Import ListNotations.
From AnySync Require Import Model.Decoders.
Open Scope N_scope.

Definition no_panic {A} (o : outcome A) : Prop := forall w, o <> Panic w.

Lemma no_panic_ok : forall A (v : A), no_panic (Ok v).
Proof. intros A v w H. discriminate H. Qed.
Lemma no_panic_err : forall A e, no_panic (@Err A e).
Proof. intros A e w H. discriminate H. Qed.
#[export] Hint Resolve no_panic_ok no_panic_err : c11.

Lemma no_panic_bind : forall A B (x : outcome A) (f : A -> outcome B),
  no_panic x -> (forall v, x = Ok v -> no_panic (f v)) -> no_panic (bind x f).
Proof.
  intros A B x f Hx Hf. destruct x as [v|e|w]; cbn [bind].
  - apply Hf. reflexivity.
  - apply no_panic_err.
  - exfalso. apply (Hx w). reflexivity.
Qed.

Lemma no_panic_class : forall A (o : outcome A), no_panic o <-> class_of o <> CPanic.
Proof.
  intros A o. split.
  - intros H. destruct o as [v|e|w]; cbn; try discriminate. exfalso. apply (H w). reflexivity.
  - intros H w Hw. subst o. apply H. reflexivity.
Qed.

Lemma no_panic_spec : forall A (o : outcome A), no_panic o <-> spec_C11 (class_of o) = true.
Proof.
  intros A o. rewrite no_panic_class. destruct o; cbn; split; intros H; try reflexivity; try discriminate.
  exfalso. apply H. reflexivity.
Qed.

Lemma blen_length : forall b, blen b = N.of_nat (length b).
Proof. reflexivity. Qed.

Lemma slice_to_ok : forall b j, j <= blen b -> slice_to b j = Ok (firstn (N.to_nat j) b).
Proof. intros b j H. unfold slice_to. destruct (N.leb_spec j (blen b)); [reflexivity|lia]. Qed.
Lemma slice_from_ok : forall b i, i <= blen b -> slice_from b i = Ok (skipn (N.to_nat i) b).
Proof. intros b i H. unfold slice_from. destruct (N.leb_spec i (blen b)); [reflexivity|lia]. Qed.
Lemma slice_to_panic : forall b j, blen b < j -> slice_to b j = Panic PSlice.
Proof. intros b j H. unfold slice_to. destruct (N.leb_spec j (blen b)); [lia|reflexivity]. Qed.
Lemma slice_from_panic : forall b i, blen b < i -> slice_from b i = Panic PSlice.
Proof. intros b i H. unfold slice_from. destruct (N.leb_spec i (blen b)); [lia|reflexivity]. Qed.

Lemma index_ok : forall b i, i < blen b -> exists x, index b i = Ok x.
Proof.
  intros b i H. unfold index. destruct (nth_error b (N.to_nat i)) as [x|] eqn:E.
  - exists x. reflexivity.
  - apply nth_error_None in E. unfold blen in H. lia.
Qed.

Lemma blen_skipn : forall b n, blen (skipn n b) = blen b - N.of_nat n.
Proof. intros b n. unfold blen. rewrite skipn_length. lia. Qed.
Lemma blen_firstn : forall b n, blen (firstn n b) = N.min (N.of_nat n) (blen b).
Proof. intros b n. unfold blen. rewrite firstn_length. lia. Qed.

(* ------------------------------------------------------------------------------------------------ *)
(* (1) crypto                                                                                          *)

Theorem decrypt_x25519_no_panic : forall open enc, no_panic (decrypt_x25519 open enc).
Proof.
  intros open enc. unfold decrypt_x25519.
  destruct (N.ltb_spec (blen enc) 32) as [Hlt|Hge]; [apply no_panic_err|].
  unfold decrypt_x25519_legacy. rewrite slice_to_ok by lia. cbn [bind].
  rewrite slice_from_ok by lia. cbn [bind].
  destruct (open _ _); auto with c11.
Qed.

(* the code before the repair panics exactly on the short ciphertexts *)
Theorem decrypt_x25519_legacy_panics_iff : forall open enc,
  (exists w, decrypt_x25519_legacy open enc = Panic w) <-> blen enc < 32.
Proof.
  intros open enc. split.
  - intros [w H]. destruct (N.ltb_spec (blen enc) 32) as [Hlt|Hge]; [exact Hlt|].
    exfalso. revert H. unfold decrypt_x25519_legacy. rewrite slice_to_ok by lia. cbn [bind].
    rewrite slice_from_ok by lia. cbn [bind]. destruct (open _ _); discriminate.
  - intros Hlt. exists PSlice. unfold decrypt_x25519_legacy. rewrite slice_to_panic by lia. reflexivity.
Qed.

Theorem decrypt_x25519_legacy_refuted : exists open enc w, decrypt_x25519_legacy open enc = Panic w.
Proof. exists (fun _ _ => None), [1; 2; 3], PSlice. vm_compute. reflexivity. Qed.

(* on inputs the legacy code handles, the repair changes nothing *)
Theorem decrypt_x25519_conservative : forall open enc,
  32 <= blen enc -> decrypt_x25519 open enc = decrypt_x25519_legacy open enc.
Proof.
  intros open enc H. unfold decrypt_x25519. destruct (N.ltb_spec (blen enc) 32); [lia|reflexivity].
Qed.

Theorem ed25519_decrypt_no_panic : forall conv_ok open msg, no_panic (ed25519_decrypt conv_ok open msg).
Proof.
  intros conv_ok open msg. unfold ed25519_decrypt. destruct conv_ok; [apply decrypt_x25519_no_panic|apply no_panic_err].
Qed.

Theorem ed25519_decrypt_legacy_refuted : exists open msg w, ed25519_decrypt_legacy true open msg = Panic w.
Proof. exists (fun _ _ => None), [], PSlice. vm_compute. reflexivity. Qed.

Theorem aes_decrypt_no_panic : forall key open ct, no_panic (aes_decrypt key open ct).
Proof.
  intros key open ct. unfold aes_decrypt.
  destruct (N.eqb_spec (blen key) 32) as [Hk|Hk]; cbn [negb]; [|apply no_panic_err].
  destruct (N.ltb_spec (blen ct) 12) as [Hlt|Hge]; [apply no_panic_err|].
  rewrite slice_to_ok by lia. cbn [bind]. rewrite slice_to_ok by lia. cbn [bind].
  rewrite slice_from_ok by lia. cbn [bind]. destruct (open _ _); auto with c11.
Qed.

(* a successful decryption consumed a ciphertext of at least header size: the result is never produced from
   fewer bytes than the fixed header *)
Theorem decrypt_x25519_ok_len : forall open enc p, decrypt_x25519 open enc = Ok p -> 32 <= blen enc.
Proof.
  intros open enc p. unfold decrypt_x25519. destruct (N.ltb_spec (blen enc) 32); [discriminate|lia].
Qed.

(* ------------------------------------------------------------------------------------------------ *)
(* (3) handshake                                                                                       *)

Lemma reslice_grow_ok : forall b n, reslice_to (grow b n) n = Ok (mkBuf n (N.max (hb_cap b) (hb_len b + n))).
Proof.
  intros b n. unfold reslice_to, grow. cbn [hb_cap hb_len].
  destruct (N.leb_spec n (N.max (hb_cap b) (hb_len b + n))); [reflexivity|lia].
Qed.

Lemma le32_bound : forall a b c d, a < 256 -> b < 256 -> c < 256 -> d < 256 -> le32 a b c d < 4294967296.
Proof. intros a b c d Ha Hb Hc Hd. unfold le32. lia. Qed.

(* what a successful readMsg guarantees: the type is whitelisted, the declared size is within the limit, the
   buffer is exactly as long as the body, and the body was fully present — whatever a short read ends in *)
Lemma read_msg_e_ok_inv : forall short allowed vt buf stream m buf' rest,
  read_msg_e short allowed vt buf stream = Ok (m, buf', rest) ->
  mem_N (m_tp m) allowed = true /\ hb_len buf' <= size_limit /\ hb_len buf' <= hb_cap buf' /\
  blen stream = header_size + hb_len buf' + blen rest /\
  hb_cap buf' <= N.max (hb_cap buf) (hb_len buf + header_size + size_limit).
Proof.
  intros short allowed vt buf stream m buf' rest. unfold read_msg_e.
  rewrite reslice_grow_ok. cbn [bind].
  destruct (N.ltb_spec (blen stream) header_size) as [Hs|Hs]; [discriminate|].
  unfold header_size in *.
  destruct (index_ok stream 0) as [tp Htp]; [lia|]. rewrite Htp. cbn [bind].
  destruct (mem_N tp allowed) eqn:Hmem; cbn [negb]; [|discriminate].
  destruct (index_ok stream 1) as [b1 Hb1]; [lia|]. rewrite Hb1. cbn [bind].
  destruct (index_ok stream 2) as [b2 Hb2]; [lia|]. rewrite Hb2. cbn [bind].
  destruct (index_ok stream 3) as [b3 Hb3]; [lia|]. rewrite Hb3. cbn [bind].
  destruct (index_ok stream 4) as [b4 Hb4]; [lia|]. rewrite Hb4. cbn [bind].
  set (size := le32 b1 b2 b3 b4).
  destruct (N.ltb_spec size_limit size) as [Hl|Hl]; [discriminate|].
  rewrite reslice_grow_ok. cbn [bind].
  rewrite slice_from_ok by lia. cbn [bind].
  set (rest0 := skipn (N.to_nat 5) stream).
  assert (Hr0 : blen rest0 = blen stream - 5) by (unfold rest0; rewrite blen_skipn; lia).
  clearbody rest0 size.
  destruct (N.ltb_spec (blen rest0) size) as [Hr|Hr]; [discriminate|].
  rewrite slice_to_ok by lia. cbn [bind]. rewrite slice_from_ok by lia. cbn [bind].
  assert (Hfin : forall c (X : outcome (hmsg * hbuf * bytes)),
            size <= c -> c <= N.max (hb_cap buf) (hb_len buf + 5 + size_limit) ->
            X = Ok (mkMsg tp, mkBuf size c, skipn (N.to_nat size) rest0) ->
            X = Ok (m, buf', rest) ->
            mem_N (m_tp m) allowed = true /\ hb_len buf' <= size_limit /\ hb_len buf' <= hb_cap buf' /\
            blen stream = 5 + hb_len buf' + blen rest /\
            hb_cap buf' <= N.max (hb_cap buf) (hb_len buf + 5 + size_limit)).
  { intros c X Hc Hc' HX HX'. rewrite HX in HX'. injection HX' as Hm Hb Hrest. subst m buf' rest.
    unfold m_tp, hb_len, hb_cap. rewrite blen_skipn. unfold size_limit in *.
    repeat split; try assumption; lia. }
  assert (Hcap : forall a c0, size <= N.max c0 (a + size)) by (intros a c0; lia).
  assert (Hcap2 : forall c0 l, N.max (N.max c0 (l + 5)) (5 + size) <= N.max c0 (l + 5 + size_limit))
    by (intros c0 l; unfold size_limit in *; lia).
  destruct ((tp =? msg_cred) || (tp =? msg_ack) || (tp =? msg_proto)).
  - destruct (vt tp _); [|discriminate]. intros H.
    eapply Hfin; [apply Hcap|apply (Hcap2 (hb_cap buf) (hb_len buf))|reflexivity|exact H].
  - intros H. eapply Hfin; [apply Hcap|apply (Hcap2 (hb_cap buf) (hb_len buf))|reflexivity|exact H].
Qed.

Lemma read_msg_ok_inv : forall allowed vt buf stream m buf' rest,
  read_msg allowed vt buf stream = Ok (m, buf', rest) ->
  mem_N (m_tp m) allowed = true /\ hb_len buf' <= size_limit /\ hb_len buf' <= hb_cap buf' /\
  blen stream = header_size + hb_len buf' + blen rest /\
  hb_cap buf' <= N.max (hb_cap buf) (hb_len buf + header_size + size_limit).
Proof. intros allowed vt buf stream m buf' rest. apply read_msg_e_ok_inv. Qed.

Theorem read_msg_e_no_panic : forall short allowed vt buf stream,
  no_panic (read_msg_e short allowed vt buf stream).
Proof.
  intros short allowed vt buf stream. unfold read_msg_e.
  rewrite reslice_grow_ok. cbn [bind].
  destruct (N.ltb_spec (blen stream) header_size) as [Hs|Hs]; [apply no_panic_err|].
  unfold header_size in *.
  destruct (index_ok stream 0) as [tp Htp]; [lia|]. rewrite Htp. cbn [bind].
  destruct (mem_N tp allowed) eqn:Hmem; cbn [negb]; [|apply no_panic_err].
  destruct (index_ok stream 1) as [b1 Hb1]; [lia|]. rewrite Hb1. cbn [bind].
  destruct (index_ok stream 2) as [b2 Hb2]; [lia|]. rewrite Hb2. cbn [bind].
  destruct (index_ok stream 3) as [b3 Hb3]; [lia|]. rewrite Hb3. cbn [bind].
  destruct (index_ok stream 4) as [b4 Hb4]; [lia|]. rewrite Hb4. cbn [bind].
  set (size := le32 b1 b2 b3 b4).
  destruct (N.ltb_spec size_limit size) as [Hl|Hl]; [apply no_panic_err|].
  rewrite reslice_grow_ok. cbn [bind].
  rewrite slice_from_ok by lia. cbn [bind].
  set (rest0 := skipn (N.to_nat 5) stream).
  assert (Hr0 : blen rest0 = blen stream - 5) by (unfold rest0; rewrite blen_skipn; lia).
  clearbody rest0 size.
  destruct (N.ltb_spec (blen rest0) size) as [Hr|Hr]; [apply no_panic_err|].
  rewrite slice_to_ok by lia. cbn [bind]. rewrite slice_from_ok by lia. cbn [bind].
  destruct ((tp =? msg_cred) || (tp =? msg_ack) || (tp =? msg_proto)); [destruct (vt tp _)|]; auto with c11.
Qed.

Theorem read_msg_no_panic : forall allowed vt buf stream, no_panic (read_msg allowed vt buf stream).
Proof. intros allowed vt buf stream. apply read_msg_e_no_panic. Qed.

Lemma mem_single : forall x y, mem_N x [y] = true -> x = y.
Proof. intros x y H. cbn in H. rewrite orb_false_r in H. apply N.eqb_eq. exact H. Qed.

(* reporting an error to the peer neither turns it into a crash nor into a success *)
Lemma no_panic_or_report : forall A p (x : outcome A), no_panic x -> no_panic (or_report p x).
Proof.
  intros A p x Hx. destruct x as [v|e|w]; cbn [or_report]; [apply no_panic_ok| |exact Hx].
  destruct ((e =? E_unexpected) || (e =? E_blocked)); [apply no_panic_err|].
  destruct (p_write p); apply no_panic_err.
Qed.
Lemma or_report_ok_inv : forall A p (x : outcome A) v, or_report p x = Ok v -> x = Ok v.
Proof.
  intros A p x v H. destruct x as [v'|e|w]; cbn [or_report] in H; [exact H| |discriminate H].
  destruct ((e =? E_unexpected) || (e =? E_blocked)); [discriminate H|].
  destruct (p_write p); discriminate H.
Qed.
Lemma no_panic_conn_write : forall p, no_panic (conn_write p).
Proof. intros p. unfold conn_write. destruct (p_write p); auto with c11. Qed.
Lemma no_panic_if_ok : forall (b : bool) e, no_panic (if b then Ok tt else @Err unit e).
Proof. intros b e. destruct b; auto with c11. Qed.
Create HintDb c11hs.
#[export] Hint Resolve no_panic_or_report no_panic_conn_write no_panic_if_ok read_msg_e_no_panic : c11hs.

(* the four conversations, against EVERY peer behaviour: any bytes, then EOF or silence; writes that succeed,
   fail or park *)
Theorem incoming_handshake_p_no_panic : forall env p buf stream, no_panic (incoming_handshake_p env p buf stream).
Proof.
  intros env p buf stream. unfold incoming_handshake_p.
  apply no_panic_bind; [auto with c11 c11hs|]. intros [[m1 buf1] rest1] H1.
  apply or_report_ok_inv, read_msg_e_ok_inv in H1. destruct H1 as [Hm1 _]. apply mem_single in Hm1.
  unfold has_cred. rewrite Hm1, N.eqb_refl. cbn [need bind].
  apply no_panic_bind; [auto with c11 c11hs|]. intros _ _.
  apply no_panic_bind; [auto with c11 c11hs|]. intros _ _.
  apply no_panic_bind; [auto with c11 c11hs|]. intros [[m2 buf2] rest2] H2.
  apply or_report_ok_inv, read_msg_e_ok_inv in H2. destruct H2 as [Hm2 _]. apply mem_single in Hm2.
  unfold has_ack. rewrite Hm2, N.eqb_refl. cbn [need bind].
  destruct (e_ack_null env _); cbn [negb]; auto with c11 c11hs.
Qed.

Theorem outgoing_handshake_p_no_panic : forall env p buf stream, no_panic (outgoing_handshake_p env p buf stream).
Proof.
  intros env p buf stream. unfold outgoing_handshake_p.
  apply no_panic_bind; [auto with c11 c11hs|]. intros _ _.
  apply no_panic_bind; [auto with c11 c11hs|]. intros [[m1 buf1] rest1] H1.
  apply or_report_ok_inv, read_msg_e_ok_inv in H1. destruct H1 as [Hm1 _].
  cbn [mem_N] in Hm1. rewrite orb_false_r in Hm1.
  unfold has_ack, has_cred. destruct (N.eqb_spec (m_tp m1) msg_ack) as [Ha|Ha]; [apply no_panic_err|].
  cbn [orb] in Hm1. rewrite Hm1. cbn [need bind].
  apply no_panic_bind; [auto with c11 c11hs|]. intros _ _.
  apply no_panic_bind; [auto with c11 c11hs|]. intros _ _.
  apply no_panic_bind; [auto with c11 c11hs|]. intros [[m2 buf2] rest2] H2.
  apply or_report_ok_inv, read_msg_e_ok_inv in H2. destruct H2 as [Hm2 _]. apply mem_single in Hm2.
  rewrite Hm2, N.eqb_refl. cbn [need bind].
  destruct (e_ack_null env _); cbn [negb]; auto with c11 c11hs.
Qed.

Theorem incoming_proto_handshake_p_no_panic : forall env p buf stream,
  no_panic (incoming_proto_handshake_p env p buf stream).
Proof.
  intros env p buf stream. unfold incoming_proto_handshake_p.
  apply no_panic_bind; [auto with c11 c11hs|]. intros [[m1 buf1] rest1] H1.
  apply or_report_ok_inv, read_msg_e_ok_inv in H1. destruct H1 as [Hm1 _]. apply mem_single in Hm1.
  unfold has_proto. rewrite Hm1, N.eqb_refl. cbn [need bind].
  apply no_panic_bind; [auto with c11 c11hs|]. intros _ _. auto with c11 c11hs.
Qed.

Theorem outgoing_proto_handshake_p_no_panic : forall env p buf stream,
  no_panic (outgoing_proto_handshake_p env p buf stream).
Proof.
  intros env p buf stream. unfold outgoing_proto_handshake_p.
  apply no_panic_bind; [auto with c11 c11hs|]. intros _ _.
  apply no_panic_bind; [auto with c11 c11hs|]. intros [[m1 buf1] rest1] _.
  destruct (has_ack m1); [destruct (e_ack_null env _)|destruct (has_proto m1)]; auto with c11 c11hs.
Qed.

Theorem incoming_handshake_no_panic : forall env buf stream, no_panic (incoming_handshake env buf stream).
Proof. intros env buf stream. apply incoming_handshake_p_no_panic. Qed.
Theorem outgoing_handshake_no_panic : forall env buf stream, no_panic (outgoing_handshake env buf stream).
Proof. intros env buf stream. apply outgoing_handshake_p_no_panic. Qed.
Theorem incoming_proto_handshake_no_panic : forall env buf stream,
  no_panic (incoming_proto_handshake env buf stream).
Proof. intros env buf stream. apply incoming_proto_handshake_p_no_panic. Qed.
Theorem outgoing_proto_handshake_no_panic : forall env buf stream,
  no_panic (outgoing_proto_handshake env buf stream).
Proof. intros env buf stream. apply outgoing_proto_handshake_p_no_panic. Qed.

(* size bound: whatever the peer declares, the frame buffer never grows beyond max(previous cap, 5 + limit) *)
Theorem read_msg_buffer_bound : forall allowed vt buf stream m buf' rest,
  read_msg allowed vt buf stream = Ok (m, buf', rest) ->
  hb_len buf' <= size_limit /\ hb_cap buf' <= N.max (hb_cap buf) (hb_len buf + header_size + size_limit).
Proof.
  intros allowed vt buf stream m buf' rest H.
  pose proof (read_msg_ok_inv _ _ _ _ _ _ _ H) as [_ [Hl [_ [_ Hc]]]]. split; assumption.
Qed.

(* ------------------------------------------------------------------------------------------------ *)
(* (3b) the exported entry points under a ctx that is eventually done: never a hang, whatever the peer sends,
   wherever it stalls, and whatever conn.Close() does to a parked Read/Write                           *)

Lemma hs_inner_no_panic : forall which env p buf stream, no_panic (hs_inner which env p buf stream).
Proof.
  intros which env p buf stream. unfold hs_inner.
  destruct (which =? 0); [apply incoming_handshake_p_no_panic|].
  destruct (which =? 1); [apply outgoing_handshake_p_no_panic|].
  destruct (which =? 2); [apply incoming_proto_handshake_p_no_panic|apply outgoing_proto_handshake_p_no_panic].
Qed.

Lemma entry_with_ctx_spec : forall k inner, no_panic inner -> spec_C11 (class_of_run (entry_with_ctx k inner)) = true.
Proof.
  intros k inner Hn. unfold entry_with_ctx. destruct (is_blocked inner); [reflexivity|].
  cbn [class_of_run]. apply no_panic_spec. exact Hn.
Qed.

(* every exported entry point returns nil or an error: no crash and no hang *)
Theorem hs_entry_returns : forall which k env p buf stream,
  spec_C11 (class_of_run (hs_entry which k env p buf stream)) = true.
Proof. intros. unfold hs_entry. apply entry_with_ctx_spec, hs_inner_no_panic. Qed.

Theorem hs_entry_never_hangs : forall which k env p buf stream, hs_entry which k env p buf stream <> Hung.
Proof. intros which k env p buf stream. unfold hs_entry, entry_with_ctx. destruct (is_blocked _); discriminate. Qed.

(* ... and what it returns does not depend on the kind of connection *)
Theorem hs_entry_kind_independent : forall which k1 k2 env p buf stream,
  hs_entry which k1 env p buf stream = hs_entry which k2 env p buf stream.
Proof. reflexivity. Qed.

(* the ctx error is returned when the conversation is parked on the silent peer; otherwise the conversation's own
   result is returned unchanged *)
Theorem hs_entry_result : forall which k env p buf stream,
  (hs_inner which env p buf stream = Err E_blocked ->
     hs_entry which k env p buf stream = Returned (Err E_deadline)) /\
  (hs_inner which env p buf stream <> Err E_blocked ->
     hs_entry which k env p buf stream = Returned (hs_inner which env p buf stream)).
Proof.
  intros which k env p buf stream. unfold hs_entry, entry_with_ctx. split.
  - intros H. rewrite H. reflexivity.
  - intros H. destruct (hs_inner which env p buf stream) as [v|e|w]; cbn [is_blocked]; try reflexivity.
    destruct (N.eqb_spec e E_blocked) as [He|He]; [subst e; contradiction|reflexivity].
Qed.

(* "parked, or the same as if the peer had closed": a relation preserved by every construct of the model *)
Definition parked_or {A} (o1 o2 : outcome A) : Prop := o1 = Err E_blocked \/ o1 = o2.

Lemma parked_or_refl : forall A (o : outcome A), parked_or o o.
Proof. intros A o. right. reflexivity. Qed.
Lemma parked_or_bind : forall A B (x1 x2 : outcome A) (f1 f2 : A -> outcome B),
  parked_or x1 x2 -> (forall v, parked_or (f1 v) (f2 v)) -> parked_or (bind x1 f1) (bind x2 f2).
Proof.
  intros A B x1 x2 f1 f2 [Hx|Hx] Hf.
  - left. rewrite Hx. reflexivity.
  - subst x2. destruct x1 as [v|e|w]; cbn [bind]; [apply Hf|right; reflexivity|right; reflexivity].
Qed.
Lemma parked_or_report : forall A p1 p2 (x1 x2 : outcome A),
  p_write p1 = p_write p2 -> parked_or x1 x2 -> parked_or (or_report p1 x1) (or_report p2 x2).
Proof.
  intros A p1 p2 x1 x2 Hw [Hx|Hx].
  - left. rewrite Hx. reflexivity.
  - subst x2. right. unfold or_report. rewrite Hw. reflexivity.
Qed.
Lemma parked_or_if : forall A (c : bool) (a1 a2 b1 b2 : outcome A),
  parked_or a1 a2 -> parked_or b1 b2 -> parked_or (if c then a1 else b1) (if c then a2 else b2).
Proof. intros A c a1 a2 b1 b2 Ha Hb. destruct c; assumption. Qed.

Lemma read_msg_e_parked_or : forall allowed vt buf stream,
  parked_or (read_msg_e E_blocked allowed vt buf stream) (read_msg_e E_eof allowed vt buf stream).
Proof.
  intros allowed vt buf stream. unfold read_msg_e.
  apply parked_or_bind; [apply parked_or_refl|]. intros buf1.
  apply parked_or_if; [left; reflexivity|].
  apply parked_or_bind; [apply parked_or_refl|]. intros tp.
  apply parked_or_if; [apply parked_or_refl|].
  apply parked_or_bind; [apply parked_or_refl|]. intros b1.
  apply parked_or_bind; [apply parked_or_refl|]. intros b2.
  apply parked_or_bind; [apply parked_or_refl|]. intros b3.
  apply parked_or_bind; [apply parked_or_refl|]. intros b4.
  cbv zeta.
  apply parked_or_if; [apply parked_or_refl|].
  apply parked_or_bind; [apply parked_or_refl|]. intros buf2.
  apply parked_or_bind; [apply parked_or_refl|]. intros rest.
  apply parked_or_if; [left; reflexivity|]. apply parked_or_refl.
Qed.

(* Prefix safety of stalling.  Against a peer that sends [stream] and then goes SILENT, each conversation either
   is parked (and the entry point answers with the ctx error), or ends exactly as it would have, had the peer sent
   the same bytes and CLOSED: silence can never turn a rejected stream into an accepted one, or the reverse. *)
Theorem hs_inner_stall_or_eof : forall which env w buf stream,
  parked_or (hs_inner which env (mkPeer false w) buf stream) (hs_inner which env (mkPeer true w) buf stream).
Proof.
  intros which env w buf stream.
  assert (Hw : p_write (mkPeer false w) = p_write (mkPeer true w)) by reflexivity.
  assert (Hr : forall allowed b s,
             parked_or (or_report (mkPeer false w) (read_msg_e (short_read (mkPeer false w)) allowed (e_vt_ok env) b s))
                       (or_report (mkPeer true w) (read_msg_e (short_read (mkPeer true w)) allowed (e_vt_ok env) b s))).
  { intros allowed b s. apply parked_or_report; [exact Hw|]. apply read_msg_e_parked_or. }
  assert (Hc : parked_or (or_report (mkPeer false w) (conn_write (mkPeer false w)))
                         (or_report (mkPeer true w) (conn_write (mkPeer true w)))).
  { apply parked_or_report; [exact Hw|]. apply parked_or_refl. }
  assert (Hi : forall (c : bool) e, parked_or (or_report (mkPeer false w) (if c then Ok tt else Err e))
                                              (or_report (mkPeer true w) (if c then Ok tt else Err e))).
  { intros c e. apply parked_or_report; [exact Hw|]. apply parked_or_refl. }
  unfold hs_inner.
  destruct (which =? 0); [|destruct (which =? 1); [|destruct (which =? 2)]].
  - unfold incoming_handshake_p.
    apply parked_or_bind; [apply Hr|]. intros [[m1 buf1] rest1].
    apply parked_or_bind; [apply parked_or_refl|]. intros _.
    apply parked_or_bind; [apply Hi|]. intros _.
    apply parked_or_bind; [apply Hc|]. intros _.
    apply parked_or_bind; [apply Hr|]. intros [[m2 buf2] rest2].
    apply parked_or_bind; [apply parked_or_refl|]. intros _.
    cbv zeta. apply parked_or_if; [apply parked_or_refl|apply Hc].
  - unfold outgoing_handshake_p.
    apply parked_or_bind; [apply Hc|]. intros _.
    apply parked_or_bind; [apply Hr|]. intros [[m1 buf1] rest1].
    apply parked_or_if; [apply parked_or_refl|].
    apply parked_or_bind; [apply parked_or_refl|]. intros _.
    apply parked_or_bind; [apply Hi|]. intros _.
    apply parked_or_bind; [apply Hc|]. intros _.
    apply parked_or_bind; [apply Hr|]. intros [[m2 buf2] rest2].
    apply parked_or_bind; [apply parked_or_refl|]. intros _.
    apply parked_or_refl.
  - unfold incoming_proto_handshake_p.
    apply parked_or_bind; [apply Hr|]. intros [[m1 buf1] rest1].
    apply parked_or_bind; [apply parked_or_refl|]. intros _.
    cbv zeta. apply parked_or_bind; [apply Hi|]. intros _. apply Hc.
  - unfold outgoing_proto_handshake_p.
    apply parked_or_bind; [apply Hc|]. intros _.
    apply parked_or_bind; [apply Hr|]. intros [[m1 buf1] rest1].
    apply parked_or_refl.
Qed.

Theorem hs_entry_stall_or_eof : forall which k env w buf stream,
  hs_entry which k env (mkPeer false w) buf stream = Returned (Err E_deadline) \/
  hs_entry which k env (mkPeer false w) buf stream = hs_entry which k env (mkPeer true w) buf stream.
Proof.
  intros which k env w buf stream. unfold hs_entry.
  destruct (hs_inner_stall_or_eof which env w buf stream) as [H|H].
  - left. rewrite H. reflexivity.
  - right. rewrite H. reflexivity.
Qed.

(* a truncated frame header followed by silence: every entry point answers with the ctx error (unless its own
   first write already failed) — on every kind of connection *)
Lemma read_msg_e_short_header : forall short allowed vt buf stream,
  blen stream < header_size -> read_msg_e short allowed vt buf stream = Err short.
Proof.
  intros short allowed vt buf stream H. unfold read_msg_e. rewrite reslice_grow_ok. cbn [bind].
  destruct (N.ltb_spec (blen stream) header_size); [reflexivity|lia].
Qed.

Theorem hs_entry_truncated_header_deadline : forall which k env w buf stream,
  w <> WFail -> blen stream < header_size ->
  hs_entry which k env (stalled w) buf stream = Returned (Err E_deadline).
Proof.
  intros which k env w buf stream Hw Hs.
  apply (proj1 (hs_entry_result which k env (stalled w) buf stream)).
  unfold hs_inner, incoming_handshake_p, outgoing_handshake_p, incoming_proto_handshake_p,
    outgoing_proto_handshake_p, stalled, short_read, conn_write. cbn [p_eof p_write].
  rewrite !read_msg_e_short_header by exact Hs.
  destruct (which =? 0); [|destruct (which =? 1); [|destruct (which =? 2)]];
    destruct w; try contradiction; reflexivity.
Qed.

(* the alternative design (conversation inline, context.AfterFunc(ctx, conn.Close) as the only interruption) is
   the same on connections whose Close interrupts a pending Read, and hangs on the others *)
Theorem inline_close_on_done_same_when_close_interrupts : forall inner,
  entry_inline_close_on_done KCloseInterrupts inner = entry_with_ctx KCloseInterrupts inner.
Proof. reflexivity. Qed.

Theorem inline_close_on_done_refuted : exists which env stream,
  class_of_run (entry_inline_close_on_done KCloseSendOnly (hs_inner which env (stalled WOk) pool_buf stream)) = CHang.
Proof.
  exists 0, (mkEnv (fun _ _ => true) true (fun _ => true) (fun _ => true) true), [1].
  vm_compute. reflexivity.
Qed.

(* the model satisfies the specification of a stall experiment: one call per stall point, any points *)
Theorem hs_entry_meets_spec_stall : forall which k env w buf stream (points : list N),
  spec_C11_stall (map (fun n => class_of_run (hs_entry which k env (stalled w) buf (stall_at n stream))) points) = true.
Proof.
  intros which k env w buf stream points. unfold spec_C11_stall. apply forallb_forall.
  intros c Hc. apply in_map_iff in Hc. destruct Hc as [n [Hn _]]. subst c. apply hs_entry_returns.
Qed.
