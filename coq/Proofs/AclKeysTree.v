(* C05 — open trees: the symbolic model (no per-tree key cache) passes the correspondence test and satisfies the
   property predicate spec_C05_open over any sequence of rounds. *)
From Coq Require Import List NArith Bool Lia.
Import ListNotations.
From AnySync Require Import Model.Acl Model.AclKeys Model.AclKeysTree Proofs.AclBase.
Open Scope N_scope.

Lemma subsetN_refl : forall l, subsetN l l = true.
Proof.
  intros l. unfold subsetN. apply forallb_forall. intros x Hx. now apply memN_In.
Qed.

Lemma setN_eqb_refl : forall l, setN_eqb l l = true.
Proof. intros l. unfold setN_eqb. now rewrite subsetN_refl. Qed.

Lemma filter_all : forall {A} (f : A -> bool) (l : list A), forallb f l = true -> filter f l = l.
Proof.
  intros A f l. induction l as [|x l IH]; cbn [forallb filter]; [reflexivity|].
  intros H. apply andb_true_iff in H. destruct H as [Hx Hl]. rewrite Hx. f_equal. now apply IH.
Qed.

(* a ciphertext built under generation [gen] opens with [gen] and with no other generation *)
Lemma opens_with_own : forall gen idx g, opens_with g (TSEnc gen idx) idx = (gen =? g).
Proof. intros gen idx g. unfold opens_with. now rewrite N.eqb_refl, andb_true_r. Qed.

Lemma filter_eq_none : forall gen l, ~ In gen l -> filter (fun g => gen =? g) l = [].
Proof.
  intros gen l. induction l as [|y l IH]; intros Hnin; [reflexivity|]. cbn [filter].
  destruct (N.eqb_spec gen y) as [->|_]; [exfalso; apply Hnin; now left|].
  apply IH. intros Hc. apply Hnin. now right.
Qed.

Lemma filter_eq_one : forall gen l, NoDup l -> In gen l -> filter (fun g => gen =? g) l = [gen].
Proof.
  intros gen l Hnd. induction Hnd as [|x l Hnin Hnd IH]; intros Hin; [contradiction|]. cbn [filter].
  destruct (N.eqb_spec gen x) as [->|Hne].
  - f_equal. now apply filter_eq_none.
  - destruct Hin as [->|Hin]; [contradiction|]. now apply IH.
Qed.

Lemma opens_exactly : forall gen idx tried,
  NoDup tried -> In gen tried ->
  filter (fun g => opens_with g (TSEnc gen idx) idx) tried = [gen].
Proof.
  intros gen idx tried Hnd Hin.
  rewrite (filter_ext _ (fun g => gen =? g)); [now apply filter_eq_one|].
  intros g. apply opens_with_own.
Qed.

Lemma readable_written : forall held gen idx,
  readable held (idx, gen, TSEnc gen idx) = memN gen held.
Proof.
  intros held gen idx. unfold readable. cbn [fst snd read_change]. rewrite N.eqb_refl, andb_true_r.
  destruct (memN gen held); [now rewrite N.eqb_refl|reflexivity].
Qed.

(* ---- the model passes the correspondence test *)
Lemma write_matches_model : forall gen tried ia,
  write_matches (model_wobs gen tried ia) = Some (fst ia, gen, TSEnc gen (fst ia)).
Proof.
  intros gen tried [idx a]. unfold write_matches, model_wobs, model_write.
  cbn [w_gen w_idx w_key_id w_plain w_tried w_opens build_change fst snd tdata_is_plain Bool.eqb].
  rewrite N.eqb_refl. cbn [andb]. rewrite list_eqb_refl; [reflexivity|apply N.eqb_refl].
Qed.

Lemma writes_match_model : forall gen tried ias cs,
  writes_match (map (model_wobs gen tried) ias) cs = Some (cs ++ written gen ias).
Proof.
  intros gen tried ias. induction ias as [|ia ias IH]; intros cs; cbn [map writes_match written].
  - now rewrite app_nil_r.
  - rewrite write_matches_model, IH. unfold written. cbn [map]. now rewrite <- app_assoc.
Qed.

Lemma read_matches_model : forall held cs,
  read_matches held cs (fst (model_read held cs)) (snd (model_read held cs)) = true.
Proof.
  intros held cs. unfold read_matches, model_read. cbn [fst snd]. rewrite Bool.eqb_reflx. cbn [andb].
  destruct (forallb (readable held) cs) eqn:Hall.
  - rewrite (filter_all _ _ Hall). apply setN_eqb_refl.
  - apply subsetN_refl.
Qed.

Lemma reader_matches_model : forall cs x, reader_matches cs (model_robs cs x) = true.
Proof.
  intros cs [[a p] held]. unfold reader_matches, model_robs. cbn [r_held r_open_ok r_open_got r_fresh fst snd].
  destruct (model_read held cs) as [ok got] eqn:Hrd.
  pose proof (read_matches_model held cs) as H. rewrite Hrd in H. cbn [fst snd] in H |- *. now rewrite !H.
Qed.

Theorem open_model_passes : forall l cs, open_model_ok cs (model_rounds cs l) = true.
Proof.
  induction l as [|s r IH]; intros cs; cbn [model_rounds open_model_ok]; [reflexivity|].
  cbn [rd_writes rd_readers]. rewrite writes_match_model. rewrite IH, andb_true_r.
  apply forallb_forall. intros x Hx. apply in_map_iff in Hx. destruct Hx as [y [<- _]]. apply reader_matches_model.
Qed.

(* ---- the model satisfies the property predicate *)
(* well-formed round descriptions: the current generation is among the known ones (listed once), and an account
   holding a permission holds every generation named so far (the key half of C05, c05_members_have_all) *)
Definition named (cs : list tchange) : list (N * rid) := map (fun c => (tc_idx c, tc_key c)) cs.

Fixpoint rounds_wf (cs : list tchange) (l : list rspec) : Prop :=
  match l with
  | [] => True
  | s :: r =>
      let cs' := cs ++ written (rs_gen s) (rs_writes s) in
      NoDup (rs_tried s) /\ In (rs_gen s) (rs_tried s) /\ NoDup (map tc_idx cs') /\
      (forall x, In x (rs_readers s) -> snd (fst x) <> 0 -> forall c, In c cs' -> In (tc_key c) (snd x)) /\
      rounds_wf cs' r
  end.

Definition enc_own (cs : list tchange) : Prop :=
  forall c, In c cs -> snd c = TSEnc (tc_key c) (tc_idx c).

Lemma enc_own_app : forall cs gen ias, enc_own cs -> enc_own (cs ++ written gen ias).
Proof.
  intros cs gen ias H c Hc. apply in_app_or in Hc. destruct Hc as [Hc|Hc]; [now apply H|].
  unfold written in Hc. apply in_map_iff in Hc. destruct Hc as [ia [<- _]]. reflexivity.
Qed.

Lemma named_written : forall gen tried ias,
  named_of (map (model_wobs gen tried) ias) = named (written gen ias).
Proof.
  intros gen tried ias. unfold named_of, named, written. rewrite !map_map. apply map_ext. now intros [i a].
Qed.

Lemma wobs_ok_model : forall gen tried ia,
  NoDup tried -> In gen tried -> wobs_ok (model_wobs gen tried ia) = true.
Proof.
  intros gen tried [idx a] Hnd Hin. unfold wobs_ok, model_wobs. cbn [w_key_id w_gen w_plain w_tried w_opens fst snd].
  rewrite N.eqb_refl. cbn [negb andb]. apply memN_In in Hin. rewrite Hin. cbn [andb].
  apply memN_In in Hin. rewrite (opens_exactly gen idx tried Hnd Hin). cbn [list_eqb]. now rewrite N.eqb_refl.
Qed.

Lemma find_named : forall cs c,
  NoDup (map tc_idx cs) -> In c cs ->
  find (fun p : N * rid => fst p =? tc_idx c) (named cs) = Some (tc_idx c, tc_key c).
Proof.
  induction cs as [|d cs IH]; intros c Hnd Hin; [contradiction|].
  cbn [named map find fst]. fold (named cs). cbn [map] in Hnd. inversion Hnd as [|? ? Hnin Hnd']; subst.
  destruct Hin as [->|Hin].
  - now rewrite N.eqb_refl.
  - destruct (N.eqb_spec (tc_idx d) (tc_idx c)) as [E|_].
    + exfalso. apply Hnin. rewrite E. now apply in_map.
    + now apply IH.
Qed.

Lemma got_ok_model : forall cs held member,
  NoDup (map tc_idx cs) -> enc_own cs ->
  (member = true -> forall c, In c cs -> In (tc_key c) held) ->
  got_ok (named cs) held member (fst (model_read held cs)) (snd (model_read held cs)) = true.
Proof.
  intros cs held member Hnd Henc Hmem. unfold got_ok, model_read. cbn [fst snd].
  apply andb_true_iff. split.
  - destruct member; [|reflexivity].
    assert (Hall : forallb (readable held) cs = true).
    { apply forallb_forall. intros c Hc. destruct c as [[i k] d] eqn:Ec. pose proof (Henc _ Hc) as Hd.
      unfold tc_key, tc_idx in Hd. cbn [fst snd] in Hd. subst d. rewrite readable_written.
      apply memN_In. apply (Hmem eq_refl (i, k, TSEnc k i) Hc). }
    rewrite Hall, (filter_all _ _ Hall). cbn [andb]. unfold named. rewrite map_map. cbn [fst].
    apply setN_eqb_refl.
  - apply forallb_forall. intros i Hi. apply in_map_iff in Hi. destruct Hi as [c [<- Hc]].
    apply filter_In in Hc. destruct Hc as [Hc Hr]. rewrite (find_named cs c Hnd Hc). cbn [snd].
    destruct c as [[i k] d] eqn:Ec. pose proof (Henc _ Hc) as Hd. unfold tc_key, tc_idx in Hd. cbn [fst snd] in Hd. subst d.
    rewrite readable_written in Hr. exact Hr.
Qed.

Theorem open_model_satisfies_spec : forall l cs,
  enc_own cs -> rounds_wf cs l -> spec_open (named cs) (model_rounds cs l) = true.
Proof.
  induction l as [|s r IH]; intros cs Henc Hwf; cbn [model_rounds spec_open]; [reflexivity|].
  cbn [rounds_wf] in Hwf. destruct Hwf as [Hnd [Hin [Hidx [Hmem Hrest]]]].
  cbn [rd_writes rd_readers]. rewrite named_written.
  assert (Hnamed : named cs ++ named (written (rs_gen s) (rs_writes s)) = named (cs ++ written (rs_gen s) (rs_writes s))).
  { unfold named. now rewrite map_app. }
  rewrite Hnamed. pose proof (enc_own_app cs (rs_gen s) (rs_writes s) Henc) as Henc'.
  rewrite (IH _ Henc' Hrest), andb_true_r. apply andb_true_iff. split.
  - apply forallb_forall. intros w Hw. apply in_map_iff in Hw. destruct Hw as [ia [<- _]]. now apply wobs_ok_model.
  - apply forallb_forall. intros x Hx. apply in_map_iff in Hx. destruct Hx as [[[a p] held] [<- Hy]].
    unfold robs_ok, model_robs. cbn [r_perm r_held r_open_ok r_open_got r_fresh fst snd].
    assert (G : got_ok (named (cs ++ written (rs_gen s) (rs_writes s))) held (negb (p =? 0))
                  (fst (model_read held (cs ++ written (rs_gen s) (rs_writes s))))
                  (snd (model_read held (cs ++ written (rs_gen s) (rs_writes s)))) = true).
    { apply got_ok_model; [exact Hidx|exact Henc'|]. intros Hm c Hc.
      apply (Hmem (a, p, held) Hy); [|exact Hc]. cbn [fst snd]. intros E. subst p. discriminate Hm. }
    destruct (model_read held (cs ++ written (rs_gen s) (rs_writes s))) as [ok got]. cbn [fst snd] in G |- *. now rewrite !G.
Qed.

Corollary open_model_satisfies_spec_from_start : forall l,
  rounds_wf [] l -> spec_C05_open (model_rounds [] l) = true /\ open_tree_model_ok (model_rounds [] l) = true.
Proof.
  intros l Hwf. split.
  - apply (open_model_satisfies_spec l []); [intros c []|exact Hwf].
  - apply open_model_passes.
Qed.
