(* C05 — open trees: the symbolic model (no per-tree key cache) passes the correspondence test and satisfies the
   property predicate spec_C05_open over any sequence of rounds. *)
From Coq Require Import List NArith Bool Lia.
Import ListNotations.
From AnySync Require Import Model.Acl Model.AclKeys Model.AclKeysTree Proofs.AclBase.
Open Scope N_scope.

Lemma subsetN_refl : forall l, subsetN l l = true.
Proof.
  intros l. unfold subsetN. apply forallb_forall. intros x Hx. now apply memN_In.
Qed.

Lemma setN_eqb_refl : forall l, setN_eqb l l = true.
Proof. intros l. unfold setN_eqb. now rewrite subsetN_refl. Qed.

Lemma filter_all : forall {A} (f : A -> bool) (l : list A), forallb f l = true -> filter f l = l.
Proof.
  intros A f l. induction l as [|x l IH]; cbn [forallb filter]; [reflexivity|].
  intros H. apply andb_true_iff in H. destruct H as [Hx Hl]. rewrite Hx. f_equal. now apply IH.
Qed.

(* a ciphertext built under generation [gen] opens with [gen] and with no other generation *)
Lemma opens_with_own : forall gen idx g, opens_with g (TSEnc gen idx) idx = (gen =? g).
Proof. intros gen idx g. unfold opens_with. now rewrite N.eqb_refl, andb_true_r. Qed.

Lemma filter_eq_none : forall gen l, ~ In gen l -> filter (fun g => gen =? g) l = [].
Proof.
  intros gen l. induction l as [|y l IH]; intros Hnin; [reflexivity|]. cbn [filter].
  destruct (N.eqb_spec gen y) as [->|_]; [exfalso; apply Hnin; now left|].
  apply IH. intros Hc. apply Hnin. now right.
Qed.

Lemma filter_eq_one : forall gen l, NoDup l -> In gen l -> filter (fun g => gen =? g) l = [gen].
Proof.
  intros gen l Hnd. induction Hnd as [|x l Hnin Hnd IH]; intros Hin; [contradiction|]. cbn [filter].
  destruct (N.eqb_spec gen x) as [->|Hne].
  - f_equal. now apply filter_eq_none.
  - destruct Hin as [->|Hin]; [contradiction|]. now apply IH.
Qed.

Lemma opens_exactly : forall gen idx tried,
  NoDup tried -> In gen tried ->
  filter (fun g => opens_with g (TSEnc gen idx) idx) tried = [gen].
Proof.
  intros gen idx tried Hnd Hin.
  rewrite (filter_ext _ (fun g => gen =? g)); [now apply filter_eq_one|].
  intros g. apply opens_with_own.
Qed.

Lemma readable_written : forall held gen idx,
  readable held (idx, gen, TSEnc gen idx) = memN gen held.
Proof.
  intros held gen idx. unfold readable. cbn [fst snd read_change]. rewrite N.eqb_refl, andb_true_r.
  destruct (memN gen held); [now rewrite N.eqb_refl|reflexivity].
Qed.

(* ---- the model passes the correspondence test *)
Lemma write_matches_model : forall gen tried ia,
  write_matches (model_wobs gen tried ia) = Some (fst ia, gen, TSEnc gen (fst ia)).
Proof.
  intros gen tried [idx a]. unfold write_matches, model_wobs, model_write.
  cbn [w_gen w_idx w_key_id w_plain w_tried w_opens build_change fst snd tdata_is_plain Bool.eqb].
  rewrite N.eqb_refl. cbn [andb]. rewrite list_eqb_refl; [reflexivity|apply N.eqb_refl].
Qed.

Lemma writes_match_model : forall gen tried ias cs,
  writes_match (map (model_wobs gen tried) ias) cs = Some (cs ++ written gen ias).
Proof.
  intros gen tried ias. induction ias as [|ia ias IH]; intros cs; cbn [map writes_match written].
  - now rewrite app_nil_r.
  - rewrite write_matches_model, IH. unfold written. cbn [map]. now rewrite <- app_assoc.
Qed.

Lemma read_matches_model : forall held cs,
  read_matches held cs (fst (model_read held cs)) (snd (model_read held cs)) = true.
Proof.
  intros held cs. unfold read_matches, model_read. cbn [fst snd]. rewrite Bool.eqb_reflx. cbn [andb].
  destruct (forallb (readable held) cs) eqn:Hall.
  - rewrite (filter_all _ _ Hall). apply setN_eqb_refl.
  - apply subsetN_refl.
Qed.

Lemma reader_matches_model : forall cs x, reader_matches cs (model_robs cs x) = true.
Proof.
  intros cs [[a p] held]. unfold reader_matches, model_robs. cbn [r_held r_open_ok r_open_got r_fresh fst snd].
  destruct (model_read held cs) as [ok got] eqn:Hrd.
  pose proof (read_matches_model held cs) as H. rewrite Hrd in H. cbn [fst snd] in H |- *. now rewrite !H.
Qed.

Theorem open_model_passes : forall l cs, open_model_ok cs (model_rounds cs l) = true.
Proof.
  induction l as [|s r IH]; intros cs; cbn [model_rounds open_model_ok]; [reflexivity|].
  cbn [rd_writes rd_readers]. rewrite writes_match_model. rewrite IH, andb_true_r.
  apply forallb_forall. intros x Hx. apply in_map_iff in Hx. destruct Hx as [y [<- _]]. apply reader_matches_model.
Qed.

(* ---- the model satisfies the property predicate *)
(* well-formed round descriptions: the current generation is among the known ones (listed once), and an account
   holding a permission holds every generation named so far (the key half of C05, c05_members_have_all) *)
Definition named (cs : list tchange) : list (N * rid) := map (fun c => (tc_idx c, tc_key c)) cs.

Fixpoint rounds_wf (cs : list tchange) (l : list rspec) : Prop :=
  match l with
  | [] => True
  | s :: r =>
      let cs' := cs ++ written (rs_gen s) (rs_writes s) in
      NoDup (rs_tried s) /\ In (rs_gen s) (rs_tried s) /\ NoDup (map tc_idx cs') /\
      (forall x, In x (rs_readers s) -> snd (fst x) <> 0 -> forall c, In c cs' -> In (tc_key c) (snd x)) /\
      rounds_wf cs' r
  end.

Definition enc_own (cs : list tchange) : Prop :=
  forall c, In c cs -> snd c = TSEnc (tc_key c) (tc_idx c).

Lemma enc_own_app : forall cs gen ias, enc_own cs -> enc_own (cs ++ written gen ias).
Proof.
  intros cs gen ias H c Hc. apply in_app_or in Hc. destruct Hc as [Hc|Hc]; [now apply H|].
  unfold written in Hc. apply in_map_iff in Hc. destruct Hc as [ia [<- _]]. reflexivity.
Qed.

Lemma named_written : forall gen tried ias,
  named_of (map (model_wobs gen tried) ias) = named (written gen ias).
Proof.
  intros gen tried ias. unfold named_of, named, written. rewrite !map_map. apply map_ext. now intros [i a].
Qed.

Lemma wobs_ok_model : forall gen tried ia,
  NoDup tried -> In gen tried -> wobs_ok (model_wobs gen tried ia) = true.
Proof.
  intros gen tried [idx a] Hnd Hin. unfold wobs_ok, model_wobs. cbn [w_key_id w_gen w_plain w_tried w_opens fst snd].
  rewrite N.eqb_refl. cbn [negb andb]. apply memN_In in Hin. rewrite Hin. cbn [andb].
  apply memN_In in Hin. rewrite (opens_exactly gen idx tried Hnd Hin). cbn [list_eqb]. now rewrite N.eqb_refl.
Qed.

Lemma find_named : forall cs c,
  NoDup (map tc_idx cs) -> In c cs ->
  find (fun p : N * rid => fst p =? tc_idx c) (named cs) = Some (tc_idx c, tc_key c).
Proof.
  induction cs as [|d cs IH]; intros c Hnd Hin; [contradiction|].
  cbn [named map find fst]. fold (named cs). cbn [map] in Hnd. inversion Hnd as [|? ? Hnin Hnd']; subst.
  destruct Hin as [->|Hin].
  - now rewrite N.eqb_refl.
  - destruct (N.eqb_spec (tc_idx d) (tc_idx c)) as [E|_].
    + exfalso. apply Hnin. rewrite E. now apply in_map.
    + now apply IH.
Qed.

Lemma got_ok_model : forall cs held member,
  NoDup (map tc_idx cs) -> enc_own cs ->
  (member = true -> forall c, In c cs -> In (tc_key c) held) ->
  got_ok (named cs) held member (fst (model_read held cs)) (snd (model_read held cs)) = true.
Proof.
  intros cs held member Hnd Henc Hmem. unfold got_ok, model_read. cbn [fst snd].
  apply andb_true_iff. split.
  - destruct member; [|reflexivity].
    assert (Hall : forallb (readable held) cs = true).
    { apply forallb_forall. intros c Hc. destruct c as [[i k] d] eqn:Ec. pose proof (Henc _ Hc) as Hd.
      unfold tc_key, tc_idx in Hd. cbn [fst snd] in Hd. subst d. rewrite readable_written.
      apply memN_In. apply (Hmem eq_refl (i, k, TSEnc k i) Hc). }
    rewrite Hall, (filter_all _ _ Hall). cbn [andb]. unfold named. rewrite map_map. cbn [fst].
    apply setN_eqb_refl.
  - apply forallb_forall. intros i Hi. apply in_map_iff in Hi. destruct Hi as [c [<- Hc]].
    apply filter_In in Hc. destruct Hc as [Hc Hr]. rewrite (find_named cs c Hnd Hc). cbn [snd].
    destruct c as [[i k] d] eqn:Ec. pose proof (Henc _ Hc) as Hd. unfold tc_key, tc_idx in Hd. cbn [fst snd] in Hd. subst d.
    rewrite readable_written in Hr. exact Hr.
Qed.

Theorem open_model_satisfies_spec : forall l cs,
  enc_own cs -> rounds_wf cs l -> spec_open (named cs) (model_rounds cs l) = true.
Proof.
  induction l as [|s r IH]; intros cs Henc Hwf; cbn [model_rounds spec_open]; [reflexivity|].
  cbn [rounds_wf] in Hwf. destruct Hwf as [Hnd [Hin [Hidx [Hmem Hrest]]]].
  cbn [rd_writes rd_readers]. rewrite named_written.
  assert (Hnamed : named cs ++ named (written (rs_gen s) (rs_writes s)) = named (cs ++ written (rs_gen s) (rs_writes s))).
  { unfold named. now rewrite map_app. }
  rewrite Hnamed. pose proof (enc_own_app cs (rs_gen s) (rs_writes s) Henc) as Henc'.
  rewrite (IH _ Henc' Hrest), andb_true_r. apply andb_true_iff. split.
  - apply forallb_forall. intros w Hw. apply in_map_iff in Hw. destruct Hw as [ia [<- _]]. now apply wobs_ok_model.
  - apply forallb_forall. intros x Hx. apply in_map_iff in Hx. destruct Hx as [[[a p] held] [<- Hy]].
    unfold robs_ok, model_robs. cbn [r_perm r_held r_open_ok r_open_got r_fresh fst snd].
    assert (G : got_ok (named (cs ++ written (rs_gen s) (rs_writes s))) held (negb (p =? 0))
                  (fst (model_read held (cs ++ written (rs_gen s) (rs_writes s))))
                  (snd (model_read held (cs ++ written (rs_gen s) (rs_writes s)))) = true).
    { apply got_ok_model; [exact Hidx|exact Henc'|]. intros Hm c Hc.
      apply (Hmem (a, p, held) Hy); [|exact Hc]. cbn [fst snd]. intros E. subst p. discriminate Hm. }
    destruct (model_read held (cs ++ written (rs_gen s) (rs_writes s))) as [ok got]. cbn [fst snd] in G |- *. now rewrite !G.
Qed.

Corollary open_model_satisfies_spec_from_start : forall l,
  rounds_wf [] l -> spec_C05_open (model_rounds [] l) = true /\ open_tree_model_ok (model_rounds [] l) = true.
Proof.
  intros l Hwf. split.
  - apply (open_model_satisfies_spec l []); [intros c []|exact Hwf].
  - apply open_model_passes.
Qed.

(* ---- one write racing one ACL record: whatever the scheduler decides (the write is sequenced before the record, after
   it, or fails), what the model presents satisfies spec_C05_ilv and passes the correspondence test *)
Lemma model_rounds_app : forall l1 l2 cs,
  model_rounds cs (l1 ++ l2) = model_rounds cs l1 ++ model_rounds (content_after cs l1) l2.
Proof.
  induction l1 as [|s r IH]; intros l2 cs; cbn [app model_rounds content_after]; [reflexivity|].
  now rewrite IH.
Qed.

Lemma ilv_rounds_model : forall s, ilv_rounds (model_ilv s) = model_rounds [] (is_pre s ++ [is_last s]).
Proof.
  intros s. unfold ilv_rounds, model_ilv. cbn [i_pre i_write i_retry i_readers].
  rewrite model_rounds_app. cbn [model_rounds]. f_equal. f_equal. f_equal.
  unfold is_last. destruct (is_dec s); cbn [rs_writes rs_gen rs_tried map hd_error opt_list app]; try reflexivity.
  destruct (is_can1 s); cbn [map hd_error opt_list app]; reflexivity.
Qed.

Lemma ilv_seq_ok_model : forall s, is_valid s = true -> ilv_seq_ok (model_ilv s) = true.
Proof.
  intros s Hv. unfold is_valid in Hv. unfold ilv_seq_ok, named_gen, model_ilv, is_last.
  cbn [i_write i_retry i_head i_gen0 i_gen1 i_fired i_can0 i_can1].
  destruct (is_dec s); cbn [rs_writes rs_gen rs_tried map hd_error].
  - change (0 =? 0) with true. cbn iota. unfold model_wobs. cbn [w_gen]. rewrite N.eqb_refl. reflexivity.
  - change (1 =? 0) with false. change (1 =? 1) with true. cbn iota. unfold model_wobs. cbn [w_gen].
    apply andb_true_iff in Hv. destruct Hv as [Hf _]. rewrite N.eqb_refl, Hf. reflexivity.
  - rewrite Hv. cbn [andb]. destruct (is_can1 s); cbn [map hd_error negb andb]; [|reflexivity].
    unfold model_wobs. cbn [w_gen]. apply N.eqb_refl.
Qed.

Theorem ilv_model_satisfies_spec : forall s,
  is_valid s = true -> rounds_wf [] (is_pre s ++ [is_last s]) ->
  spec_C05_ilv (model_ilv s) = true /\ ilv_model_ok (model_ilv s) = true.
Proof.
  intros s Hv Hwf. destruct (open_model_satisfies_spec_from_start _ Hwf) as [Hspec Hmod].
  rewrite <- ilv_rounds_model in Hspec, Hmod. split.
  - unfold spec_C05_ilv. now rewrite (ilv_seq_ok_model s Hv), Hspec.
  - unfold ilv_model_ok. rewrite Hmod, andb_true_r. unfold is_valid in Hv. unfold model_ilv.
    cbn [i_write i_head i_can0 i_can1]. unfold is_last.
    destruct (is_dec s); cbn [rs_writes map hd_error]; try reflexivity.
    + change (0 =? 0) with true. cbn iota. exact Hv.
    + change (1 =? 0) with false. change (1 =? 1) with true. cbn iota. apply andb_true_iff in Hv. now destruct Hv.
Qed.

(* a stored change that names the record's head / generation but opens with another generation is refused by the
   predicate, whatever else was observed: it cannot be explained by sequencing the write before the record *)
Lemma list_eqb_N_true : forall a b : list N, list_eqb N.eqb a b = true -> a = b.
Proof.
  induction a as [|x a IH]; intros [|y b] H; cbn [list_eqb] in H; try discriminate; [reflexivity|].
  apply andb_true_iff in H. destruct H as [Hxy Hab]. apply N.eqb_eq in Hxy. subst y. f_equal. now apply IH.
Qed.

Lemma wobs_ok_opens : forall w, wobs_ok w = true -> w_opens w = [w_key_id w] /\ w_key_id w = w_gen w.
Proof.
  intros w H. unfold wobs_ok in H.
  apply andb_true_iff in H. destruct H as [H Hop].
  apply andb_true_iff in H. destruct H as [H _].
  apply andb_true_iff in H. destruct H as [Hid _].
  split; [now apply list_eqb_N_true|now apply N.eqb_eq].
Qed.

Lemma spec_open_last_writes : forall l all rd,
  spec_open all (l ++ [rd]) = true -> forallb wobs_ok (rd_writes rd) = true.
Proof.
  induction l as [|r0 l IH]; intros all rd H; cbn [app spec_open] in H.
  - apply andb_true_iff in H. destruct H as [H _]. apply andb_true_iff in H. now destruct H.
  - apply andb_true_iff in H. destruct H as [_ H]. now apply (IH _ _ H).
Qed.

Theorem ilv_written_under_named_head : forall x w,
  spec_C05_ilv x = true -> i_write x = Some w ->
  exists g, named_gen x = Some g /\ w_key_id w = g /\ w_opens w = [g].
Proof.
  intros x w H Hw. unfold spec_C05_ilv in H. apply andb_true_iff in H. destruct H as [Hseq Hspec].
  unfold ilv_seq_ok in Hseq. rewrite Hw in Hseq.
  destruct (named_gen x) as [g|]; [|discriminate Hseq].
  apply andb_true_iff in Hseq. destruct Hseq as [Hseq _]. apply andb_true_iff in Hseq. destruct Hseq as [Hg _].
  apply N.eqb_eq in Hg.
  unfold spec_C05_open, ilv_rounds in Hspec. apply spec_open_last_writes in Hspec. cbn [rd_writes] in Hspec.
  rewrite Hw in Hspec. cbn [opt_list app forallb] in Hspec. apply andb_true_iff in Hspec. destruct Hspec as [Hok _].
  apply wobs_ok_opens in Hok. destruct Hok as [Hop Hid].
  exists g. split; [reflexivity|]. rewrite Hid, Hg in *. split; [reflexivity|exact Hop].
Qed.
