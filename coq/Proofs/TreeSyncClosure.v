(* Proofs/TreeSyncClosure.v — C01, part 1: causal closure is an invariant of EVERY trace of Model/TreeSync.v,
   whatever is delivered (messages are arbitrary lists of ids, heads and paths — not only what the network holds). *)
From Coq Require Import List NArith Bool Arith Lia.
Import ListNotations.
From AnySync Require Import Lib.Dag Model.Dfs Model.Tree Model.LoadIter Model.TreeSync Proofs.DfsBase.

Definition closed (G : list change) (have : list N) : Prop :=
  forall i, In i have -> exists c, find_change G i = Some c /\ forall p, In p (cprev c) -> In p have.

Definition rep_inv (G : list change) (r : replica) : Prop :=
  closed G (r_have r) /\ In (r_root r) (r_have r).

Definition winv (w : world) : Prop :=
  NoDup (ids (wG w)) /\ Forall (rep_inv (wG w)) (w_reps w).

(* ---------------------------------------------------------------- small list facts *)

Lemma all_in_In : forall l v, all_in l v = true -> forall p, In p l -> In p v.
Proof.
  intros l v H p Hp. unfold all_in in H. rewrite forallb_forall in H. apply mem_In. apply H. exact Hp.
Qed.

Lemma minus_In : forall a b x, In x (minus a b) <-> In x a /\ ~ In x b.
Proof.
  intros a b x. unfold minus. rewrite filter_In. rewrite negb_true_iff, mem_false_In. reflexivity.
Qed.

Lemma In_dec_N : forall (x : N) l, In x l \/ ~ In x l.
Proof.
  intros x l. destruct (mem x l) eqn:E; [left; apply mem_In; exact E | right; apply mem_false_In; exact E].
Qed.

Lemma grow_In : forall added have x, In x (minus added have ++ have) <-> In x added \/ In x have.
Proof.
  intros added have x. rewrite in_app_iff, minus_In. destruct (In_dec_N x have); tauto.
Qed.

Lemma grow_r : forall added have x, In x have -> In x (minus added have ++ have).
Proof. intros added have x H. apply (proj2 (grow_In added have x)). right. exact H. Qed.

Lemma grow_l : forall added have x, In x added -> In x (minus added have ++ have).
Proof. intros added have x H. apply (proj2 (grow_In added have x)). left. exact H. Qed.

Lemma NoDup_app_single : forall (l : list N) x, NoDup l -> ~ In x l -> NoDup (l ++ [x]).
Proof.
  induction l as [|a l IH]; intros x Hnd Hx; cbn [app]; [constructor; [intros []|constructor]|].
  inversion Hnd; subst. constructor.
  - rewrite in_app_iff. intros [H|[H|[]]]; [contradiction | apply Hx; left; symmetry; exact H].
  - apply IH; [assumption | intros H; apply Hx; right; exact H].
Qed.

Lemma find_change_unique : forall G c, NoDup (ids G) -> In c G -> find_change G (cid c) = Some c.
Proof.
  induction G as [|a G IH]; intros c Hnd Hin; [destruct Hin|].
  cbn [find_change]. destruct Hin as [->|Hin]; [rewrite N.eqb_refl; reflexivity|].
  cbn [ids map] in Hnd. inversion Hnd as [|x l Hna Hnd']; subst.
  destruct (N.eqb (cid a) (cid c)) eqn:E.
  - apply N.eqb_eq in E. exfalso. apply Hna. rewrite E. unfold ids. apply in_map. exact Hin.
  - apply IH; assumption.
Qed.

Lemma find_change_app : forall G l i c, find_change G i = Some c -> find_change (G ++ l) i = Some c.
Proof.
  induction G as [|a G IH]; intros l i c H; [discriminate|].
  cbn [find_change app] in *. destruct (N.eqb (cid a) i); [exact H | apply IH; exact H].
Qed.

Lemma find_change_fresh : forall G c, has_change G (cid c) = false -> find_change (G ++ [c]) (cid c) = Some c.
Proof.
  induction G as [|a G IH]; intros c H.
  - cbn. rewrite N.eqb_refl. reflexivity.
  - unfold has_change, ids in H. cbn [map mem existsb] in H. apply orb_false_iff in H. destruct H as [H1 H2].
    cbn [find_change app]. rewrite N.eqb_sym in H1. rewrite H1. apply IH. exact H2.
Qed.

Lemma find_all_ids : forall G l x, In x (ids (find_all G l)) -> In x l.
Proof.
  induction l as [|i r IH]; intros x H; [destruct H|].
  cbn [find_all] in H. destruct (find_change G i) as [c|] eqn:E.
  - cbn [ids map In] in H. destruct H as [H|H].
    + left. apply find_change_sound in E. destruct E as [_ E]. congruence.
    + right. apply IH. exact H.
  - right. apply IH. exact H.
Qed.

Lemma heads_in_incl : forall G v x, In x (heads_in G v) -> In x v.
Proof.
  intros G v x H. unfold heads_in, heads_of in H. apply (proj1 (isort_In _ _)) in H. apply filter_In in H.
  apply find_all_ids with (G := G). exact (proj1 H).
Qed.

Lemma closed_app : forall G l have, closed G have -> closed (G ++ l) have.
Proof.
  intros G l have H i Hi. destruct (H i Hi) as [c [Hc Hp]]. exists c. split; [apply find_change_app; exact Hc | exact Hp].
Qed.

(* ---------------------------------------------------------------- the attach pass *)

Lemma attach_pass_spec : forall Gfull cand G v,
  (forall c, In c G -> In c Gfull) ->
  incl v (fold_left (attach_one cand) G v)
  /\ forall i, In i (fold_left (attach_one cand) G v) ->
       In i v \/ (In i cand /\ exists c, In c Gfull /\ cid c = i
                  /\ (forall p, In p (cprev c) -> In p (fold_left (attach_one cand) G v))
                  /\ In (csnap c) (fold_left (attach_one cand) G v)).
Proof.
  intros Gfull cand G. induction G as [|c G IH]; intros v Hsub.
  - cbn [fold_left]. split; [apply incl_refl | intros i Hi; left; exact Hi].
  - cbn [fold_left].
    assert (Hsub' : forall c0, In c0 G -> In c0 Gfull) by (intros c0 H0; apply Hsub; right; exact H0).
    destruct (IH (attach_one cand v c) Hsub') as [Hincl Hspec].
    assert (Hstep : incl v (attach_one cand v c)).
    { unfold attach_one. destruct (mem (cid c) v); [apply incl_refl|].
      destruct (mem (cid c) cand && all_in (cprev c) v && mem (csnap c) v); [apply incl_tl|]; apply incl_refl. }
    split; [eapply incl_tran; eassumption|].
    intros i Hi. destruct (Hspec i Hi) as [Hin|Hnew]; [|right; exact Hnew].
    unfold attach_one in Hin. destruct (mem (cid c) v) eqn:E1; [left; exact Hin|].
    destruct (mem (cid c) cand && all_in (cprev c) v && mem (csnap c) v) eqn:E2; [|left; exact Hin].
    destruct Hin as [<-|Hin]; [|left; exact Hin].
    apply andb_true_iff in E2. destruct E2 as [E2 E3]. apply andb_true_iff in E2. destruct E2 as [E2a E2b].
    right. split; [apply mem_In; exact E2a|]. exists c. split; [apply Hsub; left; reflexivity|]. split; [reflexivity|].
    assert (Hv : incl v (fold_left (attach_one cand) G (attach_one cand v c))) by (eapply incl_tran; eassumption).
    split.
    + intros p Hp. apply Hv. eapply all_in_In; eassumption.
    + apply Hv. apply mem_In. exact E3.
Qed.

Lemma mview_incl : forall G have root x, In x (mview G have root) -> x = root \/ In x have.
Proof.
  intros G have root x H. unfold mview, attach_pass in H.
  destruct (attach_pass_spec G have G [root] (fun c Hc => Hc)) as [_ Hs].
  destruct (Hs x H) as [[<-|[]]|[Hc _]]; [left; reflexivity | right; exact Hc].
Qed.

Lemma rep_view_incl : forall G r, In (r_root r) (r_have r) -> incl (rep_view G r) (r_have r).
Proof.
  intros G r Hroot x Hx. unfold rep_view in Hx. apply mview_incl in Hx. destruct Hx as [->|Hx]; assumption.
Qed.

Lemma rep_heads_incl : forall G r, In (r_root r) (r_have r) -> incl (rep_heads G r) (r_have r).
Proof.
  intros G r Hroot x Hx. unfold rep_heads in Hx. apply heads_in_incl in Hx. apply (rep_view_incl G r Hroot). exact Hx.
Qed.

(* growing a causally closed stored set by what an attach pass attached on top of a stored view *)
Lemma attach_grow_closed : forall G cand v have,
  NoDup (ids G) -> closed G have -> incl v have ->
  let v' := attach_pass G cand v in
  let added := minus v' v in
  closed G (minus added have ++ have) /\ incl v' (minus added have ++ have).
Proof.
  intros G cand v have Hnd Hcl Hv v' added.
  destruct (attach_pass_spec G cand G v (fun c Hc => Hc)) as [Hincl Hspec]. fold (attach_pass G cand v) in Hincl, Hspec.
  fold v' in Hincl, Hspec.
  assert (Hv' : incl v' (minus added have ++ have)).
  { intros x Hx. apply grow_In. destruct (In_dec_N x v) as [Hxv|Hxv]; [right; apply Hv; exact Hxv|].
    left. unfold added. apply minus_In. split; assumption. }
  split; [|exact Hv'].
  intros i Hi. apply grow_In in Hi. destruct Hi as [Hi|Hi].
  - unfold added in Hi. apply minus_In in Hi. destruct Hi as [Hi Hni].
    destruct (Hspec i Hi) as [Hiv|[_ [c [Hc [Hid [Hp _]]]]]]; [contradiction|].
    exists c. split; [rewrite <- Hid; apply find_change_unique; assumption|].
    intros p Hpp. apply Hv'. apply Hp. exact Hpp.
  - destruct (Hcl i Hi) as [c [Hc Hp]]. exists c. split; [exact Hc|]. intros p Hpp. apply grow_In. right. apply Hp. exact Hpp.
Qed.

(* ---------------------------------------------------------------- reduce *)

Lemma chain_to_root_in : forall fuel G v root cur p,
  chain_to_root fuel G v root cur = Some p -> forall x, In x p -> x = root \/ In x v.
Proof.
  induction fuel as [|f IH]; intros G v root cur p H x Hx; cbn [chain_to_root] in H.
  - destruct (N.eqb cur root) eqn:E; [|discriminate]. inversion H; subst. destruct Hx as [<-|[]]. left. apply N.eqb_eq. exact E.
  - destruct (N.eqb cur root) eqn:E.
    + inversion H; subst. destruct Hx as [<-|[]]. left. apply N.eqb_eq. exact E.
    + destruct (mem cur v) eqn:Ev; [|discriminate]. destruct (find_change G cur) as [c|]; [|discriminate].
      destruct (chain_to_root f G v root (csnap c)) as [q|] eqn:Eq; [|discriminate]. cbn [option_map] in H. inversion H; subst.
      destruct Hx as [<-|Hx]; [right; apply mem_In; exact Ev | eapply IH; eassumption].
Qed.

Lemma reduce_root_in : forall G v hs root,
  reduce_root G v hs root = root \/ In (reduce_root G v hs root) v \/ In (reduce_root G v hs root) hs.
Proof.
  intros G v hs root. unfold reduce_root. destruct hs as [|h0 rest]; [left; reflexivity|].
  destruct (find_change G h0) as [fh|]; [|left; reflexivity].
  destruct (cissnap fh && is_nil rest); [right; right; left; reflexivity|].
  destruct (mem (csnap fh) v) eqn:Ev; [|left; reflexivity].
  destruct (is_nil rest); [right; left; apply mem_In; exact Ev|].
  destruct (chain_to_root (S (length G)) G v root (csnap fh)) as [path|] eqn:Ep; [|left; reflexivity].
  destruct (max_meet_at (S (length G)) G v path rest 0) as [k|]; [|left; reflexivity].
  destruct (nth_in_or_default k path root) as [Hin|Hd]; [|left; exact Hd].
  destruct (chain_to_root_in _ _ _ _ _ _ Ep _ Hin) as [Hr|Hv]; [left; exact Hr | right; left; exact Hv].
Qed.

(* ---------------------------------------------------------------- apply *)

Lemma apply_inv : forall G r batch path r' res,
  NoDup (ids G) -> rep_inv G r -> apply G r batch path = (r', res) ->
  rep_inv G r' /\ incl (r_have r) (r_have r') /\ (forall added, res = AChanged added -> incl added (r_have r')).
Proof.
  intros G r batch path r' res Hnd [Hcl Hroot] H.
  assert (Hsame : rep_inv G r /\ incl (r_have r) (r_have r) /\ (forall added, @eq ares AErr (AChanged added) -> incl added (r_have r)))
    by (split; [split; assumption | split; [apply incl_refl | intros a Ha; discriminate]]).
  assert (Hsame2 : rep_inv G r /\ incl (r_have r) (r_have r) /\ (forall added, @eq ares ANothing (AChanged added) -> incl added (r_have r)))
    by (split; [split; assumption | split; [apply incl_refl | intros a Ha; discriminate]]).
  unfold apply in H.
  set (v := rep_view G r) in *. set (newc := dedup (minus batch v) []) in *.
  destruct (find_all G newc) as [|nc0 ncs] eqn:Enew; [inversion H; subst; exact Hsame2|].
  destruct (need_rb G v (r_root r) (ids (filter cissnap (nc0 :: ncs))) (nc0 :: ncs)) as [[|]|] eqn:Erb;
    [| |inversion H; subst; exact Hsame].
  - (* rebuild from storage *)
    destruct path as [|p0 pr]; [inversion H; subst; exact Hsame|].
    destruct (rep_path G r) as [ourPath|]; [|inversion H; subst; exact Hsame].
    destruct (common_snapshot ourPath (p0 :: pr)) as [base|]; [|inversion H; subst; exact Hsame].
    destruct (mem base (r_have r)) eqn:Eb; cbn [negb] in H; [|inversion H; subst; exact Hsame].
    apply mem_In in Eb.
    assert (Hv0 : incl (mview G (r_have r) base) (r_have r)).
    { intros x Hx. apply mview_incl in Hx. destruct Hx as [->|Hx]; assumption. }
    destruct (attach_grow_closed G (minus newc (r_have r)) _ _ Hnd Hcl Hv0) as [Hc' Hv1].
    injection H as Hr Hres. subst r' res. cbn [r_have r_root].
    split; [split; [exact Hc'|]|split].
    + apply grow_r.
      destruct (same_set _ _ && mem (r_root r) _ && negb (N.eqb base (r_root r))); assumption.
    + intros x Hx. apply grow_r. exact Hx.
    + intros added Ha. inversion Ha; subst added. intros x Hx. apply grow_l. exact Hx.
  - (* normal path *)
    assert (Hv : incl v (r_have r)) by (apply rep_view_incl; exact Hroot).
    destruct (attach_grow_closed G newc v _ Hnd Hcl Hv) as [Hc' Hv1].
    destruct (minus (attach_pass G newc v) v) as [|a0 ar] eqn:Eadd; [inversion H; subst; exact Hsame2|].
    rewrite <- Eadd in H, Hc', Hv1. injection H as Hr Hres. subst r' res. cbn [r_have r_root].
    split; [split; [exact Hc'|]|split].
    + destruct (reduce_root_in G (attach_pass G newc v) (heads_in G (attach_pass G newc v)) (r_root r)) as [Heq|[Hin|Hin]].
      * rewrite Heq. apply grow_r. exact Hroot.
      * apply Hv1. exact Hin.
      * apply Hv1. apply heads_in_incl in Hin. exact Hin.
    + intros x Hx. apply grow_r. exact Hx.
    + intros added Ha. inversion Ha; subst added. intros x Hx. apply grow_l. exact Hx.
Qed.

(* what a replica may advertise: heads and changes it stores (responses with changes are C09's subject) *)
Definition adv_ok (have : list N) (m : msg) : Prop :=
  match m with
  | MHead h c _ => incl h have /\ incl c have
  | MReq h _ => incl h have
  | MResp h c _ => c = [] -> incl h have
  end.

Lemma broadcast_adv : forall G n me quiet r added,
  In (r_root r) (r_have r) -> incl added (r_have r) ->
  Forall (fun e => adv_ok (r_have r) (snd e)) (broadcast G n me quiet r added).
Proof.
  intros G n me quiet r added Hroot Hadd. unfold broadcast. apply Forall_forall. intros e He.
  apply in_map_iff in He. destruct He as [q [<- _]]. cbn [snd adv_ok].
  split; [apply rep_heads_incl; exact Hroot|]. destruct (Nat.eqb q quiet); [intros x []|exact Hadd].
Qed.

Lemma add_from_peer_inv : forall G n me from r heads chs path r' em res,
  NoDup (ids G) -> rep_inv G r -> add_from_peer G n me from r heads chs path = (r', em, res) ->
  rep_inv G r' /\ incl (r_have r) (r_have r') /\ Forall (fun e => adv_ok (r_have r') (snd e)) em.
Proof.
  intros G n me from r heads chs path r' em res Hnd Hinv H. unfold add_from_peer in H.
  destruct (has_heads G r heads); [inversion H; subst; split; [exact Hinv | split; [apply incl_refl | constructor]]|].
  destruct (apply G r chs path) as [r1 a] eqn:Ea.
  destruct (apply_inv _ _ _ _ _ _ Hnd Hinv Ea) as [Hinv1 [Hincl Hadd]].
  destruct a as [| |added]; inversion H; subst; clear H.
  - split; [exact Hinv | split; [apply incl_refl | constructor]].
  - split; [exact Hinv | split; [apply incl_refl | constructor]].
  - split; [exact Hinv1 | split; [exact Hincl|]]. apply broadcast_adv; [exact (proj2 Hinv1) | apply Hadd; reflexivity].
Qed.

Lemma Forall_set_nth : forall (A : Type) (P : A -> Prop) i x l, Forall P l -> P x -> Forall P (set_nth i x l).
Proof.
  intros A P i x l. revert i. induction l as [|a l IH]; intros i Hl Hx; [destruct i; constructor|].
  inversion Hl; subst. destruct i; cbn [set_nth]; constructor; auto.
Qed.

Lemma get_rep_inv : forall w i, winv w -> i < length (w_reps w) -> rep_inv (wG w) (get_rep w i).
Proof.
  intros w i [_ Hf] Hi. unfold get_rep. rewrite Forall_forall in Hf. apply Hf. apply nth_In. exact Hi.
Qed.

Lemma nth_set_nth : forall (A : Type) i (x d : A) l, i < length l -> nth i (set_nth i x l) d = x.
Proof.
  intros A i x d l. revert i. induction l as [|a l IH]; intros i Hi; [cbn in Hi; lia|].
  destruct i; cbn [set_nth nth]; [reflexivity | apply IH; cbn in Hi; lia].
Qed.

Lemma set_nth_length : forall (A : Type) i (x : A) l, length (set_nth i x l) = length l.
Proof.
  intros A i x l. revert i. induction l as [|a l IH]; intros i; [destruct i; reflexivity|].
  destruct i; cbn [set_nth length]; [reflexivity | rewrite IH; reflexivity].
Qed.

(* ---------------------------------------------------------------- one step *)

Definition actor_of (l : label) : nat :=
  match l with LocalAdd i _ _ _ => i | Deliver i _ _ => i | SyncWithPeer i _ => i end.

Definition emits_ok (w' : world) (l : label) (em : list emission) : Prop :=
  Forall (fun e => adv_ok (r_have (get_rep w' (actor_of l))) (snd e)) em.

Lemma step_inv : forall nb w l w' em,
  winv w -> step nb w l = (w', em) -> winv w' /\ emits_ok w' l em.
Proof.
  intros nb w l w' em Hw H. unfold step in H. destruct l as [i isSnap id size | i from m | i p].
  - (* LocalAdd *)
    destruct (Nat.ltb i (length (w_reps w)) && negb (has_change (wG w) id) && negb (N.eqb id 0)) eqn:Eg;
      [|inversion H; subst; split; [exact Hw | constructor]].
    apply andb_true_iff in Eg. destruct Eg as [Eg _]. apply andb_true_iff in Eg. destruct Eg as [Ei Efresh].
    apply Nat.ltb_lt in Ei. apply negb_true_iff in Efresh.
    pose proof (get_rep_inv w i Hw Ei) as [Hcl Hroot]. destruct Hw as [Hnd Hf].
    set (r := get_rep w i) in *.
    set (c := mkChange id (rep_heads (wG w) r) (r_root r) isSnap) in *.
    set (r' := mkRep (id :: r_have r) (if isSnap then id else r_root r)) in *.
    assert (HG' : wG (mkW (w_uni w ++ [mkSE c size]) (set_nth i r' (w_reps w))) = wG w ++ [c]).
    { unfold wG. cbn [w_uni]. rewrite map_app. reflexivity. }
    assert (Hr' : rep_inv (wG w ++ [c]) r').
    { split.
      - intros x [<-|Hx].
        + exists c. split; [change id with (cid c) at 1; apply find_change_fresh; exact Efresh|].
          cbn [cprev c]. intros p Hp. right. apply (rep_heads_incl (wG w) r Hroot). exact Hp.
        + destruct (Hcl x Hx) as [c0 [Hc0 Hp0]]. exists c0. split; [apply find_change_app; exact Hc0|].
          intros p Hp. right. apply Hp0. exact Hp.
      - unfold r'. cbn [r_have r_root]. destruct isSnap; [left; reflexivity | right; exact Hroot]. }
    inversion H; subst w' em; clear H. split.
    + split; rewrite HG'.
      * unfold ids. rewrite map_app. cbn [map]. apply NoDup_app_single.
        -- exact Hnd.
        -- intros Hin. apply mem_In in Hin. unfold has_change in Efresh. cbn [cid c] in Hin. unfold ids in Efresh. congruence.
      * cbn [w_reps]. apply Forall_set_nth; [|exact Hr'].
        eapply Forall_impl; [|exact Hf]. intros a [Ha1 Ha2]. split; [apply closed_app; exact Ha1 | exact Ha2].
    + unfold emits_ok. cbn [actor_of]. unfold get_rep. cbn [w_reps]. rewrite nth_set_nth by exact Ei.
      rewrite HG'. apply broadcast_adv; [exact (proj2 Hr')|]. intros x [<-|[]]. left. reflexivity.
  - (* Deliver *)
    destruct (Nat.ltb i (length (w_reps w))) eqn:Ei; [|inversion H; subst; split; [exact Hw | constructor]].
    apply Nat.ltb_lt in Ei. pose proof (get_rep_inv w i Hw Ei) as Hinv. destruct Hw as [Hnd Hf].
    assert (Hset : forall r' em0, rep_inv (wG w) r' -> Forall (fun e => adv_ok (r_have r') (snd e)) em0 ->
                   winv (set_rep w i r') /\ emits_ok (set_rep w i r') (Deliver i from m) em0).
    { intros r' em0 Hr' Hem. split.
      - split; [exact Hnd|]. unfold set_rep, wG. cbn [w_uni w_reps]. apply Forall_set_nth; assumption.
      - unfold emits_ok. cbn [actor_of]. unfold get_rep, set_rep. cbn [w_reps]. rewrite nth_set_nth by exact Ei. exact Hem. }
    destruct m as [hs chs p | hs p | hs chs p].
    + (* head update *)
      destruct (handle_head (wG w) (length (w_reps w)) i from (get_rep w i) hs chs p) as [r' em0] eqn:Eh.
      inversion H; subst w' em; clear H. apply Hset; unfold handle_head in Eh.
      * destruct chs as [|c0 cr].
        -- destruct (has_heads _ _ _); inversion Eh; subst; exact Hinv.
        -- destruct (add_from_peer _ _ _ _ _ _ (c0 :: cr) _) as [[r1 em1] res] eqn:Ea.
           destruct (add_from_peer_inv _ _ _ _ _ _ _ _ _ _ _ Hnd Hinv Ea) as [H1 _].
           destruct res as [rh|]; [destruct (same_set rh hs)|]; inversion Eh; subst; exact H1.
      * destruct chs as [|c0 cr].
        -- destruct (has_heads _ _ _); inversion Eh; subst; [constructor|].
           constructor; [|constructor]. cbn [snd full_request adv_ok]. apply rep_heads_incl. exact (proj2 Hinv).
        -- destruct (add_from_peer _ _ _ _ _ _ (c0 :: cr) _) as [[r1 em1] res] eqn:Ea.
           destruct (add_from_peer_inv _ _ _ _ _ _ _ _ _ _ _ Hnd Hinv Ea) as [H1 [_ H3]].
           destruct res as [rh|]; [destruct (same_set rh hs)|]; inversion Eh; subst; try exact H3.
           apply Forall_app. split; [exact H3|]. constructor; [|constructor].
           cbn [snd full_request adv_ok]. apply rep_heads_incl. exact (proj2 H1).
    + (* request: the state does not change *)
      inversion H; subst w' em; clear H. split; [split; assumption|].
      unfold emits_ok. cbn [actor_of]. unfold handle_req.
      destruct (rep_path (map se_ch (w_uni w)) (get_rep w i)) as [ourPath|]; [|constructor].
      destruct (choose_snapshot ourPath p) as [cs|]; [|constructor].
      assert (Hh : incl (rep_heads (map se_ch (w_uni w)) (get_rep w i)) (r_have (get_rep w i)))
        by (apply rep_heads_incl; exact (proj2 Hinv)).
      destruct (same_set _ hs || contains_sorted hs _).
      * constructor; [cbn [snd adv_ok]; intros _; exact Hh|].
        destruct (Nat.eqb _ _); constructor; [cbn [snd adv_ok]; exact Hh | constructor].
      * apply Forall_app. split.
        -- apply Forall_forall. intros e He. apply in_map_iff in He. destruct He as [b [<- Hb]]. cbn [snd adv_ok].
           intros Hnil.
           (* a streamed batch is never empty ([stream] stops at the first empty batch) *)
           exfalso. revert Hb Hnil. unfold respond_with.
           generalize (S (length (sigma_of (w_uni w) (get_rep w i) (root0 w)))) as fuel.
           generalize (load (sigma_of (w_uni w) (get_rep w i) (root0 w)) cs hs) as li.
           intros li fuel. revert li. induction fuel as [|f IHf]; intros li Hb Hnil; [destruct Hb|].
           cbn [stream] in Hb. destruct (nb batch_size li) as [b0 l0]. destruct (b_changes b0) as [|x xs] eqn:Eb0; [destruct Hb|].
           destruct Hb as [<-|Hb]; [rewrite Eb0 in Hnil; discriminate | eapply IHf; eassumption].
        -- destruct (is_nil hs); constructor; [cbn [snd adv_ok]; exact Hh | constructor].
    + (* response *)
      destruct (handle_resp (wG w) (length (w_reps w)) i from (get_rep w i) hs chs p) as [r' em0] eqn:Eh.
      inversion H; subst w' em; clear H. unfold handle_resp in Eh. destruct chs as [|c0 cr].
      * inversion Eh; subst. apply Hset; [exact Hinv | constructor].
      * destruct (add_from_peer _ _ _ _ _ _ (c0 :: cr) _) as [[r1 em1] res] eqn:Ea.
        destruct (add_from_peer_inv _ _ _ _ _ _ _ _ _ _ _ Hnd Hinv Ea) as [H1 [_ H3]].
        inversion Eh; subst. apply Hset; assumption.
  - (* SyncWithPeer *)
    destruct (Nat.ltb i (length (w_reps w))) eqn:Ei; inversion H; subst; (split; [exact Hw|]); [|constructor].
    apply Nat.ltb_lt in Ei. constructor; [|constructor]. cbn [snd full_request adv_ok actor_of].
    apply rep_heads_incl. exact (proj2 (get_rep_inv w' i Hw Ei)).
Qed.

(* ---------------------------------------------------------------- every trace *)

Lemma init_inv : forall n root size, cprev root = [] -> winv (init_world n root size).
Proof.
  intros n root size Hp. unfold winv, init_world, wG. cbn [w_uni w_reps map se_ch ids].
  split; [constructor; [intros []|constructor]|].
  apply Forall_forall. intros r Hr. apply repeat_spec in Hr. subst r. split; cbn [r_have r_root]; [|left; reflexivity].
  intros i [<-|[]]. exists root. split; [cbn [find_change]; rewrite N.eqb_refl; reflexivity|].
  rewrite Hp. intros p [].
Qed.

Lemma run_inv : forall nb ls w, winv w -> winv (run nb w ls).
Proof.
  intros nb ls. induction ls as [|l ls IH]; intros w Hw; [exact Hw|].
  unfold run. cbn [fold_left]. fold (run nb (fst (step nb w l)) ls). apply IH.
  destruct (step nb w l) as [w' em] eqn:E. cbn [fst]. exact (proj1 (step_inv _ _ _ _ _ Hw E)).
Qed.

Theorem causal_closure_all_traces : forall nb n root size ls,
  cprev root = [] ->
  let w := run nb (init_world n root size) ls in
  forall r, In r (w_reps w) ->
    (forall i, In i (r_have r) ->
       exists c, find_change (wG w) i = Some c /\ forall p, In p (cprev c) -> In p (r_have r))
    /\ incl (rep_heads (wG w) r) (r_have r)
    /\ In (r_root r) (r_have r).
Proof.
  intros nb n root size ls Hp w r Hr.
  pose proof (run_inv nb ls _ (init_inv n root size Hp)) as [_ Hf]. fold w in Hf.
  rewrite Forall_forall in Hf. destruct (Hf r Hr) as [Hcl Hroot].
  split; [exact Hcl | split; [apply rep_heads_incl; exact Hroot | exact Hroot]].
Qed.

Theorem advertised_is_stored : forall nb n root size ls l w' em,
  cprev root = [] ->
  step nb (run nb (init_world n root size) ls) l = (w', em) ->
  Forall (fun e => adv_ok (r_have (get_rep w' (actor_of l))) (snd e)) em.
Proof.
  intros nb n root size ls l w' em Hp H.
  exact (proj2 (step_inv _ _ _ _ _ (run_inv nb ls _ (init_inv n root size Hp)) H)).
Qed.
