(* Range arithmetic of app/ldiff/hashrange.go: genTupleRanges / getBottomRange agree, the children of a
   divisible range form an ordered partition of it, and they are at most half as wide (rounded up). *)
From Coq Require Import List NArith Bool Arith Lia ZArith ZifyBool ZifyNat ZifyN.
Import ListNotations.
From AnySync Require Import Model.Ldiff.
Open Scope N_scope.

Ltac Zify.zify_post_hook ::= Z.div_mod_to_equations.

(* ------------------------------------------------------------------ per_align *)

Lemma per_align_spec df from to per al :
  2 <= df -> from <= to -> can_divide df from to = true ->
  per_align df from to = (per, al) ->
  df * per + al = to - from + 1 /\ al < df /\ 1 <= per.
Proof.
  intros Hdf Hft Hcd H. unfold per_align in H. unfold can_divide in Hcd.
  set (w := to - from) in *.
  assert (Hw : df - 1 <= w) by lia.
  destruct (((w mod df + 1) mod df) =? 0) eqn:Hal; inversion H; subst; clear H.
  - apply N.eqb_eq in Hal. rewrite Hal.
    assert (Hdf0 : df <> 0) by lia.
    pose proof (N.div_mod w df Hdf0) as Hdm.
    pose proof (N.mod_lt w df Hdf0) as Hlt.
    (* (w mod df + 1) mod df = 0 with w mod df < df means w mod df = df - 1 *)
    assert (Hm : w mod df = df - 1).
    { destruct (N.eq_dec (w mod df + 1) df) as [E|E]; [lia|].
      assert (w mod df + 1 < df) by lia.
      rewrite N.mod_small in Hal by lia. lia. }
    split; [|split]; [nia| lia | nia].
  - apply N.eqb_neq in Hal.
    assert (Hdf0 : df <> 0) by lia.
    pose proof (N.div_mod w df Hdf0) as Hdm.
    pose proof (N.mod_lt w df Hdf0) as Hlt.
    assert (Hm : w mod df + 1 < df).
    { destruct (N.eq_dec (w mod df + 1) df) as [E|E]; [|lia].
      exfalso. apply Hal. rewrite E. apply N.mod_same. lia. }
    rewrite (N.mod_small (w mod df + 1) df) by lia.
    split; [|split]; [nia | lia |].
    (* per = w / df >= 1 since w >= df - 1 and w mod df <= df - 2 *)
    destruct (N.eq_dec (w / df) 0) as [E|E]; [|lia].
    rewrite E in Hdm. lia.
Qed.

(* ------------------------------------------------------------------ gen_aux *)

Lemma gen_aux_length j per al n : length (gen_aux j per al n) = n.
Proof.
  revert j; induction n as [|n IH]; intros j; [reflexivity|].
  destruct n as [|n]; [reflexivity|]. cbn [gen_aux length]. f_equal. apply IH.
Qed.

(* the i-th child *)
Definition child_of (j per al : N) (n : nat) (i : nat) : N * N :=
  (j + N.of_nat i * per,
   j + (N.of_nat i + 1) * per - 1 + (if Nat.eqb (S i) n then al else 0)).

Lemma gen_aux_nth j per al n i :
  (i < n)%nat -> 1 <= per ->
  nth_error (gen_aux j per al n) i = Some (child_of j per al n i).
Proof.
  revert j i; induction n as [|n IH]; intros j i Hi Hper; [lia|].
  destruct n as [|n].
  - assert (i = 0)%nat by lia. subst. cbn [gen_aux nth_error]. unfold child_of. cbn [Nat.eqb].
    change (N.of_nat 0) with 0. f_equal. f_equal; lia.
  - destruct i as [|i].
    + cbn [gen_aux nth_error]. unfold child_of. cbn [Nat.eqb]. change (N.of_nat 0) with 0. f_equal. f_equal; lia.
    + change (gen_aux j per al (S (S n))) with ((j, j + per - 1) :: gen_aux (j + per) per al (S n)).
      cbn [nth_error]. rewrite IH by lia. unfold child_of. f_equal.
      change (Nat.eqb (S (S i)) (S (S n))) with (Nat.eqb (S i) (S n)).
      f_equal; [lia|]. destruct (Nat.eqb (S i) (S n)); lia.
Qed.

Lemma gen_tuple_ranges_length df from to : length (gen_tuple_ranges df from to) = N.to_nat df.
Proof. unfold gen_tuple_ranges. destruct (per_align df from to). apply gen_aux_length. Qed.

(* ------------------------------------------------------------------ children of a divisible range *)

Section Children.
  Variables (df from to per al : N).
  Hypothesis Hdf : 2 <= df.
  Hypothesis Hft : from <= to.
  Hypothesis Hcd : can_divide df from to = true.
  Hypothesis Hpa : per_align df from to = (per, al).

  Let Hspec := per_align_spec df from to per al Hdf Hft Hcd Hpa.

  Lemma children_nth i :
    (i < N.to_nat df)%nat ->
    nth_error (gen_tuple_ranges df from to) i = Some (child_of from per al (N.to_nat df) i).
  Proof.
    intros Hi. unfold gen_tuple_ranges. rewrite Hpa. apply gen_aux_nth; [exact Hi|]. apply Hspec.
  Qed.

  (* bounds of child i *)
  Lemma child_bounds i a b :
    (i < N.to_nat df)%nat -> child_of from per al (N.to_nat df) i = (a, b) ->
    from <= a /\ a <= b /\ b <= to /\
    (i = 0%nat -> a = from) /\ (S i = N.to_nat df -> b = to) /\
    b - a + 1 = per + (if Nat.eqb (S i) (N.to_nat df) then al else 0).
  Proof.
    destruct Hspec as (Hsum & Hal & Hper).
    intros Hi H. unfold child_of in H.
    assert (Hk : N.of_nat i < df) by lia.
    destruct (Nat.eqb (S i) (N.to_nat df)) eqn:E; injection H as <- <-.
    - apply Nat.eqb_eq in E. assert (Hk' : N.of_nat i + 1 = df) by lia.
      assert (Hi0 : i = 0%nat -> N.of_nat i = 0) by (intros ->; reflexivity).
      set (k := N.of_nat i) in *. clearbody k.
      assert (Hmul : (k + 1) * per = df * per) by (rewrite Hk'; reflexivity).
      assert (Hkp : k * per + per = df * per) by nia.
      repeat split; try lia; try nia; try (intros Hz; rewrite (Hi0 Hz); lia).
    - apply Nat.eqb_neq in E. assert (Hk' : N.of_nat i + 1 < df) by lia.
      assert (Hi0 : i = 0%nat -> N.of_nat i = 0) by (intros ->; reflexivity).
      set (k := N.of_nat i) in *. clearbody k.
      assert (Hkp : (k + 1) * per = k * per + per) by nia.
      assert (Hle : (k + 1) * per + per <= df * per) by nia.
      repeat split; try lia; try nia; try (intros Hz; rewrite (Hi0 Hz); lia).
  Qed.

  (* consecutive children are adjacent *)
  Lemma child_adjacent i :
    (S i < N.to_nat df)%nat ->
    fst (child_of from per al (N.to_nat df) (S i)) = snd (child_of from per al (N.to_nat df) i) + 1.
  Proof.
    destruct Hspec as (Hsum & Hal & Hper).
    intros Hi. unfold child_of. cbn [fst snd].
    assert (E : Nat.eqb (S i) (N.to_nat df) = false) by (apply Nat.eqb_neq; lia). rewrite E. nia.
  Qed.

  (* getBottomRange (with the clamp) picks the child that contains the hash *)
  Lemma bucket_lt h : (N.to_nat (bucket df from to h) < N.to_nat df)%nat.
  Proof. unfold bucket. rewrite Hpa. lia. Qed.

  Lemma bucket_eq h : bucket df from to h = N.min ((h - from) / per) (df - 1).
  Proof. unfold bucket. rewrite Hpa. reflexivity. Qed.

  Lemma bucket_contains h a b :
    from <= h -> h <= to ->
    child_of from per al (N.to_nat df) (N.to_nat (bucket df from to h)) = (a, b) ->
    a <= h /\ h <= b.
  Proof.
    destruct Hspec as (Hsum & Hal & Hper).
    intros H1 H2 H. rewrite bucket_eq in H. unfold child_of in H. rewrite N2Nat.id in H.
    assert (Hper0 : per <> 0) by lia.
    pose proof (N.div_mod (h - from) per Hper0) as Hdm.
    pose proof (N.mod_lt (h - from) per Hper0) as Hlt.
    set (q := (h - from) / per) in *.
    destruct (N.min_spec q (df - 1)) as [[Hlt' Hm]|[Hge Hm]]; rewrite Hm in H.
    - assert (E : Nat.eqb (S (N.to_nat q)) (N.to_nat df) = false) by (apply Nat.eqb_neq; lia).
      rewrite E in H. injection H as <- <-. clearbody q. split; nia.
    - assert (E : Nat.eqb (S (N.to_nat (df - 1))) (N.to_nat df) = true) by (apply Nat.eqb_eq; lia).
      rewrite E in H. injection H as <- <-. clearbody q.
      assert (Hd : (df - 1 + 1) * per = df * per) by (replace (df - 1 + 1) with df by lia; reflexivity).
      split; nia.
  Qed.

  (* ... and no other child does *)
  Lemma other_child_excludes h i a b :
    from <= h -> h <= to -> (i < N.to_nat df)%nat -> i <> N.to_nat (bucket df from to h) ->
    child_of from per al (N.to_nat df) i = (a, b) ->
    h < a \/ b < h.
  Proof.
    destruct Hspec as (Hsum & Hal & Hper).
    intros H1 H2 Hi Hne H. rewrite bucket_eq in Hne. unfold child_of in H.
    assert (Hper0 : per <> 0) by lia.
    pose proof (N.div_mod (h - from) per Hper0) as Hdm.
    pose proof (N.mod_lt (h - from) per Hper0) as Hlt.
    set (q := (h - from) / per) in *.
    assert (Hk : N.of_nat i < df) by lia.
    assert (Hne' : N.of_nat i <> N.min q (df - 1)) by lia.
    clear Hne.
    destruct (Nat.eqb (S i) (N.to_nat df)) eqn:E; injection H as <- <-.
    - apply Nat.eqb_eq in E. assert (Hk' : N.of_nat i + 1 = df) by lia.
      set (k := N.of_nat i) in *. clearbody k q.
      (* i is the last child: the bucket is smaller, so h lies below its start *)
      left. destruct (N.min_spec q (df - 1)) as [[Hlt' Hm]|[Hge Hm]]; rewrite Hm in Hne'; [nia|lia].
    - apply Nat.eqb_neq in E. assert (Hk' : N.of_nat i + 1 < df) by lia.
      set (k := N.of_nat i) in *. clearbody k q.
      destruct (N.min_spec q (df - 1)) as [[Hlt' Hm]|[Hge Hm]]; rewrite Hm in Hne'.
      + destruct (N.lt_ge_cases k q); [right; nia|left; nia].
      + right. nia.
  Qed.

  (* a child is at most half as wide as its parent, rounded up *)
  Lemma child_half i a b :
    (i < N.to_nat df)%nat -> child_of from per al (N.to_nat df) i = (a, b) ->
    2 * (b - a + 1) <= (to - from + 1) + 1.
  Proof.
    destruct Hspec as (Hsum & Hal & Hper).
    intros Hi H. destruct (child_bounds i a b Hi H) as (_ & _ & _ & _ & _ & Hsz).
    rewrite Hsz. destruct (Nat.eqb (S i) (N.to_nat df)); nia.
  Qed.
End Children.

(* every listed child is a child_of *)
Lemma in_children df from to r :
  2 <= df -> from <= to -> can_divide df from to = true ->
  In r (gen_tuple_ranges df from to) ->
  exists i, (i < N.to_nat df)%nat /\
            r = child_of from (fst (per_align df from to)) (snd (per_align df from to)) (N.to_nat df) i.
Proof.
  intros Hdf Hft Hcd Hin. apply In_nth_error in Hin as [i Hi].
  assert (Hlt : (i < N.to_nat df)%nat).
  { rewrite <- (gen_tuple_ranges_length df from to). apply nth_error_Some. congruence. }
  exists i. split; [exact Hlt|].
  destruct (per_align df from to) as [per al] eqn:Hpa. cbn [fst snd].
  rewrite (children_nth df from to per al Hdf Hft Hcd Hpa i Hlt) in Hi. congruence.
Qed.

Lemma children_within df from to a b :
  2 <= df -> from <= to -> can_divide df from to = true ->
  In (a, b) (gen_tuple_ranges df from to) ->
  from <= a /\ a <= b /\ b <= to /\ 2 * (b - a + 1) <= (to - from + 1) + 1.
Proof.
  intros Hdf Hft Hcd Hin. destruct (in_children df from to (a, b) Hdf Hft Hcd Hin) as (i & Hi & E).
  destruct (per_align df from to) as [per al] eqn:Hpa. cbn [fst snd] in E. symmetry in E.
  destruct (child_bounds df from to per al Hdf Hft Hcd Hpa i a b Hi E) as (H1 & H2 & H3 & _).
  pose proof (child_half df from to per al Hdf Hft Hcd Hpa i a b Hi E). lia.
Qed.
