(* Lemmas about Model/Handshake.v (plain stdlib style). *)
From Coq Require Import List NArith Bool Lia.
Import ListNotations.
From AnySync Require Import Model.Handshake.
Open Scope N_scope.

(* ---------------------------------------------------------------- equality tests *)
Lemma list_eqb_eq : forall a b, list_eqb a b = true <-> a = b.
Proof.
  induction a as [|x a IH]; destruct b as [|y b]; cbn [list_eqb]; split; intro H; try reflexivity; try discriminate.
  - apply andb_true_iff in H. destruct H as [Hx Hl]. apply N.eqb_eq in Hx. apply IH in Hl. subst. reflexivity.
  - injection H as Hx Hl. subst. rewrite N.eqb_refl. cbn. apply IH. reflexivity.
Qed.

Lemma list_eqb_refl : forall a, list_eqb a a = true.
Proof. intro a. apply list_eqb_eq. reflexivity. Qed.

Lemma mem_In : forall v l, mem v l = true <-> In v l.
Proof.
  intros v l. unfold mem. rewrite existsb_exists. split.
  - intros [x [Hin Hx]]. apply N.eqb_eq in Hx. subst. exact Hin.
  - intro Hin. exists v. split; [exact Hin | apply N.eqb_refl].
Qed.

Lemma cver_eqb_refl : forall a, cver_eqb a a = true.
Proof. intros [i b]. unfold cver_eqb. cbn. rewrite N.eqb_refl. destruct b; reflexivity. Qed.

Lemma cver_eqb_eq : forall a b, cver_eqb a b = true -> a = b.
Proof.
  intros [i b] [j d]. unfold cver_eqb. cbn. intro H. apply andb_true_iff in H. destruct H as [Hi Hb].
  apply N.eqb_eq in Hi. apply eqb_prop in Hb. subst. reflexivity.
Qed.

Lemma result_eqb_refl : forall r, result_eqb r r = true.
Proof.
  intros [i v c]. unfold result_eqb. cbn. rewrite N.eqb_refl, cver_eqb_refl.
  destruct i as [k|]; cbn; [rewrite N.eqb_refl|]; reflexivity.
Qed.

Lemma sig_valid_inv : forall k m s, sig_valid k m s = true -> s = SigOf k m.
Proof.
  intros k m [k' m'|]; cbn; intro H; [|discriminate].
  apply andb_true_iff in H. destruct H as [Hk Hm]. apply N.eqb_eq in Hk. apply list_eqb_eq in Hm. subst. reflexivity.
Qed.

Lemma sig_valid_refl : forall k m, sig_valid k m (SigOf k m) = true.
Proof. intros. cbn. rewrite N.eqb_refl, list_eqb_refl. reflexivity. Qed.

(* ---------------------------------------------------------------- decoded field values under the repaired release() *)
Lemma eff_ver_fixed : forall p q c, eff_ver true p c = eff_ver true q c.
Proof. intros p q c; unfold eff_ver; destruct (c_ver c); reflexivity. Qed.
Lemma eff_cv_fixed : forall p q c, eff_cv true p c = eff_cv true q c.
Proof. intros p q c; unfold eff_cv; destruct (c_cv c); reflexivity. Qed.
Lemma eff_ver_dflt : forall p c, eff_ver true p c = dflt_ver (c_ver c).
Proof. intros p c; unfold eff_ver, dflt_ver; destruct (c_ver c); reflexivity. Qed.
Lemma eff_cv_dflt : forall p c, eff_cv true p c = dflt_cv (c_cv c).
Proof. intros p c; unfold eff_cv, dflt_cv; destruct (c_cv c); reflexivity. Qed.

Lemma dflt_opt_ver : forall v, dflt_ver (opt_ver v) = v.
Proof.
  intro v. unfold opt_ver. destruct (N.eqb v 0) eqn:E; cbn; [apply N.eqb_eq in E; subst|]; reflexivity.
Qed.
Lemma dflt_opt_cv : forall c, dflt_cv (opt_cv c) = c.
Proof.
  intros [i b]. unfold opt_cv. cbn. destruct (N.eqb i 0) eqn:E; destruct b; cbn; try reflexivity.
  apply N.eqb_eq in E. subst. reflexivity.
Qed.

Lemma mk_cred_ver : forall s, c_ver (mk_cred s) = opt_ver (s_ver s).
Proof. intro s. unfold mk_cred. destruct (s_verify s); reflexivity. Qed.
Lemma mk_cred_cv : forall s, c_cv (mk_cred s) = opt_cv (s_cv s).
Proof. intro s. unfold mk_cred. destruct (s_verify s); reflexivity. Qed.

(* ---------------------------------------------------------------- CheckCredential *)
(* success of the checker, stated declaratively *)
Definition cred_sound (V : side_cfg) (c : cred) (v : N) (cv : cver) (r : result) : Prop :=
  In v (s_acc V) /\ cv_banned cv = false /\ r_ver r = v /\ r_cv r = cv /\
  (if s_verify V
   then c_type c = CT_SignedPeerIds /\
        exists k, c_payload c = PSigned (Some k) (SigOf k (s_remote V ++ s_peer V)) /\ r_ident r = Some k
   else r_ident r = None).

Lemma check_cred_ok : forall V v cv c r, check_cred V v cv c = inl r -> cred_sound V c v cv r.
Proof.
  intros V v cv c r. unfold check_cred, cred_sound.
  destruct (mem v (s_acc V)) eqn:Hm; cbn [negb]; [|discriminate].
  apply mem_In in Hm.
  destruct (s_verify V); cbn [negb].
  - destruct (N.eqb (c_type c) CT_SignedPeerIds) eqn:Ht; cbn [negb]; [|discriminate].
    apply N.eqb_eq in Ht.
    destruct (c_payload c) as [|[k|] sg]; try discriminate.
    destruct (sig_valid k (s_remote V ++ s_peer V) sg) eqn:Hs; cbn [negb]; [|discriminate].
    apply sig_valid_inv in Hs. subst sg.
    destruct (cv_banned cv) eqn:Hb; [discriminate|].
    intro H. injection H as H. subst r. cbn.
    repeat split; try assumption; try reflexivity. exists k. split; reflexivity.
  - destruct (cv_banned cv) eqn:Hb; [discriminate|].
    intro H. injection H as H. subst r. cbn. repeat split; try assumption; reflexivity.
Qed.

Lemma check_cred_complete : forall V v cv c r, cred_sound V c v cv r -> check_cred V v cv c = inl r.
Proof.
  intros V v cv c [ri rv rc]. unfold cred_sound, check_cred. cbn.
  intros [Hin [Hb [Hv [Hc Hm]]]]. subst rv rc.
  apply mem_In in Hin. rewrite Hin. cbn [negb].
  destruct (s_verify V); cbn [negb].
  - destruct Hm as [Ht [k [Hp Hi]]]. rewrite Ht, Hp. cbn [N.eqb negb].
    rewrite sig_valid_refl. cbn [negb]. rewrite Hb. subst ri.
    replace (N.eqb CT_SignedPeerIds CT_SignedPeerIds) with true by reflexivity. reflexivity.
  - rewrite Hb. subst ri. reflexivity.
Qed.

(* the honest case: what V's checker says about the credentials made by P *)
Lemma honest_check_ok : forall V P p, accepts V P = true ->
  check_cred V (eff_ver true p (mk_cred P)) (eff_cv true p (mk_cred P)) (mk_cred P) = inl (label V P).
Proof.
  intros V P p H. apply check_cred_complete.
  rewrite eff_ver_dflt, eff_cv_dflt, mk_cred_ver, mk_cred_cv, dflt_opt_ver, dflt_opt_cv.
  unfold accepts in H. apply andb_true_iff in H. destruct H as [H Hmode].
  apply andb_true_iff in H. destruct H as [Hmem Hban].
  apply mem_In in Hmem. apply negb_true_iff in Hban.
  unfold cred_sound, label. cbn.
  repeat split; try assumption.
  destruct (s_verify V); cbn in Hmode |- *; [|reflexivity].
  apply andb_true_iff in Hmode. destruct Hmode as [HvP Heq]. apply list_eqb_eq in Heq.
  unfold mk_cred. rewrite HvP. cbn. split; [reflexivity|].
  exists (s_ident P). rewrite Heq. split; reflexivity.
Qed.

Lemma honest_check_err : forall V P p, accepts V P = false ->
  exists e, check_cred V (eff_ver true p (mk_cred P)) (eff_cv true p (mk_cred P)) (mk_cred P) = inr e.
Proof.
  intros V P p H.
  destruct (check_cred V (eff_ver true p (mk_cred P)) (eff_cv true p (mk_cred P)) (mk_cred P)) as [r|e] eqn:E;
    [|exists e; reflexivity].
  exfalso. apply check_cred_ok in E.
  rewrite eff_ver_dflt, eff_cv_dflt, mk_cred_ver, mk_cred_cv, dflt_opt_ver, dflt_opt_cv in E.
  destruct E as [Hin [Hb [_ [_ Hm]]]].
  unfold accepts in H. apply mem_In in Hin. rewrite Hin, Hb in H. cbn in H.
  destruct (s_verify V); cbn in H; [|discriminate].
  destruct Hm as [Ht [k [Hp _]]].
  unfold mk_cred in Ht, Hp. destruct (s_verify P); cbn in Ht, Hp, H; [|discriminate].
  assert (Hmsg : s_peer P ++ s_remote P = s_remote V ++ s_peer V) by congruence.
  rewrite Hmsg, list_eqb_refl in H. discriminate.
Qed.

Lemma accepts_iff : forall V P, accepts V P = true <->
  In (s_ver P) (s_acc V) /\ cv_banned (s_cv P) = false /\
  (s_verify V = true -> s_verify P = true /\ s_peer P ++ s_remote P = s_remote V ++ s_peer V).
Proof.
  intros V P. unfold accepts. rewrite !andb_true_iff, orb_true_iff, andb_true_iff, negb_true_iff, negb_true_iff,
    mem_In, list_eqb_eq.
  split.
  - intros [[H1 H2] H3]. repeat split; try assumption; destruct H3 as [H3|[H3 H4]]; try congruence; assumption.
  - intros [H1 [H2 H3]]. repeat split; try assumption.
    destruct (s_verify V); [right; apply H3; reflexivity | left; reflexivity].
Qed.
