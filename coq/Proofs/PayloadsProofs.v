(* Proofs about Model/Payloads.v (property C13): decidable equality of the term algebra, inversion and
   introduction lemmas for the three validators on payload terms. *)
From Coq Require Import List NArith Bool.
Import ListNotations.
From AnySync Require Import Model.Payloads.

(* ------------------------------------------------------------------------------------------------ *)
(* equality of terms                                                                                  *)
(* ------------------------------------------------------------------------------------------------ *)

Lemma skey_eqb_eq : forall a b, skey_eqb a b = true <-> a = b.
Proof.
  intros a b; destruct a, b; simpl; split; intro H; try discriminate;
    repeat rewrite andb_true_iff in *; repeat rewrite N.eqb_eq in *.
  - subst; reflexivity.
  - injection H as ->; reflexivity.
  - destruct H as [[[-> ->] ->] ->]; reflexivity.
  - injection H as -> -> -> ->; repeat split; reflexivity.
Qed.

Lemma skey_eqb_refl : forall a, skey_eqb a a = true.
Proof. intro a; apply skey_eqb_eq; reflexivity. Qed.

Lemma tm_eqb_true : forall a b, tm_eqb a b = true -> a = b.
Proof.
  induction a; destruct b; simpl; intro H; try discriminate;
    repeat rewrite andb_true_iff in H;
    repeat match goal with
           | H : _ /\ _ |- _ => destruct H
           end;
    repeat match goal with
           | H : N.eqb _ _ = true |- _ => apply N.eqb_eq in H
           | H : skey_eqb _ _ = true |- _ => apply skey_eqb_eq in H
           | H : Bool.eqb _ _ = true |- _ => apply Bool.eqb_prop in H
           | IH : forall b, tm_eqb ?x b = true -> ?x = b, H : tm_eqb ?x _ = true |- _ => apply IH in H
           end;
    subst; reflexivity.
Qed.

Lemma tm_eqb_refl : forall a, tm_eqb a a = true.
Proof.
  induction a; simpl;
    repeat rewrite N.eqb_refl; repeat rewrite skey_eqb_refl; repeat rewrite Bool.eqb_reflx;
    repeat match goal with IH : tm_eqb ?x ?x = true |- _ => rewrite IH; clear IH end; reflexivity.
Qed.

Lemma tm_eqb_eq : forall a b, tm_eqb a b = true <-> a = b.
Proof. intros a b; split; [apply tm_eqb_true | intros ->; apply tm_eqb_refl]. Qed.

Lemma tm_eqb_false : forall a b, tm_eqb a b = false <-> a <> b.
Proof.
  intros a b; split.
  - intros H E; subst; rewrite tm_eqb_refl in H; discriminate.
  - intro H; destruct (tm_eqb a b) eqn:E; [apply tm_eqb_true in E; contradiction | reflexivity].
Qed.

Lemma tm_eq_dec : forall a b : tm, {a = b} + {a <> b}.
Proof.
  intros a b; destruct (tm_eqb a b) eqn:E; [left; apply tm_eqb_true; exact E | right; apply tm_eqb_false; exact E].
Qed.

(* ------------------------------------------------------------------------------------------------ *)
(* view layer: accept <-> binding, model satisfies spec (generic in the atom type)                    *)
(* ------------------------------------------------------------------------------------------------ *)
Section ViewFacts.
  Variable A : Type.
  Variable eqb : A -> A -> bool.

  (* destruct the innermost scrutinee of a match in hypothesis H, pruning impossible branches *)
  Ltac step H :=
    match type of H with
    | context [match ?x with _ => _ end] =>
        lazymatch x with
        | context [match _ with _ => _ end] => fail
        | _ => destruct x eqn:?; simpl in H; try discriminate H
        end
    end.
  Ltac rew :=
    repeat match goal with
           | E : ?t = _ |- context [?t] => rewrite E; simpl
           end.

  Lemma validate_create_binds : forall p : payload A,
    validate_create A eqb p = VOk -> binding A eqb p = true.
  Proof.
    intros [[h|] [a|] [s|]] H; try discriminate H;
      unfold validate_create, validate_header, validate_acl, validate_settings, arg_of, opt_neq in H; simpl in H.
    destruct h as [hid hsplit hraw hcid hparse], a as [aid anil araw acid aparse], s as [sid snil sraw scid sparse];
      simpl in H.
    repeat step H.
    all: unfold binding, header_bound, hdr_of, acl_of, set_of, is_some; simpl; rew;
      repeat match goal with
             | E : negb ?t = false |- _ => apply negb_false_iff in E
             | E : ?a || ?b = false |- _ => apply orb_false_iff in E; destruct E
             | E : ?a && ?b = false |- _ => fail
             end; rew; try reflexivity.
    all: destruct (hd_v1 h); simpl in *;
      repeat match goal with
             | E : _ || _ = false |- _ => apply orb_false_iff in E; destruct E
             | E : negb _ = false |- _ => apply negb_false_iff in E
             end; rew; try reflexivity.
  Qed.
End ViewFacts.

(* ------------------------------------------------------------------------------------------------ *)
(* term layer: acceptance is exactly well-formedness                                                  *)
(* ------------------------------------------------------------------------------------------------ *)

Lemma sig_valid_inv : forall ident msg sg,
  sig_valid ident msg sg = true -> exists k, ident = TPub k /\ sg = TSig k msg.
Proof.
  intros ident msg sg H; destruct ident; simpl in H; try discriminate H.
  apply tm_eqb_true in H; eauto.
Qed.

Lemma sig_valid_intro : forall k msg, sig_valid (TPub k) msg (TSig k msg) = true.
Proof. intros; simpl; rewrite skey_eqb_refl, tm_eqb_refl; reflexivity. Qed.

(* every hash and signature verifies, all parts name one space, v1 payload equality, settings cite the ACL root *)
Definition well_formed (p : tpayload) : Prop :=
  exists k rk st pl v1 acl set hrest ka km aspace aoto arest ks sspace srest,
    let H := THeader (TPub k) rk st pl v1 acl set hrest in
    let R := TAclRoot (TPub ka) (TPub km) (TSig km (TRawPub ka)) aspace aoto arest in
    let S := TRoot (TPub ks) (t_aclid p) sspace srest in
    t_raw p = TRaw H (TSig k H) /\ t_id p = TId (TCid (t_raw p)) (TB36 rk) /\
    t_acl p = TRaw R (TSig ka R) /\ t_aclid p = TCid (t_acl p) /\
    t_set p = TRaw S (TSig ks S) /\ t_setid p = TCid (t_set p) /\
    (is_oto_type st = true -> exists o a b, pl = TOto o a b) /\
    (if v1 then acl = t_acl p /\ set = t_set p else aspace = t_id p /\ sspace = t_id p).

Ltac stepH H :=
  match type of H with
  | context [match ?x with _ => _ end] =>
      lazymatch x with
      | context [match _ with _ => _ end] => fail
      | _ => destruct x eqn:?; simpl in H; try discriminate H
      end
  end.

Lemma hdr_of_hview : forall id raw d,
  hdr_of (hview_of id raw) = Some d ->
  exists ident rk st pl v1 acl set rest sg,
    raw = TRaw (THeader ident rk st pl v1 acl set rest) sg /\
    d = mkHdr (key_view ident) (sig_valid ident (THeader ident rk st pl v1 acl set rest) sg) (TB36 rk) v1 acl set
              (is_oto_type st) (match pl with TOto _ _ _ => true | _ => false end).
Proof.
  intros id raw d H; unfold hdr_of, hview_of in H; simpl in H.
  destruct raw as [| | | | | | | |body sg| | |]; try discriminate H.
  destruct body; try discriminate H.
  injection H as <-. repeat eexists.
Qed.

Lemma acl_of_aview : forall id raw r,
  acl_of (aview_of id raw) = Some r ->
  exists ident master idsig space oto rest sg,
    raw = TRaw (TAclRoot ident master idsig space oto rest) sg /\
    r = mkAclRoot (key_view ident) (sig_valid ident (TAclRoot ident master idsig space oto rest) sg) (key_view master)
          (match ident with TPub k => sig_valid master (TRawPub k) idsig | _ => false end) space.
Proof.
  intros id raw r H; unfold acl_of, aview_of in H; simpl in H.
  destruct raw as [| | | | | | | |body sg| | |]; try discriminate H.
  destruct body; try discriminate H.
  injection H as <-. repeat eexists.
Qed.

Lemma set_of_sview : forall id raw r,
  set_of (sview_of id raw) = Some r ->
  exists ident aclhead space rest sg,
    raw = TRaw (TRoot ident aclhead space rest) sg /\
    r = mkSRoot (key_view ident) (sig_valid ident (TRoot ident aclhead space rest) sg) space aclhead.
Proof.
  intros id raw r H; unfold set_of, sview_of in H; simpl in H.
  destruct raw as [| | | | | | | |body sg| | |]; try discriminate H.
  destruct body; try discriminate H.
  injection H as <-. repeat eexists.
Qed.

Ltac split_andb H :=
  repeat match type of H with
         | _ && _ = true => let H1 := fresh "C" in apply andb_true_iff in H; destruct H as [H H1]
         end.

Lemma accept_wf : forall p, validate_t p = VOk -> well_formed p.
Proof.
  intros [id raw aclid acl setid set] H.
  apply validate_create_binds in H.
  unfold binding, view_of in H; cbn [p_hdr p_acl p_set t_id t_raw t_aclid t_acl t_setid t_set] in H.
  destruct (hdr_of (hview_of id raw)) as [d|] eqn:Ed; [| cbv iota beta in H; discriminate H].
  destruct (acl_of (aview_of aclid acl)) as [r|] eqn:Er; [| cbv iota beta in H; discriminate H].
  destruct (set_of (sview_of setid set)) as [t|] eqn:Et; [| cbv iota beta in H; discriminate H].
  unfold header_bound in H; rewrite Ed in H.
  apply hdr_of_hview in Ed; destruct Ed as (ident & rk & st & pl & v1 & hacl & hset & hrest & hsg & -> & ->).
  apply acl_of_aview in Er; destruct Er as (aident & amaster & idsig & aspace & aoto & arest & asg & -> & ->).
  apply set_of_sview in Et; destruct Et as (sident & shead & sspace & srest & ssg & -> & ->).
  destruct id as [| | | | | |pre suf| | | | |]; cbn -[tm_eqb sig_valid is_oto_type key_view] in H.
  all: try discriminate H.
  split_andb H.
  apply tm_eqb_true in H, C10, C8, C3, C.
  apply sig_valid_inv in C11; destruct C11 as (k & -> & ->).
  apply sig_valid_inv in C6; destruct C6 as (ka & -> & ->).
  apply sig_valid_inv in C4; destruct C4 as (km & -> & ->).
  apply sig_valid_inv in C1; destruct C1 as (ks & -> & ->).
  subst pre suf aclid setid shead.
  exists k, rk, st, pl, v1, hacl, hset, hrest, ka, km, aspace, aoto, arest, ks, sspace, srest.
  cbn [t_id t_raw t_aclid t_acl t_setid t_set].
  repeat split.
  - intro Ho; rewrite Ho in C9; simpl in C9.
    destruct pl; try discriminate C9; eauto.
  - destruct v1.
    + apply andb_true_iff in C0; destruct C0 as [X Y]; apply tm_eqb_true in X, Y; subst; split; reflexivity.
    + apply andb_true_iff in C0; destruct C0 as [X Y]; apply tm_eqb_true in X, Y; subst; split; reflexivity.
Qed.

Lemma wf_accept : forall p, well_formed p -> validate_t p = VOk.
Proof.
  intros [id raw aclid acl setid set]
         (k & rk & st & pl & v1 & hacl & hset & hrest & ka & km & aspace & aoto & arest & ks & sspace & srest & W).
  cbn [t_id t_raw t_aclid t_acl t_setid t_set] in W.
  destruct W as (Eraw & Eid & Eacl & Eaclid & Eset & Esetid & Hoto & Hv).
  subst raw id acl.
  unfold validate_t, validate_create, view_of; cbn [p_hdr p_acl p_set].
  assert (Hh : validate_header tm tm_eqb
                 (Some (hview_of (TId (TCid (TRaw (THeader (TPub k) rk st pl v1 hacl hset hrest)
                                                  (TSig k (THeader (TPub k) rk st pl v1 hacl hset hrest)))) (TB36 rk))
                                 (TRaw (THeader (TPub k) rk st pl v1 hacl hset hrest)
                                       (TSig k (THeader (TPub k) rk st pl v1 hacl hset hrest)))))
                 None
                 (Some (TRaw (TAclRoot (TPub ka) (TPub km) (TSig km (TRawPub ka)) aspace aoto arest)
                             (TSig ka (TAclRoot (TPub ka) (TPub km) (TSig km (TRawPub ka)) aspace aoto arest))))
                 (Some set) = (VOk, negb v1)).
  { unfold validate_header, hview_of; cbn -[tm_eqb sig_valid is_oto_type].
    rewrite tm_eqb_refl; cbn -[tm_eqb sig_valid is_oto_type].
    rewrite sig_valid_intro; cbn -[tm_eqb sig_valid is_oto_type].
    rewrite tm_eqb_refl; cbn -[tm_eqb sig_valid is_oto_type].
    destruct v1; cbn -[tm_eqb sig_valid is_oto_type].
    - destruct Hv as [-> ->]. rewrite !tm_eqb_refl; cbn -[tm_eqb sig_valid is_oto_type].
      destruct (is_oto_type st) eqn:Eo; [| reflexivity].
      destruct (Hoto eq_refl) as (o & a & b & ->); reflexivity.
    - destruct (is_oto_type st) eqn:Eo; [| reflexivity].
      destruct (Hoto eq_refl) as (o & a & b & ->); reflexivity. }
  cbn [aview_of ap_nil ap_raw arg_of sview_of sp_nil sp_raw t_id t_raw t_aclid t_acl t_setid t_set].
  rewrite Hh; clear Hh.
  unfold validate_acl; cbn -[tm_eqb sig_valid is_oto_type].
  rewrite Eaclid, tm_eqb_refl; cbn -[tm_eqb sig_valid is_oto_type].
  rewrite !sig_valid_intro; cbn -[tm_eqb sig_valid is_oto_type].
  unfold validate_settings; cbn -[tm_eqb sig_valid is_oto_type].
  rewrite Esetid, tm_eqb_refl; cbn -[tm_eqb sig_valid is_oto_type].
  rewrite Eset; cbn -[tm_eqb sig_valid is_oto_type].
  rewrite sig_valid_intro; cbn -[tm_eqb sig_valid is_oto_type].
  rewrite <- Eaclid, tm_eqb_refl.
  destruct v1; cbn -[tm_eqb sig_valid is_oto_type]; [reflexivity |].
  destruct Hv as [-> ->]. rewrite !tm_eqb_refl; reflexivity.
Qed.

Theorem accept_iff_wf : forall p, validate_t p = VOk <-> well_formed p.
Proof. intro p; split; [apply accept_wf | apply wf_accept]. Qed.

(* ------------------------------------------------------------------------------------------------ *)
(* consequences                                                                                       *)
(* ------------------------------------------------------------------------------------------------ *)

(* projections of well-formedness that do not mention the witnesses *)
Lemma wf_ids : forall p, well_formed p ->
  (exists rk, t_id p = TId (TCid (t_raw p)) (TB36 rk)) /\
  t_aclid p = TCid (t_acl p) /\ t_setid p = TCid (t_set p).
Proof.
  intros p (k & rk & st & pl & v1 & hacl & hset & hrest & ka & km & aspace & aoto & arest & ks & sspace & srest & W).
  cbv zeta in W. destruct W as (Eraw & Eid & Eacl & Eaclid & Eset & Esetid & Hoto & Hv).
  repeat split; eauto.
Qed.

(* the replication key in the id is the one in the signed header *)
Lemma wf_raw_rk : forall p ident rk st pl v1 acl set rest sg rk',
  well_formed p -> t_raw p = TRaw (THeader ident rk st pl v1 acl set rest) sg ->
  t_id p = TId (TCid (t_raw p)) (TB36 rk') -> rk' = rk.
Proof.
  intros p ident rk st pl v1 acl set rest sg rk'
         (k & rk0 & st0 & pl0 & v0 & hacl & hset & hrest & ka & km & aspace & aoto & arest & ks & sspace & srest & W) Er Ei.
  cbv zeta in W. destruct W as (Eraw & Eid & _).
  rewrite Eraw in Er. injection Er as -> -> -> -> -> -> -> -> _.
  rewrite Eid in Ei. injection Ei as ->. reflexivity.
Qed.

(* replacing any single field of an accepted payload by a different value is rejected *)
Theorem mutation_rejected : forall p f x,
  validate_t p = VOk -> x <> get_field f p -> validate_t (set_field f x p) <> VOk.
Proof.
  intros p f x Hp Hx Hq.
  apply accept_wf in Hp. apply accept_wf in Hq.
  pose proof (wf_ids _ Hp) as ((rk & Ip) & Ap & Sp).
  pose proof (wf_ids _ Hq) as ((rk' & Iq) & Aq & Sq).
  destruct p as [id raw aclid acl setid set]; destruct f; cbn in *.
  - (* id *)
    destruct Hp as (k & rk0 & st & pl & v1 & hacl & hset & hrest & ka & km & aspace & aoto & arest & ks & sspace & srest & W).
    cbv zeta in W; cbn [t_id t_raw t_aclid t_acl t_setid t_set] in W. destruct W as (Eraw & Eid & _).
    assert (rk' = rk0).
    { eapply (wf_raw_rk (mkT x raw aclid acl setid set)); [exact Hq | exact Eraw | exact Iq]. }
    subst rk'. apply Hx. rewrite Iq, Eid. reflexivity.
  - (* raw *) rewrite Ip in Iq. injection Iq as E _. apply Hx. symmetry; exact E.
  - (* acl id *) apply Hx. rewrite Aq, Ap. reflexivity.
  - (* acl bytes *) rewrite Ap in Aq. injection Aq as E. apply Hx. symmetry; exact E.
  - (* settings id *) apply Hx. rewrite Sq, Sp. reflexivity.
  - (* settings bytes *) rewrite Sp in Sq. injection Sq as E. apply Hx. symmetry; exact E.
Qed.

(* the space id commits to the signed header; a v1 header commits to both roots *)
Theorem same_id_same_header : forall p q,
  validate_t p = VOk -> validate_t q = VOk -> t_id p = t_id q -> t_raw p = t_raw q.
Proof.
  intros p q Hp Hq E.
  apply accept_wf in Hp; apply accept_wf in Hq.
  destruct (wf_ids _ Hp) as ((rk & Ip) & _); destruct (wf_ids _ Hq) as ((rk' & Iq) & _).
  rewrite Ip, Iq in E. injection E as E _. exact E.
Qed.

Definition header_is_v1 (raw : tm) : bool :=
  match raw with TRaw (THeader _ _ _ _ v1 _ _ _) _ => v1 | _ => false end.

Theorem v1_header_fixes_roots : forall p q,
  validate_t p = VOk -> validate_t q = VOk -> t_raw p = t_raw q -> header_is_v1 (t_raw p) = true ->
  t_aclid p = t_aclid q /\ t_acl p = t_acl q /\ t_setid p = t_setid q /\ t_set p = t_set q.
Proof.
  intros p q Hp Hq E V.
  apply accept_wf in Hp; apply accept_wf in Hq.
  destruct Hp as (k & rk0 & st & pl & v1 & hacl & hset & hrest & ka & km & aspace & aoto & arest & ks & sspace & srest & W).
  destruct Hq as (k' & rk0' & st' & pl' & v1' & hacl' & hset' & hrest' & ka' & km' & aspace' & aoto' & arest' & ks' & sspace' & srest' & W').
  cbv zeta in W, W'.
  destruct W as (Eraw & Eid & Eacl & Eaclid & Eset & Esetid & Hoto & Hv).
  destruct W' as (Eraw' & Eid' & Eacl' & Eaclid' & Eset' & Esetid' & Hoto' & Hv').
  rewrite Eraw in V; simpl in V; subst v1.
  rewrite Eraw, Eraw' in E. injection E as -> -> -> -> <- -> -> -> _.
  destruct Hv as [A1 S1]; destruct Hv' as [A2 S2].
  assert (EA : t_acl p = t_acl q) by congruence.
  assert (ES : t_set p = t_set q) by congruence.
  repeat split; congruence.
Qed.

(* v0 binds the roots by name only: anybody's roots that name the space and cite each other are accepted *)
Theorem v0_name_binding : forall p e m r1 r2,
  validate_t p = VOk -> header_is_v1 (t_raw p) = false ->
  let acl' := acl_root e m (t_id p) tempty r1 in
  let set' := settings_root e (TCid acl') (t_id p) r2 in
  validate_t (mkT (t_id p) (t_raw p) (TCid acl') acl' (TCid set') set') = VOk.
Proof.
  intros p e m r1 r2 Hp V acl' set'.
  apply accept_wf in Hp. apply wf_accept.
  destruct Hp as (k & rk0 & st & pl & v1 & hacl & hset & hrest & ka & km & aspace & aoto & arest & ks & sspace & srest & W).
  cbv zeta in W. destruct W as (Eraw & Eid & Eacl & Eaclid & Eset & Esetid & Hoto & Hv).
  rewrite Eraw in V; simpl in V; subst v1.
  exists k, rk0, st, pl, false, hacl, hset, hrest, e, m, (t_id p), tempty, r1, e, (t_id p), r2.
  cbn [t_id t_raw t_aclid t_acl t_setid t_set].
  repeat split; try assumption; reflexivity.
Qed.

(* ---- constructors ---- *)

Definition oto_ok (st : N) (pl : tm) : Prop := is_oto_type st = true -> exists o a b, pl = TOto o a b.

Theorem create_v0_valid : forall sk mk rk st pl hrest arest srest,
  oto_ok st pl -> validate_t (create_v0 sk mk rk st pl hrest arest srest) = VOk.
Proof.
  intros sk mk rk st pl hrest arest srest Ho. apply wf_accept.
  exists sk, rk, st, pl, false, tempty, tempty, hrest, sk, mk,
    (TId (TCid (sign sk (THeader (TPub sk) rk st pl false tempty tempty hrest))) (TB36 rk)), tempty, arest, sk,
    (TId (TCid (sign sk (THeader (TPub sk) rk st pl false tempty tempty hrest))) (TB36 rk)), srest.
  unfold create_v0; cbn [t_id t_raw t_aclid t_acl t_setid t_set].
  repeat split; try reflexivity. exact Ho.
Qed.

Theorem create_v1_valid : forall sk mk rk st pl hrest arest srest,
  oto_ok st pl -> validate_t (create_v1 sk mk rk st pl hrest arest srest) = VOk.
Proof.
  intros sk mk rk st pl hrest arest srest Ho. apply wf_accept.
  exists sk, rk, st, pl, true, (acl_root sk mk tempty tempty arest),
    (settings_root sk (TCid (acl_root sk mk tempty tempty arest)) tempty srest), hrest, sk, mk,
    tempty, tempty, arest, sk, tempty, srest.
  unfold create_v1; cbn [t_id t_raw t_aclid t_acl t_setid t_set].
  repeat split; try reflexivity. exact Ho.
Qed.

Section DerivedFacts.
  Variable rk_of : skey -> N.
  Variable dh : N -> N -> N.
  Variable kle : N -> N -> bool.

  Theorem derive_v0_valid : forall sk mk st pl frest,
    oto_ok st pl -> validate_t (derive_v0 rk_of sk mk st pl frest) = VOk.
  Proof. intros; apply create_v0_valid; assumption. Qed.

  Theorem derive_v1_valid : forall sk mk st pl frest,
    oto_ok st pl -> validate_t (derive_v1 rk_of sk mk st pl frest) = VOk.
  Proof. intros; apply create_v1_valid; assumption. Qed.

  Theorem one_to_one_valid : forall a b st, validate_t (one_to_one rk_of dh kle a b st) = VOk.
  Proof.
    intros a b st. apply wf_accept.
    set (s := shared_key dh kle a b PATH_SPACE).
    set (info := oto_info kle s a b).
    exists s, (rk_of s), st, info, true, (acl_root s s tempty info 0),
      (settings_root s (TCid (acl_root s s tempty info 0)) tempty 0),
      (if N.eqb st ST_OTO_ANY then 2 else 0)%N, s, s, tempty, info, 0%N, s, tempty, 0%N.
    unfold one_to_one; fold s; fold info; cbn [t_id t_raw t_aclid t_acl t_setid t_set].
    repeat split; try reflexivity.
    intros _. unfold info, oto_info. destruct (kle a b); eauto.
  Qed.

  (* both parties derive the same payload, field by field *)
  Hypothesis dh_comm : forall a b, dh a b = dh b a.
  Hypothesis kle_total : forall a b, kle a b = true \/ kle b a = true.
  Hypothesis kle_antisym : forall a b, kle a b = true -> kle b a = true -> a = b.

  Lemma shared_key_sym : forall a b path, shared_key dh kle a b path = shared_key dh kle b a path.
  Proof.
    intros a b path; unfold shared_key.
    destruct (kle a b) eqn:E1, (kle b a) eqn:E2.
    - assert (a = b) by (apply kle_antisym; assumption). subst; reflexivity.
    - rewrite (dh_comm b a); reflexivity.
    - rewrite (dh_comm a b); reflexivity.
    - destruct (kle_total a b) as [X|X]; congruence.
  Qed.

  Lemma oto_info_sym : forall s a b, oto_info kle s a b = oto_info kle s b a.
  Proof.
    intros s a b; unfold oto_info.
    destruct (kle a b) eqn:E1, (kle b a) eqn:E2; try reflexivity.
    - assert (a = b) by (apply kle_antisym; assumption). subst; reflexivity.
    - destruct (kle_total a b) as [X|X]; congruence.
  Qed.

  Theorem one_to_one_symmetric : forall a b st,
    one_to_one rk_of dh kle a b st = one_to_one rk_of dh kle b a st.
  Proof.
    intros a b st; unfold one_to_one.
    rewrite (shared_key_sym a b), (oto_info_sym _ a b). reflexivity.
  Qed.
End DerivedFacts.

(* the derived owner key determines the unordered pair of parties (the HKDF context holds both public keys);
   no hypothesis on dh or the order is needed for this direction *)
Lemma shared_key_pair : forall dh kle a b c d p p',
  shared_key dh kle a b p = shared_key dh kle c d p' -> (a = c /\ b = d) \/ (a = d /\ b = c).
Proof.
  intros dh kle a b c d p p' H; unfold shared_key in H.
  destruct (kle a b), (kle c d); injection H as _ -> -> _; auto.
Qed.

Definition owner_of (p : tpayload) : option skey :=
  match t_raw p with TRaw (THeader (TPub k) _ _ _ _ _ _ _) _ => Some k | _ => None end.

Lemma oto_fields_owner : forall rk_of dh kle a b st f,
  exists g, forall c d st',
    get_field f (one_to_one rk_of dh kle a b st) = get_field f (one_to_one rk_of dh kle c d st') ->
    shared_key dh kle a b PATH_SPACE = shared_key dh kle c d PATH_SPACE /\ g = tt.
Proof.
  intros rk_of dh kle a b st f; exists tt; intros c d st' H; split; [| reflexivity].
  destruct f; unfold one_to_one in H; cbn [get_field t_id t_raw t_aclid t_acl t_setid t_set] in H;
    unfold sign, acl_root, settings_root in H; injection H; intros; assumption.
Qed.

(* any single field of the payload of a pair {c,d} equal to that of {a,b} forces {c,d} = {a,b} *)
Theorem one_to_one_specific : forall rk_of dh kle a b c d st st' f,
  get_field f (one_to_one rk_of dh kle a b st) = get_field f (one_to_one rk_of dh kle c d st') ->
  (a = c /\ b = d) \/ (a = d /\ b = c).
Proof.
  intros rk_of dh kle a b c d st st' f H.
  destruct (oto_fields_owner rk_of dh kle a b st f) as (g & Hg).
  destruct (Hg c d st' H) as [E _].
  eapply shared_key_pair; exact E.
Qed.

(* ---- splicing ---- *)

Definition acl_space (t : tm) : tm := match t with TRaw (TAclRoot _ _ _ sp _ _) _ => sp | _ => tempty end.
Definition set_space (t : tm) : tm := match t with TRaw (TRoot _ _ sp _) _ => sp | _ => tempty end.
Definition emb_acl (raw : tm) : tm := match raw with TRaw (THeader _ _ _ _ _ a _ _) _ => a | _ => tempty end.
Definition emb_set (raw : tm) : tm := match raw with TRaw (THeader _ _ _ _ _ _ s _) _ => s | _ => tempty end.

Lemma wf_binding : forall p, well_formed p ->
  if header_is_v1 (t_raw p)
  then emb_acl (t_raw p) = t_acl p /\ emb_set (t_raw p) = t_set p
  else acl_space (t_acl p) = t_id p /\ set_space (t_set p) = t_id p.
Proof.
  intros p (k & rk0 & st & pl & v1 & hacl & hset & hrest & ka & km & aspace & aoto & arest & ks & sspace & srest & W).
  cbv zeta in W. destruct W as (Eraw & Eid & Eacl & Eaclid & Eset & Esetid & Hoto & Hv).
  rewrite Eraw; cbn [header_is_v1 emb_acl emb_set].
  destruct v1; destruct Hv as [X Y]; split.
  - exact X.
  - exact Y.
  - rewrite Eacl; exact X.
  - rewrite Eset; exact Y.
Qed.

Lemma canonical_inv : forall p, well_formed p -> canonical p = true ->
  if header_is_v1 (t_raw p)
  then acl_space (t_acl p) = tempty /\ set_space (t_set p) = tempty
  else acl_space (t_acl p) = t_id p /\ set_space (t_set p) = t_id p.
Proof.
  intros p (k & rk0 & st & pl & v1 & hacl & hset & hrest & ka & km & aspace & aoto & arest & ks & sspace & srest & W) C.
  cbv zeta in W. destruct W as (Eraw & Eid & Eacl & Eaclid & Eset & Esetid & Hoto & Hv).
  unfold canonical, t_header, t_aclroot, t_sroot, hdr_of, acl_of, set_of, hview_of, aview_of, sview_of in C.
  rewrite Eraw, Eacl, Eset in C; cbn -[tm_eqb tempty] in C.
  rewrite Eraw, Eacl, Eset; cbn [header_is_v1 acl_space set_space].
  destruct v1; apply andb_true_iff in C; destruct C as [X Y]; apply tm_eqb_true in X, Y; split; assumption.
Qed.

Lemma splice_keeps_header : forall p q ca cs,
  well_formed p -> well_formed q -> canonical q = true -> t_id p <> t_id q ->
  well_formed (mix true ca cs p q) -> mix true ca cs p q = p.
Proof.
  intros p q ca cs Wp Wq Cq Hne Wm.
  pose proof (wf_binding _ Wp) as Bp. pose proof (wf_binding _ Wm) as Bm.
  pose proof (canonical_inv _ Wq Cq) as Kq.
  destruct (wf_ids _ Wp) as ((rkp & Ip) & Ap & Sp).
  destruct (wf_ids _ Wq) as ((rkq & Iq) & Aq & Sq).
  destruct (wf_ids _ Wm) as (_ & Am & Sm).
  destruct p as [pid praw paid pacl psid pset], q as [qid qraw qaid qacl qsid qset].
  unfold mix in *.
  destruct (header_is_v1 praw) eqn:V.
  - destruct ca, cs; cbn [t_id t_raw t_aclid t_acl t_setid t_set] in *; rewrite V in *;
      destruct Bp as [Ea Es], Bm as [Ea' Es']; f_equal; congruence.
  - assert (Hca : ca = true).
    { destruct ca; [reflexivity | exfalso].
      destruct cs; cbn [t_id t_raw t_aclid t_acl t_setid t_set] in *; rewrite V in *; destruct Bm as [Ea' Es'];
        destruct (header_is_v1 qraw); destruct Kq as [K1 _]; rewrite K1 in Ea';
        solve [ rewrite Ip in Ea'; discriminate Ea' | apply Hne; symmetry; exact Ea' ]. }
    assert (Hcs : cs = true).
    { destruct cs; [reflexivity | exfalso].
      destruct ca; cbn [t_id t_raw t_aclid t_acl t_setid t_set] in *; rewrite V in *; destruct Bm as [Ea' Es'];
        destruct (header_is_v1 qraw); destruct Kq as [_ K2]; rewrite K2 in Es';
        solve [ rewrite Ip in Es'; discriminate Es' | apply Hne; symmetry; exact Es' ]. }
    subst; reflexivity.
Qed.

Lemma mix_swap : forall ch ca cs p q, mix ch ca cs p q = mix (negb ch) (negb ca) (negb cs) q p.
Proof. intros [] [] [] p q; reflexivity. Qed.

(* any mix of the parts of two accepted, constructor-shaped payloads with different space ids is rejected,
   unless it is one of the two payloads again (parts of the two spaces may coincide byte for byte) *)
Theorem splice_rejected : forall p q ch ca cs,
  validate_t p = VOk -> validate_t q = VOk -> canonical p = true -> canonical q = true ->
  t_id p <> t_id q ->
  validate_t (mix ch ca cs p q) = VOk -> mix ch ca cs p q = p \/ mix ch ca cs p q = q.
Proof.
  intros p q ch ca cs Hp Hq Cp Cq Hne Hm.
  apply accept_wf in Hp; apply accept_wf in Hq; apply accept_wf in Hm.
  destruct ch.
  - left; apply splice_keeps_header; assumption.
  - right. rewrite mix_swap in *; cbn [negb] in *.
    apply splice_keeps_header; try assumption. intro E; apply Hne; symmetry; exact E.
Qed.

(* ---- header validation alone ---- *)

Theorem header_accept_inv : forall id raw identity aa sa need,
  validate_header_t id raw identity aa sa = (VOk, need) ->
  exists k rk st pl v1 acl set rest,
    raw = TRaw (THeader (TPub k) rk st pl v1 acl set rest) (TSig k (THeader (TPub k) rk st pl v1 acl set rest)) /\
    id = TId (TCid raw) (TB36 rk) /\ need = negb v1 /\
    (v1 = true -> (forall a, aa = Some a -> a = acl) /\ (forall s, sa = Some s -> s = set)) /\
    (is_oto_type st = true -> exists o a b, pl = TOto o a b) /\
    (is_oto_type st = false -> forall i, identity = Some i -> i = TPub k).
Proof.
  intros id raw identity aa sa need H.
  unfold validate_header_t, validate_header, hview_of in H; cbn -[tm_eqb sig_valid is_oto_type] in H.
  destruct id as [| | | | | |pre suf| | | | |]; try discriminate H.
  destruct (tm_eqb (TCid raw) pre) eqn:Ec; cbn -[tm_eqb sig_valid is_oto_type] in H; [| discriminate H].
  apply tm_eqb_true in Ec; subst pre.
  destruct raw as [| | | | | | | |body sg| | |]; try discriminate H.
  destruct body; try discriminate H.
  cbn -[tm_eqb sig_valid is_oto_type] in H.
  destruct body1; try discriminate H. cbn -[tm_eqb sig_valid is_oto_type] in H.
  destruct (sig_valid (TPub k) (THeader (TPub k) rk stype body2 v1 body3 body4 rest) sg) eqn:Es;
    cbn -[tm_eqb sig_valid is_oto_type] in H; [| discriminate H].
  apply sig_valid_inv in Es; destruct Es as (k' & Ek & ->). injection Ek as <-.
  destruct (tm_eqb suf (TB36 rk)) eqn:Er; cbn -[tm_eqb sig_valid is_oto_type] in H; [| discriminate H].
  apply tm_eqb_true in Er; subst suf.
  exists k, rk, stype, body2, v1, body3, body4, rest.
  split; [reflexivity |]. split; [reflexivity |].
  assert (Hargs : v1 = true -> opt_neq tm tm_eqb aa body3 = false /\ opt_neq tm tm_eqb sa body4 = false).
  { intros ->; cbn -[tm_eqb sig_valid is_oto_type] in H.
    destruct (opt_neq tm tm_eqb aa body3); [discriminate H |].
    destruct (opt_neq tm tm_eqb sa body4); [discriminate H |]. split; reflexivity. }
  assert (Hrest : (if is_oto_type stype
                   then (if match body2 with TOto _ _ _ => true | _ => false end then (VOk, negb v1) else (VErrOto, false))
                   else if opt_neq tm tm_eqb identity (TPub k) then (VErrIdentity, false) else (VOk, negb v1))
                  = (VOk, need)).
  { destruct v1; cbn -[tm_eqb sig_valid is_oto_type] in H.
    - destruct (Hargs eq_refl) as [X Y]; rewrite X, Y in H; exact H.
    - exact H. }
  clear H.
  split.
  { destruct (is_oto_type stype).
    - destruct body2; try discriminate Hrest; injection Hrest as <-; reflexivity.
    - destruct (opt_neq tm tm_eqb identity (TPub k)); [discriminate Hrest | injection Hrest as <-; reflexivity]. }
  split.
  { intro Hv; destruct (Hargs Hv) as [X Y]; split.
    - intros a ->; unfold opt_neq in X. apply negb_false_iff in X. apply tm_eqb_true in X; exact X.
    - intros s ->; unfold opt_neq in Y. apply negb_false_iff in Y. apply tm_eqb_true in Y; exact Y. }
  split.
  { intro Ho; rewrite Ho in Hrest. destruct body2; try discriminate Hrest; eauto. }
  { intro Ho; rewrite Ho in Hrest. intros i ->.
    unfold opt_neq in Hrest. destruct (tm_eqb i (TPub k)) eqn:Ei; [apply tm_eqb_true in Ei; exact Ei | discriminate Hrest]. }
Qed.

(* ------------------------------------------------------------------------------------------------ *)
(* the model satisfies spec_C13                                                                       *)
(* ------------------------------------------------------------------------------------------------ *)
Section SpecFacts.
  Variable A : Type.
  Variable eqb : A -> A -> bool.

  Lemma model_spec_create : forall (p : payload A) pristine,
    (pristine = true -> validate_create A eqb p = VOk) ->
    spec_C13_create A eqb p pristine (validate_create A eqb p) = true.
  Proof.
    intros p pristine Hp; unfold spec_C13_create.
    destruct (validate_create A eqb p) eqn:E; cbn [is_ok negb orb andb].
    - rewrite (validate_create_binds A eqb p E); destruct pristine; reflexivity.
    - destruct pristine; [specialize (Hp eq_refl); discriminate Hp | reflexivity].
    - destruct pristine; [specialize (Hp eq_refl); discriminate Hp | reflexivity].
    - destruct pristine; [specialize (Hp eq_refl); discriminate Hp | reflexivity].
    - destruct pristine; [specialize (Hp eq_refl); discriminate Hp | reflexivity].
    - destruct pristine; [specialize (Hp eq_refl); discriminate Hp | reflexivity].
  Qed.

  Ltac step H :=
    match type of H with
    | context [match ?x with _ => _ end] =>
        lazymatch x with
        | context [match _ with _ => _ end] => fail
        | _ => destruct x eqn:?; simpl in H; try discriminate H
        end
    end.
  Ltac rew :=
    repeat match goal with
           | E : ?t = _ |- context [?t] => rewrite E; simpl
           end.

  Lemma model_spec_header : forall (h : option (hpart A)) identity aa sa,
    spec_C13_header A eqb h identity aa sa false
      (fst (validate_header A eqb h identity aa sa)) (snd (validate_header A eqb h identity aa sa)) = true.
  Proof.
    intros h identity aa sa; unfold spec_C13_header.
    destruct (validate_header A eqb h identity aa sa) as [v need] eqn:E; cbn [fst snd].
    destruct v; cbn [is_ok negb orb andb]; try reflexivity.
    rewrite andb_true_r.
    destruct h as [h|]; [| discriminate E].
    destruct h as [hid hsplit hraw hcid hparse]; unfold validate_header in E; simpl in E.
    repeat step E.
    all: injection E as <-; unfold header_bound, hdr_of, is_some; simpl; rew;
      repeat match goal with
             | X : negb _ = false |- _ => apply negb_false_iff in X
             end; rew;
      destruct (hd_v1 h); simpl in *; rew; try reflexivity.
  Qed.
End SpecFacts.

Section OtoSpec.
  Variable rk_of : skey -> N.
  Variable dh : N -> N -> N.
  Variable kle : N -> N -> bool.
  Hypothesis dh_comm : forall a b, dh a b = dh b a.
  Hypothesis kle_total : forall a b, kle a b = true \/ kle b a = true.
  Hypothesis kle_antisym : forall a b, kle a b = true -> kle b a = true -> a = b.

  Lemma model_spec_oto : forall a b c st,
    spec_C13_oto (N.eqb b c)
      (tp_eqs (one_to_one rk_of dh kle a b st) (one_to_one rk_of dh kle b a st))
      (tp_eqs (one_to_one rk_of dh kle a b st) (one_to_one rk_of dh kle a c st)) = true.
  Proof.
    intros a b c st; unfold spec_C13_oto.
    rewrite <- (one_to_one_symmetric rk_of dh kle dh_comm kle_total kle_antisym a b st).
    unfold tp_eqs at 1; cbn [forallb]; rewrite !tm_eqb_refl; cbn [andb].
    destruct (N.eqb b c) eqn:E.
    - apply N.eqb_eq in E; subst c. unfold tp_eqs; cbn [forallb]; rewrite !tm_eqb_refl; reflexivity.
    - apply N.eqb_neq in E.
      assert (D : forall f, tm_eqb (get_field f (one_to_one rk_of dh kle a b st))
                                   (get_field f (one_to_one rk_of dh kle a c st)) = false).
      { intro f; apply tm_eqb_false; intro X.
        apply one_to_one_specific in X. destruct X as [[_ X]|[X Y]]; [exact (E X) | apply E; congruence]. }
      pose proof (D FId) as D1; pose proof (D FRaw) as D2; pose proof (D FAclId) as D3;
        pose proof (D FAcl) as D4; pose proof (D FSetId) as D5; pose proof (D FSet) as D6.
      cbn [get_field] in D1, D2, D3, D4, D5, D6.
      unfold tp_eqs; cbn [forallb].
      rewrite D1, D2, D3, D4, D5, D6. reflexivity.
  Qed.
End OtoSpec.

From Coq Require Import Arith Lia.

(* ------------------------------------------------------------------------------------------------ *)
(* overlapping derivations                                                                            *)
(* ------------------------------------------------------------------------------------------------ *)
Section DerivationFacts.
  Variable K L S : Type.
  Variable master : S -> K.
  Variable child : K -> L -> K.

  Notation dcall := (dcall K L S).
  Notation step_own := (step_own K L S master child).
  Notation run_own := (run_own K L S master child).
  Notation derive_seq := (derive_seq K L S master child).

  (* what is true of a call at every moment, whatever the other calls do *)
  Definition own_inv (sl : S * list L) (c : dcall) : Prop :=
    dc_seed c = fst sl /\
    (forall k, dc_out c = Some k -> k = derive_seq (fst sl) (snd sl)) /\
    match dc_node c with
    | None => dc_todo c = snd sl
    | Some n => fold_left child (dc_todo c) n = derive_seq (fst sl) (snd sl)
    end.

  Lemma own_inv_init : forall sl, own_inv sl (dcall_init K L S sl).
  Proof.
    intros sl; unfold own_inv, dcall_init; cbn. repeat split; intros; discriminate.
  Qed.

  Lemma own_inv_step : forall sl c, own_inv sl c -> own_inv sl (step_own c).
  Proof.
    intros sl c Hinv; pose proof Hinv as (Hs & Ho & Hn); unfold Payloads.step_own.
    destruct (dc_out c) as [k|] eqn:Eo; [exact Hinv |].
    destruct (dc_node c) as [n|] eqn:En.
    - destruct (dc_todo c) as [|l r] eqn:Et; unfold own_inv; cbn.
      + split; [exact Hs |]. split; [| exact Hn]. intros k Hk; injection Hk as <-. exact Hn.
      + split; [exact Hs |]. split; [| exact Hn]. intros k Hk; discriminate.
    - unfold own_inv; cbn. split; [exact Hs |]. split.
      + intros k Hk; discriminate.
      + rewrite Hn, Hs. reflexivity.
  Qed.

  Lemma Forall2_upd_nth : forall (X Y : Type) (R : X -> Y -> Prop) (f : Y -> Y),
    (forall x y, R x y -> R x (f y)) ->
    forall i xs ys, Forall2 R xs ys -> Forall2 R xs (upd_nth i f ys).
  Proof.
    intros X Y R f Hf i xs ys H; revert i; induction H as [|x y xs ys Hxy H IH]; intros i.
    - destruct i; constructor.
    - destruct i; cbn; constructor; auto.
  Qed.

  Lemma own_inv_run : forall sched inits cs,
    Forall2 own_inv inits cs -> Forall2 own_inv inits (run_own sched cs).
  Proof.
    induction sched as [|i sched IH]; intros inits cs H; [exact H |].
    unfold Payloads.run_own; cbn [fold_left]. apply IH.
    apply Forall2_upd_nth; [exact own_inv_step | exact H].
  Qed.

  Lemma Forall2_nth : forall (X Y : Type) (R : X -> Y -> Prop) xs ys i y,
    Forall2 R xs ys -> nth_error ys i = Some y -> exists x, nth_error xs i = Some x /\ R x y.
  Proof.
    intros X Y R xs ys i y H; revert i; induction H as [|x0 y0 xs ys Hxy H IH]; intros i Hi.
    - destruct i; discriminate.
    - destruct i; cbn in *; [injection Hi as <-; eauto | auto].
  Qed.

  Lemma Forall2_map_r : forall (X Y : Type) (R : X -> Y -> Prop) (g : X -> Y) xs,
    (forall x, R x (g x)) -> Forall2 R xs (map g xs).
  Proof. intros X Y R g xs H; induction xs; cbn; constructor; auto. Qed.

  (* SCHEDULE INDEPENDENCE: whatever the interleaving of the steps of any number of overlapping calls, a call that
     has delivered a result delivered exactly what it computes alone from its own seed and labels *)
  Theorem own_node_schedule_independent : forall (inits : list (S * list L)) (sched : list nat) i c k,
    nth_error (run_own sched (map (dcall_init K L S) inits)) i = Some c ->
    dc_out c = Some k ->
    exists sl, nth_error inits i = Some sl /\ k = derive_seq (fst sl) (snd sl).
  Proof.
    intros inits sched i c k Hn Hk.
    assert (H : Forall2 own_inv inits (run_own sched (map (dcall_init K L S) inits))).
    { apply own_inv_run. apply Forall2_map_r. exact own_inv_init. }
    destruct (Forall2_nth _ _ _ _ _ _ _ H Hn) as (sl & Hsl & (_ & Ho & _)).
    exists sl; split; [exact Hsl | apply Ho; exact Hk].
  Qed.

  (* ---- progress: a call that is scheduled often enough delivers ---- *)
  Definition remaining (c : dcall) : nat :=
    match dc_out c with
    | Some _ => 0
    | None => match dc_node c with
              | None => 2 + length (dc_todo c)
              | Some _ => 1 + length (dc_todo c)
              end
    end.

  Lemma remaining_step : forall c, remaining (step_own c) = pred (remaining c).
  Proof.
    intros c; unfold remaining, Payloads.step_own.
    destruct (dc_out c) eqn:Eo; [rewrite Eo; reflexivity |].
    destruct (dc_node c) eqn:En; [destruct (dc_todo c) eqn:Et |]; cbn; reflexivity.
  Qed.

  Lemma nth_upd_nth_same : forall (X : Type) (f : X -> X) i l x,
    nth_error l i = Some x -> nth_error (upd_nth i f l) i = Some (f x).
  Proof.
    intros X f i; induction i as [|i IH]; intros [|y l] x H; cbn in *; try discriminate.
    - injection H as <-; reflexivity.
    - auto.
  Qed.

  Lemma nth_upd_nth_other : forall (X : Type) (f : X -> X) j i l,
    i <> j -> nth_error (upd_nth j f l) i = nth_error l i.
  Proof.
    intros X f j; induction j as [|j IH]; intros i [|y l] H; cbn; try reflexivity.
    - destruct i; [congruence | reflexivity].
    - destruct i; [reflexivity | cbn; apply IH; congruence].
  Qed.

  Lemma remaining_run : forall sched cs i c,
    nth_error cs i = Some c ->
    exists c', nth_error (run_own sched cs) i = Some c' /\
               remaining c' = remaining c - count_occ Nat.eq_dec sched i.
  Proof.
    induction sched as [|j sched IH]; intros cs i c H.
    - exists c; split; [exact H | cbn; lia].
    - unfold Payloads.run_own; cbn [fold_left count_occ].
      destruct (Nat.eq_dec j i) as [->|Hne].
      + destruct (IH (upd_nth i step_own cs) i (step_own c) (nth_upd_nth_same _ _ _ _ _ H)) as (c' & Hc' & Hr).
        exists c'; split; [exact Hc' |]. rewrite Hr, remaining_step. lia.
      + assert (H' : nth_error (upd_nth j step_own cs) i = Some c)
          by (rewrite nth_upd_nth_other; [exact H | congruence]).
        destruct (IH _ i c H') as (c' & Hc' & Hr). exists c'; split; assumption.
  Qed.

  Lemma remaining_zero : forall c, remaining c = 0 -> exists k, dc_out c = Some k.
  Proof.
    intros c; unfold remaining. destruct (dc_out c); [eauto |]. destruct (dc_node c); discriminate.
  Qed.

  (* FAIR schedules deliver, and deliver the stand-alone value: any schedule in which call i gets its
     [steps_of] steps (in any positions, interleaved with anything) *)
  Theorem own_node_fair_delivers : forall (inits : list (S * list L)) (sched : list nat) i sl,
    nth_error inits i = Some sl ->
    steps_of L S sl <= count_occ Nat.eq_dec sched i ->
    exists c, nth_error (run_own sched (map (dcall_init K L S) inits)) i = Some c /\
              dc_out c = Some (derive_seq (fst sl) (snd sl)).
  Proof.
    intros inits sched i sl Hsl Hcnt.
    assert (H0 : nth_error (map (dcall_init K L S) inits) i = Some (dcall_init K L S sl))
      by (rewrite nth_error_map, Hsl; reflexivity).
    destruct (remaining_run sched _ i _ H0) as (c & Hc & Hr).
    exists c; split; [exact Hc |].
    assert (Hz : remaining c = 0).
    { rewrite Hr. change (remaining (dcall_init K L S sl)) with (steps_of L S sl). lia. }
    destruct (remaining_zero c Hz) as (k & Hk).
    destruct (own_node_schedule_independent inits sched i c k Hc Hk) as (sl' & Hsl' & ->).
    rewrite Hsl in Hsl'; injection Hsl' as <-. exact Hk.
  Qed.
End DerivationFacts.

(* ---- the results of overlapping derivations against every contact's own derivation ---- *)
Section ConcSpec.
  Variable rk_of : skey -> N.
  Variable dh : N -> N -> N.
  Variable kle : N -> N -> bool.
  Hypothesis dh_comm : forall a b, dh a b = dh b a.
  Hypothesis kle_total : forall a b, kle a b = true \/ kle b a = true.
  Hypothesis kle_antisym : forall a b, kle a b = true -> kle b a = true -> a = b.

  Lemma spec_conc_pairs : forall (eqs : N -> N -> list bool) reqs contacts,
    (forall b, forallb (fun x => x) (eqs b b) = true) ->
    (forall b b', b <> b' -> forallb negb (eqs b b') = true) ->
    spec_C13_conc (conc_pairs eqs reqs contacts) = true.
  Proof.
    intros eqs reqs contacts Hsame Hdiff; unfold spec_C13_conc, conc_pairs.
    apply forallb_forall; intros [s l] Hin.
    apply in_flat_map in Hin; destruct Hin as (b & _ & Hin).
    apply in_map_iff in Hin; destruct Hin as (b' & E & _). injection E as <- <-. cbn [fst snd].
    destruct (N.eqb b b') eqn:Eb.
    - apply N.eqb_eq in Eb; subst b'. apply Hsame.
    - apply N.eqb_neq in Eb. apply Hdiff; exact Eb.
  Qed.

  (* payloads: what a derives for b (while deriving for others) against what b' derives for a *)
  Lemma model_spec_conc_oto : forall a st reqs contacts,
    spec_C13_conc (conc_pairs (fun b b' => tp_eqs (one_to_one rk_of dh kle a b st) (one_to_one rk_of dh kle b' a st))
                              reqs contacts) = true.
  Proof.
    intros a st reqs contacts; apply spec_conc_pairs.
    - intros b. pose proof (model_spec_oto rk_of dh kle dh_comm kle_total kle_antisym a b b st) as H.
      unfold spec_C13_oto in H. apply andb_true_iff in H; destruct H as [H _]. exact H.
    - intros b b' Hne.
      rewrite <- (one_to_one_symmetric rk_of dh kle dh_comm kle_total kle_antisym a b' st).
      pose proof (model_spec_oto rk_of dh kle dh_comm kle_total kle_antisym a b b' st) as H.
      unfold spec_C13_oto in H. apply andb_true_iff in H; destruct H as [_ H].
      destruct (N.eqb b b') eqn:Eb; [apply N.eqb_eq in Eb; contradiction | exact H].
  Qed.

  (* keys of the three derivation paths *)
  Lemma model_spec_conc_keys : forall a reqs contacts,
    spec_C13_conc (conc_pairs (fun b b' => keys_eqs dh kle a b b' a) reqs contacts) = true.
  Proof.
    intros a reqs contacts; apply spec_conc_pairs.
    - intros b; unfold keys_eqs, oto_paths; cbn [map forallb].
      rewrite !(shared_key_sym dh kle dh_comm kle_total kle_antisym a b), !skey_eqb_refl. reflexivity.
    - intros b b' Hne; unfold keys_eqs, oto_paths; cbn [map forallb].
      assert (D : forall p, skey_eqb (shared_key dh kle a b p) (shared_key dh kle b' a p) = false).
      { intro p. destruct (skey_eqb _ _) eqn:E; [| reflexivity].
        apply skey_eqb_eq in E. apply shared_key_pair in E.
        destruct E as [[X Y]|[_ Y]]; exfalso; apply Hne; congruence. }
      rewrite !D. reflexivity.
  Qed.
End ConcSpec.

(* ONE shared node buffer is NOT schedule independent: two overlapping calls, second starts after the first
   computed its master node — the first call continues from the second call's chain code.  (Free HMAC:
   a node is the list of everything hashed into it.) *)
Definition free_master (s : N) : list N := [s].
Definition free_child (k : list N) (l : N) : list N := k ++ [l].

Lemma shared_buffer_schedule_dependent :
  exists (inits : list (N * list N)) (sched : list nat) c,
    nth_error (snd (run_shared (list N) N N free_master free_child sched
                      (map (dcall_init (list N) N N) inits))) 0 = Some c /\
    dc_out c <> None /\
    dc_out c <> Some (derive_seq (list N) N N free_master free_child 7%N [1%N; 2%N]).
Proof.
  exists [(7%N, [1%N; 2%N]); (8%N, [1%N; 2%N])], [0; 1; 0; 0; 0]%nat.
  eexists; split; [vm_compute; reflexivity |]. split; intro H; discriminate H.
Qed.
