(* C05 — the key invariant through contents, records and histories; the theorems. *)
From Coq Require Import List NArith Bool Lia.
Import ListNotations.
From AnySync Require Import Model.Acl Model.AclKeys Proofs.AclBase Proofs.AclKeysBase Proofs.AclKeysStep.
Open Scope N_scope.

(* ------------------------------------------------------------------------------------------ small lemmas *)
Lemma list_eqb_opt_eq : forall a b : list (option rid), ogs_eqb a b = true -> a = b.
Proof.
  unfold ogs_eqb. induction a as [|x a IH]; intros [|y b] H; cbn [list_eqb] in H; try discriminate; [reflexivity|].
  apply andb_true_iff in H. destruct H as [Hxy H]. f_equal; [|now apply IH].
  destruct x, y; cbn [opt_eqb] in Hxy; try discriminate; [|reflexivity]. apply N.eqb_eq in Hxy. now subst.
Qed.
Lemma kpay_eqb_eq : forall a b, kpay_eqb a b = true -> a = b.
Proof.
  intros [|x|a1 i1 o1] [|y|a2 i2 o2] H; cbn [kpay_eqb] in H; try discriminate; [reflexivity| |].
  - f_equal. now apply list_eqb_opt_eq.
  - apply andb_true_iff in H. destruct H as [H Ho]. apply andb_true_iff in H. destruct H as [Ha Hi].
    apply list_eqb_opt_eq in Ha. apply list_eqb_opt_eq in Hi. subst.
    destruct o1, o2; cbn [opt_eqb] in Ho; try discriminate; [|reflexivity]. apply N.eqb_eq in Ho. now subst.
Qed.

Lemma zipc_all_some : forall {A} (mk : N -> principal) (f : A -> N) (l : list A) g,
  zipc mk (map f l) (all_some g l) = map (fun a => CAsym (mk (f a)) g) l.
Proof. intros A mk f l g. unfold all_some. induction l as [|a l IH]; cbn [map zipc]; [reflexivity|]. now rewrite IH. Qed.
Lemma zipc_all_some_id : forall (mk : N -> principal) (l : list N) g,
  zipc mk l (all_some g l) = map (fun a => CAsym (mk a) g) l.
Proof. intros mk l g. unfold all_some. induction l as [|a l IH]; cbn [map zipc]; [reflexivity|]. now rewrite IH. Qed.

Lemma last_or_app : forall l x d, last_or (l ++ [x]) d = x.
Proof.
  induction l as [|y l IH]; intros x d; [reflexivity|].
  cbn [app]. destruct l as [|z l]; [reflexivity|]. cbn [last_or app] in *. apply (IH x d).
Qed.
Lemma last_or_In : forall l d, l <> [] -> In (last_or l d) l.
Proof.
  induction l as [|y l IH]; intros d H; [contradiction|].
  destruct l as [|z l]; [now left|]. right. cbn [last_or]. apply IH. discriminate.
Qed.

(* consecutive generations are linked: the newer key opens the older one *)
Fixpoint chain (gens : list rid) (L : list cipher) : Prop :=
  match gens with
  | g :: ((g' :: _) as t) => In (CSym g' g) L /\ chain t L
  | _ => True
  end.
Lemma chain_mono : forall gens L L', incl L L' -> chain gens L -> chain gens L'.
Proof.
  induction gens as [|g t IH]; intros L L' Hi H; [exact I|].
  destruct t as [|g' t]; [exact I|]. cbn [chain] in *. destruct H as [H1 H2]. split; [now apply Hi|now apply (IH L L')].
Qed.
Lemma chain_app : forall gens L r, gens <> [] -> chain gens L -> In (CSym r (last_or gens 0)) L -> chain (gens ++ [r]) L.
Proof.
  induction gens as [|g t IH]; intros L r Hne H Hin; [contradiction|].
  destruct t as [|g' t].
  - cbn. split; [exact Hin|exact I].
  - cbn [app chain] in *. destruct H as [H1 H2]. split; [exact H1|].
    apply (IH L r); [discriminate|exact H2|exact Hin].
Qed.
Lemma chain_derives : forall p L gens, chain gens L -> gens <> [] ->
  forall n, DerivesN p L n (last_or gens 0) ->
  forall g, In g gens -> exists m, (m <= n + length gens - 1)%nat /\ DerivesN p L m g.
Proof.
  intros p L. induction gens as [|g0 t IH]; intros Hc Hne n Hd g Hin; [contradiction|].
  destruct t as [|g' t].
  - destruct Hin as [<-|[]]. exists n. split; [cbn; lia|exact Hd].
  - cbn [chain] in Hc. destruct Hc as [Hc1 Hc2].
    assert (Hd' : DerivesN p L n (last_or (g' :: t) 0)) by exact Hd.
    destruct Hin as [<-|Hin].
    + destruct (IH Hc2 ltac:(discriminate) n Hd' g' (or_introl eq_refl)) as [m [Hm Hdm]].
      exists (Datatypes.S m). split; [cbn [length] in *; lia|]. now apply (D_open p L m g' g0).
    + destruct (IH Hc2 ltac:(discriminate) n Hd' g Hin) as [m [Hm Hdm]].
      exists m. split; [cbn [length] in *; lia|exact Hdm].
Qed.

Lemma sym_count_app : forall L1 L2, sym_count (L1 ++ L2) = (sym_count L1 + sym_count L2)%nat.
Proof. intros. unfold sym_count. now rewrite filter_app, app_length. Qed.

(* ------------------------------------------------------------------------------------------ ciphertexts of honest contents *)
Lemma honest_admit_ciphers : forall s r c k a, honest_content s r c k = true -> In a (admits c) ->
  In (CAsym (PA a) (cur_key s)) (ciphers_of r c k).
Proof.
  intros s r c k a H Hin. destruct c; cbn [admits] in Hin; try contradiction; cbn [honest_content] in H.
  - apply andb_true_iff in H. destruct H as [H _]. apply kpay_eqb_eq in H. subst k.
    destruct Hin as [<-|[]]. cbn. now left.
  - apply kpay_eqb_eq in H. subst k. cbn [ciphers_of]. rewrite zipc_all_some.
    apply in_map_iff in Hin. destruct Hin as [[a' p] [<- Hin]]. apply in_map_iff. now exists (a', p).
  - apply kpay_eqb_eq in H. subst k. destruct Hin as [<-|[]]. cbn. now left.
Qed.

Lemma zipc_asym : forall mk l gs c, In c (zipc mk l gs) -> exists a g, c = CAsym (mk a) g /\ In a l.
Proof.
  intros mk l. induction l as [|a l IH]; intros gs c H; [destruct gs; contradiction|].
  destruct gs as [|[g|] gs]; cbn [zipc] in H; [contradiction| |].
  - destruct H as [<-|H]; [exists a, g; split; [reflexivity|now left]|].
    destruct (IH gs c H) as [a' [g' [-> Hin]]]. exists a', g'. split; [reflexivity|now right].
  - destruct (IH gs c H) as [a' [g' [-> Hin]]]. exists a', g'. split; [reflexivity|now right].
Qed.

(* a non-rotation content publishes only deliveries of the current key to the identities it admits (or to an invite key) *)
Lemma honest_nonrot_ciphers : forall s r c k x, is_rot c = None -> honest_content s r c k = true ->
  In x (ciphers_of r c k) ->
  (exists a, x = CAsym (PA a) (cur_key s) /\ In a (admits c)) \/ (exists ik g, x = CAsym (PI ik) g).
Proof.
  intros s r c k x Hrot H Hin.
  destruct c; cbn [is_rot] in Hrot; try discriminate Hrot; cbn [ciphers_of] in Hin;
    try (destruct k; contradiction); try contradiction.
  - (* invite *) right. destruct k as [|gs|]; try contradiction.
    apply zipc_asym in Hin. destruct Hin as [a [g [-> _]]]. now exists a, g.
  - (* accept *) left. cbn [honest_content] in H. apply andb_true_iff in H. destruct H as [H _].
    apply kpay_eqb_eq in H. subst k. cbn in Hin. destruct Hin as [<-|[]]. exists ident. split; [reflexivity|now left].
  - (* remove None *) destruct rk; [discriminate|]. destruct k; contradiction.
  - (* add *) left. cbn [honest_content] in H. apply kpay_eqb_eq in H. subst k. rewrite zipc_all_some in Hin.
    apply in_map_iff in Hin. destruct Hin as [[a p] [<- Hin]]. exists a. split; [reflexivity|].
    cbn [admits]. apply in_map_iff. now exists (a, p).
  - (* invite join *) left. cbn [honest_content] in H. apply kpay_eqb_eq in H. subst k. cbn in Hin.
    destruct Hin as [<-|[]]. exists ident. split; [reflexivity|now left].
Qed.

Lemma honest_rot_ciphers : forall s r c k rk removed, is_rot c = Some (rk, removed) -> honest_content s r c k = true ->
  ciphers_of r c k = map (fun a => CAsym (PA a) r) (rk_accounts rk) ++ map (fun ik => CAsym (PI ik) r) (rk_invites rk)
                     ++ [CSym r (cur_key s)] /\ ~ In r (keychanges s).
Proof.
  intros s r c k rk removed Hrot H.
  assert (Hh : honest_rot s r rk k = true /\ ciphers_of r c k = rot_ciphers r rk k).
  { destruct c; cbn [is_rot] in Hrot; try discriminate Hrot.
    - destruct rk0; [|discriminate]. injection Hrot as <- <-. split; [exact H|reflexivity].
    - injection Hrot as <- <-. split; [exact H|reflexivity]. }
  destruct Hh as [Hh ->]. unfold honest_rot in Hh. apply andb_true_iff in Hh. destruct Hh as [Hk Hf].
  apply kpay_eqb_eq in Hk. subst k. split.
  - unfold rot_ciphers. now rewrite !zipc_all_some_id.
  - apply negb_true_iff in Hf. now apply memN_false.
Qed.

(* ------------------------------------------------------------------------------------------ the invariant *)
Record KInv (s : state) (L : list cipher) (tr : list state) : Prop := mkKInv {
  ki_wf : skeys (accounts s);
  ki_ne : keychanges s <> [];
  (* availability *)
  ki_members : forall a, perm_of s a <> 0 -> In (CAsym (PA a) (cur_key s)) L;
  ki_chain : chain (keychanges s) L;
  ki_count : (length (keychanges s) <= Datatypes.S (sym_count L))%nat;
  (* secrecy *)
  ki_s1 : forall a g, In (CAsym (PA a) g) L -> exists st, In st tr /\ perm_of st a <> 0 /\ In g (keychanges st);
  ki_s2 : forall o i, In (CSym o i) L -> forall st, In st tr -> In o (keychanges st) -> In i (keychanges st);
  ki_s3 : forall o i, In (CSym o i) L -> In o (keychanges s);
  ki_s4 : forall st, In st tr -> incl (keychanges st) (keychanges s);
  ki_cur : In s tr
}.

Lemma KInv_init : forall owner root, KInv (init_state 0 owner root None) [CAsym (PA owner) root] [init_state 0 owner root None].
Proof.
  intros owner root. constructor; cbn [init_state accounts keychanges].
  - cbn. split; [intros ? ? []|exact I].
  - discriminate.
  - intros a Ha. left. unfold cur_key. cbn [keychanges last_or].
    unfold perm_of, acc_of in Ha. cbn [init_state accounts mget] in Ha.
    destruct (N.eqb_spec a owner) as [E|E]; [now rewrite E|]. cbn in Ha. now contradiction Ha.
  - exact I.
  - cbn. lia.
  - intros a g [H|[]]. injection H as <- <-. exists (init_state 0 owner root None). split; [now left|].
    split; [|now left]. unfold perm_of, acc_of. cbn [init_state accounts mget]. rewrite N.eqb_refl. discriminate.
  - intros o i [H|[]]. discriminate.
  - intros o i [H|[]]. discriminate.
  - intros st [<-|[]]. apply incl_refl.
  - now left.
Qed.

Lemma cur_key_same : forall s s', keychanges s' = keychanges s -> cur_key s' = cur_key s.
Proof. intros s s' H. unfold cur_key. now rewrite H. Qed.

Lemma no_sym_nonrot : forall r c k o i, is_rot c = None -> ~ In (CSym o i) (ciphers_of r c k).
Proof.
  intros r c k o i Hrot Hin.
  destruct c; cbn [is_rot] in Hrot; try discriminate Hrot; cbn [ciphers_of] in Hin;
    try (destruct k; contradiction); try contradiction;
    try (destruct k; try contradiction; apply zipc_asym in Hin; destruct Hin as [a [g [Hx _]]]; discriminate).
  destruct rk; [discriminate|]. destruct k; contradiction.
Qed.

Lemma sym_count_nonrot : forall r c k, is_rot c = None -> sym_count (ciphers_of r c k) = O.
Proof.
  intros r c k Hrot. unfold sym_count.
  destruct (filter is_sym (ciphers_of r c k)) as [|x l] eqn:E; [reflexivity|].
  assert (Hx : In x (filter is_sym (ciphers_of r c k))) by (rewrite E; now left).
  apply filter_In in Hx. destruct Hx as [Hin Hs]. destruct x as [|o i]; [discriminate|].
  now apply no_sym_nonrot in Hin.
Qed.

(* one accepted, honest content preserves the invariant *)
Lemma KInv_content : forall s L tr au r c k s',
  KInv s L tr ->
  apply_content5 false s au r c = Some s' ->
  honest_content s r c k = true -> delivered_members s' c = true ->
  KInv s' (L ++ ciphers_of r c k) (tr ++ [s']).
Proof.
  intros s L tr au r c k s' HI Hstep Hh Hdel.
  destruct HI as [Hwf Hne Hmem Hch Hcnt Hs1 Hs2 Hs3 Hs4 Hcur].
  destruct (is_rot c) as [[rk removed]|] eqn:Hrot.
  - (* rotation *)
    destruct (step_rot s au r c s' rk removed Hstep Hrot) as [Hk [Hi [Hp0 [Hr1 [Hr2 [_ Hsk]]]]]].
    destruct (honest_rot_ciphers s r c k rk removed Hrot Hh) as [Hc Hfresh].
    assert (Hcur' : cur_key s' = r) by (unfold cur_key; rewrite Hk; apply last_or_app).
    constructor.
    + now apply Hsk.
    + rewrite Hk. intros E. now destruct (keychanges s).
    + intros a Ha. rewrite Hcur'. apply in_or_app. right. rewrite Hc. apply in_or_app. left.
      apply in_map_iff. exists a. split; [reflexivity|now apply Hr1].
    + rewrite Hk. apply chain_app; [exact Hne| |].
      * apply (chain_mono _ L); [|exact Hch]. intros x Hx. apply in_or_app. now left.
      * apply in_or_app. right. rewrite Hc. apply in_or_app. right. apply in_or_app. right. now left.
    + rewrite Hk, app_length, sym_count_app, Hc. cbn [length].
      rewrite !sym_count_app. unfold sym_count at 4. cbn [filter is_sym length]. lia.
    + intros a g Hin. apply in_app_or in Hin. destruct Hin as [Hin|Hin].
      * destruct (Hs1 a g Hin) as [st [H1 H2]]. exists st. split; [apply in_or_app; now left|exact H2].
      * rewrite Hc in Hin. apply in_app_or in Hin. destruct Hin as [Hin|Hin].
        -- apply in_map_iff in Hin. destruct Hin as [a' [Heq Hin]]. injection Heq as -> ->.
           exists s'. split; [apply in_or_app; right; now left|]. split; [now apply Hr2|].
           rewrite Hk. apply in_or_app. right. now left.
        -- apply in_app_or in Hin. destruct Hin as [Hin|[Hin|[]]]; [|discriminate].
           apply in_map_iff in Hin. destruct Hin as [ik [Heq _]]. discriminate.
    + intros o i Hin st Hst Ho. apply in_app_or in Hst. apply in_app_or in Hin.
      destruct Hin as [Hin|Hin].
      * destruct Hst as [Hst|[<-|[]]]; [now apply (Hs2 o i Hin st)|].
        rewrite Hk in Ho |- *. apply in_or_app. left. apply (Hs2 o i Hin s Hcur). now apply (Hs3 o i).
      * assert (Heq : CSym o i = CSym r (cur_key s)).
        { rewrite Hc in Hin. apply in_app_or in Hin. destruct Hin as [Hin|Hin].
          - apply in_map_iff in Hin. destruct Hin as [? [? _]]. discriminate.
          - apply in_app_or in Hin. destruct Hin as [Hin|[Hin|[]]]; [|now symmetry].
            apply in_map_iff in Hin. destruct Hin as [? [? _]]. discriminate. }
        injection Heq as -> ->.
        destruct Hst as [Hst|[<-|[]]].
        -- exfalso. apply Hfresh. now apply (Hs4 st Hst).
        -- rewrite Hk. apply in_or_app. left. unfold cur_key. now apply last_or_In.
    + intros o i Hin. rewrite Hk. apply in_app_or in Hin. destruct Hin as [Hin|Hin].
      * apply in_or_app. left. now apply (Hs3 o i).
      * rewrite Hc in Hin. apply in_app_or in Hin. destruct Hin as [Hin|Hin].
        -- apply in_map_iff in Hin. destruct Hin as [? [? _]]. discriminate.
        -- apply in_app_or in Hin. destruct Hin as [Hin|[Hin|[]]].
           ++ apply in_map_iff in Hin. destruct Hin as [? [? _]]. discriminate.
           ++ injection Hin as <- _. apply in_or_app. right. now left.
    + intros st Hst. apply in_app_or in Hst. destruct Hst as [Hst|[<-|[]]]; [|apply incl_refl].
      rewrite Hk. intros x Hx. apply in_or_app. left. now apply (Hs4 st Hst).
    + apply in_or_app. right. now left.
  - (* any other content *)
    destruct (step_nonrot s au r c s' Hstep Hrot) as [Hk [Hadm Hsk]].
    assert (Hcur' : cur_key s' = cur_key s) by now apply cur_key_same.
    constructor.
    + now apply Hsk.
    + now rewrite Hk.
    + intros a Ha. rewrite Hcur'. apply in_or_app.
      destruct (N.eq_dec (perm_of s a) 0) as [Hz|Hnz]; [right|left; now apply Hmem].
      apply honest_admit_ciphers; [exact Hh|now apply Hadm].
    + rewrite Hk. apply (chain_mono _ L); [|exact Hch]. intros x Hx. apply in_or_app. now left.
    + rewrite Hk, sym_count_app, (sym_count_nonrot r c k Hrot). lia.
    + intros a g Hin. apply in_app_or in Hin. destruct Hin as [Hin|Hin].
      * destruct (Hs1 a g Hin) as [st [H1 H2]]. exists st. split; [apply in_or_app; now left|exact H2].
      * destruct (honest_nonrot_ciphers s r c k _ Hrot Hh Hin) as [[a' [Heq Ha']]|[ik [g' Heq]]]; [|discriminate].
        injection Heq as -> ->. exists s'. split; [apply in_or_app; right; now left|]. split.
        -- unfold delivered_members in Hdel. rewrite forallb_forall in Hdel. specialize (Hdel a' Ha').
           apply negb_true_iff in Hdel. now apply N.eqb_neq in Hdel.
        -- rewrite Hk. unfold cur_key. now apply last_or_In.
    + intros o i Hin st Hst Ho. apply in_app_or in Hin. destruct Hin as [Hin|Hin]; [|now apply no_sym_nonrot in Hin].
      apply in_app_or in Hst. destruct Hst as [Hst|[<-|[]]]; [now apply (Hs2 o i Hin st)|].
      rewrite Hk in Ho |- *. now apply (Hs2 o i Hin s Hcur).
    + intros o i Hin. rewrite Hk. apply in_app_or in Hin. destruct Hin as [Hin|Hin]; [now apply (Hs3 o i)|now apply no_sym_nonrot in Hin].
    + intros st Hst. rewrite Hk. apply in_app_or in Hst. destruct Hst as [Hst|[<-|[]]]; [now apply Hs4|rewrite Hk; apply incl_refl].
    + apply in_or_app. right. now left.
Qed.

(* [last] does not matter *)
Lemma KInv_set_last : forall s L tr r, KInv s L tr -> KInv (set_last s r) L (tr ++ [set_last s r]).
Proof.
  intros s L tr r [Hwf Hne Hmem Hch Hcnt Hs1 Hs2 Hs3 Hs4 Hcur].
  constructor; try assumption.
  - intros a g Hin. destruct (Hs1 a g Hin) as [st [H1 H2]]. exists st. split; [apply in_or_app; now left|exact H2].
  - intros o i Hin st Hst Ho. apply in_app_or in Hst. destruct Hst as [Hst|[<-|[]]]; [now apply (Hs2 o i Hin st)|].
    cbn [set_last keychanges] in *. now apply (Hs2 o i Hin s Hcur).
  - intros st Hst. apply in_app_or in Hst. destruct Hst as [Hst|[<-|[]]]; [now apply Hs4|apply incl_refl].
  - apply in_or_app. right. now left.
Qed.

(* ------------------------------------------------------------------------------------------ records and histories *)
Lemma KInv_contents : forall au r cks ms ms' tr,
  KInv (m_s ms) (m_log ms) tr ->
  kcontents_step false ms au r cks = Some ms' ->
  honest_contents (m_s ms) au r cks = true ->
  KInv (m_s ms') (m_log ms') (tr ++ kchain (m_s ms) au r cks).
Proof.
  intros au r cks. induction cks as [|[c k] rest IH]; intros ms ms' tr HI Hstep Hh.
  - cbn in Hstep. injection Hstep as <-. cbn [kchain]. now rewrite app_nil_r.
  - cbn [kcontents_step] in Hstep. unfold kcontent_step in Hstep. cbn [fst snd] in Hstep.
    cbn [honest_contents kchain fst snd] in Hh |- *.
    destruct (apply_content5 false (m_s ms) au r c) as [s'|] eqn:Hc; [|discriminate].
    apply andb_true_iff in Hh. destruct Hh as [Hh Hrest]. apply andb_true_iff in Hh. destruct Hh as [Hh Hdel].
    set (ms1 := mkM s' (m_log ms ++ ciphers_of r c k) (olds_step (m_olds ms) r c k)
                    (step_views (keychanges (m_s ms)) (olds_step (m_olds ms) r c k) r c k (m_views ms))) in Hstep.
    assert (HI1 : KInv (m_s ms1) (m_log ms1) (tr ++ [s'])) by (apply (KInv_content _ _ _ au r c k s' HI Hc Hh Hdel)).
    specialize (IH ms1 ms' (tr ++ [s']) HI1 Hstep Hrest).
    rewrite <- app_assoc in IH. exact IH.
Qed.

Definition Reach (ms : mstate) (tr : list state) : Prop := KInv (m_s ms) (m_log ms) tr.

Lemma KInv_run : forall h ms tr, Reach ms tr -> honest_run ms h = true -> Reach (run_hist ms h) (tr ++ trace ms h).
Proof.
  induction h as [|[[au r] cks] rest IH]; intros ms tr HI Hh.
  - cbn. unfold Reach in *. now rewrite app_nil_r.
  - cbn [honest_run run_hist fold_left trace fst snd] in *.
    unfold krecord_step in *.
    destruct (kcontents_step false ms au r cks) as [ms1|] eqn:Hs; cbn [fst snd] in *.
    + apply andb_true_iff in Hh. destruct Hh as [Hh Hrest]. cbn [negb orb] in Hh.
      pose proof (KInv_contents au r cks ms ms1 tr HI Hs Hh) as HI1.
      apply (KInv_set_last _ _ _ r) in HI1.
      set (ms2 := mkM (set_last (m_s ms1) r) (m_log ms1) (m_olds ms1) (m_views ms1)) in *.
      specialize (IH ms2 _ HI1 Hrest). fold (run_hist ms2 rest) in *.
      rewrite <- !app_assoc in IH. rewrite <- app_assoc. exact IH.
    + apply andb_true_iff in Hh. destruct Hh as [_ Hrest].
      specialize (IH ms tr HI Hrest). exact IH.
Qed.

(* ------------------------------------------------------------------------------------------ theorems on reachable states *)
(* (1) every permission holder derives every generation — inductively and by the executable saturation *)
Theorem members_derive_all : forall ms tr a g, Reach ms tr ->
  perm_of (m_s ms) a <> 0 -> In g (keychanges (m_s ms)) ->
  Derives (PA a) (m_log ms) g /\ In g (derives (PA a) (m_log ms)).
Proof.
  intros ms tr a g HI Hp Hg. destruct HI as [Hwf Hne Hmem Hch Hcnt _ _ _ _ _].
  assert (Hd : DerivesN (PA a) (m_log ms) O (last_or (keychanges (m_s ms)) 0)) by (apply D_direct; now apply Hmem).
  destruct (chain_derives (PA a) (m_log ms) _ Hch Hne O Hd g Hg) as [m [Hm Hdm]].
  split; [now exists m|].
  unfold derives. apply (saturate_complete (PA a) (m_log ms) m g Hdm). lia.
Qed.

(* (2) whoever derives a generation held a permission at a moment at which that generation existed *)
Theorem derive_only_if_member : forall ms tr a g, Reach ms tr ->
  Derives (PA a) (m_log ms) g -> exists st, In st tr /\ perm_of st a <> 0 /\ In g (keychanges st).
Proof.
  intros ms tr a g HI [n Hd]. destruct HI as [_ _ _ _ _ Hs1 Hs2 _ _ _].
  induction Hd as [g Hg|n o i Ho IH Hc].
  - now apply Hs1.
  - destruct IH as [st [Hst [Hp Hk]]]. exists st. split; [exact Hst|]. split; [exact Hp|]. now apply (Hs2 o i Hc st).
Qed.

Corollary nonmember_cannot_derive : forall ms tr a g, Reach ms tr ->
  (forall st, In st tr -> In g (keychanges st) -> perm_of st a = 0) ->
  ~ Derives (PA a) (m_log ms) g /\ ~ In g (derives (PA a) (m_log ms)).
Proof.
  intros ms tr a g HI Hnever.
  assert (Hn : ~ Derives (PA a) (m_log ms) g).
  { intros Hd. destruct (derive_only_if_member ms tr a g HI Hd) as [st [Hst [Hp Hk]]]. apply Hp. now apply Hnever. }
  split; [exact Hn|]. intros Hin. apply Hn. now apply derives_sound.
Qed.

(* (3) an accepted rotation names exactly the permission holders it leaves and exactly the live open invites *)
Theorem rotation_exact : forall s L tr au r c s' rk removed, KInv s L tr ->
  apply_content5 false s au r c = Some s' -> is_rot c = Some (rk, removed) ->
  (forall a, In a (rk_accounts rk) <-> perm_of s' a <> 0) /\
  (forall a, perm_of s' a <> 0 -> perm_of s a <> 0) /\
  (forall k, In k (rk_invites rk) <-> In k (active_invite_keys s')) /\
  keychanges s' = keychanges s ++ [r].
Proof.
  intros s L tr au r c s' rk removed HI Hstep Hrot.
  destruct (step_rot s au r c s' rk removed Hstep Hrot) as [Hk [_ [Hp0 [Hr1 [Hr2 [Hinv _]]]]]].
  split; [|split; [exact Hp0|split; [exact Hinv|exact Hk]]].
  intros a. split; [|now apply Hr1]. apply Hr2. exact (ki_wf _ _ _ HI).
Qed.

(* histories *)
Theorem reach_hist : forall owner root U h,
  honest_run (kinit owner root U) h = true ->
  Reach (run_hist (kinit owner root U) h) (init_state 0 owner root None :: trace (kinit owner root U) h).
Proof.
  intros owner root U h Hh.
  apply (KInv_run h (kinit owner root U) [init_state 0 owner root None]); [|exact Hh].
  unfold Reach, kinit. cbn [m_s m_log]. apply KInv_init.
Qed.

(* (4) encrypted tree content *)
Theorem tree_ciphertext_only : forall g d held,
  build_change true (Some g) d = BOk g (TSEnc g d) /\
  tdata_is_plain (TSEnc g d) d = false /\
  (In g held -> read_change held g (TSEnc g d) = Some d) /\
  (~ In g held -> read_change held g (TSEnc g d) = None) /\
  build_change true None d = BErrMissingKey.
Proof.
  intros g d held. repeat split.
  - intros Hin. cbn [read_change]. apply memN_In in Hin. now rewrite Hin, N.eqb_refl.
  - intros Hnin. cbn [read_change]. apply memN_false in Hnin. now rewrite Hnin.
Qed.

Theorem tree_model_satisfies_spec : forall gen readers,
  spec_C05_tree (mkTobs gen gen false false (map (fun ab => (fst ab, snd ab, snd ab)) readers) true) = true /\
  tree_model_ok (mkTobs gen gen false false (map (fun ab => (fst ab, snd ab, snd ab)) readers) true) = true.
Proof.
  intros gen readers. unfold spec_C05_tree, tree_model_ok. cbn [t_key_id t_gen t_plain_in_store t_plain_on_wire t_nokey_err t_readers build_change tdata_is_plain].
  rewrite N.eqb_refl. cbn [negb andb Bool.eqb].
  split.
  - induction readers as [|[a b] rest IH]; [reflexivity|]. cbn [map forallb fst snd]. rewrite IH. now destruct b.
  - rewrite andb_true_r. induction readers as [|[a b] rest IH]; [reflexivity|]. cbn [map forallb fst snd]. rewrite IH.
    destruct b; cbn [read_change memN existsb]; [|reflexivity]. now rewrite !N.eqb_refl.
Qed.
