(* C15, settings part: the deleted-id set derived from the settings log (StateBuilder.Build). *)
From Coq Require Import List NArith Bool Permutation.
Import ListNotations.
From AnySync Require Import Model.Deletion Proofs.DeletionBase.
Open Scope N_scope.

Lemma In_sadd : forall x y l, In x (sadd y l) <-> x = y \/ In x l.
Proof. intros x y l. rewrite <- !memb_In, memb_sadd, orb_true_iff, N.eqb_eq. tauto. Qed.

Lemma In_sunion : forall b a x, In x (sunion a b) <-> In x a \/ In x b.
Proof.
  unfold sunion. induction b as [|y r IH]; intros a x; cbn [fold_left In]; [tauto|].
  rewrite IH, In_sadd. split; intros H; intuition (subst; auto).
Qed.

Lemma In_sderive_inc : forall new old x,
  In x (sderive_inc old new) <-> In x old \/ exists c, In c new /\ In x (sc_ids c).
Proof.
  unfold sderive_inc. induction new as [|c r IH]; intros old x; cbn [fold_left In].
  - split; [auto | intros [H|[c [[] _]]]; auto].
  - rewrite IH, In_sunion. split.
    + intros [[H|H]|[c' [H1 H2]]]; [auto | right; exists c; auto | right; exists c'; auto].
    + intros [H|[c' [[->|H1] H2]]]; [auto | auto | right; exists c'; auto].
Qed.

(* incremental derivation composes: processing a then b = processing a ++ b *)
Lemma sderive_inc_app : forall old a b, sderive_inc old (a ++ b) = sderive_inc (sderive_inc old a) b.
Proof. intros. unfold sderive_inc. apply fold_left_app. Qed.

(* from scratch at the true root = union of the contents of all changes *)
Lemma sderive_is_union : forall cs x, In x (sderive_inc [] cs) <-> In x (flat_map sc_ids cs).
Proof.
  intros cs x. rewrite In_sderive_inc, in_flat_map. split; [intros [[]|H]; exact H | auto].
Qed.

Lemma scratch_root_is_inc : forall cs, sderive_scratch None cs = sderive_inc [] cs.
Proof. reflexivity. Qed.

(* grow-only: more held changes, more (never fewer) deleted ids *)
Lemma sderive_monotone : forall cs cs', incl cs cs' -> incl (sderive_inc [] cs) (sderive_inc [] cs').
Proof.
  intros cs cs' H x Hx. apply sderive_is_union, in_flat_map in Hx. destruct Hx as [c [H1 H2]].
  apply sderive_is_union, in_flat_map. exists c. auto.
Qed.

Lemma sderive_inc_grows : forall old new, incl old (sderive_inc old new).
Proof. intros old new x H. apply In_sderive_inc. now left. Qed.

(* arrival order is irrelevant *)
Lemma sderive_order_free : forall cs cs', Permutation cs cs' ->
  forall x, In x (sderive_inc [] cs) <-> In x (sderive_inc [] cs').
Proof.
  intros cs cs' P x. rewrite !sderive_is_union, !in_flat_map.
  split; intros [c [H1 H2]]; exists c; split; auto; [eapply Permutation_in; eauto | eapply Permutation_in; [apply Permutation_sym|]; eauto].
Qed.

(* incremental = from scratch: whatever prefix was processed before *)
Lemma sderive_inc_eq_scratch : forall a b x,
  In x (sderive_inc (sderive_inc [] a) b) <-> In x (sderive_scratch None (a ++ b)).
Proof. intros a b x. rewrite scratch_root_is_inc, sderive_inc_app. tauto. Qed.

(* rebuilding from a snapshot root: if the snapshot holds exactly the ids deleted by the snapshot change and its
   ancestors [anc] (what ChangeFactory.makeSnapshot writes when the author's state is right), then building
   from the snapshot and the changes after it gives the union over everything held *)
Lemma scratch_from_snapshot : forall root snap anc after,
  sc_snap root = Some snap ->
  (forall x, In x snap <-> In x (flat_map sc_ids (anc ++ [root]))) ->
  forall x, In x (sderive_scratch (Some root) after) <-> In x (flat_map sc_ids (anc ++ root :: after)).
Proof.
  intros root snap anc after Hs Hw x. unfold sderive_scratch. rewrite Hs.
  change (fold_left (fun acc c => sunion acc (sc_ids c)) after (sunion [] snap)) with (sderive_inc (sunion [] snap) after).
  rewrite In_sderive_inc, In_sunion, Hw. rewrite !in_flat_map. split.
  - intros [[[]|[c [H1 H2]]]|[c [H1 H2]]]; exists c; split; auto.
    + apply in_app_iff in H1. apply in_app_iff. destruct H1 as [H1|[<-|[]]]; [left; auto | right; now left].
    + apply in_app_iff. right. now right.
  - intros [c [H1 H2]]. apply in_app_iff in H1. destruct H1 as [H1|[<-|H1]].
    + left. right. exists c. split; [apply in_app_iff; now left | exact H2].
    + left. right. exists root. split; [apply in_app_iff; right; now left | exact H2].
    + right. exists c. auto.
Qed.

Lemma In_ninsert : forall x y l, In x (ninsert y l) <-> x = y \/ In x l.
Proof.
  induction l as [|z r IH]; cbn [ninsert In]; [intuition|].
  destruct (y <? z); cbn [In]; [intuition|].
  destruct (N.eqb_spec y z) as [->|Hn]; cbn [In]; [intuition | rewrite IH; intuition].
Qed.

Lemma In_nsort : forall l x, In x (nsort l) <-> In x l.
Proof.
  unfold nsort. induction l as [|y r IH]; intros x; cbn [fold_right In]; [tauto|].
  rewrite In_ninsert, IH. intuition.
Qed.

Lemma sunion_all_spec : forall held x, In x (sunion_all held) <-> exists c, In c held /\ In x (sc_ids c).
Proof. intros held x. unfold sunion_all. rewrite In_nsort, in_flat_map. tauto. Qed.

(* ---- the settings object driven by the sync tree (settingsObject.Update / Rebuild / Init) *)

(* the ids deleted by the records of [held] *)
Definition ids_of (held : list schange) (x : N) : Prop := exists c, In c held /\ In x (sc_ids c).

(* What the tree guarantees to its listener when the replica's held records go from [prev] to [held] (C06):
   Nothing - nothing new; Append - the records iterated after LastIteratedId are exactly the new ones; Rebuild / Init -
   iteration from the root covers everything held: either from the true root, or from a snapshot record whose
   snapshot holds exactly the ids of the record and its ancestors [anc] (what an honest author's factory writes). *)
Inductive sev_wf (prev held : list schange) : sev -> Prop :=
| wf_nothing : forall r a, (forall c, In c held <-> In c prev) -> sev_wf prev held (mkSEv SNothing r a)
| wf_append : forall r new, (forall c, In c held <-> In c prev \/ In c new) -> sev_wf prev held (mkSEv SAppend r new)
| wf_scratch_root : forall m after, m = SInit \/ m = SRebuild -> incl prev held ->
    (forall c, In c held <-> In c after) -> sev_wf prev held (mkSEv m None after)
| wf_scratch_snap : forall m root snap anc after, m = SInit \/ m = SRebuild -> incl prev held ->
    sc_snap root = Some snap ->
    (forall x, In x snap <-> In x (flat_map sc_ids (anc ++ [root]))) ->
    (forall c, In c held <-> In c (anc ++ root :: after)) -> sev_wf prev held (mkSEv m (Some root) after).

(* a sequence of listener calls, each with the held set after it *)
Inductive chain_wf : list schange -> list (list schange * sev) -> Prop :=
| chain_nil : forall prev, chain_wf prev []
| chain_cons : forall prev held e rest, sev_wf prev held e -> chain_wf held rest -> chain_wf prev ((held, e) :: rest).

(* kept state and ids handed to the deletion manager = the ids of the held records *)
Definition agrees (o : sobj) (held : list schange) : Prop :=
  (forall x, In x (so_state o) <-> ids_of held x) /\ (forall x, In x (so_seen o) <-> ids_of held x).

Lemma ids_of_flat_map : forall held x, ids_of held x <-> In x (flat_map sc_ids held).
Proof. intros held x. unfold ids_of. rewrite in_flat_map. tauto. Qed.

Lemma ids_of_ext : forall a b, (forall c, In c a <-> In c b) -> forall x, ids_of a x <-> ids_of b x.
Proof.
  intros a b Hab x. unfold ids_of. split; intros [c [Hc Hx]]; exists c; split; auto; apply Hab; exact Hc.
Qed.

Lemma ids_of_incl : forall a b, incl a b -> forall x, ids_of a x -> ids_of b x.
Proof. intros a b Hab x [c [Hc Hx]]. exists c. split; [apply Hab; exact Hc | exact Hx]. Qed.

Lemma agrees_init : agrees sobj_init [].
Proof.
  split; intros x; cbn [sobj_init so_state so_seen]; (split; [intros [] | intros [c [[] _]]]).
Qed.

Lemma sobj_step_scratch : forall o m root after, m = SInit \/ m = SRebuild ->
  sobj_step o (mkSEv m root after) =
  mkSObj (sderive_scratch root after) (sunion (so_seen o) (sderive_scratch root after)).
Proof. intros o m root after [-> | ->]; reflexivity. Qed.

Lemma sobj_step_append : forall o r new,
  sobj_step o (mkSEv SAppend r new) =
  mkSObj (sderive_inc (so_state o) new) (sunion (so_seen o) (sderive_inc (so_state o) new)).
Proof. reflexivity. Qed.

Lemma sobj_step_agrees : forall o prev held e, agrees o prev -> sev_wf prev held e -> agrees (sobj_step o e) held.
Proof.
  intros o prev held e [Hst Hseen] Hwf.
  destruct Hwf as [r a Hsame | r new Hnew | m after Hm Hincl Hall | m root snap anc after Hm Hincl Hsnap Hwfsnap Hall].
  - cbn [sobj_step se_mode]. split; intros x.
    + rewrite Hst. apply ids_of_ext. intros c. symmetry. apply Hsame.
    + rewrite Hseen. apply ids_of_ext. intros c. symmetry. apply Hsame.
  - rewrite sobj_step_append. unfold agrees. cbn [so_state so_seen].
    assert (Hstate : forall x, In x (sderive_inc (so_state o) new) <-> ids_of held x).
    { intros x. rewrite In_sderive_inc, Hst. unfold ids_of. split.
      - intros [[c [Hc Hx]] | [c [Hc Hx]]]; exists c; split; auto; apply Hnew; auto.
      - intros [c [Hc Hx]]. apply Hnew in Hc. destruct Hc as [Hc | Hc]; [left | right]; exists c; auto. }
    split; intros x; [apply Hstate|].
    rewrite In_sunion, Hseen, Hstate. split; [intros [H | H]; [|exact H] | intros H; now right].
    apply ids_of_incl with (a := prev); [|exact H]. intros c Hc. apply Hnew. now left.
  - rewrite (sobj_step_scratch o m None after Hm). unfold agrees. cbn [so_state so_seen].
    assert (Hstate : forall x, In x (sderive_scratch None after) <-> ids_of held x).
    { intros x. rewrite scratch_root_is_inc, sderive_is_union, <- ids_of_flat_map.
      apply ids_of_ext. intros c. symmetry. apply Hall. }
    split; intros x; [apply Hstate|].
    rewrite In_sunion, Hseen, Hstate. split; [intros [H | H]; [|exact H] | intros H; now right].
    apply ids_of_incl with (a := prev); assumption.
  - rewrite (sobj_step_scratch o m (Some root) after Hm). unfold agrees. cbn [so_state so_seen].
    assert (Hstate : forall x, In x (sderive_scratch (Some root) after) <-> ids_of held x).
    { intros x. rewrite (scratch_from_snapshot root snap anc after Hsnap Hwfsnap), <- ids_of_flat_map.
      apply ids_of_ext. intros c. symmetry. apply Hall. }
    split; intros x; [apply Hstate|].
    rewrite In_sunion, Hseen, Hstate. split; [intros [H | H]; [|exact H] | intros H; now right].
    apply ids_of_incl with (a := prev); assumption.
Qed.

(* after ANY well-formed sequence of listener calls (any arrival order, batching, restarts) the kept state and the
   ids handed to the deletion manager are exactly the ids of the records held at the end *)
Theorem sobj_run_union : forall hevs prev o, agrees o prev -> chain_wf prev hevs ->
  agrees (sobj_run o (map snd hevs)) (last (map fst hevs) prev).
Proof.
  induction hevs as [|[held e] rest IH]; intros prev o Hag Hch.
  - exact Hag.
  - inversion Hch as [|prev' held' e' rest' Hwf Hrest]; subst.
    cbn [map snd fst sobj_run fold_left].
    change (fold_left sobj_step (map snd rest) (sobj_step o e)) with (sobj_run (sobj_step o e) (map snd rest)).
    assert (Hl : last (held :: map fst rest) prev = last (map fst rest) held).
    { destruct (map fst rest) as [|h t]; [reflexivity|]. cbn [last]. clear. revert h. induction t as [|h' t IHt]; intros h; [reflexivity|]. cbn [last]. apply IHt. }
    rewrite Hl. apply IH; [eapply sobj_step_agrees; eassumption | exact Hrest].
Qed.

(* two replicas that received the same records - in whatever order, batching, with whatever restarts - derive the same set *)
Corollary sobj_order_free : forall h1 h2 held,
  chain_wf [] h1 -> chain_wf [] h2 ->
  (forall c, In c (last (map fst h1) []) <-> In c held) -> (forall c, In c (last (map fst h2) []) <-> In c held) ->
  forall x, (In x (so_state (sobj_run sobj_init (map snd h1))) <-> In x (so_state (sobj_run sobj_init (map snd h2)))) /\
            (In x (so_seen (sobj_run sobj_init (map snd h1))) <-> ids_of held x).
Proof.
  intros h1 h2 held H1 H2 E1 E2 x.
  destruct (sobj_run_union h1 [] sobj_init agrees_init H1) as [S1 N1].
  destruct (sobj_run_union h2 [] sobj_init agrees_init H2) as [S2 _].
  split.
  - rewrite S1, S2, (ids_of_ext _ _ E1), (ids_of_ext _ _ E2). tauto.
  - rewrite N1. apply ids_of_ext. exact E1.
Qed.
