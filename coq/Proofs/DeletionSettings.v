(* C15, settings part: the deleted-id set derived from the settings log (StateBuilder.Build). *)
From Coq Require Import List NArith Bool Permutation.
Import ListNotations.
From AnySync Require Import Model.Deletion Proofs.DeletionBase.
Open Scope N_scope.

Lemma In_sadd : forall x y l, In x (sadd y l) <-> x = y \/ In x l.
Proof. intros x y l. rewrite <- !memb_In, memb_sadd, orb_true_iff, N.eqb_eq. tauto. Qed.

Lemma In_sunion : forall b a x, In x (sunion a b) <-> In x a \/ In x b.
Proof.
  unfold sunion. induction b as [|y r IH]; intros a x; cbn [fold_left In]; [tauto|].
  rewrite IH, In_sadd. split; intros H; intuition (subst; auto).
Qed.

Lemma In_sderive_inc : forall new old x,
  In x (sderive_inc old new) <-> In x old \/ exists c, In c new /\ In x (sc_ids c).
Proof.
  unfold sderive_inc. induction new as [|c r IH]; intros old x; cbn [fold_left In].
  - split; [auto | intros [H|[c [[] _]]]; auto].
  - rewrite IH, In_sunion. split.
    + intros [[H|H]|[c' [H1 H2]]]; [auto | right; exists c; auto | right; exists c'; auto].
    + intros [H|[c' [[->|H1] H2]]]; [auto | auto | right; exists c'; auto].
Qed.

(* incremental derivation composes: processing a then b = processing a ++ b *)
Lemma sderive_inc_app : forall old a b, sderive_inc old (a ++ b) = sderive_inc (sderive_inc old a) b.
Proof. intros. unfold sderive_inc. apply fold_left_app. Qed.

(* from scratch at the true root = union of the contents of all changes *)
Lemma sderive_is_union : forall cs x, In x (sderive_inc [] cs) <-> In x (flat_map sc_ids cs).
Proof.
  intros cs x. rewrite In_sderive_inc, in_flat_map. split; [intros [[]|H]; exact H | auto].
Qed.

Lemma scratch_root_is_inc : forall cs, sderive_scratch None cs = sderive_inc [] cs.
Proof. reflexivity. Qed.

(* grow-only: more held changes, more (never fewer) deleted ids *)
Lemma sderive_monotone : forall cs cs', incl cs cs' -> incl (sderive_inc [] cs) (sderive_inc [] cs').
Proof.
  intros cs cs' H x Hx. apply sderive_is_union, in_flat_map in Hx. destruct Hx as [c [H1 H2]].
  apply sderive_is_union, in_flat_map. exists c. auto.
Qed.

Lemma sderive_inc_grows : forall old new, incl old (sderive_inc old new).
Proof. intros old new x H. apply In_sderive_inc. now left. Qed.

(* arrival order is irrelevant *)
Lemma sderive_order_free : forall cs cs', Permutation cs cs' ->
  forall x, In x (sderive_inc [] cs) <-> In x (sderive_inc [] cs').
Proof.
  intros cs cs' P x. rewrite !sderive_is_union, !in_flat_map.
  split; intros [c [H1 H2]]; exists c; split; auto; [eapply Permutation_in; eauto | eapply Permutation_in; [apply Permutation_sym|]; eauto].
Qed.

(* incremental = from scratch: whatever prefix was processed before *)
Lemma sderive_inc_eq_scratch : forall a b x,
  In x (sderive_inc (sderive_inc [] a) b) <-> In x (sderive_scratch None (a ++ b)).
Proof. intros a b x. rewrite scratch_root_is_inc, sderive_inc_app. tauto. Qed.

(* rebuilding from a snapshot root: if the snapshot holds exactly the ids deleted by the snapshot change and its
   ancestors [anc] (what ChangeFactory.makeSnapshot writes when the author's state is right), then building
   from the snapshot and the changes after it gives the union over everything held *)
Lemma scratch_from_snapshot : forall root snap anc after,
  sc_snap root = Some snap ->
  (forall x, In x snap <-> In x (flat_map sc_ids (anc ++ [root]))) ->
  forall x, In x (sderive_scratch (Some root) after) <-> In x (flat_map sc_ids (anc ++ root :: after)).
Proof.
  intros root snap anc after Hs Hw x. unfold sderive_scratch. rewrite Hs.
  change (fold_left (fun acc c => sunion acc (sc_ids c)) after (sunion [] snap)) with (sderive_inc (sunion [] snap) after).
  rewrite In_sderive_inc, In_sunion, Hw. rewrite !in_flat_map. split.
  - intros [[[]|[c [H1 H2]]]|[c [H1 H2]]]; exists c; split; auto.
    + apply in_app_iff in H1. apply in_app_iff. destruct H1 as [H1|[<-|[]]]; [left; auto | right; now left].
    + apply in_app_iff. right. now right.
  - intros [c [H1 H2]]. apply in_app_iff in H1. destruct H1 as [H1|[<-|H1]].
    + left. right. exists c. split; [apply in_app_iff; now left | exact H2].
    + left. right. exists root. split; [apply in_app_iff; right; now left | exact H2].
    + right. exists c. auto.
Qed.

Lemma In_ninsert : forall x y l, In x (ninsert y l) <-> x = y \/ In x l.
Proof.
  induction l as [|z r IH]; cbn [ninsert In]; [intuition|].
  destruct (y <? z); cbn [In]; [intuition|].
  destruct (N.eqb_spec y z) as [->|Hn]; cbn [In]; [intuition | rewrite IH; intuition].
Qed.

Lemma In_nsort : forall l x, In x (nsort l) <-> In x l.
Proof.
  unfold nsort. induction l as [|y r IH]; intros x; cbn [fold_right In]; [tauto|].
  rewrite In_ninsert, IH. intuition.
Qed.

Lemma sunion_all_spec : forall held x, In x (sunion_all held) <-> exists c, In c held /\ In x (sc_ids c).
Proof. intros held x. unfold sunion_all. rewrite In_nsort, in_flat_map. tauto. Qed.
