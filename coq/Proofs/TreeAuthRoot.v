(* Proofs/TreeAuthRoot.v — the ROOT as a delivered change (C02, root clause).
   The model of a root delivery (Model/TreeAuth.v, model_rootdel: every construction path over [build] and [accept])
   satisfies the root specification spec_rootdel / spec_roots: whatever the model leaves in memory or on disk has a root
   whose id is the hash of its bytes, canonical, signed by the identity it names (derived roots excepted), that identity
   holding write permission -- in the TRUTH, the ACL state folded up to the cited record -- at a record the receiver
   knows; and every other change present came with the delivery and is authentic and authorised. *)
From Coq Require Import List NArith Bool Arith Lia.
Import ListNotations.
From AnySync Require Import Model.TreeAuth Proofs.TreeAuth Proofs.TreeAuthAcl Proofs.TreeAuthSpec.
Open Scope N_scope.

Lemma build_shape : forall a root derived t0, build a root derived = Some t0 ->
  t0 = tree0 root derived /\ validate_change a t0 [root] root = true /\ unmarshal_ok t0 root = true.
Proof.
  intros a root derived t0 EB. unfold build in EB.
  destruct (rc_decodes root && validate_change a _ [root] root && unmarshal_ok _ root) eqn:E; [|discriminate].
  inversion EB; subst t0. repeat rewrite andb_true_iff in E. unfold tree0. tauto.
Qed.

(* build refuses a root that fails CID / canonical form / decoding / signature (derived roots: no signature needed) *)
Lemma build_unauthentic_refused : forall a root derived,
  unmarshal_ok (tree0 root derived) root = false -> build a root derived = None.
Proof.
  intros a root derived H. unfold build. fold (tree0 root derived). rewrite H.
  rewrite andb_false_r. reflexivity.
Qed.

Lemma unmarshal_tree0_authentic : forall root derived,
  unmarshal_ok (tree0 root derived) root = true -> authentic derived root = true.
Proof.
  intros root derived H. unfold unmarshal_ok, is_derived_root in H. cbn [tree0 at_derived at_root] in H.
  rewrite N.eqb_refl, andb_true_r in H. unfold authentic.
  repeat rewrite andb_true_iff in H. destruct H as [[[Hc _] Hcan] Hs]. rewrite Hc, Hcan, Hs. reflexivity.
Qed.

Lemma root_auth_authentic : forall ids sts n root derived,
  auth_ok ids sts n (rc_id root) derived [root] root = true -> authentic derived root = true.
Proof.
  intros ids sts n root derived H. unfold auth_ok in H. rewrite N.eqb_refl, andb_true_r in H.
  unfold authentic. repeat rewrite andb_true_iff in H. destruct H as [[Hc Hcan] H]. rewrite Hc, Hcan. cbn [andb].
  apply orb_true_iff in H. destruct H as [H|H]; [rewrite H; reflexivity|].
  repeat rewrite andb_true_iff in H. destruct H as [[[Hs _] _] _]. rewrite Hs. apply orb_true_r.
Qed.

Lemma is_nil_false : forall l : list N, l <> [] -> is_nil l = false.
Proof. intros [|x l] H; [contradiction | reflexivity]. Qed.

Section RootLog.
  Variables (me owner : acct) (aroot : rid) (ws : list raw) (sts : list state).
  Hypothesis HS : acl_states me owner aroot ws = Some sts.
  Hypothesis ND : NoDup (acl_ids aroot ws).
  Let ids := acl_ids aroot ws.

  Lemma build_root_auth : forall n a root derived t0,
    view_at ids sts n = Some a -> build a root derived = Some t0 ->
    auth_ok ids sts n (rc_id root) derived [root] root = true.
  Proof.
    intros n a root derived t0 EV EB. destruct (build_shape _ _ _ _ EB) as (Et0 & Hval & Hum).
    assert (Hr : at_root t0 = rc_id root) by (rewrite Et0; reflexivity).
    assert (Hd : at_derived t0 = derived) by (rewrite Et0; reflexivity).
    assert (Ha : at_att t0 = [root]) by (rewrite Et0; reflexivity).
    rewrite <- Hr, <- Hd.
    apply (sound_auth _ _ _ _ _ HS ND n a t0 [root] root EV); [|intros i; rewrite Ha; reflexivity].
    eapply checks_sound; [exact Hum | exact Hval | reflexivity | reflexivity | exact Ha].
  Qed.

  (* how the specification of a delivery is established from facts about the outputs *)
  Lemma spec_rootdel_intro : forall d o,
    (ro_live o = true -> auth_ok ids sts (rd_acl_len d) (rc_id (rd_root d)) (rd_derived d) [rd_root d] (rd_root d) = true) ->
    (ro_live o = false -> ro_heads o = [] /\ ro_iter o = []) ->
    (ro_stored o <> [] ->
       if rd_path d =? 0 then authentic (rd_derived d) (rd_root d) = true
       else auth_ok ids sts (rd_acl_len d) (rc_id (rd_root d)) (rd_derived d) [rd_root d] (rd_root d) = true) ->
    (forall x, In x (ro_iter o ++ ro_stored o) -> x = rc_id (rd_root d) \/ In x (ro_added o)) ->
    (forall x, In x (ro_added o) -> In x (rc_ids (rd_changes d))) ->
    (ro_added o <> [] -> auth_ok ids sts (rd_acl_len d) (rc_id (rd_root d)) (rd_derived d) [rd_root d] (rd_root d) = true) ->
    forallb (fun i => forallb (auth_ok ids sts (rd_acl_len d) (rc_id (rd_root d)) (rd_derived d)
                         (flat_map (fun i => match find_rc (rd_changes d) i with Some c => [c] | None => [] end) (ro_added o)
                          ++ [rd_root d])) (copies (rd_changes d) i)) (ro_added o) = true ->
    spec_rootdel ids sts (rd_with d o) = true.
  Proof.
    intros d o Hlive Hdead Hst Hsub Hadd Hne Hauth. unfold spec_rootdel, rd_with.
    cbn [rd_path rd_acl_len rd_root rd_derived rd_changes rd_heads rd_keyed rd_live rd_rebuilt rd_lheads rd_iter rd_stored rd_added].
    rewrite Hauth, andb_true_r.
    assert (A1 : (if ro_live o || ro_live o
                  then auth_ok ids sts (rd_acl_len d) (rc_id (rd_root d)) (rd_derived d) [rd_root d] (rd_root d)
                  else is_nil (ro_heads o) && is_nil (ro_iter o)) = true).
    { destruct (ro_live o) eqn:EL; cbn [orb].
      - apply Hlive. reflexivity.
      - destruct (Hdead eq_refl) as [H1 H2]. rewrite H1, H2. reflexivity. }
    assert (A2 : (if is_nil (ro_stored o) then true
                  else if rd_path d =? 0 then authentic (rd_derived d) (rd_root d)
                       else auth_ok ids sts (rd_acl_len d) (rc_id (rd_root d)) (rd_derived d) [rd_root d] (rd_root d)) = true).
    { destruct (ro_stored o) as [|x l] eqn:ES; [reflexivity|]. cbn [is_nil].
      assert (Hn : x :: l <> []) by discriminate. specialize (Hst Hn).
      destruct (rd_path d =? 0); exact Hst. }
    assert (A3 : subset_N (ro_iter o ++ ro_stored o) (rc_id (rd_root d) :: ro_added o) = true).
    { apply subset_N_In. intros x Hx. destruct (Hsub x Hx) as [E|E]; [left; symmetry; exact E | right; exact E]. }
    assert (A4 : subset_N (ro_added o) (rc_ids (rd_changes d)) = true) by (apply subset_N_In; exact Hadd).
    assert (A5 : is_nil (ro_added o) || auth_ok ids sts (rd_acl_len d) (rc_id (rd_root d)) (rd_derived d) [rd_root d] (rd_root d) = true).
    { destruct (ro_added o) as [|x l] eqn:EA; [reflexivity|]. cbn [is_nil orb]. apply Hne. discriminate. }
    rewrite A1, A2, A3, A4, A5. reflexivity.
  Qed.

  Lemma spec_none : forall d, spec_rootdel ids sts (rd_with d ro_none) = true.
  Proof.
    intros d. apply spec_rootdel_intro; cbn [ro_none ro_live ro_heads ro_iter ro_stored ro_added app].
    - discriminate.
    - auto.
    - intros H; contradiction.
    - intros x [].
    - intros x [].
    - intros H; contradiction.
    - reflexivity.
  Qed.

  (* a tree built from a root alone: the iteration and the storage hold the root only *)
  Lemma built_only_root : forall a root derived t0, build a root derived = Some t0 ->
    at_stored t0 = [rc_id root] /\ (forall x, In x (iter_seq t0) -> x = rc_id root).
  Proof.
    intros a root derived t0 EB. pose proof (build_wf2 _ _ _ _ EB) as W2.
    destruct (build_shape _ _ _ _ EB) as (Et0 & _ & _).
    assert (Hs : at_stored t0 = [rc_id root]) by (rewrite Et0; reflexivity).
    split; [exact Hs|]. intros x Hx. apply (iter_in_stored t0 W2) in Hx. rewrite Hs in Hx.
    destruct Hx as [E|[]]. symmetry. exact E.
  Qed.

  (* a successful AddRawChanges on a freshly built tree *)
  Lemma ok_facts : forall n a root derived t0 cs t1 added,
    view_at ids sts n = Some a -> batch_consistent cs -> build a root derived = Some t0 ->
    accept a t0 cs = (t1, ROk added) ->
    (forall x, In x (at_stored t1) -> x = rc_id root \/ In x added) /\
    (forall x, In x (iter_seq t1) -> x = rc_id root \/ In x added) /\
    (forall x, In x added -> In x (rc_ids cs)) /\
    forallb (fun i => forallb (auth_ok ids sts n (rc_id root) derived
                         (flat_map (fun i => match find_rc cs i with Some c => [c] | None => [] end) added ++ [root]))
                         (copies cs i)) added = true.
  Proof.
    intros n a root derived t0 cs t1 added EV HC EB EA.
    pose proof (build_wf2 _ _ _ _ EB) as W2. pose proof (accept_wf2 _ _ _ _ _ W2 EA) as W2'.
    destruct (build_shape _ _ _ _ EB) as (Et0 & _ & _).
    assert (Hr : at_root t0 = rc_id root) by (rewrite Et0; reflexivity).
    assert (Hd : at_derived t0 = derived) by (rewrite Et0; reflexivity).
    assert (Ha : at_att t0 = [root]) by (rewrite Et0; reflexivity).
    assert (Hs0 : at_stored t0 = [rc_id root]) by (rewrite Et0; reflexivity).
    pose proof EA as Hsh. apply accept_ok_shape2 in Hsh. cbn zeta in Hsh.
    destruct Hsh as (Had & _ & _ & _ & _ & _ & _ & Hst).
    assert (S1 : forall x, In x (at_stored t1) -> x = rc_id root \/ In x added).
    { intros x Hx. rewrite Hst, Hs0 in Hx. apply in_app_or in Hx. destruct Hx as [Hx|[E|[]]].
      - right. rewrite Had. apply in_rev. exact Hx.
      - left. symmetry. exact E. }
    split; [exact S1|]. split.
    { intros x Hx. apply S1. apply (iter_in_stored t1 W2'). exact Hx. }
    split.
    { intros x Hx. rewrite Had in Hx. apply in_map_iff in Hx. destruct Hx as [c [<- Hc]].
      apply in_map. apply added_in_news in Hc. unfold news_of in Hc. apply filter_In in Hc. tauto. }
    assert (Hk : forall i, find_rc [root] i = find_rc (at_att t0) i) by (intros i; rewrite Ha; reflexivity).
    destruct (accept_ok_auth _ _ _ _ _ HS ND n a t0 cs t1 added [root] EV HC EA Hk) as [_ Hauth].
    rewrite Hr, Hd in Hauth. exact Hauth.
  Qed.

  (* a rejected AddRawChanges on a freshly built tree leaves the root only *)
  Lemma err_facts : forall a root derived t0 cs t1 e,
    build a root derived = Some t0 -> accept a t0 cs = (t1, RErr e) ->
    at_stored t1 = [rc_id root] /\ (forall x, In x (iter_seq t1) -> x = rc_id root).
  Proof.
    intros a root derived t0 cs t1 e EB EA. pose proof (build_wf2 _ _ _ _ EB) as W2.
    destruct (built_only_root _ _ _ _ EB) as [Hs Hi].
    pose proof (reject_noop _ _ _ _ _ (wf2_wf t0 W2) EA) as (_ & _ & _ & _ & Hst & _ & _ & Hit).
    rewrite Hst, Hit. split; assumption.
  Qed.

  Ltac intro_spec := apply spec_rootdel_intro; cbn [ro_live ro_heads ro_iter ro_stored ro_added app].

  Theorem model_rootdel_spec : forall a d o,
    view_at ids sts (rd_acl_len d) = Some a -> batch_consistent (rd_changes d) ->
    model_rootdel me a d = Some o -> spec_rootdel ids sts (rd_with d o) = true.
  Proof.
    intros a d o EV HC HM. unfold model_rootdel in HM.
    destruct ((rd_path d =? 3) && negb (had_read a me)); [inversion HM; apply spec_none|].
    destruct (build a (rd_root d) (rd_derived d)) as [t0|] eqn:EB.
    2:{ (* the tree builder refused the root *)
        destruct ((rd_path d =? 0) && unmarshal_ok (tree0 (rd_root d) (rd_derived d)) (rd_root d)) eqn:EE;
          inversion HM; subst o; [|apply spec_none].
        apply andb_true_iff in EE. destruct EE as [Ep Eu].
        apply spec_rootdel_intro; cbn [ro_live ro_heads ro_iter ro_stored ro_added app].
        - discriminate.
        - auto.
        - intros _. rewrite Ep. apply unmarshal_tree0_authentic. exact Eu.
        - intros x [E|[]]. left. symmetry. exact E.
        - intros x [].
        - intros H; contradiction.
        - reflexivity. }
    pose proof (build_root_auth _ _ _ _ _ EV EB) as HR.
    pose proof (root_auth_authentic _ _ _ _ _ HR) as HAu.
    destruct (built_only_root _ _ _ _ EB) as [Hs0 Hi0].
    assert (Hroot : if rd_path d =? 0 then authentic (rd_derived d) (rd_root d) = true
                    else auth_ok ids sts (rd_acl_len d) (rc_id (rd_root d)) (rd_derived d) [rd_root d] (rd_root d) = true)
      by (destruct (rd_path d =? 0); assumption).
    destruct (rd_path d <? 2) eqn:EP.
    { destruct (rd_changes d) as [|c cs] eqn:ECS.
      - inversion HM; subst o. intro_spec.
        + intros _. exact HR.
        + discriminate.
        + intros _. exact Hroot.
        + intros x Hx. left. apply in_app_or in Hx. destruct Hx as [Hx|Hx]; [apply Hi0; exact Hx|].
          destruct (rd_path d =? 0); [|destruct Hx]. rewrite Hs0 in Hx. destruct Hx as [E|[]]. symmetry. exact E.
        + intros x [].
        + intros H; contradiction.
        + reflexivity.
      - rewrite <- ECS in *. destruct (accept a t0 (rd_changes d)) as [t1 res] eqn:EA.
        destruct res as [added|e|]; [| |discriminate]; inversion HM; subst o.
        + destruct (ok_facts _ _ _ _ _ _ _ _ EV HC EB EA) as (F1 & F2 & F3 & F4). intro_spec.
          * intros _. exact HR.
          * discriminate.
          * intros _. exact Hroot.
          * intros x Hx. apply in_app_or in Hx. destruct Hx as [Hx|Hx]; [apply F2 | apply F1]; exact Hx.
          * exact F3.
          * intros _. exact HR.
          * exact F4.
        + destruct (err_facts _ _ _ _ _ _ _ EB EA) as [Hs1 Hi1]. intro_spec.
          * intros _. exact HR.
          * discriminate.
          * intros _. exact Hroot.
          * intros x Hx. left. apply in_app_or in Hx. destruct Hx as [Hx|Hx]; [apply Hi1; exact Hx|].
            destruct (rd_path d =? 0); [|destruct Hx]. rewrite Hs1 in Hx. destruct Hx as [E|[]]. symmetry. exact E.
          * intros x [].
          * intros H; contradiction.
          * reflexivity. }
    destruct (rd_path d =? 2) eqn:EP2.
    { destruct (accept a t0 (rd_changes d)) as [t1 res] eqn:EA.
      destruct res as [added|e|]; [| |discriminate]; [|inversion HM; apply spec_none].
      destruct (ok_facts _ _ _ _ _ _ _ _ EV HC EB EA) as (F1 & F2 & F3 & F4).
      assert (Hdead : spec_rootdel ids sts (rd_with d (mkRO false [] [] (at_stored t1) added)) = true).
      { intro_spec.
        - discriminate.
        - auto.
        - intros _. exact Hroot.
        - exact F1.
        - exact F3.
        - intros _. exact HR.
        - exact F4. }
      destruct (negb (sameset (at_heads t1) (rd_heads d))); [inversion HM; exact Hdead|].
      destruct (rd_derived d && Nat.eqb (length (at_att t1)) 1); inversion HM; subst o; [exact Hdead|].
      intro_spec.
      - intros _. exact HR.
      - discriminate.
      - intros _. exact Hroot.
      - intros x Hx. apply in_app_or in Hx. destruct Hx as [Hx|Hx]; [apply F2 | apply F1]; exact Hx.
      - exact F3.
      - intros _. exact HR.
      - exact F4. }
    destruct (rd_changes d) as [|c cs] eqn:ECS.
    { inversion HM; subst o. intro_spec.
      - discriminate.
      - auto.
      - intros _. exact Hroot.
      - intros x Hx. left. rewrite Hs0 in Hx. destruct Hx as [E|[]]. symmetry. exact E.
      - intros x [].
      - intros H; contradiction.
      - reflexivity. }
    rewrite <- ECS in *.
    destruct (rd_keyed d && forallb (fun c0 => has_head (av_ids a) (rc_head c0)) (rd_changes d)); [|discriminate].
    destruct (accept a t0 (rd_changes d)) as [t1 res] eqn:EA.
    destruct res as [added|e|]; [| |discriminate]; [|inversion HM; apply spec_none].
    destruct (ok_facts _ _ _ _ _ _ _ _ EV HC EB EA) as (F1 & F2 & F3 & F4).
    destruct (Nat.eqb (length (at_att t1)) 1); inversion HM; subst o; intro_spec.
    - discriminate.
    - auto.
    - intros _. exact Hroot.
    - exact F1.
    - exact F3.
    - intros _. exact HR.
    - exact F4.
    - intros _. exact HR.
    - discriminate.
    - intros _. exact Hroot.
    - intros x Hx. apply in_app_or in Hx. destruct Hx as [Hx|Hx]; [apply F2 | apply F1]; exact Hx.
    - exact F3.
    - intros _. exact HR.
    - exact F4.
  Qed.
End RootLog.

(* the side conditions on a root world's INPUTS (decidable), as for scenarios *)
Definition rootworld_wf (rw : rootworld) : bool :=
  match acl_states (rw_me rw) (rw_owner rw) (rw_aclroot rw) (rw_recs rw) with Some _ => true | None => false end &&
  nodupN_b (acl_ids (rw_aclroot rw) (rw_recs rw)) &&
  forallb (fun d => batch_consistent_b (rd_changes d)) (rw_dels rw).

Theorem model_roots_satisfy_spec : forall rw, rootworld_wf rw = true -> spec_roots (model_rootworld rw) = true.
Proof.
  intros rw H. unfold rootworld_wf in H. repeat rewrite andb_true_iff in H. destruct H as [[HS ND] HC].
  destruct (acl_states (rw_me rw) (rw_owner rw) (rw_aclroot rw) (rw_recs rw)) as [sts|] eqn:ES; [|discriminate].
  apply nodupN_b_ok in ND. unfold spec_roots, model_rootworld.
  cbn [rw_me rw_owner rw_aclroot rw_recs rw_dels]. rewrite ES.
  apply forallb_forall. intros d' Hd'. apply in_map_iff in Hd'. destruct Hd' as [d [<- Hd]].
  destruct (view_at (acl_ids (rw_aclroot rw) (rw_recs rw)) sts (rd_acl_len d)) as [a|] eqn:EV;
    [|apply spec_none].
  destruct (model_rootdel (rw_me rw) a d) as [o|] eqn:EM; [|apply spec_none].
  apply (model_rootdel_spec _ _ _ _ _ ES ND a d o EV); [|exact EM].
  apply batch_consistent_b_ok. rewrite forallb_forall in HC. apply HC. exact Hd.
Qed.

(* root clause in property language: on every path, a live tree or anything on disk (paths 1-3) means the delivered
   root passed [build], i.e. CID, canonical form, signature (derived roots excepted), known cited record, CanWrite *)
Theorem model_root_present_built : forall me a d o,
  model_rootdel me a d = Some o ->
  ro_live o = true \/ (rd_path d <> 0 /\ ro_stored o <> []) ->
  exists t0, build a (rd_root d) (rd_derived d) = Some t0.
Proof.
  intros me a d o HM HP. unfold model_rootdel in HM.
  destruct ((rd_path d =? 3) && negb (had_read a me)).
  { inversion HM; subst o. cbn in HP. destruct HP as [HP|[_ HP]]; [discriminate | contradiction]. }
  destruct (build a (rd_root d) (rd_derived d)) as [t0|] eqn:EB; [exists t0; reflexivity|].
  destruct ((rd_path d =? 0) && unmarshal_ok (tree0 (rd_root d) (rd_derived d)) (rd_root d)) eqn:EE;
    inversion HM; subst o; cbn in HP.
  - destruct HP as [HP|[HP _]]; [discriminate|]. apply andb_true_iff in EE. destruct EE as [EE _].
    apply N.eqb_eq in EE. contradiction.
  - destruct HP as [HP|[_ HP]]; [discriminate | contradiction].
Qed.

(* a root that fails Unmarshall(verify): on every path nothing is returned and nothing is on disk *)
Theorem root_unauthentic_nothing : forall me a d,
  unmarshal_ok (tree0 (rd_root d) (rd_derived d)) (rd_root d) = false -> model_rootdel me a d = Some ro_none.
Proof.
  intros me a d H. unfold model_rootdel.
  destruct ((rd_path d =? 3) && negb (had_read a me)); [reflexivity|].
  rewrite (build_unauthentic_refused a _ _ H), H, andb_false_r. reflexivity.
Qed.

(* in the term algebra: ANY alteration of an honest (non-derived) root -- payload, signature, surrounding bytes, id --
   that keeps the original signature or the original id fails Unmarshall(verify) ... *)
Lemma root_mutation_unmarshal : forall num p d',
  let d := honest num p in
  (dl_id d' <> dl_id d \/ dl_wire d' <> dl_wire d) ->
  (wr_sig (dl_wire d') = wr_sig (dl_wire d) \/ dl_id d' = dl_id d) ->
  unmarshal_ok (tree0 (to_raw d') false) (to_raw d') = false.
Proof.
  intros num p d' d Hdiff Hkeep. apply not_true_iff_false. intros HU.
  assert (Hnr : is_derived_root (tree0 (to_raw d') false) (dl_num d') = false) by reflexivity.
  pose proof (sym_unmarshal_honest _ d' Hnr HU) as Hh.
  destruct d' as [i' n' [p' s' pad']]. unfold honest in Hh. cbn in *. inversion Hh; subst; clear Hh.
  destruct Hkeep as [Hk|Hk].
  - inversion Hk; subst. destruct Hdiff as [Hd|Hd]; apply Hd; reflexivity.
  - inversion Hk; subst. destruct Hdiff as [Hd|Hd]; apply Hd; reflexivity.
Qed.

(* ... hence is refused by the tree builder, and on every construction path nothing is attached and nothing stored *)
Theorem root_mutation_rejected : forall me a num p d' path n cs heads keyed o1 o2 o3 o4 o5 o6,
  let d := honest num p in
  (dl_id d' <> dl_id d \/ dl_wire d' <> dl_wire d) ->
  (wr_sig (dl_wire d') = wr_sig (dl_wire d) \/ dl_id d' = dl_id d) ->
  build a (to_raw d') false = None /\
  model_rootdel me a (mkRD path n (to_raw d') false cs heads keyed o1 o2 o3 o4 o5 o6) = Some ro_none.
Proof.
  intros me a num p d' path n cs heads keyed o1 o2 o3 o4 o5 o6 d Hdiff Hkeep.
  pose proof (root_mutation_unmarshal num p d' Hdiff Hkeep) as HU. split.
  - apply build_unauthentic_refused. exact HU.
  - apply root_unauthentic_nothing. exact HU.
Qed.
