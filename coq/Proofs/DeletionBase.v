(* C15: basic facts about the helpers of Model/Deletion.v and the view lemmas of [upd]. *)
From Coq Require Import List NArith Bool Lia.
Import ListNotations.
From AnySync Require Import Model.Deletion.
Open Scope N_scope.

(* ------------------------------------------------------------------ sets as lists *)
Lemma memb_In : forall x l, memb x l = true <-> In x l.
Proof.
  induction l as [|y r IH]; cbn [memb In].
  - split; [discriminate | tauto].
  - rewrite orb_true_iff, IH, N.eqb_eq. split; intros [H|H]; auto.
Qed.

Lemma memb_app : forall x a b, memb x (a ++ b) = memb x a || memb x b.
Proof. induction a as [|y r IH]; intros b; cbn [memb app]; [reflexivity|]. rewrite IH, orb_assoc. reflexivity. Qed.

Lemma memb_sadd : forall x y l, memb x (sadd y l) = (x =? y) || memb x l.
Proof.
  intros x y l. unfold sadd. destruct (memb y l) eqn:E.
  - destruct (N.eqb_spec x y) as [->|Hn]; cbn [orb]; [now rewrite E | reflexivity].
  - rewrite memb_app. cbn [memb]. rewrite orb_false_r, orb_comm. reflexivity.
Qed.

Lemma memb_srem : forall x y l, memb x (srem y l) = negb (x =? y) && memb x l.
Proof.
  intros x y l. unfold srem. induction l as [|z r IH]; cbn [filter memb].
  - now rewrite andb_false_r.
  - destruct (N.eqb_spec z y) as [->|Hn]; cbn [negb].
    + rewrite IH. destruct (N.eqb_spec x y); cbn [negb andb orb]; reflexivity.
    + cbn [memb]. rewrite IH. destruct (N.eqb_spec x z) as [->|Hxz]; cbn [orb].
      * destruct (N.eqb_spec z y); [contradiction|reflexivity].
      * reflexivity.
Qed.

Lemma nlist_eqb_eq : forall a b, nlist_eqb a b = true <-> a = b.
Proof.
  induction a as [|x r IH]; destruct b as [|y q]; cbn [nlist_eqb].
  - split; reflexivity.
  - split; discriminate.
  - split; discriminate.
  - rewrite andb_true_iff, N.eqb_eq, IH. split; [intros [-> ->]; reflexivity | intros H; inversion H; auto].
Qed.

Lemma entry_eqb_eq : forall a b, entry_eqb a b = true -> a = b.
Proof.
  intros [a1 a2 a3 a4 a5 a6] [b1 b2 b3 b4 b5 b6]. unfold entry_eqb. cbn [e_id e_status e_parent e_derived e_heads e_cs].
  rewrite !andb_true_iff, !N.eqb_eq, nlist_eqb_eq. intros [[[[[-> ->] ->] ->] ->] H].
  apply Bool.eqb_prop in H. now subst.
Qed.

Lemma entry_eqb_refl : forall a, entry_eqb a a = true.
Proof.
  intros [a1 a2 a3 a4 a5 a6]. unfold entry_eqb. cbn [e_id e_status e_parent e_derived e_heads e_cs].
  rewrite !N.eqb_refl, Bool.eqb_reflx. cbn [andb]. rewrite andb_true_r. now apply nlist_eqb_eq.
Qed.

(* ------------------------------------------------------------------ assoc lists *)
Lemma find_e_id : forall i l e, find_e i l = Some e -> e_id e = i.
Proof.
  induction l as [|x r IH]; cbn [find_e]; intros e H; [discriminate|].
  destruct (N.eqb_spec (e_id x) i); [now inversion H; subst | auto].
Qed.

Lemma find_e_In : forall i l e, find_e i l = Some e -> In e l.
Proof.
  induction l as [|x r IH]; cbn [find_e]; intros e H; [discriminate|].
  destruct (N.eqb_spec (e_id x) i); [inversion H; now left | right; auto].
Qed.

Lemma find_put_e : forall j e l, find_e j (put_e e l) = if e_id e =? j then Some e else find_e j l.
Proof.
  induction l as [|x r IH]; cbn [put_e find_e]; [reflexivity|].
  destruct (N.eqb_spec (e_id x) (e_id e)) as [E|E]; cbn [find_e].
  - destruct (N.eqb_spec (e_id e) j) as [E2|E2]; [reflexivity|].
    destruct (N.eqb_spec (e_id x) j); [congruence | reflexivity].
  - destruct (N.eqb_spec (e_id x) j) as [E2|E2].
    + destruct (N.eqb_spec (e_id e) j); [congruence | reflexivity].
    + exact IH.
Qed.

Lemma ids_put_e : forall e l,
  map e_id (put_e e l) = map e_id l \/ (map e_id (put_e e l) = map e_id l ++ [e_id e] /\ ~ In (e_id e) (map e_id l)).
Proof.
  induction l as [|x r IH]; cbn [put_e map app].
  - right. split; [reflexivity | intros []].
  - destruct (N.eqb_spec (e_id x) (e_id e)) as [E|E]; cbn [map].
    + left. now rewrite E.
    + destruct IH as [IH|[IH Hn]]; [left | right]; rewrite IH; [reflexivity|].
      split; [reflexivity|]. cbn [In]. intros [H|H]; auto.
Qed.

Lemma nodup_put_e : forall e l, NoDup (map e_id l) -> NoDup (map e_id (put_e e l)).
Proof.
  intros e l H. destruct (ids_put_e e l) as [E|[E Hn]]; rewrite E; [exact H|].
  clear E. induction (map e_id l) as [|y r IH]; cbn [app].
  - constructor; [intros []|constructor].
  - inversion H as [|? ? Hy Hr]; subst. constructor.
    + rewrite in_app_iff. cbn [In]. intros [H1|[H1|[]]]; [auto|]. apply Hn. now left.
    + apply IH; [exact Hr|]. intros H1. apply Hn. now right.
Qed.

Lemma in_put_e : forall x e l, In x (put_e e l) -> x = e \/ In x l.
Proof.
  induction l as [|y r IH]; cbn [put_e In]; [intros [H|[]]; auto|].
  destruct (e_id y =? e_id e); cbn [In]; intros [H|H]; auto. destruct (IH H); auto.
Qed.

Lemma find_e_nodup_In : forall l e, NoDup (map e_id l) -> In e l -> find_e (e_id e) l = Some e.
Proof.
  induction l as [|x r IH]; cbn [map In find_e]; intros e Hn Hi; [contradiction|].
  inversion Hn as [|? ? Hx Hr]; subst. destruct Hi as [->|Hi]; [now rewrite N.eqb_refl|].
  destruct (N.eqb_spec (e_id x) (e_id e)) as [E|E]; [|auto].
  exfalso. apply Hx. rewrite E. now apply in_map.
Qed.

Lemma find_put_c : forall j i v l, find_c j (put_c i v l) = if i =? j then Some v else find_c j l.
Proof.
  induction l as [|x r IH]; cbn [put_c find_c fst snd]; [reflexivity|].
  destruct (N.eqb_spec (fst x) i) as [E|E]; cbn [find_c fst snd].
  - destruct (N.eqb_spec i j) as [E2|E2]; [reflexivity|].
    destruct (N.eqb_spec (fst x) j); [congruence | reflexivity].
  - destruct (N.eqb_spec (fst x) j) as [E2|E2].
    + destruct (N.eqb_spec i j); [congruence | reflexivity].
    + exact IH.
Qed.

Lemma find_del_c : forall j i l, find_c j (del_c i l) = if i =? j then None else find_c j l.
Proof.
  unfold del_c. induction l as [|x r IH]; cbn [filter find_c].
  - now destruct (i =? j).
  - destruct (N.eqb_spec (fst x) i) as [E|E]; cbn [negb find_c].
    + rewrite IH. destruct (N.eqb_spec i j) as [E2|E2]; [reflexivity|].
      destruct (N.eqb_spec (fst x) j); [congruence|reflexivity].
    + destruct (N.eqb_spec (fst x) j) as [E2|E2]; [|exact IH].
      destruct (N.eqb_spec i j); [congruence|reflexivity].
Qed.

(* ------------------------------------------------------------------ apply_update / notify only touch idx, hist *)
Lemma apply_update_cases : forall e s,
  apply_update e s = with_idx (srem (e_id e) (idx s)) s /\ e_status e <> 0
  \/ apply_update e s = s /\ e_status e = 0
  \/ apply_update e s = with_idx (sadd (e_id e) (idx s)) s /\ e_status e = 0 /\ mem (e_id e) s = false /\ e_heads e <> [e_id e].
Proof.
  intros e s. unfold apply_update. destruct (N.eqb_spec (e_status e) 0) as [E|E]; cbn [negb].
  - destruct (mem (e_id e) s) eqn:M; [right; left; auto|].
    destruct (nlist_eqb (e_heads e) [e_id e]) eqn:H; [right; left; auto|].
    right; right. repeat split; auto. intros C. apply nlist_eqb_eq in C. congruence.
  - left; auto.
Qed.

Ltac au_fields e s :=
  destruct (apply_update_cases e s) as [[-> _]|[[-> _]|[-> _]]]; reflexivity.

Lemma au_ents : forall e s, ents (apply_update e s) = ents s. Proof. intros; au_fields e s. Qed.
Lemma au_chg : forall e s, chg (apply_update e s) = chg s. Proof. intros; au_fields e s. Qed.
Lemma au_mq : forall e s, mq (apply_update e s) = mq s. Proof. intros; au_fields e s. Qed.
Lemma au_md : forall e s, md (apply_update e s) = md s. Proof. intros; au_fields e s. Qed.
Lemma au_hist : forall e s, hist (apply_update e s) = hist s. Proof. intros; au_fields e s. Qed.
Lemma au_slog : forall e s, slog (apply_update e s) = slog s. Proof. intros; au_fields e s. Qed.
Lemma au_sset : forall e s, sset (apply_update e s) = sset s. Proof. intros; au_fields e s. Qed.

Lemma au_idx_in : forall e s j, memb j (idx (apply_update e s)) = true ->
  memb j (idx s) = true \/ (j = e_id e /\ e_status e = 0 /\ mem (e_id e) s = false /\ e_heads e <> [e_id e]).
Proof.
  intros e s j. destruct (apply_update_cases e s) as [[-> _]|[[-> _]|[-> H]]]; cbn [idx with_idx]; auto.
  - rewrite memb_srem, andb_true_iff. tauto.
  - rewrite memb_sadd, orb_true_iff, N.eqb_eq. intros [->|H1]; auto.
Qed.

Lemma au_idx_out : forall e s, e_status e <> 0 -> memb (e_id e) (idx (apply_update e s)) = false.
Proof.
  intros e s H. destruct (apply_update_cases e s) as [[-> _]|[[_ E]|[_ [E _]]]]; try contradiction.
  cbn [idx with_idx]. now rewrite memb_srem, N.eqb_refl.
Qed.

(* ------------------------------------------------------------------ views *)
Lemma get_id : forall i s, e_id (get i s) = i.
Proof. intros i s. unfold get. destruct (find_e i (ents s)) eqn:E; [eapply find_e_id; eauto | reflexivity]. Qed.

Lemma status_no_entry : forall i s, has_entry i s = false -> status i s = 0.
Proof. intros i s. unfold has_entry, status, get. destruct (find_e i (ents s)); [discriminate|reflexivity]. Qed.

Section Upd.
  Variables (i : N) (f : entry -> entry) (s : state).
  Hypothesis Hid : e_id (f (get i s)) = i.
  Let new := f (get i s).

  Lemma upd_cases :
    (upd i f s = s /\ new = get i s)
    \/ (upd i f s = apply_update new (with_hist (hist s ++ [new]) (with_ents (put_e new (ents s)) s)) /\ new <> get i s).
  Proof.
    unfold upd. fold new. destruct (entry_eqb (get i s) new) eqn:E.
    - left. split; [reflexivity|]. symmetry. now apply entry_eqb_eq.
    - right. split; [reflexivity|]. intros C. rewrite C, entry_eqb_refl in E. discriminate.
  Qed.

  Lemma upd_ents : ents (upd i f s) = ents s /\ new = get i s \/ ents (upd i f s) = put_e new (ents s) /\ new <> get i s.
  Proof. destruct upd_cases as [[-> H]|[-> H]]; [left; auto | right]. rewrite au_ents. auto. Qed.

  Lemma upd_get : forall j, get j (upd i f s) = if j =? i then new else get j s.
  Proof.
    intros j. destruct upd_ents as [[E H]|[E H]]; unfold get; rewrite E.
    - destruct (N.eqb_spec j i) as [->|]; [|reflexivity]. fold (get i s). now rewrite <- H.
    - rewrite find_put_e. fold new in Hid. rewrite Hid. rewrite N.eqb_sym.
      destruct (N.eqb_spec j i) as [->|]; reflexivity.
  Qed.

  Lemma upd_status : forall j, status j (upd i f s) = if j =? i then e_status new else status j s.
  Proof. intros j. unfold status. rewrite upd_get. now destruct (j =? i). Qed.

  Lemma upd_has_entry : forall j, has_entry j (upd i f s) = true <-> has_entry j s = true \/ (j = i /\ new <> get i s).
  Proof.
    intros j. destruct upd_ents as [[E H]|[E H]]; unfold has_entry; rewrite E.
    - split; [auto | intros [H1|[_ H1]]; [auto | contradiction]].
    - rewrite find_put_e. fold new in Hid. rewrite Hid.
      destruct (N.eqb_spec i j) as [->|Hn].
      + split; auto.
      + split; [auto | intros [H1|[H1 _]]; [auto | congruence]].
  Qed.

  Lemma upd_chg : chg (upd i f s) = chg s.
  Proof. destruct upd_cases as [[-> _]|[-> _]]; [reflexivity | now rewrite au_chg]. Qed.
  Lemma upd_mq : mq (upd i f s) = mq s.
  Proof. destruct upd_cases as [[-> _]|[-> _]]; [reflexivity | now rewrite au_mq]. Qed.
  Lemma upd_md : md (upd i f s) = md s.
  Proof. destruct upd_cases as [[-> _]|[-> _]]; [reflexivity | now rewrite au_md]. Qed.
  Lemma upd_slog : slog (upd i f s) = slog s.
  Proof. destruct upd_cases as [[-> _]|[-> _]]; [reflexivity | now rewrite au_slog]. Qed.
  Lemma upd_sset : sset (upd i f s) = sset s.
  Proof. destruct upd_cases as [[-> _]|[-> _]]; [reflexivity | now rewrite au_sset]. Qed.
  Lemma upd_mem : forall j, mem j (upd i f s) = mem j s.
  Proof. intros j. unfold mem. now rewrite upd_mq, upd_md. Qed.
  Lemma upd_has_chg : forall j, has_chg j (upd i f s) = has_chg j s.
  Proof. intros j. unfold has_chg. now rewrite upd_chg. Qed.

  Lemma upd_nodup : NoDup (map e_id (ents s)) -> NoDup (map e_id (ents (upd i f s))).
  Proof. intros H. destruct upd_ents as [[-> _]|[-> _]]; [exact H | now apply nodup_put_e]. Qed.

  Lemma upd_idx_in : forall j, memb j (idx (upd i f s)) = true ->
    memb j (idx s) = true \/ (j = i /\ e_status new = 0 /\ mem i s = false /\ e_heads new <> [i]).
  Proof.
    intros j. destruct upd_cases as [[-> _]|[-> _]]; [auto|]. intros H. apply au_idx_in in H.
    fold new in Hid. rewrite Hid in H. exact H.
  Qed.

  Lemma upd_idx_out : e_status new <> 0 -> new <> get i s -> memb i (idx (upd i f s)) = false.
  Proof.
    intros H1 H2. destruct upd_cases as [[_ H]|[-> _]]; [contradiction|].
    fold new in Hid. rewrite <- Hid at 1. now apply au_idx_out.
  Qed.

  Lemma upd_hist_in : forall e, In e (hist (upd i f s)) -> In e (hist s) \/ (e = new /\ new <> get i s).
  Proof.
    intros e. destruct upd_cases as [[-> _]|[-> H]]; [auto|]. rewrite au_hist. cbn [hist with_hist].
    rewrite in_app_iff. cbn [In]. intros [H1|[H1|[]]]; auto.
  Qed.

  Lemma upd_hist_keep : forall e, In e (hist s) -> In e (hist (upd i f s)).
  Proof.
    intros e H. destruct upd_cases as [[-> _]|[-> _]]; [auto|]. rewrite au_hist. cbn [hist with_hist].
    rewrite in_app_iff. now left.
  Qed.
End Upd.
