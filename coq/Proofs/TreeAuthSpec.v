(* Proofs/TreeAuthSpec.v — C02: the model satisfies the executable specification.
     scenario_wf sc = true -> spec_C02 (model_scenario sc) = true
   Ingredients: what the iteration from the root sees (the set reachable through the Next lists, with the fuel of
   [iter_fuel] always sufficient), a stronger tree invariant [wf2], the one-call lemmas of Proofs/TreeAuth.v, and
   closest_sound of Proofs/TreeAuthAcl.v; then the list bookkeeping of [spec_dels]. *)
From Coq Require Import List NArith Bool Arith Lia.
Import ListNotations.
From AnySync Require Import Model.TreeAuth Proofs.AclBase Proofs.TreeAuth Proofs.TreeAuthAcl Proofs.TreeAuthMain.
From AnySync Require Model.Dfs Proofs.DfsBase.
Open Scope N_scope.

(* ------------------------------------------------------------------------------------------ what the DFS presents *)
Section Reach.
  Variable nx : N -> list N.
  Variable root : N.

  Inductive reach : N -> Prop :=
  | reach_root : reach root
  | reach_step : forall u y, reach u -> In y (nx u) -> reach y.

  Record dinv (s : Dfs.dstate) : Prop := mkDinv {
    di_sound : forall x, In x (Dfs.d_stack s) \/ In x (Dfs.d_vis s) \/ In x (Dfs.d_res s) -> reach x;
    di_closed : forall u y, In u (Dfs.d_vis s) -> In y (nx u) -> In y (Dfs.d_vis s) \/ In y (Dfs.d_stack s);
    di_root : In root (Dfs.d_vis s) \/ In root (Dfs.d_stack s);
    di_done : forall x, In x (Dfs.d_vis s) -> In x (Dfs.d_bf s) \/ In x (Dfs.d_res s);
    di_bf_stack : forall x, In x (Dfs.d_bf s) -> In x (Dfs.d_stack s);
    di_bf_vis : forall x, In x (Dfs.d_bf s) -> In x (Dfs.d_vis s)
  }.

  Lemma dinv_init : dinv (Dfs.dfs_init root).
  Proof.
    constructor; cbn.
    - intros x [[<-|[]]|[[]|[]]]. apply reach_root.
    - intros u y [].
    - right. left. reflexivity.
    - intros x [].
    - intros x [].
    - intros x [].
  Qed.

  Lemma dinv_step : forall s, dinv s -> dinv (Dfs.dfs_step nx s).
  Proof.
    intros s [Hs Hc Hr Hd Hbs Hbv]. unfold Dfs.dfs_step.
    destruct (Dfs.d_stack s) as [|ch st] eqn:ES; [constructor; rewrite ?ES; assumption|].
    assert (Hch : reach ch) by (apply Hs; left; left; reflexivity).
    destruct (Dag.mem ch (Dfs.d_bf s)) eqn:EB.
    - apply DfsBase.mem_In in EB. pose proof (Hbv ch EB) as Hv.
      constructor; cbn [Dfs.d_stack Dfs.d_vis Dfs.d_bf Dfs.d_res].
      + intros x [Hx|[Hx|[<-|Hx]]]; auto. apply Hs. left. right. exact Hx.
      + intros u y Hu Hy. destruct (Hc u y Hu Hy) as [H|[<-|H]]; auto.
      + destruct Hr as [H|[<-|H]]; auto.
      + intros x Hx. destruct (N.eq_dec x ch) as [->|Hne]; [right; left; reflexivity|].
        destruct (Hd x Hx) as [H|H]; [left | right; right; exact H].
        apply filter_In. split; [exact H|]. apply negb_true_iff. apply N.eqb_neq. exact Hne.
      + intros x Hx. apply filter_In in Hx. destruct Hx as [Hx Hne].
        apply negb_true_iff in Hne. apply N.eqb_neq in Hne.
        destruct (Hbs x Hx) as [<-|H]; [congruence | exact H].
      + intros x Hx. apply filter_In in Hx. apply Hbv. tauto.
    - apply DfsBase.mem_false_In in EB.
      destruct (Dag.mem ch (Dfs.d_vis s)) eqn:EV.
      + apply DfsBase.mem_In in EV.
        constructor; cbn [Dfs.d_stack Dfs.d_vis Dfs.d_bf Dfs.d_res].
        * intros x [Hx|Hx]; apply Hs; [left; right; exact Hx | right; exact Hx].
        * intros u y Hu Hy. destruct (Hc u y Hu Hy) as [H|[<-|H]]; auto.
        * destruct Hr as [H|[<-|H]]; auto.
        * exact Hd.
        * intros x Hx. destruct (Hbs x Hx) as [<-|H]; [contradiction | exact H].
        * exact Hbv.
      + apply DfsBase.mem_false_In in EV.
        constructor; cbn [Dfs.d_stack Dfs.d_vis Dfs.d_bf Dfs.d_res].
        * intros x [Hx|[[<-|Hx]|Hx]]; auto.
          -- apply in_app_or in Hx. destruct Hx as [Hx|[<-|Hx]]; auto.
             ++ apply in_rev in Hx. apply filter_In in Hx. destruct Hx as [Hx _]. eapply reach_step; eauto.
             ++ apply Hs. left. right. exact Hx.
        * intros u y [<-|Hu] Hy.
          -- destruct (Dag.mem y (ch :: Dfs.d_vis s)) eqn:EM.
             ++ apply DfsBase.mem_In in EM. left. exact EM.
             ++ right. apply in_or_app. left. apply in_rev. rewrite rev_involutive.
                apply filter_In. split; [exact Hy | rewrite EM; reflexivity].
          -- destruct (Hc u y Hu Hy) as [H|H]; [left; right; exact H|].
             right. apply in_or_app. right. exact H.
        * destruct Hr as [H|H]; [left; right; exact H|]. right. apply in_or_app. right. exact H.
        * intros x [<-|Hx]; [left; left; reflexivity|].
          destruct (Hd x Hx) as [H|H]; [left; right; exact H | right; exact H].
        * intros x [<-|Hx]; apply in_or_app; right; [left; reflexivity|].
          destruct (Hbs x Hx) as [<-|H]; [left; reflexivity | right; exact H].
        * intros x [<-|Hx]; [left; reflexivity | right; apply Hbv; exact Hx].
  Qed.

  Lemma dfs_loop_reach : forall fuel s l, dinv s -> Dfs.dfs_loop nx fuel s = Some l -> forall x, In x l <-> reach x.
  Proof.
    assert (Fin : forall s, dinv s -> Dfs.d_stack s = [] -> forall x, In x (Dfs.d_res s) <-> reach x).
    { intros s [Hs Hc Hr Hd Hbs Hbv] E x. rewrite E in *. split.
      - intros Hx. apply Hs. right. right. exact Hx.
      - intros Hx. assert (Hv : In x (Dfs.d_vis s)).
        { induction Hx as [|u y _ IH Hy].
          - destruct Hr as [H|[]]; exact H.
          - destruct (Hc u y IH Hy) as [H|[]]; exact H. }
        destruct (Hd x Hv) as [H|H]; [destruct (Hbs x H) | exact H]. }
    induction fuel as [|f IH]; intros s l HI H; cbn [Dfs.dfs_loop] in H.
    - destruct (Dfs.d_stack s) eqn:E; [|discriminate]. inversion H; subst. apply Fin; assumption.
    - destruct (Dfs.d_stack s) eqn:E.
      + inversion H; subst. apply Fin; assumption.
      + eapply IH; [apply dinv_step; exact HI | exact H].
  Qed.
End Reach.

Lemma reach_mono : forall (nx nx' : N -> list N) root,
  (forall k x, In x (nx k) -> In x (nx' k)) -> forall x, reach nx root x -> reach nx' root x.
Proof.
  intros nx nx' root H x Hx. induction Hx as [|u y _ IH Hy]; [apply reach_root|].
  eapply reach_step; [exact IH | apply H; exact Hy].
Qed.

(* ------------------------------------------------------------------------------------------ small list facts *)
Lemma NoDup_app_intro : forall (A : Type) (l1 l2 : list A),
  NoDup l1 -> NoDup l2 -> (forall x, In x l1 -> ~ In x l2) -> NoDup (l1 ++ l2).
Proof.
  intros A l1 l2 H1 H2 Hd. induction H1 as [|x l1 Hx H1 IH]; cbn; [exact H2|].
  constructor.
  - intros Hin. apply in_app_or in Hin. destruct Hin as [Hin|Hin]; [contradiction|].
    apply (Hd x); [left; reflexivity | exact Hin].
  - apply IH. intros y Hy. apply Hd. right. exact Hy.
Qed.

Lemma NoDup_map_inj : forall (A B : Type) (f : A -> B) (l : list A) a b,
  NoDup (map f l) -> In a l -> In b l -> f a = f b -> a = b.
Proof.
  intros A B f l a b. induction l as [|x l IH]; cbn; intros ND Ha Hb E; [contradiction|].
  inversion ND as [|y l' Hx ND']; subst.
  destruct Ha as [->|Ha]; destruct Hb as [->|Hb]; auto.
  - exfalso. apply Hx. rewrite E. apply in_map. exact Hb.
  - exfalso. apply Hx. rewrite <- E. apply in_map. exact Ha.
Qed.

Lemma NoDup_map_filter_gen : forall (A B : Type) (f : A -> B) (P : A -> bool) (l : list A),
  NoDup (map f l) -> NoDup (map f (filter P l)).
Proof.
  intros A B f P l. induction l as [|x l IH]; cbn; intros ND; [constructor|].
  inversion ND as [|y l' Hx ND']; subst. destruct (P x); cbn; [|auto].
  constructor; [|auto]. intros Hin. apply Hx. apply in_map_iff in Hin. destruct Hin as [z [Hz Hin]].
  apply filter_In in Hin. apply in_map_iff. exists z. tauto.
Qed.

Lemma find_rc_app : forall A B i,
  find_rc (A ++ B) i = match find_rc A i with Some c => Some c | None => find_rc B i end.
Proof.
  induction A as [|x A IH]; cbn; intros B i; [reflexivity|].
  destruct (rc_id x =? i); [reflexivity | apply IH].
Qed.

Lemma find_rc_None : forall S i, find_rc S i = None <-> (forall c, In c S -> rc_id c <> i).
Proof.
  intros S i. split.
  - intros H. apply has_rc_false. unfold has_rc. rewrite H. reflexivity.
  - intros H. destruct (find_rc S i) as [c|] eqn:E; [|reflexivity].
    apply find_rc_In in E. destruct E as [Hc Hi]. exfalso. apply (H c Hc Hi).
Qed.

Lemma find_rc_NoDup_In : forall S c, NoDup (rc_ids S) -> In c S -> find_rc S (rc_id c) = Some c.
Proof.
  intros S c ND Hc. destruct (find_rc S (rc_id c)) as [c'|] eqn:E.
  - apply find_rc_In in E. destruct E as [Hc' Hi]. f_equal.
    apply (NoDup_map_inj _ _ rc_id S c' c ND Hc' Hc Hi).
  - rewrite find_rc_None in E. exfalso. apply (E c Hc). reflexivity.
Qed.

Lemma find_rc_rev : forall S i, NoDup (rc_ids S) -> find_rc (rev S) i = find_rc S i.
Proof.
  intros S i ND. destruct (find_rc S i) as [c|] eqn:E.
  - apply find_rc_In in E. destruct E as [Hc <-]. apply find_rc_NoDup_In.
    + unfold rc_ids. rewrite map_rev. apply NoDup_rev. exact ND.
    + apply in_rev. rewrite rev_involutive. exact Hc.
  - rewrite find_rc_None in *. intros c Hc. apply E. apply in_rev. exact Hc.
Qed.

Lemma find_rc_filter_id : forall (Q : N -> bool) S i,
  find_rc (filter (fun c => Q (rc_id c)) S) i = if Q i then find_rc S i else None.
Proof.
  intros Q S i. induction S as [|x S IH]; cbn; [destruct (Q i); reflexivity|].
  destruct (Q (rc_id x)) eqn:EQ; cbn.
  - destruct (rc_id x =? i) eqn:E; [apply N.eqb_eq in E; rewrite <- E, EQ; reflexivity | exact IH].
  - destruct (rc_id x =? i) eqn:E; [apply N.eqb_eq in E; rewrite <- E, EQ in *; exact IH | exact IH].
Qed.

(* dedup keeps the first copy of every id *)
Lemma dedup_first : forall cs seen c, In c (dedup seen cs) -> ~ In (rc_id c) seen /\ find_rc cs (rc_id c) = Some c.
Proof.
  induction cs as [|x cs IH]; cbn; intros seen c H; [contradiction|].
  destruct (memN (rc_id x) seen) eqn:EM.
  - destruct (IH _ _ H) as [Hn Hf]. split; [exact Hn|].
    destruct (rc_id x =? rc_id c) eqn:E; [|exact Hf].
    apply N.eqb_eq in E. apply memN_In in EM. rewrite E in EM. contradiction.
  - destruct H as [->|H].
    + split; [apply memN_false; exact EM | rewrite N.eqb_refl; reflexivity].
    + destruct (IH _ _ H) as [Hn Hf]. split; [intros Hin; apply Hn; right; exact Hin|].
      destruct (rc_id x =? rc_id c) eqn:E; [|exact Hf].
      apply N.eqb_eq in E. exfalso. apply Hn. left. exact E.
Qed.

Lemma dedup_NoDup : forall cs seen, NoDup (rc_ids (dedup seen cs)).
Proof.
  induction cs as [|x cs IH]; cbn; intros seen; [constructor|].
  destruct (memN (rc_id x) seen); [apply IH|]. cbn. constructor; [|apply IH].
  intros Hin. apply in_map_iff in Hin. destruct Hin as [c [Hid Hc]].
  apply dedup_first in Hc. destruct Hc as [Hn _]. apply Hn. left. symmetry. exact Hid.
Qed.

Lemma settle_NoDup : forall fuel att pend, NoDup (rc_ids pend) -> NoDup (rc_ids (settle fuel att pend)).
Proof.
  induction fuel as [|f IH]; intros att pend ND; [constructor|].
  cbn [settle]. destruct (filter (attachable att) pend) as [|r0 l0] eqn:E; [constructor|].
  rewrite <- E. unfold rc_ids. rewrite map_app. apply NoDup_app_intro.
  - apply NoDup_map_filter_gen. exact ND.
  - apply IH. apply NoDup_map_filter_gen. exact ND.
  - intros x H1 H2. apply in_map_iff in H1. destruct H1 as [c1 [<- H1]].
    apply in_map_iff in H2. destruct H2 as [c2 [Hid H2]].
    apply settle_subset in H2. apply filter_In in H1. apply filter_In in H2.
    destruct H1 as [H1 P1]. destruct H2 as [H2 P2].
    pose proof (NoDup_map_inj _ _ rc_id pend c2 c1 ND H2 H1 Hid) as ->.
    rewrite P1 in P2. discriminate.
Qed.

Lemma sum_prevs_app : forall A B, sum_prevs (A ++ B) = (sum_prevs A + sum_prevs B)%nat.
Proof.
  unfold sum_prevs. induction A as [|x A IH]; intros B; cbn [app fold_right]; [reflexivity|]. rewrite IH. lia.
Qed.

Lemma sum_prevs_rev : forall A, sum_prevs (rev A) = sum_prevs A.
Proof.
  induction A as [|x A IH]; [reflexivity|]. cbn [rev]. rewrite sum_prevs_app, IH.
  unfold sum_prevs. cbn [fold_right]. lia.
Qed.

Lemma list_bool_eqb_refl : forall l, list_bool_eqb l l = true.
Proof. unfold list_bool_eqb. induction l as [|x l IH]; cbn; [reflexivity|]. rewrite IH. destruct x; reflexivity. Qed.

Lemma sameset_refl : forall l, sameset l l = true.
Proof. intros l. unfold sameset. apply list_N_eqb_refl. Qed.

Lemma subset_N_In : forall a b, subset_N a b = true <-> (forall x, In x a -> In x b).
Proof.
  intros a b. unfold subset_N. rewrite forallb_forall. split; intros H x Hx.
  - apply memN_In. apply H. exact Hx.
  - apply memN_In. apply H. exact Hx.
Qed.

(* ------------------------------------------------------------------------------------------ Next lists, again *)
Lemma length_insert_sorted : forall x l, length (insert_sorted x l) = S (length l).
Proof. intros x l. induction l as [|y l IH]; cbn; [reflexivity|]. destruct (x <=? y); cbn; [reflexivity | rewrite IH; reflexivity]. Qed.

Lemma link_cases : forall c nx k, nlookup (link nx c) k = nlookup nx k \/ In k (rc_prev c).
Proof.
  intros c nx k. unfold link. generalize (rc_prev c) as ps. intros ps. revert nx.
  induction ps as [|p ps IH]; cbn; intros nx; [left; reflexivity|].
  destruct (IH (nupdate nx p (ins_sorted (rc_id c)))) as [H|H]; [|right; right; exact H].
  rewrite H, nlookup_nupdate. destruct (p =? k) eqn:E; [|left; reflexivity].
  apply N.eqb_eq in E. right. left. exact E.
Qed.

Lemma link_all_cases : forall cs nx k,
  nlookup (link_all nx cs) k = nlookup nx k \/ exists c, In c cs /\ In k (rc_prev c).
Proof.
  unfold link_all. induction cs as [|c cs IH]; cbn; intros nx k; [left; reflexivity|].
  destruct (IH (link nx c) k) as [H|[c' [H1 H2]]]; [|right; exists c'; auto].
  rewrite H. destruct (link_cases c nx k) as [H'|H']; [left; exact H' | right; exists c; auto].
Qed.

Lemma link_length : forall c nx k, (length (nlookup (link nx c) k) <= length (nlookup nx k) + length (rc_prev c))%nat.
Proof.
  intros c nx k. unfold link. generalize (rc_prev c) as ps. intros ps. revert nx.
  induction ps as [|p ps IH]; cbn [fold_left length]; intros nx; [lia|].
  specialize (IH (nupdate nx p (ins_sorted (rc_id c)))). rewrite nlookup_nupdate in IH.
  destruct (p =? k); [|lia]. change (ins_sorted (rc_id c) (nlookup nx k)) with (insert_sorted (rc_id c) (nlookup nx k)) in IH.
  rewrite length_insert_sorted in IH. lia.
Qed.

Lemma link_all_length : forall cs nx k,
  (length (nlookup (link_all nx cs) k) <= length (nlookup nx k) + sum_prevs cs)%nat.
Proof.
  unfold link_all. induction cs as [|c cs IH]; intros nx k; cbn [fold_left]; [lia|].
  change (sum_prevs (c :: cs)) with (length (rc_prev c) + sum_prevs cs)%nat.
  specialize (IH (link nx c) k). pose proof (link_length c nx k). lia.
Qed.

Lemma link_mono : forall c nx k x, In x (nlookup nx k) -> In x (nlookup (link nx c) k).
Proof.
  intros c nx k x. unfold link. generalize (rc_prev c) as ps. intros ps. revert nx.
  induction ps as [|p ps IH]; cbn; intros nx H; [exact H|].
  apply IH. rewrite nlookup_nupdate. destruct (p =? k); [|exact H].
  unfold ins_sorted. apply In_insert_sorted. right. exact H.
Qed.

Lemma link_all_mono : forall cs nx k x, In x (nlookup nx k) -> In x (nlookup (link_all nx cs) k).
Proof.
  unfold link_all. induction cs as [|c cs IH]; cbn; intros nx k x H; [exact H|].
  apply IH. apply link_mono. exact H.
Qed.

(* ------------------------------------------------------------------------------------------ the stronger invariant *)
Record wf2 (t : atree) : Prop := mkWf2 {
  wf2_wf : wf t;
  wf2_keys : forall k, nlookup (at_next t) k <> [] -> has_rc (at_att t) k = true;
  wf2_len : forall k, (length (nlookup (at_next t) k) <= sum_prevs (at_att t))%nat;
  wf2_stored : at_stored t = rc_ids (at_att t)
}.

Lemma has_rc_ids : forall S i, has_rc S i = true <-> In i (rc_ids S).
Proof.
  intros S i. rewrite has_rc_true. unfold rc_ids. rewrite in_map_iff. split; intros [c H]; exists c; tauto.
Qed.

Lemma build_wf2 : forall a root derived t, build a root derived = Some t -> wf2 t.
Proof.
  intros a root derived t H. pose proof (build_wf _ _ _ _ H) as W. unfold build in H.
  destruct (_ && _ && _); [|discriminate]. inversion H; subst; clear H.
  constructor; cbn [at_att at_next at_stored nlookup]; [exact W| | |reflexivity].
  - intros k Hk. exfalso. apply Hk. reflexivity.
  - intros k. cbn. lia.
Qed.

(* the shape of every successful call, the two "nothing to do" exits included (ad = []) *)
Lemma accept_ok_shape2 : forall a t batch t' added,
  accept a t batch = (t', ROk added) ->
  let ad := added_of_call t batch in
  added = rc_ids ad /\
  forallb (unmarshal_ok t) (news_of t batch) = true /\
  forallb (validate_change a t (rev ad ++ at_att t)) ad = true /\
  at_att t' = rev ad ++ at_att t /\
  (forall k, nlookup (at_next t') k = nlookup (link_all (at_next t) ad) k) /\
  at_root t' = at_root t /\ at_derived t' = at_derived t /\
  at_stored t' = rev (rc_ids ad) ++ at_stored t.
Proof.
  intros a t batch t' added. rewrite accept_unfold. cbn zeta.
  destruct (forallb (unmarshal_ok t) (news_of t batch)) eqn:EU; cbn [negb]; [|discriminate].
  destruct (nilc (news_of t batch)) eqn:EN.
  - intros H; inversion H; subst; clear H.
    assert (E : added_of_call t' batch = []).
    { unfold added_of_call. destruct (news_of t' batch); [reflexivity | discriminate]. }
    rewrite E. cbn. repeat split; auto.
  - destruct (negb (forallb _ (news_of t batch))); [discriminate|].
    destruct (nilc (added_of_call t batch)) eqn:EA.
    + intros H; inversion H; subst; clear H.
      destruct (added_of_call t' batch); [|discriminate]. cbn. repeat split; auto.
    + destruct (forallb (validate_change a t _) (added_of_call t batch)) eqn:EV; [|discriminate].
      intros H; inversion H; subst; clear H. cbn. repeat split; auto.
Qed.

Lemma added_NoDup : forall t batch, NoDup (rc_ids (added_of_call t batch)).
Proof. intros t batch. unfold added_of_call. apply settle_NoDup. apply dedup_NoDup. Qed.

Lemma added_first_copy : forall t batch c, In c (added_of_call t batch) -> find_rc batch (rc_id c) = Some c.
Proof.
  intros t batch c H. pose proof (added_fresh _ _ _ H) as Hf.
  unfold added_of_call in H. apply settle_subset in H. apply dedup_first in H. destruct H as [_ H].
  unfold news_of in H. rewrite (find_rc_filter_id (fun i => negb (has_rc (at_att t) i))) in H.
  rewrite Hf in H. exact H.
Qed.

Lemma accept_wf2 : forall a t batch t' r, wf2 t -> accept a t batch = (t', r) -> wf2 t'.
Proof.
  intros a t batch t' r W2 H. pose proof (accept_wf _ _ _ _ _ (wf2_wf t W2) H) as W'.
  destruct r as [added|e|].
  - apply accept_ok_shape2 in H. cbn zeta in H. destruct H as (_ & _ & _ & Hatt & Hnx & _ & _ & Hst).
    set (ad := added_of_call t batch) in *.
    constructor; [exact W'| | |].
    + intros k Hk. rewrite Hnx in Hk. rewrite Hatt.
      destruct (link_all_cases ad (at_next t) k) as [E|[c [Hc Hp]]].
      * rewrite E in Hk. rewrite has_rc_app, (wf2_keys t W2 k Hk). apply orb_true_r.
      * unfold ad, added_of_call in Hc. apply settle_closed in Hc. unfold attachable in Hc.
        rewrite forallb_forall in Hc. apply Hc. exact Hp.
    + intros k. rewrite Hnx, Hatt, sum_prevs_app, sum_prevs_rev.
      pose proof (link_all_length ad (at_next t) k). pose proof (wf2_len t W2 k). lia.
    + rewrite Hst, Hatt, (wf2_stored t W2). unfold rc_ids. rewrite map_app, map_rev. reflexivity.
  - pose proof (reject_noop _ _ _ _ _ (wf2_wf t W2) H) as (Ha & Hn & _ & _ & Hst & _ & _ & _).
    constructor; [exact W'| | |].
    + intros k. rewrite Hn, Ha. apply (wf2_keys t W2).
    + intros k. rewrite Hn, Ha. apply (wf2_len t W2).
    + rewrite Hst, Ha. apply (wf2_stored t W2).
  - apply accept_unmodelled_same in H. subst. exact W2.
Qed.

(* ------------------------------------------------------------------------------------------ iteration = reachable set *)
Lemma iter_seq_reach : forall t, wf2 t ->
  forall x, In x (iter_seq t) <-> reach (nlookup (at_next t)) (at_root t) x.
Proof.
  intros t W2 x. unfold iter_seq, iter_with.
  destruct (DfsBase.dfs_loop_total (nlookup (at_next t)) (at_root t :: rc_ids (at_att t))) with
    (fuel := iter_fuel (at_att t)) (s := Dfs.dfs_init (at_root t)) as [l Hl].
  - intros u y _ Hy. right. apply has_rc_ids. apply (wf_next t (wf2_wf t W2) u y Hy).
  - intros y [<-|[]]. left. reflexivity.
  - unfold DfsBase.measure, Dfs.dfs_init. cbn [Dfs.d_stack Dfs.d_vis length].
    pose proof (DfsBase.W_bound (nlookup (at_next t)) (sum_prevs (at_att t)) (wf2_len t W2)
                  (at_root t :: rc_ids (at_att t)) []) as Hb.
    cbn [length] in Hb. unfold rc_ids in Hb. rewrite map_length in Hb. unfold iter_fuel, rc_ids. lia.
  - rewrite Hl. eapply dfs_loop_reach; [apply dinv_init | exact Hl].
Qed.

Lemma reach_attached : forall t, wf t -> forall x, reach (nlookup (at_next t)) (at_root t) x -> has_rc (at_att t) x = true.
Proof.
  intros t W x Hx. induction Hx as [|u y _ _ Hy]; [apply (wf_root t W) | apply (wf_next t W u y Hy)].
Qed.

Lemma iter_in_stored : forall t, wf2 t -> forall x, In x (iter_seq t) -> In x (at_stored t).
Proof.
  intros t W2 x Hx. rewrite (wf2_stored t W2). apply has_rc_ids.
  apply reach_attached; [apply (wf2_wf t W2) | apply iter_seq_reach; assumption].
Qed.

(* ------------------------------------------------------------------------------------------ one successful call *)
Lemma iter_mono : forall a t batch t' added, wf2 t -> accept a t batch = (t', ROk added) ->
  forall x, In x (iter_seq t) -> In x (iter_seq t').
Proof.
  intros a t batch t' added W2 H x Hx. pose proof (accept_wf2 _ _ _ _ _ W2 H) as W2'.
  apply accept_ok_shape2 in H. cbn zeta in H. destruct H as (_ & _ & _ & _ & Hnx & Hr & _ & _).
  apply iter_seq_reach; [exact W2'|]. apply iter_seq_reach in Hx; [|exact W2]. rewrite Hr.
  eapply reach_mono; [|exact Hx]. intros k y Hy. rewrite Hnx. apply link_all_mono. exact Hy.
Qed.

Lemma iter_new_added : forall a t batch t' added, wf2 t -> accept a t batch = (t', ROk added) ->
  forall x, In x (iter_seq t') -> In x (iter_seq t) \/ In x added.
Proof.
  intros a t batch t' added W2 H x Hx. pose proof (accept_wf2 _ _ _ _ _ W2 H) as W2'.
  apply accept_ok_shape2 in H. cbn zeta in H. destruct H as (Had & _ & _ & _ & Hnx & Hr & _ & _).
  apply iter_seq_reach in Hx; [|exact W2']. rewrite Hr in Hx.
  destruct (in_dec N.eq_dec x added) as [Hin|Hn]; [right; exact Hin|]. left.
  apply iter_seq_reach; [exact W2|].
  assert (G : forall y, reach (nlookup (at_next t')) (at_root t) y -> ~ In y added ->
                        reach (nlookup (at_next t)) (at_root t) y).
  { intros y Hy. induction Hy as [|u y Hu IH Hyu]; intros Hny; [apply reach_root|].
    rewrite Hnx in Hyu. apply link_all_In in Hyu. destruct Hyu as [Hyu|Hyu]; [subst added; contradiction|].
    assert (Hua : has_rc (at_att t) u = true).
    { apply (wf2_keys t W2). intros E. rewrite E in Hyu. destruct Hyu. }
    eapply reach_step; [apply IH | exact Hyu].
    intros Hin. subst added. apply in_map_iff in Hin. destruct Hin as [c [Hid Hc]].
    pose proof (added_fresh _ _ _ Hc) as Hf. rewrite Hid in Hf. congruence. }
  apply G; assumption.
Qed.

Lemma idx0_firstn : forall n ids r, In r (firstn n ids) -> idx0 (firstn n ids) r = idx0 ids r.
Proof.
  intros n ids r H. unfold idx0, idx_of. rewrite <- (firstn_skipn n ids) at 2. rewrite idx_from_app.
  destruct (idx_from (firstn n ids) r 0) eqn:E; [reflexivity|]. apply idx_from_None in E. contradiction.
Qed.

Lemma unmarshal_cid_ok : forall t c, unmarshal_ok t c = true -> rc_cid_ok c = true.
Proof.
  intros t c H. unfold unmarshal_ok in H. repeat rewrite andb_true_iff in H. tauto.
Qed.

Lemma flat_map_find : forall b ad, (forall c, In c ad -> find_rc b (rc_id c) = Some c) ->
  flat_map (fun i => match find_rc b i with Some c => [c] | None => [] end) (rc_ids ad) = ad.
Proof.
  intros b ad. induction ad as [|c ad IH]; cbn; intros H; [reflexivity|].
  rewrite (H c (or_introl eq_refl)). cbn. f_equal. apply IH. intros c' Hc'. apply H. right. exact Hc'.
Qed.

(* within one batch, two delivered elements under the same id whose bytes both hash to that id are the same bytes:
   the CID flags of a batch are consistent with a collision-free hash *)
Definition batch_consistent (b : list rawchange) : Prop :=
  forall c1 c2, In c1 b -> In c2 b -> rc_id c1 = rc_id c2 -> rc_cid_ok c1 = true -> rc_cid_ok c2 = true -> c1 = c2.

Section AclLog.
  Variables (me owner : acct) (aroot : rid) (ws : list raw) (sts : list state).
  Hypothesis HS : acl_states me owner aroot ws = Some sts.
  Hypothesis ND : NoDup (acl_ids aroot ws).

  (* what validateChange established against the receiver's view is what [auth_ok] demands against the truth *)
  Lemma sound_auth : forall n a t' known c,
    view_at (acl_ids aroot ws) sts n = Some a ->
    sound_change a t' c ->
    (forall i, find_rc known i = find_rc (at_att t') i) ->
    auth_ok (acl_ids aroot ws) sts n (at_root t') (at_derived t') known c = true.
  Proof.
    intros n a t' known c HV (Hcid & Hcan & _ & Hrest) Hk.
    assert (Hids : av_ids a = firstn n (acl_ids aroot ws)).
    { unfold view_at in HV. destruct n as [|k]; [discriminate|].
      destruct (nth_error sts k); inversion HV; reflexivity. }
    unfold auth_ok. rewrite Hcid, Hcan. cbn [andb].
    change (at_derived t' && (rc_id c =? at_root t')) with (is_derived_root t' (rc_id c)).
    destruct Hrest as [Hd|(Hsig & Hhead & (p & Hp & Hw) & Hprev)]; [rewrite Hd; reflexivity|].
    apply orb_true_iff; right. rewrite Hsig. rewrite <- Hids, Hhead. cbn [andb].
    assert (Ht : truth_at (acl_ids aroot ws) sts (rc_head c) (rc_ident c) = Some p).
    { unfold perm_at in Hp. rewrite Hhead in Hp. cbn [negb] in Hp.
      destruct (mget (rc_ident c) (accounts (av_state a))) as [x|] eqn:Ex; [|discriminate].
      inversion Hp; subst p; clear Hp.
      assert (Eacc : acc_of (av_state a) (rc_ident c) = x) by (unfold acc_of; rewrite Ex; reflexivity).
      pose proof (closest_sound me owner aroot ws sts n a HS ND HV (rc_head c) (rc_ident c) Hhead) as Hcl.
      rewrite Eacc in Hcl. destruct Hcl as [Hcl|Hcl]; [|exact Hcl].
      rewrite Hcl in Hw. discriminate. }
    rewrite Ht, Hw. cbn [andb].
    destruct (rc_id c =? at_root t') eqn:ER; [reflexivity|]. cbn [orb]. apply N.eqb_neq in ER.
    apply forallb_forall. intros pid Hpid. destruct (Hprev ER pid Hpid) as (pc & Hf & Hpc).
    rewrite Hk, Hf. cbn beta iota.
    change (at_derived t' && (rc_id pc =? at_root t')) with (is_derived_root t' (rc_id pc)).
    destruct Hpc as [Hd|[Hh Hle]]; [rewrite Hd; reflexivity|].
    apply orb_true_iff; right. rewrite Hh. cbn [andb]. apply Nat.leb_le.
    rewrite Hids in Hle, Hh, Hhead. unfold has_head in Hh, Hhead. apply memN_In in Hh. apply memN_In in Hhead.
    rewrite !idx0_firstn in Hle by assumption. exact Hle.
  Qed.

  Lemma accept_ok_auth : forall n a t b t' added known,
    view_at (acl_ids aroot ws) sts n = Some a -> batch_consistent b ->
    accept a t b = (t', ROk added) ->
    (forall i, find_rc known i = find_rc (at_att t) i) ->
    let newk := flat_map (fun i => match find_rc b i with Some c => [c] | None => [] end) added in
    (forall i, find_rc (newk ++ known) i = find_rc (at_att t') i) /\
    forallb (fun i => forallb (auth_ok (acl_ids aroot ws) sts n (at_root t) (at_derived t) (newk ++ known))
                              (copies b i)) added = true.
  Proof.
    intros n a t b t' added known HV HC HA Hk newk.
    apply accept_ok_shape2 in HA. cbn zeta in HA. destruct HA as (Had & HU & HV' & Hatt & _ & Hr & Hd & _).
    set (ad := added_of_call t b) in *.
    assert (Enk : newk = ad).
    { subst newk. rewrite Had. apply flat_map_find. intros c Hc. eapply added_first_copy. exact Hc. }
    assert (Hk' : forall i, find_rc (newk ++ known) i = find_rc (at_att t') i).
    { intros i. rewrite Enk, find_rc_app, Hatt, find_rc_app, find_rc_rev by apply added_NoDup.
      rewrite Hk. reflexivity. }
    split; [exact Hk'|].
    rewrite forallb_forall in HU, HV'.
    apply forallb_forall. intros i Hi. rewrite Had in Hi. apply in_map_iff in Hi. destruct Hi as [c [Hid Hc]].
    apply forallb_forall. intros c' Hc'. unfold copies in Hc'. apply filter_In in Hc'. destruct Hc' as [Hb' Hid'].
    apply N.eqb_eq in Hid'.
    pose proof (added_in_news _ _ _ Hc) as Hn. pose proof (added_fresh _ _ _ Hc) as Hf.
    assert (Hn' : In c' (news_of t b)).
    { unfold news_of. apply filter_In. split; [exact Hb'|]. rewrite Hid', <- Hid, Hf. reflexivity. }
    assert (Ecc : c' = c).
    { apply HC; auto.
      - unfold news_of in Hn. apply filter_In in Hn. tauto.
      - congruence.
      - eapply unmarshal_cid_ok. apply HU. exact Hn'.
      - eapply unmarshal_cid_ok. apply HU. exact Hn. }
    subst c'. rewrite <- Hr, <- Hd. eapply sound_auth; [exact HV | | exact Hk'].
    eapply checks_sound; [apply HU; exact Hn | apply HV'; exact Hc | exact Hr | exact Hd | exact Hatt].
  Qed.

  Definition batches_consistent (ins : list (nat * list rawchange)) : Prop :=
    forall nb, In nb ins -> batch_consistent (snd nb).

  (* the bookkeeping of spec_dels: the running [known] list answers find_rc like the attached list, the running
     heads / iteration / stored lists are the tree's *)
  Lemma model_dels_spec : forall ins t known,
    wf2 t -> (forall i, find_rc known i = find_rc (at_att t) i) -> batches_consistent ins ->
    spec_dels (acl_ids aroot ws) sts (at_root t) (at_derived t) known (at_heads t) (iter_seq t) (at_stored t)
              (model_dels (acl_ids aroot ws) sts t ins) = true.
  Proof.
    induction ins as [|[n b] rest IH]; intros t known W2 Hk HC; [reflexivity|].
    cbn [model_dels]. destruct (view_at (acl_ids aroot ws) sts n) as [a|] eqn:EV; [|reflexivity].
    destruct (accept a t b) as [t' r] eqn:EA.
    pose proof (accept_wf2 _ _ _ _ _ W2 EA) as W2'.
    assert (HCb : batch_consistent b) by (apply (HC (n, b)); left; reflexivity).
    assert (HCr : batches_consistent rest) by (intros nb Hnb; apply HC; right; exact Hnb).
    cbn [spec_dels d_ok d_batch d_added d_iter d_stored d_heads d_has d_acl_len].
    destruct r as [added|e|]; cbn [ok_of added_of].
    - destruct (accept_ok_auth n a t b t' added known EV HCb EA Hk) as [Hk' Hauth].
      rewrite Hauth.
      pose proof (iter_mono _ _ _ _ _ W2 EA) as Him. pose proof (iter_new_added _ _ _ _ _ W2 EA) as Hin.
      pose proof EA as Hsh. apply accept_ok_shape2 in Hsh. cbn zeta in Hsh.
      destruct Hsh as (Had & _ & _ & _ & _ & Hr & Hd & Hst).
      assert (S1 : subset_N (iter_seq t) (iter_seq t') = true) by (apply subset_N_In; exact Him).
      assert (S2 : subset_N (at_stored t) (at_stored t') = true).
      { apply subset_N_In. intros x Hx. rewrite Hst. apply in_or_app. right. exact Hx. }
      assert (S3 : subset_N (fresh_ids (iter_seq t) (at_stored t) (iter_seq t') (at_stored t')) added = true).
      { apply subset_N_In. intros x Hx. unfold fresh_ids in Hx. apply in_app_or in Hx. destruct Hx as [Hx|Hx].
        - apply filter_In in Hx. destruct Hx as [Hx Hnew]. destruct (Hin x Hx) as [Hold|Hadd]; [|exact Hadd].
          pose proof (iter_in_stored t W2 x Hold) as Hs.
          apply memN_In in Hold. apply memN_In in Hs. rewrite Hold, Hs in Hnew. discriminate.
        - apply filter_In in Hx. destruct Hx as [Hx Hnew]. rewrite Hst in Hx. apply in_app_or in Hx.
          destruct Hx as [Hx|Hx].
          + rewrite Had. apply in_rev. exact Hx.
          + apply memN_In in Hx. rewrite Hx in Hnew. discriminate. }
      assert (S4 : subset_N added (rc_ids b) = true).
      { apply subset_N_In. intros x Hx. rewrite Had in Hx. apply in_map_iff in Hx. destruct Hx as [c [<- Hc]].
        apply in_map. apply added_in_news in Hc. unfold news_of in Hc. apply filter_In in Hc. tauto. }
      rewrite S1, S2, S3, S4. cbn [andb]. rewrite <- Hr, <- Hd. apply IH; assumption.
    - pose proof (reject_noop _ _ _ _ _ (wf2_wf t W2) EA) as (Ha & _ & Hh & _ & Hst & Hr & Hd & Hit).
      rewrite Hh, Hit, Hst, sameset_refl, !list_N_eqb_refl, list_bool_eqb_refl. cbn [andb].
      rewrite <- Hh, <- Hit, <- Hst, <- Hr, <- Hd. apply IH; [exact W2' | | exact HCr].
      intros i. rewrite Ha. apply Hk.
    - apply accept_unmodelled_same in EA. subst t'.
      rewrite sameset_refl, !list_N_eqb_refl, list_bool_eqb_refl. cbn [andb]. apply IH; assumption.
  Qed.
End AclLog.

(* ------------------------------------------------------------------------------------------ the scenario-level theorem *)
Definition rc_eq_dec : forall a b : rawchange, {a = b} + {a <> b}.
Proof. decide equality; try apply N.eq_dec; try apply Bool.bool_dec; apply list_eq_dec, N.eq_dec. Defined.

Definition batch_consistent_b (b : list rawchange) : bool :=
  forallb (fun c1 => forallb (fun c2 =>
     negb ((rc_id c1 =? rc_id c2) && rc_cid_ok c1 && rc_cid_ok c2) || (if rc_eq_dec c1 c2 then true else false)) b) b.

Lemma batch_consistent_b_ok : forall b, batch_consistent_b b = true -> batch_consistent b.
Proof.
  intros b H c1 c2 H1 H2 Hid Hc1 Hc2. unfold batch_consistent_b in H. rewrite forallb_forall in H.
  specialize (H c1 H1). rewrite forallb_forall in H. specialize (H c2 H2).
  rewrite Hid, N.eqb_refl, Hc1, Hc2 in H. cbn in H. destruct (rc_eq_dec c1 c2); [assumption | discriminate].
Qed.

Fixpoint nodupN_b (l : list N) : bool :=
  match l with [] => true | x :: r => negb (memN x r) && nodupN_b r end.

Lemma nodupN_b_ok : forall l, nodupN_b l = true -> NoDup l.
Proof.
  induction l as [|x l IH]; cbn; intros H; [constructor|].
  apply andb_true_iff in H. destruct H as [H1 H2]. constructor; [|auto].
  apply negb_true_iff in H1. apply memN_false. exact H1.
Qed.

(* the side conditions on a scenario's INPUTS, decidable:
   - the ACL log is accepted by the validating state machine (otherwise spec_C02 answers false: harness error),
   - ACL record ids are distinct,
   - the CID flags inside every batch are consistent with a collision-free hash (batch_consistent) *)
Definition scenario_wf (sc : scenario) : bool :=
  match acl_states (sc_me sc) (sc_owner sc) (sc_aclroot sc) (sc_recs sc) with Some _ => true | None => false end &&
  nodupN_b (acl_ids (sc_aclroot sc) (sc_recs sc)) &&
  forallb (fun d => batch_consistent_b (d_batch d)) (sc_dels sc).

Theorem model_satisfies_spec : forall sc, scenario_wf sc = true -> spec_C02 (model_scenario sc) = true.
Proof.
  intros sc H. unfold scenario_wf in H. repeat rewrite andb_true_iff in H. destruct H as [[HS ND] HC].
  destruct (acl_states (sc_me sc) (sc_owner sc) (sc_aclroot sc) (sc_recs sc)) as [sts|] eqn:ES; [|discriminate].
  apply nodupN_b_ok in ND.
  unfold model_scenario. rewrite ES.
  destruct (view_at (acl_ids (sc_aclroot sc) (sc_recs sc)) sts (sc_root_len sc)) as [a|] eqn:EV;
    [|unfold spec_C02; cbn; rewrite ES; reflexivity].
  destruct (build a (sc_root sc) (sc_derived sc)) as [t0|] eqn:EB;
    [|unfold spec_C02; cbn; rewrite ES; reflexivity].
  unfold spec_C02.
  cbn [sc_me sc_owner sc_aclroot sc_recs sc_built sc_root_len sc_root sc_derived sc_heads0 sc_iter0 sc_stored0 sc_dels].
  rewrite ES.
  pose proof (build_wf2 _ _ _ _ EB) as W2.
  assert (Ht0 : t0 = mkAT (rc_id (sc_root sc)) (sc_derived sc) [sc_root sc] [] [rc_id (sc_root sc)]
                          (rc_id (sc_root sc)) [rc_id (sc_root sc)] /\
                validate_change a t0 [sc_root sc] (sc_root sc) = true /\ unmarshal_ok t0 (sc_root sc) = true).
  { unfold build in EB.
    destruct (rc_decodes (sc_root sc) && validate_change a _ [sc_root sc] (sc_root sc) && unmarshal_ok _ (sc_root sc))
      eqn:E; [|discriminate].
    inversion EB; subst t0. repeat rewrite andb_true_iff in E. tauto. }
  destruct Ht0 as (Et0 & Hval & Hum).
  assert (Hr : at_root t0 = rc_id (sc_root sc)) by (rewrite Et0; reflexivity).
  assert (Hd : at_derived t0 = sc_derived sc) by (rewrite Et0; reflexivity).
  assert (Ha : at_att t0 = [sc_root sc]) by (rewrite Et0; reflexivity).
  apply andb_true_iff. split.
  - rewrite <- Hr, <- Hd.
    apply (sound_auth _ _ _ _ _ ES ND (sc_root_len sc) a t0 [sc_root sc] (sc_root sc) EV);
      [|intros i; rewrite Ha; reflexivity].
    eapply checks_sound; [exact Hum | exact Hval | reflexivity | reflexivity | exact Ha].
  - rewrite <- Hr, <- Hd.
    apply (model_dels_spec _ _ _ _ _ ES ND); [exact W2 | intros i; rewrite Ha; reflexivity |].
    intros nb Hnb. apply in_map_iff in Hnb. destruct Hnb as [d [<- Hd']]. cbn [snd].
    apply batch_consistent_b_ok. rewrite forallb_forall in HC. apply HC. exact Hd'.
Qed.

(* ------------------------------------------------------------------------------------------ ACL records landing during a call *)
(* Knowing MORE records never invalidates an authorisation: auth_ok is monotone in the number of records held. *)
Lemma firstn_In_mono : forall (n n' : nat) (ids : list rid) r, (n <= n')%nat -> In r (firstn n ids) -> In r (firstn n' ids).
Proof.
  induction n as [|n IH]; intros n' ids r Hle Hin; [destruct ids; cbn in Hin; contradiction|].
  destruct n' as [|n']; [lia|]. destruct ids as [|x ids]; [cbn in Hin; contradiction|].
  cbn in *. destruct Hin as [E|Hin]; [left; exact E|right]. apply (IH n'); [lia|exact Hin].
Qed.

Lemma has_head_firstn_mono : forall (n n' : nat) ids r, (n <= n')%nat ->
  has_head (firstn n ids) r = true -> has_head (firstn n' ids) r = true.
Proof.
  unfold has_head. intros n n' ids r Hle H. apply memN_In. apply memN_In in H.
  eapply firstn_In_mono; eauto.
Qed.

Lemma auth_ok_mono : forall ids sts (n n' : nat) root derived known c, (n <= n')%nat ->
  auth_ok ids sts n root derived known c = true -> auth_ok ids sts n' root derived known c = true.
Proof.
  intros ids sts n n' root derived known c Hle H. unfold auth_ok in *.
  apply andb_true_iff in H. destruct H as [H0 H]. rewrite H0. cbn [andb].
  apply orb_true_iff in H. apply orb_true_iff. destruct H as [H|H]; [left; exact H|right].
  repeat rewrite andb_true_iff in H. destruct H as [[[Hs Hh] Ht] Hp].
  rewrite Hs, Ht, (has_head_firstn_mono _ _ _ _ Hle Hh). cbn [andb].
  apply orb_true_iff in Hp. apply orb_true_iff. destruct Hp as [Hp|Hp]; [left; exact Hp|right].
  rewrite forallb_forall in *. intros pid Hpid. specialize (Hp pid Hpid).
  destruct (find_rc known pid) as [pc|]; [|discriminate].
  apply orb_true_iff in Hp. apply orb_true_iff. destruct Hp as [Hp|Hp]; [left; exact Hp|right].
  apply andb_true_iff in Hp. destruct Hp as [Ha Hb]. rewrite Hb, (has_head_firstn_mono _ _ _ _ Hle Ha). reflexivity.
Qed.

(* ds' = ds with some deliveries relabelled with a LARGER number of held records *)
Inductive dels_le : list delivery -> list delivery -> Prop :=
| dels_le_nil : dels_le [] []
| dels_le_cons : forall d n' r r', (d_acl_len d <= n')%nat -> dels_le r r' -> dels_le (d :: r) (set_len d n' :: r').

Lemma spec_dels_mono : forall ids sts root derived ds ds', dels_le ds ds' ->
  forall known heads iter stored,
  spec_dels ids sts root derived known heads iter stored ds = true ->
  spec_dels ids sts root derived known heads iter stored ds' = true.
Proof.
  intros ids sts root derived ds ds' HL. induction HL as [|d n' r r' Hle HL IH]; intros known heads iter stored H; [exact H|].
  cbn [spec_dels] in *. cbn [set_len d_ok d_iter d_stored d_added d_batch d_acl_len d_heads d_has].
  destruct (d_ok d).
  - repeat rewrite andb_true_iff in H. destruct H as [[[[[H1 H2] H3] H4] H5] H6].
    rewrite H1, H2, H3, H4. cbn [andb]. apply andb_true_iff. split; [|apply IH; exact H6].
    rewrite forallb_forall in *. intros i Hi. specialize (H5 i Hi).
    rewrite forallb_forall in *. intros c Hc. eapply auth_ok_mono; [exact Hle|]. apply H5. exact Hc.
  - repeat rewrite andb_true_iff in H. destruct H as [[[[H1 H2] H3] H4] H5].
    rewrite H1, H2, H3, H4. cbn [andb]. apply IH. exact H5.
Qed.

Lemma spec_C02_mono : forall sc ds', dels_le (sc_dels sc) ds' -> spec_C02 sc = true -> spec_C02 (with_dels sc ds') = true.
Proof.
  intros sc ds' HL H. unfold spec_C02 in *.
  cbn [with_dels sc_me sc_owner sc_aclroot sc_recs sc_built sc_root_len sc_root sc_derived sc_heads0 sc_iter0 sc_stored0 sc_dels].
  destruct (acl_states (sc_me sc) (sc_owner sc) (sc_aclroot sc) (sc_recs sc)) as [sts|]; [|discriminate].
  destruct (sc_built sc).
  - apply andb_true_iff in H. destruct H as [H1 H2]. rewrite H1. cbn [andb].
    eapply spec_dels_mono; [exact HL|exact H2].
  - destruct (sc_dels sc) as [|d r]; [|discriminate]. inversion HL. reflexivity.
Qed.

(* the model's deliveries are labelled with the length the chosen serial order presents; the length at return is not smaller *)
Lemma model_dels_race_le : forall ids sts ds t mid ch,
  dels_le (model_dels ids sts t (race_ins ds mid ch))
          (at_return (enter_lens (model_dels ids sts t (race_ins ds mid ch)) ds) mid).
Proof.
  intros ids sts ds. induction ds as [|d r IH]; intros t mid ch; [constructor|].
  cbn [race_ins model_dels].
  set (n := (if hd false ch then (d_acl_len d + hd O mid)%nat else d_acl_len d)).
  destruct (view_at ids sts n) as [a|]; [|constructor].
  destruct (accept a t (d_batch d)) as [t' res].
  cbn [enter_lens at_return set_len d_acl_len d_batch d_ok d_eclass d_added d_heads d_iter d_stored d_has].
  match goal with |- dels_le (?m :: _) _ =>
    change (dels_le (m :: model_dels ids sts t' (race_ins r (tl mid) (tl ch)))
                    (set_len m (d_acl_len d + hd O mid) ::
                     at_return (enter_lens (model_dels ids sts t' (race_ins r (tl mid) (tl ch))) r) (tl mid))) end.
  constructor; [|apply IH].
  cbn [d_acl_len]. subst n. destruct (hd false ch); lia.
Qed.

Lemma race_ins_blank : forall ins : list (nat * list rawchange),
  map (fun d => (d_acl_len d, d_batch d)) (map blank_del ins) = ins.
Proof. induction ins as [|[n b] r IH]; cbn; [reflexivity|]. f_equal. exact IH. Qed.

Lemma race_ins_batches : forall (f : list rawchange -> bool) ds mid ch,
  forallb (fun d => f (d_batch d)) (map blank_del (race_ins ds mid ch)) = forallb (fun d => f (d_batch d)) ds.
Proof. intros f ds. induction ds as [|d r IH]; intros mid ch; cbn; [reflexivity|]. f_equal. apply IH. Qed.

(* the side condition: that of scenario_wf, on the INPUTS of the race scenario *)
Definition race_wf (rs : racescen) : bool := scenario_wf (rs_sc rs).

(* whatever serial order is chosen for every call (ch), the race model satisfies spec_race *)
Theorem race_model_satisfies_spec : forall ch rs, race_wf rs = true -> spec_race (model_race ch rs) = true.
Proof.
  intros ch [sc mid] H. unfold race_wf in H. cbn [rs_sc] in H.
  unfold spec_race, model_race. cbn [rs_sc rs_mid].
  set (sc' := with_dels sc (map blank_del (race_ins (sc_dels sc) mid ch))).
  assert (W : scenario_wf sc' = true).
  { unfold scenario_wf in *. subst sc'.
    cbn [with_dels sc_me sc_owner sc_aclroot sc_recs sc_dels]. rewrite race_ins_batches. exact H. }
  pose proof (model_satisfies_spec sc' W) as S.
  set (m := model_scenario sc') in *.
  assert (L : dels_le (sc_dels m) (at_return (enter_lens (sc_dels m) (sc_dels sc)) mid)).
  { subst m. unfold model_scenario.
    destruct (acl_states (sc_me sc') (sc_owner sc') (sc_aclroot sc') (sc_recs sc')) as [sts|]; [|constructor].
    destruct (view_at (acl_ids (sc_aclroot sc') (sc_recs sc')) sts (sc_root_len sc')) as [a|]; [|constructor].
    destruct (build a (sc_root sc') (sc_derived sc')) as [t0|]; [|constructor].
    cbn [sc_dels]. subst sc'. cbn [with_dels sc_dels]. rewrite race_ins_blank. apply model_dels_race_le. }
  pose proof (spec_C02_mono m _ L S) as R.
  unfold with_dels in *. cbn [sc_me sc_owner sc_aclroot sc_recs sc_hists sc_root sc_derived sc_root_len sc_built
                               sc_heads0 sc_iter0 sc_stored0 sc_dels]. exact R.
Qed.


(* what the race model feeds to the sequential model: per call the batch, under the entry length or the entry length
   plus the records that landed during the call -- each call of the race model IS a serial outcome *)
Lemma race_ins_serial : forall ds mid ch i d,
  nth_error ds i = Some d ->
  exists n, nth_error (race_ins ds mid ch) i = Some (n, d_batch d) /\
            (n = d_acl_len d \/ n = (d_acl_len d + nth i mid O)%nat).
Proof.
  induction ds as [|d0 r IH]; intros mid ch i d H; [destruct i; discriminate|].
  destruct i as [|i]; cbn [nth_error race_ins] in *.
  - inversion H; subst d0. eexists. split; [reflexivity|].
    destruct (hd false ch); [right|left; reflexivity]. destruct mid; reflexivity.
  - destruct (IH (tl mid) (tl ch) i d H) as [n [E Hn]]. exists n. split; [exact E|].
    destruct Hn as [Hn|Hn]; [left; exact Hn|right]. rewrite Hn. destruct mid as [|e mr]; cbn [tl nth]; [destruct i|]; reflexivity.
Qed.
