(* C07, last layer: the exact tagged difference projects onto the declarative specification lists; the wire
   adapter; the executable predicate spec_C07 accepts the model's result. *)
From Coq Require Import List NArith Bool Arith Lia ZifyBool ZifyN ZifyNat Sorting.Sorted Sorting.Permutation.
Import ListNotations.
From AnySync Require Import Model.Ldiff Proofs.LdiffRanges Proofs.LdiffContents Proofs.LdiffTree
     Proofs.LdiffQuery Proofs.LdiffDiff.
Open Scope N_scope.
Local Opaque FUEL.

(* ------------------------------------------------------------------ projections by tag *)
Lemma ids_with_app t l1 l2 : ids_with t (l1 ++ l2) = ids_with t l1 ++ ids_with t l2.
Proof. unfold ids_with. rewrite filter_app, map_app. reflexivity. Qed.

Lemma perm_filter {A} (P : A -> bool) l l' : Permutation l l' -> Permutation (filter P l) (filter P l').
Proof.
  induction 1 as [|x l l' _ IH|x y l|l l' l'' _ IH1 _ IH2]; cbn [filter].
  - constructor.
  - destruct (P x); [constructor|]; exact IH.
  - destruct (P x), (P y); try apply Permutation_refl. constructor.
  - eapply Permutation_trans; eassumption.
Qed.

Lemma perm_ids_with t l l' : Permutation l l' -> Permutation (ids_with t l) (ids_with t l').
Proof. intros Hp. unfold ids_with. apply Permutation_map, perm_filter, Hp. Qed.

Lemma assoc_pairs id l : assoc id (pairs l) = head_of id l.
Proof.
  unfold head_of. induction l as [|x r IH]; [reflexivity|]. cbn [pairs map assoc find].
  change (map (fun e => (eid e, ehead e)) r) with (pairs r).
  destruct (eid x =? id); [reflexivity|exact IH].
Qed.

Lemma has_id_head id l : has_id id l = match head_of id l with Some _ => true | None => false end.
Proof.
  unfold has_id, head_of. induction l as [|x r IH]; [reflexivity|]. cbn [existsb find].
  destruct (eid x =? id); [reflexivity|exact IH].
Qed.

Lemma proj_side t (f : cls) (c : elem -> bool) (X l : list elem) :
  (forall e, ids_with t (f (assoc (eid e) (pairs X)) (eid e, ehead e)) = if c e then [eid e] else []) ->
  ids_with t (flat_map (fun p => f (assoc (fst p) (pairs X)) p) (pairs l)) = map eid (filter c l).
Proof.
  intros Hc. induction l as [|e r IH]; [reflexivity|].
  cbn [pairs map flat_map fst]. change (map (fun e => (eid e, ehead e)) r) with (pairs r).
  rewrite ids_with_app, Hc, IH. cbn [filter]. destruct (c e); reflexivity.
Qed.

Ltac side_tac := intros e; rewrite assoc_pairs, ?has_id_head; destruct (head_of (eid e) _) as [h'|]; cbn;
                 try reflexivity; repeat (match goal with |- context [if ?b then _ else _] => destruct b eqn:? end; cbn);
                 try reflexivity; try lia.

Section Spec.
  Variables (L R : list elem).

  (* Diff *)
  Lemma D_equal_removed : ids_with TRemoved (D L R faE fbN 0 U64MAX) = map eid (filter (fun e => negb (has_id (eid e) R)) (in_range 0 U64MAX L)).
  Proof.
    unfold D. rewrite ids_with_app.
    rewrite (proj_side TRemoved faE (fun e => negb (has_id (eid e) R)) R) by side_tac.
    rewrite (proj_side TRemoved fbN (fun _ => false) L) by side_tac.
    assert (E : forall l : list elem, filter (fun _ => false) l = []) by (induction l; auto).
    rewrite E, app_nil_r. reflexivity.
  Qed.

  Lemma D_equal_changed : ids_with TChanged (D L R faE fbN 0 U64MAX)
    = map eid (filter (fun e => match head_of (eid e) R with Some h => negb (h =? ehead e) | None => false end) (in_range 0 U64MAX L)).
  Proof.
    unfold D. rewrite ids_with_app.
    rewrite (proj_side TChanged faE (fun e => match head_of (eid e) R with Some h => negb (h =? ehead e) | None => false end) R) by side_tac.
    rewrite (proj_side TChanged fbN (fun _ => false) L) by side_tac.
    assert (E : forall l : list elem, filter (fun _ => false) l = []) by (induction l; auto).
    rewrite E, app_nil_r. reflexivity.
  Qed.

  Lemma D_equal_new : ids_with TNew (D L R faE fbN 0 U64MAX)
    = map eid (filter (fun e => negb (has_id (eid e) L)) (in_range 0 U64MAX R)).
  Proof.
    unfold D. rewrite ids_with_app.
    rewrite (proj_side TNew faE (fun _ => false) R) by side_tac.
    rewrite (proj_side TNew fbN (fun e => negb (has_id (eid e) L)) L) by side_tac.
    assert (E : forall l : list elem, filter (fun _ => false) l = []) by (induction l; auto).
    rewrite E. reflexivity.
  Qed.

  Lemma D_equal_theirs : ids_with TTheirChanged (D L R faE fbN 0 U64MAX) = [].
  Proof.
    unfold D. rewrite ids_with_app.
    rewrite (proj_side TTheirChanged faE (fun _ => false) R) by side_tac.
    rewrite (proj_side TTheirChanged fbN (fun _ => false) L) by side_tac.
    assert (E : forall l : list elem, filter (fun _ => false) l = []) by (induction l; auto).
    rewrite !E. reflexivity.
  Qed.

  (* CompareDiff *)
  Lemma D_greater_removed : ids_with TRemoved (D L R faG fbN 0 U64MAX) = map eid (filter (fun e => negb (has_id (eid e) R)) (in_range 0 U64MAX L)).
  Proof.
    unfold D. rewrite ids_with_app.
    rewrite (proj_side TRemoved faG (fun e => negb (has_id (eid e) R)) R) by side_tac.
    rewrite (proj_side TRemoved fbN (fun _ => false) L) by side_tac.
    assert (E : forall l : list elem, filter (fun _ => false) l = []) by (induction l; auto).
    rewrite E, app_nil_r. reflexivity.
  Qed.

  Lemma D_greater_ours : ids_with TChanged (D L R faG fbN 0 U64MAX)
    = map eid (filter (fun e => match head_of (eid e) R with Some h => negb (h =? ehead e) && negb (ehead e <? h) | None => false end) (in_range 0 U64MAX L)).
  Proof.
    unfold D. rewrite ids_with_app.
    rewrite (proj_side TChanged faG (fun e => match head_of (eid e) R with Some h => negb (h =? ehead e) && negb (ehead e <? h) | None => false end) R) by side_tac.
    rewrite (proj_side TChanged fbN (fun _ => false) L) by side_tac.
    assert (E : forall l : list elem, filter (fun _ => false) l = []) by (induction l; auto).
    rewrite E, app_nil_r. reflexivity.
  Qed.

  Lemma D_greater_theirs : ids_with TTheirChanged (D L R faG fbN 0 U64MAX)
    = map eid (filter (fun e => match head_of (eid e) R with Some h => negb (h =? ehead e) && (ehead e <? h) | None => false end) (in_range 0 U64MAX L)).
  Proof.
    unfold D. rewrite ids_with_app.
    rewrite (proj_side TTheirChanged faG (fun e => match head_of (eid e) R with Some h => negb (h =? ehead e) && (ehead e <? h) | None => false end) R) by side_tac.
    rewrite (proj_side TTheirChanged fbN (fun _ => false) L) by side_tac.
    assert (E : forall l : list elem, filter (fun _ => false) l = []) by (induction l; auto).
    rewrite E, app_nil_r. reflexivity.
  Qed.

  Lemma D_greater_new : ids_with TNew (D L R faG fbN 0 U64MAX)
    = map eid (filter (fun e => negb (has_id (eid e) L)) (in_range 0 U64MAX R)).
  Proof.
    unfold D. rewrite ids_with_app.
    rewrite (proj_side TNew faG (fun _ => false) R) by side_tac.
    rewrite (proj_side TNew fbN (fun e => negb (has_id (eid e) L)) L) by side_tac.
    assert (E : forall l : list elem, filter (fun _ => false) l = []) by (induction l; auto).
    rewrite E. reflexivity.
  Qed.
End Spec.

(* ------------------------------------------------------------------ the main statements *)
Record good (H : N -> N) (l : list elem) : Prop := {
  g_sorted : ssorted l; g_bounded : bounded l; g_hashed : hashed H l; g_uniq : uniq_ids l }.

Lemma inv_good df th H ix : Inv df th H ix -> good H (contents ix).
Proof. intros [_ Hu Hh Hb Hs]. constructor; assumption. Qed.

Lemma faE_same p : faE (Some (snd p)) p = [].
Proof. unfold faE. rewrite N.eqb_refl. reflexivity. Qed.
Lemma faG_same p : faG (Some (snd p)) p = [].
Proof. unfold faG. rewrite N.eqb_refl. reflexivity. Qed.
Lemma fbN_some h p : fbN (Some h) p = [].
Proof. reflexivity. Qed.

Section Main.
  Variables (df th : N).
  Hypothesis Hdf : 2 <= df.
  Hypothesis Hdf64 : df <= U64MAX.
  Variable H : N -> N.
  Variables (L R : list elem).
  Hypothesis HL : good H L.
  Hypothesis HR : good H R.

  Variable other : remote.
  Hypothesis Hother : forall a b we, other a b we = get_range (fresh df th R) a b we.

  Theorem diff_equal_exact :
    exists res, diff_run df th cmp_equal (fresh df th L) other = Some res
      /\ Permutation (ids_with TNew res) (spec_new L R)
      /\ Permutation (ids_with TChanged res) (spec_changed L R)
      /\ Permutation (ids_with TRemoved res) (spec_removed L R)
      /\ ids_with TTheirChanged res = [].
  Proof.
    destruct HL as [sL bL hL uL], HR as [sR bR hR uR].
    destruct (diff_exact df th Hdf Hdf64 H L R sL sR bL bR hL hR uR faE fbN faE_same fbN_some other Hother)
      as (res & Hres & Hp).
    exists res. split; [exact Hres|].
    pose proof (perm_ids_with TNew _ _ Hp) as P1. pose proof (perm_ids_with TChanged _ _ Hp) as P2.
    pose proof (perm_ids_with TRemoved _ _ Hp) as P3. pose proof (perm_ids_with TTheirChanged _ _ Hp) as P4.
    rewrite D_equal_new in P1. rewrite D_equal_changed in P2. rewrite D_equal_removed in P3. rewrite D_equal_theirs in P4.
    rewrite (in_range_all L bL) in *. rewrite (in_range_all R bR) in *.
    repeat split; try assumption. apply Permutation_sym, Permutation_nil in P4. exact P4.
  Qed.

  Theorem diff_greater_exact :
    exists res, diff_run df th cmp_greater (fresh df th L) other = Some res
      /\ Permutation (ids_with TNew res) (spec_new L R)
      /\ Permutation (ids_with TChanged res) (spec_our_changed L R)
      /\ Permutation (ids_with TTheirChanged res) (spec_their_changed L R)
      /\ Permutation (ids_with TRemoved res) (spec_removed L R).
  Proof.
    destruct HL as [sL bL hL uL], HR as [sR bR hR uR].
    destruct (diff_exact df th Hdf Hdf64 H L R sL sR bL bR hL hR uR faG fbN faG_same fbN_some other Hother)
      as (res & Hres & Hp).
    exists res. split; [exact Hres|].
    pose proof (perm_ids_with TNew _ _ Hp) as P1. pose proof (perm_ids_with TChanged _ _ Hp) as P2.
    pose proof (perm_ids_with TRemoved _ _ Hp) as P3. pose proof (perm_ids_with TTheirChanged _ _ Hp) as P4.
    rewrite D_greater_new in P1. rewrite D_greater_ours in P2. rewrite D_greater_removed in P3. rewrite D_greater_theirs in P4.
    rewrite (in_range_all L bL) in *. rewrite (in_range_all R bR) in *.
    repeat split; assumption.
  Qed.
End Main.

Lemma filter_length_le {A} (P : A -> bool) l : (length (filter P l) <= length l)%nat.
Proof. induction l as [|x r IH]; cbn; [lia|]. destruct (P x); cbn; lia. Qed.

(* the wire adapter changes nothing as long as counts fit 32 bits *)
Lemma get_range_count_le df th all a b we :
  2 <= df -> df <= U64MAX ->
  r_count (get_range (fresh df th all) a b we) <= N.of_nat (length all).
Proof.
  intros Hdf Hdf64. unfold get_range. cbn [contents tree fresh].
  assert (Hlen : N.of_nat (length (in_range a b all)) <= N.of_nat (length all)).
  { unfold in_range. pose proof (filter_length_le (in_rangeb a b) all). lia. }
  destruct (find_obj (S FUEL) (build_top df th FUEL all) a b) as [o|] eqn:Hfo; [|exact Hlen].
  destruct we; cbn [r_count]; [exact Hlen|].
  apply (find_obj_top df th Hdf Hdf64) in Hfo as [[[= -> ->] ->]|[_ (f & -> & Hab & Hfit)]].
  - unfold build_top. cbn zeta. cbn [rcnt]. unfold count_in.
    pose proof (filter_length_le (in_rangeb 0 U64MAX) all). unfold in_range. lia.
  - rewrite (build_rcnt df th Hdf all f a b Hab Hfit). exact Hlen.
Qed.

Lemma wire_id df th all :
  2 <= df -> df <= U64MAX -> N.of_nat (length all) < 4294967296 ->
  forall a b we, wire (remote_of (fresh df th all)) a b we = get_range (fresh df th all) a b we.
Proof.
  intros Hdf Hdf64 Hlen a b we. unfold wire, remote_of.
  pose proof (get_range_count_le df th all a b we Hdf Hdf64) as Hc.
  destruct (get_range (fresh df th all) a b we) as [h es c]. cbn [r_hash r_elems r_count] in *.
  f_equal. apply N.mod_small. lia.
Qed.

(* ------------------------------------------------------------------ spec_C07 accepts permutations *)
Inductive nsorted : list N -> Prop :=
| ns_nil : nsorted []
| ns_one x : nsorted [x]
| ns_cons x y l : x <= y -> nsorted (y :: l) -> nsorted (x :: y :: l).

Lemma n_insert_sorted x l : nsorted l -> nsorted (n_insert x l).
Proof.
  induction 1 as [|y|y z l Hyz Hs IH]; cbn [n_insert].
  - constructor.
  - destruct (x <=? y) eqn:E.
    + apply ns_cons; [lia|apply ns_one].
    + apply ns_cons; [lia|apply ns_one].
  - destruct (x <=? y) eqn:E.
    + apply ns_cons; [lia|apply ns_cons; assumption].
    + cbn [n_insert] in IH. destruct (x <=? z) eqn:E2.
      * apply ns_cons; [lia|exact IH].
      * apply ns_cons; [lia|exact IH].
Qed.

Lemma n_sort_sorted l : nsorted (n_sort l).
Proof. induction l; cbn; [constructor|apply n_insert_sorted; assumption]. Qed.

Lemma n_insert_comm x y l : n_insert x (n_insert y l) = n_insert y (n_insert x l).
Proof.
  induction l as [|z r IH]; cbn [n_insert].
  - destruct (x <=? y) eqn:E1, (y <=? x) eqn:E2; try reflexivity; try lia.
    assert (x = y) by lia. subst. reflexivity.
  - destruct (y <=? z) eqn:Ey, (x <=? z) eqn:Ex; cbn [n_insert]; rewrite ?Ey, ?Ex.
    + destruct (x <=? y) eqn:E1, (y <=? x) eqn:E2; try reflexivity; try lia.
      assert (x = y) by lia. subst. reflexivity.
    + destruct (x <=? y) eqn:E1; [lia|]. reflexivity.
    + destruct (y <=? x) eqn:E2; [lia|]. reflexivity.
    + f_equal. exact IH.
Qed.

Lemma n_sort_perm a b : Permutation a b -> n_sort a = n_sort b.
Proof.
  induction 1 as [|x l l' _ IH|x y l|l l' l'' _ IH1 _ IH2]; cbn [n_sort fold_right].
  - reflexivity.
  - change (fold_right n_insert [] l) with (n_sort l). change (fold_right n_insert [] l') with (n_sort l').
    rewrite IH. reflexivity.
  - change (fold_right n_insert [] l) with (n_sort l). apply n_insert_comm.
  - congruence.
Qed.

Lemma nlist_eqb_refl l : nlist_eqb l l = true.
Proof. induction l; cbn; [reflexivity|]. rewrite N.eqb_refl. exact IHl. Qed.

Lemma same_ids_perm a b : Permutation a b -> same_ids a b = true.
Proof. intros Hp. unfold same_ids. rewrite (n_sort_perm a b Hp). apply nlist_eqb_refl. Qed.
