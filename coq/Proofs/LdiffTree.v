(* C08 core: the incrementally maintained range tree equals the tree built from scratch from the contents. *)
From Coq Require Import List NArith Bool Arith Lia ZifyBool ZifyN ZifyNat.
Import ListNotations.
From AnySync Require Import Model.Ldiff Proofs.LdiffRanges Proofs.LdiffContents.
Open Scope N_scope.

Section Tree.
  Variables (df th : N).
  Hypothesis Hdf : 2 <= df.

  Definition fits (f : nat) (a b : N) : Prop := b - a + 1 <= 2 ^ N.of_nat f.

  Lemma build_eq f all a b :
    build df th f all a b =
      if (th <? count_in a b all) && can_divide df a b then
        match f with
        | O => ROof
        | S f' => let ch := map (fun r => build df th f' all (fst r) (snd r)) (gen_tuple_ranges df a b) in
                  RNode a b (count_in a b all) (HDiv (map rhash ch)) ch
        end
      else RLeaf a b (count_in a b all) (elems_digest (in_range a b all)).
  Proof. destruct f; reflexivity. Qed.

  Lemma fits_0_no_divide a b : a <= b -> fits 0 a b -> can_divide df a b = false.
  Proof. unfold fits, can_divide. cbn. intros. lia. Qed.

  Lemma fits_child f a b c d :
    a <= b -> can_divide df a b = true -> fits (S f) a b -> In (c, d) (gen_tuple_ranges df a b) ->
    c <= d /\ a <= c /\ d <= b /\ fits f c d.
  Proof.
    intros Hab Hcd Hf Hin. destruct (children_within df a b c d Hdf Hab Hcd Hin) as (H1 & H2 & H3 & H4).
    repeat split; try assumption. unfold fits in *.
    rewrite Nat2N.inj_succ, N.pow_succ_r' in Hf. lia.
  Qed.

  Lemma child_excl_inb a b c d h :
    a <= b -> can_divide df a b = true -> In (c, d) (gen_tuple_ranges df a b) ->
    inb a b h = false -> inb c d h = false.
  Proof.
    intros Hab Hcd Hin Hh. destruct (children_within df a b c d Hdf Hab Hcd Hin) as (H1 & H2 & H3 & _).
    unfold inb in *. lia.
  Qed.

  (* ---- a change of the contents at hash h does not affect ranges that exclude h ---- *)
  Lemma build_off f all all' h :
    off_eq h all all' -> forall a b, a <= b -> inb a b h = false ->
    build df th f all a b = build df th f all' a b.
  Proof.
    intros Hoff. induction f as [|f IH]; intros a b Hab Hh; rewrite !build_eq;
      unfold count_in; rewrite (Hoff a b Hh).
    - reflexivity.
    - destruct ((th <? N.of_nat (length (in_range a b all))) && can_divide df a b) eqn:Hc; [|reflexivity].
      apply andb_true_iff in Hc as [_ Hcd].
      assert (E : map (fun r => build df th f all (fst r) (snd r)) (gen_tuple_ranges df a b)
                = map (fun r => build df th f all' (fst r) (snd r)) (gen_tuple_ranges df a b)).
      { apply map_ext_in. intros [c d] Hin. cbn [fst snd].
        destruct (children_within df a b c d Hdf Hab Hcd Hin) as (H1 & H2 & H3 & _).
        apply IH; [exact H2|]. exact (child_excl_inb a b c d h Hab Hcd Hin Hh). }
      cbn zeta. rewrite E. reflexivity.
  Qed.

  Lemma update_nth_map {A B} (F F' : A -> B) (g : B -> B) (l : list A) (i : nat) :
    (forall r, nth_error l i = Some r -> g (F r) = F' r) ->
    (forall j r, j <> i -> nth_error l j = Some r -> F r = F' r) ->
    update_nth i g (map F l) = map F' l.
  Proof.
    revert i; induction l as [|x r IH]; intros i Hi Hj; [destruct i; reflexivity|].
    destruct i as [|i]; cbn [map update_nth].
    - rewrite (Hi x eq_refl). f_equal. apply map_ext_in. intros y Hy.
      apply In_nth_error in Hy as [j Hy]. apply (Hj (S j) y); [lia|exact Hy].
    - rewrite (Hj 0%nat x); [|lia|reflexivity]. f_equal. apply IH.
      + intros y Hy. apply Hi. exact Hy.
      + intros j y Hne Hy. apply (Hj (S j) y); [lia|exact Hy].
  Qed.

  (* the children of a divisible range, updated at the bucket of h *)
  Lemma children_update f all all' h (g : rtree -> rtree) a b :
    off_eq h all all' -> a <= b -> can_divide df a b = true -> inb a b h = true ->
    (forall c d, In (c, d) (gen_tuple_ranges df a b) -> inb c d h = true ->
                 g (build df th f all c d) = build df th f all' c d) ->
    update_nth (N.to_nat (bucket df a b h)) g
               (map (fun r => build df th f all (fst r) (snd r)) (gen_tuple_ranges df a b))
    = map (fun r => build df th f all' (fst r) (snd r)) (gen_tuple_ranges df a b).
  Proof.
    intros Hoff Hab Hcd Hh Hg.
    destruct (per_align df a b) as [per al] eqn:Hpa.
    assert (Hah : a <= h /\ h <= b) by (unfold inb in Hh; lia).
    apply update_nth_map.
    - intros [c d] Hn. cbn [fst snd].
      pose proof (bucket_lt df a b per al Hdf Hab Hcd Hpa h) as Hlt.
      assert (Hco : child_of a per al (N.to_nat df) (N.to_nat (bucket df a b h)) = (c, d)).
      { rewrite (children_nth df a b per al Hdf Hab Hcd Hpa _ Hlt) in Hn. congruence. }
      destruct (bucket_contains df a b per al Hdf Hab Hcd Hpa h c d (proj1 Hah) (proj2 Hah) Hco) as [H1 H2].
      apply Hg; [exact (nth_error_In _ _ Hn)|]. unfold inb. lia.
    - intros j [c d] Hne Hn. cbn [fst snd].
      assert (Hj : (j < N.to_nat df)%nat).
      { rewrite <- (gen_tuple_ranges_length df a b). apply nth_error_Some. congruence. }
      assert (Hco : child_of a per al (N.to_nat df) j = (c, d)).
      { rewrite (children_nth df a b per al Hdf Hab Hcd Hpa _ Hj) in Hn. congruence. }
      destruct (children_within df a b c d Hdf Hab Hcd (nth_error_In _ _ Hn)) as (_ & Hcd' & _).
      apply (build_off f all all' h Hoff c d Hcd').
      destruct (other_child_excludes df a b per al Hdf Hab Hcd Hpa h j c d (proj1 Hah) (proj2 Hah) Hj Hne Hco) as [Hx|Hx];
        unfold inb; lia.
  Qed.

  (* ---------------------------------------------------------------- addElement *)
  Lemma add_build f all all' h :
    off_eq h all all' ->
    (forall a b, cnt a b all' = (cnt a b all + (if inb a b h then 1 else 0))%nat) ->
    forall a b, a <= b -> fits f a b -> inb a b h = true ->
    add_elem df th f all' (build df th f all a b) h = build df th f all' a b.
  Proof.
    intros Hoff Hcnt. induction f as [|f IH]; intros a b Hab Hfit Hh.
    - rewrite !build_eq, (fits_0_no_divide a b Hab Hfit), !andb_false_r. cbn [add_elem].
      rewrite (fits_0_no_divide a b Hab Hfit), andb_false_r. rewrite !count_in_cnt, Hcnt, Hh. f_equal. lia.
    - rewrite (build_eq (S f) all), (build_eq (S f) all').
      assert (Hc' : count_in a b all' = count_in a b all + 1) by (rewrite !count_in_cnt, Hcnt, Hh; lia).
      destruct ((th <? count_in a b all) && can_divide df a b) eqn:Hc.
      + apply andb_true_iff in Hc as [Hc1 Hcd].
        assert (Hc2 : (th <? count_in a b all') && can_divide df a b = true) by (rewrite Hc', Hcd; lia).
        rewrite Hc2. cbn zeta. cbn [add_elem].
        rewrite (children_update f all all' h (fun c => add_elem df th f all' c h) a b Hoff Hab Hcd Hh).
        * rewrite Hc'. reflexivity.
        * intros c d Hin Hcdh. destruct (fits_child f a b c d Hab Hcd Hfit Hin) as (H1 & _ & _ & H4).
          apply IH; assumption.
      + cbn [add_elem]. rewrite <- Hc'.
        destruct ((th <? count_in a b all') && can_divide df a b) eqn:Hc2.
        * rewrite (build_eq (S f) all'), Hc2. reflexivity.
        * reflexivity.
  Qed.

  (* ---------------------------------------------------------------- update of an existing element *)
  Lemma update_build f all all' h :
    off_eq h all all' -> (forall a b, cnt a b all' = cnt a b all) ->
    forall a b, a <= b -> fits f a b -> inb a b h = true ->
    update_elem df th f all' (build df th f all a b) h = build df th f all' a b.
  Proof.
    intros Hoff Hcnt. induction f as [|f IH]; intros a b Hab Hfit Hh.
    - rewrite !build_eq, (fits_0_no_divide a b Hab Hfit), !andb_false_r. cbn [update_elem].
      rewrite !count_in_cnt, Hcnt. reflexivity.
    - rewrite (build_eq (S f) all), (build_eq (S f) all').
      assert (Hc' : count_in a b all' = count_in a b all) by (rewrite !count_in_cnt, Hcnt; reflexivity).
      rewrite Hc'.
      destruct ((th <? count_in a b all) && can_divide df a b) eqn:Hc.
      + apply andb_true_iff in Hc as [Hc1 Hcd]. cbn zeta. cbn [update_elem].
        rewrite (children_update f all all' h (fun c => update_elem df th f all' c h) a b Hoff Hab Hcd Hh);
          [reflexivity|].
        intros c d Hin Hcdh. destruct (fits_child f a b c d Hab Hcd Hfit Hin) as (H1 & _ & _ & H4).
        apply IH; assumption.
      + reflexivity.
  Qed.

  (* ---------------------------------------------------------------- removeElement *)
  Lemma remove_build f all all' h :
    off_eq h all all' ->
    (forall a b, (cnt a b all' + (if inb a b h then 1 else 0))%nat = cnt a b all) ->
    forall a b, a <= b -> fits f a b -> inb a b h = true ->
    remove_elem df th f false all' (build df th f all a b) h = build df th f all' a b.
  Proof.
    intros Hoff Hcnt. induction f as [|f IH]; intros a b Hab Hfit Hh.
    - rewrite !build_eq, (fits_0_no_divide a b Hab Hfit), !andb_false_r. cbn [remove_elem].
      rewrite !count_in_cnt. specialize (Hcnt a b). rewrite Hh in Hcnt. f_equal. lia.
    - rewrite (build_eq (S f) all), (build_eq (S f) all').
      assert (Hc' : count_in a b all' = count_in a b all - 1 /\ 1 <= count_in a b all).
      { rewrite !count_in_cnt. specialize (Hcnt a b). rewrite Hh in Hcnt. lia. }
      destruct Hc' as [Hc' Hpos].
      destruct ((th <? count_in a b all) && can_divide df a b) eqn:Hc.
      + apply andb_true_iff in Hc as [Hc1 Hcd]. cbn zeta. cbn [remove_elem negb andb].
        destruct (count_in a b all - 1 <=? th) eqn:Hm.
        * assert (Hc2 : (th <? count_in a b all') && can_divide df a b = false) by (rewrite Hc'; lia).
          rewrite Hc2, Hc'. reflexivity.
        * assert (Hc2 : (th <? count_in a b all') && can_divide df a b = true) by (rewrite Hc', Hcd; lia).
          rewrite Hc2.
          rewrite (children_update f all all' h (fun c => remove_elem df th f false all' c h) a b Hoff Hab Hcd Hh).
          -- rewrite Hc'. reflexivity.
          -- intros c d Hin Hcdh. destruct (fits_child f a b c d Hab Hcd Hfit Hin) as (H1 & _ & _ & H4).
             apply IH; assumption.
      + cbn [remove_elem].
        assert (Hc2 : (th <? count_in a b all') && can_divide df a b = false).
        { rewrite Hc'. apply andb_false_iff. apply andb_false_iff in Hc as [Hc|Hc]; [left; lia|right; exact Hc]. }
        rewrite Hc2, Hc'. reflexivity.
  Qed.

  (* ---------------------------------------------------------------- the recursion never runs out of fuel *)
  Inductive noof : rtree -> Prop :=
  | noof_leaf a b c h : noof (RLeaf a b c h)
  | noof_node a b c h ch : Forall noof ch -> noof (RNode a b c h ch).

  Lemma build_noof f all : forall a b, a <= b -> fits f a b -> noof (build df th f all a b).
  Proof.
    induction f as [|f IH]; intros a b Hab Hfit; rewrite build_eq.
    - rewrite (fits_0_no_divide a b Hab Hfit), andb_false_r. constructor.
    - destruct ((th <? count_in a b all) && can_divide df a b) eqn:Hc; [|constructor].
      apply andb_true_iff in Hc as [_ Hcd]. cbn zeta. constructor.
      apply Forall_forall. intros t Ht. apply in_map_iff in Ht as ([c d] & <- & Hin). cbn [fst snd].
      destruct (fits_child f a b c d Hab Hcd Hfit Hin) as (H1 & _ & _ & H4). apply IH; assumption.
  Qed.

  (* ---------------------------------------------------------------- the top range *)
  Hypothesis Hdf64 : df <= U64MAX.

  Lemma top_can_divide : can_divide df 0 U64MAX = true.
  Proof. unfold can_divide. unfold U64MAX in *. lia. Qed.

  Lemma top_child_fits c d : In (c, d) (gen_tuple_ranges df 0 U64MAX) -> c <= d /\ d <= U64MAX /\ fits FUEL c d.
  Proof.
    intros Hin.
    assert (H0 : 0 <= U64MAX) by (unfold U64MAX; lia).
    destruct (children_within df 0 U64MAX c d Hdf H0 top_can_divide Hin) as (H1 & H2 & H3 & H4).
    repeat split; try assumption. unfold fits, FUEL.
    change (2 ^ N.of_nat 66) with 73786976294838206464. unfold U64MAX in *. lia.
  Qed.

  (* the top-level lemmas are stated for an arbitrary fuel [fu] that fits the children of the top range
     (so that nothing ever unfolds the numeral FUEL) *)
  Section Top.
    Variable fu : nat.
    Hypothesis Hfu : forall c d, In (c, d) (gen_tuple_ranges df 0 U64MAX) -> c <= d /\ d <= U64MAX /\ fits fu c d.

    Lemma top_update all all' h (g : rtree -> rtree) :
      off_eq h all all' -> h <= U64MAX ->
      (forall c d, c <= d -> fits fu c d -> inb c d h = true ->
                   g (build df th fu all c d) = build df th fu all' c d) ->
      update_nth (N.to_nat (bucket df 0 U64MAX h)) g
                 (map (fun r => build df th fu all (fst r) (snd r)) (gen_tuple_ranges df 0 U64MAX))
      = map (fun r => build df th fu all' (fst r) (snd r)) (gen_tuple_ranges df 0 U64MAX).
    Proof.
      intros Hoff Hh Hg.
      assert (H0 : 0 <= U64MAX) by (unfold U64MAX; lia).
      apply children_update; try assumption; [apply top_can_divide|unfold inb; lia|].
      intros c d Hin Hcdh. destruct (Hfu c d Hin) as (H1 & _ & H3). apply Hg; assumption.
    Qed.

    Lemma top_add all all' h :
      off_eq h all all' -> h <= U64MAX ->
      (forall a b, cnt a b all' = (cnt a b all + (if inb a b h then 1 else 0))%nat) ->
      add_elem df th (S fu) all' (build_top df th fu all) h = build_top df th fu all'.
    Proof.
      intros Hoff Hh Hcnt. unfold build_top. cbn zeta. cbn [add_elem].
      rewrite (top_update all all' h (fun c => add_elem df th fu all' c h) Hoff Hh).
      - rewrite !count_in_cnt, Hcnt. assert (E : inb 0 U64MAX h = true) by (unfold inb; lia). rewrite E.
        f_equal. lia.
      - intros c d Hcd Hfit Hin. apply add_build; assumption.
    Qed.

    Lemma top_update_elem all all' h :
      off_eq h all all' -> h <= U64MAX -> (forall a b, cnt a b all' = cnt a b all) ->
      update_elem df th (S fu) all' (build_top df th fu all) h = build_top df th fu all'.
    Proof.
      intros Hoff Hh Hcnt. unfold build_top. cbn zeta. cbn [update_elem].
      rewrite (top_update all all' h (fun c => update_elem df th fu all' c h) Hoff Hh).
      - rewrite !count_in_cnt, Hcnt. reflexivity.
      - intros c d Hcd Hfit Hin. apply update_build; assumption.
    Qed.

    Lemma top_remove all all' h :
      off_eq h all all' -> h <= U64MAX ->
      (forall a b, (cnt a b all' + (if inb a b h then 1 else 0))%nat = cnt a b all) ->
      remove_elem df th (S fu) true all' (build_top df th fu all) h = build_top df th fu all'.
    Proof.
      intros Hoff Hh Hcnt. unfold build_top. cbn zeta. cbn [remove_elem negb andb].
      rewrite (top_update all all' h (fun c => remove_elem df th fu false all' c h) Hoff Hh).
      - rewrite !count_in_cnt. specialize (Hcnt 0 U64MAX).
        assert (E : inb 0 U64MAX h = true) by (unfold inb; lia). rewrite E in Hcnt. f_equal. lia.
      - intros c d Hcd Hfit Hin. apply remove_build; assumption.
    Qed.

    Lemma top_noof all : noof (build_top df th fu all).
    Proof.
      unfold build_top. constructor. apply Forall_forall. intros t Ht.
      apply in_map_iff in Ht as ([c d] & <- & Hin). cbn [fst snd].
      destruct (Hfu c d Hin) as (H1 & _ & H3). apply build_noof; assumption.
    Qed.
  End Top.

  (* ---------------------------------------------------------------- the index invariant *)
  Variable H : N -> N.     (* the hash of an id (xxhash64 in the code): any function *)

  Record Inv (ix : index) : Prop := {
    inv_tree : tree ix = build_top df th FUEL (contents ix);
    inv_uniq : uniq_ids (contents ix);
    inv_hash : hashed H (contents ix);
    inv_bound : bounded (contents ix);
    inv_sorted : ssorted (contents ix)
  }.

  Definition elem_ok (e : elem) : Prop := ehash e = H (eid e) /\ ehash e <= U64MAX.
  Definition op_ok (o : op) : Prop := match o with OSet es => Forall elem_ok es | ORemove _ => True end.

  Lemma inv_fresh all : uniq_ids all -> hashed H all -> bounded all -> ssorted all -> Inv (fresh df th all).
  Proof. intros. constructor; cbn; auto. Qed.

  Lemma inv_is_fresh ix : Inv ix -> ix = fresh df th (contents ix).
  Proof. intros [Ht _ _ _ _]. destruct ix as [c t]. cbn in *. unfold fresh. rewrite Ht. reflexivity. Qed.

  Lemma inv_empty : Inv (empty_index df th).
  Proof.
    constructor; cbn; [reflexivity|constructor|intros x []|intros x []|constructor].
  Qed.

  Lemma set_one_inv ix e : Inv ix -> elem_ok e -> Inv (set_one df th ix e).
  Proof.
    intros [Ht Hu Hh Hb Hs] [He1 He2]. unfold set_one.
    set (all := contents ix) in *. set (all' := set_content e all).
    assert (Hoff : off_eq (ehash e) all all').
    { eapply off_eq_trans; [|apply off_eq_insert]. apply off_eq_delete.
      intros x Hx Hid. rewrite (Hh x Hx), Hid, He1. reflexivity. }
    destruct (has_id (eid e) all) eqn:Hhas; constructor; cbn [contents tree];
      try (apply uniq_set_content; assumption); try (apply hashed_set_content; assumption);
      try (apply bounded_set_content; assumption); try (apply ssorted_set_content; assumption).
    - (* existing id: counts unchanged *)
      rewrite Ht. apply (top_update_elem FUEL top_child_fits); [exact Hoff|exact He2|].
      intros a b. unfold all', set_content. rewrite cnt_insert.
      apply has_id_spec in Hhas as (x & Hx & Hid).
      pose proof (cnt_delete a b (ehash e) (eid e) all Hu
                   (ex_intro _ x (conj Hx (conj Hid (eq_trans (Hh x Hx) (eq_trans (f_equal H Hid) (eq_sym He1))))))).
      lia.
    - (* new id *)
      rewrite Ht. apply (top_add FUEL top_child_fits); [exact Hoff|exact He2|].
      intros a b. unfold all', set_content. rewrite (delete_absent _ _ Hhas). apply cnt_insert.
  Qed.

  Lemma set_many_inv es : forall ix, Inv ix -> Forall elem_ok es -> Inv (set_many df th ix es).
  Proof.
    unfold set_many. induction es as [|e r IH]; intros ix Hix Hes; [exact Hix|].
    cbn [fold_left]. inversion Hes; subst. apply IH; [apply set_one_inv|]; assumption.
  Qed.

  Lemma remove_id_inv ix id : Inv ix -> Inv (fst (remove_id df th ix id)).
  Proof.
    intros Hix. pose proof Hix as [Ht Hu Hh Hb Hs]. unfold remove_id.
    destruct (hash_of_id id (contents ix)) as [h|] eqn:Hf; cbn [fst]; [|exact Hix].
    apply hash_of_id_some in Hf as (x & Hx & Hid & Hxh).
    constructor; cbn [contents tree];
      [|apply uniq_delete, Hu|apply hashed_delete, Hh|apply bounded_delete, Hb|apply ssorted_filter, Hs].
    rewrite Ht. apply (top_remove FUEL top_child_fits).
    - apply off_eq_delete. intros y Hy Hyid. rewrite (Hh y Hy), Hyid, <- Hid, <- (Hh x Hx). exact Hxh.
    - rewrite <- Hxh. apply Hb, Hx.
    - intros a b. apply cnt_delete; [exact Hu|eauto].
  Qed.

  Lemma step_inv ix o : Inv ix -> op_ok o -> Inv (step df th ix o).
  Proof. destruct o; cbn [step op_ok]; intros; [apply set_many_inv|apply remove_id_inv]; assumption. Qed.

  Theorem run_ops_inv ops : Forall op_ok ops -> Inv (run_ops df th ops).
  Proof.
    unfold run_ops. generalize inv_empty. generalize (empty_index df th).
    induction ops as [|o r IH]; intros ix Hix Hops; [exact Hix|].
    cbn [fold_left]. inversion Hops; subst. apply IH; [apply step_inv|]; assumption.
  Qed.

  (* C08: the index after any history is the index freshly filled with its contents *)
  Theorem run_ops_canonical ops : Forall op_ok ops ->
    run_ops df th ops = fresh df th (contents (run_ops df th ops)).
  Proof. intros Hops. apply inv_is_fresh, run_ops_inv, Hops. Qed.

  (* ... and the contents list itself is canonical: two histories holding the same entries hold the same list *)
  Theorem same_entries_same_index ops1 ops2 :
    Forall op_ok ops1 -> Forall op_ok ops2 ->
    (forall e, In e (contents (run_ops df th ops1)) <-> In e (contents (run_ops df th ops2))) ->
    run_ops df th ops1 = run_ops df th ops2.
  Proof.
    intros H1 H2 Hext. rewrite (run_ops_canonical ops1 H1), (run_ops_canonical ops2 H2). f_equal.
    apply ssorted_ext; [apply (run_ops_inv ops1 H1)|apply (run_ops_inv ops2 H2)|exact Hext].
  Qed.

  Theorem fresh_noof all : noof (tree (fresh df th all)).
  Proof. apply (top_noof FUEL top_child_fits). Qed.
End Tree.
