(* Proofs about Model/StreamPool.v (property C19), part 6: FIFO over the MsgSend log of a harness-level history.
   During operation i of an [expand]ed history every message accepted by any queue is the number i ([Dop]: invariant over
   the callers' pending programs and the dial queue: a program / job keyed cid <> 0 carries message cid - 1, so the only
   programs written during operation i — caller 0 after its Broadcast / SendById, caller i+1 of a Send — carry i).  Hence
   every [st_accepted] is nondecreasing and bounded by the current operation index, [st_taken] is a prefix of it, and a
   closed queue accepts nothing more. *)
From Coq Require Import List NArith Bool Lia Arith Permutation Sorted.
Import ListNotations.
From AnySync Require Import Model.StreamPool Proofs.StreamPoolProofs Proofs.StreamPoolIndex Proofs.StreamPoolSpec
  Proofs.StreamPoolHist Proofs.StreamPoolSnap.
Open Scope N_scope.

(* ------------------------------------------------------------------ a generic forward relation between heaps *)
Section HeapRel.
  Variable R : stream -> stream -> Prop.
  Hypothesis R_refl : forall x, R x x.
  Hypothesis R_trans : forall x y z, R x y -> R y z -> R x z.
  Hypothesis R_write : forall st m, R st (fst (write_stream st m)).
  Hypothesis R_take : forall st, R st (fst (take st)).
  Hypothesis R_send_ok : forall st, R st (send_ok st).
  Hypothesis R_send_fail : forall st, R st (send_fail st).
  Hypothesis R_read_err : forall st, R st (read_err st).
  Hypothesis R_close_queue : forall st, R st (close_queue st).
  Hypothesis R_mark_removed : forall st, R st (mark_removed st).
  Hypothesis R_set_tags : forall st t, R st (set_tags st t).

  Definition heap_rel (h h' : heap) : Prop :=
    forall sid x, hget sid h = Some x -> exists y, hget sid h' = Some y /\ R x y.

  Lemma heap_rel_refl : forall h, heap_rel h h.
  Proof. intros h sid x H. exists x. split; [exact H | apply R_refl]. Qed.

  Lemma heap_rel_trans : forall a b c, heap_rel a b -> heap_rel b c -> heap_rel a c.
  Proof.
    intros a b c H1 H2 sid x Hx. destruct (H1 sid x Hx) as (y & Hy & G1).
    destruct (H2 sid y Hy) as (z & Hz & G2). exists z. split; [exact Hz | eapply R_trans; eauto].
  Qed.

  Lemma heap_rel_hset : forall h sid x y, hget sid h = Some x -> R x y -> heap_rel h (hset sid y h).
  Proof.
    intros h sid x y Hx Hg sid' x' Hx'. destruct (N.eq_dec sid' sid) as [->|Hne].
    - rewrite hget_hset_same. exists y. split; [reflexivity|]. congruence.
    - rewrite hget_hset_other by exact Hne. exists x'. split; [exact Hx' | apply R_refl].
  Qed.

  Lemma heap_rel_hset_new : forall h sid y, hget sid h = None -> heap_rel h (hset sid y h).
  Proof.
    intros h sid y Hn sid' x' Hx'. destruct (N.eq_dec sid' sid) as [->|Hne]; [congruence|].
    rewrite hget_hset_other by exact Hne. exists x'. split; [exact Hx' | apply R_refl].
  Qed.

  Lemma upd_stream_rel : forall s sid f, (forall st, R st (f st)) -> heap_rel (objs s) (objs (upd_stream s sid f)).
  Proof.
    intros s sid f Hf. unfold upd_stream. destruct (hget sid (objs s)) as [st|] eqn:E; [|apply heap_rel_refl].
    cbn. eapply heap_rel_hset; eauto.
  Qed.

  Lemma add_stream_rel : forall s p c t g, idx_inv s -> heap_rel (objs s) (objs (fst (add_stream s p c t g))).
  Proof. intros s p c t g Hi. unfold add_stream. cbn. apply heap_rel_hset_new. apply fresh_id; exact Hi. Qed.

  Theorem step_heap_rel : forall s l, idx_inv s -> heap_rel (objs s) (objs (step s l)).
  Proof.
    intros s l Hi. unfold step, step_out. destruct (fatal s || panicked s); [apply heap_rel_refl|].
    destruct l; cbn [fst].
    - pose proof (add_stream_rel s peer cap tags cgate Hi) as H.
      destruct (add_stream s peer cap tags cgate); cbn [fst] in *; exact H.
    - rewrite objs_start_caller. apply heap_rel_refl.
    - rewrite objs_start_caller. apply heap_rel_refl.
    - unfold do_write. destruct (cget cid (callers s)) as [p|]; [|apply heap_rel_refl].
      destruct (next_target (p_groups p)) as [[[sid g] rest]|]; [|apply heap_rel_refl].
      destruct (hget sid (objs s)) as [st|] eqn:E; [|apply heap_rel_refl].
      pose proof (R_write st (p_msg p)) as Hg. destruct (write_stream st (p_msg p)) as [st' r]. cbn [fst] in *.
      cbn. eapply heap_rel_hset; eauto.
    - unfold add_tags. destruct (negb (memN sid (pool_ids s))); [apply heap_rel_refl|].
      destruct (hget sid (objs s)) as [st|] eqn:E; [|apply heap_rel_refl].
      destruct (add_new_tags (st_tags st) tags) as [cur' newt]. cbn.
      eapply heap_rel_hset; eauto.
    - unfold remove_tags. destruct (negb (memN sid (pool_ids s))); [apply heap_rel_refl|].
      destruct (hget sid (objs s)) as [st|] eqn:E; [|apply heap_rel_refl].
      destruct (idx_remove_all _ _ sid); cbn; eapply heap_rel_hset; eauto.
    - destruct (all_in_pool s (streams_of s tags)); apply heap_rel_refl.
    - destruct (hget sid (objs s)) as [st|] eqn:E; [|apply heap_rel_refl].
      pose proof (R_take st) as Hg. destruct (take st) as [st' o]. cbn [fst] in *. cbn.
      eapply heap_rel_hset; eauto.
    - apply upd_stream_rel, R_send_ok.
    - apply upd_stream_rel, R_send_fail.
    - apply upd_stream_rel, R_read_err.
    - apply upd_stream_rel, R_close_queue.
    - unfold remove_stream. destruct (hget sid (objs s)) as [st|] eqn:E; [|apply heap_rel_refl].
      destruct (st_qclosed st && negb (st_removed st)); [|apply heap_rel_refl].
      destruct (negb (memN sid (pool_ids s))); [apply heap_rel_refl|].
      destruct (idx_remove (by_peer s) (st_peer st) sid); [|apply heap_rel_refl].
      destruct (idx_remove_all (by_tag s) (st_tags st) sid); [|apply heap_rel_refl].
      cbn. eapply heap_rel_hset; eauto.
    - unfold send_enqueue. destruct (_ && _); apply heap_rel_refl.
    - unfold dial_take. destruct (running s <? dial_workers (cfg s)); [|apply heap_rel_refl].
      destruct (dialq s) as [|[[c m] ps] q]; apply heap_rel_refl.
    - unfold dial_peer. destruct (cget cid (callers s)) as [p|]; [|apply heap_rel_refl].
      destruct (next_target (p_groups p)); [apply heap_rel_refl|].
      destruct (p_peers p) as [|peer rest]; [apply heap_rel_refl|].
      destruct (mget peer (by_peer s)) as [|x g].
      + destruct opn as [[[cap tags] cg]|]; [|apply heap_rel_refl].
        pose proof (add_stream_rel s peer cap tags cg Hi) as H.
        destruct (add_stream s peer cap tags cg) as [s1 sid]; cbn [fst] in *.
        rewrite objs_start_caller. exact H.
      + cbn [fst]. rewrite objs_start_caller. apply heap_rel_refl.
    - unfold dial_done. destruct (cget cid (callers s)) as [p|]; [|apply heap_rel_refl].
      destruct (next_target (p_groups p)); [apply heap_rel_refl|]. destruct (p_peers p); [|apply heap_rel_refl].
      destruct (p_mode p); try apply heap_rel_refl. destruct (0 <? running s); apply heap_rel_refl.
  Qed.

  Theorem run_heap_rel : forall tr s, idx_inv s -> heap_rel (objs s) (objs (run s tr)).
  Proof.
    induction tr as [|l tr IH]; intros s Hi; cbn [run fold_left]; [apply heap_rel_refl|].
    eapply heap_rel_trans; [apply step_heap_rel; exact Hi|]. apply IH. apply step_idx_inv; exact Hi.
  Qed.
End HeapRel.

(* the relation used below: what was handed to MsgSend stays handed, a closed queue accepts nothing more, removal is
   irreversible *)
Definition ge2 (x y : stream) : Prop :=
  (forall m, In m (st_taken x) -> In m (st_taken y))
  /\ (st_qclosed x = true -> st_accepted y = st_accepted x)
  /\ (st_qclosed x = true -> st_qclosed y = true)
  /\ (st_removed x = true -> st_removed y = true).

Lemma ge2_refl : forall x, ge2 x x.
Proof. intros x. repeat split; auto. Qed.

Lemma ge2_trans : forall x y z, ge2 x y -> ge2 y z -> ge2 x z.
Proof.
  intros x y z (A1 & A2 & A3 & A4) (B1 & B2 & B3 & B4). repeat split; auto.
  intros H. rewrite (B2 (A3 H)). apply A2; exact H.
Qed.

Lemma ge2_write : forall st m, ge2 st (fst (write_stream st m)).
Proof.
  intros st m. unfold write_stream. destruct (st_qclosed st) eqn:E; [apply ge2_refl|].
  destruct (st_cap st <=? N.of_nat (length (st_queue st))); [apply ge2_refl|].
  cbn [fst]. repeat split; cbn; auto; intros; congruence.
Qed.

Lemma ge2_take : forall st, ge2 st (fst (take st)).
Proof.
  intros st. unfold take. destruct (st_wdone st); [apply ge2_refl|]. destruct (st_inflight st); [apply ge2_refl|].
  destruct (st_queue st).
  - destruct (st_qclosed st) eqn:E; [|apply ge2_refl]. cbn [fst]. repeat split; cbn; auto.
  - cbn [fst]. repeat split; cbn; auto. intros x Hx. apply in_or_app. left; exact Hx.
Qed.

Lemma ge2_send_ok : forall st, ge2 st (send_ok st).
Proof. intros st. unfold send_ok. destruct (st_inflight st); [repeat split; cbn; auto | apply ge2_refl]. Qed.
Lemma ge2_send_fail : forall st, ge2 st (send_fail st).
Proof. intros st. unfold send_fail. destruct (st_inflight st); [repeat split; cbn; auto | apply ge2_refl]. Qed.
Lemma ge2_read_err : forall st, ge2 st (read_err st).
Proof. intros st. repeat split; cbn; auto. Qed.
Lemma ge2_close_queue : forall st, ge2 st (close_queue st).
Proof.
  intros st. unfold close_queue. destruct (st_closing st && negb (st_qclosed st)); [repeat split; cbn; auto | apply ge2_refl].
Qed.
Lemma ge2_mark_removed : forall st, ge2 st (mark_removed st).
Proof. intros st. repeat split; cbn; auto. Qed.
Lemma ge2_set_tags : forall st t, ge2 st (set_tags st t).
Proof. intros st t. repeat split; cbn; auto. Qed.

Theorem run_heap_ge2 : forall tr s, idx_inv s -> heap_rel ge2 (objs s) (objs (run s tr)).
Proof.
  exact (run_heap_rel ge2 ge2_refl ge2_trans ge2_write ge2_take ge2_send_ok ge2_send_fail ge2_read_err
           ge2_close_queue ge2_mark_removed ge2_set_tags).
Qed.

Theorem step_heap_ge2 : forall s l, idx_inv s -> heap_rel ge2 (objs s) (objs (step s l)).
Proof. intros s l Hi. exact (run_heap_ge2 [l] s Hi). Qed.

(* ------------------------------------------------------------------ the per-operation invariant *)
Definition acc_ok (i : N) (st : stream) : Prop :=
  StronglySorted N.le (st_accepted st) /\ Forall (fun x => x <= i) (st_accepted st).

Definition call_ok (i : N) (b : bool) (cid : N) (p : pending) : Prop :=
  p_msg p <= i /\ (cid <> 0 -> cid = p_msg p + 1) /\ (cid = 0 -> b = true -> p_msg p = i).

Record Dop (i : N) (b : bool) (s : state) : Prop := mkDop {
  d_acc  : forall sid st, hget sid (objs s) = Some st -> acc_ok i st;
  d_call : forall cid p, cget cid (callers s) = Some p -> call_ok i b cid p;
  d_dial : forall cid m ps, In (cid, m, ps) (dialq s) -> m <= i /\ cid = m + 1
}.

(* labels that may occur in the expansion of operation i; [b]: caller 0 has started its program in this operation *)
Definition lab_ok (i : N) (b : bool) (l : label) : Prop :=
  match l with
  | LBroadcast c m _ | LSendById c m _ => c = 0 /\ m = i
  | LSend c m _ => c = m + 1 /\ m = i
  | LWrite c => c = i + 1 \/ (c = 0 /\ b = true)
  | _ => True
  end.

Definition next_b (b : bool) (l : label) : bool :=
  match l with LBroadcast _ _ _ | LSendById _ _ _ => true | _ => b end.

Fixpoint ls_ok (i : N) (b : bool) (ls : list label) : Prop :=
  match ls with
  | [] => True
  | l :: r => lab_ok i b l /\ ls_ok i (next_b b l) r
  end.

Fixpoint last_b (b : bool) (ls : list label) : bool :=
  match ls with [] => b | l :: r => last_b (next_b b l) r end.

Lemma sorted_app_one : forall l m, StronglySorted N.le l -> Forall (fun x => x <= m) l -> StronglySorted N.le (l ++ [m]).
Proof.
  induction l as [|a l IH]; intros m Hs Hf; cbn [app].
  - constructor; constructor.
  - inversion Hs as [|a' l' Hs' Ha]; subst. inversion Hf as [|a' l' Ham Hf']; subst.
    constructor; [apply IH; assumption|]. apply Forall_app. split; [exact Ha|]. constructor; [exact Ham|constructor].
Qed.

Lemma acc_ok_write : forall i st, acc_ok i st -> acc_ok i (fst (write_stream st i)).
Proof.
  intros i st [Hs Hf]. unfold write_stream. destruct (st_qclosed st); [split; assumption|].
  destruct (st_cap st <=? N.of_nat (length (st_queue st))); [split; assumption|].
  cbn [fst]. unfold acc_ok. cbn [st_accepted]. split.
  - apply sorted_app_one; assumption.
  - apply Forall_app. split; [exact Hf|]. constructor; [lia|constructor].
Qed.

Lemma acc_take : forall st, st_accepted (fst (take st)) = st_accepted st.
Proof.
  intros st. unfold take. destruct (st_wdone st); [reflexivity|]. destruct (st_inflight st); [reflexivity|].
  destruct (st_queue st); [|reflexivity]. destruct (st_qclosed st); reflexivity.
Qed.
Lemma acc_send_ok : forall st, st_accepted (send_ok st) = st_accepted st.
Proof. intros st. unfold send_ok. destruct (st_inflight st); reflexivity. Qed.
Lemma acc_send_fail : forall st, st_accepted (send_fail st) = st_accepted st.
Proof. intros st. unfold send_fail. destruct (st_inflight st); reflexivity. Qed.
Lemma acc_close_queue : forall st, st_accepted (close_queue st) = st_accepted st.
Proof. intros st. unfold close_queue. destruct (st_closing st && negb (st_qclosed st)); reflexivity. Qed.

Lemma acc_ok_eq : forall i x y, st_accepted y = st_accepted x -> acc_ok i x -> acc_ok i y.
Proof. intros i x y E H. unfold acc_ok in *. rewrite E. exact H. Qed.

Lemma acc_hset : forall i h k st',
  (forall sid st, hget sid h = Some st -> acc_ok i st) -> acc_ok i st' ->
  forall sid st, hget sid (hset k st' h) = Some st -> acc_ok i st.
Proof.
  intros i h k st' Hh Hst sid st Hg. rewrite hget_hset in Hg.
  destruct (sid =? k); [inversion Hg; subst; exact Hst | eapply Hh; eauto].
Qed.

Lemma acc_upd_stream : forall i s k f,
  (forall st, st_accepted (f st) = st_accepted st) ->
  (forall sid st, hget sid (objs s) = Some st -> acc_ok i st) ->
  forall sid st, hget sid (objs (upd_stream s k f)) = Some st -> acc_ok i st.
Proof.
  intros i s k f Hf Hh. unfold upd_stream. destruct (hget k (objs s)) as [x|] eqn:E; [|exact Hh].
  cbn [objs upd_objs]. apply acc_hset; [exact Hh|]. eapply acc_ok_eq; [apply Hf | eapply Hh; eauto].
Qed.

Lemma acc_add_stream : forall i s p c t g,
  (forall sid st, hget sid (objs s) = Some st -> acc_ok i st) ->
  forall sid st, hget sid (objs (fst (add_stream s p c t g))) = Some st -> acc_ok i st.
Proof.
  intros i s p c t g Hh. unfold add_stream. cbn [fst objs]. apply acc_hset; [exact Hh|].
  split; cbn [st_accepted]; constructor.
Qed.

Lemma cget_cdel_same : forall cid l, cget cid (cdel cid l) = None.
Proof.
  intros cid l; induction l as [|[k v] r IH]; cbn [cdel cget]; [reflexivity|].
  destruct (cid =? k) eqn:E; [exact IH|]. cbn [cget]. rewrite E. exact IH.
Qed.

Lemma call_cset : forall i b b' cs c p0,
  (forall cid p, cget cid cs = Some p -> call_ok i b cid p) -> call_ok i b' c p0 ->
  (forall cid p, cid <> c -> call_ok i b cid p -> call_ok i b' cid p) ->
  forall cid p, cget cid (cset c p0 cs) = Some p -> call_ok i b' cid p.
Proof.
  intros i b b' cs c p0 Hcs H0 Hw cid p Hg. destruct (N.eq_dec cid c) as [->|Hne].
  - rewrite cget_cset_same in Hg. inversion Hg; subst. exact H0.
  - rewrite cget_cset_other in Hg by exact Hne. apply Hw; [exact Hne|]. apply Hcs; exact Hg.
Qed.

Lemma call_cdel : forall i b cs c,
  (forall cid p, cget cid cs = Some p -> call_ok i b cid p) ->
  forall cid p, cget cid (cdel c cs) = Some p -> call_ok i b cid p.
Proof.
  intros i b cs c Hcs cid p Hg. destruct (N.eq_dec cid c) as [->|Hne].
  - rewrite cget_cdel_same in Hg. discriminate.
  - rewrite cget_cdel_other in Hg by exact Hne. apply Hcs; exact Hg.
Qed.

Lemma Dop_start_caller : forall i b s cid m md gs ps,
  Dop i b s -> call_ok i b cid (mkPending m md gs ps) -> Dop i b (start_caller s cid m md gs ps).
Proof.
  intros i b s cid m md gs ps [Ha Hc Hd] H0. unfold start_caller. destruct (all_in_pool s (concat gs)).
  - constructor; cbn [objs callers dialq upd_callers]; auto.
    eapply call_cset; eauto.
  - constructor; auto.
Qed.

(* a Broadcast / SendById of caller 0 with the current message (the state is alive): afterwards caller 0 carries i *)
Lemma Dop_start0 : forall i b s md gs ps, Dop i b s ->
  dead (start_caller s 0 i md gs ps) = false -> Dop i true (start_caller s 0 i md gs ps).
Proof.
  intros i b s md gs ps [Ha Hc Hd] Hdead. unfold start_caller in *. destruct (all_in_pool s (concat gs)).
  - constructor; cbn [objs callers dialq upd_callers]; auto.
    eapply call_cset; [exact Hc | | ].
    + repeat split; cbn [p_msg]; intros; try lia; try reflexivity; try (exfalso; auto; fail).
    + intros cid p Hne (H1 & H2 & H3). repeat split; auto; try (intros E; contradiction).
  - unfold dead in Hdead. cbn in Hdead. rewrite orb_true_r in Hdead. discriminate.
Qed.

Theorem step_Dop : forall i b s l, idx_inv s -> Dop i b s -> lab_ok i b l -> Dop i (next_b b l) (step s l).
Proof.
  intros i b s l Hi HD Hl.
  pose proof (ii_alive _ (step_idx_inv s l Hi)) as Hal.
  destruct HD as [Ha Hc Hd].
  unfold step, step_out in *. rewrite (dead_false_of_inv s Hi) in *.
  destruct l; cbn [fst next_b lab_ok] in *.
  - constructor; auto. apply acc_add_stream; exact Ha.
  - destruct Hl as [-> ->]. eapply Dop_start0; [constructor; eauto | exact Hal].
  - destruct Hl as [-> ->]. eapply Dop_start0; [constructor; eauto | exact Hal].
  - (* LWrite *)
    unfold do_write in *. destruct (cget cid (callers s)) as [p|] eqn:Ec; cbn [fst]; [|constructor; auto].
    destruct (next_target (p_groups p)) as [[[sid g] rest]|]; cbn [fst]; [|constructor; auto].
    destruct (hget sid (objs s)) as [st|] eqn:Eh; cbn [fst]; [|constructor; auto].
    pose proof (Hc _ _ Ec) as (C1 & C2 & C3).
    assert (Hm : p_msg p = i).
    { destruct Hl as [->|[-> Hb]]; [|apply C3; auto]. assert (i + 1 <> 0) by lia. specialize (C2 H). lia. }
    pose proof (acc_ok_write i st (Ha _ _ Eh)) as Hw. rewrite Hm.
    destruct (write_stream st i) as [st' r]; cbn [fst] in *.
    constructor; cbn [objs callers dialq upd_callers upd_objs]; auto.
    + apply acc_hset; assumption.
    + rewrite Hm in C1, C2, C3. eapply call_cset; [exact Hc | | auto]. repeat split; cbn [p_msg]; auto.
  - unfold add_tags. destruct (negb (memN sid (pool_ids s))); cbn [fst]; [constructor; auto|].
    destruct (hget sid (objs s)) as [st|] eqn:Eh; cbn [fst]; [|constructor; auto].
    destruct (add_new_tags (st_tags st) tags) as [cur' newt]; cbn [fst].
    constructor; cbn [objs callers dialq upd_by_tag upd_objs]; auto.
    apply acc_hset; [exact Ha|]. eapply acc_ok_eq; [|eapply Ha; eauto]. reflexivity.
  - unfold remove_tags. destruct (negb (memN sid (pool_ids s))); cbn [fst]; [constructor; auto|].
    destruct (hget sid (objs s)) as [st|] eqn:Eh; cbn [fst]; [|constructor; auto].
    match goal with |- context [idx_remove_all ?a ?b ?c] => destruct (idx_remove_all a b c) end; cbn [fst];
      (constructor; cbn [objs callers dialq upd_by_tag upd_objs set_fatal]; auto;
       apply acc_hset; [exact Ha|]; eapply acc_ok_eq; [|eapply Ha; eauto]; reflexivity).
  - destruct (all_in_pool s (streams_of s tags)); cbn [fst]; constructor; auto.
  - destruct (hget sid (objs s)) as [st|] eqn:Eh; cbn [fst]; [|constructor; auto].
    pose proof (acc_take st) as Ht. destruct (take st) as [st' o]; cbn [fst] in *.
    constructor; cbn [objs callers dialq upd_objs]; auto.
    apply acc_hset; [exact Ha|]. eapply acc_ok_eq; [exact Ht | eapply Ha; eauto].
  - constructor; [apply acc_upd_stream; [apply acc_send_ok | exact Ha] | |];
      unfold upd_stream; destruct (hget sid (objs s)); auto.
  - constructor; [apply acc_upd_stream; [apply acc_send_fail | exact Ha] | |];
      unfold upd_stream; destruct (hget sid (objs s)); auto.
  - constructor; [apply acc_upd_stream; [reflexivity | exact Ha] | |];
      unfold upd_stream; destruct (hget sid (objs s)); auto.
  - constructor; [apply acc_upd_stream; [apply acc_close_queue | exact Ha] | |];
      unfold upd_stream; destruct (hget sid (objs s)); auto.
  - unfold remove_stream. destruct (hget sid (objs s)) as [st|] eqn:Eh; [|constructor; auto].
    destruct (st_qclosed st && negb (st_removed st)); [|constructor; auto].
    destruct (negb (memN sid (pool_ids s))); [constructor; auto|].
    destruct (idx_remove (by_peer s) (st_peer st) sid); [|constructor; auto].
    destruct (idx_remove_all (by_tag s) (st_tags st) sid); [|constructor; auto].
    constructor; cbn [objs callers dialq]; auto.
    apply acc_hset; [exact Ha|]. eapply acc_ok_eq; [|eapply Ha; eauto]. reflexivity.
  - destruct Hl as [Hcm ->]. unfold send_enqueue. destruct (_ && _); cbn [fst]; [constructor; auto|].
    constructor; cbn [objs callers dialq upd_dial]; auto.
    intros c m ps Hin. apply in_app_or in Hin. destruct Hin as [Hin|[Hin|[]]]; [eapply Hd; eauto|].
    inversion Hin; subst. split; [lia|reflexivity].
  - unfold dial_take. destruct (running s <? dial_workers (cfg s)); [|constructor; auto].
    destruct (dialq s) as [|[[c m] ps] q] eqn:Eq; [constructor; auto; rewrite Eq; auto|].
    constructor; cbn [objs callers dialq upd_callers upd_dial]; auto.
    + destruct (Hd c m ps (or_introl eq_refl)) as [D1 D2].
      eapply call_cset; [exact Hc | | auto]. repeat split; cbn [p_msg]; auto. intros E. lia.
    + intros c' m' ps' Hin. eapply Hd. right; exact Hin.
  - unfold dial_peer. destruct (cget cid (callers s)) as [p|] eqn:Ec; cbn [fst]; [|constructor; auto].
    destruct (next_target (p_groups p)); cbn [fst]; [constructor; auto|].
    destruct (p_peers p) as [|peer rest]; cbn [fst]; [constructor; auto|].
    pose proof (Hc _ _ Ec) as Hcp.
    destruct (mget peer (by_peer s)) as [|x g].
    + destruct opn as [[[cap tags] cg]|]; cbn [fst].
      * pose proof (acc_add_stream i s peer cap tags cg Ha) as Hadd.
        assert (Hcal : callers (fst (add_stream s peer cap tags cg)) = callers s) by reflexivity.
        assert (Hdq : dialq (fst (add_stream s peer cap tags cg)) = dialq s) by reflexivity.
        destruct (add_stream s peer cap tags cg) as [s1 k]; cbn [fst] in *.
        apply Dop_start_caller; [constructor; [exact Hadd | rewrite Hcal; exact Hc | rewrite Hdq; exact Hd]|].
        exact Hcp.
      * constructor; cbn [objs callers dialq upd_callers]; auto.
        eapply call_cset; [exact Hc | exact Hcp | auto].
    + cbn [fst]. apply Dop_start_caller; [constructor; auto | exact Hcp].
  - unfold dial_done. destruct (cget cid (callers s)) as [p|]; [|constructor; auto].
    destruct (next_target (p_groups p)); [constructor; auto|]. destruct (p_peers p); [|constructor; auto].
    destruct (p_mode p); try (constructor; auto; fail). destruct (0 <? running s); [|constructor; auto].
    constructor; cbn [objs callers dialq upd_callers upd_dial]; auto. apply call_cdel; exact Hc.
Qed.

Theorem run_Dop : forall ls i b s, idx_inv s -> Dop i b s -> ls_ok i b ls -> Dop i (last_b b ls) (run s ls).
Proof.
  induction ls as [|l ls IH]; intros i b s Hi HD Hok; cbn [run fold_left last_b]; [exact HD|].
  destruct Hok as [H1 H2]. apply IH; [apply step_idx_inv; exact Hi | apply step_Dop; assumption | exact H2].
Qed.

(* from one operation to the next *)
Lemma Dop_next : forall i b s, Dop i b s -> Dop (N.succ i) false s.
Proof.
  intros i b s [Ha Hc Hd]. constructor.
  - intros sid st Hg. destruct (Ha _ _ Hg) as [H1 H2]. split; [exact H1|].
    eapply Forall_impl; [|exact H2]. cbn. intros; lia.
  - intros cid p Hg. destruct (Hc _ _ Hg) as (H1 & H2 & H3). repeat split; auto; [lia | intros; discriminate].
  - intros cid m ps Hin. destruct (Hd _ _ _ Hin). split; [lia | assumption].
Qed.

Lemma Dop_init : forall c, Dop 0 false (init c).
Proof. intros c. constructor; cbn; intros; try discriminate; tauto. Qed.
