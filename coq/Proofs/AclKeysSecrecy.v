(* C05 — the model satisfies the property predicate: for every honest history over a universe of observed accounts
   that covers every account that is ever admitted, [spec_C05] is true on what the model presents.

   * list lemmas: [set_eqb] / [sort_N] / [dedup] (extensionality);
   * more step facts of the ACL machine: what a content does to the invites; the validated recipients of a rotation;
   * [KInvX] = [KInv] + secrecy for invite-key principals (an invite key is given a generation only at a moment at
     which an anyone-can-join invite with that key is live) + "a live open invite leads to the current key";
     preserved by every honest content / record / history;
   * the per-record walk that ties the trace to the allowed sets the predicate builds ([admit_allow]);
   * the [rot_exact] clause over observed member lists / open invites;
   * the simulation [Sim] between the model state and the predicate's state, and the theorem. *)
From Coq Require Import List NArith Bool Lia Permutation.
Import ListNotations.
From AnySync Require Import Model.Acl Model.AclKeys Proofs.AclBase Proofs.AclKeysBase Proofs.AclKeysStep Proofs.AclKeysInv
  Proofs.AclKeysView Proofs.AclKeysSpec.
Open Scope N_scope.

(* ------------------------------------------------------------------------------------------ what the model presents *)
Definition model_obs (ms : mstate) (U : list acct) : list aobs :=
  map (fun a => let v := match mget a (m_views ms) with Some v => v | None => None end in
                mkAobs a (perm_of (m_s ms) a) (ids_of v) (ids_of v) (right_of v)) U.
Fixpoint model_steps (ms : mstate) (U : list acct) (h : list hrec) : list step :=
  match h with
  | [] => []
  | x :: rest =>
      let res := krecord_step false ms (fst (fst x)) (snd (fst x)) (snd x) in
      mkStep (fst (fst x)) (snd (fst x)) (snd x) (snd res) (cur_key (m_s (fst res))) (open_invites (m_s (fst res)))
             (model_obs (fst res) U) :: model_steps (fst res) U rest
  end.
(* the observed universe contains the owner and every identity a content of the history admits *)
Definition covers (U : list acct) (owner : acct) (h : list hrec) : bool :=
  memN owner U && forallb (fun x : hrec => forallb (fun ck : kcontent => subsetN (admits (fst ck)) U) (snd x)) h.

(* ------------------------------------------------------------------------------------------ sort_N, dedup, set_eqb *)
Lemma insert_sorted_perm : forall x l, Permutation (x :: l) (insert_sorted x l).
Proof.
  intros x l. induction l as [|y r IH]; cbn [insert_sorted]; [reflexivity|].
  destruct (x <=? y); [reflexivity|]. eapply perm_trans; [apply perm_swap|]. now apply perm_skip.
Qed.
Lemma sort_N_perm : forall l, Permutation l (sort_N l).
Proof.
  induction l as [|x r IH]; cbn [sort_N fold_right]; [constructor|]. fold (sort_N r).
  eapply perm_trans; [apply perm_skip, IH|apply insert_sorted_perm].
Qed.

Fixpoint sortedN (l : list N) : Prop :=
  match l with [] => True | x :: r => (forall y, In y r -> x <= y) /\ sortedN r end.
Lemma insert_sorted_sorted : forall x l, sortedN l -> sortedN (insert_sorted x l).
Proof.
  intros x l. induction l as [|y r IH]; intros Hs; cbn [insert_sorted].
  - cbn. split; [intros ? []|exact I].
  - cbn [sortedN] in Hs. destruct Hs as [Hy Hr]. destruct (N.leb_spec x y) as [Hle|Hgt].
    + cbn [sortedN]. split; [|now split]. intros z [<-|Hz]; [exact Hle|]. specialize (Hy z Hz). lia.
    + cbn [sortedN]. split; [|now apply IH]. intros z Hz. apply insert_sorted_In in Hz.
      destruct Hz as [->|Hz]; [lia|now apply Hy].
Qed.
Lemma sort_N_sorted : forall l, sortedN (sort_N l).
Proof.
  induction l as [|x r IH]; cbn [sort_N fold_right]; [exact I|]. fold (sort_N r). now apply insert_sorted_sorted.
Qed.
Lemma sorted_nodup_ext : forall a b, sortedN a -> sortedN b -> NoDup a -> NoDup b ->
  (forall x, In x a <-> In x b) -> a = b.
Proof.
  induction a as [|x a IH]; intros b Hsa Hsb Hna Hnb He.
  - destruct b as [|y b]; [reflexivity|]. exfalso. apply (proj2 (He y)). now left.
  - destruct b as [|y b]; [exfalso; apply (proj1 (He x)); now left|].
    cbn [sortedN] in Hsa, Hsb. destruct Hsa as [Hxa Hsa], Hsb as [Hyb Hsb].
    inversion Hna as [|x' a' Hxn Hna']; subst. inversion Hnb as [|y' b' Hyn Hnb']; subst.
    assert (Exy : x = y).
    { destruct (proj1 (He x) (or_introl eq_refl)) as [E|Hxb]; [now symmetry|].
      destruct (proj2 (He y) (or_introl eq_refl)) as [E|Hya]; [exact E|].
      specialize (Hxa y Hya). specialize (Hyb x Hxb). lia. }
    subst y. f_equal. apply IH; try assumption.
    intros z. split; intros Hz.
    + destruct (proj1 (He z) (or_intror Hz)) as [E|H]; [subst z; contradiction|exact H].
    + destruct (proj2 (He z) (or_intror Hz)) as [E|H]; [subst z; contradiction|exact H].
Qed.

Lemma dedup_NoDup : forall l, NoDup (dedup l).
Proof.
  induction l as [|y r IH]; cbn [dedup]; [constructor|].
  destruct (memN y r) eqn:E; [exact IH|]. constructor; [|exact IH].
  rewrite dedup_In. now apply memN_false.
Qed.
Lemma dedup_id : forall l, NoDup l -> dedup l = l.
Proof.
  induction l as [|y r IH]; intros Hn; cbn [dedup]; [reflexivity|].
  inversion Hn as [|y' r' Hy Hr]; subst. apply memN_false in Hy. rewrite Hy. f_equal. now apply IH.
Qed.

Lemma set_eqb_ext : forall a b, (forall x, In x a <-> In x b) -> set_eqb a b = true.
Proof.
  intros a b He. unfold set_eqb. apply list_N_eqb_eq. apply sorted_nodup_ext.
  - apply sort_N_sorted.
  - apply sort_N_sorted.
  - eapply Permutation_NoDup; [apply sort_N_perm|apply dedup_NoDup].
  - eapply Permutation_NoDup; [apply sort_N_perm|apply dedup_NoDup].
  - intros x. now rewrite !sort_N_In, !dedup_In.
Qed.

Lemma sort_eq_NoDup : forall a b, sort_N a = sort_N b -> NoDup a -> NoDup b.
Proof.
  intros a b E Ha. eapply Permutation_NoDup; [apply Permutation_sym, sort_N_perm|]. rewrite <- E.
  eapply Permutation_NoDup; [apply sort_N_perm|exact Ha].
Qed.

Lemma subsetN_intro : forall a b, (forall x, In x a -> In x b) -> subsetN a b = true.
Proof. intros a b H. unfold subsetN. apply forallb_forall. intros x Hx. now apply memN_In, H. Qed.
Lemma subsetN_elim : forall a b, subsetN a b = true -> forall x, In x a -> In x b.
Proof. intros a b H x Hx. unfold subsetN in H. rewrite forallb_forall in H. now apply memN_In, H. Qed.

(* ------------------------------------------------------------------------------------------ finite maps *)
Lemma In_mdel_iff : forall (V : Type) (m : list (N * V)) k k' x, In (k', x) (mdel k m) <-> In (k', x) m /\ k' <> k.
Proof.
  intros V m k k' x. induction m as [|[k0 x0] r IH]; cbn [mdel In]; [tauto|].
  destruct (N.eqb_spec k k0) as [->|Hne].
  - rewrite IH. split; [tauto|]. intros [[E|H] Hn]; [injection E as -> _; now contradiction Hn|tauto].
  - cbn [In]. rewrite IH. split; [|tauto]. intros [E|H]; [|tauto]. injection E as <- <-. split; [now left|congruence].
Qed.
Lemma In_mset_self : forall (V : Type) (m : list (N * V)) k x, In (k, x) (mset k x m).
Proof. intros V m k x. apply mget_Some_In. apply mget_mset_eq. Qed.

Lemma skeys_NoDup_fst : forall (V : Type) (m : list (N * V)), skeys m -> NoDup (map fst m).
Proof.
  intros V m. induction m as [|[k x] r IH]; intros Hs; cbn [map fst]; [constructor|].
  cbn [skeys] in Hs. destruct Hs as [Hab Hs]. constructor; [|now apply IH].
  intros Hin. apply in_map_iff in Hin. destruct Hin as [[k' x'] [E Hin]]. cbn [fst] in E. subst k'.
  apply Hab in Hin. lia.
Qed.
Lemma NoDup_map_filter : forall (A : Type) (f : A -> N) (P : A -> bool) l, NoDup (map f l) -> NoDup (map f (filter P l)).
Proof.
  intros A f P l. induction l as [|x r IH]; intros Hn; cbn [filter map]; [constructor|].
  cbn [map] in Hn. inversion Hn as [|y l' Hy Hr]; subst.
  destruct (P x); [|now apply IH]. cbn [map]. constructor; [|now apply IH].
  intros Hin. apply Hy. apply in_map_iff in Hin. destruct Hin as [z [E Hz]]. apply filter_In in Hz.
  apply in_map_iff. exists z. tauto.
Qed.

(* ------------------------------------------------------------------------------------------ more step facts *)
(* what a non-rotation content does to the invites *)
Lemma step_invites : forall s au r c s',
  apply_content5 false s au r c = Some s' -> is_rot c = None ->
  match c with
  | CInvite key ty p _ => invites s' = mset r (mkInvite key ty p) (invites s)
  | CInviteRevoke i => invites s' = mdel i (invites s)
  | CInviteChange i p => exists iv, mget i (invites s) = Some iv /\
                                    invites s' = mset i (mkInvite (i_key iv) (i_type iv) p) (invites s)
  | _ => invites s' = invites s
  end.
Proof.
  intros s au r c s' H Hrot.
  destruct c; cbn [apply_content5 apply_content is_rot] in *; try discriminate Hrot.
  - unfold apply_invite in H. inv_some H. injection H as <-. reflexivity.
  - unfold apply_invite_revoke in H. inv_some H. injection H as <-. reflexivity.
  - unfold apply_request_join in H. inv_some H. injection H as <-. reflexivity.
  - unfold apply_request_accept in H. inv_some H. injection H as <-. now rewrite unpack_invites, drop_invites.
  - apply perm_change5_facts in H. exact (proj2 (proj1 H)).
  - destruct rk; discriminate.
  - unfold apply_request_decline in H. inv_some H. injection H as <-. now rewrite drop_invites.
  - unfold apply_request_remove in H. inv_some H. injection H as <-. reflexivity.
  - apply perm_changes5_facts in H. exact (proj2 (proj1 H)).
  - unfold apply_accounts_add in H. inv_some H. apply do_additions_facts in H. exact (proj2 (proj1 H)).
  - unfold apply_request_cancel in H. inv_some H. injection H as <-. now rewrite drop_invites.
  - unfold apply_invite_join in H. inv_some H. injection H as <-. rewrite unpack_invites.
    match goal with |- context [find_request_of ?i ?m] => destruct (find_request_of i m) end; reflexivity.
  - unfold apply_invite_change in H. destruct (validate_invite_change s au inv p) eqn:E; cbn [andb negb] in H; [|discriminate].
    unfold validate_invite_change in E. apply andb_true_iff in E. destruct E as [_ E].
    destruct (mget inv (invites s)) as [iv|]; [|discriminate]. exists iv. injection H as <-. split; reflexivity.
  - unfold apply_ownership in H. inv_some H. injection H as <-. reflexivity.
  - unfold apply_options in H. inv_some H. injection H as <-. reflexivity.
  - injection H as <-. reflexivity.
Qed.

Lemma benign_perms : forall s au r c s', apply_content5 false s au r c = Some s' -> benign_before_rot c = true ->
  forall a, perm_of s' a = perm_of s a.
Proof.
  intros s au r c s' H Hb a. destruct c; cbn [benign_before_rot] in Hb; try discriminate Hb;
    cbn [apply_content5 apply_content] in H.
  - unfold apply_invite_revoke in H. inv_some H. injection H as <-. reflexivity.
  - unfold apply_request_decline in H. inv_some H. injection H as <-.
    rewrite (perm_acc_eq _ _ a (drop_accounts _ req)), perm_of_set_acc.
    destruct (N.eqb_spec a (r_ident r0)) as [->|]; [|reflexivity].
    cbn [a_perm]. unfold perm_of, acc_of. now rewrite E1.
Qed.
Lemma benign_nonrot : forall c, benign_before_rot c = true -> is_rot c = None.
Proof. intros c H. destruct c; cbn in H; try discriminate H; reflexivity. Qed.

(* an accepted rotation passed validateReadKeyChange on the state before it; the removed accounts end without permission *)
Lemma rot_validate : forall s au r c s' rk removed,
  apply_content5 false s au r c = Some s' -> is_rot c = Some (rk, removed) ->
  validate_rk s rk removed = true /\ (forall a, In a removed -> perm_of s' a = 0).
Proof.
  intros s au r c s' rk removed H Hrot.
  destruct c; cbn [apply_content5 apply_content is_rot] in *; try discriminate Hrot.
  - destruct rk0 as [k|]; [|discriminate]. injection Hrot as <- <-.
    unfold apply_account_remove in H.
    destruct (true && negb (can_manage (perm_of s au) && validate_removals s au (perm_of s au) [] ids && validate_rk s k ids)) eqn:E; [discriminate|].
    cbn [andb] in E. apply negb_false_iff in E. apply andb_true_iff in E. destruct E as [_ Hrk].
    split; [exact Hrk|].
    destruct (do_removals s r ids) as [s1|] eqn:Hrm; [|discriminate].
    apply do_removals_facts in Hrm. destruct Hrm as [_ [_ [Hz1 _]]].
    apply do_rk_facts in H. destruct H as [_ [Ha _]].
    intros a Hin. rewrite (perm_acc_eq _ _ a Ha). now apply Hz1.
  - injection Hrot as <- <-. unfold apply_read_key_change in H.
    destruct (true && negb (can_manage (perm_of s au) && validate_rk s rk0 [])) eqn:E; [discriminate|].
    cbn [andb] in E. apply negb_false_iff in E. apply andb_true_iff in E. destruct E as [_ Hrk].
    split; [exact Hrk|intros a []].
Qed.

Lemma active_users_NoDup : forall s removed, skeys (accounts s) -> NoDup (active_users s removed).
Proof. intros s removed Hs. unfold active_users. apply NoDup_map_filter. now apply skeys_NoDup_fst. Qed.

Lemma rot_recipients : forall s rk removed, skeys (accounts s) -> validate_rk s rk removed = true ->
  (forall a, In a (rk_accounts rk) <-> perm_of s a <> 0 /\ ~ In a removed) /\ NoDup (rk_accounts rk).
Proof.
  intros s rk removed Hs Hv. split.
  - intros a. rewrite (validate_rk_accounts s rk removed Hv a). split.
    + now apply active_users_perm.
    + intros [H1 H2]. now apply active_users_of_perm.
  - unfold validate_rk in Hv. repeat (apply andb_true_iff in Hv; destruct Hv as [Hv ?]).
    match goal with Hx : list_N_eqb (sort_N (active_users _ _)) _ = true |- _ => apply list_N_eqb_eq in Hx;
      apply (sort_eq_NoDup _ _ Hx) end. now apply active_users_NoDup.
Qed.

Lemma active_invite_keys_In : forall s k, In k (active_invite_keys s) <->
  exists r iv, In (r, iv) (invites s) /\ i_type iv = tAnyoneCanJoin /\ i_key iv = k.
Proof.
  intros s k. unfold active_invite_keys. rewrite in_map_iff. split.
  - intros [[r iv] [E Hin]]. apply filter_In in Hin. destruct Hin as [Hin Ht]. cbn [snd] in *.
    exists r, iv. split; [exact Hin|]. split; [now apply N.eqb_eq|exact E].
  - intros [r [iv [Hin [Ht E]]]]. exists (r, iv). split; [exact E|]. apply filter_In. split; [exact Hin|].
    cbn [snd]. now apply N.eqb_eq.
Qed.
Lemma open_invites_In : forall s r k, In (r, k) (open_invites s) <->
  exists iv, In (r, iv) (invites s) /\ i_type iv = tAnyoneCanJoin /\ i_key iv = k.
Proof.
  intros s r k. unfold open_invites. rewrite in_map_iff. split.
  - intros [[r' iv] [E Hin]]. cbn [fst snd] in E. injection E as -> <-. apply filter_In in Hin. destruct Hin as [Hin Ht].
    exists iv. split; [exact Hin|]. split; [now apply N.eqb_eq|reflexivity].
  - intros [iv [Hin [Ht E]]]. exists (r, iv). cbn [fst snd]. split; [now rewrite E|]. apply filter_In. split; [exact Hin|].
    cbn [snd]. now apply N.eqb_eq.
Qed.

(* a non-rotation content makes an invite key live only by creating an anyone-can-join invite with it *)
Lemma nonrot_live : forall s au r c s' k,
  apply_content5 false s au r c = Some s' -> is_rot c = None ->
  In k (active_invite_keys s') -> In k (active_invite_keys s) \/ In k (inv_receivers c).
Proof.
  intros s au r c s' k H Hrot Hk. pose proof (step_invites s au r c s' H Hrot) as Hi.
  apply active_invite_keys_In in Hk. destruct Hk as [r0 [iv [Hin [Ht Ek]]]].
  assert (Hsame : invites s' = invites s -> In k (active_invite_keys s)).
  { intros E. apply active_invite_keys_In. exists r0, iv. now rewrite <- E. }
  destruct c; try (left; now apply Hsame).
  - rewrite Hi in Hin. apply In_mset in Hin. destruct Hin as [E|Hin].
    + right. injection E as -> ->. cbn [i_type i_key] in *. cbn [inv_receivers]. subst ty. cbn. now left.
    + left. apply active_invite_keys_In. now exists r0, iv.
  - rewrite Hi in Hin. apply In_mdel_iff in Hin. left. apply active_invite_keys_In. exists r0, iv. tauto.
  - destruct Hi as [iv0 [Hg Hi]]. rewrite Hi in Hin. apply In_mset in Hin. left. apply active_invite_keys_In.
    destruct Hin as [E|Hin].
    + injection E as -> ->. cbn [i_type i_key] in *. exists inv, iv0. split; [now apply mget_Some_In|]. now split.
    + now exists r0, iv.
Qed.

(* ------------------------------------------------------------------------------------------ the extended invariant *)
Record KInvX (s : state) (L : list cipher) (tr : list state) : Prop := mkKInvX {
  kx_inv : KInv s L tr;
  (* secrecy for invite-key principals: an invite key is given a generation only at a moment at which an
     anyone-can-join invite with that key is live and the generation exists *)
  kx_i1 : forall k g, In (CAsym (PI k) g) L ->
            exists st, In st tr /\ In k (active_invite_keys st) /\ In g (keychanges st);
  (* a live open invite leads to the current key *)
  kx_open : forall k, In k (active_invite_keys s) -> In (CAsym (PI k) (cur_key s)) L
}.

Lemma KInvX_init : forall owner root,
  KInvX (init_state 0 owner root None) [CAsym (PA owner) root] [init_state 0 owner root None].
Proof.
  intros owner root. constructor.
  - apply KInv_init.
  - intros k g [H|[]]. discriminate.
  - intros k [].
Qed.

Lemma inv_receivers_nonrot : forall c k, is_rot c = None -> In k (inv_receivers c) ->
  exists p he, c = CInvite k tAnyoneCanJoin p he.
Proof.
  intros c k Hrot H. destruct c; cbn [inv_receivers is_rot] in *; try contradiction; try discriminate Hrot.
  - destruct (N.eqb_spec ty tAnyoneCanJoin) as [->|]; [|contradiction]. destruct H as [<-|[]]. now exists p, has_enc.
  - destruct rk; [discriminate|contradiction].
Qed.

Lemma honest_invite_ciphers : forall s r k0 p he k, honest_content s r (CInvite k0 tAnyoneCanJoin p he) k = true ->
  ciphers_of r (CInvite k0 tAnyoneCanJoin p he) k = [CAsym (PI k0) (cur_key s)].
Proof.
  intros s r k0 p he k H. cbn [honest_content] in H. rewrite N.eqb_refl in H. apply kpay_eqb_eq in H. now subst k.
Qed.

(* a non-rotation content publishes a ciphertext for an invite key only as the current key for a new open invite *)
Lemma honest_nonrot_pi : forall s r c k ik g, is_rot c = None -> honest_content s r c k = true ->
  In (CAsym (PI ik) g) (ciphers_of r c k) -> g = cur_key s /\ exists p he, c = CInvite ik tAnyoneCanJoin p he.
Proof.
  intros s r c k ik g Hrot H Hin.
  destruct c; cbn [is_rot] in Hrot; try discriminate Hrot; cbn [ciphers_of] in Hin;
    try (destruct k; contradiction); try contradiction;
    try (destruct k as [|gs|]; try contradiction; apply zipc_asym in Hin; destruct Hin as [a [g' [Hx _]]]; discriminate).
  - cbn [honest_content] in H. destruct (N.eqb_spec ty tAnyoneCanJoin) as [->|Hne].
    + apply kpay_eqb_eq in H. subst k. cbn in Hin. destruct Hin as [E|[]]. injection E as <- <-.
      split; [reflexivity|]. now exists p, has_enc.
    + unfold no_ciphers in H. cbn [ciphers_of] in H. destruct k as [|gs|]; try contradiction.
      destruct (zipc PI [key] gs); [contradiction|discriminate].
  - destruct rk; [discriminate|]. destruct k; contradiction.
Qed.

Lemma KInvX_content : forall s L tr au r c k s',
  KInvX s L tr ->
  apply_content5 false s au r c = Some s' ->
  honest_content s r c k = true -> delivered_members s' c = true ->
  KInvX s' (L ++ ciphers_of r c k) (tr ++ [s']).
Proof.
  intros s L tr au r c k s' [HI Hi1 Hop] Hstep Hh Hdel.
  pose proof (KInv_content s L tr au r c k s' HI Hstep Hh Hdel) as HI'.
  constructor; [exact HI'| |].
  - intros ik g Hin. apply in_app_or in Hin. destruct Hin as [Hin|Hin].
    + destruct (Hi1 ik g Hin) as [st [H1 H2]]. exists st. split; [apply in_or_app; now left|exact H2].
    + exists s'. split; [apply in_or_app; right; now left|].
      destruct (is_rot c) as [[rk removed]|] eqn:Hrot.
      * destruct (step_rot s au r c s' rk removed Hstep Hrot) as [Hk [_ [_ [_ [_ [Hinv _]]]]]].
        destruct (honest_rot_ciphers s r c k rk removed Hrot Hh) as [Hc _]. rewrite Hc in Hin.
        apply in_app_or in Hin. destruct Hin as [Hin|Hin].
        -- apply in_map_iff in Hin. destruct Hin as [? [? _]]. discriminate.
        -- apply in_app_or in Hin. destruct Hin as [Hin|[Hin|[]]]; [|discriminate].
           apply in_map_iff in Hin. destruct Hin as [ik' [E Hik]]. injection E as -> ->.
           split; [now apply Hinv|]. rewrite Hk. apply in_or_app. right. now left.
      * destruct (honest_nonrot_pi s r c k ik g Hrot Hh Hin) as [-> [p [he ->]]].
        destruct (step_nonrot s au r _ s' Hstep Hrot) as [Hk _].
        pose proof (step_invites s au r _ s' Hstep Hrot) as Hiv. cbn in Hiv. split.
        -- apply active_invite_keys_In. exists r, (mkInvite ik tAnyoneCanJoin p). rewrite Hiv.
           split; [apply In_mset_self|]. now split.
        -- rewrite Hk. unfold cur_key. apply last_or_In. exact (ki_ne _ _ _ HI).
  - intros ik Hik. apply in_or_app.
    destruct (is_rot c) as [[rk removed]|] eqn:Hrot.
    + destruct (step_rot s au r c s' rk removed Hstep Hrot) as [Hk [_ [_ [_ [_ [Hinv _]]]]]].
      destruct (honest_rot_ciphers s r c k rk removed Hrot Hh) as [Hc _]. right. rewrite Hc.
      assert (Hcur' : cur_key s' = r) by (unfold cur_key; rewrite Hk; apply last_or_app). rewrite Hcur'.
      apply in_or_app. right. apply in_or_app. left. apply in_map_iff. exists ik. split; [reflexivity|now apply Hinv].
    + destruct (step_nonrot s au r c s' Hstep Hrot) as [Hk _].
      rewrite (cur_key_same s s' Hk).
      destruct (nonrot_live s au r c s' ik Hstep Hrot Hik) as [Hold|Hnew]; [left; now apply Hop|right].
      destruct (inv_receivers_nonrot c ik Hrot Hnew) as [p [he ->]].
      rewrite (honest_invite_ciphers s r ik p he k Hh). now left.
Qed.

Lemma KInvX_set_last : forall s L tr r, KInvX s L tr -> KInvX (set_last s r) L (tr ++ [set_last s r]).
Proof.
  intros s L tr r [HI Hi1 Hop]. constructor; [now apply KInv_set_last| |exact Hop].
  intros k g Hin. destruct (Hi1 k g Hin) as [st [H1 H2]]. exists st. split; [apply in_or_app; now left|exact H2].
Qed.

Lemma KInvX_contents : forall au r cks ms ms' tr,
  KInvX (m_s ms) (m_log ms) tr ->
  kcontents_step false ms au r cks = Some ms' ->
  honest_contents (m_s ms) au r cks = true ->
  KInvX (m_s ms') (m_log ms') (tr ++ kchain (m_s ms) au r cks).
Proof.
  intros au r cks. induction cks as [|[c k] rest IH]; intros ms ms' tr HI Hstep Hh.
  - cbn in Hstep. injection Hstep as <-. cbn [kchain]. now rewrite app_nil_r.
  - cbn [kcontents_step] in Hstep. unfold kcontent_step in Hstep. cbn [fst snd] in Hstep.
    cbn [honest_contents kchain fst snd] in Hh |- *.
    destruct (apply_content5 false (m_s ms) au r c) as [s'|] eqn:Hc; [|discriminate].
    apply andb_true_iff in Hh. destruct Hh as [Hh Hrest]. apply andb_true_iff in Hh. destruct Hh as [Hh Hdel].
    set (ms1 := mkM s' (m_log ms ++ ciphers_of r c k) (olds_step (m_olds ms) r c k)
                    (step_views (keychanges (m_s ms)) (olds_step (m_olds ms) r c k) r c k (m_views ms))) in Hstep.
    assert (HI1 : KInvX (m_s ms1) (m_log ms1) (tr ++ [s'])) by (apply (KInvX_content _ _ _ au r c k s' HI Hc Hh Hdel)).
    specialize (IH ms1 ms' (tr ++ [s']) HI1 Hstep Hrest).
    rewrite <- app_assoc in IH. exact IH.
Qed.

(* whoever derives a generation with an invite key: the invite was live at a moment at which the generation existed *)
Theorem invite_derive_only_if_live : forall s L tr k g, KInvX s L tr ->
  Derives (PI k) L g -> exists st, In st tr /\ In k (active_invite_keys st) /\ In g (keychanges st).
Proof.
  intros s L tr k g [HI Hi1 _] [n Hd].
  induction Hd as [g Hg|n o i Ho IH Hc].
  - now apply Hi1.
  - destruct IH as [st [Hst [Hp Hk]]]. exists st. split; [exact Hst|]. split; [exact Hp|].
    exact (ki_s2 _ _ _ HI o i Hc st Hst Hk).
Qed.

(* ------------------------------------------------------------------------------------------ the contents of one record *)
Fixpoint acontents (s : state) (au : acct) (r : rid) (cks : list kcontent) : option state :=
  match cks with
  | [] => Some s
  | ck :: rest => match apply_content5 false s au r (fst ck) with
                  | Some s1 => acontents s1 au r rest
                  | None => None
                  end
  end.

Lemma kcontents_state : forall au r cks ms ms', kcontents_step false ms au r cks = Some ms' ->
  acontents (m_s ms) au r cks = Some (m_s ms') /\
  m_log ms' = m_log ms ++ flat_map (fun ck => ciphers_of r (fst ck) (snd ck)) cks.
Proof.
  intros au r cks. induction cks as [|ck rest IH]; intros ms ms' H; cbn [kcontents_step] in H.
  - injection H as <-. cbn. now rewrite app_nil_r.
  - destruct (kcontent_step false ms au r ck) as [ms1|] eqn:H1; [|discriminate].
    unfold kcontent_step in H1. cbn [acontents].
    destruct (apply_content5 false (m_s ms) au r (fst ck)) as [s1|]; [|discriminate]. injection H1 as <-.
    destruct (IH _ _ H) as [Ha Hl]. cbn [m_s m_log] in *. split; [exact Ha|].
    rewrite Hl. cbn [flat_map]. now rewrite app_assoc.
Qed.

Lemma acontents_fin : forall au r cks s s_fin, acontents s au r cks = Some s_fin ->
  s_fin = s \/ In s_fin (kchain s au r cks).
Proof.
  intros au r cks. induction cks as [|ck rest IH]; intros s s_fin H; cbn [acontents kchain] in *.
  - injection H as <-. now left.
  - destruct (apply_content5 false s au r (fst ck)) as [s1|]; [|discriminate].
    right. destruct (IH _ _ H) as [->|Hin]; [now left|now right].
Qed.

(* once the record's id is a generation no further rotation of that record is honest *)
Lemma no_more_rot : forall au r cks s s_fin, In r (keychanges s) ->
  honest_contents s au r cks = true -> acontents s au r cks = Some s_fin -> keychanges s_fin = keychanges s.
Proof.
  intros au r cks. induction cks as [|[c k] rest IH]; intros s s_fin Hr Hh Ha; cbn [acontents honest_contents fst snd] in *.
  - now injection Ha as <-.
  - destruct (apply_content5 false s au r c) as [s1|] eqn:Hc; [|discriminate].
    apply andb_true_iff in Hh. destruct Hh as [Hh Hrest]. apply andb_true_iff in Hh. destruct Hh as [Hh _].
    destruct (is_rot c) as [[rk removed]|] eqn:Hrot.
    + destruct (honest_rot_ciphers s r c k rk removed Hrot Hh) as [_ Hfresh]. contradiction.
    + destruct (step_nonrot s au r c s1 Hc Hrot) as [Hk _]. rewrite <- Hk. apply IH; [now rewrite Hk|exact Hrest|exact Ha].
Qed.

Lemma record_keychanges : forall au r cks s s_fin,
  honest_contents s au r cks = true -> acontents s au r cks = Some s_fin ->
  keychanges s_fin = keychanges s \/ (keychanges s_fin = keychanges s ++ [r] /\ ~ In r (keychanges s)).
Proof.
  intros au r cks. induction cks as [|[c k] rest IH]; intros s s_fin Hh Ha; cbn [acontents honest_contents fst snd] in *.
  - injection Ha as <-. now left.
  - destruct (apply_content5 false s au r c) as [s1|] eqn:Hc; [|discriminate].
    apply andb_true_iff in Hh. destruct Hh as [Hh Hrest]. apply andb_true_iff in Hh. destruct Hh as [Hh _].
    destruct (is_rot c) as [[rk removed]|] eqn:Hrot.
    + destruct (honest_rot_ciphers s r c k rk removed Hrot Hh) as [_ Hfresh].
      destruct (step_rot s au r c s1 rk removed Hc Hrot) as [Hk _]. right. split; [|exact Hfresh].
      rewrite <- Hk. apply (no_more_rot au r rest s1 s_fin); [rewrite Hk; apply in_or_app; right; now left|exact Hrest|exact Ha].
    + destruct (step_nonrot s au r c s1 Hc Hrot) as [Hk _]. rewrite <- Hk. now apply IH.
Qed.

(* the predicate's [gens] is the model's list of generations after the record *)
Lemma gens_after_record : forall au r cks s s_fin, keychanges s <> [] ->
  honest_contents s au r cks = true -> acontents s au r cks = Some s_fin ->
  (if memN (cur_key s_fin) (keychanges s) then keychanges s else keychanges s ++ [cur_key s_fin]) = keychanges s_fin.
Proof.
  intros au r cks s s_fin Hne Hh Ha. unfold cur_key.
  destruct (record_keychanges au r cks s s_fin Hh Ha) as [E|[E Hfresh]]; rewrite E.
  - assert (Hm : memN (last_or (keychanges s) 0) (keychanges s) = true) by (apply memN_In; now apply last_or_In).
    now rewrite Hm.
  - rewrite last_or_app. apply memN_false in Hfresh. now rewrite Hfresh.
Qed.

Section Walk.
  (* [holds s x]: principal x holds a key position in state s (an account with a permission / a live invite key) *)
  Variable holds : state -> N -> Prop.
  Variable recv : content -> list N.
  Hypothesis HWnonrot : forall s au r c s' x, apply_content5 false s au r c = Some s' -> is_rot c = None ->
    holds s' x -> holds s x \/ In x (recv c).
  Hypothesis HWrot : forall s au r c s' rk removed x, apply_content5 false s au r c = Some s' ->
    is_rot c = Some (rk, removed) -> holds s' x -> In x (recv c).

  Lemma walk : forall au r gb ga cks s s_fin (rot : bool) m,
    honest_contents s au r cks = true -> acontents s au r cks = Some s_fin ->
    keychanges s = (if rot then ga else gb) ->
    (rot = true -> In r (keychanges s)) ->
    keychanges s_fin = ga ->
    (forall x, holds s x -> incl (keychanges s) (aget x m)) ->
    forall st, In st (kchain s au r cks) -> forall x, holds st x ->
      incl (keychanges st) (aget x (admit_allow recv gb ga rot cks m)).
  Proof.
    intros au r gb ga cks. induction cks as [|[c k] rest IH]; intros s s_fin rot m Hh Ha Hks Hr Hfin Hm st Hst x Hx;
      cbn [acontents honest_contents kchain admit_allow fst snd] in *; [contradiction|].
    destruct (apply_content5 false s au r c) as [s1|] eqn:Hc; [|contradiction].
    apply andb_true_iff in Hh. destruct Hh as [Hh Hrest]. apply andb_true_iff in Hh. destruct Hh as [Hh _].
    set (rot' := rot || match is_rot c with Some _ => true | None => false end) in *.
    set (m1 := fold_left (fun m a => add_allow a (if rot' then ga else gb) m) (recv c) m) in *.
    assert (H1 : keychanges s1 = (if rot' then ga else gb) /\ (rot' = true -> In r (keychanges s1)) /\
                 (forall y, holds s1 y -> incl (keychanges s1) (aget y m1))).
    { destruct (is_rot c) as [[rk removed]|] eqn:Hrot.
      - destruct (honest_rot_ciphers s r c k rk removed Hrot Hh) as [_ Hfresh].
        destruct (step_rot s au r c s1 rk removed Hc Hrot) as [Hk _].
        assert (Hrin : In r (keychanges s1)) by (rewrite Hk; apply in_or_app; right; now left).
        destruct rot; [exfalso; apply Hfresh; now apply Hr|].
        assert (E : keychanges s1 = ga) by (rewrite <- Hfin; symmetry; now apply (no_more_rot au r rest s1 s_fin)).
        subst rot'. cbn [orb]. split; [exact E|]. split; [intros _; exact Hrin|].
        intros y Hy g Hg. unfold m1. cbn [orb]. apply fold_allow_In. right. split; [|now rewrite <- E].
        exact (HWrot s au r c s1 rk removed y Hc Hrot Hy).
      - destruct (step_nonrot s au r c s1 Hc Hrot) as [Hk _].
        assert (Er : rot' = rot) by (subst rot'; apply orb_false_r).
        rewrite Er. split; [now rewrite Hk|]. split; [intros E; rewrite Hk; now apply Hr|].
        intros y Hy g Hg. unfold m1. rewrite Er. apply fold_allow_In.
        destruct (HWnonrot s au r c s1 y Hc Hrot Hy) as [Hold|Hnew].
        + left. apply (Hm y Hold). now rewrite <- Hk.
        + right. split; [exact Hnew|]. now rewrite <- Hks, <- Hk. }
    destruct H1 as [Hks1 [Hr1 Hm1]].
    destruct Hst as [<-|Hst].
    - intros g Hg. apply (admit_allow_incr recv gb ga rest rot' m1). now apply (Hm1 x Hx).
    - exact (IH s1 s_fin rot' m1 Hrest Ha Hks1 Hr1 Hfin Hm1 st Hst x Hx).
  Qed.
End Walk.

Lemma inv_receivers_rot : forall c rk removed, is_rot c = Some (rk, removed) -> inv_receivers c = rk_invites rk.
Proof.
  intros c rk removed H. destruct c; cbn [is_rot] in H; try discriminate H; cbn [inv_receivers is_rot].
  - destruct rk0; [|discriminate]. now injection H as <- _.
  - now injection H as <- _.
Qed.

Lemma walk_accounts : forall au r gb ga cks s s_fin m,
  honest_contents s au r cks = true -> acontents s au r cks = Some s_fin ->
  keychanges s = gb -> keychanges s_fin = ga ->
  (forall a, perm_of s a <> 0 -> incl (keychanges s) (aget a m)) ->
  forall st, In st (kchain s au r cks) -> forall a, perm_of st a <> 0 ->
    incl (keychanges st) (aget a (admit_allow key_receivers gb ga false cks m)).
Proof.
  intros au r gb ga cks s s_fin m Hh Ha Hks Hfin Hm.
  apply (walk (fun s a => perm_of s a <> 0) key_receivers) with (s_fin := s_fin); try assumption; try discriminate.
  - intros s0 au0 r0 c s' x Hc Hrot Hx. destruct (N.eq_dec (perm_of s0 x) 0) as [Hz|Hnz]; [right|now left].
    unfold key_receivers. rewrite Hrot. exact (proj1 (proj2 (step_nonrot s0 au0 r0 c s' Hc Hrot)) x Hz Hx).
  - intros s0 au0 r0 c s' rk removed x Hc Hrot Hx. unfold key_receivers. rewrite Hrot.
    destruct (step_rot s0 au0 r0 c s' rk removed Hc Hrot) as [_ [_ [_ [Hr1 _]]]].
    destruct (rot_validate s0 au0 r0 c s' rk removed Hc Hrot) as [_ Hz].
    apply filter_In. split; [now apply Hr1|]. apply negb_true_iff, memN_false. intros Hin. apply Hx. now apply Hz.
Qed.

Lemma walk_invites : forall au r gb ga cks s s_fin m,
  honest_contents s au r cks = true -> acontents s au r cks = Some s_fin ->
  keychanges s = gb -> keychanges s_fin = ga ->
  (forall k, In k (active_invite_keys s) -> incl (keychanges s) (aget k m)) ->
  forall st, In st (kchain s au r cks) -> forall k, In k (active_invite_keys st) ->
    incl (keychanges st) (aget k (admit_allow inv_receivers gb ga false cks m)).
Proof.
  intros au r gb ga cks s s_fin m Hh Ha Hks Hfin Hm.
  apply (walk (fun s k => In k (active_invite_keys s)) inv_receivers) with (s_fin := s_fin); try assumption; try discriminate.
  - intros s0 au0 r0 c s' x Hc Hrot Hx. exact (nonrot_live s0 au0 r0 c s' x Hc Hrot Hx).
  - intros s0 au0 r0 c s' rk removed x Hc Hrot Hx. rewrite (inv_receivers_rot c rk removed Hrot).
    destruct (step_rot s0 au0 r0 c s' rk removed Hc Hrot) as [_ [_ [_ [_ [_ [Hinv _]]]]]]. now apply Hinv.
Qed.

(* ------------------------------------------------------------------------------------------ the rot_exact clause *)
Lemma rot_exact_ok : forall au r s0 members_before cks s s_fin revoked,
  acontents s au r cks = Some s_fin ->
  skeys (accounts s) ->
  (forall a, In a members_before <-> perm_of s a <> 0) ->
  (forall r0 iv, In (r0, iv) (invites s) <-> In (r0, iv) (invites s0) /\ ~ In r0 revoked) ->
  rot_exact members_before (open_invites s0) revoked cks = true.
Proof.
  intros au r s0 members_before cks. induction cks as [|[c k] rest IH]; intros s s_fin revoked Ha Hs Hm Hi;
    cbn [rot_exact acontents fst] in *; [reflexivity|].
  destruct (apply_content5 false s au r c) as [s1|] eqn:Hc; [|discriminate].
  destruct (is_rot c) as [[rk removed]|] eqn:Hrot.
  - destruct (rot_validate s au r c s1 rk removed Hc Hrot) as [Hv _].
    destruct (rot_recipients s rk removed Hs Hv) as [Hacc Hnd].
    apply andb_true_iff. split; [apply andb_true_iff; split|].
    + apply set_eqb_ext. intros a. rewrite Hacc, filter_In, Hm. split.
      * intros [H1 H2]. split; [exact H1|]. now apply negb_true_iff, memN_false.
      * intros [H1 H2]. split; [exact H1|]. now apply memN_false, negb_true_iff.
    + rewrite (dedup_id _ Hnd). apply list_N_eqb_refl.
    + apply set_eqb_ext. intros x. rewrite (validate_rk_invites s rk removed Hv x), active_invite_keys_In, in_map_iff. split.
      * intros [r0 [iv [Hin [Ht Ek]]]]. apply Hi in Hin. destruct Hin as [Hin Hnr]. exists (r0, x). split; [reflexivity|].
        apply filter_In. split; [apply open_invites_In; now exists iv|]. cbn [fst]. now apply negb_true_iff, memN_false.
      * intros [[r0 x'] [E Hin]]. cbn [snd] in E. subst x'. apply filter_In in Hin. destruct Hin as [Hin Hnr].
        cbn [fst] in Hnr. apply negb_true_iff, memN_false in Hnr. apply open_invites_In in Hin.
        destruct Hin as [iv [Hin [Ht Ek]]]. exists r0, iv. split; [apply Hi; now split|now split].
  - destruct (benign_before_rot c) eqn:Hb; [|reflexivity].
    apply (IH s1 s_fin (revoked_of c ++ revoked) Ha).
    + exact (proj2 (proj2 (step_nonrot s au r c s1 Hc Hrot)) Hs).
    + intros a. now rewrite (benign_perms s au r c s1 Hc Hb a).
    + pose proof (step_invites s au r c s1 Hc Hrot) as Hiv. intros r0 iv.
      destruct c; cbn [benign_before_rot] in Hb; try discriminate Hb; cbn [revoked_of app]; rewrite Hiv.
      * rewrite In_mdel_iff, Hi. cbn [In]. split; [intros [[H1 H2] H3]; split; [exact H1|]; intros [E|H4]; [now apply H3|now apply H2]|].
        intros [H1 H2]. split; [split; [exact H1|]|]; intros H3; apply H2; [now right|now left].
      * apply Hi.
Qed.

(* ------------------------------------------------------------------------------------------ clauses on a model state *)
Definition obs_of (ms : mstate) (a : acct) : aobs :=
  let v := match mget a (m_views ms) with Some v => v | None => None end in
  mkAobs a (perm_of (m_s ms) a) (ids_of v) (ids_of v) (right_of v).

Lemma acct_ok_model : forall ms tr allow a,
  KInvX (m_s ms) (m_log ms) tr -> VInv ms -> In a (map fst (m_views ms)) ->
  (forall st b, In st tr -> perm_of st b <> 0 -> incl (keychanges st) (aget b allow)) ->
  acct_ok (keychanges (m_s ms)) (m_log ms) allow (obs_of ms a) = true.
Proof.
  intros ms tr allow a HX [_ HV] Hd Hal. pose proof (kx_inv _ _ _ HX) as HI.
  apply mget_map_fst in Hd. destruct Hd as [v Hv]. pose proof (mget_In _ _ _ Hv) as Hin.
  destruct (HV a v Hin) as [keys [-> [Hok Hfull]]].
  assert (Hder : forall g, Derives (PA a) (m_log ms) g -> In g (aget a allow)).
  { intros g Hd. destruct (derive_only_if_member ms tr a g HI Hd) as [st [Hst [Hp Hk]]]. exact (Hal st a Hst Hp g Hk). }
  assert (Hview : forall g, In g (sort_N (map fst keys)) -> In g (aget a allow)).
  { intros g Hg. apply (proj1 (sort_N_In _ _)) in Hg. apply in_map_iff in Hg. destruct Hg as [[x y] [E Hx]]. cbn [fst] in E. subst x.
    apply Hder. exact (proj2 (proj2 (Hok g y Hx))). }
  unfold acct_ok, obs_of. rewrite Hv. cbn [o_acct o_perm o_view o_view_nv o_right ids_of right_of].
  repeat (apply andb_true_iff; split).
  - destruct (N.eqb_spec (perm_of (m_s ms) a) pNone) as [E|Hp]; cbn [negb]; [reflexivity|].
    assert (Hsub : subsetN (keychanges (m_s ms)) (sort_N (map fst keys)) = true).
    { apply subsetN_intro. intros g Hg. apply sort_N_In. apply mget_map_fst. exists g. now apply Hfull. }
    rewrite Hsub, !andb_true_r. apply subsetN_intro. intros g Hg.
    exact (proj2 (members_derive_all ms tr a g HI Hp Hg)).
  - apply forallb_forall. intros [x g] Hx. destruct (Hok x g Hx) as [-> _]. cbn [fst snd]. apply N.eqb_refl.
  - apply subsetN_intro. intros g Hg. apply Hder. now apply derives_sound.
  - now apply subsetN_intro.
  - now apply subsetN_intro.
Qed.

Lemma inv_secrecy_model : forall s L tr allow_inv k,
  KInvX s L tr ->
  (forall st k, In st tr -> In k (active_invite_keys st) -> incl (keychanges st) (aget k allow_inv)) ->
  subsetN (derives (PI k) L) (aget k allow_inv) = true.
Proof.
  intros s L tr allow_inv k HX Hal. apply subsetN_intro. intros g Hg. apply derives_sound in Hg.
  destruct (invite_derive_only_if_live s L tr k g HX Hg) as [st [Hst [Hk Hgk]]]. exact (Hal st k Hst Hk g Hgk).
Qed.

Lemma open_leads_model : forall s L tr k, KInvX s L tr -> In k (map snd (open_invites s)) ->
  memN (cur_key s) (derives (PI k) L) = true.
Proof.
  intros s L tr k HX Hk. apply memN_In. unfold derives. apply saturate_mono. apply direct_In.
  apply (kx_open _ _ _ HX). apply in_map_iff in Hk. destruct Hk as [[r0 k'] [E Hin]]. cbn [snd] in E. subst k'.
  apply open_invites_In in Hin. destruct Hin as [iv Hiv]. apply active_invite_keys_In. now exists r0, iv.
Qed.

Lemma members_of_model : forall ms U a, In a (members_of (map (obs_of ms) U)) <-> In a U /\ perm_of (m_s ms) a <> 0.
Proof.
  intros ms U a. unfold members_of. rewrite in_map_iff. split.
  - intros [o [E Ho]]. apply filter_In in Ho. destruct Ho as [Ho Hp]. apply in_map_iff in Ho.
    destruct Ho as [b [Eb Hb]]. subst o. cbn [obs_of o_acct o_perm] in *. subst b. split; [exact Hb|].
    apply negb_true_iff in Hp. now apply N.eqb_neq in Hp.
  - intros [Ha Hp]. exists (obs_of ms a). split; [reflexivity|]. apply filter_In. split; [now apply in_map|].
    cbn [obs_of o_perm]. apply negb_true_iff. now apply N.eqb_neq.
Qed.

Lemma cover_contents : forall U au r cks s s_fin, acontents s au r cks = Some s_fin ->
  (forall a, perm_of s a <> 0 -> In a U) ->
  forallb (fun ck : kcontent => subsetN (admits (fst ck)) U) cks = true ->
  forall a, perm_of s_fin a <> 0 -> In a U.
Proof.
  intros U au r cks. induction cks as [|[c k] rest IH]; intros s s_fin Ha Hc Hf; cbn [acontents forallb fst] in *.
  - now injection Ha as <-.
  - destruct (apply_content5 false s au r c) as [s1|] eqn:Hs; [|discriminate].
    apply andb_true_iff in Hf. destruct Hf as [Hf Hrest]. apply (IH s1 s_fin Ha); [|exact Hrest].
    intros a Hp. destruct (N.eq_dec (perm_of s a) 0) as [Hz|Hnz]; [|now apply Hc].
    destruct (is_rot c) as [[rk removed]|] eqn:Hrot.
    + destruct (step_rot s au r c s1 rk removed Hs Hrot) as [_ [_ [Hp0 _]]]. exfalso. now apply (Hp0 a Hp).
    + destruct (step_nonrot s au r c s1 Hs Hrot) as [_ [Hadm _]]. exact (subsetN_elim _ _ Hf a (Hadm a Hz Hp)).
Qed.

(* ------------------------------------------------------------------------------------------ allowed sets after a record *)
Lemma allow_after_accounts : forall au r cks s s_fin tr allow members ga,
  honest_contents s au r cks = true -> acontents s au r cks = Some s_fin -> keychanges s_fin = ga -> In s tr ->
  (forall st a, In st tr -> perm_of st a <> 0 -> incl (keychanges st) (aget a allow)) ->
  forall st a, In st (tr ++ kchain s au r cks ++ [set_last s_fin r]) -> perm_of st a <> 0 ->
    incl (keychanges st)
         (aget a (admit_allow key_receivers (keychanges s) ga false cks (fold_left (fun m a => add_allow a ga m) members allow))).
Proof.
  intros au r cks s s_fin tr allow members ga Hh Ha Hfin Hcur Hal.
  set (allow0 := fold_left (fun m a => add_allow a ga m) members allow).
  assert (Hle0 : amap_le allow allow0) by apply fold_allow_incr.
  assert (Hle1 : amap_le allow0 (admit_allow key_receivers (keychanges s) ga false cks allow0)) by apply admit_allow_incr.
  assert (Hm : forall a, perm_of s a <> 0 -> incl (keychanges s) (aget a allow0)).
  { intros a Hp g Hg. apply Hle0. exact (Hal s a Hcur Hp g Hg). }
  pose proof (walk_accounts au r (keychanges s) ga cks s s_fin allow0 Hh Ha eq_refl Hfin Hm) as Hchain.
  intros st a Hst Hp. apply in_app_or in Hst. destruct Hst as [Hst|Hst].
  - intros g Hg. apply Hle1, Hle0. exact (Hal st a Hst Hp g Hg).
  - apply in_app_or in Hst. destruct Hst as [Hst|[<-|[]]]; [now apply Hchain|].
    change (perm_of (set_last s_fin r) a) with (perm_of s_fin a) in Hp.
    change (keychanges (set_last s_fin r)) with (keychanges s_fin).
    destruct (acontents_fin au r cks s s_fin Ha) as [->|Hin]; [|now apply Hchain].
    intros g Hg. apply Hle1. now apply (Hm a Hp).
Qed.

Lemma allow_after_invites : forall au r cks s s_fin tr allow opens ga,
  honest_contents s au r cks = true -> acontents s au r cks = Some s_fin -> keychanges s_fin = ga -> In s tr ->
  (forall st k, In st tr -> In k (active_invite_keys st) -> incl (keychanges st) (aget k allow)) ->
  forall st k, In st (tr ++ kchain s au r cks ++ [set_last s_fin r]) -> In k (active_invite_keys st) ->
    incl (keychanges st)
         (aget k (admit_allow inv_receivers (keychanges s) ga false cks (fold_left (fun m a => add_allow a ga m) opens allow))).
Proof.
  intros au r cks s s_fin tr allow opens ga Hh Ha Hfin Hcur Hal.
  set (allow0 := fold_left (fun m a => add_allow a ga m) opens allow).
  assert (Hle0 : amap_le allow allow0) by apply fold_allow_incr.
  assert (Hle1 : amap_le allow0 (admit_allow inv_receivers (keychanges s) ga false cks allow0)) by apply admit_allow_incr.
  assert (Hm : forall k, In k (active_invite_keys s) -> incl (keychanges s) (aget k allow0)).
  { intros k Hp g Hg. apply Hle0. exact (Hal s k Hcur Hp g Hg). }
  pose proof (walk_invites au r (keychanges s) ga cks s s_fin allow0 Hh Ha eq_refl Hfin Hm) as Hchain.
  intros st k Hst Hp. apply in_app_or in Hst. destruct Hst as [Hst|Hst].
  - intros g Hg. apply Hle1, Hle0. exact (Hal st k Hst Hp g Hg).
  - apply in_app_or in Hst. destruct Hst as [Hst|[<-|[]]]; [now apply Hchain|].
    change (active_invite_keys (set_last s_fin r)) with (active_invite_keys s_fin) in Hp.
    change (keychanges (set_last s_fin r)) with (keychanges s_fin).
    destruct (acontents_fin au r cks s s_fin Ha) as [->|Hin]; [|now apply Hchain].
    intros g Hg. apply Hle1. now apply (Hm k Hp).
Qed.

(* ------------------------------------------------------------------------------------------ the simulation *)
Record Sim (U : list acct) (ms : mstate) (ss : sstate) (tr : list state) : Prop := mkSim {
  sm_inv : KInvX (m_s ms) (m_log ms) tr;
  sm_view : VInv ms;
  sm_dom : map fst (m_views ms) = U;
  sm_gens : s_gens ss = keychanges (m_s ms);
  sm_log : s_log ss = m_log ms;
  sm_members : forall a, In a (s_members ss) <-> perm_of (m_s ms) a <> 0;
  sm_open : s_open ss = open_invites (m_s ms);
  sm_cover : forall a, perm_of (m_s ms) a <> 0 -> In a U;
  (* the allowed sets contain every generation that existed at a moment (content boundary) at which the principal
     held a permission / the invite key was live *)
  sm_allow : forall st a, In st tr -> perm_of st a <> 0 -> incl (keychanges st) (aget a (s_allow ss));
  sm_allow_inv : forall st k, In st tr -> In k (active_invite_keys st) -> incl (keychanges st) (aget k (s_allow_inv ss))
}.

Lemma perm_init : forall owner root a, perm_of (init_state 0 owner root None) a <> 0 -> a = owner.
Proof.
  intros owner root a H. unfold perm_of, acc_of in H. cbn [init_state accounts mget] in H.
  destruct (N.eqb_spec a owner) as [E|E]; [exact E|]. cbn in H. now contradiction H.
Qed.

Lemma Sim_init : forall U owner root, In owner U ->
  Sim U (kinit owner root U) (sinit owner root) [init_state 0 owner root None].
Proof.
  intros U owner root HU. unfold kinit, sinit. constructor; cbn [m_s m_log m_views s_gens s_log s_members s_open s_allow s_allow_inv].
  - apply KInvX_init.
  - exact (VInv_init owner root U).
  - rewrite map_map. cbn [fst]. apply map_id.
  - reflexivity.
  - reflexivity.
  - intros a. split.
    + intros [<-|[]]. unfold perm_of, acc_of. cbn [init_state accounts mget]. rewrite N.eqb_refl. discriminate.
    + intros H. left. symmetry. now apply (perm_init owner root).
  - reflexivity.
  - intros a H. apply perm_init in H. now subst a.
  - intros st a [<-|[]] Hp. apply perm_init in Hp. subst a. cbn [init_state keychanges]. unfold aget. cbn [mget].
    rewrite N.eqb_refl. apply incl_refl.
  - intros st k [<-|[]] Hk. destruct Hk.
Qed.

Lemma spec_step_true : forall ss au r cks cur opens obs gens log,
  gens = (if memN cur (s_gens ss) then s_gens ss else s_gens ss ++ [cur]) ->
  log = s_log ss ++ flat_map (fun ck : kcontent => ciphers_of r (fst ck) (snd ck)) cks ->
  forall allow allow_inv,
  allow = admit_allow key_receivers (s_gens ss) gens false cks
            (fold_left (fun m a => add_allow a gens m) (members_of obs) (s_allow ss)) ->
  allow_inv = admit_allow inv_receivers (s_gens ss) gens false cks
                (fold_left (fun m k => add_allow k gens m) (map snd opens) (s_allow_inv ss)) ->
  forallb (acct_ok gens log allow) obs = true ->
  (forall k, subsetN (derives (PI k) log) (aget k allow_inv) = true) ->
  (forall k, In k (map snd opens) -> memN cur (derives (PI k) log) = true) ->
  rot_exact (s_members ss) (s_open ss) [] cks = true ->
  spec_step ss (mkStep au r cks true cur opens obs) =
    (true, mkS gens log allow allow_inv (members_of obs) opens (dedup (s_invkeys ss ++ map snd opens))).
Proof.
  intros ss au r cks cur opens obs gens log -> -> allow allow_inv -> -> H1 H2 H3 H4.
  unfold spec_step, spec_step_gen. cbn [st_ok st_cur st_cs st_id st_obs st_open negb]. cbv zeta.
  f_equal. repeat (apply andb_true_iff; split).
  - exact H1.
  - apply forallb_forall. intros k _. apply H2.
  - apply forallb_forall. exact H3.
  - exact H4.
Qed.

Lemma Sim_step : forall U ms ss tr au r cks, Sim U ms ss tr ->
  forallb (fun ck : kcontent => subsetN (admits (fst ck)) U) cks = true ->
  (snd (krecord_step false ms au r cks) = true -> honest_contents (m_s ms) au r cks = true) ->
  exists ss1 tr1,
    spec_step ss (mkStep au r cks (snd (krecord_step false ms au r cks))
                    (cur_key (m_s (fst (krecord_step false ms au r cks))))
                    (open_invites (m_s (fst (krecord_step false ms au r cks))))
                    (model_obs (fst (krecord_step false ms au r cks)) U)) = (true, ss1) /\
    Sim U (fst (krecord_step false ms au r cks)) ss1 tr1.
Proof.
  intros U ms ss tr au r cks HS Hcov Hh.
  unfold krecord_step in *. destruct (kcontents_step false ms au r cks) as [ms1|] eqn:Hs; cbn [fst snd] in *.
  2: { exists ss, tr. split; [reflexivity|exact HS]. }
  specialize (Hh eq_refl).
  destruct HS as [HX HV Hdom Hg Hl Hm Ho Hc Hal Hali].
  pose proof (kx_inv _ _ _ HX) as HI.
  destruct (kcontents_state au r cks ms ms1 Hs) as [Ha Hlog].
  set (ms2 := mkM (set_last (m_s ms1) r) (m_log ms1) (m_olds ms1) (m_views ms1)).
  set (tr1 := tr ++ kchain (m_s ms) au r cks ++ [set_last (m_s ms1) r]).
  assert (HX2 : KInvX (m_s ms2) (m_log ms2) tr1).
  { pose proof (KInvX_contents au r cks ms ms1 tr HX Hs Hh) as HX1.
    apply (KInvX_set_last _ _ _ r) in HX1. rewrite <- app_assoc in HX1. exact HX1. }
  assert (HV2 : VInv ms2) by exact (VInv_contents au r cks ms ms1 tr HI HV Hs Hh).
  assert (Hdom2 : map fst (m_views ms2) = U).
  { pose proof (views_dom_run [(au, r, cks)] ms) as Hd. cbn [run_hist fold_left fst snd] in Hd.
    unfold krecord_step in Hd. rewrite Hs in Hd. cbn [fst m_views] in Hd. cbn [ms2 m_views]. now rewrite Hd. }
  assert (Egens : (if memN (cur_key (m_s ms1)) (keychanges (m_s ms)) then keychanges (m_s ms)
                   else keychanges (m_s ms) ++ [cur_key (m_s ms1)]) = keychanges (m_s ms1))
    by exact (gens_after_record au r cks (m_s ms) (m_s ms1) (ki_ne _ _ _ HI) Hh Ha).
  assert (Hcov2 : forall a, perm_of (m_s ms1) a <> 0 -> In a U) by exact (cover_contents U au r cks _ _ Ha Hc Hcov).
  pose proof (allow_after_accounts au r cks (m_s ms) (m_s ms1) tr (s_allow ss) (members_of (model_obs ms2 U))
                (keychanges (m_s ms1)) Hh Ha eq_refl (ki_cur _ _ _ HI) Hal) as Hal2. fold tr1 in Hal2.
  pose proof (allow_after_invites au r cks (m_s ms) (m_s ms1) tr (s_allow_inv ss) (map snd (open_invites (m_s ms2)))
                (keychanges (m_s ms1)) Hh Ha eq_refl (ki_cur _ _ _ HI) Hali) as Hali2. fold tr1 in Hali2.
  eexists. exists tr1. split.
  - apply (spec_step_true ss au r cks _ _ _ (keychanges (m_s ms1)) (m_log ms1)).
    + rewrite Hg. symmetry. exact Egens.
    + now rewrite Hl.
    + rewrite Hg. reflexivity.
    + rewrite Hg. reflexivity.
    + apply forallb_forall. intros o Ho'. change (model_obs ms2 U) with (map (obs_of ms2) U) in Ho'.
      apply in_map_iff in Ho'. destruct Ho' as [a [<- HaU]].
      apply (acct_ok_model ms2 tr1); [exact HX2|exact HV2|now rewrite Hdom2|exact Hal2].
    + intros k. exact (inv_secrecy_model _ _ tr1 _ k HX2 Hali2).
    + intros k Hk. exact (open_leads_model _ _ tr1 k HX2 Hk).
    + rewrite Ho. apply (rot_exact_ok au r (m_s ms) (s_members ss) cks (m_s ms) (m_s ms1) [] Ha (ki_wf _ _ _ HI) Hm).
      intros r0 iv. cbn [In]. tauto.
  - constructor; cbn [s_gens s_log s_members s_open s_allow s_allow_inv]; try assumption; try reflexivity.
    + intros a. change (model_obs ms2 U) with (map (obs_of ms2) U). rewrite members_of_model. split; [tauto|].
      intros Hp. split; [now apply Hcov2|exact Hp].
Qed.

(* ------------------------------------------------------------------------------------------ histories *)
Lemma Sim_run : forall U h ms ss tr, Sim U ms ss tr ->
  forallb (fun x : hrec => forallb (fun ck : kcontent => subsetN (admits (fst ck)) U) (snd x)) h = true ->
  honest_run ms h = true ->
  spec_steps ss (model_steps ms U h) = true.
Proof.
  intros U h. induction h as [|[[au r] cks] rest IH]; intros ms ss tr HS Hcov Hh; [reflexivity|].
  cbn [forallb snd] in Hcov. apply andb_true_iff in Hcov. destruct Hcov as [Hcov Hcrest].
  cbn [honest_run fst snd] in Hh. apply andb_true_iff in Hh. destruct Hh as [Hh Hrest].
  cbn [model_steps fst snd]. unfold spec_steps. cbn [spec_steps_gen].
  assert (Hh' : snd (krecord_step false ms au r cks) = true -> honest_contents (m_s ms) au r cks = true).
  { intros E. rewrite E in Hh. exact Hh. }
  destruct (Sim_step U ms ss tr au r cks HS Hcov Hh') as [ss1 [tr1 [Hspec HS1]]].
  unfold spec_step in Hspec. rewrite Hspec. cbn [andb].
  exact (IH _ ss1 tr1 HS1 Hcrest Hrest).
Qed.

(* THE THEOREM: on every honest history over a universe of observed accounts that contains the owner and every
   identity the history admits, the property predicate is true on what the model presents *)
Theorem model_satisfies_spec : forall owner root U h,
  covers U owner h = true ->
  honest_run (kinit owner root U) h = true ->
  spec_C05 owner root (model_steps (kinit owner root U) U h) = true.
Proof.
  intros owner root U h Hc Hh. unfold covers in Hc. apply andb_true_iff in Hc. destruct Hc as [Ho Hc].
  apply memN_In in Ho. unfold spec_C05.
  exact (Sim_run U h _ _ _ (Sim_init U owner root Ho) Hc Hh).
Qed.

(* the extended invariant along histories *)
Lemma KInvX_run : forall h ms tr, KInvX (m_s ms) (m_log ms) tr -> honest_run ms h = true ->
  KInvX (m_s (run_hist ms h)) (m_log (run_hist ms h)) (tr ++ trace ms h).
Proof.
  induction h as [|[[au r] cks] rest IH]; intros ms tr HI Hh.
  - cbn. now rewrite app_nil_r.
  - cbn [honest_run run_hist fold_left trace fst snd] in *.
    unfold krecord_step in *.
    destruct (kcontents_step false ms au r cks) as [ms1|] eqn:Hs; cbn [fst snd] in *.
    + apply andb_true_iff in Hh. destruct Hh as [Hh Hrest]. cbn [negb orb] in Hh.
      pose proof (KInvX_contents au r cks ms ms1 tr HI Hs Hh) as HI1.
      apply (KInvX_set_last _ _ _ r) in HI1.
      set (ms2 := mkM (set_last (m_s ms1) r) (m_log ms1) (m_olds ms1) (m_views ms1)) in *.
      specialize (IH ms2 _ HI1 Hrest). fold (run_hist ms2 rest) in *.
      rewrite <- !app_assoc in IH. rewrite <- app_assoc. exact IH.
    + apply andb_true_iff in Hh. destruct Hh as [_ Hrest].
      specialize (IH ms tr HI Hrest). exact IH.
Qed.

Theorem reachX_hist : forall owner root U h,
  honest_run (kinit owner root U) h = true ->
  KInvX (m_s (run_hist (kinit owner root U) h)) (m_log (run_hist (kinit owner root U) h))
        (init_state 0 owner root None :: trace (kinit owner root U) h).
Proof.
  intros owner root U h Hh.
  apply (KInvX_run h (kinit owner root U) [init_state 0 owner root None]); [|exact Hh].
  unfold kinit. cbn [m_s m_log]. apply KInvX_init.
Qed.

(* secrecy for invite keys, on histories *)
Theorem invite_derive_only_if_live_hist : forall owner root U h k g,
  honest_run (kinit owner root U) h = true ->
  let ms := run_hist (kinit owner root U) h in
  Derives (PI k) (m_log ms) g ->
  exists st, In st (init_state 0 owner root None :: trace (kinit owner root U) h) /\
             In k (active_invite_keys st) /\ In g (keychanges st).
Proof.
  intros owner root U h k g Hh ms Hd.
  exact (invite_derive_only_if_live _ _ _ k g (reachX_hist owner root U h Hh) Hd).
Qed.

Theorem revoked_invite_cannot_derive : forall owner root U h k g,
  honest_run (kinit owner root U) h = true ->
  let ms := run_hist (kinit owner root U) h in
  (forall st, In st (init_state 0 owner root None :: trace (kinit owner root U) h) -> In g (keychanges st) ->
              ~ In k (active_invite_keys st)) ->
  ~ Derives (PI k) (m_log ms) g /\ ~ In g (derives (PI k) (m_log ms)).
Proof.
  intros owner root U h k g Hh ms Hnever.
  assert (Hn : ~ Derives (PI k) (m_log ms) g).
  { intros Hd. destruct (invite_derive_only_if_live_hist owner root U h k g Hh Hd) as [st [Hst [Hk Hg]]].
    exact (Hnever st Hst Hg Hk). }
  split; [exact Hn|]. intros Hin. apply Hn. now apply derives_sound.
Qed.

(* a live open invite leads to the current key, on histories *)
Theorem open_invite_leads_to_current : forall owner root U h k,
  honest_run (kinit owner root U) h = true ->
  let ms := run_hist (kinit owner root U) h in
  In k (active_invite_keys (m_s ms)) ->
  In (cur_key (m_s ms)) (derives (PI k) (m_log ms)) /\ Derives (PI k) (m_log ms) (cur_key (m_s ms)).
Proof.
  intros owner root U h k Hh ms Hk.
  pose proof (kx_open _ _ _ (reachX_hist owner root U h Hh) k Hk) as Hin. fold ms in Hin.
  split; [unfold derives; apply saturate_mono; now apply direct_In|exists O; now apply D_direct].
Qed.
