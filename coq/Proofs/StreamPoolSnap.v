(* Proofs about Model/StreamPool.v (property C19), part 5: the SNAPSHOT form of index consistency and of cleanup.
   [canon_imap] / [snap_consistent] / [snap_mentions] iterate over every entry of the association lists [by_peer] /
   [by_tag], while [idx_inv] speaks through [mget] (first entry per key).  The missing link is one more invariant over
   all label sequences: the keys of both maps are pairwise distinct ([knd]; [mset] deletes the key before it conses),
   plus permutation lemmas for the insertion sorts [sortN] / [sortK].  Results: [snap_consistent_good] (every snapshot of
   a reachable state is consistent) and [snap_not_mentions] (a snapshot never mentions a stream that is not live). *)
From Coq Require Import List NArith Bool Lia Arith Permutation.
Import ListNotations.
From AnySync Require Import Model.StreamPool Proofs.StreamPoolProofs Proofs.StreamPoolIndex Proofs.StreamPoolSpec.
Open Scope N_scope.

(* ------------------------------------------------------------------ the insertion sorts are permutations *)
Lemma insN_perm : forall x l, Permutation (insN x l) (x :: l).
Proof.
  intros x l; induction l as [|y l IH]; cbn [insN]; [apply Permutation_refl|].
  destruct (x <=? y); [apply Permutation_refl|].
  apply perm_trans with (y :: x :: l); [apply perm_skip; exact IH | apply perm_swap].
Qed.

Lemma sortN_perm : forall l, Permutation (sortN l) l.
Proof.
  induction l as [|x l IH]; [apply Permutation_refl|]. unfold sortN in *. cbn [fold_right].
  apply perm_trans with (x :: fold_right insN [] l); [apply insN_perm | apply perm_skip; exact IH].
Qed.

Lemma insK_perm : forall (A : Type) (x : N * A) l, Permutation (insK x l) (x :: l).
Proof.
  intros A x l; induction l as [|y l IH]; cbn [insK]; [apply Permutation_refl|].
  destruct (fst x <=? fst y); [apply Permutation_refl|].
  apply perm_trans with (y :: x :: l); [apply perm_skip; exact IH | apply perm_swap].
Qed.

Lemma sortK_perm : forall (A : Type) (l : list (N * A)), Permutation (sortK l) l.
Proof.
  intros A; induction l as [|x l IH]; [apply Permutation_refl|]. unfold sortK in *. cbn [fold_right].
  apply perm_trans with (x :: fold_right insK [] l); [apply insK_perm | apply perm_skip; exact IH].
Qed.

Lemma countN_perm : forall x a b, Permutation a b -> countN x a = countN x b.
Proof.
  intros x a b H; induction H as [|y a b H IH|y z a|a b c H1 IH1 H2 IH2]; cbn [countN]; auto.
  - rewrite IH; reflexivity.
  - destruct (x =? y); destruct (x =? z); reflexivity.
  - congruence.
Qed.

Lemma countN_sortN : forall x l, countN x (sortN l) = countN x l.
Proof. intros. apply countN_perm, sortN_perm. Qed.

Lemma in_sortN : forall x l, In x (sortN l) <-> In x l.
Proof.
  intros x l; split; intros H.
  - eapply Permutation_in; [apply sortN_perm | exact H].
  - eapply Permutation_in; [apply Permutation_sym, sortN_perm | exact H].
Qed.

Lemma memN_in : forall x l, memN x l = true <-> In x l.
Proof.
  intros x l. unfold memN. rewrite existsb_exists. split.
  - intros (y & Hy & E). apply N.eqb_eq in E. subst. exact Hy.
  - intros H. exists x. split; [exact H | apply N.eqb_refl].
Qed.

Lemma memN_false_notin : forall x l, memN x l = false <-> ~ In x l.
Proof.
  intros x l. rewrite <- memN_in. destruct (memN x l); split; intros H.
  - discriminate.
  - exfalso; apply H; reflexivity.
  - intros H'; discriminate.
  - reflexivity.
Qed.

Lemma memN_sortN : forall x l, memN x (sortN l) = memN x l.
Proof. intros x l. rewrite !memN_count, countN_sortN. reflexivity. Qed.

(* ------------------------------------------------------------------ distinct keys *)
Definition keys (m : imap) : list N := map fst m.

Lemma keys_mdel_in : forall k k' m, In k' (keys (mdel k m)) -> In k' (keys m) /\ k' <> k.
Proof.
  intros k k' m; induction m as [|[a v] r IH]; cbn [mdel keys map fst]; [tauto|].
  destruct (k =? a) eqn:E.
  - intros H. destruct (IH H) as (H1 & H2). split; [right; exact H1 | exact H2].
  - cbn [keys map fst In]. intros [H|H].
    + subst a. split; [left; reflexivity|]. intros ->. rewrite N.eqb_refl in E. discriminate.
    + destruct (IH H) as (H1 & H2). split; [right; exact H1 | exact H2].
Qed.

Lemma keys_mdel_nodup : forall k m, NoDup (keys m) -> NoDup (keys (mdel k m)).
Proof.
  intros k m; induction m as [|[a v] r IH]; cbn [mdel keys map fst]; intros H; [constructor|].
  inversion H as [|x l Hn Hr]; subst.
  destruct (k =? a); [apply IH; exact Hr|].
  cbn [keys map fst]. constructor; [|apply IH; exact Hr].
  intros Hin. apply keys_mdel_in in Hin. apply Hn. exact (proj1 Hin).
Qed.

Lemma keys_mset_nodup : forall k v m, NoDup (keys m) -> NoDup (keys (mset k v m)).
Proof.
  intros k v m H. unfold mset. destruct v as [|x v]; [apply keys_mdel_nodup; exact H|].
  cbn [keys map fst]. constructor; [|apply keys_mdel_nodup; exact H].
  intros Hin. apply keys_mdel_in in Hin. apply (proj2 Hin). reflexivity.
Qed.

Lemma keys_idx_append_nodup : forall m k sid, NoDup (keys m) -> NoDup (keys (idx_append m k sid)).
Proof. intros. unfold idx_append. apply keys_mset_nodup; assumption. Qed.

Lemma keys_fold_append_nodup : forall tags m sid,
  NoDup (keys m) -> NoDup (keys (fold_left (fun m t => idx_append m t sid) tags m)).
Proof.
  induction tags as [|t tags IH]; intros m sid H; cbn [fold_left]; [exact H|].
  apply IH. apply keys_idx_append_nodup. exact H.
Qed.

Lemma keys_idx_remove_nodup : forall m k sid m', idx_remove m k sid = Some m' -> NoDup (keys m) -> NoDup (keys m').
Proof.
  intros m k sid m' H Hn. unfold idx_remove in H. destruct (remove_first sid (mget k m)) as [l'|]; [|discriminate].
  inversion H; subst. apply keys_mset_nodup. exact Hn.
Qed.

Lemma keys_idx_remove_all_nodup : forall ks m sid m',
  idx_remove_all m ks sid = Some m' -> NoDup (keys m) -> NoDup (keys m').
Proof.
  induction ks as [|k ks IH]; intros m sid m' H Hn; cbn [idx_remove_all] in H.
  - inversion H; subst. exact Hn.
  - destruct (idx_remove m k sid) as [m1|] eqn:E; [|discriminate].
    eapply IH; [exact H|]. eapply keys_idx_remove_nodup; eauto.
Qed.

(* the invariant: both index maps have pairwise distinct keys *)
Definition knd (s : state) : Prop := NoDup (keys (by_peer s)) /\ NoDup (keys (by_tag s)).

Lemma init_knd : forall c, knd (init c).
Proof. intros c. split; cbn; constructor. Qed.

Lemma knd_same : forall s s', by_peer s' = by_peer s -> by_tag s' = by_tag s -> knd s -> knd s'.
Proof. intros s s' E1 E2 [H1 H2]. split; [rewrite E1 | rewrite E2]; assumption. Qed.

Lemma knd_start_caller : forall s cid m md gs ps, knd s -> knd (start_caller s cid m md gs ps).
Proof. intros. unfold start_caller. destruct (all_in_pool s (concat gs)); eapply knd_same; eauto. Qed.

Lemma knd_add_stream : forall s p c t g, knd s -> knd (fst (add_stream s p c t g)).
Proof.
  intros s p c t g [H1 H2]. unfold add_stream. cbn [fst]. split; cbn [by_peer by_tag].
  - apply keys_idx_append_nodup; exact H1.
  - apply keys_fold_append_nodup; exact H2.
Qed.

Lemma knd_upd_stream : forall s sid f, knd s -> knd (upd_stream s sid f).
Proof. intros s sid f H. unfold upd_stream. destruct (hget sid (objs s)); [eapply knd_same; eauto | exact H]. Qed.

Theorem step_knd : forall s l, knd s -> knd (step s l).
Proof.
  intros s l H. unfold step, step_out. destruct (fatal s || panicked s); cbn [fst]; [exact H|].
  destruct l; cbn [fst].
  - pose proof (knd_add_stream s peer cap tags cgate H) as Ha.
    destruct (add_stream s peer cap tags cgate); cbn [fst] in *; exact Ha.
  - apply knd_start_caller; exact H.
  - apply knd_start_caller; exact H.
  - unfold do_write. destruct (cget cid (callers s)) as [p|]; cbn [fst]; [|exact H].
    destruct (next_target (p_groups p)) as [[[sid g] rest]|]; cbn [fst]; [|exact H].
    destruct (hget sid (objs s)) as [st|]; cbn [fst]; [|eapply knd_same; eauto].
    destruct (write_stream st (p_msg p)) as [st' r]; cbn [fst]. eapply knd_same; eauto.
  - unfold add_tags. destruct (negb (memN sid (pool_ids s))); cbn [fst]; [exact H|].
    destruct (hget sid (objs s)) as [st|]; cbn [fst]; [|eapply knd_same; eauto].
    destruct (add_new_tags (st_tags st) tags) as [cur' newt]. cbn [fst].
    destruct H as [H1 H2]. split; cbn [by_peer by_tag upd_by_tag upd_objs]; [exact H1|].
    apply keys_fold_append_nodup; exact H2.
  - unfold remove_tags. destruct (negb (memN sid (pool_ids s))); cbn [fst]; [exact H|].
    destruct (hget sid (objs s)) as [st|]; cbn [fst]; [|eapply knd_same; eauto].
    match goal with |- context [idx_remove_all ?a ?b ?c] => destruct (idx_remove_all a b c) as [m'|] eqn:E end; cbn [fst].
    + destruct H as [H1 H2]. split; cbn [by_peer by_tag upd_by_tag upd_objs]; [exact H1|].
      eapply keys_idx_remove_all_nodup; [exact E|]. cbn [by_tag upd_objs]. exact H2.
    + eapply knd_same; eauto.
  - destruct (all_in_pool s (streams_of s tags)); cbn [fst]; [exact H | eapply knd_same; eauto].
  - destruct (hget sid (objs s)) as [st|]; cbn [fst]; [|exact H].
    destruct (take st) as [st' o]; cbn [fst]. eapply knd_same; eauto.
  - apply knd_upd_stream; exact H.
  - apply knd_upd_stream; exact H.
  - apply knd_upd_stream; exact H.
  - apply knd_upd_stream; exact H.
  - unfold remove_stream. destruct (hget sid (objs s)) as [st|]; [|exact H].
    destruct (st_qclosed st && negb (st_removed st)); [|exact H].
    destruct (negb (memN sid (pool_ids s))); [eapply knd_same; eauto|].
    destruct (idx_remove (by_peer s) (st_peer st) sid) as [bp|] eqn:E1; [|eapply knd_same; eauto].
    destruct (idx_remove_all (by_tag s) (st_tags st) sid) as [bt|] eqn:E2; [|eapply knd_same; eauto].
    destruct H as [H1 H2]. split; cbn [by_peer by_tag].
    + eapply keys_idx_remove_nodup; eauto.
    + eapply keys_idx_remove_all_nodup; eauto.
  - unfold send_enqueue. destruct (_ && _); cbn [fst]; [exact H | eapply knd_same; eauto].
  - unfold dial_take. destruct (running s <? dial_workers (cfg s)); [|exact H].
    destruct (dialq s) as [|[[c m] ps] q]; [exact H | eapply knd_same; eauto].
  - unfold dial_peer. destruct (cget cid (callers s)) as [p|]; cbn [fst]; [|exact H].
    destruct (next_target (p_groups p)); cbn [fst]; [exact H|].
    destruct (p_peers p) as [|peer rest]; cbn [fst]; [exact H|].
    destruct (mget peer (by_peer s)) as [|x g].
    + destruct opn as [[[cap tags] cg]|]; cbn [fst]; [|eapply knd_same; eauto].
      pose proof (knd_add_stream s peer cap tags cg H) as Ha.
      destruct (add_stream s peer cap tags cg) as [s1 k]; cbn [fst] in *.
      apply knd_start_caller; exact Ha.
    + cbn [fst]. apply knd_start_caller; exact H.
  - unfold dial_done. destruct (cget cid (callers s)) as [p|]; [|exact H].
    destruct (next_target (p_groups p)); [exact H|]. destruct (p_peers p); [|exact H].
    destruct (p_mode p); try exact H. destruct (0 <? running s); [eapply knd_same; eauto | exact H].
Qed.

Theorem run_knd : forall tr s, knd s -> knd (run s tr).
Proof. induction tr as [|l tr IH]; intros s H; cbn [run fold_left]; [exact H|]. apply IH, step_knd, H. Qed.

Theorem reachable_knd : forall c tr, knd (run (init c) tr).
Proof. intros. apply run_knd, init_knd. Qed.

(* ------------------------------------------------------------------ mget on a map with distinct keys, and on its canonical form *)
Lemma mget_in_nodup : forall m k v, NoDup (keys m) -> In (k, v) m -> mget k m = v.
Proof.
  induction m as [|[a w] r IH]; intros k v Hn Hin; cbn [In] in Hin; [tauto|].
  cbn [keys map fst] in Hn. inversion Hn as [|x l Hna Hr]; subst. cbn [mget].
  destruct Hin as [E|Hin].
  - inversion E; subst. rewrite N.eqb_refl. reflexivity.
  - destruct (k =? a) eqn:E; [|apply IH; assumption].
    apply N.eqb_eq in E; subst a. exfalso. apply Hna. apply in_map_iff. exists (k, v). split; [reflexivity|exact Hin].
Qed.

Lemma mget_notin : forall m k, ~ In k (keys m) -> mget k m = [].
Proof.
  induction m as [|[a w] r IH]; intros k Hn; cbn [mget]; [reflexivity|].
  cbn [keys map fst In] in Hn. destruct (k =? a) eqn:E.
  - apply N.eqb_eq in E; subst a. exfalso. apply Hn. left; reflexivity.
  - apply IH. intros H. apply Hn. right; exact H.
Qed.

Lemma in_keys_exists : forall m k, In k (keys m) -> exists v, In (k, v) m.
Proof.
  intros m k H. unfold keys in H. apply in_map_iff in H. destruct H as ([a v] & E & Hin). cbn in E; subst a.
  exists v. exact Hin.
Qed.

Lemma mget_perm : forall m m' k, NoDup (keys m) -> Permutation m m' -> mget k m = mget k m'.
Proof.
  intros m m' k Hn Hp.
  assert (Hk : Permutation (keys m) (keys m')) by (apply Permutation_map; exact Hp).
  destruct (in_dec N.eq_dec k (keys m)) as [Hin|Hnin].
  - destruct (in_keys_exists m k Hin) as (v & Hv).
    rewrite (mget_in_nodup m k v Hn Hv). symmetry. apply mget_in_nodup.
    + eapply Permutation_NoDup; eauto.
    + eapply Permutation_in; eauto.
  - rewrite (mget_notin m k Hnin). symmetry. apply mget_notin.
    intros H. apply Hnin. eapply Permutation_in; [apply Permutation_sym; exact Hk | exact H].
Qed.

Lemma mget_map_values : forall (f : list N -> list N) m k, f [] = [] ->
  mget k (map (fun kv => (fst kv, f (snd kv))) m) = f (mget k m).
Proof.
  intros f m k Hf; induction m as [|[a w] r IH]; cbn [map mget fst snd]; [symmetry; exact Hf|].
  destruct (k =? a); [reflexivity | exact IH].
Qed.

Lemma keys_map_values : forall (f : list N -> list N) m, keys (map (fun kv => (fst kv, f (snd kv))) m) = keys m.
Proof. intros f m. unfold keys. rewrite map_map. cbn [fst]. reflexivity. Qed.

Lemma mget_canon : forall m k, NoDup (keys m) -> mget k (canon_imap m) = sortN (mget k m).
Proof.
  intros m k Hn. unfold canon_imap.
  rewrite <- (mget_perm (map (fun kv => (fst kv, sortN (snd kv))) m) _ k).
  - apply mget_map_values. reflexivity.
  - rewrite keys_map_values. exact Hn.
  - apply Permutation_sym, sortK_perm.
Qed.

Lemma in_canon : forall m k v', In (k, v') (canon_imap m) -> exists v0, In (k, v0) m /\ v' = sortN v0.
Proof.
  intros m k v' H. unfold canon_imap in H.
  apply (Permutation_in _ (sortK_perm _ _)) in H. apply in_map_iff in H.
  destruct H as ([a w] & E & Hin). cbn [fst snd] in E. inversion E; subst. exists w. split; [exact Hin | reflexivity].
Qed.

(* ------------------------------------------------------------------ the streams part of a snapshot *)
Definition sview_list (s : state) (l : list N) : list (N * sview) :=
  flat_map (fun sid => match hget sid (objs s) with Some st => [(sid, view_of st)] | None => [] end) l.

Lemma vget_sview : forall s l sid,
  vget sid (sview_list s l) = if memN sid l then option_map view_of (hget sid (objs s)) else None.
Proof.
  intros s l sid; induction l as [|x l IH]; [reflexivity|].
  unfold sview_list in *. cbn [flat_map]. unfold memN in *. cbn [existsb].
  destruct (sid =? x) eqn:E; cbn [orb].
  - apply N.eqb_eq in E; subst x. destruct (hget sid (objs s)) as [st|] eqn:Eh; cbn [app vget option_map].
    + rewrite N.eqb_refl. reflexivity.
    + rewrite IH. destruct (existsb (N.eqb sid) l); reflexivity.
  - destruct (hget x (objs s)) as [st|]; cbn [app vget]; [rewrite E|]; exact IH.
Qed.

Lemma in_sview : forall s l sid v, In (sid, v) (sview_list s l) ->
  In sid l /\ exists st, hget sid (objs s) = Some st /\ v = view_of st.
Proof.
  intros s l sid v H. unfold sview_list in H. apply in_flat_map in H. destruct H as (x & Hx & Hin).
  destruct (hget x (objs s)) as [st|] eqn:E; cbn [In] in Hin; [|tauto].
  destruct Hin as [Hin|[]]. inversion Hin; subst. split; [exact Hx|]. exists st. split; [exact E | reflexivity].
Qed.

Lemma snapshot_streams : forall s, sn_streams (snapshot s) = sview_list s (sortN (pool_ids s)).
Proof. reflexivity. Qed.

Lemma live_view : forall s sid, idx_inv s -> live s sid = true ->
  exists st, hget sid (objs s) = Some st /\ st_removed st = false
             /\ vget sid (sview_list s (sortN (pool_ids s))) = Some (view_of st).
Proof.
  intros s sid Hi Hl. rewrite vget_sview, memN_sortN, (ii_pool s Hi), Hl. unfold live in Hl.
  destruct (hget sid (objs s)) as [st|]; [|discriminate]. exists st. split; [reflexivity|]. split; [|reflexivity].
  destruct (st_removed st); [discriminate|reflexivity].
Qed.

(* ------------------------------------------------------------------ snapshot form of index consistency *)
Theorem snap_consistent_good : forall s, idx_inv s -> knd s -> snap_consistent (snapshot s) = true.
Proof.
  intros s Hi [Kp Kt]. unfold snap_consistent. rewrite snapshot_streams. cbn [snapshot sn_by_peer sn_by_tag].
  apply andb_true_iff; split; [apply andb_true_iff; split|].
  - apply forallb_forall. intros [k v'] Hin. apply forallb_forall. intros sid Hs. cbn [fst snd] in *.
    apply in_canon in Hin. destruct Hin as (v0 & Hin & ->).
    pose proof (mget_in_nodup _ _ _ Kp Hin) as Hm. apply (proj1 (in_sortN _ _)) in Hs.
    assert (Hc : (1 <= countN sid (mget k (by_peer s)))%nat) by (rewrite Hm; apply countN_in; exact Hs).
    pose proof (ii_peer s Hi sid k) as Hpe. rewrite Hpe in Hc.
    destruct (live s sid) eqn:Hl; [|cbn in Hc; lia].
    destruct (peer_of s sid =? k) eqn:Hp; [|cbn in Hc; lia].
    destruct (live_view s sid Hi Hl) as (st & Hg & Hr & Hvg). rewrite Hvg. cbn [sv_peer view_of].
    unfold peer_of in Hp. rewrite Hg in Hp. rewrite Hp. cbn [andb].
    rewrite countN_sortN, <- Hm, Hpe. cbn [andb]. reflexivity.
  - apply forallb_forall. intros [k v'] Hin. apply forallb_forall. intros sid Hs. cbn [fst snd] in *.
    apply in_canon in Hin. destruct Hin as (v0 & Hin & ->).
    pose proof (mget_in_nodup _ _ _ Kt Hin) as Hm. apply (proj1 (in_sortN _ _)) in Hs.
    assert (Hl : live s sid = true) by (eapply in_by_tag_live; [exact Hi | rewrite Hm; exact Hs]).
    destruct (live_view s sid Hi Hl) as (st & Hg & Hr & Hvg). rewrite Hvg. cbn [sv_tags view_of].
    rewrite !countN_sortN, <- Hm, (ii_tag s Hi), Hl. unfold tags_of. rewrite Hg. apply Nat.eqb_refl.
  - apply forallb_forall. intros [sid v] Hin. cbn [fst snd].
    apply in_sview in Hin. destruct Hin as (Hpool & st & Hg & ->).
    apply (proj1 (in_sortN _ _)) in Hpool. apply (proj2 (memN_in _ _)) in Hpool. rewrite (ii_pool s Hi) in Hpool.
    cbn [sv_peer sv_tags view_of]. apply andb_true_iff; split.
    + rewrite (mget_canon _ _ Kp), countN_sortN, (ii_peer s Hi), Hpool. unfold peer_of. rewrite Hg, N.eqb_refl. reflexivity.
    + apply forallb_forall. intros t _.
      rewrite (mget_canon _ _ Kt), !countN_sortN, (ii_tag s Hi), Hpool. unfold tags_of. rewrite Hg. apply Nat.eqb_refl.
Qed.

(* ------------------------------------------------------------------ a snapshot mentions live streams only *)
Theorem snap_not_mentions : forall s sid, idx_inv s -> knd s -> live s sid = false ->
  snap_mentions (snapshot s) sid = false.
Proof.
  intros s sid Hi [Kp Kt] Hl. unfold snap_mentions. rewrite snapshot_streams. cbn [snapshot sn_by_peer sn_by_tag].
  apply orb_false_iff; split; [apply orb_false_iff; split|].
  - apply not_true_iff_false. intros H. apply existsb_exists in H. destruct H as ([k v] & Hin & E). cbn [fst] in E.
    apply N.eqb_eq in E; subst k. apply in_sview in Hin. destruct Hin as (Hpool & _).
    apply (proj1 (in_sortN _ _)) in Hpool. apply (proj2 (memN_in _ _)) in Hpool. rewrite (ii_pool s Hi) in Hpool. congruence.
  - apply not_true_iff_false. intros H. apply existsb_exists in H. destruct H as ([k v'] & Hin & E). cbn [snd] in E.
    apply in_canon in Hin. destruct Hin as (v0 & Hin & ->). apply (proj1 (memN_in _ _)) in E. apply (proj1 (in_sortN _ _)) in E.
    pose proof (mget_in_nodup _ _ _ Kp Hin) as Hm.
    assert (live s sid = true) by (eapply in_by_peer_live; [exact Hi | rewrite Hm; exact E]). congruence.
  - apply not_true_iff_false. intros H. apply existsb_exists in H. destruct H as ([k v'] & Hin & E). cbn [snd] in E.
    apply in_canon in Hin. destruct Hin as (v0 & Hin & ->). apply (proj1 (memN_in _ _)) in E. apply (proj1 (in_sortN _ _)) in E.
    pose proof (mget_in_nodup _ _ _ Kt Hin) as Hm.
    assert (live s sid = true) by (eapply in_by_tag_live; [exact Hi | rewrite Hm; exact E]). congruence.
Qed.

(* every reachable state (every label sequence): its snapshot is consistent, and it mentions no removed stream *)
Theorem snapshot_consistent_all_schedules : forall c tr, snap_consistent (snapshot (run (init c) tr)) = true.
Proof. intros. apply snap_consistent_good; [apply reachable_idx_inv | apply reachable_knd]. Qed.

Theorem snapshot_cleanup_all_schedules : forall c tr sid st,
  hget sid (objs (run (init c) tr)) = Some st -> st_removed st = true ->
  snap_mentions (snapshot (run (init c) tr)) sid = false.
Proof.
  intros c tr sid st Hg Hr. apply snap_not_mentions; [apply reachable_idx_inv | apply reachable_knd|].
  unfold live. rewrite Hg, Hr. reflexivity.
Qed.
