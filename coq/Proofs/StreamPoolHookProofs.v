(* Proofs about Model/StreamPoolHook.v (property C19): the stream-close hook and a pool owner with the lock order
   "owner mutex -> pool.mu".
   1. the pool component of the layered system follows the pool's own labels, whatever the owner's mutex and the parked
      hooks do ([hrun_pool]): every theorem about [run] transfers; no pool label is ever disabled ([hook_layer_never_blocks]);
   2. for ALL schedules of the layered system: a hook returns at most once per stream, only for a removed stream, and what
      it reads from the pool never contains its own (or any removed) stream ([hook_notes_clean], [hook_notes_nodup]);
      a parked hook returns in one step as soon as the owner's mutex is free, so the sequence "unlock, hooks" drains every
      pending hook from every reachable state ([hooks_drain]);
   3. the model's harness-level histories satisfy the executable predicate [spec_C19_hook] ([model_hist2_spec_ok]);
   4. the excluded design (hook under pool.mu, [hstep_ul]): once a hook is pending the pool is frozen for ever
      ([ul_frozen]). *)
From Coq Require Import List NArith Bool Lia Arith Permutation.
Import ListNotations.
From AnySync Require Import Model.StreamPool Model.StreamPoolHook Proofs.StreamPoolProofs Proofs.StreamPoolIndex
  Proofs.StreamPoolSpec Proofs.StreamPoolHist Proofs.StreamPoolSnap Proofs.StreamPoolFull.
Open Scope N_scope.

(* ------------------------------------------------------------------ 1. projection on the pool *)
Lemma hstep_pool : forall hs l,
  h_pool (hstep hs l) = match l with HL l0 => step (h_pool hs) l0 | _ => h_pool hs end.
Proof.
  intros hs l. destruct l as [l0| | |sid]; unfold hstep; cbn [hstep_out fst h_pool]; try reflexivity.
  destruct (hook_pending hs sid && negb (h_owner hs)); reflexivity.
Qed.

Theorem hrun_pool : forall tr hs, h_pool (hrun hs tr) = run (h_pool hs) (pool_labels tr).
Proof.
  induction tr as [|l tr IH]; intros hs; [reflexivity|].
  change (hrun hs (l :: tr)) with (hrun (hstep hs l) tr). rewrite IH, hstep_pool.
  destruct l; reflexivity.
Qed.

(* a pool label has exactly its effect on the pool, and touches neither the owner's mutex nor the hooks: nothing the owner
   or a parked hook does can disable or delay it *)
Theorem hook_layer_never_blocks : forall hs l,
  hstep hs (HL l) = mkH (step (h_pool hs) l) (h_owner hs) (h_done hs).
Proof. reflexivity. Qed.

Lemma hrun_app : forall a b hs, hrun hs (a ++ b) = hrun (hrun hs a) b.
Proof. intros. unfold hrun. apply fold_left_app. Qed.

Lemma hrun_notes_app : forall a b hs, hrun_notes hs (a ++ b) = hrun_notes hs a ++ hrun_notes (hrun hs a) b.
Proof.
  induction a as [|l a IH]; intros b hs; [reflexivity|].
  cbn [app hrun_notes]. rewrite IH, app_assoc. reflexivity.
Qed.

Lemma hrun_map_HL : forall ls hs,
  hrun hs (map HL ls) = mkH (run (h_pool hs) ls) (h_owner hs) (h_done hs) /\ hrun_notes hs (map HL ls) = [].
Proof.
  induction ls as [|l ls IH]; intros hs.
  - destruct hs; split; reflexivity.
  - cbn [map]. change (hrun hs (HL l :: map HL ls)) with (hrun (hstep hs (HL l)) (map HL ls)).
    cbn [hrun_notes]. destruct (IH (hstep hs (HL l))) as [E1 E2]. rewrite E1, E2. split; reflexivity.
Qed.

(* ------------------------------------------------------------------ 2. invariants over all schedules *)
Lemma removed_live : forall s x, live s x = true -> removed_in s x = false.
Proof.
  intros s x H. unfold live in H. unfold removed_in. destruct (hget x (objs s)); [|reflexivity].
  apply negb_true_iff in H. exact H.
Qed.

Lemma removed_in_some : forall s x, removed_in s x = true -> exists st, hget x (objs s) = Some st /\ st_removed st = true.
Proof. intros s x H. unfold removed_in in H. destruct (hget x (objs s)) as [st|]; [exists st; auto|discriminate]. Qed.

Lemma removed_in_mono : forall s tr x, idx_inv s -> removed_in s x = true -> removed_in (run s tr) x = true.
Proof.
  intros s tr x Hi H. apply removed_in_some in H. destruct H as (st & Hg & Hr).
  destruct (run_heap_mono tr s Hi x st Hg) as (y & Hy & [_ G]). unfold removed_in. rewrite Hy. auto.
Qed.

Definition hinv (hs : hstate) : Prop :=
  idx_inv (h_pool hs) /\ forall x, In x (h_done hs) -> removed_in (h_pool hs) x = true.

Lemma hinit_hinv : forall c, hinv (hinit c).
Proof. intros c. split; [apply init_idx_inv|]. intros x []. Qed.

Lemma pending_removed : forall hs x, hook_pending hs x = true -> removed_in (h_pool hs) x = true /\ ~ In x (h_done hs).
Proof.
  intros hs x H. unfold hook_pending in H. apply andb_true_iff in H. destruct H as [H1 H2]. split; [exact H1|].
  apply negb_true_iff in H2. apply memN_false_notin. exact H2.
Qed.

Lemma pending_intro : forall hs x, removed_in (h_pool hs) x = true -> ~ In x (h_done hs) -> hook_pending hs x = true.
Proof.
  intros hs x H1 H2. unfold hook_pending. rewrite H1. apply memN_false_notin in H2. rewrite H2. reflexivity.
Qed.

Lemma hstep_hinv : forall hs l, hinv hs -> hinv (hstep hs l).
Proof.
  intros hs l [Hi Hd]. destruct l as [l0| | |sid]; unfold hstep; cbn [hstep_out fst].
  - split; cbn [h_pool h_done]; [apply step_idx_inv; exact Hi|].
    intros x Hx. apply (removed_in_mono (h_pool hs) [l0] x Hi). apply Hd. exact Hx.
  - split; cbn [h_pool h_done]; auto.
  - split; cbn [h_pool h_done]; auto.
  - destruct (hook_pending hs sid && negb (h_owner hs)) eqn:E; cbn [fst]; [|split; auto].
    split; cbn [h_pool h_done]; [exact Hi|]. intros x [<-|Hx]; [|apply Hd; exact Hx].
    apply andb_true_iff in E. destruct E as [E _]. apply pending_removed in E. exact (proj1 E).
Qed.

Theorem hrun_hinv : forall tr hs, hinv hs -> hinv (hrun hs tr).
Proof.
  induction tr as [|l tr IH]; intros hs H; [exact H|].
  change (hrun hs (l :: tr)) with (hrun (hstep hs l) tr). apply IH, hstep_hinv, H.
Qed.

(* what a hook reads from the pool is live *)
Lemma hook_view_live : forall s sid x, idx_inv s -> In x (snd (snd (hook_note s sid))) -> live s x = true.
Proof.
  intros s sid x Hi H. unfold hook_note in H. cbn [snd] in H. apply (proj1 (in_sortN _ _)) in H.
  unfold streams_of in H. apply in_flat_map in H. destruct H as (t & _ & H).
  exact (in_by_tag_live s t x Hi H).
Qed.

Lemma hstep_note : forall hs l nt, In nt (snd (hstep_out hs l)) ->
  exists sid, l = HHook sid /\ hook_pending hs sid = true /\ h_owner hs = false /\ nt = hook_note (h_pool hs) sid.
Proof.
  intros hs l nt H. destruct l as [l0| | |sid]; cbn [hstep_out snd] in H; try contradiction.
  destruct (hook_pending hs sid && negb (h_owner hs)) eqn:E; cbn [snd] in H; [|contradiction].
  destruct H as [<-|[]]. apply andb_true_iff in E. destruct E as [E1 E2]. apply negb_true_iff in E2.
  exists sid. auto.
Qed.

Lemma hstep_done_mono : forall hs l x, In x (h_done hs) -> In x (h_done (hstep hs l)).
Proof.
  intros hs l x H. destruct l as [l0| | |sid]; unfold hstep; cbn [hstep_out fst h_done]; auto.
  destruct (hook_pending hs sid && negb (h_owner hs)); cbn [fst h_done]; auto. right; exact H.
Qed.

(* a hook that returns belongs to a removed stream whose hook had not returned, and reads no removed stream *)
Theorem hook_notes_clean : forall tr hs nt, hinv hs -> In nt (hrun_notes hs tr) ->
  ~ In (fst nt) (h_done hs) /\ ~ In (fst nt) (snd (snd nt)).
Proof.
  induction tr as [|l tr IH]; intros hs nt Hv H; [contradiction|].
  cbn [hrun_notes] in H. apply in_app_or in H. destruct H as [H|H].
  - apply hstep_note in H. destruct H as (sid & -> & Hp & _ & ->). cbn [fst hook_note].
    apply pending_removed in Hp. destruct Hp as [Hr Hn]. split; [exact Hn|].
    intros Hin. apply (hook_view_live _ sid sid (proj1 Hv)) in Hin. apply removed_live in Hin. congruence.
  - destruct (IH (hstep hs l) nt (hstep_hinv hs l Hv) H) as [H1 H2]. split; [|exact H2].
    intros Hin. apply H1. apply hstep_done_mono. exact Hin.
Qed.

Theorem hook_notes_nodup : forall tr hs, hinv hs -> NoDup (map fst (hrun_notes hs tr)).
Proof.
  induction tr as [|l tr IH]; intros hs Hv; [constructor|].
  cbn [hrun_notes]. rewrite map_app.
  destruct l as [l0| | |sid]; cbn [hstep_out snd map app]; try (apply IH, hstep_hinv, Hv).
  destruct (hook_pending hs sid && negb (h_owner hs)) eqn:E; cbn [snd map app]; [|apply IH, hstep_hinv, Hv].
  constructor; [|apply IH, hstep_hinv, Hv].
  intros Hin. apply in_map_iff in Hin. destruct Hin as (nt & Hf & Hin).
  apply (hook_notes_clean tr _ nt (hstep_hinv hs (HHook sid) Hv)) in Hin. destruct Hin as [Hn _].
  apply Hn. rewrite Hf. unfold hstep. cbn [hstep_out]. rewrite E. cbn [fst h_done hook_note]. left; reflexivity.
Qed.

(* progress of one hook: with the owner's mutex free a parked hook returns in ONE step of its own, needing no pool label
   of anybody else *)
Theorem hook_runs_when_owner_free : forall hs sid,
  hook_pending hs sid = true -> h_owner hs = false ->
  hook_pending (hstep hs (HHook sid)) sid = false
  /\ snd (hstep_out hs (HHook sid)) = [hook_note (h_pool hs) sid]
  /\ h_pool (hstep hs (HHook sid)) = h_pool hs.
Proof.
  intros hs sid Hp Ho. unfold hstep. cbn [hstep_out]. rewrite Hp, Ho. cbn [negb andb fst snd h_pool].
  repeat split. unfold hook_pending. cbn [h_pool h_done memN existsb]. rewrite N.eqb_refl. cbn [orb negb].
  apply andb_false_r.
Qed.

(* ------------------------------------------------------------------ the hooks at the end of an operation *)
Lemma pending_cons : forall p o d a x,
  hook_pending (mkH p o (a :: d)) x = hook_pending (mkH p o d) x && negb (x =? a).
Proof.
  intros. unfold hook_pending. cbn [h_pool h_done memN existsb].
  destruct (removed_in p x), (x =? a), (existsb (N.eqb x) d); reflexivity.
Qed.

Lemma hooks_run : forall ids hs,
  h_pool (hrun hs (map HHook ids)) = h_pool hs /\ h_owner (hrun hs (map HHook ids)) = h_owner hs /\
  (forall x, In x (h_done (hrun hs (map HHook ids))) <->
             In x (h_done hs) \/ (In x ids /\ hook_pending hs x = true /\ h_owner hs = false)) /\
  (forall nt, In nt (hrun_notes hs (map HHook ids)) <->
              exists x, In x ids /\ hook_pending hs x = true /\ h_owner hs = false /\ nt = hook_note (h_pool hs) x).
Proof.
  induction ids as [|a r IH]; intros hs.
  - cbn. split; [reflexivity|]. split; [reflexivity|]. split; intros y; split; try tauto.
    intros (x & H & _). contradiction.
  - cbn [map]. change (hrun hs (HHook a :: map HHook r)) with (hrun (hstep hs (HHook a)) (map HHook r)).
    cbn [hrun_notes]. destruct (IH (hstep hs (HHook a))) as (E1 & E2 & E3 & E4).
    unfold hstep in *. cbn [hstep_out] in *.
    destruct (hook_pending hs a && negb (h_owner hs)) eqn:E; cbn [fst snd] in *.
    + apply andb_true_iff in E. destruct E as [Ea Eo]. apply negb_true_iff in Eo.
      destruct hs as [p o d]. cbn [h_pool h_owner h_done] in *. subst o.
      split; [exact E1|]. split; [exact E2|]. split.
      * intros x. rewrite E3. rewrite pending_cons. split.
        -- intros [[<-|H]|(H1 & H2 & _)]; [right|left; exact H|right].
           ++ split; [left; reflexivity|]. auto.
           ++ apply andb_true_iff in H2. destruct H2 as [H2 _]. split; [right; exact H1|]. auto.
        -- intros [H|([<-|H1] & H2 & _)]; [left; right; exact H|left; left; reflexivity|].
           destruct (N.eq_dec a x) as [->|Hne]; [left; left; reflexivity|].
           right. split; [exact H1|]. split; [|reflexivity]. rewrite H2. cbn [andb]. apply negb_true_iff.
           apply N.eqb_neq. congruence.
      * intros nt. cbn [app]. split.
        -- intros [<-|H]; [exists a; split; [left; reflexivity|]; auto|].
           apply E4 in H. destruct H as (x & H1 & H2 & _ & ->). rewrite pending_cons in H2.
           apply andb_true_iff in H2. destruct H2 as [H2 _]. exists x. split; [right; exact H1|]. auto.
        -- intros (x & [<-|H1] & H2 & _ & ->); [left; reflexivity|].
           destruct (N.eq_dec a x) as [->|Hne]; [left; reflexivity|].
           right. apply E4. exists x. split; [exact H1|]. split; [|split; reflexivity].
           rewrite pending_cons, H2. cbn [andb]. apply negb_true_iff. apply N.eqb_neq. congruence.
    + assert (Hno : forall x, x = a -> hook_pending hs x = true -> h_owner hs = false -> False).
      { intros x -> H1 H2. rewrite H1, H2 in E. discriminate. }
      split; [exact E1|]. split; [exact E2|]. split.
      * intros x. rewrite E3. split.
        -- intros [H|(H1 & H2 & H3)]; [left; exact H|right]. split; [right; exact H1|]. auto.
        -- intros [H|([<-|H1] & H2 & H3)]; [left; exact H| |right; auto].
           exfalso. eapply Hno; eauto.
      * intros nt. cbn [app]. rewrite E4. split.
        -- intros (x & H1 & H2). exists x. split; [right; exact H1|exact H2].
        -- intros (x & [<-|H1] & H2 & H3 & H4); [exfalso; eapply Hno; eauto|].
           exists x. auto.
Qed.

(* deadlock freedom of the owner layer: from EVERY state, "the owner leaves its section, then every hook gets its turn"
   returns every pending hook — whatever streams ended inside the section, whatever the owner did to the pool in it *)
Theorem hooks_drain : forall hs ids,
  (forall x, hook_pending hs x = true -> In x ids) ->
  forall x, hook_pending (hrun hs (HOwnerUnlock :: map HHook ids)) x = false.
Proof.
  intros hs ids Hall x.
  change (hrun hs (HOwnerUnlock :: map HHook ids)) with (hrun (hstep hs HOwnerUnlock) (map HHook ids)).
  set (hs1 := hstep hs HOwnerUnlock).
  destruct (hooks_run ids hs1) as (E1 & _ & E3 & _).
  destruct (hook_pending (hrun hs1 (map HHook ids)) x) eqn:E; [|reflexivity]. exfalso.
  apply pending_removed in E. destruct E as [Hr Hn]. rewrite E1 in Hr.
  assert (Hp1 : hook_pending hs1 x = true).
  { apply pending_intro; [exact Hr|]. intros Hin. apply Hn. apply E3. left. exact Hin. }
  apply Hn. apply E3. right. split; [|split; [exact Hp1|reflexivity]].
  apply Hall. exact Hp1.
Qed.

(* ------------------------------------------------------------------ 3. harness-level histories *)
Lemma step_streams_nil : forall s, step s (LStreams []) = s.
Proof. intros s. unfold step, step_out. destruct (fatal s || panicked s); reflexivity. Qed.

Definition main_labels (hs : hstate) (i : N) (o : hop2) : list hlabel :=
  match o with
  | H2 op => map HL (expand (h_pool hs) i op)
  | H2Lock => [HOwnerLock]
  | H2Unlock => [HOwnerUnlock]
  end.

Lemma expand2_split : forall hs i o,
  expand2 hs i o = main_labels hs i o ++ map HHook (all_ids (fst (run_op (h_pool hs) i (base_of o))) 0).
Proof. intros hs i o. destruct o; reflexivity. Qed.

Lemma main_run : forall hs i o,
  hrun hs (main_labels hs i o) =
    mkH (fst (run_op (h_pool hs) i (base_of o))) (locked_after (h_owner hs) o) (h_done hs)
  /\ hrun_notes hs (main_labels hs i o) = [].
Proof.
  intros hs i o. destruct o as [op| |]; cbn [main_labels base_of locked_after].
  - rewrite run_op_state. apply hrun_map_HL.
  - rewrite run_op_state. cbn [expand]. unfold run. cbn [fold_left]. rewrite step_streams_nil. split; reflexivity.
  - rewrite run_op_state. cbn [expand]. unfold run. cbn [fold_left]. rewrite step_streams_nil. split; reflexivity.
Qed.

Lemma run_op2_pool : forall hs i o, h_pool (fst (run_op2 hs i o)) = fst (run_op (h_pool hs) i (base_of o)).
Proof.
  intros hs i o. unfold run_op2. cbn [fst]. rewrite expand2_split, hrun_app.
  destruct (main_run hs i o) as [E _]. rewrite E.
  destruct (hooks_run (all_ids (fst (run_op (h_pool hs) i (base_of o))) 0)
                      (mkH (fst (run_op (h_pool hs) i (base_of o))) (locked_after (h_owner hs) o) (h_done hs))) as (E1 & _).
  exact E1.
Qed.

(* the pool observations of a history of the layered model are a history of the pool model *)
Lemma run_hist2_base : forall ops hs i,
  map o2_base (run_hist2 hs i ops) = run_hist (h_pool hs) i (map base_of ops).
Proof.
  induction ops as [|o ops IH]; intros hs i; [reflexivity|].
  cbn [run_hist2 map run_hist]. pose proof (run_op2_pool hs i o) as Hp.
  destruct (run_op2 hs i o) as [hs' ob] eqn:E. cbn [fst] in Hp.
  assert (Hb : o2_base ob = snd (run_op (h_pool hs) i (base_of o))).
  { unfold run_op2 in E. injection E as _ <-. reflexivity. }
  destruct (run_op (h_pool hs) i (base_of o)) as [s' b] eqn:E2. cbn [fst snd] in *. subst s'.
  cbn [map]. rewrite Hb, IH. reflexivity.
Qed.

Lemma in_all_ids : forall s x, In x (all_ids s 0) <-> 1 <= x /\ x <= last_id s.
Proof.
  intros s x. unfold all_ids. rewrite in_map_iff. split.
  - intros (n & <- & Hn). apply in_seq in Hn. lia.
  - intros [H1 H2]. exists (N.to_nat x). split; [apply N2Nat.id|]. apply in_seq. lia.
Qed.

Lemma nodupb_of_NoDup : forall l, NoDup l -> nodupb l = true.
Proof.
  induction 1 as [|x l Hn _ IH]; [reflexivity|]. cbn [nodupb]. rewrite IH.
  apply memN_false_notin in Hn. rewrite Hn. reflexivity.
Qed.

Lemma o_removed_ids : forall s i op,
  map fst (o_removed (snd (run_op s i op))) =
  flag_diff st_removed s (fst (run_op s i op)) (all_ids (fst (run_op s i op)) 0).
Proof.
  intros s i op. unfold run_op. cbn [snd fst o_removed]. rewrite map_map. cbn [fst]. apply map_id.
Qed.

Lemma flag_diff_removed : forall a b ids x,
  In x (flag_diff st_removed a b ids) <-> In x ids /\ removed_in b x = true /\ removed_in a x = false.
Proof.
  intros a b ids x. unfold flag_diff. rewrite filter_In. unfold removed_in.
  destruct (hget x (objs b)) as [y|]; [|intuition discriminate].
  destruct (hget x (objs a)) as [z|]; cbn [negb]; rewrite ?andb_true_iff, ?negb_true_iff; intuition.
Qed.

(* observer state of [hook_from] against the state of the layered model *)
Definition J (hs : hstate) (pend gone : list N) (lk : bool) : Prop :=
  hinv hs /\ h_owner hs = lk
  /\ (forall x, In x gone -> removed_in (h_pool hs) x = true)
  /\ (forall x, In x pend <-> In x (all_ids (h_pool hs) 0) /\ hook_pending hs x = true).

Lemma list_nil_if_no_elem : forall (A : Type) (l : list A), (forall x, In x l -> False) -> l = [].
Proof. intros A [|a l] H; [reflexivity|]. exfalso. apply (H a). left; reflexivity. Qed.

Theorem run_op2_hook : forall hs i o pend gone lk, J hs pend gone lk ->
  hook_ok pend gone (locked_after lk o) (snd (run_op2 hs i o)) = true
  /\ J (fst (run_op2 hs i o)) (o2_pending (snd (run_op2 hs i o)))
       (map fst (o_removed (o2_base (snd (run_op2 hs i o)))) ++ gone) (locked_after lk o).
Proof.
  intros hs i o pend gone lk ([Hi Hd] & Ho & Hg & Hp).
  unfold run_op2 in *. cbn [fst snd o2_base o2_notes o2_pending] in *.
  rewrite expand2_split in *. rewrite hrun_app in *. rewrite hrun_notes_app.
  destruct (main_run hs i o) as [Em En]. rewrite Em in *. rewrite En. cbn [app].
  rewrite o_removed_ids.
  set (s := h_pool hs) in *. set (s' := fst (run_op s i (base_of o))) in *.
  set (ids := all_ids s' 0) in *. rewrite Ho in *. set (lk' := locked_after lk o) in *.
  destruct (hooks_run ids (mkH s' lk' (h_done hs))) as (E1 & E2 & E3 & E4).
  cbn [h_pool h_owner h_done] in E1, E2, E3, E4.
  set (mid := mkH s' lk' (h_done hs)) in *.
  set (hs' := hrun mid (map HHook ids)) in *. set (notes := hrun_notes mid (map HHook ids)) in *.
  set (ent := flag_diff st_removed s s' ids).
  assert (Hs' : s' = run s (expand s i (base_of o))) by (unfold s'; apply run_op_state).
  assert (Hi' : idx_inv s') by (rewrite Hs'; apply run_idx_inv; exact Hi).
  assert (Hmono : forall x, removed_in s x = true -> removed_in s' x = true).
  { intros x H. rewrite Hs'. apply removed_in_mono; assumption. }
  assert (Hvmid : hinv mid).
  { split; cbn [h_pool h_done]; [exact Hi'|]. intros x H. apply Hmono, Hd, H. }
  (* where an id with a pending hook (after the labels of the operation) comes from *)
  assert (Horigin : forall x, In x ids -> hook_pending mid x = true -> In x (ent ++ pend)).
  { intros x Hx Hpm. apply pending_removed in Hpm. cbn [h_pool h_done] in Hpm. destruct Hpm as [Hr Hn].
    apply in_or_app. destruct (removed_in s x) eqn:Ers.
    - right. apply Hp. split; [|apply pending_intro; assumption].
      apply in_all_ids. apply in_all_ids in Hx. split; [exact (proj1 Hx)|].
      apply removed_in_some in Ers. destruct Ers as (st & Hgx & _). exact (ii_fresh s Hi x st Hgx).
    - left. apply flag_diff_removed. auto. }
  assert (Hall : forall x, In x (ent ++ pend) -> In x ids /\ hook_pending mid x = true).
  { intros x Hx. apply in_app_or in Hx. destruct Hx as [Hx|Hx].
    - apply flag_diff_removed in Hx. destruct Hx as (H1 & H2 & H3). split; [exact H1|].
      apply pending_intro; cbn [h_pool h_done]; [exact H2|]. intros Hin. apply Hd in Hin. fold s in Hin. congruence.
    - apply Hp in Hx. destruct Hx as [H1 H2]. apply pending_removed in H2. destruct H2 as [H2 H3]. fold s in H2.
      split; [|apply pending_intro; cbn [h_pool h_done]; auto].
      apply in_all_ids. apply in_all_ids in H1. split; [exact (proj1 H1)|].
      apply Hmono in H2. apply removed_in_some in H2. destruct H2 as (st & Hgx & _). exact (ii_fresh s' Hi' x st Hgx). }
  assert (Hnoted : forall x, In x (map fst notes) <-> In x ids /\ hook_pending mid x = true /\ lk' = false).
  { intros x. rewrite in_map_iff. split.
    - intros (nt & <- & Hnt). apply E4 in Hnt. destruct Hnt as (y & H1 & H2 & H3 & ->). cbn [hook_note fst]. auto.
    - intros (H1 & H2 & H3). exists (hook_note s' x). split; [reflexivity|]. apply E4. exists x. auto. }
  assert (Hpend' : forall x, hook_pending hs' x = true <-> hook_pending mid x = true /\ ~ In x (map fst notes)).
  { intros x. split.
    - intros H. apply pending_removed in H. destruct H as [Hr Hn]. rewrite E1 in Hr.
      assert (Hpm : hook_pending mid x = true).
      { apply pending_intro; cbn [h_pool h_done]; [exact Hr|]. intros Hin. apply Hn. apply E3. left; exact Hin. }
      split; [exact Hpm|]. intros Hin. apply Hnoted in Hin. apply Hn. apply E3. right. exact Hin.
    - intros [Hpm Hnn]. apply pending_removed in Hpm. cbn [h_pool h_done] in Hpm. destruct Hpm as [Hr Hn].
      apply pending_intro; [rewrite E1; exact Hr|]. intros Hin. apply E3 in Hin. destruct Hin as [Hin|Hin]; [contradiction|].
      apply Hnn. apply Hnoted. exact Hin. }
  split.
  - unfold hook_ok. cbn [o2_base o2_notes o2_pending].
    rewrite o_removed_ids. fold s s' ids ent notes hs'.
    repeat (apply andb_true_iff; split).
    + apply forallb_forall. intros x Hx. apply memN_in. apply Hnoted in Hx. destruct Hx as (H1 & H2 & _).
      apply Horigin; assumption.
    + apply nodupb_of_NoDup. apply hook_notes_nodup. exact Hvmid.
    + apply forallb_forall. intros nt Hnt. apply forallb_forall. intros y Hy.
      apply negb_true_iff. apply memN_false_notin. intros Hin.
      apply E4 in Hnt. destruct Hnt as (x & _ & _ & _ & ->).
      apply (hook_view_live s' x y Hi') in Hy. apply removed_live in Hy.
      apply in_app_or in Hin. destruct Hin as [Hin|Hin].
      * apply flag_diff_removed in Hin. destruct Hin as (_ & H2 & _). congruence.
      * apply Hg in Hin. fold s in Hin. apply Hmono in Hin. congruence.
    + destruct lk' eqn:El; [|reflexivity].
      rewrite (list_nil_if_no_elem _ notes); [reflexivity|].
      intros nt Hnt. apply E4 in Hnt. destruct Hnt as (x & _ & _ & H3 & _). discriminate.
    + apply forallb_forall. intros x Hx. apply filter_In in Hx. destruct Hx as [Hx Hpx]. rewrite E1 in Hx.
      apply Hpend' in Hpx. destruct Hpx as [Hpm Hnn].
      apply andb_true_iff. split; [apply memN_in; apply Horigin; assumption|].
      apply negb_true_iff. apply memN_false_notin. exact Hnn.
    + apply forallb_forall. intros x Hx. apply Hall in Hx. destruct Hx as [Hx Hpm].
      apply orb_true_iff. destruct lk' eqn:El.
      * right. apply memN_in. apply filter_In. split; [rewrite E1; exact Hx|]. apply Hpend'. split; [exact Hpm|].
        intros Hin. apply Hnoted in Hin. destruct Hin as (_ & _ & H3). discriminate.
      * left. apply memN_in. apply Hnoted. auto.
    + destruct lk' eqn:El; [reflexivity|].
      rewrite (list_nil_if_no_elem _ (filter (hook_pending hs') (all_ids (h_pool hs') 0))); [reflexivity|].
      intros x Hx. apply filter_In in Hx. destruct Hx as [Hx Hpx]. rewrite E1 in Hx.
      apply Hpend' in Hpx. destruct Hpx as [Hpm Hnn]. apply Hnn. apply Hnoted. auto.
  - split; [|split; [exact E2|split]].
    + split; [rewrite E1; exact Hi'|]. intros x Hx. rewrite E1. apply E3 in Hx. destruct Hx as [Hx|(_ & Hx & _)].
      * apply Hmono, Hd, Hx.
      * apply pending_removed in Hx. exact (proj1 Hx).
    + intros x Hx. rewrite E1. apply in_app_or in Hx. destruct Hx as [Hx|Hx].
      * apply flag_diff_removed in Hx. exact (proj1 (proj2 Hx)).
      * apply Hmono, Hg, Hx.
    + intros x. rewrite filter_In. reflexivity.
Qed.

Theorem run_hist2_hook : forall ops hs i pend gone lk, J hs pend gone lk ->
  hook_from pend gone lk ops (run_hist2 hs i ops) = true.
Proof.
  induction ops as [|o ops IH]; intros hs i pend gone lk HJ; [reflexivity|].
  cbn [run_hist2]. pose proof (run_op2_hook hs i o pend gone lk HJ) as [H1 H2].
  destruct (run_op2 hs i o) as [hs' ob]. cbn [fst snd] in *. cbn [hook_from]. rewrite H1. cbn [andb].
  apply IH. exact H2.
Qed.

(* the model satisfies the executable predicate, for every configuration and every list of owner / pool operations *)
Theorem model_hist2_spec_ok : forall c ops, spec_C19_hook ops (model_hist2 c ops) = true.
Proof.
  intros c ops. unfold spec_C19_hook, model_hist2. apply andb_true_iff. split.
  - rewrite run_hist2_base. cbn [hinit h_pool]. apply model_hist_spec_ok.
  - apply run_hist2_hook. split; [apply hinit_hinv|]. split; [reflexivity|]. split; [intros x []|].
    intros x. split; [intros []|]. intros [_ H]. unfold hook_pending, removed_in in H. cbn in H. discriminate.
Qed.

(* property-language reading of the hook clauses of an accepted history *)
Theorem spec_hook_implies_base : forall ops observed,
  spec_C19_hook ops observed = true -> spec_C19 (map base_of ops) (map o2_base observed) = true.
Proof. intros ops observed H. unfold spec_C19_hook in H. apply andb_true_iff in H. exact (proj1 H). Qed.

(* states of the layered histories are reachable states of the layered system, whose pool component is a reachable
   state of the pool *)
Theorem run_op2_state : forall hs i o, fst (run_op2 hs i o) = hrun hs (expand2 hs i o).
Proof. reflexivity. Qed.

Theorem hook_layer_reachable_pool : forall c tr, reachable c (h_pool (hrun (hinit c) tr)).
Proof. intros c tr. exists (pool_labels tr). apply hrun_pool. Qed.

(* ------------------------------------------------------------------ 4. the excluded design: hook under pool.mu *)
Lemma hget_in_keys : forall h x st, hget x h = Some st -> In x (map fst h).
Proof.
  induction h as [|[k y] r IH]; intros x st H; cbn [hget] in H; [discriminate|].
  cbn [map fst]. destruct (N.eqb_spec x k) as [->|Hne]; [left; reflexivity|right; eapply IH; eauto].
Qed.

Lemma pool_mu_held_iff : forall hs, pool_mu_held hs = true <-> exists x, hook_pending hs x = true.
Proof.
  intros hs. unfold pool_mu_held. rewrite existsb_exists. split.
  - intros (x & _ & H). exists x. exact H.
  - intros (x & H). exists x. split; [|exact H]. apply pending_removed in H. destruct H as [H _].
    apply removed_in_some in H. destruct H as (st & Hg & _). eapply hget_in_keys; eauto.
Qed.

(* labels that do not take pool.mu leave the three indexes alone *)
Lemma no_pool_mu_frame : forall s l, needs_pool_mu l = false ->
  pool_ids (step s l) = pool_ids s /\ by_peer (step s l) = by_peer s /\ by_tag (step s l) = by_tag s.
Proof.
  intros s l H.
  destruct l; cbn in H; try discriminate;
    try (match goal with |- context [step _ ?l] =>
           destruct (writer_frame s l _ eq_refl) as (_ & F1 & F2 & F3 & _); auto end).
  - (* LWrite *) unfold step, step_out. destruct (fatal s || panicked s); [auto|]. unfold do_write.
    destruct (cget cid (callers s)) as [p|]; [|auto]. destruct (next_target (p_groups p)) as [[[sid g] rest]|]; [|auto].
    destruct (hget sid (objs s)) as [st|]; [|auto]. destruct (write_stream st (p_msg p)). auto.
  - (* LSend *) unfold step, step_out. destruct (fatal s || panicked s); [auto|]. unfold send_enqueue.
    destruct ((0 <? dial_cap (cfg s)) && (dial_cap (cfg s) <=? N.of_nat (length (dialq s)))); auto.
  - (* LDialTake *) unfold step, step_out. destruct (fatal s || panicked s); [auto|]. unfold dial_take. cbn [fst].
    destruct (running s <? dial_workers (cfg s)); [|auto]. destruct (dialq s) as [|[[c m] ps] q]; auto.
  - (* LDialDone *) unfold step, step_out. destruct (fatal s || panicked s); [auto|]. unfold dial_done. cbn [fst].
    destruct (cget cid (callers s)) as [p|]; [|auto]. destruct (next_target (p_groups p)); [auto|].
    destruct (p_peers p); [|auto]. destruct (p_mode p); auto. destruct (0 <? running s); auto.
Qed.

Lemma hstep_ul_frozen : forall hs l, hinv hs -> pool_mu_held hs = true ->
  hinv (hstep_ul hs l) /\ pool_mu_held (hstep_ul hs l) = true /\ h_done (hstep_ul hs l) = h_done hs
  /\ pool_ids (h_pool (hstep_ul hs l)) = pool_ids (h_pool hs)
  /\ by_peer (h_pool (hstep_ul hs l)) = by_peer (h_pool hs)
  /\ by_tag (h_pool (hstep_ul hs l)) = by_tag (h_pool hs).
Proof.
  intros hs l Hv Hh. destruct l as [l0| | |sid]; cbn [hstep_ul].
  - rewrite Hh. cbn [andb]. destruct (needs_pool_mu l0) eqn:En; [auto 7|].
    destruct (no_pool_mu_frame (h_pool hs) l0 En) as (F1 & F2 & F3).
    split; [apply hstep_hinv; exact Hv|]. unfold hstep. cbn [hstep_out fst h_pool h_done]. repeat split; auto.
    apply pool_mu_held_iff. apply pool_mu_held_iff in Hh. destruct Hh as (x & Hx). exists x.
    apply pending_removed in Hx. destruct Hx as [Hr Hn]. apply pending_intro; cbn [h_pool h_done]; [|exact Hn].
    exact (removed_in_mono (h_pool hs) [l0] x (proj1 Hv) Hr).
  - split; [apply (hstep_hinv hs HOwnerLock); exact Hv|]. unfold hstep. cbn [hstep_out fst h_pool h_done]. repeat split; auto.
  - split; [apply (hstep_hinv hs HOwnerUnlock); exact Hv|]. unfold hstep. cbn [hstep_out fst h_pool h_done]. repeat split; auto.
  - auto 7.
Qed.

(* if removeStream called the hook before releasing pool.mu: from the moment a hook is pending, under EVERY schedule, no
   hook ever returns, the indexes never change again, and every label that needs pool.mu (Broadcast / SendById collection,
   AddStream, tag changes, Streams, removeStream of other streams, a dial worker's getStreams) stays disabled for ever *)
Theorem ul_frozen : forall tr hs, hinv hs -> pool_mu_held hs = true ->
  pool_mu_held (hrun_ul hs tr) = true /\ h_done (hrun_ul hs tr) = h_done hs
  /\ pool_ids (h_pool (hrun_ul hs tr)) = pool_ids (h_pool hs)
  /\ by_peer (h_pool (hrun_ul hs tr)) = by_peer (h_pool hs)
  /\ by_tag (h_pool (hrun_ul hs tr)) = by_tag (h_pool hs)
  /\ forall l, needs_pool_mu l = true -> hstep_ul (hrun_ul hs tr) (HL l) = hrun_ul hs tr.
Proof.
  induction tr as [|l tr IH]; intros hs Hv Hh.
  - cbn [hrun_ul fold_left]. repeat split; auto. intros l Hl. cbn [hstep_ul]. rewrite Hh, Hl. reflexivity.
  - change (hrun_ul hs (l :: tr)) with (hrun_ul (hstep_ul hs l) tr).
    destruct (hstep_ul_frozen hs l Hv Hh) as (Hv' & Hh' & E1 & E2 & E3 & E4).
    destruct (IH _ Hv' Hh') as (G0 & G1 & G2 & G3 & G4 & G5).
    repeat split; try congruence. exact G5.
Qed.

(* ------------------------------------------------------------------ statements from the initial state *)
Theorem hook_notes_all_schedules : forall c tr,
  NoDup (map fst (hrun_notes (hinit c) tr))
  /\ forall nt, In nt (hrun_notes (hinit c) tr) -> ~ In (fst nt) (snd (snd nt)).
Proof.
  intros c tr. split; [apply hook_notes_nodup, hinit_hinv|].
  intros nt H. exact (proj2 (hook_notes_clean tr (hinit c) nt (hinit_hinv c) H)).
Qed.

Theorem reachable_hinv : forall c tr, hinv (hrun (hinit c) tr).
Proof. intros c tr. apply hrun_hinv, hinit_hinv. Qed.
