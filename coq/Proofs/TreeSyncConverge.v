(* Proofs/TreeSyncConverge.v — C01, part 2: stored sets only grow, the universe is exactly the union of the stored
   sets, and convergence of a phase without local adds from per-pair catch-up.
   That one lossless request/response exchange achieves the catch-up is proved in Proofs/TreeSyncSnapshot.v (snapshot
   discipline) and Proofs/TreeSyncExchange.v (completeness of the response beyond the common snapshot, success of
   attach / rebuild); the unconditional convergence theorem is there and in Proofs/TreeSyncHeads.v.
   The one-pass attach is proved complete for offered sets that are closed ([attach_pass_complete]). *)
From Coq Require Import List NArith Bool Arith Lia.
Import ListNotations.
From AnySync Require Import Lib.Dag Model.Dfs Model.Tree Model.LoadIter Model.TreeSync Proofs.DfsBase Proofs.TreeSyncClosure.

Lemma nth_set_nth_other : forall (A : Type) i j (x d : A) l, i <> j -> nth j (set_nth i x l) d = nth j l d.
Proof.
  intros A i j x d l. revert i j. induction l as [|a l IH]; intros i j Hij; [destruct i; reflexivity|].
  destruct i, j; cbn [set_nth nth]; try reflexivity; [congruence | apply IH; congruence].
Qed.

Lemma get_set_rep : forall w i j r, i < length (w_reps w) ->
  get_rep (set_rep w i r) j = if Nat.eqb j i then r else get_rep w j.
Proof.
  intros w i j r Hi. unfold get_rep, set_rep. cbn [w_reps]. destruct (Nat.eqb j i) eqn:E.
  - apply Nat.eqb_eq in E. subst j. apply nth_set_nth. exact Hi.
  - apply Nat.eqb_neq in E. apply nth_set_nth_other. congruence.
Qed.

Definition is_add (l : label) : bool := match l with LocalAdd _ _ _ _ => true | _ => false end.

(* ---------------------------------------------------------------- stored sets only grow *)

Lemma step_mono : forall nb w l w' em,
  winv w -> step nb w l = (w', em) ->
  length (w_reps w') = length (w_reps w)
  /\ (forall j, incl (r_have (get_rep w j)) (r_have (get_rep w' j)))
  /\ (is_add l = false -> w_uni w' = w_uni w).
Proof.
  intros nb w l w' em Hw H. unfold step in H. destruct l as [i isSnap id size | i from m | i p].
  - destruct (Nat.ltb i (length (w_reps w)) && negb (has_change (wG w) id) && negb (N.eqb id 0)) eqn:Eg;
      [|inversion H; subst; split; [reflexivity | split; [intros j; apply incl_refl | reflexivity]]].
    apply andb_true_iff in Eg. destruct Eg as [Eg _]. apply andb_true_iff in Eg. destruct Eg as [Ei _].
    apply Nat.ltb_lt in Ei. inversion H; subst w' em; clear H. cbn [w_reps].
    split; [apply set_nth_length | split; [|discriminate]].
    intros j. unfold get_rep at 2. cbn [w_reps]. destruct (Nat.eq_dec i j) as [<-|Hij].
    + rewrite nth_set_nth by exact Ei. cbn [r_have]. apply incl_tl. apply incl_refl.
    + rewrite nth_set_nth_other by exact Hij. apply incl_refl.
  - destruct (Nat.ltb i (length (w_reps w))) eqn:Ei;
      [|inversion H; subst; split; [reflexivity | split; [intros j; apply incl_refl | reflexivity]]].
    apply Nat.ltb_lt in Ei. pose proof (get_rep_inv w i Hw Ei) as Hinv. destruct Hw as [Hnd Hf].
    assert (Hset : forall r', incl (r_have (get_rep w i)) (r_have r') ->
              length (w_reps (set_rep w i r')) = length (w_reps w)
              /\ (forall j, incl (r_have (get_rep w j)) (r_have (get_rep (set_rep w i r') j)))
              /\ (is_add (Deliver i from m) = false -> w_uni (set_rep w i r') = w_uni w)).
    { intros r' Hr'. split; [unfold set_rep; cbn [w_reps]; apply set_nth_length | split; [|reflexivity]].
      intros j. rewrite get_set_rep by exact Ei. destruct (Nat.eqb j i) eqn:E; [|apply incl_refl].
      apply Nat.eqb_eq in E. subst j. exact Hr'. }
    destruct m as [hs chs p | hs p | hs chs p].
    + destruct (handle_head (wG w) (length (w_reps w)) i from (get_rep w i) hs chs p) as [r' em0] eqn:Eh.
      inversion H; subst w' em; clear H. apply Hset. unfold handle_head in Eh. destruct chs as [|c0 cr].
      * destruct (has_heads _ _ _); inversion Eh; subst; apply incl_refl.
      * destruct (add_from_peer _ _ _ _ _ _ (c0 :: cr) _) as [[r1 em1] res] eqn:Ea.
        destruct (add_from_peer_inv _ _ _ _ _ _ _ _ _ _ _ Hnd Hinv Ea) as [_ [H2 _]].
        destruct res as [rh|]; [destruct (same_set rh hs)|]; inversion Eh; subst; exact H2.
    + inversion H; subst; split; [reflexivity | split; [intros j; apply incl_refl | reflexivity]].
    + destruct (handle_resp (wG w) (length (w_reps w)) i from (get_rep w i) hs chs p) as [r' em0] eqn:Eh.
      inversion H; subst w' em; clear H. apply Hset. unfold handle_resp in Eh. destruct chs as [|c0 cr].
      * inversion Eh; subst. apply incl_refl.
      * destruct (add_from_peer _ _ _ _ _ _ (c0 :: cr) _) as [[r1 em1] res] eqn:Ea.
        destruct (add_from_peer_inv _ _ _ _ _ _ _ _ _ _ _ Hnd Hinv Ea) as [_ [H2 _]].
        inversion Eh; subst. exact H2.
  - destruct (Nat.ltb i (length (w_reps w))); inversion H; subst;
      (split; [reflexivity | split; [intros j; apply incl_refl | reflexivity]]).
Qed.

Lemma run_app : forall nb w l1 l2, run nb w (l1 ++ l2) = run nb (run nb w l1) l2.
Proof. intros. unfold run. apply fold_left_app. Qed.

Lemma run_mono : forall nb ls w,
  winv w ->
  length (w_reps (run nb w ls)) = length (w_reps w)
  /\ (forall j, incl (r_have (get_rep w j)) (r_have (get_rep (run nb w ls) j)))
  /\ (forallb (fun l => negb (is_add l)) ls = true -> w_uni (run nb w ls) = w_uni w).
Proof.
  intros nb ls. induction ls as [|l ls IH]; intros w Hw.
  - cbn. split; [reflexivity | split; [intros j; apply incl_refl | reflexivity]].
  - change (run nb w (l :: ls)) with (run nb (fst (step nb w l)) ls).
    destruct (step nb w l) as [w1 em] eqn:E. cbn [fst].
    destruct (step_mono _ _ _ _ _ Hw E) as [H1 [H2 H3]].
    destruct (IH w1 (proj1 (step_inv _ _ _ _ _ Hw E))) as [I1 [I2 I3]].
    split; [congruence | split].
    + intros j. eapply incl_tran; [apply H2 | apply I2].
    + cbn [forallb]. intros Hb. apply andb_true_iff in Hb. destruct Hb as [Hb1 Hb2].
      rewrite I3 by exact Hb2. apply H3. apply negb_true_iff. exact Hb1.
Qed.

(* ---------------------------------------------------------------- the universe is the union of the stored sets *)

Definition uinv (w : world) : Prop :=
  forall i, In i (ids (wG w)) -> exists k, k < length (w_reps w) /\ In i (r_have (get_rep w k)).

Lemma step_uinv : forall nb w l w' em, winv w -> uinv w -> step nb w l = (w', em) -> uinv w'.
Proof.
  intros nb w l w' em Hw Hu H.
  destruct (step_mono _ _ _ _ _ Hw H) as [Hlen [Hmono Hsame]].
  destruct (is_add l) eqn:El.
  - destruct l as [i isSnap id size | |]; try discriminate. unfold step in H.
    destruct (Nat.ltb i (length (w_reps w)) && negb (has_change (wG w) id) && negb (N.eqb id 0)) eqn:Eg;
      [|inversion H; subst; exact Hu].
    apply andb_true_iff in Eg. destruct Eg as [Eg _]. apply andb_true_iff in Eg. destruct Eg as [Ei _].
    apply Nat.ltb_lt in Ei. inversion H; subst w' em; clear H.
    intros x Hx. unfold wG, ids in Hx. cbn [w_uni] in Hx. rewrite !map_app in Hx. apply in_app_iff in Hx.
    cbn [w_reps]. rewrite set_nth_length. destruct Hx as [Hx|[<-|[]]].
    + destruct (Hu x Hx) as [k [Hk Hin]]. exists k. split; [exact Hk|].
      cbn [w_reps] in Hmono. apply (Hmono k). exact Hin.
    + exists i. split; [exact Ei|]. unfold get_rep. cbn [w_reps]. rewrite nth_set_nth by exact Ei. left. reflexivity.
  - intros x Hx. unfold wG in Hx. rewrite (Hsame eq_refl) in Hx. destruct (Hu x Hx) as [k [Hk Hin]].
    exists k. split; [rewrite Hlen; exact Hk | apply (Hmono k); exact Hin].
Qed.

Lemma run_uinv : forall nb ls w, winv w -> uinv w -> uinv (run nb w ls).
Proof.
  intros nb ls. induction ls as [|l ls IH]; intros w Hw Hu; [exact Hu|].
  change (run nb w (l :: ls)) with (run nb (fst (step nb w l)) ls).
  destruct (step nb w l) as [w1 em] eqn:E. cbn [fst].
  apply IH; [exact (proj1 (step_inv _ _ _ _ _ Hw E)) | eapply step_uinv; eassumption].
Qed.

Lemma init_uinv : forall n root size, 0 < n -> uinv (init_world n root size).
Proof.
  intros n root size Hn i Hi. unfold init_world, wG, ids in Hi. cbn in Hi. destruct Hi as [<-|[]].
  exists 0. unfold init_world. cbn [w_reps]. rewrite repeat_length. split; [exact Hn|].
  unfold get_rep. cbn [w_reps]. destruct n; [lia|]. cbn. left. reflexivity.
Qed.

Lemma have_in_universe : forall w k, winv w -> k < length (w_reps w) ->
  forall i, In i (r_have (get_rep w k)) -> In i (ids (wG w)).
Proof.
  intros w k Hw Hk i Hi. destruct (get_rep_inv w k Hw Hk) as [Hcl _]. destruct (Hcl i Hi) as [c [Hc _]].
  apply find_change_sound in Hc. destruct Hc as [Hin <-]. unfold ids. apply in_map. exact Hin.
Qed.

(* ---------------------------------------------------------------- convergence from per-pair catch-up *)

Theorem convergence_from_catch_up : forall nb w ls,
  winv w -> uinv w ->
  forallb (fun l => negb (is_add l)) ls = true ->
  (forall a b, a < length (w_reps w) -> b < length (w_reps w) ->
     exists pre post, ls = pre ++ post /\ incl (r_have (get_rep w a)) (r_have (get_rep (run nb w pre) b))) ->
  let w' := run nb w ls in
  wG w' = wG w /\
  forall b, b < length (w_reps w') -> forall i, In i (r_have (get_rep w' b)) <-> In i (ids (wG w')).
Proof.
  intros nb w ls Hw Hu Hna Hpairs w'.
  destruct (run_mono nb ls w Hw) as [Hlen [_ Hsame]].
  assert (HG : wG w' = wG w) by (unfold wG, w'; rewrite (Hsame Hna); reflexivity).
  split; [exact HG|]. intros b Hb i. split.
  - apply have_in_universe; [apply run_inv; exact Hw | exact Hb].
  - intros Hi. rewrite HG in Hi. destruct (Hu i Hi) as [a [Ha Hia]].
    fold w' in Hlen. rewrite Hlen in Hb.
    destruct (Hpairs a b Ha Hb) as [pre [post [Els Hcatch]]].
    unfold w'. rewrite Els, run_app.
    destruct (run_mono nb post (run nb w pre) (run_inv nb pre w Hw)) as [_ [Hm _]].
    apply (Hm b). apply Hcatch. exact Hia.
Qed.

(* ---------------------------------------------------------------- the attach pass is complete for closed offers *)

(* creation order: the previous ids and the snapshot base of a change occur earlier in G *)
Fixpoint topo_order (seen : list N) (G : list change) : Prop :=
  match G with
  | [] => True
  | c :: r => (forall p, In p (cprev c) -> In p seen) /\ topo_order (cid c :: seen) r
  end.

Lemma attach_pass_complete : forall cand (W : N -> Prop) G v,
  (forall c, In c G -> W (cid c) -> mem (cid c) cand = true \/ In (cid c) v) ->
  (forall c, In c G -> W (cid c) -> (forall p, In p (cprev c) -> W p) /\ W (csnap c)) ->
  (forall c p, In c G -> W (cid c) -> In p (csnap c :: cprev c) -> In p v \/ exists c', In c' G /\ cid c' = p) ->
  NoDup (ids G) ->
  (forall c, In c G -> forall p, In p (csnap c :: cprev c) -> (exists c', In c' G /\ cid c' = p) ->
      exists pre post, G = pre ++ c :: post /\ In p (ids pre)) ->
  forall c, In c G -> W (cid c) -> In (cid c) (fold_left (attach_one cand) G v).
Proof.
  intros cand W G. induction G as [|c0 G IH]; intros v Hoff Hcl Hsrc Hnd Hord c Hc Hw; [destruct Hc|].
  cbn [fold_left].
  assert (Hgrow : forall x, In x v -> In x (attach_one cand v c0)).
  { intros x Hx. unfold attach_one. destruct (mem (cid c0) v); [exact Hx|].
    destruct (mem (cid c0) cand && all_in (cprev c0) v && mem (csnap c0) v); [right|]; exact Hx. }
  cbn [ids map] in Hnd. inversion Hnd as [|x l Hn0 Hnd']; subst.
  (* previous ids and snapshot of c0 cannot be later elements: they are in v if c0 is wanted *)
  assert (Hc0deps : W (cid c0) -> forall p, In p (csnap c0 :: cprev c0) -> In p v).
  { intros Hw0 p Hp. destruct (Hsrc c0 p (or_introl eq_refl) Hw0 Hp) as [Hv|Hex]; [exact Hv|].
    destruct (Hord c0 (or_introl eq_refl) p Hp Hex) as [pre [post [Eg Hpre]]].
    destruct pre as [|q pre]; [destruct Hpre|]. exfalso. cbn [app] in Eg. injection Eg as Eq Er. subst q.
    apply Hn0. rewrite Er. unfold ids. rewrite map_app. apply in_app_iff. right. left. reflexivity. }
  destruct Hc as [<-|Hc].
  - (* c0 itself *)
    destruct (attach_pass_spec (c0 :: G) cand G (attach_one cand v c0) (fun c H => or_intror H)) as [Hincl _].
    apply Hincl. unfold attach_one. destruct (mem (cid c0) v) eqn:E1; [apply mem_In; exact E1|].
    destruct (Hoff c0 (or_introl eq_refl) Hw) as [Hcand|Hv]; [|apply mem_In in Hv; congruence].
    rewrite Hcand. cbn [andb].
    assert (Ha : all_in (cprev c0) v = true).
    { unfold all_in. apply forallb_forall. intros p Hp. apply mem_In. apply Hc0deps; [exact Hw | right; exact Hp]. }
    assert (Hs : mem (csnap c0) v = true) by (apply mem_In; apply Hc0deps; [exact Hw | left; reflexivity]).
    rewrite Ha, Hs. left. reflexivity.
  - apply IH; try assumption.
    + intros c1 H1 Hw1. destruct (Hoff c1 (or_intror H1) Hw1) as [H|H]; [left; exact H | right; apply Hgrow; exact H].
    + intros c1 H1 Hw1. apply Hcl; [right; exact H1 | exact Hw1].
    + intros c1 p H1 Hw1 Hp. destruct (Hsrc c1 p (or_intror H1) Hw1 Hp) as [H|[c' [[<-|Hc'] Hid]]].
      * left. apply Hgrow. exact H.
      * (* the dependency is c0: it is wanted (W is closed), hence attached by this step *)
        left. assert (Hw0 : W (cid c0)).
        { destruct (Hcl c1 (or_intror H1) Hw1) as [Hp1 Hs1]. rewrite Hid. destruct Hp as [<-|Hp]; [exact Hs1 | apply Hp1; exact Hp]. }
        rewrite <- Hid. unfold attach_one. destruct (mem (cid c0) v) eqn:E1; [apply mem_In; exact E1|].
        destruct (Hoff c0 (or_introl eq_refl) Hw0) as [Hcand|Hv]; [|apply mem_In in Hv; congruence].
        rewrite Hcand. cbn [andb].
        assert (Ha : all_in (cprev c0) v = true).
        { unfold all_in. apply forallb_forall. intros q Hq. apply mem_In. apply Hc0deps; [exact Hw0 | right; exact Hq]. }
        assert (Hs : mem (csnap c0) v = true) by (apply mem_In; apply Hc0deps; [exact Hw0 | left; reflexivity]).
        rewrite Ha, Hs. left. reflexivity.
      * right. exists c'. split; assumption.
    + intros c1 H1 p Hp [c' [Hc' Hid]].
      destruct (Hord c1 (or_intror H1) p Hp (ex_intro _ c' (conj (or_intror Hc') Hid))) as [pre [post [Eg Hpre]]].
      destruct pre as [|q pre].
      * exfalso. cbn [app] in Eg. injection Eg as Eq Er. subst c1.
        apply Hn0. unfold ids. apply in_map. exact H1.
      * cbn [app] in Eg. injection Eg as Eq Er. subst q. cbn [ids map In] in Hpre. destruct Hpre as [Hq|Hpre].
        -- exfalso. apply Hn0. rewrite Hq, <- Hid. unfold ids. apply in_map. exact Hc'.
        -- exists pre, post. split; assumption.
Qed.
