(* Proofs/TreeSyncHeads.v — C01, part 5: the in-memory heads of a replica are exactly the childless members of its
   stored set (whatever its in-memory root), so replicas with equal stored sets announce equal heads. *)
From Coq Require Import List NArith Bool Arith Lia Permutation.
Import ListNotations.
From AnySync Require Import Lib.Dag Model.Dfs Model.Tree Model.LoadIter Model.TreeSync Proofs.DfsBase
  Proofs.TreeSyncClosure Proofs.TreeSyncConverge Proofs.TreeSyncSnapshot Proofs.TreeSyncExchange.

Lemma attach_nodup : forall cand L v, NoDup v -> NoDup (fold_left (attach_one cand) L v).
Proof.
  intros cand L. induction L as [|c L IH]; intros v Hv; [exact Hv|]. cbn [fold_left]. apply IH.
  unfold attach_one. destruct (mem (cid c) v) eqn:E; [exact Hv|].
  destruct (mem (cid c) cand && all_in (cprev c) v && mem (csnap c) v); [|exact Hv].
  constructor; [apply mem_false_In; exact E | exact Hv].
Qed.

Lemma find_all_nodup : forall G l, NoDup l -> NoDup (ids (find_all G l)).
Proof.
  intros G l. induction l as [|i r IH]; intros H; [constructor|]. inversion H as [|x xs Hx Hr]; subst.
  cbn [find_all]. destruct (find_change G i) as [c|] eqn:E; [|apply IH; exact Hr].
  cbn [ids map]. constructor; [|apply IH; exact Hr].
  destruct (find_in _ _ _ E) as [_ Hid]. rewrite Hid. intro Hin. apply Hx. eapply find_all_ids; exact Hin.
Qed.

Lemma anc_child : forall G h y, anc G h y ->
  h = y \/ exists z c, find_change G z = Some c /\ In h (cprev c) /\ anc G z y.
Proof.
  intros G h y H. induction H as [|y c p Hc Hp Hhp IH]; [left; reflexivity|]. right.
  destruct IH as [->|[z [c' [H1 [H2 H3]]]]].
  - exists y, c. split; [exact Hc | split; [exact Hp | apply anc_refl]].
  - exists z, c'. split; [exact H1 | split; [exact H2 | eapply anc_step; eassumption]].
Qed.

(* heads = childless members of the stored set *)
Theorem heads_childless_of_store : forall G r h, ginv G -> rinv G r ->
  (In h (rep_heads G r) <->
   In h (r_have r) /\ forall c, In c G -> In (cid c) (r_have r) -> ~ In h (cprev c)).
Proof.
  intros G r h HG Hr. pose proof Hr as [Hcl [Hroot [_ HD]]].
  assert (Hrg : In (r_root r) (ids G)) by (eapply closed_ids; eassumption).
  unfold rep_heads. rewrite heads_in_spec. split.
  - intros [Hin Hch]. apply find_all_ids in Hin. pose proof (proj1 (rinv_view G r h HG Hr) Hin) as [Hh Hon].
    split; [exact Hh|]. intros c Hc Hcx Hp.
    assert (Hcv : In (cid c) (rep_view G r)).
    { apply (rinv_view G r _ HG Hr). split; [exact Hcx|]. destruct (HD _ Hcx) as [Ha|Ho]; [|exact Ho]. exfalso.
      assert (Hhg : In h (ids G)) by (eapply closed_ids; eassumption).
      assert (H1 : pos G h < pos G (cid c)) by (apply pos_lt; [exact HG | exact Hc | right; exact Hp | exact Hhg]).
      assert (H2 : cid c = r_root r \/ pos G (cid c) < pos G (r_root r)).
      { apply anc_pos; [exact HG | unfold ids; apply in_map; exact Hc | exact Ha]. }
      assert (H3 : r_root r = h \/ pos G (r_root r) < pos G h).
      { apply anc_pos; [exact HG | exact Hrg |]. apply onchain_anc; assumption. }
      destruct H2 as [H2|H2]; destruct H3 as [H3|H3]; try rewrite H2 in *; try rewrite <- H3 in *; lia. }
    assert (Hcs : In (cid c) (children_occ (find_all G (rep_view G r)) h)).
    { apply children_occ_In. exists c. split; [apply in_find_all; assumption | split; [reflexivity | exact Hp]]. }
    rewrite Hch in Hcs. destruct Hcs.
  - intros [Hh Hno].
    assert (Hhv : In h (rep_view G r)).
    { apply (rinv_view G r h HG Hr). split; [exact Hh|]. destruct (HD h Hh) as [Ha|Ho]; [|exact Ho].
      destruct (anc_child G h _ Ha) as [->|[z [c [Hz [Hp Hzr]]]]]; [apply oc_refl|]. exfalso.
      destruct (find_in _ _ _ Hz) as [HcG Hid]. apply (Hno c HcG); [|exact Hp].
      rewrite Hid. exact (closed_anc G _ z _ Hcl Hroot Hzr). }
    split; [apply find_all_ids_in; [exact Hhv | eapply closed_ids; eassumption]|].
    destruct (children_occ (find_all G (rep_view G r)) h) as [|y ys] eqn:E; [reflexivity|]. exfalso.
    assert (Hy : In y (children_occ (find_all G (rep_view G r)) h)) by (rewrite E; left; reflexivity).
    apply children_occ_In in Hy. destruct Hy as [c [Hc [_ Hp]]]. destruct (find_all_in G _ c Hc) as [HcG Hcv].
    apply (Hno c HcG); [|exact Hp]. apply (rep_view_incl G r Hroot). exact Hcv.
Qed.

Lemma rep_heads_nodup_perm : forall G r, exists l, NoDup l /\ rep_heads G r = isort l.
Proof.
  intros G r. unfold rep_heads, heads_in, heads_of. eexists. split; [|reflexivity].
  apply NoDup_filter. apply find_all_nodup. unfold rep_view, mview, attach_pass. apply attach_nodup.
  constructor; [intros [] | constructor].
Qed.

(* replicas with the same stored set have the same heads *)
Theorem same_store_same_heads : forall G ra rb, ginv G -> rinv G ra -> rinv G rb ->
  (forall x, In x (r_have ra) <-> In x (r_have rb)) -> rep_heads G ra = rep_heads G rb.
Proof.
  intros G ra rb HG Ha Hb Heq.
  destruct (rep_heads_nodup_perm G ra) as [la [Hna Ea]]. destruct (rep_heads_nodup_perm G rb) as [lb [Hnb Eb]].
  rewrite Ea, Eb. apply isort_perm. apply NoDup_Permutation; [exact Hna | exact Hnb|].
  intros h. rewrite <- (isort_In h la), <- (isort_In h lb), <- Ea, <- Eb.
  rewrite (heads_childless_of_store G ra h HG Ha), (heads_childless_of_store G rb h HG Hb).
  split; intros [H1 H2]; (split; [apply Heq; exact H1 | intros c Hc Hx; apply H2; [exact Hc | apply Heq; exact Hx]]).
Qed.

(* unconditional convergence: after a fair anti-entropy phase without local adds all replicas store exactly the
   universe (= the union of the stored sets) and have the same heads *)
Theorem convergence_all : forall w ls,
  sinv w -> uinv w -> noadd ls -> fair next_batch w ls ->
  let w' := run next_batch w ls in
  wG w' = wG w
  /\ (forall b, b < length (w_reps w') -> forall i, In i (r_have (get_rep w' b)) <-> In i (ids (wG w')))
  /\ (forall a b, a < length (w_reps w') -> b < length (w_reps w') ->
        rep_heads (wG w') (get_rep w' a) = rep_heads (wG w') (get_rep w' b)).
Proof.
  intros w ls Hw Hu Hna Hfair w'. destruct (convergence_sets w ls Hw Hu Hna Hfair) as [H1 H2]. fold w' in H1, H2.
  split; [exact H1 | split; [exact H2|]]. intros a b Ha Hb.
  pose proof (run_sinv next_batch ls w Hw) as Hw'. fold w' in Hw'.
  apply same_store_same_heads; [exact (proj1 Hw') | apply get_rep_rinv; assumption | apply get_rep_rinv; assumption|].
  intros x. rewrite (H2 a Ha x), (H2 b Hb x). reflexivity.
Qed.

(* ---------------------------------------------------------------- from reachable states *)

Lemma reachable_sinv : forall nb n root size ls, honest_root root -> sinv (run nb (init_world n root size) ls).
Proof. intros nb n root size ls H. apply run_sinv. apply init_sinv. exact H. Qed.

Lemma reachable_sinv_uinv : forall nb n root size ls, honest_root root -> 0 < n ->
  sinv (run nb (init_world n root size) ls) /\ uinv (run nb (init_world n root size) ls).
Proof.
  intros nb n root size ls H Hn. split; [apply reachable_sinv; exact H|].
  apply run_uinv; [apply init_inv; exact (proj1 H) | apply init_uinv; exact Hn].
Qed.

Theorem convergence_reachable : forall n root size pre ls,
  honest_root root -> 0 < n ->
  let w := run next_batch (init_world n root size) pre in
  noadd ls -> fair next_batch w ls ->
  let w' := run next_batch w ls in
  wG w' = wG w
  /\ (forall b, b < length (w_reps w') -> forall i, In i (r_have (get_rep w' b)) <-> In i (ids (wG w')))
  /\ (forall a b, a < length (w_reps w') -> b < length (w_reps w') ->
        rep_heads (wG w') (get_rep w' a) = rep_heads (wG w') (get_rep w' b)).
Proof.
  intros n root size pre ls Hroot Hn w Hna Hfair.
  destruct (reachable_sinv_uinv next_batch n root size pre Hroot Hn) as [Hs Hu].
  exact (convergence_all w ls Hs Hu Hna Hfair).
Qed.

(* ---------------------------------------------------------------- stored ids are kept without repeats; the final
   conjunct of spec_C01 (all replicas show identical stored sets and identical heads) holds of the model's state *)

Definition ndinv (w : world) : Prop := Forall (fun r => NoDup (r_have r)) (w_reps w).

Lemma grow_nodup : forall added have, NoDup added -> NoDup have -> NoDup (minus added have ++ have).
Proof.
  intros added have Ha Hh. apply LoadIterHeads.NoDup_app_intro; [apply NoDup_filter; exact Ha | exact Hh|].
  intros x Hx Hx2. apply minus_In in Hx. exact (proj2 Hx Hx2).
Qed.

Lemma apply_nodup : forall G r batch path r' res, NoDup (r_have r) -> apply G r batch path = (r', res) -> NoDup (r_have r').
Proof.
  intros G r batch path r' res Hnd H. unfold apply in H.
  assert (Hroot1 : forall x, NoDup [x : N]) by (intros x; constructor; [intros [] | constructor]).
  destruct (find_all G (dedup (minus batch (rep_view G r)) [])) as [|nc0 ncs]; [inversion H; subst; exact Hnd|].
  destruct (need_rb _ _ _ _ _) as [[|]|]; [| |inversion H; subst; exact Hnd].
  - destruct path as [|p0 pr]; [inversion H; subst; exact Hnd|].
    destruct (rep_path G r) as [ourPath|]; [|inversion H; subst; exact Hnd].
    destruct (common_snapshot ourPath (p0 :: pr)) as [base|]; [|inversion H; subst; exact Hnd].
    destruct (negb (mem base (r_have r))); [inversion H; subst; exact Hnd|].
    inversion H; subst r' res. cbn [r_have]. apply grow_nodup; [|exact Hnd].
    apply NoDup_filter. unfold attach_pass, mview, attach_pass. apply attach_nodup. apply attach_nodup. apply Hroot1.
  - destruct (minus (attach_pass G _ (rep_view G r)) (rep_view G r)) as [|a0 ar] eqn:Eadd; [inversion H; subst; exact Hnd|].
    inversion H; subst r' res. cbn [r_have]. apply (grow_nodup (a0 :: ar) (r_have r)); [|exact Hnd]. rewrite <- Eadd.
    apply NoDup_filter. unfold attach_pass, rep_view, mview, attach_pass. apply attach_nodup. apply attach_nodup. apply Hroot1.
Qed.

Lemma add_from_peer_nodup : forall G n me from r heads chs path r' em res,
  NoDup (r_have r) -> add_from_peer G n me from r heads chs path = (r', em, res) -> NoDup (r_have r').
Proof.
  intros G n me from r heads chs path r' em res Hnd H. unfold add_from_peer in H.
  destruct (has_heads G r heads); [inversion H; subst; exact Hnd|].
  destruct (apply G r chs path) as [r1 a] eqn:Ea. pose proof (apply_nodup _ _ _ _ _ _ Hnd Ea) as H1.
  destruct a; inversion H; subst; assumption.
Qed.

Lemma step_ndinv : forall nb w l w' em, sinv w -> ndinv w -> step nb w l = (w', em) -> ndinv w'.
Proof.
  intros nb w l w' em Hw Hn H. unfold step in H. destruct l as [i isSnap id size | i from m | i p].
  - destruct (Nat.ltb i (length (w_reps w)) && negb (has_change (wG w) id) && negb (N.eqb id 0)) eqn:Eg;
      [|inversion H; subst; exact Hn].
    apply andb_true_iff in Eg. destruct Eg as [Eg _]. apply andb_true_iff in Eg. destruct Eg as [Ei Efresh].
    apply Nat.ltb_lt in Ei. apply negb_true_iff in Efresh.
    inversion H; subst w' em. unfold ndinv. cbn [w_reps]. apply Forall_set_nth; [exact Hn|]. cbn [r_have].
    constructor.
    + intro Hin. destruct (get_rep_rinv w i Hw Ei) as [Hcl _]. pose proof (closed_ids _ _ _ Hcl Hin) as Hg.
      apply mem_In in Hg. unfold has_change in Efresh. congruence.
    + unfold ndinv in Hn. rewrite Forall_forall in Hn. apply Hn. unfold get_rep. apply nth_In. exact Ei.
  - destruct (Nat.ltb i (length (w_reps w))) eqn:Ei; [|inversion H; subst; exact Hn]. apply Nat.ltb_lt in Ei.
    assert (Hri : NoDup (r_have (get_rep w i))).
    { unfold ndinv in Hn. rewrite Forall_forall in Hn. apply Hn. unfold get_rep. apply nth_In. exact Ei. }
    assert (Hset : forall r', NoDup (r_have r') -> ndinv (set_rep w i r')).
    { intros r' Hr'. unfold ndinv, set_rep. cbn [w_reps]. apply Forall_set_nth; assumption. }
    destruct m as [hs chs p | hs p | hs chs p].
    + destruct (handle_head (wG w) (length (w_reps w)) i from (get_rep w i) hs chs p) as [r' em0] eqn:Eh.
      inversion H; subst w' em. apply Hset. unfold handle_head in Eh. destruct chs as [|c0 cr].
      * destruct (has_heads _ _ _); inversion Eh; subst; exact Hri.
      * destruct (add_from_peer _ _ _ _ _ _ (c0 :: cr) _) as [[r1 em1] res] eqn:Ea.
        pose proof (add_from_peer_nodup _ _ _ _ _ _ _ _ _ _ _ Hri Ea) as H1.
        destruct res as [rh|]; [destruct (same_set rh hs)|]; inversion Eh; subst; exact H1.
    + inversion H; subst; exact Hn.
    + destruct (handle_resp (wG w) (length (w_reps w)) i from (get_rep w i) hs chs p) as [r' em0] eqn:Eh.
      inversion H; subst w' em. apply Hset. unfold handle_resp in Eh. destruct chs as [|c0 cr].
      * inversion Eh; subst. exact Hri.
      * destruct (add_from_peer _ _ _ _ _ _ (c0 :: cr) _) as [[r1 em1] res] eqn:Ea.
        pose proof (add_from_peer_nodup _ _ _ _ _ _ _ _ _ _ _ Hri Ea) as H1. inversion Eh; subst. exact H1.
  - destruct (Nat.ltb i (length (w_reps w))); inversion H; subst; exact Hn.
Qed.

Lemma run_ndinv : forall nb ls w, sinv w -> ndinv w -> ndinv (run nb w ls).
Proof.
  intros nb ls. induction ls as [|l ls IH]; intros w Hw Hn; [exact Hn|].
  change (run nb w (l :: ls)) with (run nb (fst (step nb w l)) ls).
  destruct (step nb w l) as [w' em] eqn:E. cbn [fst]. apply IH; [eapply step_sinv; eassumption | eapply step_ndinv; eassumption].
Qed.

Lemma init_ndinv : forall n root size, ndinv (init_world n root size).
Proof.
  intros n root size. unfold ndinv, init_world. cbn [w_reps]. apply Forall_forall. intros r Hr.
  apply repeat_spec in Hr. subst r. cbn [r_have]. constructor; [intros [] | constructor].
Qed.

Lemma list_eqb_refl_N : forall l, list_eqb l l = true.
Proof. induction l as [|a l IH]; [reflexivity|]. cbn [list_eqb]. rewrite N.eqb_refl, IH. reflexivity. Qed.

Lemma all_equal_intro : forall l,
  (forall o1 o2, In o1 l -> In o2 l -> isort (fst o1) = isort (fst o2) /\ isort (snd o1) = isort (snd o2)) ->
  all_equal l = true.
Proof.
  intros [|[h0 hd0] r] H; [reflexivity|]. cbn [all_equal]. apply forallb_forall. intros o Ho.
  destruct (H o (h0, hd0) (or_intror Ho) (or_introl eq_refl)) as [H1 H2]. cbn [fst snd] in H1, H2.
  rewrite H1, H2, !list_eqb_refl_N. reflexivity.
Qed.

(* the model's final state passes the final conjunct of spec_C01 *)
Theorem final_all_equal : forall n root size pre ls,
  honest_root root -> 0 < n ->
  let w := run next_batch (init_world n root size) pre in
  noadd ls -> fair next_batch w ls ->
  let w' := run next_batch w ls in
  all_equal (map (fun r => (r_have r, rep_heads (wG w') r)) (w_reps w')) = true.
Proof.
  intros n root size pre ls Hroot Hn w Hna Hfair w'.
  destruct (convergence_reachable n root size pre ls Hroot Hn Hna Hfair) as [_ [Hsets Hheads]]. fold w w' in Hsets, Hheads.
  assert (Hnd : ndinv w').
  { unfold w', w. rewrite <- run_app. apply run_ndinv; [apply init_sinv; exact Hroot | apply init_ndinv]. }
  unfold ndinv in Hnd. rewrite Forall_forall in Hnd.
  apply all_equal_intro. intros o1 o2 Ho1 Ho2.
  apply in_map_iff in Ho1. destruct Ho1 as [r1 [<- Hr1]]. apply in_map_iff in Ho2. destruct Ho2 as [r2 [<- Hr2]]. cbn [fst snd].
  destruct (In_nth _ _ norep Hr1) as [k1 [Hk1 Ek1]]. destruct (In_nth _ _ norep Hr2) as [k2 [Hk2 Ek2]].
  fold (get_rep w' k1) in Ek1. fold (get_rep w' k2) in Ek2. split.
  - apply isort_perm. apply NoDup_Permutation; [apply Hnd; exact Hr1 | apply Hnd; exact Hr2|].
    intros x. rewrite <- Ek1, <- Ek2. rewrite (Hsets k1 Hk1 x), (Hsets k2 Hk2 x). reflexivity.
  - rewrite <- Ek1, <- Ek2. rewrite (Hheads k1 k2 Hk1 Hk2). reflexivity.
Qed.
