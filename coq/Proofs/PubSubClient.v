(* Proofs about the client receive chain model (Model/PubSubClient.v), C17.
   Part 1: the signed byte string is uniquely decodable (signdata_injective).
   Part 2: what a delivery implies (forged_dropped).
   Part 3: the dedup ring is exactly "the last [size] recorded ids" (ring invariant, replay_window).
   Part 4 is in Proofs/PubSubClientSpec.v (the model satisfies spec_C17_client). *)
From Coq Require Import List NArith ZArith Bool Arith Lia ZifyBool ZifyNat ZifyN.
Import ListNotations.
From AnySync Require Import Model.Trie Model.PubSubClient Proofs.TrieProofs.

(* ================================================================== Part 1: sign_data is injective *)

Lemma le_bytes_length : forall n x, length (le_bytes n x) = n.
Proof. induction n as [|n IH]; intros x; simpl; [reflexivity|rewrite IH; reflexivity]. Qed.

Lemma le_bytes_inj : forall n x y,
  (x < 256 ^ N.of_nat n)%N -> (y < 256 ^ N.of_nat n)%N -> le_bytes n x = le_bytes n y -> x = y.
Proof.
  induction n as [|n IH]; intros x y Hx Hy E.
  - simpl in Hx, Hy. lia.
  - cbn [le_bytes] in E. inversion E as [[Hm Hd]].
    rewrite Nat2N.inj_succ, N.pow_succ_r' in Hx, Hy.
    assert (Hq : (x / 256 = y / 256)%N).
    { apply IH; auto; apply N.div_lt_upper_bound; lia. }
    rewrite (N.div_mod x 256), (N.div_mod y 256) by lia. rewrite Hm, Hq. reflexivity.
Qed.

Lemma app_eq_len : forall {A} (a a' b b' : list A),
  length a = length a' -> a ++ b = a' ++ b' -> a = a' /\ b = b'.
Proof.
  induction a as [|x a IH]; intros [|y a'] b b' HL E; simpl in *; try discriminate.
  - auto.
  - inversion E as [[Hx Hr]]. destruct (IH a' b b') as [E1 E2]; auto. subst. auto.
Qed.

Definition U32 : N := 4294967296.
Definition U64 : N := 18446744073709551616.

Lemma u32le_inj : forall x y, (x < U32)%N -> (y < U32)%N -> u32le x = u32le y -> x = y.
Proof. intros x y Hx Hy. apply le_bytes_inj; assumption. Qed.

Lemma u64le_inj : forall x y, (x < U64)%N -> (y < U64)%N -> u64le x = u64le y -> x = y.
Proof. intros x y Hx Hy. apply le_bytes_inj; assumption. Qed.

(* a length-prefixed field followed by anything decodes uniquely *)
Lemma lp_inj : forall f g r r',
  (N.of_nat (length f) < U32)%N -> (N.of_nat (length g) < U32)%N ->
  lp f ++ r = lp g ++ r' -> f = g /\ r = r'.
Proof.
  intros f g r r' Hf Hg E. unfold lp in E. rewrite <- !app_assoc in E.
  destruct (app_eq_len _ _ _ _ (eq_trans (le_bytes_length 4 _) (eq_sym (le_bytes_length 4 _))) E) as [E1 E2].
  apply u32le_inj in E1; auto. apply Nat2N.inj in E1.
  apply app_eq_len in E2; auto.
Qed.

Lemma u64_of_Z_lt : forall z, (u64_of_Z z < U64)%N.
Proof.
  intros z. unfold u64_of_Z, U64.
  pose proof (Z.mod_pos_bound z 18446744073709551616 eq_refl) as H. lia.
Qed.

Definition int64 (z : Z) : Prop := (-9223372036854775808 <= z < 9223372036854775808)%Z.

Lemma u64_of_Z_inj : forall a b, int64 a -> int64 b -> u64_of_Z a = u64_of_Z b -> a = b.
Proof.
  intros a b Ha Hb E. unfold u64_of_Z in E. unfold int64 in *.
  pose proof (Z.mod_pos_bound a 18446744073709551616 eq_refl) as H1.
  pose proof (Z.mod_pos_bound b 18446744073709551616 eq_refl) as H2.
  assert (E' : (a mod 18446744073709551616 = b mod 18446744073709551616)%Z) by (apply Z2N.inj; lia).
  clear E. lia.
Qed.

(* the variable-length fields are shorter than 2^32 bytes (Go truncates uint32(len)) *)
Definition short (f : list N) : Prop := (N.of_nat (length f) < U32)%N.

Theorem signdata_of_injective : forall s1 t1 i1 k1 ts1 p1 s2 t2 i2 k2 ts2 p2,
  short s1 -> short t1 -> short i1 -> short k1 -> int64 ts1 ->
  short s2 -> short t2 -> short i2 -> short k2 -> int64 ts2 ->
  sign_data_of s1 t1 i1 k1 ts1 p1 = sign_data_of s2 t2 i2 k2 ts2 p2 ->
  s1 = s2 /\ t1 = t2 /\ i1 = i2 /\ k1 = k2 /\ ts1 = ts2 /\ p1 = p2.
Proof.
  intros s1 t1 i1 k1 ts1 p1 s2 t2 i2 k2 ts2 p2 A1 A2 A3 A4 A5 B1 B2 B3 B4 B5 E.
  unfold sign_data_of in E. apply app_inv_head in E.
  apply lp_inj in E; auto. destruct E as [Es E].
  apply lp_inj in E; auto. destruct E as [Et E].
  apply lp_inj in E; auto. destruct E as [Ei E].
  apply lp_inj in E; auto. destruct E as [Ek E].
  apply app_eq_len in E; [|unfold u64le; rewrite !le_bytes_length; reflexivity].
  destruct E as [Ets Ep].
  apply u64le_inj in Ets; try apply u64_of_Z_lt. apply u64_of_Z_inj in Ets; auto.
  repeat split; assumption.
Qed.

Definition short_msg (m : msg) : Prop :=
  short (m_space m) /\ short (m_topic m) /\ short (m_id m) /\ short (m_key m) /\ int64 (m_ts m).

Theorem signdata_injective : forall m1 m2,
  short_msg m1 -> short_msg m2 -> sign_data m1 = sign_data m2 ->
  m_space m1 = m_space m2 /\ m_topic m1 = m_topic m2 /\ m_id m1 = m_id m2 /\ m_key m1 = m_key m2
  /\ m_ts m1 = m_ts m2 /\ m_payload m1 = m_payload m2.
Proof.
  intros m1 m2 (A1 & A2 & A3 & A4 & A5) (B1 & B2 & B3 & B4 & B5) E.
  unfold sign_data in E. eapply signdata_of_injective; eauto.
Qed.

(* Without the length prefixes the encoding is NOT injective: the boundary between two adjacent fields
   can move (the reason for the prefixes, and what the harness' boundary-shift cases exercise). *)
Example unprefixed_concat_collides :
  let s := 115%N in let a := 97%N in let b := 98%N in
  ([s; a] ++ [b] = [s] ++ [a; b]) /\ sign_data_of [s; a] [b] [] [] 0 [] <> sign_data_of [s] [a; b] [] [] 0 [].
Proof. split; [reflexivity|vm_compute; discriminate]. Qed.

(* ================================================================== Part 2: what a delivery implies *)

Lemma verify_true : forall k d s, verify k d s = true -> s = SigOf k d.
Proof.
  intros k d [k' d'|n] H; simpl in H; [|discriminate].
  apply andb_true_iff in H. destruct H as [H1 H2]. apply N.eqb_eq in H1. apply str_eqb_eq in H2. subst. reflexivity.
Qed.

(* every way through [receive] that ends in VDeliver / VNoCrypto / VDup passed checks 1-6 *)
Definition passes_1_6 (c : ccfg) (st : cstate) (now : Z) (m : msg) : Prop :=
  length (m_id m) = msg_id_len
  /\ (N.of_nat (length (m_payload m)) <= cc_maxpay c)%N
  /\ validate_topic (m_topic m) = true
  /\ local_match st (m_space m) (m_topic m) <> []
  /\ exists k, m_ident m = Some k
     /\ is_member st (m_space m) k = true
     /\ (topic_owner (m_topic m) = [] \/ account_name c k = topic_owner (m_topic m))
     /\ is_stale now (m_ts m) (cc_skew c) = false
     /\ m_sig m = SigOf k (sign_data m).

Definition passes_b (c : ccfg) (st : cstate) (now : Z) (m : msg) : bool :=
  Nat.eqb (length (m_id m)) msg_id_len && N.leb (N.of_nat (length (m_payload m))) (cc_maxpay c)
  && validate_topic (m_topic m) && negb (is_nil (local_match st (m_space m) (m_topic m)))
  && match m_ident m with
     | None => false
     | Some k => is_member st (m_space m) k
                 && (is_nil (topic_owner (m_topic m)) || str_eqb (account_name c k) (topic_owner (m_topic m)))
                 && negb (is_stale now (m_ts m) (cc_skew c)) && verify k (sign_data m) (m_sig m)
     end.

Lemma is_nil_true : forall {A} (l : list A), is_nil l = true <-> l = [].
Proof. intros A [|x l]; simpl; split; intros H; try reflexivity; discriminate. Qed.

Lemma passes_b_iff : forall c st now m, passes_b c st now m = true <-> passes_1_6 c st now m.
Proof.
  intros c st now m. unfold passes_b, passes_1_6. split.
  - intros H. repeat (apply andb_true_iff in H; destruct H as [H ?]).
    destruct (m_ident m) as [k|]; [|discriminate].
    repeat match goal with X : (_ && _) = true |- _ => apply andb_true_iff in X; destruct X as [X ?] end.
    split; [apply Nat.eqb_eq; assumption|]. split; [apply N.leb_le; assumption|]. split; [assumption|].
    split.
    { intro E. match goal with X : negb (is_nil _) = true |- _ => rewrite E in X; discriminate end. }
    exists k. split; [reflexivity|]. split; [assumption|]. split.
    { match goal with X : (_ || _) = true |- _ => apply orb_true_iff in X; destruct X as [X|X] end;
        [left; apply is_nil_true; assumption|right; apply str_eqb_eq; assumption]. }
    split; [apply negb_true_iff; assumption|]. apply verify_true. assumption.
  - intros (H1 & H2 & H3 & H4 & k & H5 & H6 & H7 & H8 & H9). rewrite H5, H6, H8, H9, H3.
    apply Nat.eqb_eq in H1. apply N.leb_le in H2. rewrite H1, H2. cbn [andb negb].
    destruct (local_match st (m_space m) (m_topic m)); [contradiction|]. cbn [is_nil negb andb].
    cbn [verify]. rewrite N.eqb_refl, str_eqb_refl.
    destruct H7 as [H7|H7]; [rewrite H7; reflexivity|].
    rewrite H7, str_eqb_refl, orb_true_r. reflexivity.
Qed.

(* the verdict of [receive] as a function of [passes_b] and the ring *)
Lemma receive_passes : forall c st now m,
  passes_b c st now m = true ->
  receive c st now m =
    (mkC (c_tries st) (c_subs st) (c_members st) (fst (seen (c_ring st) (m_id m))),
     if snd (seen (c_ring st) (m_id m)) then VDup
     else if negb (is_nil (m_key m)) then VNoCrypto
     else VDeliver (local_match st (m_space m) (m_topic m))).
Proof.
  intros c st now m H. unfold passes_b in H. unfold receive.
  repeat (apply andb_true_iff in H; destruct H as [H ?]).
  match goal with X : Nat.eqb _ _ = true |- _ => rewrite X end.
  match goal with X : N.leb _ _ = true |- _ => rewrite N.ltb_antisym, X end.
  match goal with X : validate_topic _ = true |- _ => rewrite X end.
  cbn [negb orb].
  match goal with X : negb (is_nil _) = true |- _ => apply negb_true_iff in X; rewrite X end.
  destruct (m_ident m) as [k|]; [|discriminate].
  repeat match goal with X : (_ && _) = true |- _ => apply andb_true_iff in X; destruct X as [X ?] end.
  match goal with X : is_member _ _ _ = true |- _ => rewrite X end.
  match goal with X : verify _ _ _ = true |- _ => rewrite X end.
  match goal with X : negb (is_stale _ _ _) = true |- _ => apply negb_true_iff in X; rewrite X end.
  cbn [negb].
  match goal with X : (is_nil _ || _) = true |- _ =>
    apply orb_true_iff in X; destruct X as [X|X]; rewrite X; cbn [negb andb] end.
  - destruct (seen (c_ring st) (m_id m)) as [r' dup]. cbn [fst snd]. destruct dup; [reflexivity|destruct (is_nil (m_key m)); reflexivity].
  - rewrite andb_false_r. destruct (seen (c_ring st) (m_id m)) as [r' dup]. cbn [fst snd]. destruct dup; [reflexivity|destruct (is_nil (m_key m)); reflexivity].
Qed.

Lemma receive_fails : forall c st now m,
  passes_b c st now m = false ->
  fst (receive c st now m) = st
  /\ match snd (receive c st now m) with VDup | VNoCrypto | VDeliver _ => False | _ => True end.
Proof.
  intros c st now m H. unfold passes_b in H. unfold receive.
  destruct (Nat.eqb (length (m_id m)) msg_id_len); cbn [negb orb andb] in *; [|split; [reflexivity|exact I]].
  rewrite N.ltb_antisym. destruct (N.leb (N.of_nat (length (m_payload m))) (cc_maxpay c)); cbn [negb andb] in *;
    [|split; [reflexivity|exact I]].
  destruct (validate_topic (m_topic m)); cbn [negb andb] in *; [|split; [reflexivity|exact I]].
  destruct (is_nil (local_match st (m_space m) (m_topic m))); cbn [negb andb] in *; [split; [reflexivity|exact I]|].
  destruct (m_ident m) as [k|]; [|split; [reflexivity|exact I]].
  destruct (is_member st (m_space m) k); cbn [negb andb] in *; [|split; [reflexivity|exact I]].
  destruct (is_nil (topic_owner (m_topic m))); cbn [negb andb orb] in *.
  - destruct (is_stale now (m_ts m) (cc_skew c)); cbn [negb andb] in *; [split; [reflexivity|exact I]|].
    rewrite H. cbn [negb]. split; [reflexivity|exact I].
  - destruct (str_eqb (account_name c k) (topic_owner (m_topic m))); cbn [negb andb] in *; [|split; [reflexivity|exact I]].
    destruct (is_stale now (m_ts m) (cc_skew c)); cbn [negb andb] in *; [split; [reflexivity|exact I]|].
    rewrite H. cbn [negb]. split; [reflexivity|exact I].
Qed.

(* the observable "a handler ran" *)
Definition delivered (o : cobs) : Prop :=
  match o with ORecv _ inv => inv <> [] | _ => False end.

Lemma cstep_recv_delivered : forall c st now m,
  delivered (snd (cstep c st (CRecv now m))) ->
  passes_b c st now m = true /\ snd (seen (c_ring st) (m_id m)) = false /\ m_key m = [].
Proof.
  intros c st now m H. cbn [cstep] in H.
  destruct (passes_b c st now m) eqn:P.
  - rewrite (receive_passes _ _ _ _ P) in H. cbn [snd] in H.
    destruct (snd (seen (c_ring st) (m_id m))); [cbn in H; contradiction|].
    destruct (m_key m); [auto|]. cbn in H. contradiction.
  - destruct (receive_fails _ _ _ _ P) as [_ HV].
    destruct (receive c st now m) as [st' v]. cbn [snd] in *.
    destruct v; cbn in H; try contradiction; try (exfalso; exact HV).
Qed.

(* In ANY run from ANY state: if the i-th event is the arrival of a message and a handler ran for it, then
   in the state just before it the message passed every check; in particular its signature is the one made
   with the key of the claimed identity over exactly sign_data of the message as received. *)
Theorem forged_dropped : forall c st0 evs i now m,
  nth_error evs i = Some (CRecv now m) ->
  delivered (nth i (client_run c st0 evs) ONoneC) ->
  passes_1_6 c (client_exec c st0 (firstn i evs)) now m.
Proof.
  intros c st0 evs. revert st0. induction evs as [|e r IH]; intros st0 i now m Hn Hd.
  - destruct i; discriminate.
  - destruct i as [|i].
    + cbn in Hn. inversion Hn. subst e. cbn [firstn client_exec fold_left].
      cbn [client_run] in Hd. destruct (cstep c st0 (CRecv now m)) as [st' o] eqn:E. cbn [nth] in Hd.
      apply passes_b_iff. apply (cstep_recv_delivered c st0 now m). rewrite E. exact Hd.
    + cbn [nth_error] in Hn. cbn [client_run] in Hd. destruct (cstep c st0 e) as [st' o] eqn:E. cbn [nth] in Hd.
      cbn [firstn]. unfold client_exec. cbn [fold_left]. rewrite E. cbn [fst]. apply IH; assumption.
Qed.

(* with injectivity: a delivered message was signed, by the claimed identity, over exactly its six fields *)
Corollary forged_dropped_fields : forall c st0 evs i now m k m',
  nth_error evs i = Some (CRecv now m) ->
  delivered (nth i (client_run c st0 evs) ONoneC) ->
  m_sig m = SigOf k (sign_data m') -> short_msg m -> short_msg m' ->
  m_ident m = Some k
  /\ m_space m = m_space m' /\ m_topic m = m_topic m' /\ m_id m = m_id m' /\ m_key m = m_key m'
  /\ m_ts m = m_ts m' /\ m_payload m = m_payload m'.
Proof.
  intros c st0 evs i now m k m' Hn Hd Hs S1 S2.
  destruct (forged_dropped c st0 evs i now m Hn Hd) as (_ & _ & _ & _ & k0 & Hk & _ & _ & _ & Hsig).
  rewrite Hsig in Hs.
  assert (Ek : k0 = k).
  { pose proof (f_equal (fun s => match s with SigOf k1 _ => k1 | SigJunk _ => 0%N end) Hs) as E. exact E. }
  assert (Ed : sign_data m = sign_data m').
  { pose proof (f_equal (fun s => match s with SigOf _ d => d | SigJunk _ => [] end) Hs) as E. exact E. }
  subst k0. split; [exact Hk|].
  exact (signdata_injective m m' S1 S2 Ed).
Qed.

(* ================================================================== Part 3: the dedup ring *)

Lemma mem_str_In : forall x l, mem_str x l = true <-> In x l.
Proof.
  induction l as [|y l IH]; cbn [mem_str In]; [split; [discriminate|contradiction]|].
  rewrite orb_true_iff, IH, str_eqb_eq. split; intros [H|H]; auto.
Qed.

Lemma in_remove_str : forall x y l, In y (remove_str x l) <-> In y l /\ y <> x.
Proof.
  induction l as [|z l IH]; cbn [remove_str In]; [tauto|].
  destruct (str_eqb x z) eqn:E.
  - apply str_eqb_eq in E. subst z. rewrite IH. split; [tauto|]. intros [[H|H] Hn]; [congruence|tauto].
  - apply str_eqb_neq in E. cbn [In]. rewrite IH. split.
    + intros [H|H]; [subst; split; [auto|congruence]|tauto].
    + tauto.
Qed.

Lemma set_nth_app : forall {A} (a : list A) x b r, set_nth (length a) x (a ++ b :: r) = a ++ x :: r.
Proof. induction a as [|y a IH]; intros x b r; cbn; [reflexivity|]. rewrite IH. reflexivity. Qed.

Lemma nth_app_mid : forall {A} (a : list A) b r d, nth (length a) (a ++ b :: r) d = b.
Proof. induction a as [|y a IH]; intros b r d; cbn; [reflexivity|apply IH]. Qed.

Lemma skipn_S_tl : forall {A} k (l : list A), skipn (S k) l = tl (skipn k l).
Proof.
  induction k as [|k IH]; intros l.
  - destruct l; reflexivity.
  - destruct l as [|x l]; [reflexivity|]. change (skipn (S (S k)) (x :: l)) with (skipn (S k) l).
    change (skipn (S k) (x :: l)) with (skipn k l). apply IH.
Qed.

Lemma lastn_short : forall {A} n (l : list A), length l <= n -> lastn n l = l.
Proof. intros A n l H. unfold lastn. replace (length l - n) with 0 by lia. reflexivity. Qed.

Lemma lastn_length : forall {A} n (l : list A), length (lastn n l) = Nat.min n (length l).
Proof. intros A n l. unfold lastn. rewrite skipn_length. lia. Qed.

Lemma lastn_snoc_full : forall {A} n (l : list A) x,
  0 < n -> n <= length l -> lastn n (l ++ [x]) = tl (lastn n l) ++ [x].
Proof.
  intros A n l x Hn Hl. unfold lastn. rewrite app_length. cbn [length].
  replace (length l + 1 - n) with (S (length l - n)) by lia.
  rewrite skipn_app, skipn_S_tl. replace (S (length l - n) - length l) with 0 by lia. reflexivity.
Qed.

Lemma NoDup_snoc : forall {A} (l : list A) x, NoDup l -> ~ In x l -> NoDup (l ++ [x]).
Proof.
  induction l as [|y l IH]; intros x ND Hn; cbn.
  - constructor; [intros []|constructor].
  - inversion ND as [|? ? Hy ND']; subst. constructor.
    + rewrite in_app_iff. intros [H|[H|[]]]; [contradiction|]. subst. apply Hn. left. reflexivity.
    + apply IH; auto. intro H. apply Hn. right. exact H.
Qed.

(* The ring holds exactly the last [n] recorded ids ([rec] = every id recorded so far, oldest first):
   the map is that set, the window has no duplicates, and the slots hold the window rotated at [pos]. *)
Definition ring_inv (n : nat) (r : ring) (rec : list str) : Prop :=
  length (r_ring r) = n
  /\ NoDup (lastn n rec)
  /\ (forall x, In x (r_set r) <-> In x (lastn n rec))
  /\ if r_full r
     then exists A B, r_ring r = A ++ B /\ r_pos r = length A /\ B <> [] /\ lastn n rec = B ++ A
     else r_pos r = length rec /\ length rec < n /\ exists Z, r_ring r = rec ++ Z.

Lemma ring_inv_new : forall n, 0 < n -> ring_inv n (ring_new n) [].
Proof.
  intros n Hn. unfold ring_inv, ring_new. cbn [r_ring r_set r_pos r_full].
  split; [apply repeat_length|]. split; [constructor|]. split; [intros x; cbn; tauto|].
  split; [reflexivity|]. split; [exact Hn|]. exists (repeat zero_id n). reflexivity.
Qed.

(* one call of seen(): the answer is "in the window", and the invariant moves on with the recorded list *)
Lemma seen_step : forall n r rec id,
  0 < n -> ring_inv n r rec -> length id = msg_id_len ->
  snd (seen r id) = mem_str id (lastn n rec)
  /\ ring_inv n (fst (seen r id)) (if mem_str id (lastn n rec) then rec else rec ++ [id]).
Proof.
  intros n r rec id Hn (HL & ND & HS & HR) Hid. unfold seen.
  rewrite Hid, Nat.eqb_refl. cbn [negb].
  assert (EM : mem_str id (r_set r) = mem_str id (lastn n rec)).
  { destruct (mem_str id (r_set r)) eqn:E1; destruct (mem_str id (lastn n rec)) eqn:E2; auto.
    - apply mem_str_In, HS, mem_str_In in E1. congruence.
    - apply mem_str_In, HS, mem_str_In in E2. congruence. }
  rewrite EM. destruct (mem_str id (lastn n rec)) eqn:EW.
  { cbn [fst snd]. split; [reflexivity|]. repeat split; auto; apply HS. }
  assert (Hnot : ~ In id (lastn n rec)).
  { intro F. apply mem_str_In in F. congruence. }
  destruct (r_full r) eqn:EF.
  - (* full: evict the oldest *)
    destruct HR as (A & B & HRing & HPos & HB & HW).
    destruct B as [|b B']; [contradiction|].
    assert (Hlen : length A + S (length B') = n).
    { rewrite <- HL, HRing, app_length. reflexivity. }
    assert (Hfull : n <= length rec).
    { pose proof (lastn_length n rec) as H. rewrite HW, app_length in H. cbn [length] in H. lia. }
    assert (HW' : lastn n (rec ++ [id]) = (B' ++ A) ++ [id]).
    { rewrite lastn_snoc_full by assumption. rewrite HW. reflexivity. }
    assert (NDb : ~ In b (B' ++ A) /\ NoDup (B' ++ A)).
    { rewrite HW in ND. cbn in ND. inversion ND; auto. }
    destruct NDb as [Hb ND'].
    assert (ND2 : NoDup ((B' ++ A) ++ [id])).
    { apply NoDup_snoc; auto. intro F. apply Hnot. rewrite HW. right. exact F. }
    assert (HS2 : forall x, In x (id :: remove_str (nth (r_pos r) (r_ring r) zero_id) (r_set r))
                            <-> In x ((B' ++ A) ++ [id])).
    { intros x. rewrite HPos, HRing, nth_app_mid. cbn [In]. rewrite in_remove_str, HS, HW.
      change ((b :: B') ++ A) with (b :: (B' ++ A)). rewrite (in_app_iff (B' ++ A) [id]). cbn [In].
      split.
      - intros [H|[[H|H] Hx]]; [right; left; exact H|exfalso; apply Hx; symmetry; exact H|left; exact H].
      - intros [H|[H|[]]]; [right; split; [right; exact H|intro E; subst x; contradiction]|left; exact H]. }
    rewrite HPos, HRing, set_nth_app in *. rewrite app_length. cbn [length].
    destruct (Nat.eqb (S (length A)) (length A + S (length B'))) eqn:EP; cbn [fst snd]; (split; [reflexivity|]).
    + apply Nat.eqb_eq in EP. assert (B' = []) by (destruct B'; [reflexivity|cbn in EP; lia]). subst B'.
      unfold ring_inv. cbn [r_ring r_set r_pos r_full]. rewrite HW'.
      split; [rewrite app_length; cbn; lia|]. split; [exact ND2|]. split; [exact HS2|].
      exists [], (A ++ [id]). cbn [app length]. split; [reflexivity|]. split; [reflexivity|].
      split; [destruct A; discriminate|]. rewrite app_nil_r. reflexivity.
    + apply Nat.eqb_neq in EP.
      unfold ring_inv. cbn [r_ring r_set r_pos r_full]. rewrite HW'.
      split; [rewrite app_length; cbn; lia|]. split; [exact ND2|]. split; [exact HS2|].
      exists (A ++ [id]), B'. split; [rewrite <- app_assoc; reflexivity|].
      split; [rewrite app_length; cbn; lia|]. split; [destruct B'; [cbn in EP; lia|discriminate]|].
      rewrite app_assoc. reflexivity.
  - (* not yet full *)
    destruct HR as (HPos & HLt & Z & HRing).
    assert (HWr : lastn n rec = rec) by (apply lastn_short; lia).
    assert (HW' : lastn n (rec ++ [id]) = rec ++ [id]).
    { apply lastn_short. rewrite app_length. cbn. lia. }
    destruct Z as [|z Z'].
    { exfalso. rewrite HRing, app_nil_r in HL. lia. }
    assert (Hlen : length rec + S (length Z') = n).
    { rewrite <- HL, HRing, app_length. reflexivity. }
    assert (ND2 : NoDup (rec ++ [id])).
    { apply NoDup_snoc; [rewrite <- HWr; exact ND|rewrite <- HWr; exact Hnot]. }
    assert (HS2 : forall x, In x (id :: r_set r) <-> In x (rec ++ [id])).
    { intros x. cbn [In]. rewrite HS, HWr, in_app_iff. cbn [In]. tauto. }
    rewrite HPos, HRing, set_nth_app in *. rewrite app_length. cbn [length].
    destruct (Nat.eqb (S (length rec)) (length rec + S (length Z'))) eqn:EP; cbn [fst snd]; (split; [reflexivity|]).
    + apply Nat.eqb_eq in EP. assert (Z' = []) by (destruct Z'; [reflexivity|cbn in EP; lia]). subst Z'.
      unfold ring_inv. cbn [r_ring r_set r_pos r_full]. rewrite HW'.
      split; [rewrite app_length; cbn; lia|]. split; [exact ND2|]. split; [exact HS2|].
      exists [], (rec ++ [id]). cbn [app length]. split; [reflexivity|]. split; [reflexivity|].
      split; [destruct rec; discriminate|]. rewrite app_nil_r. reflexivity.
    + apply Nat.eqb_neq in EP.
      unfold ring_inv. cbn [r_ring r_set r_pos r_full]. rewrite HW'.
      split; [rewrite app_length; cbn; lia|]. split; [exact ND2|]. split; [exact HS2|].
      split; [rewrite app_length; cbn; lia|]. split; [rewrite app_length; cbn; lia|].
      exists Z'. rewrite <- app_assoc. reflexivity.
Qed.

Lemma seen_badlen : forall r id, length id <> msg_id_len -> seen r id = (r, false).
Proof. intros r id H. unfold seen. apply Nat.eqb_neq in H. rewrite H. reflexivity. Qed.

(* ---- the recorded ids along a client run (ghost state) *)

(* the id an event passes to s.dedup.seen, if it gets that far *)
Definition seen_id (c : ccfg) (st : cstate) (e : cev) : option str :=
  match e with
  | CRecv now m => if passes_b c st now m then Some (m_id m) else None
  | CPub s topic id plen => if snd (fst (do_publish c st s topic id plen)) then Some id else None
  | _ => None
  end.

(* recorded = seen() answered "not seen" for a 16-byte id (that is when dedup.go writes the slot) *)
Definition rec_upd (st : cstate) (rec : list str) (o : option str) : list str :=
  match o with
  | Some id => if Nat.eqb (length id) msg_id_len && negb (snd (seen (c_ring st) id)) then rec ++ [id] else rec
  | None => rec
  end.

Definition gstep (c : ccfg) (p : cstate * list str) (e : cev) : cstate * list str :=
  (fst (cstep c (fst p) e), rec_upd (fst p) (snd p) (seen_id c (fst p) e)).

Definition gexec (c : ccfg) (st : cstate) (rec : list str) (evs : list cev) : cstate * list str :=
  fold_left (gstep c) evs (st, rec).

(* ids recorded by the run [evs] from the initial state: own publishes + accepted receives, in order *)
Definition recorded (c : ccfg) (evs : list cev) : list str := snd (gexec c (cinit c) [] evs).

Lemma gexec_state : forall c evs st rec, fst (gexec c st rec evs) = client_exec c st evs.
Proof.
  intros c evs. induction evs as [|e r IH]; intros st rec; [reflexivity|].
  unfold gexec, client_exec in *. cbn [fold_left]. unfold gstep at 2. cbn [fst snd]. apply IH.
Qed.

Lemma cstep_ring : forall c st e,
  c_ring (fst (cstep c st e)) =
  match seen_id c st e with Some id => fst (seen (c_ring st) id) | None => c_ring st end.
Proof.
  intros c st e. destruct e as [s p|s p|s k b|now m|s topic id plen]; cbn [cstep seen_id].
  - unfold do_subscribe. destruct (negb (validate_pattern p)); [reflexivity|].
    destruct (N.leb (cc_maxpat c) (N.of_nat (length (subs_of st s)))); reflexivity.
  - unfold do_unsubscribe. destruct (N.eqb (count_of (subs_of st s) p) 0); [reflexivity|].
    destruct (N.ltb 1 (count_of (subs_of st s) p)); [reflexivity|].
    destruct (assoc s (c_tries st)); [|reflexivity].
    destruct (N.eqb (trie_len (fst (trie_remove t p))) 0); reflexivity.
  - reflexivity.
  - destruct (passes_b c st now m) eqn:P.
    + rewrite (receive_passes _ _ _ _ P). reflexivity.
    + destruct (receive_fails _ _ _ _ P) as [H _]. destruct (receive c st now m) as [st' v]. cbn [fst] in *.
      subst st'. reflexivity.
  - unfold do_publish. destruct (negb (validate_topic topic)); [reflexivity|].
    destruct (N.ltb (cc_maxpay c) plen); [reflexivity|].
    destruct (negb (is_nil (topic_owner topic)) && negb (str_eqb (topic_owner topic) (account_name c (cc_self c))));
      reflexivity.
Qed.

Lemma gstep_inv : forall c n p e,
  0 < n -> ring_inv n (c_ring (fst p)) (snd p) ->
  ring_inv n (c_ring (fst (gstep c p e))) (snd (gstep c p e)).
Proof.
  intros c n [st rec] e Hn H. unfold gstep. cbn [fst snd] in *. rewrite cstep_ring.
  destruct (seen_id c st e) as [id|]; cbn [rec_upd]; [|exact H].
  destruct (Nat.eq_dec (length id) msg_id_len) as [E|E].
  - destruct (seen_step n (c_ring st) rec id Hn H E) as [H1 H2].
    rewrite E, Nat.eqb_refl, H1. cbn [andb]. destruct (mem_str id (lastn n rec)); exact H2.
  - rewrite (seen_badlen _ _ E). apply Nat.eqb_neq in E. rewrite E. exact H.
Qed.

Lemma gexec_inv : forall c n evs st rec,
  0 < n -> ring_inv n (c_ring st) rec ->
  ring_inv n (c_ring (fst (gexec c st rec evs))) (snd (gexec c st rec evs)).
Proof.
  intros c n evs. induction evs as [|e r IH]; intros st rec Hn H; [exact H|].
  unfold gexec. cbn [fold_left]. destruct (gstep c (st, rec) e) as [st' rec'] eqn:E.
  apply (IH st' rec' Hn). pose proof (gstep_inv c n (st, rec) e Hn H) as H'. rewrite E in H'. exact H'.
Qed.

(* RING INVARIANT over all event sequences from the initial state *)
Theorem ring_invariant : forall c evs,
  (0 < cc_ring c)%N ->
  ring_inv (N.to_nat (cc_ring c)) (c_ring (client_exec c (cinit c) evs)) (recorded c evs).
Proof.
  intros c evs H. unfold recorded. rewrite <- (gexec_state c evs (cinit c) []).
  apply gexec_inv; [lia|]. apply ring_inv_new. lia.
Qed.

(* REPLAY WINDOW, exact: a received message that passes checks 1-6 is suppressed by the dedup ring
   IF AND ONLY IF its id is among the last [DedupSize] recorded ids. *)
Theorem replay_window : forall c evs now m,
  (0 < cc_ring c)%N ->
  let st := client_exec c (cinit c) evs in
  passes_1_6 c st now m ->
  (snd (receive c st now m) = VDup <-> In (m_id m) (lastn (N.to_nat (cc_ring c)) (recorded c evs))).
Proof.
  intros c evs now m Hc st HP.
  pose proof (ring_invariant c evs Hc) as HI. fold st in HI.
  pose proof HP as (Hid & _). apply passes_b_iff in HP.
  rewrite (receive_passes _ _ _ _ HP). cbn [snd].
  assert (Hn : 0 < N.to_nat (cc_ring c)) by lia.
  destruct (seen_step _ _ _ (m_id m) Hn HI Hid) as [H1 _].
  rewrite H1, <- mem_str_In.
  destruct (mem_str (m_id m) (lastn (N.to_nat (cc_ring c)) (recorded c evs))).
  - split; reflexivity.
  - split; [|discriminate]. destruct (negb (is_nil (m_key m))); discriminate.
Qed.

(* the same from an arbitrary state whose ring satisfies the invariant for some recorded list *)
Theorem replay_window_any_state : forall c n st rec now m,
  0 < n -> ring_inv n (c_ring st) rec -> passes_1_6 c st now m ->
  (snd (receive c st now m) = VDup <-> In (m_id m) (lastn n rec)).
Proof.
  intros c n st rec now m Hn HI HP.
  pose proof HP as (Hid & _). apply passes_b_iff in HP.
  rewrite (receive_passes _ _ _ _ HP). cbn [snd].
  destruct (seen_step _ _ _ (m_id m) Hn HI Hid) as [H1 _].
  rewrite H1, <- mem_str_In.
  destruct (mem_str (m_id m) (lastn n rec)).
  - split; reflexivity.
  - split; [|discriminate]. destruct (negb (is_nil (m_key m))); discriminate.
Qed.

(* POSITIVE BOUND: a message that reaches a handler is not among the last [DedupSize] recorded ids, and if
   it carries a timestamp (ts <> 0) it is inside the skew window at the time of arrival.  Hence a replay of
   a message with ts <> 0 is suppressed while its id is in the ring AND for ever once |now - ts| > skew. *)
Theorem replay_bound : forall c evs now m,
  (0 < cc_ring c)%N ->
  let st := client_exec c (cinit c) evs in
  delivered (snd (cstep c st (CRecv now m))) ->
  ~ In (m_id m) (lastn (N.to_nat (cc_ring c)) (recorded c evs))
  /\ (m_ts m <> 0%Z -> (- cc_skew c <= now - m_ts m <= cc_skew c)%Z).
Proof.
  intros c evs now m Hc st HD.
  destruct (cstep_recv_delivered c st now m HD) as (HP & HS & _).
  pose proof HP as HP'. apply passes_b_iff in HP'.
  split.
  - intro F. apply (replay_window c evs now m Hc HP') in F. fold st in F.
    rewrite (receive_passes _ _ _ _ HP) in F. cbn [snd] in F. rewrite HS in F.
    destruct (negb (is_nil (m_key m))); discriminate.
  - intros Hts. destruct HP' as (_ & _ & _ & _ & k & _ & _ & _ & Hst & _).
    unfold is_stale in Hst. destruct (Z.eqb (m_ts m) 0) eqn:E0; [apply Z.eqb_eq in E0; contradiction|].
    apply orb_false_iff in Hst. destruct Hst as [A B]. apply Z.ltb_ge in A, B. lia.
Qed.

(* OBSERVATION (F18): the timestamp does not bound the replay window for ts = 0 ("never stale").  A validly
   signed message with ts = 0 is delivered AGAIN once [DedupSize] other ids were recorded after it. *)
Definition f18_cfg : ccfg := mkCC 2 60000 100 65536 0 [[110%N]; [111%N]].
Definition f18_msg (idb : N) : msg :=
  let id := repeat idb 16 in
  mkMsg [115%N] [97%N; 47%N; 98%N] id [] 0 [1%N] (Some 1%N)
        (SigOf 1 (sign_data_of [115%N] [97%N; 47%N; 98%N] id [] 0 [1%N])).
Definition f18_run : list cev :=
  [CSetMember [115%N] 1 true; CSub [115%N] [97%N; 47%N; 62%N];
   CRecv 1000 (f18_msg 7); CRecv 2000 (f18_msg 7);
   CRecv 3000 (f18_msg 8); CRecv 4000 (f18_msg 9); CRecv 999000000 (f18_msg 7)].

Example replay_ts0_redelivered :
  client_run f18_cfg (cinit f18_cfg) f18_run =
    [ONoneC; OSubR true;
     ORecv None [[97%N; 47%N; 62%N]];      (* first delivery *)
     ORecv None [];                         (* immediate replay: suppressed by the ring *)
     ORecv None [[97%N; 47%N; 62%N]]; ORecv None [[97%N; 47%N; 62%N]];   (* two other messages *)
     ORecv None [[97%N; 47%N; 62%N]]]      (* the same signed message, 11 days later: delivered again *)
  /\ spec_C17_client f18_cfg f18_run (client_run f18_cfg (cinit f18_cfg) f18_run) = true.
Proof. vm_compute. split; reflexivity. Qed.
