(* Check-then-act gaps of app/ocache (property C16).

   TryRemove and GC test `e.isActive()` under c.mu, release c.mu and only then claim the entry with
   `e.setClosing(ctx, false)`; Remove / RemoveSame / Close look the entry up under c.mu, release c.mu and then
   claim it with `e.setClosing(ctx, true)`.  Between the check and the claim ANY number of steps of other
   goroutines may run - in particular a complete removal of the same entry (setClosing, value.Close(),
   closeAndDelete), a busy TryClose that puts the entry back to active, a re-use of the id by a fresh entry.
   In the model the check is the step out of [TrLook] / [GcNext] / [RmLook] / [RsLook] / [ClNext] and the claim
   is the step out of [TrSetClosing] / [RmSetClosing]; the theorems below say what the claim does in EVERY
   reachable state in which a goroutine sits in the gap, i.e. whatever was scheduled in between. *)
From Coq Require Import List NArith Bool Lia.
Import ListNotations.
From AnySync Require Import Model.OCache Proofs.OCacheProofs.
Open Scope N_scope.

(* a goroutine in the gap of the try-close path: the entry it holds still exists, has finished loading and
   carries an instance; the claim takes it only if it is (still, or again) active, and otherwise backs off
   without touching the entry, the map or the instance and without any harness-visible event *)
Theorem tryclose_gap_claim : forall ls s t r k,
  run fixed init ls = Some s -> threads s t = TrSetClosing r k ->
  exists e n, heap s r = Some e /\ e_value e = Some n /\ e_loaddone e = true /\ e_failed e = false /\
    ((e_state e = SActive /\
      step_core fixed s t AStep =
        Some (set_pc (set_entry s r (set_closing e)) t (TrInTry r n k), Some (ETryEntry t n))) \/
     ((e_state e = SClosing \/ e_state e = SClosed) /\
      step_core fixed s t AStep = Some (set_pc s t (tk_done k (ROk false)), None))).
Proof.
  intros ls s t r k H Hpc. pose proof (reachable_inv _ _ H) as I.
  destruct (i_loaded _ I t r) as [e [Hr Hok]]; [rewrite Hpc; left; reflexivity|].
  destruct (loaded_facts s t r e I Hr) as [[Hd Hf] [Hns [Hv _]]]; [rewrite Hpc; left; reflexivity|].
  destruct (e_value e) as [n|] eqn:Ev; [|congruence].
  exists e, n. repeat split; auto.
  unfold step_core. rewrite Hpc, Hr, Ev.
  destruct (e_state e) eqn:Es; [congruence | left | right | right]; split; auto.
Qed.

(* the same for the gap of removeCtx (Remove, RemoveSame, cache Close): an entry that another closer has
   finished with is left alone (the call reports ok = false), one that another closer holds is waited for,
   and only an active one is taken *)
Theorem remove_gap_claim : forall ls s t r k,
  run fixed init ls = Some s -> threads s t = RmSetClosing r k ->
  exists e n, heap s r = Some e /\ e_value e = Some n /\ e_loaddone e = true /\ e_failed e = false /\
    ((e_state e = SActive /\
      step_core fixed s t AStep =
        Some (set_pc (set_entry s r (set_closing e)) t (RmInClose r n k), Some (ECloseEntry t n))) \/
     (e_state e = SClosing /\
      step_core fixed s t AStep = Some (set_pc s t (RmBlock r (e_epoch e) k), None)) \/
     (e_state e = SClosed /\
      step_core fixed s t AStep = Some (set_pc s t (rk_done k (ROk false)), None))).
Proof.
  intros ls s t r k H Hpc. pose proof (reachable_inv _ _ H) as I.
  destruct (i_loaded _ I t r) as [e [Hr Hok]]; [rewrite Hpc; left; reflexivity|].
  destruct (loaded_facts s t r e I Hr) as [[Hd Hf] [Hns [Hv _]]]; [rewrite Hpc; left; reflexivity|].
  destruct (e_value e) as [n|] eqn:Ev; [|congruence].
  exists e, n. repeat split; auto.
  unfold step_core. rewrite Hpc, Hr, Ev.
  destruct (e_state e) eqn:Es; [congruence | left | right; left | right; right]; split; auto.
Qed.

(* In particular: a complete removal that fits into the gap makes the late claim a no-op.  If the entry a
   goroutine is about to claim is closed (closeAndDelete of another closer has run), the claim changes
   neither heap nor map nor trace. *)
Corollary claim_after_completed_removal : forall ls s t r k e s' ev,
  run fixed init ls = Some s -> threads s t = TrSetClosing r k ->
  heap s r = Some e -> e_state e = SClosed ->
  step_core fixed s t AStep = Some (s', ev) ->
  ev = None /\ heap s' = heap s /\ data s' = data s /\ threads s' t = tk_done k (ROk false).
Proof.
  intros ls s t r k e s' ev H Hpc Hr Hst Hs.
  destruct (tryclose_gap_claim _ _ _ _ _ H Hpc) as [e0 [n [Hr0 [_ [_ [_ [[A _]|[_ B]]]]]]]];
    rewrite Hr in Hr0; inversion Hr0; subst e0.
  - congruence.
  - rewrite B in Hs. inversion Hs; subst. repeat split; auto. simpl. unfold upd. rewrite N.eqb_refl. reflexivity.
Qed.
