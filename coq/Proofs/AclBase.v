(* Basic lemmas about the finite maps and observers of Model/Acl.v (stdlib style). *)
From Coq Require Import List NArith Bool Lia.
Import ListNotations.
From AnySync Require Import Model.Acl.
Open Scope N_scope.

Section Maps.
  Context {V : Type}.
  Implicit Types (m : list (N * V)) (k : N) (x : V).

  Lemma mget_mset_eq : forall m k x, mget k (mset k x m) = Some x.
  Proof.
    induction m as [|[k' x'] r IH]; intros k x; cbn [mset mget].
    - now rewrite N.eqb_refl.
    - destruct (N.eqb_spec k k') as [->|Hne]; cbn [mget].
      + now rewrite N.eqb_refl.
      + destruct (k <? k'); cbn [mget].
        * now rewrite N.eqb_refl.
        * destruct (N.eqb_spec k k'); [contradiction|apply IH].
  Qed.

  Lemma mget_mset_neq : forall m k k' x, k' <> k -> mget k' (mset k x m) = mget k' m.
  Proof.
    induction m as [|[k0 x0] r IH]; intros k k' x Hne; cbn [mset mget].
    - destruct (N.eqb_spec k' k); [contradiction|reflexivity].
    - destruct (N.eqb_spec k k0) as [->|Hk]; cbn [mget].
      + destruct (N.eqb_spec k' k0); [contradiction|reflexivity].
      + destruct (k <? k0); cbn [mget].
        * destruct (N.eqb_spec k' k); [contradiction|reflexivity].
        * destruct (N.eqb_spec k' k0); [reflexivity|now apply IH].
  Qed.

  Lemma mget_mset : forall m k k' x, mget k' (mset k x m) = if k' =? k then Some x else mget k' m.
  Proof.
    intros m k k' x. destruct (N.eqb_spec k' k) as [->|Hne].
    - apply mget_mset_eq.
    - now apply mget_mset_neq.
  Qed.

  Lemma mget_mdel_eq : forall m k, mget k (mdel k m) = None.
  Proof.
    induction m as [|[k' x'] r IH]; intros k; cbn [mdel mget]; [reflexivity|].
    destruct (N.eqb_spec k k') as [->|Hne]; [apply IH|].
    cbn [mget]. destruct (N.eqb_spec k k'); [contradiction|apply IH].
  Qed.

  Lemma mget_mdel_neq : forall m k k', k' <> k -> mget k' (mdel k m) = mget k' m.
  Proof.
    induction m as [|[k0 x0] r IH]; intros k k' Hne; cbn [mdel mget]; [reflexivity|].
    destruct (N.eqb_spec k k0) as [->|Hk].
    - destruct (N.eqb_spec k' k0); [contradiction|now apply IH].
    - cbn [mget]. destruct (N.eqb_spec k' k0); [reflexivity|now apply IH].
  Qed.

  Lemma mget_mdel : forall m k k', mget k' (mdel k m) = if k' =? k then None else mget k' m.
  Proof.
    intros m k k'. destruct (N.eqb_spec k' k) as [->|Hne].
    - apply mget_mdel_eq.
    - now apply mget_mdel_neq.
  Qed.

  Lemma mget_Some_In : forall m k x, mget k m = Some x -> In (k, x) m.
  Proof.
    induction m as [|[k' x'] r IH]; intros k x H; cbn [mget] in H; [discriminate|].
    destruct (N.eqb_spec k k') as [->|Hne].
    - injection H as ->. now left.
    - right. now apply IH.
  Qed.

  Lemma mget_Some_key : forall m k x, mget k m = Some x -> In k (mkeys m).
  Proof.
    intros m k x H. apply mget_Some_In in H. unfold mkeys. now apply (in_map fst) in H.
  Qed.

  Lemma In_mset : forall m k x e, In e (mset k x m) -> e = (k, x) \/ In e m.
  Proof.
    induction m as [|[k' x'] r IH]; intros k x e H; cbn [mset] in H.
    - destruct H as [<-|[]]. now left.
    - destruct (k =? k').
      + destruct H as [<-|H]; [now left|right; now right].
      + destruct (k <? k').
        * destruct H as [<-|H]; [now left|now right].
        * destruct H as [<-|H]; [right; now left|].
          apply IH in H. destruct H as [->|H]; [now left|right; now right].
  Qed.

  Lemma In_mdel : forall m k e, In e (mdel k m) -> In e m.
  Proof.
    induction m as [|[k' x'] r IH]; intros k e H; cbn [mdel] in H; [contradiction|].
    destruct (k =? k').
    - right. now apply IH in H.
    - destruct H as [<-|H]; [now left|right; now apply IH in H].
  Qed.

  Lemma forallb_mset : forall (P : N * V -> bool) m k x,
    forallb P m = true -> P (k, x) = true -> forallb P (mset k x m) = true.
  Proof.
    intros P m k x Hm Hx. apply forallb_forall. intros e He.
    apply In_mset in He. destruct He as [->|He]; [assumption|].
    rewrite forallb_forall in Hm. now apply Hm.
  Qed.

  Lemma forallb_mdel : forall (P : N * V -> bool) m k,
    forallb P m = true -> forallb P (mdel k m) = true.
  Proof.
    intros P m k Hm. apply forallb_forall. intros e He.
    apply In_mdel in He. rewrite forallb_forall in Hm. now apply Hm.
  Qed.
End Maps.

Lemma memN_In : forall x l, memN x l = true <-> In x l.
Proof.
  intros x l. unfold memN. rewrite existsb_exists. split.
  - intros [y [Hy He]]. apply N.eqb_eq in He. now subst.
  - intros H. exists x. split; [assumption|apply N.eqb_refl].
Qed.

Lemma memN_false : forall x l, memN x l = false <-> ~ In x l.
Proof.
  intros x l. rewrite <- memN_In. destruct (memN x l); split; intro H; try congruence; try reflexivity.
Qed.

Lemma list_N_eqb_eq : forall a b, list_N_eqb a b = true <-> a = b.
Proof.
  induction a as [|x a IH]; destruct b as [|y b]; cbn [list_N_eqb]; split; intros H; try reflexivity; try discriminate.
  - apply andb_true_iff in H. destruct H as [H1 H2]. apply N.eqb_eq in H1. apply IH in H2. now subst.
  - injection H as -> ->. rewrite N.eqb_refl. now apply IH.
Qed.

Lemma status_eqb_eq : forall a b, status_eqb a b = true <-> a = b.
Proof. intros [] []; cbn; split; intros; try reflexivity; try discriminate. Qed.

Lemma status_eqb_refl : forall a, status_eqb a a = true.
Proof. intros []; reflexivity. Qed.

Lemma rtype_eqb_refl : forall a, rtype_eqb a a = true.
Proof. intros []; reflexivity. Qed.

Lemma invite_eqb_refl : forall i, invite_eqb i i = true.
Proof. intros i. unfold invite_eqb. now rewrite !N.eqb_refl. Qed.

Lemma request_eqb_refl : forall q, request_eqb q q = true.
Proof. intros q. unfold request_eqb. now rewrite !N.eqb_refl, rtype_eqb_refl. Qed.

Lemma opt_eqb_refl : forall {A} (f : A -> A -> bool) (o : option A),
  (forall x, f x x = true) -> opt_eqb f o o = true.
Proof. intros A f [x|] H; cbn; auto. Qed.

Lemma list_eqb_refl : forall {A} (f : A -> A -> bool) (l : list A),
  (forall x, f x x = true) -> list_eqb f l l = true.
Proof. intros A f l H. induction l as [|x l IH]; cbn; [reflexivity|]. now rewrite H, IH. Qed.

Lemma list_N_eqb_refl : forall l, list_N_eqb l l = true.
Proof. intros l. now apply list_N_eqb_eq. Qed.

(* perm_of / status_of through account updates *)
Lemma acc_of_set_acc : forall s a x b, acc_of (set_acc s a x) b = if b =? a then x else acc_of s b.
Proof.
  intros s a x b. unfold acc_of, set_acc. cbn [accounts]. rewrite mget_mset.
  now destruct (b =? a).
Qed.

Lemma perm_of_set_acc : forall s a x b, perm_of (set_acc s a x) b = if b =? a then a_perm x else perm_of s b.
Proof. intros. unfold perm_of. rewrite acc_of_set_acc. now destruct (b =? a). Qed.

Lemma status_of_set_acc : forall s a x b, status_of (set_acc s a x) b = if b =? a then a_status x else status_of s b.
Proof. intros. unfold status_of. rewrite acc_of_set_acc. now destruct (b =? a). Qed.

Lemma perm_of_update_perm : forall s a p r b, perm_of (update_perm s a p r) b = if b =? a then p else perm_of s b.
Proof. intros. unfold update_perm. now rewrite perm_of_set_acc. Qed.

Lemma status_of_update_perm : forall s a p r b, status_of (update_perm s a p r) b = status_of s b.
Proof.
  intros. unfold update_perm. rewrite status_of_set_acc. cbn [a_status].
  destruct (N.eqb_spec b a) as [->|]; reflexivity.
Qed.

Lemma perm_of_nonzero_dom : forall s a, perm_of s a <> 0 -> In a (dom s).
Proof.
  intros s a H. unfold perm_of, acc_of in H. unfold dom.
  destruct (mget a (accounts s)) as [x|] eqn:E.
  - now apply mget_Some_key in E.
  - cbn in H. contradiction.
Qed.

(* exactly one owner, as a proposition on [perm_of] *)
Definition one_owner (s : state) : Prop :=
  exists o, perm_of s o = pOwner /\ forall a, perm_of s a = pOwner -> a = o.

Lemma one_owner_b_iff : forall s, one_owner_b s = true <-> one_owner s.
Proof.
  intros s. unfold one_owner_b, one_owner, is_owner. rewrite existsb_exists. split.
  - intros [o [_ H]]. apply andb_true_iff in H. destruct H as [Ho Hall].
    apply N.eqb_eq in Ho. exists o. split; [assumption|].
    intros a Ha. rewrite forallb_forall in Hall.
    assert (Hin : In a (dom s)) by (apply perm_of_nonzero_dom; rewrite Ha; discriminate).
    specialize (Hall a Hin). rewrite Ha in Hall. cbn in Hall. now apply N.eqb_eq in Hall.
  - intros [o [Ho Hall]]. exists o. split.
    + apply perm_of_nonzero_dom. rewrite Ho. discriminate.
    + rewrite Ho. cbn. apply forallb_forall. intros a _.
      destruct (N.eqb_spec (perm_of s a) pOwner) as [E|E]; cbn; [|reflexivity].
      apply N.eqb_eq. now apply Hall.
Qed.

Definition invites_ok (s : state) : Prop := forall r i, In (r, i) (invites s) -> invite_ok i = true.

Lemma invites_ok_b_iff : forall s, invites_ok_b s = true <-> invites_ok s.
Proof.
  intros s. unfold invites_ok_b, invites_ok. rewrite forallb_forall. split.
  - intros H r i Hin. now apply (H (r, i)).
  - intros H [r i] Hin. now apply (H r i).
Qed.

Definition Inv (s : state) : Prop := one_owner s /\ invites_ok s.

Lemma inv_b_iff : forall s, inv_b s = true <-> Inv s.
Proof.
  intros s. unfold inv_b, Inv. rewrite andb_true_iff, one_owner_b_iff, invites_ok_b_iff. reflexivity.
Qed.
