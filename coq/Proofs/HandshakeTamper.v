(* Tampered frames: a man-in-the-middle edit of one of the four frames that is hostile to the framing (oversized,
   truncated, out of order, undecodable, nothing at all, a non-Null acknowledgement where Ack{Null} belongs) never ends in
   success -- on the receiver of the bad frame AND on the other side (frames 1..3); the last frame (4) can only fail its
   receiver, the responder's verdict is that of the untampered handshake.  The model meets spec_C14 = core + tamper_ok. *)
From Coq Require Import List NArith Bool Lia.
Import ListNotations.
From AnySync Require Import Model.Handshake Proofs.HandshakeProofs Proofs.HandshakeRun.
Open Scope N_scope.

(* ---------------------------------------------------------------- reading honest frames *)
Lemma read_cred_1 : forall c, read_msg [T_Cred] (Some (item_of (BCred c))) = inl (BCred c).
Proof. reflexivity. Qed.
Lemma read_cred_2 : forall c, read_msg [T_Ack; T_Cred] (Some (item_of (BCred c))) = inl (BCred c).
Proof. reflexivity. Qed.
Lemma read_ack_2 : forall e, read_msg [T_Ack; T_Cred] (Some (item_of (BAck e))) = inl (BAck e).
Proof. reflexivity. Qed.
Lemma read_ack_1 : forall e, read_msg [T_Ack] (Some (item_of (BAck e))) = inl (BAck e).
Proof. reflexivity. Qed.
Lemma read_ack_0 : forall e, read_msg [T_Cred] (Some (item_of (BAck e))) = inr XUnexpectedPayload.
Proof. reflexivity. Qed.
Lemma read_none : forall al, read_msg al None = inr XOther.
Proof. reflexivity. Qed.

(* ---------------------------------------------------------------- reading the first frame of a bad edit *)
Definition hd_items (a : act) : option witem := match a with APass => None | AReplace items _ => hd_error items end.

(* at a position where credentials belong (reader allows [al] containing T_Cred and possibly T_Ack) *)
Lemma bad_read_cred : forall k al items cut, N.leb k 2 = true -> (al = [T_Cred] \/ al = [T_Ack; T_Cred]) ->
  bad_edit k (AReplace items cut) = true ->
  (exists x, read_msg al (hd_error items) = inr x) \/ (exists e, read_msg al (hd_error items) = inl (BAck e)).
Proof.
  intros k al items cut Hk Hal Hb. destruct items as [|it rest]; [left; exists XOther; reflexivity|].
  cbn [bad_edit] in Hb. apply negb_true_iff in Hb. cbn [hd_error].
  destruct (read_msg al (Some it)) as [b|x] eqn:R; [|left; exists x; reflexivity].
  apply read_msg_inv in R. destruct R as [it' [Hit [Hm [Hs [Ha [Hbody Ht]]]]]]. injection Hit as Hit. subst it'.
  destruct b as [c0|e| |].
  - exfalso. unfold expected_at, frame_complete in Hb. rewrite Hk, Hs, Ha, Hbody in Hb. cbn in Ht. rewrite <- Ht in Hb.
    cbn in Hb. discriminate.
  - right. exists e. reflexivity.
  - exfalso. cbn in Ht. rewrite <- Ht in Hm. destruct Hal as [Hal|Hal]; subst al; cbn in Hm; discriminate.
  - exfalso. cbn in Ht. rewrite <- Ht in Hm. destruct Hal as [Hal|Hal]; subst al; cbn in Hm; discriminate.
Qed.

(* at a position where Ack{Null} belongs *)
Lemma bad_read_ack : forall k items cut, N.leb k 2 = false ->
  bad_edit k (AReplace items cut) = true ->
  (exists x, read_msg [T_Ack] (hd_error items) = inr x) \/
  (exists e, read_msg [T_Ack] (hd_error items) = inl (BAck e) /\ N.eqb e E_Null = false).
Proof.
  intros k items cut Hk Hb. destruct items as [|it rest]; [left; exists XOther; reflexivity|].
  cbn [bad_edit] in Hb. apply negb_true_iff in Hb. cbn [hd_error].
  destruct (read_msg [T_Ack] (Some it)) as [b|x] eqn:R; [|left; exists x; reflexivity].
  apply read_msg_inv in R. destruct R as [it' [Hit [Hm [Hs [Ha [Hbody Ht]]]]]]. injection Hit as Hit. subst it'.
  destruct b as [c0|e| |].
  - exfalso. cbn in Ht. rewrite <- Ht in Hm. cbn in Hm. discriminate.
  - right. exists e. split; [reflexivity|].
    unfold expected_at, frame_complete in Hb. rewrite Hk, Hs, Ha, Hbody in Hb. cbn in Ht. rewrite <- Ht in Hb.
    cbn in Hb. exact Hb.
  - exfalso. cbn in Ht. rewrite <- Ht in Hm. cbn in Hm. discriminate.
  - exfalso. cbn in Ht. rewrite <- Ht in Hm. cbn in Hm. discriminate.
Qed.

(* ---------------------------------------------------------------- structural facts: a bad frame 3 / 4 fails its receiver, whatever else was edited *)
Lemma apply_cancel_none : forall c k fl w, k_cancel c = None -> apply_cancel c k fl w = w.
Proof. intros c k fl w H. unfold apply_cancel. rewrite H. destruct fl; reflexivity. Qed.

Lemma phase_out_qi : forall fx c k a w fl, q_i (fst (phase_out fx c k a w fl)) = q_i (apply_cancel c k fl w).
Proof.
  intros fx c k a w fl. unfold phase_out.
  destruct (arrive a fl (q_o (apply_cancel c k fl w)) (w_dead (apply_cancel c k fl w))) as [q dead].
  destruct (w_o (apply_cancel c k fl w)) as [|r|o] eqn:Hst; try reflexivity.
  - destruct (out_step fx (k_out c) (w_po (apply_cancel c k fl w)) OW2 (hd_error q)) as [[st rep] p'].
    destruct rep as [[b [|]]|]; try reflexivity.
    destruct ((dead || closed_i (w_i (apply_cancel c k fl w))) && k_wfail c); reflexivity.
  - destruct (out_step fx (k_out c) (w_po (apply_cancel c k fl w)) (OW4 r) (hd_error q)) as [[st rep] p'].
    destruct rep as [[b [|]]|]; try reflexivity.
    destruct ((dead || closed_i (w_i (apply_cancel c k fl w))) && k_wfail c); reflexivity.
Qed.

Lemma phase_in_qo : forall fx c k a w fl, q_o (fst (phase_in fx c k a w fl)) = q_o (apply_cancel c k fl w).
Proof.
  intros fx c k a w fl. unfold phase_in.
  destruct (arrive a fl (q_i (apply_cancel c k fl w)) (w_dead (apply_cancel c k fl w))) as [q dead].
  destruct (w_i (apply_cancel c k fl w)) as [|r|o] eqn:Hst; try reflexivity.
  - destruct (in_step fx (k_in c) (w_pi (apply_cancel c k fl w)) IW1 (hd_error q)) as [[st rep] p'].
    destruct rep as [[b [|]]|]; try reflexivity.
    destruct ((dead || closed_o (w_o (apply_cancel c k fl w))) && k_wfail c); reflexivity.
  - destruct (in_step fx (k_in c) (w_pi (apply_cancel c k fl w)) (IW3 r) (hd_error q)) as [[st rep] p'].
    destruct rep as [[b [|]]|]; try reflexivity.
    destruct ((dead || closed_o (w_o (apply_cancel c k fl w))) && k_wfail c); reflexivity.
Qed.

(* what the reader finds at the head of an empty queue after a bad edit (or after nothing was sent at all) *)
Lemma bad_arrival : forall k a fl dead q d', N.leb k 2 = false -> bad_edit k a = true ->
  arrive a fl [] dead = (q, d') ->
  (exists x, read_msg [T_Ack] (hd_error q) = inr x) \/
  (exists e, read_msg [T_Ack] (hd_error q) = inl (BAck e) /\ N.eqb e E_Null = false).
Proof.
  intros k a fl dead q d' Hk Hb D. destruct a as [|items cut]; [discriminate|].
  unfold arrive, deliver in D.
  destruct fl as [b|]; [destruct dead|]; injection D as D1 D2; subst q; cbn [app hd_error];
    try (left; exists XOther; reflexivity).
  eapply bad_read_ack; eassumption.
Qed.

Lemma in_step_IW3_bad : forall fx s p r d st rep p',
  (exists x, read_msg [T_Ack] d = inr x) \/ (exists e, read_msg [T_Ack] d = inl (BAck e) /\ N.eqb e E_Null = false) ->
  in_step fx s p (IW3 r) d = (st, rep, p') -> exists e, st = ID (Err e).
Proof.
  intros fx s p r d st rep p' Hb. cbn [in_step]. destruct Hb as [[x Hx]|[e [He Hnz]]].
  - rewrite Hx. intro H. injection H as H1 H2 H3. subst st. eexists. reflexivity.
  - rewrite He, Hnz. intro H. injection H as H1 H2 H3. subst st. eexists. reflexivity.
Qed.

Lemma out_step_OW4_bad : forall fx s p r d st rep p',
  (exists x, read_msg [T_Ack] d = inr x) \/ (exists e, read_msg [T_Ack] d = inl (BAck e) /\ N.eqb e E_Null = false) ->
  out_step fx s p (OW4 r) d = (st, rep, p') -> exists e, st = OD (Err e).
Proof.
  intros fx s p r d st rep p' Hb. cbn [out_step]. destruct Hb as [[x Hx]|[e [He Hnz]]].
  - rewrite Hx. intro H. injection H as H1 H2 H3. subst st. eexists. reflexivity.
  - rewrite He, Hnz. intro H. injection H as H1 H2 H3. subst st. eexists. reflexivity.
Qed.

Lemma phase_in3_bad : forall c a w fl, k_cancel c = None -> q_i w = [] -> bad_edit 3 a = true ->
  (exists e, w_i w = ID (Err e)) \/ (exists r, w_i w = IW3 r) ->
  exists e, w_i (fst (phase_in true c 3 a w fl)) = ID (Err e).
Proof.
  intros c a w fl Hc Hq Hb Hst. unfold phase_in. rewrite (apply_cancel_none c 3 fl w Hc). rewrite Hq.
  destruct (arrive a fl [] (w_dead w)) as [q dead] eqn:D.
  destruct Hst as [[e He]|[r Hr]].
  - rewrite He. cbn. exists e. reflexivity.
  - rewrite Hr.
    destruct (in_step true (k_in c) (w_pi w) (IW3 r) (hd_error q)) as [[st rep] p'] eqn:E.
    eapply in_step_IW3_bad in E; [|eapply (bad_arrival 3); [reflexivity | exact Hb | exact D]].
    destruct E as [e E]. subst st.
    destruct rep as [[b [|]]|]; cbn; try (eexists; reflexivity).
    destruct ((dead || closed_o (w_o w)) && k_wfail c); cbn; eexists; reflexivity.
Qed.

Lemma phase_out4_bad : forall c a w fl, k_cancel c = None -> q_o w = [] -> bad_edit 4 a = true ->
  (exists e, w_o w = OD (Err e)) \/ (exists r, w_o w = OW4 r) ->
  exists e, w_o (fst (phase_out true c 4 a w fl)) = OD (Err e).
Proof.
  intros c a w fl Hc Hq Hb Hst. unfold phase_out. rewrite (apply_cancel_none c 4 fl w Hc). rewrite Hq.
  destruct (arrive a fl [] (w_dead w)) as [q dead] eqn:D.
  destruct Hst as [[e He]|[r Hr]].
  - rewrite He. cbn. exists e. reflexivity.
  - rewrite Hr.
    destruct (out_step true (k_out c) (w_po w) (OW4 r) (hd_error q)) as [[st rep] p'] eqn:E.
    eapply out_step_OW4_bad in E; [|eapply (bad_arrival 4); [reflexivity | exact Hb | exact D]].
    destruct E as [e E]. subst st.
    destruct rep as [[b [|]]|]; cbn; try (eexists; reflexivity).
    destruct ((dead || closed_i (w_i w)) && k_wfail c); cbn; eexists; reflexivity.
Qed.

(* after the untouched first frame the responder has failed or waits for frame 3 with an empty queue *)
Lemma phase1_pass : forall c w1 f2, k_cancel c = None -> k_a1 c = APass ->
  phase_in true c 1 (k_a1 c) (mkWorld OW2 IW1 [] [] false (k_pool_out c) (k_pool_in c))
           (Some (BCred (mk_cred (k_out c)))) = (w1, f2) ->
  q_i w1 = [] /\ ((exists e, w_i w1 = ID (Err e)) \/ (exists r, w_i w1 = IW3 r)).
Proof.
  intros c w1 f2 Hc Ha. rewrite Ha. unfold phase_in. rewrite apply_cancel_none by exact Hc.
  cbn [arrive deliver q_i w_dead w_i w_o w_pi app hd_error tl q_o w_po].
  destruct (in_step true (k_in c) (k_pool_in c) IW1 (Some (item_of (BCred (mk_cred (k_out c)))))) as [[st rep] p'] eqn:E.
  apply in_step_IW1 in E. destruct E as [_ Hst].
  assert (Hs : (exists e, st = ID (Err e)) \/ (exists r, st = IW3 r)).
  { destruct Hst as [[e He]|[r [it [Hs _]]]]; [left; exists e; exact He | right; exists r; exact Hs]. }
  destruct rep as [[b [|]]|].
  - destruct ((false || closed_o OW2) && k_wfail c); intro H; injection H as H1 H2; subst w1; cbn;
      (split; [reflexivity|]); [left; eexists; reflexivity | exact Hs].
  - intro H; injection H as H1 H2; subst w1; cbn. split; [reflexivity | exact Hs].
  - intro H; injection H as H1 H2; subst w1; cbn. split; [reflexivity | exact Hs].
Qed.

(* after the untouched second frame the initiator has failed or waits for frame 4 with an empty queue *)
Lemma phase2_pass : forall c w1 f2 w2 f3, k_cancel c = None -> k_a2 c = APass ->
  q_o w1 = [] -> w_o w1 = OW2 ->
  phase_out true c 2 (k_a2 c) w1 f2 = (w2, f3) ->
  q_o w2 = [] /\ ((exists e, w_o w2 = OD (Err e)) \/ (exists r, w_o w2 = OW4 r)).
Proof.
  intros c w1 f2 w2 f3 Hc Ha Hq Hwo. rewrite Ha. unfold phase_out. rewrite apply_cancel_none by exact Hc. rewrite Hq.
  destruct (arrive APass f2 [] (w_dead w1)) as [q dead] eqn:D.
  assert (Htl : tl q = []).
  { unfold arrive, deliver in D. destruct f2 as [b|]; [destruct (w_dead w1)|]; injection D as D1 D2; subst q; reflexivity. }
  rewrite Hwo.
  destruct (out_step true (k_out c) (w_po w1) OW2 (hd_error q)) as [[st rep] p'] eqn:E.
  apply out_step_OW2 in E. destruct E as [_ Hst].
  assert (Hs : (exists e, st = OD (Err e)) \/ (exists r, st = OW4 r)).
  { destruct Hst as [[e He]|[r [it [Hs _]]]]; [left; exists e; exact He | right; exists r; exact Hs]. }
  destruct rep as [[b [|]]|].
  - destruct ((dead || closed_i (w_i w1)) && k_wfail c); intro H; injection H as H1 H2; subst w2; cbn;
      (split; [exact Htl|]); [left; eexists; reflexivity | exact Hs].
  - intro H; injection H as H1 H2; subst w2; cbn. split; [exact Htl | exact Hs].
  - intro H; injection H as H1 H2; subst w2; cbn. split; [exact Htl | exact Hs].
Qed.

Theorem bad3_in_fails : forall c, k_cancel c = None -> k_a1 c = APass -> bad_edit 3 (k_a3 c) = true ->
  is_ok (snd (hs_run true c)) = false.
Proof.
  intros c Hc Ha Hb. unfold hs_run, hs_world.
  destruct (phase_in true c 1 (k_a1 c) _ _) as [w1 f2] eqn:P1.
  destruct (phase_out true c 2 (k_a2 c) w1 f2) as [w2 f3] eqn:P2.
  destruct (phase_in true c 3 (k_a3 c) w2 f3) as [w3 f4] eqn:P3.
  destruct (phase_out true c 4 (k_a4 c) w3 f4) as [w4 f5] eqn:P4.
  cbn [snd].
  apply phase1_pass in P1; [|exact Hc|exact Ha]. destruct P1 as [Hq1 Hs1].
  assert (Hq2 : q_i w2 = []).
  { replace w2 with (fst (phase_out true c 2 (k_a2 c) w1 f2)) by (rewrite P2; reflexivity).
    rewrite phase_out_qi, apply_cancel_none by exact Hc. exact Hq1. }
  assert (Hs2 : (exists e, w_i w2 = ID (Err e)) \/ (exists r, w_i w2 = IW3 r)).
  { replace w2 with (fst (phase_out true c 2 (k_a2 c) w1 f2)) by (rewrite P2; reflexivity).
    rewrite phase_out_wi, apply_cancel_none by exact Hc. exact Hs1. }
  destruct (phase_in3_bad c (k_a3 c) w2 f3 Hc Hq2 Hb Hs2) as [e He]. rewrite P3 in He. cbn [fst] in He.
  assert (H4 : w_i w4 = ID (Err e)).
  { replace w4 with (fst (phase_out true c 4 (k_a4 c) w3 f4)) by (rewrite P4; reflexivity).
    rewrite phase_out_wi, apply_cancel_none by exact Hc. exact He. }
  rewrite H4. reflexivity.
Qed.

Theorem bad4_out_fails : forall c, k_cancel c = None -> k_a2 c = APass -> bad_edit 4 (k_a4 c) = true ->
  is_ok (fst (hs_run true c)) = false.
Proof.
  intros c Hc Ha Hb. unfold hs_run, hs_world.
  destruct (phase_in true c 1 (k_a1 c) _ _) as [w1 f2] eqn:P1.
  destruct (phase_out true c 2 (k_a2 c) w1 f2) as [w2 f3] eqn:P2.
  destruct (phase_in true c 3 (k_a3 c) w2 f3) as [w3 f4] eqn:P3.
  destruct (phase_out true c 4 (k_a4 c) w3 f4) as [w4 f5] eqn:P4.
  cbn [fst].
  assert (Hq1 : q_o w1 = []).
  { replace w1 with (fst (phase_in true c 1 (k_a1 c) (mkWorld OW2 IW1 [] [] false (k_pool_out c) (k_pool_in c))
                            (Some (BCred (mk_cred (k_out c)))))) by (rewrite P1; reflexivity).
    rewrite phase_in_qo, apply_cancel_none by exact Hc. reflexivity. }
  assert (Ho1 : w_o w1 = OW2).
  { replace w1 with (fst (phase_in true c 1 (k_a1 c) (mkWorld OW2 IW1 [] [] false (k_pool_out c) (k_pool_in c))
                            (Some (BCred (mk_cred (k_out c)))))) by (rewrite P1; reflexivity).
    rewrite phase_in_wo, apply_cancel_none by exact Hc. reflexivity. }
  apply phase2_pass in P2; [|exact Hc|exact Ha|exact Hq1|exact Ho1]. destruct P2 as [Hq2 Hs2].
  assert (Hq3 : q_o w3 = []).
  { replace w3 with (fst (phase_in true c 3 (k_a3 c) w2 f3)) by (rewrite P3; reflexivity).
    rewrite phase_in_qo, apply_cancel_none by exact Hc. exact Hq2. }
  assert (Hs3 : (exists e, w_o w3 = OD (Err e)) \/ (exists r, w_o w3 = OW4 r)).
  { replace w3 with (fst (phase_in true c 3 (k_a3 c) w2 f3)) by (rewrite P3; reflexivity).
    rewrite phase_in_wo, apply_cancel_none by exact Hc. exact Hs2. }
  destruct (phase_out4_bad c (k_a4 c) w3 f4 Hc Hq3 Hb Hs3) as [e He]. rewrite P4 in He. cbn [fst] in He.
  rewrite He. reflexivity.
Qed.

(* ---------------------------------------------------------------- exactly one frame edited: symbolic runs *)
Local Opaque check_cred mk_cred eff_ver eff_cv accepts label read_msg.

Ltac rd := repeat first [rewrite read_cred_1 | rewrite read_cred_2 | rewrite read_ack_2 | rewrite read_ack_1 | rewrite read_ack_0 | rewrite read_none].
Ltac stp := cbn; rd; cbn.
Ltac unf := unfold hs_run, hs_world, phase_in, phase_out, apply_cancel, arrive, deliver;
  cbn [k_out k_in k_a1 k_a2 k_a3 k_a4 k_cancel k_wfail k_pool_out k_pool_in].
Ltac rf e := unfold reply_for; destruct (N.eqb e E_UnexpectedPayload).

Lemma tamper3_both_fail : forall co ci items cut wf po pi,
  bad_edit 3 (AReplace items cut) = true ->
  let c := mkCase co ci APass APass (AReplace items cut) APass None wf po pi in
  is_ok (fst (hs_run true c)) = false /\ is_ok (snd (hs_run true c)) = false.
Proof.
  intros co ci items cut wf po pi Hb c. subst c.
  apply bad_read_ack in Hb; [|reflexivity].
  unf. stp.
  destruct (check_cred ci (eff_ver true pi (mk_cred co)) (eff_cv true pi (mk_cred co)) (mk_cred co)) as [r1|e1] eqn:E1.
  - stp.
    destruct (check_cred co (eff_ver true po (mk_cred ci)) (eff_cv true po (mk_cred ci)) (mk_cred ci)) as [r2|e2] eqn:E2.
    + stp. destruct Hb as [[x Hx]|[e [He Hnz]]].
      * rewrite Hx. destruct x; destruct cut; stp; split; reflexivity.
      * rewrite He. cbn. rewrite Hnz. destruct cut; stp; split; reflexivity.
    + stp. rf e2; stp.
      * split; reflexivity.
      * destruct Hb as [[x Hx]|[e [He Hnz]]].
        -- rewrite Hx. destruct x; destruct cut; stp; split; reflexivity.
        -- rewrite He. cbn. rewrite Hnz. destruct cut; stp; split; reflexivity.
  - stp. rf e1; stp; split; reflexivity.
Qed.

Lemma tamper2_both_fail : forall co ci items cut wf po pi,
  bad_edit 2 (AReplace items cut) = true ->
  let c := mkCase co ci APass (AReplace items cut) APass APass None wf po pi in
  is_ok (fst (hs_run true c)) = false /\ is_ok (snd (hs_run true c)) = false.
Proof.
  intros co ci items cut wf po pi Hb c. subst c.
  apply (bad_read_cred 2 [T_Ack; T_Cred]) in Hb; [|reflexivity|right; reflexivity].
  unf. stp.
  destruct (check_cred ci (eff_ver true pi (mk_cred co)) (eff_cv true pi (mk_cred co)) (mk_cred co)) as [r1|e1] eqn:E1.
  - stp. destruct Hb as [[x Hx]|[e He]].
    + rewrite Hx. destruct x; destruct cut; stp; split; reflexivity.
    + rewrite He. destruct cut; stp; split; reflexivity.
  - stp. rf e1; stp.
    + split; reflexivity.
    + destruct Hb as [[x Hx]|[e He]].
      * rewrite Hx. destruct x; destruct cut; stp; split; reflexivity.
      * rewrite He. destruct cut; stp; split; reflexivity.
Qed.

Lemma tamper1_both_fail : forall co ci items cut wf po pi,
  bad_edit 1 (AReplace items cut) = true ->
  let c := mkCase co ci (AReplace items cut) APass APass APass None wf po pi in
  is_ok (fst (hs_run true c)) = false /\ is_ok (snd (hs_run true c)) = false.
Proof.
  intros co ci items cut wf po pi Hb c. subst c.
  apply (bad_read_cred 1 [T_Cred]) in Hb; [|reflexivity|left; reflexivity].
  unf. stp.
  destruct Hb as [[x Hx]|[e He]].
  - rewrite Hx. destruct x; destruct cut; stp; split; reflexivity.
  - rewrite He. destruct cut; stp; split; reflexivity.
Qed.

Lemma tamper4_verdicts : forall co ci items cut wf po pi,
  let c := mkCase co ci APass APass APass (AReplace items cut) None wf po pi in
  is_ok (snd (hs_run true c)) = accepts ci co && accepts co ci /\
  (bad_edit 4 (AReplace items cut) = true -> is_ok (fst (hs_run true c)) = false).
Proof.
  intros co ci items cut wf po pi c. subst c.
  assert (C1 : exists x, check_cred ci (eff_ver true pi (mk_cred co)) (eff_cv true pi (mk_cred co)) (mk_cred co) = x /\
               (if accepts ci co then exists r, x = inl r else exists e, x = inr e)).
  { eexists. split; [reflexivity|]. destruct (accepts ci co) eqn:A;
      [eexists; apply honest_check_ok; exact A | apply honest_check_err; exact A]. }
  assert (C2 : exists x, check_cred co (eff_ver true po (mk_cred ci)) (eff_cv true po (mk_cred ci)) (mk_cred ci) = x /\
               (if accepts co ci then exists r, x = inl r else exists e, x = inr e)).
  { eexists. split; [reflexivity|]. destruct (accepts co ci) eqn:A;
      [eexists; apply honest_check_ok; exact A | apply honest_check_err; exact A]. }
  destruct C1 as [x1 [E1 A1]]. destruct C2 as [x2 [E2 A2]].
  unf. stp. rewrite E1.
  destruct (accepts ci co).
  - destruct A1 as [r1 A1]. rewrite A1. stp. rewrite E2. destruct (accepts co ci).
    + destruct A2 as [r2 A2]. rewrite A2. stp.
      destruct (read_msg [T_Ack] (hd_error items)) as [[c0|e| |]|x] eqn:R;
        [ | destruct (N.eqb e E_Null) eqn:En | | | destruct x ]; stp; (split; [reflexivity|]); intro Hb; try reflexivity.
      exfalso. change (bad_edit 4 (AReplace items cut) = true) in Hb. apply bad_read_ack in Hb; [|reflexivity]. rewrite R in Hb.
      destruct Hb as [[x Hx]|[e' [He Hnz]]]; [discriminate|]. injection He as He. subst e'. rewrite En in Hnz. discriminate.
    + destruct A2 as [e2 A2]. rewrite A2. stp.
      assert (Hnz : N.eqb e2 E_Null = false) by (rewrite A2 in E2; eapply check_cred_err_nz; exact E2).
      rf e2; stp; [|rewrite Hnz; stp]; (split; [reflexivity | intros _; reflexivity]).
  - destruct A1 as [e1 A1]. rewrite A1. stp. rf e1; stp; (split; [reflexivity | intros _; reflexivity]).
Qed.

(* ---------------------------------------------------------------- the model meets the tamper clauses *)
Theorem model_tamper_ok : forall c, k_cancel c = None ->
  tamper_ok c (fst (hs_run true c)) (snd (hs_run true c)) = true.
Proof.
  intros c Hc. unfold tamper_ok, cancel_eff. rewrite Hc.
  assert (G5 : (if is_pass (k_a1 c) && bad_edit 3 (k_a3 c) then negb (is_ok (snd (hs_run true c))) else true) = true).
  { destruct (is_pass (k_a1 c) && bad_edit 3 (k_a3 c)) eqn:Hcond; [|reflexivity].
    apply andb_true_iff in Hcond. destruct Hcond as [Hp Hb].
    rewrite bad3_in_fails; [reflexivity | exact Hc | destruct (k_a1 c); [reflexivity | discriminate] | exact Hb]. }
  assert (G6 : (if is_pass (k_a2 c) && bad_edit 4 (k_a4 c) then negb (is_ok (fst (hs_run true c))) else true) = true).
  { destruct (is_pass (k_a2 c) && bad_edit 4 (k_a4 c)) eqn:Hcond; [|reflexivity].
    apply andb_true_iff in Hcond. destruct Hcond as [Hp Hb].
    rewrite bad4_out_fails; [reflexivity | exact Hc | destruct (k_a2 c); [reflexivity | discriminate] | exact Hb]. }
  rewrite G5, G6. clear G5 G6. rewrite !andb_true_r.
  destruct c as [co ci a1 a2 a3 a4 can wf po pi]. cbn [k_cancel] in Hc. subst can.
  cbn [k_a1 k_a2 k_a3 k_a4 k_in k_out].
  destruct a1 as [|i1 c1]; destruct a2 as [|i2 c2]; destruct a3 as [|i3 c3]; destruct a4 as [|i4 c4];
    cbn [is_pass bad_edit andb negb]; rewrite ?andb_false_r; cbn [andb]; try reflexivity.
  - (* only frame 4 *)
    pose proof (tamper4_verdicts co ci i4 c4 wf po pi) as H. cbv zeta in H. destruct H as [H1 H2].
    rewrite H1, eqb_reflx. cbn [andb].
    change (match i4 with [] => true | it :: _ => negb (expected_at 4 it) end) with (bad_edit 4 (AReplace i4 c4)).
    destruct (bad_edit 4 (AReplace i4 c4)) eqn:Hb; [|reflexivity]. rewrite (H2 eq_refl). reflexivity.
  - (* only frame 3 *)
    change (match i3 with [] => true | it :: _ => negb (expected_at 3 it) end) with (bad_edit 3 (AReplace i3 c3)).
    destruct (bad_edit 3 (AReplace i3 c3)) eqn:Hb; [|reflexivity].
    pose proof (tamper3_both_fail co ci i3 c3 wf po pi Hb) as H. cbv zeta in H. destruct H as [H1 H2].
    rewrite H1, H2. reflexivity.
  - (* only frame 2 *)
    change (match i2 with [] => true | it :: _ => negb (expected_at 2 it) end) with (bad_edit 2 (AReplace i2 c2)).
    destruct (bad_edit 2 (AReplace i2 c2)) eqn:Hb; [|reflexivity].
    pose proof (tamper2_both_fail co ci i2 c2 wf po pi Hb) as H. cbv zeta in H. destruct H as [H1 H2].
    rewrite H1, H2. reflexivity.
  - (* only frame 1 *)
    change (match i1 with [] => true | it :: _ => negb (expected_at 1 it) end) with (bad_edit 1 (AReplace i1 c1)).
    destruct (bad_edit 1 (AReplace i1 c1)) eqn:Hb; [|reflexivity].
    pose proof (tamper1_both_fail co ci i1 c1 wf po pi Hb) as H. cbv zeta in H. destruct H as [H1 H2].
    rewrite H1, H2. reflexivity.
Qed.

(* ---------------------------------------------------------------- the model meets spec_C14 (no cancellation) *)
Theorem model_meets_spec_nocancel : forall c, k_cancel c = None ->
  spec_C14 c (fst (hs_run true c)) (snd (hs_run true c)) = true.
Proof.
  intros c Hc. unfold spec_C14. rewrite model_meets_core_nocancel by exact Hc. rewrite model_tamper_ok by exact Hc.
  reflexivity.
Qed.

Lemma spec_C14_with_pools : forall c po pi oo oi, spec_C14 (with_pools c po pi) oo oi = spec_C14 c oo oi.
Proof. intros c po pi oo oi. reflexivity. Qed.

(* every session of the (repaired) model, whatever the pooled objects were used for before, satisfies the session
   predicate: each handshake meets spec_C14 and every connection's labels stay what they were *)
Theorem model_session_meets_spec : forall l po pi,
  (forall c no ni, In (c, no, ni) l -> k_cancel c = None) ->
  spec_C14_session (model_session true po pi l) = true.
Proof.
  induction l as [|[[c no] ni] r IH]; intros po pi Hnc; [reflexivity|].
  cbn [model_session].
  destruct (hs_pools true (with_pools c po pi)) as [po' pi'] eqn:Hp.
  unfold spec_C14_session. cbn [forallb so_case so_out so_in so_later_out so_later_in].
  rewrite !labels_stable_later_reads.
  rewrite <- (spec_C14_with_pools c po pi).
  rewrite model_meets_spec_nocancel by (cbn [with_pools k_cancel]; apply (Hnc c no ni); left; reflexivity).
  cbn [andb]. apply IH. intros c0 no0 ni0 Hin. apply (Hnc c0 no0 ni0). right. exact Hin.
Qed.

(* the property-language reading of the tamper clauses *)
Theorem single_bad_edit_no_success : forall c, k_cancel c = None ->
  (bad_edit 1 (k_a1 c) = true /\ k_a2 c = APass /\ k_a3 c = APass /\ k_a4 c = APass) \/
  (k_a1 c = APass /\ bad_edit 2 (k_a2 c) = true /\ k_a3 c = APass /\ k_a4 c = APass) \/
  (k_a1 c = APass /\ k_a2 c = APass /\ bad_edit 3 (k_a3 c) = true /\ k_a4 c = APass) ->
  is_ok (fst (hs_run true c)) = false /\ is_ok (snd (hs_run true c)) = false.
Proof.
  intros [co ci a1 a2 a3 a4 can wf po pi] Hc H. cbn in Hc. subst can. cbn [k_a1 k_a2 k_a3 k_a4] in H.
  destruct H as [[Hb [E2 [E3 E4]]]|[[E1 [Hb [E3 E4]]]|[E1 [E2 [Hb E4]]]]]; subst.
  - destruct a1 as [|i1 c1]; [discriminate|]. exact (tamper1_both_fail co ci i1 c1 wf po pi Hb).
  - destruct a2 as [|i2 c2]; [discriminate|]. exact (tamper2_both_fail co ci i2 c2 wf po pi Hb).
  - destruct a3 as [|i3 c3]; [discriminate|]. exact (tamper3_both_fail co ci i3 c3 wf po pi Hb).
Qed.

Theorem last_frame_edit : forall c, k_cancel c = None ->
  k_a1 c = APass -> k_a2 c = APass -> k_a3 c = APass -> k_a4 c <> APass ->
  is_ok (snd (hs_run true c)) = accepts (k_in c) (k_out c) && accepts (k_out c) (k_in c) /\
  (bad_edit 4 (k_a4 c) = true -> is_ok (fst (hs_run true c)) = false).
Proof.
  intros [co ci a1 a2 a3 a4 can wf po pi] Hc E1 E2 E3 E4. cbn in Hc, E1, E2, E3, E4. subst.
  destruct a4 as [|i4 c4]; [exfalso; apply E4; reflexivity|].
  exact (tamper4_verdicts co ci i4 c4 wf po pi).
Qed.
