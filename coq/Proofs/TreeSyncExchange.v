(* Proofs/TreeSyncExchange.v — C01, part 4: one answered full-sync request brings the requester up to the responder.

   [answered_catch_up]: in a phase without local adds, from any state with the snapshot-discipline invariant [sinv]
   (every reachable honest state), if replica q handles a full-sync request that replica p made from a state of the
   phase, and the response batches (the C09 loader model, Model/LoadIter.v [next_batch]) are delivered to p in order —
   with ARBITRARY other steps interleaved — then p ends up storing everything q stored when it answered.
   Ingredients: the stored order enumerates the stored set topologically (C06: DfsTopo), the batches are exactly the
   not-removed part of the stored range from the common snapshot (C09: stream_exact), the snapshot discipline puts
   everything the requester lacks into that range, and attach / rebuild-at-the-common-snapshot succeed for such batches
   ([deliver_resp_catch]). *)
From Coq Require Import List NArith Bool Arith Lia.
Import ListNotations.
From AnySync Require Import Lib.Dag Model.Dfs Model.Tree Model.LoadIter Model.TreeSync Proofs.DfsBase Proofs.DfsTopo
  Proofs.LoadIter Proofs.LoadIterHeads Proofs.TreeSyncClosure Proofs.TreeSyncConverge Proofs.TreeSyncSnapshot.

(* ---------------------------------------------------------------- the canonical stored order enumerates the stored set *)

Section DfsRange.
  Variable nx : N -> list N.
  Variable R : N -> Prop.
  Hypothesis nx_R : forall p y, In y (nx p) -> R y.

  Lemma dfs_step_range : forall s,
    (forall y, In y (d_stack s) \/ In y (d_res s) -> R y) ->
    forall y, In y (d_stack (dfs_step nx s)) \/ In y (d_res (dfs_step nx s)) -> R y.
  Proof.
    intros s H y Hy. unfold dfs_step in Hy. remember (d_stack s) as stk eqn:Est. destruct stk as [|ch st]; [apply H; rewrite <- Est in Hy; exact Hy|].
    assert (Hch : R ch) by (apply H; left; left; reflexivity).
    assert (Hst : forall z, In z st -> R z) by (intros z Hz; apply H; left; right; exact Hz).
    assert (Hres : forall z, In z (d_res s) -> R z) by (intros z Hz; apply H; right; exact Hz).
    destruct (mem ch (d_bf s)); cbn [d_stack d_res] in Hy.
    - destruct Hy as [Hy|[Hy|Hy]]; [apply Hst; exact Hy | subst y; exact Hch | apply Hres; exact Hy].
    - destruct (mem ch (d_vis s)); cbn [d_stack d_res] in Hy.
      + destruct Hy as [Hy|Hy]; [apply Hst; exact Hy | apply Hres; exact Hy].
      + destruct Hy as [Hy|Hy]; [|apply Hres; exact Hy]. apply in_app_or in Hy. destruct Hy as [Hy|[Hy|Hy]].
        * apply in_rev in Hy. apply filter_In in Hy. apply (nx_R ch). exact (proj1 Hy).
        * subst y. exact Hch.
        * apply Hst. exact Hy.
  Qed.

  Lemma dfs_loop_range : forall fuel s l,
    (forall y, In y (d_stack s) \/ In y (d_res s) -> R y) -> dfs_loop nx fuel s = Some l -> forall y, In y l -> R y.
  Proof.
    induction fuel as [|f IH]; intros s l H Hl y Hy; cbn [dfs_loop] in Hl.
    - destruct (d_stack s); [|discriminate]. inversion Hl; subst l. apply H. right. exact Hy.
    - destruct (d_stack s) eqn:E.
      + inversion Hl; subst l. apply H. right. exact Hy.
      + rewrite <- E in H. apply (IH (dfs_step nx s) l); [apply dfs_step_range; exact H | exact Hl | exact Hy].
  Qed.
End DfsRange.

Lemma order_sub : forall S root y, In y (order S root) -> y = root \/ In y (ids (view S root)).
Proof.
  intros S root y Hy. pose proof (order_opt_order S root) as Ho. unfold order_opt in Ho.
  apply (dfs_loop_range (next_of (view S root)) (fun y => y = root \/ In y (ids (view S root)))) with (fuel := dfs_fuel (view S root)) (s := dfs_init root) (l := order S root).
  - intros p z Hz. right. apply next_of_In in Hz. destruct Hz as [c [Hc [Hid _]]]. subst z. unfold ids. apply in_map. exact Hc.
  - intros z [[Hz|[]]|[]]. left. symmetry. exact Hz.
  - exact Ho.
  - exact Hy.
Qed.

Lemma in_find_all : forall G A c, ginv G -> In c G -> In (cid c) A -> In c (find_all G A).
Proof.
  intros G A c HG Hc. induction A as [|j A IH]; intros Hj; [destruct Hj|]. cbn [find_all].
  destruct Hj as [->|Hj].
  - rewrite (ginv_find G c HG Hc). left. reflexivity.
  - destruct (find_change G j); [right|]; apply IH; exact Hj.
Qed.

Lemma root_no_prev : forall G c, ginv G -> In c G -> cid c = groot G -> cprev c = [].
Proof.
  intros G c HG Hc Hid. destruct (g_hd G HG) as [c0 [r0 [EG Hc0]]].
  assert (H0 : In c0 G) by (rewrite EG; left; reflexivity).
  pose proof (ginv_find G c HG Hc) as F1. pose proof (ginv_find G c0 HG H0) as F2.
  assert (cid c0 = groot G) by (rewrite EG; reflexivity). rewrite Hid in F1. rewrite H in F2. congruence.
Qed.

Lemma acyclic_pos : forall G A root, ginv G -> acyclic_by (pos G) (view (find_all G A) root).
Proof.
  intros G A root HG c p Hc Hp. apply filter_In in Hc. destruct Hc as [Hc _]. destruct (find_all_in G A c Hc) as [HcG _].
  apply pos_lt; [exact HG | exact HcG | right; exact Hp | exact (proj1 (g_prev G HG c p HcG Hp))].
Qed.

Lemma groot_in : forall G, ginv G -> exists c, In c G /\ cid c = groot G /\ cprev c = [].
Proof.
  intros G HG. destruct (g_hd G HG) as [c0 [r0 [EG Hc0]]]. exists c0. rewrite EG. split; [left; reflexivity | split; [reflexivity | exact Hc0]].
Qed.

(* a causally closed stored set B: its canonical order enumerates exactly B *)
Lemma order_covers : forall G B, ginv G -> closed G B ->
  forall x, In x B -> In x (order (find_all G B) (groot G)).
Proof.
  intros G B HG Hcl.
  assert (H : forall x, In x (ids G) -> In x B -> In x (order (find_all G B) (groot G))).
  { apply (creation_ind G (fun x => In x B -> In x (order (find_all G B) (groot G))) HG).
    intros c Hc IH Hx. destruct (cprev c) as [|p ps] eqn:Ep.
    - destruct (g_root G HG c Hc Ep) as [_ [_ Hid]]. rewrite Hid. apply (order_root_in _ _ (pos G)). apply acyclic_pos. exact HG.
    - assert (Hp : In p (cprev c)) by (rewrite Ep; left; reflexivity).
      destruct (Hcl (cid c) Hx) as [c' [Hc' Hpr]]. rewrite (ginv_find G c HG Hc) in Hc'. inversion Hc'; subst c'.
      assert (HpB : In p B) by (apply Hpr; exact Hp).
      assert (Hpo : In p (order (find_all G B) (groot G))).
      { apply IH; [right; try rewrite Ep; left; reflexivity | exact (proj1 (g_prev G HG c p Hc Hp)) | exact HpB]. }
      apply in_split in Hpo. destruct Hpo as [l1 [l2 E]].
      destruct (order_topological (find_all G B) (groot G) (pos G) (acyclic_pos G B _ HG)) as [_ Hlat].
      rewrite E. apply in_or_app. right. right. apply (Hlat l1 p l2 E c); [|exact Hp].
      apply filter_In. split; [apply in_find_all; assumption|].
      apply negb_true_iff. apply N.eqb_neq. intro Hid. rewrite (root_no_prev G c HG Hc Hid) in Hp. destruct Hp. }
  intros x Hx. apply H; [eapply closed_ids; eassumption | exact Hx].
Qed.

Lemma order_within : forall G B, ginv G -> In (groot G) B ->
  forall x, In x (order (find_all G B) (groot G)) -> In x B.
Proof.
  intros G B HG Hr x Hx. apply order_sub in Hx. destruct Hx as [->|Hx]; [exact Hr|].
  unfold ids in Hx. apply in_map_iff in Hx. destruct Hx as [c [<- Hc]]. apply filter_In in Hc.
  exact (proj2 (find_all_in G B c (proj1 Hc))).
Qed.

(* ---------------------------------------------------------------- the stored sequence of a replica *)

Lemma find_entries_in : forall U l e, In e (find_entries U l) -> In e U /\ In (se_id e) l.
Proof.
  intros U l. induction l as [|i r IH]; intros e H; [destruct H|]. cbn [find_entries] in H.
  destruct (find (fun e0 => N.eqb (se_id e0) i) U) as [e0|] eqn:E.
  - destruct H as [<-|H].
    + apply find_some in E. destruct E as [E1 E2]. apply N.eqb_eq in E2. split; [exact E1 | left; symmetry; exact E2].
    + destruct (IH e H) as [H1 H2]. split; [exact H1 | right; exact H2].
  - destruct (IH e H) as [H1 H2]. split; [exact H1 | right; exact H2].
Qed.

Lemma find_entries_ids : forall U l, (forall i, In i l -> In i (map se_id U)) -> map se_id (find_entries U l) = l.
Proof.
  intros U l. induction l as [|i r IH]; intros H; [reflexivity|]. cbn [find_entries].
  destruct (find (fun e0 => N.eqb (se_id e0) i) U) as [e0|] eqn:E.
  - cbn [map]. apply find_some in E. destruct E as [_ E2]. apply N.eqb_eq in E2. rewrite E2. f_equal.
    apply IH. intros j Hj. apply H. right. exact Hj.
  - exfalso. assert (Hi : In i (map se_id U)) by (apply H; left; reflexivity).
    apply in_map_iff in Hi. destruct Hi as [e [He1 He2]].
    pose proof (find_none _ _ E e He2) as Hn. cbn in Hn. rewrite He1, N.eqb_refl in Hn. discriminate.
Qed.

Section Sigma.
  Variable U : list sentry.
  Let G := map se_ch U.
  Hypothesis HG : ginv G.
  Variable rq : replica.
  Hypothesis Hrq : rinv G rq.
  Let B := r_have rq.
  Let sigma := sigma_of U rq (groot G).

  Lemma groot_have : In (groot G) B.
  Proof.
    destruct Hrq as [Hcl [Hroot [_ HD]]]. destruct (groot_in G HG) as [c0 [Hc0 [Hid Hp0]]].
    (* the in-memory root descends from the tree root *)
    assert (H : forall x, In x (ids G) -> anc G (groot G) x).
    { apply (creation_ind G (fun x => anc G (groot G) x) HG). intros c Hc IH.
      destruct (cprev c) as [|p ps] eqn:Ep.
      - destruct (g_root G HG c Hc Ep) as [_ [_ E]]. rewrite E. apply anc_refl.
      - assert (Hp : In p (cprev c)) by (rewrite Ep; left; reflexivity).
        eapply anc_step; [apply ginv_find; eassumption | exact Hp |].
        apply IH; [right; try rewrite Ep; left; reflexivity | exact (proj1 (g_prev G HG c p Hc Hp))]. }
    apply (closed_anc G B (groot G) (r_root rq) Hcl Hroot). apply H. eapply closed_ids; eassumption.
  Qed.

  Lemma sigma_ids : map se_id sigma = order (find_all G B) (groot G).
  Proof.
    unfold sigma, sigma_of. fold G. apply find_entries_ids. intros i Hi.
    apply (order_within G B HG groot_have) in Hi. destruct Hrq as [Hcl _].
    pose proof (closed_ids G B i Hcl Hi) as Hg. unfold G in Hg. rewrite map_se_id in Hg. exact Hg.
  Qed.

  Lemma sigma_entry : forall e, In e sigma -> In (se_ch e) G /\ In (se_id e) B /\ find_change G (se_id e) = Some (se_ch e).
  Proof.
    intros e He. unfold sigma, sigma_of in He. fold G in He. apply find_entries_in in He. destruct He as [H1 H2].
    assert (Hc : In (se_ch e) G) by (unfold G; apply in_map; exact H1).
    split; [exact Hc|]. split; [apply (order_within G B HG groot_have); exact H2|].
    unfold se_id. apply ginv_find; assumption.
  Qed.

  Lemma sigma_covers : forall x, In x B -> In x (map se_id sigma).
  Proof. intros x Hx. rewrite sigma_ids. apply order_covers; [exact HG | exact (proj1 Hrq) | exact Hx]. Qed.

  Lemma sigma_lin : NoDup (map se_id sigma) /\ lin_ext sigma.
  Proof.
    apply (canonical_store_lin_ext (find_all G B) (groot G) (pos G) sigma (acyclic_pos G B _ HG) sigma_ids).
    - intros e He Hne. destruct (sigma_entry e He) as [Hc [Hb _]]. apply filter_In. split.
      + apply in_find_all; [exact HG | exact Hc | exact Hb].
      + apply negb_true_iff. apply N.eqb_neq. exact Hne.
    - intros e p He Hid Hp. destruct (sigma_entry e He) as [Hc _].
      rewrite (root_no_prev G (se_ch e) HG Hc Hid) in Hp. destruct Hp.
  Qed.

  Lemma from_id_in : forall cs (s : list sentry), In cs (map se_id s) -> In cs (map se_id (from_id cs s)).
  Proof.
    intros cs s. induction s as [|a s IH]; intros H; [destruct H|]. cbn [from_id].
    destruct (N.eqb (se_id a) cs) eqn:E; [apply N.eqb_eq in E; left; exact E|].
    destruct H as [H|H]; [apply N.eqb_neq in E; contradiction | apply IH; exact H].
  Qed.

  (* every stored descendant of a stored change cs lies in the stored range from cs on *)
  Lemma descendants_in_range : forall cs x, In cs B -> anc G cs x -> In x B -> In x (map se_id (from_id cs sigma)).
  Proof.
    intros cs x Hcs Hanc. induction Hanc as [|y c p Hc Hp Hcp IH]; intros Hx.
    - apply from_id_in. apply sigma_covers. exact Hcs.
    - destruct Hrq as [Hcl _]. destruct (Hcl y Hx) as [c' [Hc' Hpr]]. rewrite Hc in Hc'. inversion Hc'; subst c'.
      pose proof (IH (Hpr p Hp)) as Hpin.
      destruct (from_id_suffix cs sigma) as [pre Epre].
      apply in_split in Hpin. destruct Hpin as [f1 [f2 Ef]].
      destruct (order_topological (find_all G B) (groot G) (pos G) (acyclic_pos G B _ HG)) as [_ Hlat].
      assert (Eo : order (find_all G B) (groot G) = (map se_id pre ++ f1) ++ p :: f2).
      { rewrite <- sigma_ids. rewrite Epre at 1. rewrite map_app, Ef, <- app_assoc. reflexivity. }
      destruct (find_in _ _ _ Hc) as [HcG Hid].
      assert (Hy2 : In (cid c) f2).
      { apply (Hlat _ p f2 Eo c); [|exact Hp]. apply filter_In. split.
        - apply in_find_all; [exact HG | exact HcG | rewrite Hid; exact Hx].
        - apply negb_true_iff. apply N.eqb_neq. intro E. rewrite (root_no_prev G c HG HcG E) in Hp. destruct Hp. }
      rewrite Hid in Hy2. rewrite Ef. apply in_or_app. right. right. exact Hy2.
  Qed.
End Sigma.

(* ---------------------------------------------------------------- announced heads cover the batch *)

Lemma upd_heads_cover : forall G q hs x, ginv G -> (forall c, In c q -> In c G) ->
  In x hs \/ In x (ids q) -> exists h, In h (fold_left upd_heads q hs) /\ anc G x h.
Proof.
  intros G q. induction q as [|c q IH]; intros hs x HG Hq Hx.
  - destruct Hx as [Hx|[]]. exists x. split; [exact Hx | apply anc_refl].
  - cbn [fold_left].
    assert (Hc : In c G) by (apply Hq; left; reflexivity).
    assert (Hq' : forall c0, In c0 q -> In c0 G) by (intros c0 H0; apply Hq; right; exact H0).
    assert (Hcin : In (cid c) (upd_heads hs c)).
    { unfold upd_heads. destruct (mem (cid c) (filter (fun s => negb (mem s (cprev c))) hs)) eqn:E;
        [apply mem_In; exact E | apply in_or_app; right; left; reflexivity]. }
    destruct Hx as [Hx|[Hx|Hx]].
    + destruct (mem x (cprev c)) eqn:Ep.
      * apply mem_In in Ep. destruct (IH (upd_heads hs c) (cid c) HG Hq' (or_introl Hcin)) as [h [Hh Hah]].
        exists h. split; [exact Hh|]. eapply anc_trans; [|exact Hah].
        eapply anc_step; [apply ginv_find; eassumption | exact Ep | apply anc_refl].
      * apply (IH (upd_heads hs c) x HG Hq'). left. unfold upd_heads.
        assert (Hf : In x (filter (fun s => negb (mem s (cprev c))) hs)) by (apply filter_In; split; [exact Hx | rewrite Ep; reflexivity]).
        destruct (mem (cid c) _); [exact Hf | apply in_or_app; left; exact Hf].
    + subst x. apply (IH (upd_heads hs c) (cid c) HG Hq'). left. exact Hcin.
    + apply (IH (upd_heads hs c) x HG Hq'). right. exact Hx.
Qed.

Lemma stream_heads_cover : forall G fuel ms l, ginv G -> (forall e, In e (li_rest l) -> In (se_ch e) G) ->
  forall b, In b (stream next_batch fuel ms l) -> forall e, In e (b_changes b) ->
    exists h, In h (b_heads b) /\ anc G (se_id e) h.
Proof.
  intros G. induction fuel as [|f IH]; intros ms l HG Hl b Hb e He; [destruct Hb|].
  cbn [stream] in Hb. destruct (next_batch ms l) as [bb l'] eqn:Enb.
  destruct (b_changes bb) as [|x xs] eqn:Ebb; [destruct Hb|].
  unfold next_batch in Enb. destruct (li_exhausted l) eqn:Eex; [inversion Enb; subst bb; discriminate|].
  destruct (scan ms (li_removed l) (li_rest l) [] (li_lastHeads l) 0) as [[[b0 hs] rest'] ex] eqn:Es.
  inversion Enb; subst bb l'. clear Enb.
  assert (Hb0 : bounded ms []) by (right; cbn; lia).
  destruct (scan_spec _ _ _ _ _ _ _ _ _ _ Es eq_refl Hb0) as [H1 [[used [Hu1 Hu2]] _]].
  cbn [app] in H1.
  destruct Hb as [<-|Hb].
  - cbn [b_changes b_heads] in *.
    assert (Hbu : b0 = nonrem (li_removed l) used).
    { rewrite Hu1, nonrem_app in H1. apply app_inv_tail in H1. exact H1. }
    assert (Heu : In e used) by (rewrite Hbu in He; apply filter_In in He; exact (proj1 He)).
    rewrite Hu2. apply (upd_heads_cover G (map se_ch used) (li_lastHeads l) (se_id e) HG).
    + intros c Hc. apply in_map_iff in Hc. destruct Hc as [e0 [<- He0]]. apply Hl. rewrite Hu1. apply in_or_app. left. exact He0.
    + right. rewrite map_se_id. apply in_map. exact Heu.
  - apply (IH ms (mkLI rest' (li_removed l) hs ex) HG); [|exact Hb | exact He].
    cbn [li_rest]. intros e0 He0. apply Hl. rewrite Hu1. apply in_or_app. right. exact He0.
Qed.

(* ---------------------------------------------------------------- paths exist and meet *)

Lemma snap_in_closed : forall G A c, ginv G -> closed G A -> In c G -> In (cid c) A -> cprev c <> [] -> In (csnap c) A.
Proof.
  intros G A c HG Hcl Hc Hx Hne. apply (closed_anc G A (csnap c) (cid c) Hcl Hx).
  destruct (cprev c) as [|p ps] eqn:Ep; [contradiction|].
  assert (Hpin : In p (cprev c)) by (rewrite Ep; left; reflexivity).
  destruct (g_prev G HG c p Hc Hpin) as [Hpg Hpc].
  eapply anc_step; [apply ginv_find; eassumption | exact Hpin |].
  apply onchain_anc; [exact HG | exact Hpg | | exact Hpc]. apply (snap_known G c HG Hc). rewrite Ep. discriminate.
Qed.

Lemma path_loop_exists : forall G A, ginv G -> closed G A ->
  forall fuel i, In i A -> pos G i < fuel ->
    exists P', path_loop fuel (find_all G A) i = Some (P' ++ [groot G]).
Proof.
  intros G A HG Hcl. induction fuel as [|f IH]; intros i Hi Hlt; [lia|].
  cbn [path_loop].
  assert (Hig : In i (ids G)) by (eapply closed_ids; eassumption).
  destruct (N.eqb i 0) eqn:E0; [apply N.eqb_eq in E0; subst i; exfalso; exact (g_nozero G HG Hig)|].
  destruct (Hcl i Hi) as [c [Hc _]]. rewrite (find_all_find G A i c Hi Hc).
  destruct (find_in _ _ _ Hc) as [HcG Hid].
  destruct (cprev c) as [|p ps] eqn:Ep.
  - destruct (g_root G HG c HcG Ep) as [Hs0 [_ Hr]]. rewrite Hs0.
    destruct f; cbn [path_loop N.eqb option_map]; exists []; cbn [app]; congruence.
  - assert (Hne : cprev c <> []) by (rewrite Ep; discriminate).
    assert (HsA : In (csnap c) A) by (apply (snap_in_closed G A c HG Hcl HcG); [rewrite Hid; exact Hi | exact Hne]).
    assert (Hsl : pos G (csnap c) < pos G (cid c)).
    { apply pos_lt; [exact HG | exact HcG | left; reflexivity | apply snap_known; assumption]. }
    rewrite Hid in Hsl. destruct (IH (csnap c) HsA ltac:(lia)) as [P' HP']. rewrite HP'. cbn [option_map].
    exists (i :: P'). reflexivity.
Qed.

Lemma pos_bound : forall G i, In i (ids G) -> pos G i < length G.
Proof. intros G i H. destruct (pos_in G [] i H) as [_ H2]. exact H2. Qed.

Lemma rep_path_exists : forall G r, ginv G -> rinv G r -> exists P', rep_path G r = Some (P' ++ [groot G]).
Proof.
  intros G r HG [Hcl [Hroot _]]. unfold rep_path. apply path_loop_exists; [exact HG | exact Hcl | exact Hroot|].
  pose proof (pos_bound G (r_root r) (closed_ids G _ _ Hcl Hroot)). lia.
Qed.

Lemma common_snapshot_exists : forall P Q g, exists b, common_snapshot (P ++ [g]) (Q ++ [g]) = Some b.
Proof.
  intros P Q g. unfold common_snapshot. rewrite !rev_app_distr. cbn [rev app find_start drop_to]. rewrite N.eqb_refl.
  eexists. reflexivity.
Qed.

Lemma path_in_have : forall G r P s, ginv G -> rinv G r -> rep_path G r = Some P -> In s P -> In s (r_have r).
Proof.
  intros G r P s HG Hr HP Hs. destruct (rep_path_chain G r P s HP Hs) as [Hon Hg]. destruct Hr as [Hcl [Hroot _]].
  apply (closed_anc G _ s (r_root r) Hcl Hroot). apply onchain_anc; [exact HG | eapply closed_ids; eassumption | exact Hg | exact Hon].
Qed.

(* ---------------------------------------------------------------- a delivered batch is attached *)

Lemma dedup_In : forall l seen x, In x (dedup l seen) <-> In x l /\ ~ In x seen.
Proof.
  induction l as [|i r IH]; intros seen x; cbn [dedup]; [cbn [In]; tauto|].
  destruct (mem i seen) eqn:E.
  - apply mem_In in E. rewrite IH. cbn [In]. split; [tauto|]. intros [[Hi|H] Hn]; [subst i; contradiction | tauto].
  - apply mem_false_In in E. cbn [In]. rewrite IH. cbn [In]. split.
    + intros [Hi|[H1 H2]]; [subst i; tauto | tauto].
    + intros [[Hi|H] Hn]; [left; exact Hi|]. destruct (N.eq_dec i x) as [Hix|Hne]; [left; exact Hix|].
      right. split; [exact H | intros [H2|H2]; contradiction].
Qed.

Lemma need_rb_some : forall G v root ns cs, ginv G -> (forall c, In c cs -> In c G) -> need_rb G v root ns cs <> None.
Proof.
  intros G v root ns cs HG. induction cs as [|c r IH]; intros Hcs; cbn [need_rb]; [discriminate|].
  assert (Hr : forall c0, In c0 r -> In c0 G) by (intros c0 H0; apply Hcs; right; exact H0).
  destruct (N.eqb (csnap c) root); [apply IH; exact Hr|].
  assert (Hbad : (mem (csnap c) v && match find_change G (csnap c) with Some sn => negb (cissnap sn) | None => false end) = false).
  { destruct (find_change G (csnap c)) as [sn|] eqn:E; [|apply andb_false_r].
    assert (HcG : In c G) by (apply Hcs; left; reflexivity).
    destruct (cprev c) as [|p ps] eqn:Ep.
    - exfalso. destruct (g_root G HG c HcG Ep) as [H0 _]. rewrite H0 in E. apply (g_nozero G HG). eapply find_ids; exact E.
    - destruct (g_snap G HG c HcG) as [s [Hs1 Hs2]]; [rewrite Ep; discriminate|]. rewrite E in Hs1. inversion Hs1; subst s.
      rewrite Hs2. apply andb_false_r. }
  rewrite Hbad. destruct (mem (csnap c) ns); [apply IH; exact Hr | discriminate].
Qed.

Lemma need_rb_false : forall G v root ns cs, need_rb G v root ns cs = Some false ->
  forall c, In c cs -> csnap c = root \/ In (csnap c) ns.
Proof.
  intros G v root ns cs. induction cs as [|c r IH]; intros H c0 Hc0; [destruct Hc0|]. cbn [need_rb] in H.
  destruct (N.eqb (csnap c) root) eqn:E1.
  - destruct Hc0 as [<-|Hc0]; [left; apply N.eqb_eq; exact E1 | apply IH; assumption].
  - destruct (mem (csnap c) v && _); [discriminate|].
    destruct (mem (csnap c) ns) eqn:E2; [|discriminate].
    destruct Hc0 as [<-|Hc0]; [right; apply mem_In; exact E2 | apply IH; assumption].
Qed.

Lemma minus_nil_incl : forall a b, minus a b = [] -> incl a b.
Proof.
  intros a b H x Hx. destruct (In_dec_N x b) as [Hb|Hb]; [exact Hb|].
  assert (Hm : In x (minus a b)) by (apply minus_In; split; assumption). rewrite H in Hm. destruct Hm.
Qed.

Lemma find_all_nil : forall G l, find_all G l = [] -> forall x, In x l -> ~ In x (ids G).
Proof.
  intros G l. induction l as [|i r IH]; intros H x Hx Hg; [destruct Hx|]. cbn [find_all] in H.
  destruct (find_change G i) as [c|] eqn:E; [discriminate|].
  destruct Hx as [->|Hx]; [destruct (ids_find G x Hg) as [c Hc]; congruence | exact (IH H x Hx Hg)].
Qed.

Section Deliver.
  Variable G : list change.
  Hypothesis HG : ginv G.
  Variables r rq : replica.
  Hypothesis Hr : rinv G r.
  Hypothesis Hrq : rinv G rq.
  Variables chs path : list N.
  Hypothesis Hpath : rep_path G rq = Some path.
  Hypothesis Hsub : incl chs (r_have rq).
  Hypothesis Hclosed : forall x, In x chs -> forall c, find_change G x = Some c ->
    forall p, In p (cprev c) -> In p (r_have r) \/ In p chs.

  Let A := r_have r.
  Let U := chs ++ A.

  Lemma U_closed : closed G U.
  Proof.
    intros x Hx. apply in_app_or in Hx. destruct Hx as [Hx|Hx].
    - destruct (proj1 Hrq x (Hsub x Hx)) as [c [Hc _]]. exists c. split; [exact Hc|].
      intros p Hp. apply in_or_app. destruct (Hclosed x Hx c Hc p Hp) as [H|H]; [right | left]; exact H.
    - destruct (proj1 Hr x Hx) as [c [Hc Hp]]. exists c. split; [exact Hc|]. intros p Hpp. apply in_or_app. right. apply Hp. exact Hpp.
  Qed.

  Lemma apply_catch : forall r1 a, apply G r chs path = (r1, a) ->
    match a with AErr => False | ANothing => incl chs A | AChanged _ => incl chs (r_have r1) end.
  Proof.
    intros r1 a H. pose proof Hr as [Hcl [Hroot [Hsn HD]]].
    assert (HAU : incl A U) by (intros x Hx; apply in_or_app; right; exact Hx).
    assert (Hchg : forall x, In x chs -> In x (ids G)).
    { intros x Hx. eapply closed_ids; [exact (proj1 Hrq) | apply Hsub; exact Hx]. }
    unfold apply in H.
    set (v := rep_view G r) in *. set (newc := dedup (minus chs v) []) in *.
    assert (Hv : incl v A) by (apply rep_view_incl; exact Hroot).
    assert (Hnewc : forall x, In x newc <-> In x chs /\ ~ In x v).
    { intros x. unfold newc. rewrite dedup_In, minus_In. cbn [In]. tauto. }
    assert (Hoff : forall x, In x U -> ~ In x A -> In x newc).
    { intros x Hx Hn. apply in_app_or in Hx. destruct Hx as [Hx|Hx]; [|contradiction].
      apply Hnewc. split; [exact Hx | intro Hxv; apply Hn; apply Hv; exact Hxv]. }
    destruct (find_all G newc) as [|nc0 ncs] eqn:Enew.
    { inversion H; subst r1 a. intros x Hx. destruct (In_dec_N x v) as [Hxv|Hxv]; [apply Hv; exact Hxv|].
      exfalso. apply (find_all_nil G newc Enew x); [apply Hnewc; split; assumption | apply Hchg; exact Hx]. }
    rewrite <- Enew in H.
    assert (Hncs : forall c, In c (find_all G newc) -> In c G) by (intros c Hc; exact (proj1 (find_all_in G newc c Hc))).
    destruct (need_rb G v (r_root r) (ids (filter cissnap (find_all G newc))) (find_all G newc)) as [[|]|] eqn:Erb;
      [| |exfalso; exact (need_rb_some G v _ _ _ HG Hncs Erb)].
    - (* rebuild at the common snapshot *)
      try rewrite Enew in H.
      destruct (rep_path_exists G rq HG Hrq) as [Pq' HPq]. rewrite Hpath in HPq. inversion HPq; subst path.
      destruct (rep_path_exists G r HG Hr) as [Pr' HPr]. rewrite HPr in H.
      destruct (common_snapshot_exists Pr' Pq' (groot G)) as [base Ecs].
      destruct (Pq' ++ [groot G]) as [|p0 pr] eqn:Epq; [destruct Pq'; discriminate|].
      rewrite Ecs in H.
      destruct (common_snapshot_in _ _ _ Ecs) as [Hb1 Hb2].
      assert (HbA : In base A) by (eapply path_in_have; [exact HG | exact Hr | exact HPr | exact Hb1]).
      assert (Em : mem base (r_have r) = true) by (apply mem_In; exact HbA). rewrite Em in H. cbn [negb] in H.
      inversion H; subst r1 a. clear H. cbn [r_have].
      destruct (rep_path_chain G rq _ base Hpath Hb2) as [Hbq _].
      intros x Hx. apply grow_In. destruct (In_dec_N x A) as [HxA|HxA]; [right; exact HxA|]. left.
      apply minus_In. split.
      + apply (attach_complete_chain G A U (minus newc A) base HG Hcl U_closed HAU HbA).
        * intros y Hy Hn. apply minus_In. split; [apply Hoff; assumption | exact Hn].
        * apply in_or_app. left. exact Hx.
        * destruct (discipline G rq base x HG Hrq Hbq (Hsub x Hx)) as [H1|H1]; [exact H1|].
          exfalso. apply HxA. exact (closed_anc G A x base Hcl HbA H1).
      + intro Hv0. apply HxA. apply mview_incl in Hv0. destruct Hv0 as [->|Hv0]; assumption.
    - (* normal path: every new change has the in-memory root on its chain *)
      assert (Hon : forall x, In x (ids G) -> In x newc -> onchain G (r_root r) x).
      { apply (creation_ind G (fun x => In x newc -> onchain G (r_root r) x) HG).
        intros c Hc IH Hx.
        assert (Hcn : In c (find_all G newc)) by (apply in_find_all; assumption).
        destruct (need_rb_false _ _ _ _ _ Erb c Hcn) as [E|E].
        - eapply oc_step; [apply ginv_find; eassumption | rewrite E; apply oc_refl].
        - unfold ids in E. apply in_map_iff in E. destruct E as [sc [Hid Hsc]]. apply filter_In in Hsc. destruct Hsc as [Hsc _].
          destruct (find_all_in G newc sc Hsc) as [HscG Hscn]. rewrite Hid in Hscn.
          eapply oc_step; [apply ginv_find; eassumption|].
          apply IH; [left; reflexivity | rewrite <- Hid; unfold ids; apply in_map; exact HscG | exact Hscn]. }
      assert (Hatt : forall x, In x newc -> In x (attach_pass G newc v)).
      { intros x Hx. apply (attach_complete_chain G A U newc (r_root r) HG Hcl U_closed HAU Hroot Hoff).
        - apply in_or_app. left. exact (proj1 (proj1 (Hnewc x) Hx)).
        - apply Hon; [apply Hchg; exact (proj1 (proj1 (Hnewc x) Hx)) | exact Hx]. }
      try rewrite Enew in H.
      destruct (minus (attach_pass G newc v) v) as [|a0 ar] eqn:Eadd.
      + inversion H; subst r1 a. intros x Hx. destruct (In_dec_N x v) as [Hxv|Hxv]; [apply Hv; exact Hxv|].
        apply Hv. apply (minus_nil_incl _ _ Eadd). apply Hatt. apply Hnewc. split; assumption.
      + rewrite <- Eadd in H. inversion H; subst r1 a. cbn [r_have].
        intros x Hx. apply grow_In. destruct (In_dec_N x v) as [Hxv|Hxv]; [right; apply Hv; exact Hxv|].
        left. apply minus_In. split; [apply Hatt; apply Hnewc; split; assumption | exact Hxv].
  Qed.

End Deliver.

Lemma deliver_resp_catch : forall G r rq chs path hs n me from r' em,
  ginv G -> rinv G r -> rinv G rq -> rep_path G rq = Some path -> incl chs (r_have rq) ->
  (forall x, In x chs -> forall c, find_change G x = Some c -> forall p, In p (cprev c) -> In p (r_have r) \/ In p chs) ->
  (forall x, In x chs -> exists h, In h hs /\ anc G x h) ->
  handle_resp G n me from r hs chs path = (r', em) -> incl chs (r_have r').
Proof.
  intros G r rq chs path hs n me from r' em HG Hr Hrq Hpath Hsub Hclosed Hheads H. unfold handle_resp in H.
  assert (Hgen : forall r2 a, apply G r chs path = (r2, a) ->
            match a with AErr => False | ANothing => incl chs (r_have r) | AChanged _ => incl chs (r_have r2) end)
    by (exact (apply_catch G HG r rq Hr Hrq chs path Hpath Hsub Hclosed)).
  destruct chs as [|c0 cr]; [intros x []|].
  destruct (add_from_peer G n me from r hs (c0 :: cr) path) as [[r1 em1] res] eqn:Ea. inversion H; subst r' em. clear H.
  unfold add_from_peer in Ea. pose proof Hr as [Hcl [Hroot _]].
  destruct (has_heads G r hs) eqn:Ehh.
  - inversion Ea; subst r1. intros x Hx. destruct (Hheads x Hx) as [h [Hh Hxh]].
    apply (closed_anc G (r_have r) x h Hcl); [|exact Hxh].
    unfold has_heads in Ehh. apply orb_true_iff in Ehh. destruct Ehh as [E|E].
    + apply (rep_heads_incl G r Hroot). apply (same_set_In _ _ h E). exact Hh.
    + apply (rep_view_incl G r Hroot). eapply all_in_In; eassumption.
  - destruct (apply G r (c0 :: cr) path) as [r2 a] eqn:Eap. pose proof (Hgen r2 a eq_refl) as Hc.
    destruct a; inversion Ea; subst; [destruct Hc | exact Hc | exact Hc].
Qed.

(* ---------------------------------------------------------------- what a response contains *)

Lemma lin_ext_suffix : forall a b, lin_ext (a ++ b) -> lin_ext b.
Proof.
  intros a b H l1 e l2 Heq p Hp Hin. apply (H (a ++ l1) e l2 ltac:(rewrite Heq, <- app_assoc; reflexivity) p Hp Hin).
Qed.

Lemma lin_ext_filter : forall f l, lin_ext l -> lin_ext (filter f l).
Proof.
  intros f l H l1 e l2 Heq p Hp Hin. apply filter_split in Heq. destruct Heq as [s1 [s2 [Hs Hl2]]].
  apply (H s1 e s2 Hs p Hp). subst l2. apply in_map_iff in Hin. destruct Hin as [y [Hy1 Hy2]]. apply filter_In in Hy2.
  apply in_map_iff. exists y. tauto.
Qed.

Section Complete.
  Variable U : list sentry.
  Let G := map se_ch U.
  Hypothesis HG : ginv G.
  Variables rq rp : replica.
  Hypothesis Hrq : rinv G rq.
  Hypothesis Hrp : rinv G rp.
  Variable cs : N.
  Hypothesis Hcs_p : In cs (r_have rp).
  Hypothesis Hcs_q : onchain G cs (r_root rq).
  Let B := r_have rq.
  Let A0 := r_have rp.
  Let sigma := sigma_of U rq (groot G).
  Let L := nonrem (removed_of sigma cs (rep_heads G rp)) (from_id cs sigma).

  Lemma cs_in_B : In cs B.
  Proof.
    destruct Hrq as [Hcl [Hroot _]]. apply (closed_anc G B cs (r_root rq) Hcl Hroot).
    apply onchain_anc; [exact HG | eapply closed_ids; eassumption | eapply closed_ids; [exact (proj1 Hrp) | exact Hcs_p] | exact Hcs_q].
  Qed.

  (* everything the responder stores is stored by the requester or is sent *)
  Lemma response_complete : forall x, In x B -> In x A0 \/ In x (map se_id L).
  Proof.
    intros x Hx. pose proof Hrp as [HclA [HrootA _]]. pose proof Hrq as [HclB _].
    destruct (discipline G rq cs x HG Hrq Hcs_q Hx) as [Hon|Han]; [|left; exact (closed_anc G A0 x cs HclA Hcs_p Han)].
    assert (Hanc : anc G cs x).
    { apply onchain_anc; [exact HG | eapply closed_ids; eassumption | eapply closed_ids; [exact HclA | exact Hcs_p] | exact Hon]. }
    pose proof (descendants_in_range U HG rq Hrq cs x cs_in_B Hanc Hx) as Hin. fold sigma in Hin.
    apply in_map_iff in Hin. destruct Hin as [e [Hid He]].
    destruct (mem x (removed_of sigma cs (rep_heads G rp))) eqn:Er.
    - left. apply mem_In in Er.
      apply (removed_in_closed sigma cs (rep_heads G rp) (fun i => In i A0)); [| |exact Er].
      + intros c p Hc Hcid Hp. apply in_map_iff in Hc. destruct Hc as [e0 [<- He0]].
        destruct (from_id_suffix cs sigma) as [pre Epre].
        assert (Hes : In e0 sigma) by (rewrite Epre; apply in_or_app; right; exact He0).
        destruct (sigma_entry U HG rq Hrq e0 Hes) as [_ [_ Hf]].
        destruct (HclA _ Hcid) as [c' [Hc' Hpr]]. unfold se_id in Hf. pose proof (eq_trans (eq_sym Hf) Hc') as Heq. inversion Heq; subst c'. apply Hpr. exact Hp.
      + intros h Hh. apply (rep_heads_incl G rp HrootA). exact Hh.
    - right. apply in_map_iff. exists e. split; [exact Hid|]. unfold L, nonrem. apply filter_In. split; [exact He|].
      rewrite Hid, Er. reflexivity.
  Qed.

  Lemma L_in_sigma : forall e, In e L -> In e sigma.
  Proof.
    intros e He. unfold L, nonrem in He. apply filter_In in He. destruct (from_id_suffix cs sigma) as [pre Epre].
    rewrite Epre. apply in_or_app. right. exact (proj1 He).
  Qed.

  (* in sending order every change comes after those of its previous ids that the requester lacks *)
  Lemma response_causal : forall L1 e L2, L = L1 ++ e :: L2 ->
    forall p, In p (cprev (se_ch e)) -> In p A0 \/ In p (map se_id L1).
  Proof.
    intros L1 e L2 EL p Hp.
    assert (HeL : In e L) by (rewrite EL; apply in_or_app; right; left; reflexivity).
    destruct (sigma_entry U HG rq Hrq e (L_in_sigma e HeL)) as [HcG [HxB Hf]].
    pose proof Hrq as [HclB _]. destruct (HclB _ HxB) as [c' [Hc' Hpr]]. pose proof (eq_trans (eq_sym Hf) Hc') as Heq. inversion Heq; subst c'.
    destruct (response_complete p (Hpr p Hp)) as [H|H]; [left; exact H|]. right.
    rewrite EL, map_app in H. apply in_app_or in H. destruct H as [H|[H|H]]; [exact H | |].
    - exfalso. assert (Hlt : pos G p < pos G (cid (se_ch e))).
      { apply pos_lt; [exact HG | exact HcG | right; exact Hp | exact (proj1 (g_prev G HG _ p HcG Hp))]. }
      unfold se_id in H. rewrite H in Hlt. lia.
    - exfalso. destruct (sigma_lin U HG rq Hrq) as [_ Hlin]. fold sigma in Hlin.
      destruct (from_id_suffix cs sigma) as [pre Epre].
      assert (Hlin2 : lin_ext (pre ++ from_id cs sigma)) by (rewrite <- Epre; exact Hlin). clear Hlin. rename Hlin2 into Hlin. apply lin_ext_suffix in Hlin.
      apply (lin_ext_filter (fun e0 => negb (mem (se_id e0) (removed_of sigma cs (rep_heads G rp)))) _ Hlin L1 e L2 EL p Hp H).
  Qed.
End Complete.

(* ---------------------------------------------------------------- batches delivered in order *)

Definition noadd (ls : list label) : Prop := forallb (fun l => negb (is_add l)) ls = true.

Lemma noadd_app : forall a b, noadd (a ++ b) <-> noadd a /\ noadd b.
Proof. intros a b. unfold noadd. rewrite forallb_app, andb_true_iff. reflexivity. Qed.

Lemma noadd_cons : forall l b, noadd (l :: b) -> is_add l = false /\ noadd b.
Proof. intros l b H. unfold noadd in H. cbn [forallb] in H. apply andb_true_iff in H. destruct H as [H1 H2]. apply negb_true_iff in H1. tauto. Qed.

Lemma run_noadd : forall nb ls w, sinv w -> noadd ls ->
  sinv (run nb w ls) /\ wG (run nb w ls) = wG w /\ length (w_reps (run nb w ls)) = length (w_reps w)
  /\ forall j, incl (r_have (get_rep w j)) (r_have (get_rep (run nb w ls) j)).
Proof.
  intros nb ls w Hw Hna. destruct (run_mono nb ls w (sinv_winv w Hw)) as [H1 [H2 H3]].
  split; [apply run_sinv; exact Hw|]. split; [unfold wG; rewrite (H3 Hna); reflexivity|]. split; assumption.
Qed.

Fixpoint in_order (ds ls : list label) : Prop :=
  match ds with
  | [] => True
  | d :: r => exists l1 l2, ls = l1 ++ d :: l2 /\ in_order r l2
  end.

Fixpoint seq_closed (G : list change) (base : list N) (bl : list (list N)) : Prop :=
  match bl with
  | [] => True
  | chs :: r =>
      (forall x, In x chs -> forall c, find_change G x = Some c -> forall p, In p (cprev c) -> In p base \/ In p chs)
      /\ seq_closed G (chs ++ base) r
  end.

Lemma run_cons : forall nb w l ls, run nb w (l :: ls) = run nb (fst (step nb w l)) ls.
Proof. reflexivity. Qed.

Lemma batches_catch : forall nb (bl : list (list N * list N)) p q path rq G,
  ginv G -> rinv G rq -> rep_path G rq = Some path ->
  (forall b, In b bl -> incl (snd b) (r_have rq) /\ forall x, In x (snd b) -> exists h, In h (fst b) /\ anc G x h) ->
  forall ls w base,
    sinv w -> wG w = G -> noadd ls -> p < length (w_reps w) ->
    incl base (r_have (get_rep w p)) ->
    seq_closed G base (map snd bl) ->
    in_order (map (fun b => Deliver p q (MResp (fst b) (snd b) path)) bl) ls ->
    forall b, In b bl -> incl (snd b) (r_have (get_rep (run nb w ls) p)).
Proof.
  intros nb bl p q path rq G HG Hrq Hpath. induction bl as [|b0 bl IH]; intros Hbl ls w base Hw HwG Hna Hp Hbase Hsc Hord b Hb; [destruct Hb|].
  cbn [map in_order] in Hord. destruct Hord as [l1 [l2 [Els Hord]]]. cbn [map seq_closed] in Hsc. destruct Hsc as [Hsc0 Hsc].
  subst ls. apply noadd_app in Hna. destruct Hna as [Hna1 Hna2]. apply noadd_cons in Hna2. destruct Hna2 as [_ Hna2].
  destruct (run_noadd nb l1 w Hw Hna1) as [Hw1 [HG1 [Hlen1 Hmono1]]].
  set (w1 := run nb w l1) in *.
  rewrite run_app, run_cons. fold w1.
  destruct (step nb w1 (Deliver p q (MResp (fst b0) (snd b0) path))) as [w2 em] eqn:Est. cbn [fst].
  pose proof (step_sinv _ _ _ _ _ Hw1 Est) as Hw2.
  destruct (step_mono _ _ _ _ _ (sinv_winv _ Hw1) Est) as [Hlen2 [Hmono2 Hsame2]].
  assert (HG2 : wG w2 = G) by (unfold wG; rewrite (Hsame2 eq_refl); fold (wG w1); congruence).
  assert (Hp1 : p < length (w_reps w1)) by lia.
  (* the delivery itself *)
  assert (Hcatch : incl (snd b0) (r_have (get_rep w2 p))).
  { unfold step in Est. apply Nat.ltb_lt in Hp1. rewrite Hp1 in Est. apply Nat.ltb_lt in Hp1.
    destruct (handle_resp (wG w1) (length (w_reps w1)) p q (get_rep w1 p) (fst b0) (snd b0) path) as [r' em0] eqn:Eh.
    inversion Est; subst w2 em. rewrite get_set_rep by exact Hp1. rewrite Nat.eqb_refl.
    rewrite HG1, HwG in Eh.
    assert (Hr1 : rinv G (get_rep w1 p)) by (rewrite <- HwG, <- HG1; apply get_rep_rinv; assumption).
    destruct (Hbl b0 (or_introl eq_refl)) as [Hsub Hheads].
    apply (deliver_resp_catch G (get_rep w1 p) rq (snd b0) path (fst b0) (length (w_reps w1)) p q r' em0 HG Hr1 Hrq Hpath Hsub); [|exact Hheads | exact Eh].
    intros x Hx c Hc p' Hp'. destruct (Hsc0 x Hx c Hc p' Hp') as [H|H]; [left; apply (Hmono1 p); apply Hbase; exact H | right; exact H]. }
  destruct (run_noadd nb l2 w2 Hw2 Hna2) as [_ [_ [_ Hmono3]]].
  destruct Hb as [<-|Hb].
  - intros x Hx. apply (Hmono3 p). apply Hcatch. exact Hx.
  - apply (IH (fun b' Hb' => Hbl b' (or_intror Hb')) l2 w2 (snd b0 ++ base) Hw2 HG2 Hna2); [lia | | exact Hsc | exact Hord | exact Hb].
    intros x Hx. apply in_app_or in Hx. destruct Hx as [Hx|Hx]; [apply Hcatch; exact Hx|].
    apply (Hmono2 p). apply (Hmono1 p). apply Hbase. exact Hx.
Qed.

(* ---------------------------------------------------------------- an answered request *)

Lemma root0_groot : forall w, root0 w = groot (wG w).
Proof. intros [u r]. unfold root0, wG, groot. cbn [w_uni]. destruct u; reflexivity. Qed.

Lemma cs_loop_incl : forall sq sub, cs_loop sq sub = true -> incl sub sq.
Proof.
  induction sq as [|a r IH]; intros sub H; cbn [cs_loop] in H.
  - destruct sub; [intros x [] | discriminate].
  - destruct sub as [|b sr]; [intros x []|].
    destruct (N.eqb a b) eqn:E.
    + apply N.eqb_eq in E. subst b. intros x [<-|Hx]; [left; reflexivity | right; apply (IH sr H); exact Hx].
    + destruct (N.ltb a b); [|discriminate]. intros x Hx. right. apply (IH (b :: sr) H). exact Hx.
Qed.

Lemma contains_sorted_incl : forall sq sub, contains_sorted sq sub = true -> incl sub sq.
Proof.
  intros sq sub H. unfold contains_sorted in H. apply andb_true_iff in H. destruct H as [_ H].
  intros x Hx. apply isort_In. apply (cs_loop_incl _ _ H). apply isort_In. exact Hx.
Qed.

Definition resp_labels (p q : nat) (em : list emission) : list label :=
  flat_map (fun e => match snd e with MResp h c pa => [Deliver p q (MResp h c pa)] | _ => [] end) em.

(* [answered nb w ls p q]: somewhere in the phase ls (started in w) replica p's full-sync request — heads and
   snapshot path of p at some point l0 of the phase — is handled by q (after any further steps l1), and the response
   batches q emits are then delivered to p in the order of emission, with arbitrary steps interleaved (l2) *)
Definition answered (nb : N -> liter -> batch * liter) (w : world) (ls : list label) (p q : nat) : Prop :=
  exists l0 l1 l2,
    let w0 := run nb w l0 in
    let req := full_request (wG w0) (get_rep w0 p) in
    ls = l0 ++ l1 ++ Deliver q p req :: l2
    /\ in_order (resp_labels p q (snd (step nb (run nb w0 l1) (Deliver q p req)))) l2.

Lemma seq_closed_of_causal : forall G A0 (L : list sentry),
  (forall e, In e L -> find_change G (se_id e) = Some (se_ch e)) ->
  (forall L1 e L2, L = L1 ++ e :: L2 -> forall p, In p (cprev (se_ch e)) -> In p A0 \/ In p (map se_id L1)) ->
  forall bs done base, L = done ++ concat (map b_changes bs) -> incl A0 base -> incl (map se_id done) base ->
    seq_closed G base (map (fun b => map se_id (b_changes b)) bs).
Proof.
  intros G A0 L Hfind Hcausal. induction bs as [|b bs IH]; intros done base EL HA Hdone; cbn [map seq_closed]; [exact I|].
  cbn [map concat] in EL. split.
  - intros x Hx c Hc p Hp. apply in_map_iff in Hx. destruct Hx as [e [Hid He]].
    apply in_split in He. destruct He as [b1 [b2 Eb]].
    assert (EL2 : L = (done ++ b1) ++ e :: (b2 ++ concat (map b_changes bs))).
    { rewrite EL, Eb, <- !app_assoc. reflexivity. }
    assert (HeL : In e L) by (rewrite EL2; apply in_or_app; right; left; reflexivity).
    pose proof (Hfind e HeL) as Hf. rewrite Hid, Hc in Hf. inversion Hf; subst c.
    destruct (Hcausal _ e _ EL2 p Hp) as [H|H]; [left; apply HA; exact H|].
    rewrite map_app in H. apply in_app_or in H. destruct H as [H|H]; [left; apply Hdone; exact H|].
    right. rewrite Eb, map_app. apply in_or_app. left. exact H.
  - apply (IH (done ++ b_changes b) (map se_id (b_changes b) ++ base)).
    + rewrite EL, <- app_assoc. reflexivity.
    + intros x Hx. apply in_or_app. right. apply HA. exact Hx.
    + intros x Hx. rewrite map_app in Hx. apply in_app_or in Hx. apply in_or_app.
      destruct Hx as [Hx|Hx]; [right; apply Hdone; exact Hx | left; exact Hx].
Qed.

Lemma resp_labels_batches : forall p q path (bs : list batch) tail,
  resp_labels p q tail = [] ->
  resp_labels p q (map (fun b => (p, MResp (b_heads b) (map se_id (b_changes b)) path)) bs ++ tail)
  = map (fun b => Deliver p q (MResp (fst b) (snd b) path)) (map (fun b => (b_heads b, map se_id (b_changes b))) bs).
Proof.
  intros p q path bs tail Ht. unfold resp_labels in *. rewrite flat_map_app, Ht, app_nil_r.
  induction bs as [|b bs IH]; [reflexivity|]. cbn [map flat_map snd fst app]. rewrite IH. reflexivity.
Qed.

Theorem answered_catch_up : forall w ls p q,
  sinv w -> noadd ls -> p < length (w_reps w) -> q < length (w_reps w) ->
  answered next_batch w ls p q ->
  incl (r_have (get_rep w q)) (r_have (get_rep (run next_batch w ls) p)).
Proof.
  intros w ls p q Hw Hna Hp Hq [l0 [l1 [l2 [Els Hord]]]]. cbv zeta in Els, Hord. subst ls.
  apply noadd_app in Hna. destruct Hna as [Hna0 Hna]. apply noadd_app in Hna. destruct Hna as [Hna1 Hna2].
  apply noadd_cons in Hna2. destruct Hna2 as [_ Hna2].
  destruct (run_noadd next_batch l0 w Hw Hna0) as [Hw0 [HG0 [Hlen0 Hmono0]]].
  set (w0 := run next_batch w l0) in *.
  destruct (run_noadd next_batch l1 w0 Hw0 Hna1) as [Hw1 [HG1 [Hlen1 Hmono1]]].
  set (w1 := run next_batch w0 l1) in *.
  rewrite run_app, run_app, run_cons. fold w0. fold w1.
  set (G := wG w1) in *.
  assert (HG : ginv G) by exact (proj1 Hw1).
  assert (Hq1 : q < length (w_reps w1)) by lia.
  assert (Hp1 : p < length (w_reps w1)) by lia.
  pose proof (get_rep_rinv w1 q Hw1 Hq1) as Hrq. try fold G in Hrq.
  assert (Hrp : rinv G (get_rep w0 p)) by (rewrite HG1; apply get_rep_rinv; [exact Hw0 | lia]).
  set (rq := get_rep w1 q) in *. set (rp := get_rep w0 p) in *.
  rewrite <- HG1 in Hord. try fold G in Hord.
  (* the request is handled: the state does not change *)
  unfold step at 1. unfold step in Hord.
  apply Nat.ltb_lt in Hq1. rewrite Hq1 in Hord |- *. apply Nat.ltb_lt in Hq1. cbn [fst snd full_request] in Hord |- *.
  destruct (run_noadd next_batch l2 w1 Hw1 Hna2) as [Hw3 [HG3 [Hlen3 Hmono3]]].
  (* it suffices to catch up with q at the time of the answer *)
  intros x0 Hx0. assert (Hx : In x0 (r_have rq)) by (apply (Hmono1 q); apply (Hmono0 q); exact Hx0). clear Hx0. revert x0 Hx.
  change (incl (r_have rq) (r_have (get_rep (run next_batch w1 l2) p))).
  destruct (rep_path_exists G rq HG Hrq) as [Pq' HPq].
  destruct (rep_path_exists G rp HG Hrp) as [Pp' HPp].
  unfold handle_req in Hord. change (map se_ch (w_uni w1)) with G in Hord. fold rq in Hord.
  rewrite HPq in Hord. unfold path_or_nil in Hord. rewrite HPp in Hord.
  destruct (common_snapshot_exists Pq' Pp' (groot G)) as [cs Ecs].
  assert (Echoose : choose_snapshot (Pq' ++ [groot G]) (Pp' ++ [groot G]) = Some cs).
  { unfold choose_snapshot. destruct (Pp' ++ [groot G]) eqn:E; [destruct Pp'; discriminate | exact Ecs]. }
  rewrite Echoose in Hord.
  destruct (common_snapshot_in _ _ _ Ecs) as [Hcsq Hcsp].
  pose proof (path_in_have G rp _ cs HG Hrp HPp Hcsp) as Hcs_p.
  destruct (rep_path_chain G rq _ cs HPq Hcsq) as [Hcs_q _].
  pose proof Hrp as [HclA [HrootA _]].
  assert (HA0 : incl (r_have rp) (r_have (get_rep (run next_batch w1 l2) p))).
  { intros x Hx. apply (Hmono3 p). apply (Hmono1 p). exact Hx. }
  destruct (same_set (rep_heads G rq) (rep_heads G rp) || contains_sorted (rep_heads G rp) (rep_heads G rq)) eqn:Eeq.
  - (* q's heads are among p's heads: p already has everything *)
    intros x Hx. apply HA0. destruct (have_below_head G rq x HG Hrq Hx) as [h [Hh Hxh]].
    apply (closed_anc G _ x h HclA); [|exact Hxh]. apply (rep_heads_incl G rp HrootA).
    apply orb_true_iff in Eeq. destruct Eeq as [E|E]; [apply (same_set_In _ _ h E); exact Hh | apply (contains_sorted_incl _ _ E); exact Hh].
  - (* batches *)
    set (sigma := sigma_of (w_uni w1) rq (root0 w1)) in *.
    assert (Esig : sigma = sigma_of (w_uni w1) rq (groot G)) by (unfold sigma; rewrite root0_groot; reflexivity).
    set (bs := respond_with next_batch sigma cs (rep_heads G rp)) in *.
    assert (Hresp : respond sigma (Pq' ++ [groot G]) (Pp' ++ [groot G]) (rep_heads G rp) batch_size = Some bs).
    { unfold respond. rewrite Echoose. reflexivity. }
    destruct (respond_exact _ _ _ _ _ _ Hresp) as [cs' [Hcs' [Hconcat _]]]. rewrite Echoose in Hcs'. inversion Hcs'; subst cs'.
    rewrite resp_labels_batches in Hord by (destruct (is_nil (rep_heads G rp)); reflexivity).
    set (L := nonrem (removed_of sigma cs (rep_heads G rp)) (from_id cs sigma)) in *.
    assert (HLsig : forall e, In e L -> In e sigma).
    { intros e He. unfold L, nonrem in He. apply filter_In in He. destruct (from_id_suffix cs sigma) as [pre Epre].
      rewrite Epre. apply in_or_app. right. exact (proj1 He). }
    assert (Hentry : forall e, In e sigma -> In (se_ch e) G /\ In (se_id e) (r_have rq) /\ find_change G (se_id e) = Some (se_ch e)).
    { intros e He. rewrite Esig in He. exact (sigma_entry (w_uni w1) HG rq Hrq e He). }
    assert (Hall : forall b, In b (map (fun b => (b_heads b, map se_id (b_changes b))) bs) ->
              incl (snd b) (r_have (get_rep (run next_batch w1 l2) p))).
    { apply (batches_catch next_batch _ p q (Pq' ++ [groot G]) rq G HG Hrq HPq) with (base := r_have rp).
      - intros b Hb. apply in_map_iff in Hb. destruct Hb as [b' [<- Hb']]. cbn [fst snd]. split.
        + intros x Hx. apply in_map_iff in Hx. destruct Hx as [e [<- He]].
          assert (HeL : In e L) by (rewrite <- Hconcat; apply in_concat; exists (b_changes b'); split; [apply in_map; exact Hb' | exact He]).
          exact (proj1 (proj2 (Hentry e (HLsig e HeL)))).
        + intros x Hx. apply in_map_iff in Hx. destruct Hx as [e [<- He]].
          apply (stream_heads_cover G (S (length sigma)) batch_size (load sigma cs (rep_heads G rp)) HG); [|exact Hb' | exact He].
          unfold load. cbn [li_rest]. intros e0 He0. destruct (from_id_suffix cs sigma) as [pre Epre].
          apply (Hentry e0). rewrite Epre. apply in_or_app. right. exact He0.
      - exact Hw1.
      - reflexivity.
      - exact Hna2.
      - exact Hp1.
      - apply (Hmono1 p).
      - rewrite map_map. cbn [snd].
        apply (seq_closed_of_causal G (r_have rp) L) with (done := []).
        + intros e He. exact (proj2 (proj2 (Hentry e (HLsig e He)))).
        + unfold L. rewrite Esig. exact (response_causal (w_uni w1) HG rq rp Hrq Hrp cs Hcs_p Hcs_q).
        + rewrite <- Hconcat. reflexivity.
        + apply incl_refl.
        + intros x [].
      - exact Hord. }
    intros x Hx.
    destruct (response_complete (w_uni w1) HG rq rp Hrq Hrp cs Hcs_p Hcs_q x Hx) as [H|H]; [apply HA0; exact H|].
    assert (H' : In x (map se_id L)) by (unfold L; rewrite Esig; exact H). clear H. rename H' into H. rewrite <- Hconcat in H.
    apply in_map_iff in H. destruct H as [e [Hid He]]. apply in_concat in He. destruct He as [chs [Hchs He]].
    apply in_map_iff in Hchs. destruct Hchs as [b [<- Hb]].
    apply (Hall (b_heads b, map se_id (b_changes b))).
    + apply in_map_iff. exists b. split; [reflexivity | exact Hb].
    + cbn [snd]. rewrite <- Hid. apply in_map. exact He.
Qed.

(* ---------------------------------------------------------------- one exchange between two replicas *)

(* [exchange nb w ls i j]: somewhere in the phase ls replica i runs SyncWithPeer j; the request is delivered to j;
   everything j answers (batches, in order) is delivered to i; if j's answer contains a counter-request it is delivered
   to i (at any point after it was emitted, possibly overtaking the batches) and i's answer batches are delivered to
   j in order.  Arbitrary other steps may be interleaved everywhere (l1, and inside l2 ...). *)
Definition exchange (nb : N -> liter -> batch * liter) (w : world) (ls : list label) (i j : nat) : Prop :=
  exists l0 l1 l2,
    let w0 := run nb w l0 in
    let req := full_request (wG w0) (get_rep w0 i) in
    let w1 := run nb w0 (SyncWithPeer i j :: l1) in
    let em := snd (step nb w1 (Deliver j i req)) in
    ls = l0 ++ SyncWithPeer i j :: l1 ++ Deliver j i req :: l2
    /\ in_order (resp_labels i j em) l2
    /\ forall h pa, In (i, MReq h pa) em ->
         exists l3 l4, l2 = l3 ++ Deliver i j (MReq h pa) :: l4
           /\ in_order (resp_labels j i (snd (step nb (run nb w1 (Deliver j i req :: l3)) (Deliver i j (MReq h pa))))) l4.

Lemma cs_loop_len : forall sq sub, cs_loop sq sub = true -> length sub <= length sq.
Proof.
  induction sq as [|a r IH]; intros sub H; cbn [cs_loop] in H.
  - destruct sub; [cbn; lia | discriminate].
  - destruct sub as [|b sr]; [cbn; lia|]. destruct (N.eqb a b).
    + pose proof (IH sr H). cbn [length]. lia.
    + destruct (N.ltb a b); [|discriminate]. pose proof (IH (b :: sr) H). cbn [length] in *. lia.
Qed.

Lemma cs_loop_eq : forall sq sub, cs_loop sq sub = true -> length sub = length sq -> sub = sq.
Proof.
  induction sq as [|a r IH]; intros sub H Hl; cbn [cs_loop] in H.
  - destruct sub; [reflexivity | discriminate].
  - destruct sub as [|b sr]; [discriminate|]. destruct (N.eqb a b) eqn:E.
    + apply N.eqb_eq in E. subst b. f_equal. apply IH; [exact H | cbn [length] in Hl; lia].
    + destruct (N.ltb a b); [|discriminate]. pose proof (cs_loop_len _ _ H). cbn [length] in *. lia.
Qed.

(* the answer to a request carries the responder's own full-sync request unless the requester's heads are all among
   the responder's (then the responder already stores everything the requester stores) *)
Lemma handle_req_counter : forall nb U rq rp p,
  let G := map se_ch U in
  ginv G -> rinv G rq -> rinv G rp ->
  In (p, full_request G rq) (handle_req nb U (groot G) rq p (rep_heads G rp) (path_or_nil G rp))
  \/ incl (r_have rp) (r_have rq).
Proof.
  intros nb U rq rp p G HG Hrq Hrp.
  destruct (rep_path_exists G rq HG Hrq) as [Pq' HPq]. destruct (rep_path_exists G rp HG Hrp) as [Pp' HPp].
  unfold handle_req. fold G. unfold full_request, path_or_nil. rewrite HPq, HPp.
  destruct (common_snapshot_exists Pq' Pp' (groot G)) as [cs Ecs].
  assert (Echoose : choose_snapshot (Pq' ++ [groot G]) (Pp' ++ [groot G]) = Some cs).
  { unfold choose_snapshot. destruct (Pp' ++ [groot G]) eqn:E; [destruct Pp'; discriminate | exact Ecs]. }
  rewrite Echoose.
  destruct (same_set (rep_heads G rq) (rep_heads G rp) || contains_sorted (rep_heads G rp) (rep_heads G rq)) eqn:Eeq.
  - destruct (Nat.eqb (length (rep_heads G rq)) (length (rep_heads G rp))) eqn:El; [|left; right; left; reflexivity].
    right. apply Nat.eqb_eq in El.
    assert (Hsub : incl (rep_heads G rp) (rep_heads G rq)).
    { apply orb_true_iff in Eeq. destruct Eeq as [E|E].
      - intros h Hh. apply (same_set_In _ _ h E). exact Hh.
      - unfold contains_sorted in E. apply andb_true_iff in E. destruct E as [_ E].
        apply cs_loop_eq in E; [|rewrite !isort_length; exact El].
        intros h Hh. apply (proj1 (isort_In h (rep_heads G rq))). rewrite E. apply (proj2 (isort_In h _)). exact Hh. }
    intros x Hx. destruct (have_below_head G rp x HG Hrp Hx) as [h [Hh Hxh]].
    destruct Hrq as [Hclq [Hrootq _]]. apply (closed_anc G _ x h Hclq); [|exact Hxh].
    apply (rep_heads_incl G rq Hrootq). apply Hsub. exact Hh.
  - left. apply in_or_app. right. destruct (is_nil (rep_heads G rp)) eqn:En; [|left; reflexivity].
    exfalso. apply (rep_heads_nonempty G rp HG Hrp). destruct (rep_heads G rp); [reflexivity | discriminate].
Qed.

Theorem exchange_catch_up : forall w ls i j,
  sinv w -> noadd ls -> i < length (w_reps w) -> j < length (w_reps w) ->
  exchange next_batch w ls i j ->
  incl (r_have (get_rep w j)) (r_have (get_rep (run next_batch w ls) i))
  /\ incl (r_have (get_rep w i)) (r_have (get_rep (run next_batch w ls) j)).
Proof.
  intros w ls i j Hw Hna Hi Hj [l0 [l1 [l2 [Els [Hord Hcounter]]]]]. cbv zeta in Els, Hord, Hcounter.
  split.
  - apply (answered_catch_up w ls i j Hw Hna Hi Hj). exists l0, (SyncWithPeer i j :: l1), l2. cbv zeta. split; [exact Els | exact Hord].
  - pose proof Hna as Hna'. rewrite Els in Hna'. apply noadd_app in Hna'. destruct Hna' as [Hna0 Hna1].
    change (SyncWithPeer i j :: l1 ++ Deliver j i (full_request (wG (run next_batch w l0)) (get_rep (run next_batch w l0) i)) :: l2)
      with ((SyncWithPeer i j :: l1) ++ Deliver j i (full_request (wG (run next_batch w l0)) (get_rep (run next_batch w l0) i)) :: l2) in Hna1.
    apply noadd_app in Hna1. destruct Hna1 as [Hna1 Hna2].
    destruct (run_noadd next_batch l0 w Hw Hna0) as [Hw0 [HG0 [Hlen0 Hmono0]]].
    set (w0 := run next_batch w l0) in *.
    destruct (run_noadd next_batch _ w0 Hw0 Hna1) as [Hw1 [HG1 [Hlen1 Hmono1]]].
    set (w1 := run next_batch w0 (SyncWithPeer i j :: l1)) in *.
    set (req := full_request (wG w0) (get_rep w0 i)) in *.
    assert (Hj1 : j < length (w_reps w1)) by lia.
    pose proof (proj1 Hw1) as HG.
    pose proof (get_rep_rinv w1 j Hw1 Hj1) as Hrq.
    assert (Hrp : rinv (wG w1) (get_rep w0 i)) by (rewrite HG1; apply get_rep_rinv; [exact Hw0 | lia]).
    assert (Hem : snd (step next_batch w1 (Deliver j i req))
                  = handle_req next_batch (w_uni w1) (groot (wG w1)) (get_rep w1 j) i (rep_heads (wG w1) (get_rep w0 i)) (path_or_nil (wG w1) (get_rep w0 i))).
    { unfold step. apply Nat.ltb_lt in Hj1. rewrite Hj1. cbn [snd]. unfold req, full_request. rewrite <- HG1, root0_groot. reflexivity. }
    destruct (handle_req_counter next_batch (w_uni w1) (get_rep w1 j) (get_rep w0 i) i HG Hrq Hrp) as [Hin|Hsub].
    + (* the counter-request is answered by i *)
      change (map se_ch (w_uni w1)) with (wG w1) in Hin. rewrite <- Hem in Hin. unfold full_request in Hin.
      destruct (Hcounter _ _ Hin) as [l3 [l4 [El2 Hord2]]].
      apply (answered_catch_up w ls j i Hw Hna Hj Hi).
      exists (l0 ++ SyncWithPeer i j :: l1), (Deliver j i req :: l3), l4. cbv zeta.
      rewrite run_app. fold w0. fold w1. split.
      * rewrite Els, El2, <- app_assoc. reflexivity.
      * exact Hord2.
    + intros x Hx. destruct (run_noadd next_batch ls w Hw Hna) as [_ [_ [_ Hmono]]].
      assert (Hls : ls = (l0 ++ SyncWithPeer i j :: l1) ++ Deliver j i req :: l2) by (rewrite Els, <- app_assoc; reflexivity).
      rewrite Hls, run_app, run_app. fold w0. fold w1.
      assert (Hna3 : noadd (Deliver j i req :: l2)) by exact Hna2.
      destruct (run_noadd next_batch _ w1 Hw1 Hna3) as [_ [_ [_ Hmono3]]].
      apply (Hmono3 j). apply Hsub. apply (Hmono0 i). exact Hx.
Qed.

(* ---------------------------------------------------------------- convergence *)

(* a fair anti-entropy phase: every pair of replicas completes an exchange, initiated by either side *)
Definition fair (nb : N -> liter -> batch * liter) (w : world) (ls : list label) : Prop :=
  forall i j, i < length (w_reps w) -> j < length (w_reps w) -> i <> j ->
    exchange nb w ls i j \/ exchange nb w ls j i.

Theorem convergence_sets : forall w ls,
  sinv w -> uinv w -> noadd ls -> fair next_batch w ls ->
  let w' := run next_batch w ls in
  wG w' = wG w /\
  forall b, b < length (w_reps w') -> forall i, In i (r_have (get_rep w' b)) <-> In i (ids (wG w')).
Proof.
  intros w ls Hw Hu Hna Hfair.
  apply (convergence_from_catch_up next_batch w ls (sinv_winv w Hw) Hu Hna).
  intros a b Ha Hb. exists ls, []. split; [rewrite app_nil_r; reflexivity|].
  destruct (Nat.eq_dec a b) as [<-|Hab].
  - destruct (run_noadd next_batch ls w Hw Hna) as [_ [_ [_ Hmono]]]. apply Hmono.
  - destruct (Hfair a b Ha Hb Hab) as [He|He].
    + exact (proj2 (exchange_catch_up w ls a b Hw Hna Ha Hb He)).
    + exact (proj1 (exchange_catch_up w ls b a Hw Hna Hb Ha He)).
Qed.
