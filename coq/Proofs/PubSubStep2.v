(* C17 — serving side of Model/PubSub.v: stream close / break, eviction, CloseSpace, open, publish preserve [Inv].
   Plain stdlib style. *)
From Coq Require Import List NArith Bool Arith Lia.
Import ListNotations.
From AnySync Require Import Model.Trie Model.PubSub Proofs.TrieProofs Proofs.PubSubBase Proofs.PubSubInv Proofs.PubSubStep.

Definition remove_all (l : list str) (tr : trie) : trie := fold_left (fun t p => fst (trie_remove t p)) l tr.

Lemma remove_all_inv : forall l tr f, NoDup l -> trie_inv tr f ->
  trie_inv (remove_all l tr) (fun q => (f q - N.of_nat (b2n (mem_str q l)))%N).
Proof.
  unfold remove_all. induction l as [|p l IH]; intros tr f ND HT; cbn [fold_left].
  - eapply trie_inv_ext; [exact HT|]. intros q. cbn [mem_str b2n]. lia.
  - inversion ND as [|x xs Hn ND']; subst.
    eapply trie_inv_ext; [apply (IH _ _ ND' (trie_inv_remove tr f p HT))|]. intros q. cbv beta. cbn [mem_str].
    destruct (str_eqb q p) eqn:E; cbn [orb b2n]; [|reflexivity].
    apply str_eqb_eq in E. subst q. assert (Em : mem_str p l = false).
    { destruct (mem_str p l) eqn:Em; auto. apply mem_str_in in Em. contradiction. }
    rewrite Em. cbn [b2n]. lia.
Qed.

(* ------------------------------------------------------------------ onStreamClose *)

Definition close_body (rem : list (N * trie)) (e : N * list str) : list (N * trie) :=
  match nassoc (fst e) rem with
  | None => rem
  | Some tr => prune_space rem (fst e) (remove_all (snd e) tr)
  end.

Definition by_has (by_ : list (N * list str)) (sp : N) (q : str) : bool :=
  match nassoc sp by_ with Some l => mem_str q l | None => false end.

Lemma close_fold : forall by_ rem (F : N -> str -> N),
  NoDup (map fst by_) ->
  (forall sp0, space_ok (F sp0) (nassoc sp0 rem)) ->
  (forall sp0 l, nassoc sp0 by_ = Some l -> NoDup l) ->
  forall sp0, space_ok (fun q => (F sp0 q - N.of_nat (b2n (by_has by_ sp0 q)))%N)
                       (nassoc sp0 (fold_left close_body by_ rem)).
Proof.
  induction by_ as [|[k l] r IH]; intros rem F ND HR HL sp0; cbn [fold_left].
  - eapply space_ok_ext; [apply HR|]. intros q. unfold by_has. cbn [nassoc b2n]. lia.
  - cbn [map fst] in ND. inversion ND as [|x xs Hn ND']; subst.
    assert (NDl : NoDup l) by (apply (HL k l); cbn [nassoc]; rewrite N.eqb_refl; reflexivity).
    set (F1 := fun sp1 q => if N.eqb sp1 k then (F k q - N.of_nat (b2n (mem_str q l)))%N else F sp1 q).
    assert (HR1 : forall sp1, space_ok (F1 sp1) (nassoc sp1 (close_body rem (k, l)))).
    { intros sp1. unfold close_body, F1. cbn [fst snd]. destruct (N.eqb sp1 k) eqn:E1.
      - apply N.eqb_eq in E1. subst sp1. pose proof (HR k) as Hk. destruct (nassoc k rem) as [tr|] eqn:Ek.
        + apply prune_space_ok. apply remove_all_inv; [exact NDl|apply Hk].
        + rewrite Ek. cbn [space_ok] in *. intros q. rewrite Hk. reflexivity.
      - apply N.eqb_neq in E1. destruct (nassoc k rem) as [tr|] eqn:Ek; [|apply HR].
        rewrite prune_space_other by congruence. apply HR. }
    assert (HL1 : forall sp1 l1, nassoc sp1 r = Some l1 -> NoDup l1).
    { intros sp1 l1 H1. apply (HL sp1 l1). cbn [nassoc]. destruct (N.eqb sp1 k) eqn:E1; [|exact H1].
      apply N.eqb_eq in E1. subst sp1. apply nassoc_in in H1. exfalso. apply Hn. change k with (fst (k, l1)). apply in_map. exact H1. }
    eapply space_ok_ext; [apply (IH _ F1 ND' HR1 HL1 sp0)|]. intros q. unfold F1, by_has. cbn [nassoc].
    destruct (N.eqb sp0 k) eqn:E0; [|reflexivity]. apply N.eqb_eq in E0. subst sp0.
    apply nassoc_none_notin in Hn. rewrite Hn. cbn [b2n]. lia.
Qed.

Lemma on_stream_close_unfold : forall s sid,
  on_stream_close s sid =
  match nassoc sid (sv_streams s) with
  | None => s
  | Some st => mkSvc (fold_left close_body (ss_by st) (sv_remote s)) (ndel sid (sv_streams s))
                     (sv_pool s) (sv_conns s) (sv_members s) (sv_rate s)
  end.
Proof. reflexivity. Qed.

(* removing a stream from the pool (with its close hook) *)
Lemma inv_pool_remove : forall s sid, Inv s ->
  Inv (pool_remove s sid) /\ in_pool (pool_remove s sid) sid = false /\ nassoc sid (sv_streams (pool_remove s sid)) = None
  /\ sv_conns (pool_remove s sid) = sv_conns s.
Proof.
  intros s sid [HC HT]. unfold pool_remove. destruct (in_pool s sid) eqn:EP.
  2:{ split; [split; assumption|split; [exact EP|split; [|reflexivity]]].
      destruct (nassoc sid (sv_streams s)) as [st|] eqn:E; [|reflexivity].
      destruct (c_rec s HC sid st E) as (_ & Hp & _). congruence. }
  rewrite on_stream_close_unfold. cbn [sv_streams sv_remote sv_pool sv_conns sv_members sv_rate].
  set (s' := match nassoc sid (sv_streams s) with
             | Some st => mkSvc (fold_left close_body (ss_by st) (sv_remote s)) (ndel sid (sv_streams s))
                                (ndel sid (sv_pool s)) (sv_conns s) (sv_members s) (sv_rate s)
             | None => mkSvc (sv_remote s) (sv_streams s) (ndel sid (sv_pool s)) (sv_conns s) (sv_members s) (sv_rate s)
             end).
  assert (Es : sv_streams s' = ndel sid (sv_streams s) /\ sv_pool s' = ndel sid (sv_pool s) /\ sv_conns s' = sv_conns s).
  { unfold s'. destruct (nassoc sid (sv_streams s)) eqn:E; cbn [sv_streams sv_pool sv_conns]; auto.
    rewrite (ndel_absent _ _ E). auto. }
  destruct Es as (E1 & E2 & E3).
  assert (HC' : core s').
  { constructor; rewrite ?E1, ?E2, ?E3.
    - apply nodup_ndel. apply HC.
    - apply nodup_ndel. apply HC.
    - intros sid0 st0 H0. destruct (N.eq_dec sid sid0) as [<-|Hn0]; [rewrite nassoc_ndel_same in H0; discriminate|].
      rewrite nassoc_ndel_other in H0 by exact Hn0. destruct (c_rec s HC sid0 st0 H0) as (A & B & C).
      split; [exact A|split; [|exact C]]. unfold in_pool in *. rewrite E2, nassoc_ndel_other by exact Hn0. exact B.
    - intros sid0 tags0 H0. unfold has. rewrite E1. destruct (N.eq_dec sid sid0) as [<-|Hn0]; [rewrite nassoc_ndel_same in H0; discriminate|].
      rewrite nassoc_ndel_other in H0 by exact Hn0. rewrite nassoc_ndel_other by exact Hn0. apply (c_tags s HC sid0 tags0 H0).
    - intros sid0 H0. apply (c_pool_conn s HC sid0). unfold in_pool in *. rewrite E2 in H0.
      destruct (N.eq_dec sid sid0) as [<-|Hn0]; [rewrite nassoc_ndel_same in H0; discriminate|].
      rewrite nassoc_ndel_other in H0 by exact Hn0. exact H0. }
  split; [split; [exact HC'|]|split; [|split]].
  - intros sp0. rewrite E1. unfold s'. destruct (nassoc sid (sv_streams s)) as [st|] eqn:E; cbn [sv_remote].
    + destruct (c_rec s HC sid st E) as ([(NDb & HLb & _) _] & _ & _).
      eapply space_ok_ext; [apply (close_fold (ss_by st) (sv_remote s) (cnt (sv_streams s)) NDb HT)|].
      * intros sp1 l Hl. apply (HLb sp1 l Hl).
      * intros q. cbv beta. pose proof (cnt_ndel sid (sv_streams s) sp0 q (c_nd_streams s HC)) as Ec.
        rewrite E in Ec. cbn [ohas] in Ec. change (by_has (ss_by st) sp0 q) with (st_has st sp0 q). lia.
    + rewrite (ndel_absent _ _ E). apply HT.
  - unfold in_pool. rewrite E2, nassoc_ndel_same. reflexivity.
  - rewrite E1. apply nassoc_ndel_same.
  - exact E3.
Qed.

(* ------------------------------------------------------------------ evictSpaceStreams *)

Definition ev_acc := (list (N * sstream) * list (N * list tag) * option trie)%type.

Definition ev_body (space : N) (evict : N -> bool) (with_trie : bool) (a : ev_acc) (e : N * sstream) : ev_acc :=
  let '(strs, pool, tro) := a in
  let sid := fst e in let st := snd e in
  match nassoc space (ss_by st) with
  | None => a
  | Some pats =>
      if is_nil pats || negb (evict (ss_account st)) then a
      else
        let total' := fold_left (fun t _ => N.pred t) pats (ss_total st) in
        let tro' := if with_trie
                    then option_map (fun tr => fold_left (fun t p => fst (trie_remove t p)) pats tr) tro
                    else tro in
        let st' := mkSS (ss_account st) (ndel space (ss_by st)) total' in
        (prune_stream strs sid st',
         pool_remove_tags pool sid (map (fun p => (space, p)) pats), tro')
  end.

Lemma evict_streams_unfold : forall s space evict with_trie,
  evict_streams s space evict with_trie =
  let '(streams', pool', tr') :=
    fold_left (ev_body space evict with_trie) (sv_streams s) (sv_streams s, sv_pool s, nassoc space (sv_remote s)) in
  let remote' :=
    if with_trie then match tr' with Some tr => prune_space (sv_remote s) space tr | None => sv_remote s end
    else ndel space (sv_remote s) in
  mkSvc remote' streams' pool' (sv_conns s) (sv_members s) (sv_rate s).
Proof. reflexivity. Qed.

Lemma fold_pred : forall {A} (l : list A) t, fold_left (fun t _ => N.pred t) l t = (t - N.of_nat (length l))%N.
Proof. induction l as [|x l IH]; intros t; cbn [fold_left length]; [lia|]. rewrite IH. lia. Qed.

(* what the fold maintains; [s0] only supplies conns (core's other fields are the accumulators) *)
Record ev_inv (s0 : svc) (space : N) (evict : N -> bool) (with_trie : bool)
              (l : list (N * sstream)) (a : ev_acc) : Prop := mkEvInv {
  ei_core : core (mkSvc (sv_remote s0) (fst (fst a)) (snd (fst a)) (sv_conns s0) (sv_members s0) (sv_rate s0));
  ei_other : forall sp0 q, sp0 <> space -> cnt (fst (fst a)) sp0 q = cnt (sv_streams s0) sp0 q;
  ei_le : forall q, (cnt (fst (fst a)) space q <= cnt (sv_streams s0) space q)%N;
  ei_trie : with_trie = true ->
            match snd a, nassoc space (sv_remote s0) with
            | Some tr, Some _ => trie_inv tr (cnt (fst (fst a)) space)
            | None, None => True
            | _, _ => False
            end;
  ei_pending : forall sid st, In (sid, st) l -> nassoc sid (fst (fst a)) = Some st;
  ei_done : forall sid st, nassoc sid (fst (fst a)) = Some st -> ~ In sid (map fst l) ->
            forall q, st_has st space q && evict (ss_account st) = false;
  ei_mono : forall sid sp0 q, ohas (nassoc sid (fst (fst a))) sp0 q = true -> has s0 sid sp0 q = true;
  ei_keep : forall sid sp0 q, has s0 sid sp0 q = true ->
            (sp0 <> space \/ (exists st, nassoc sid (sv_streams s0) = Some st /\ evict (ss_account st) = false)
             \/ In sid (map fst l)) ->
            ohas (nassoc sid (fst (fst a))) sp0 q = true
}.

Lemma ev_fold : forall s0 space evict with_trie l a,
  NoDup (map fst l) -> (forall sid st, In (sid, st) l -> nassoc sid (sv_streams s0) = Some st) ->
  ev_inv s0 space evict with_trie l a ->
  ev_inv s0 space evict with_trie [] (fold_left (ev_body space evict with_trie) l a).
Proof.
  intros s0 space evict with_trie. induction l as [|[sid st] l IH]; intros a ND Horig HI; cbn [fold_left]; [exact HI|].
  cbn [map fst] in ND. inversion ND as [|x xs Hn ND']; subst.
  apply IH; [exact ND'|intros sid1 st1 H1; apply Horig; right; exact H1|].
  destruct a as [[strs pool] tro]. destruct HI as [HC Hoth Hle Htrie Hpend Hdone Hmono Hkeep]. cbn [fst snd] in *.
  assert (Hrec : nassoc sid strs = Some st) by (apply Hpend; left; reflexivity).
  assert (Hrec0 : nassoc sid (sv_streams s0) = Some st) by (apply Horig; left; reflexivity).
  unfold ev_body. cbn [fst snd].
  assert (Skip : (forall q, st_has st space q && evict (ss_account st) = false) ->
                 ev_inv s0 space evict with_trie l (strs, pool, tro)).
  { intros Hsk. constructor; cbn [fst snd]; auto.
    - intros sid1 st1 H1. apply Hpend. right. exact H1.
    - intros sid1 st1 H1 Hn1 q. destruct (N.eq_dec sid sid1) as [<-|Hne].
      + rewrite Hrec in H1. inversion H1; subst st1. apply Hsk.
      + apply (Hdone sid1 st1 H1). cbn [map fst In]. intros [E|E]; [congruence|auto].
    - intros sid1 sp0 q Hh [H|[H|H]]; apply Hkeep; auto.
      destruct (N.eq_dec sid sid1) as [<-|Hne]; [|right; right; right; exact H].
      destruct (N.eq_dec sp0 space) as [->|Hns]; [|left; exact Hns].
      right. left. exists st. split; [exact Hrec0|]. unfold has in Hh. rewrite Hrec0 in Hh. cbn [ohas] in Hh.
      specialize (Hsk q). rewrite Hh in Hsk. exact Hsk. }
  destruct (nassoc space (ss_by st)) as [pats|] eqn:EB.
  2:{ apply Skip. intros q. unfold st_has. rewrite EB. reflexivity. }
  destruct (is_nil pats) eqn:ENil; cbn [orb].
  { apply Skip. intros q. unfold st_has. rewrite EB. destruct pats; [reflexivity|discriminate]. }
  destruct (evict (ss_account st)) eqn:EE; cbn [negb].
  2:{ apply Skip. intros q. apply andb_false_r. }
  (* the stream is evicted from [space] *)
  set (st' := mkSS (ss_account st) (ndel space (ss_by st)) (fold_left (fun t _ => N.pred t) pats (ss_total st))).
  destruct (c_rec _ HC sid st Hrec) as ([(NDb & HLb & HTb) _] & _ & _). cbn [sv_streams] in *.
  destruct (HLb space pats EB) as (_ & NDp & _).
  assert (HB' : by_ok st').
  { split; [apply nodup_ndel; exact NDb|split].
    - intros sp0 l0 H0. cbn [st' ss_by] in H0. destruct (N.eq_dec space sp0) as [<-|Hne]; [rewrite nassoc_ndel_same in H0; discriminate|].
      rewrite nassoc_ndel_other in H0 by exact Hne. apply (HLb sp0 l0 H0).
    - cbn [st' ss_by ss_total]. rewrite fold_pred. pose proof (tot_ndel space (ss_by st) NDb) as Et. rewrite EB in Et. rewrite HTb. lia. }
  assert (Hh : forall sp0 q, st_has st' sp0 q = st_has st sp0 q && negb (N.eqb sp0 space && true)).
  { intros sp0 q. unfold st_has. cbn [st' ss_by]. rewrite andb_true_r. destruct (N.eqb sp0 space) eqn:E0; cbn [negb].
    - apply N.eqb_eq in E0. subst sp0. rewrite nassoc_ndel_same, andb_false_r. reflexivity.
    - apply N.eqb_neq in E0. rewrite nassoc_ndel_other by congruence. rewrite andb_true_r. reflexivity. }
  assert (Hgone : forall q, mem_str q pats = st_has st space q && true).
  { intros q. unfold st_has. rewrite EB, andb_true_r. reflexivity. }
  set (sI := mkSvc (sv_remote s0) strs pool (sv_conns s0) (sv_members s0) (sv_rate s0)) in *.
  pose proof (withdraw_cnt_space sI sid space st st' (fun _ => true) HC Hrec HB' eq_refl Hh) as Hcs.
  pose proof (withdraw_cnt_other sI sid space st st' (fun _ => true) HC Hrec HB' eq_refl Hh) as Hco.
  pose proof (withdraw_has sI sid st' HB') as Hwh.
  cbn [sI sv_streams] in Hcs, Hco, Hwh.
  constructor; cbn [fst snd].
  - apply (withdraw_core sI sid space st st' (fun _ => true) pats HC Hrec HB' eq_refl Hh Hgone).
  - intros sp0 q Hne. rewrite Hco by exact Hne. apply Hoth. exact Hne.
  - intros q. rewrite Hcs. specialize (Hle q). lia.
  - intros Hw. specialize (Htrie Hw). rewrite Hw. destruct tro as [tr|], (nassoc space (sv_remote s0)); cbn [option_map]; auto.
    eapply trie_inv_ext; [apply (remove_all_inv pats tr _ NDp Htrie)|]. intros q. cbv beta. rewrite Hcs, <- Hgone. reflexivity.
  - intros sid1 st1 H1. assert (Hne : sid <> sid1).
    { intros <-. apply Hn. change sid with (fst (sid, st1)). apply in_map. exact H1. }
    rewrite prune_stream_other by exact Hne. apply Hpend. right. exact H1.
  - intros sid1 st1 H1 Hn1 q. destruct (N.eq_dec sid sid1) as [<-|Hne].
    + rewrite prune_stream_same in H1. destruct (N.eqb (ss_total st') 0); [discriminate|]. inversion H1; subst st1.
      rewrite Hh, N.eqb_refl. cbn [andb negb]. rewrite andb_false_r. reflexivity.
    + rewrite prune_stream_other in H1 by exact Hne. apply (Hdone sid1 st1 H1). cbn [map fst In]. intros [E|E]; [congruence|auto].
  - intros sid1 sp0 q H1. destruct (N.eq_dec sid sid1) as [<-|Hne].
    + rewrite Hwh, Hh in H1. apply andb_true_iff in H1. apply Hmono. rewrite Hrec. cbn [ohas]. apply H1.
    + rewrite prune_stream_other in H1 by exact Hne. apply Hmono. exact H1.
  - intros sid1 sp0 q Hh0 Hcase. destruct (N.eq_dec sid sid1) as [<-|Hne].
    + rewrite Hwh, Hh. unfold has in Hh0. rewrite Hrec0 in Hh0. cbn [ohas] in Hh0. rewrite Hh0. cbn [andb].
      destruct Hcase as [H|[(st1 & H1 & H2)|H]].
      * apply N.eqb_neq in H. rewrite H. reflexivity.
      * rewrite Hrec0 in H1. inversion H1; subst st1. congruence.
      * contradiction.
    + rewrite prune_stream_other by exact Hne. apply Hkeep; [exact Hh0|].
      destruct Hcase as [H|[H|H]]; auto. right. right. cbn [map fst In]. right. exact H.
Qed.

Lemma cnt_zero : forall l sp q, NoDup (map fst l) ->
  (forall sid st, nassoc sid l = Some st -> st_has st sp q = false) -> cnt l sp q = 0%N.
Proof.
  intros l sp q ND H. destruct (N.eq_dec (cnt l sp q) 0) as [E|E]; [exact E|].
  destruct (cnt_pos_has l sp q ND) as (sid & st & H1 & H2); [lia|]. rewrite (H sid st H1) in H2. discriminate.
Qed.

Lemma evict_result : forall s space evict with_trie,
  Inv s -> (with_trie = true \/ forall a, evict a = true) ->
  let s' := evict_streams s space evict with_trie in
  Inv s' /\ sv_conns s' = sv_conns s /\ sv_members s' = sv_members s /\ sv_rate s' = sv_rate s
  /\ (forall sid sp0 q, has s' sid sp0 q = true -> has s sid sp0 q = true)
  /\ (forall sid st, nassoc sid (sv_streams s') = Some st -> forall q, st_has st space q && evict (ss_account st) = false)
  /\ (forall sid sp0 q, has s sid sp0 q = true ->
        (sp0 <> space \/ exists st, nassoc sid (sv_streams s) = Some st /\ evict (ss_account st) = false) ->
        has s' sid sp0 q = true).
Proof.
  intros s space evict with_trie [HC HT] Hmode. cbv zeta. rewrite evict_streams_unfold.
  assert (Hinit : ev_inv s space evict with_trie (sv_streams s) (sv_streams s, sv_pool s, nassoc space (sv_remote s))).
  { constructor; cbn [fst snd].
    - rewrite svc_eta. exact HC.
    - reflexivity.
    - intros q. lia.
    - intros _. pose proof (HT space) as H. destruct (nassoc space (sv_remote s)); [apply H|exact I].
    - intros sid st H. apply in_nassoc; [apply HC|exact H].
    - intros sid st H Hn. exfalso. apply nassoc_none_notin in Hn. congruence.
    - intros sid sp0 q H. exact H.
    - intros sid sp0 q H _. exact H. }
  assert (Horig : forall sid st, In (sid, st) (sv_streams s) -> nassoc sid (sv_streams s) = Some st).
  { intros sid st H. apply in_nassoc; [apply HC|exact H]. }
  pose proof (ev_fold s space evict with_trie (sv_streams s) _ (c_nd_streams s HC) Horig Hinit) as HF.
  destruct (fold_left (ev_body space evict with_trie) (sv_streams s) (sv_streams s, sv_pool s, nassoc space (sv_remote s)))
    as [[strs' pool'] tro'].
  destruct HF as [HC' Hoth Hle Htrie _ Hdone Hmono Hkeep]. cbn [fst snd] in *.
  cbn [sv_conns sv_members sv_rate sv_streams].
  split; [split|split; [reflexivity|split; [reflexivity|split; [reflexivity|split; [|split]]]]].
  - apply (core_irrel _ _ (sv_members s) (sv_rate s) HC').
  - intros sp0. cbn [sv_remote sv_streams]. destruct (N.eq_dec space sp0) as [<-|Hne].
    + destruct with_trie.
      * specialize (Htrie eq_refl). pose proof (HT space) as HTs.
        destruct tro' as [tr|], (nassoc space (sv_remote s)) eqn:ER; try contradiction.
        -- apply prune_space_ok. exact Htrie.
        -- cbn [space_ok] in *. intros q. specialize (Hle q). rewrite HTs in Hle. lia.
      * destruct Hmode as [Hm|Hm]; [discriminate|]. rewrite nassoc_ndel_same. cbn [space_ok]. intros q.
        apply cnt_zero; [apply HC'|]. intros sid st H. specialize (Hdone sid st H (fun x => x) q).
        rewrite Hm, andb_true_r in Hdone. exact Hdone.
    + assert (En : nassoc sp0 (if with_trie
                               then match tro' with Some tr => prune_space (sv_remote s) space tr | None => sv_remote s end
                               else ndel space (sv_remote s)) = nassoc sp0 (sv_remote s)).
      { destruct with_trie; [destruct tro'; [apply prune_space_other; exact Hne|reflexivity]|apply nassoc_ndel_other; exact Hne]. }
      rewrite En. eapply space_ok_ext; [apply HT|]. intros q. symmetry. apply Hoth. congruence.
  - intros sid sp0 q H. apply Hmono. exact H.
  - intros sid st H q. apply (Hdone sid st H). intros [].
  - intros sid sp0 q H Hc. apply Hkeep; [exact H|]. destruct Hc as [Hc|Hc]; auto.
Qed.

(* ------------------------------------------------------------------ the remaining events *)

Lemma handle_pub_state : forall c s sid space topic claim relayed wf,
  exists rate, fst (handle_pub c s sid space topic claim relayed wf)
               = mkSvc (sv_remote s) (sv_streams s) (sv_pool s) (sv_conns s) (sv_members s) rate.
Proof.
  intros. unfold handle_pub. cbv zeta.
  repeat match goal with
         | |- context [match ?x with _ => _ end] =>
             match x with
             | context [match _ with _ => _ end] => fail 1
             | _ => destruct x
             end
         end; cbn [fst]; eexists; try (rewrite <- (svc_eta s) at 1; reflexivity); reflexivity.
Qed.

Lemma inv_open : forall s sid acct, Inv s -> nassoc sid (sv_conns s) = None ->
  Inv (mkSvc (sv_remote s) (sv_streams s) (nset sid [] (sv_pool s)) (nset sid acct (sv_conns s)) (sv_members s) (sv_rate s)).
Proof.
  intros s sid acct [HC HT] Hfresh.
  assert (Hnp : nassoc sid (sv_pool s) = None).
  { destruct (nassoc sid (sv_pool s)) eqn:E; [|reflexivity]. exfalso. apply (c_pool_conn s HC sid); [|exact Hfresh].
    unfold in_pool. rewrite E. reflexivity. }
  assert (Hns : nassoc sid (sv_streams s) = None).
  { destruct (nassoc sid (sv_streams s)) as [st|] eqn:E; [|reflexivity]. destruct (c_rec s HC sid st E) as (_ & _ & Hc). congruence. }
  split; [|exact HT]. constructor; cbn [sv_streams sv_pool sv_conns].
  - apply HC.
  - apply nodup_nset. apply HC.
  - intros sid0 st0 H0. assert (Hne : sid <> sid0) by (intros <-; congruence).
    destruct (c_rec s HC sid0 st0 H0) as (A & B & C). split; [exact A|].
    unfold in_pool in *. cbn [sv_pool]. rewrite !nassoc_nset_other by exact Hne. auto.
  - intros sid0 tags0 H0. unfold has. cbn [sv_streams]. destruct (N.eq_dec sid sid0) as [<-|Hne].
    + rewrite nassoc_nset_same in H0. inversion H0; subst tags0. split; [constructor|]. intros sp0 q. rewrite Hns. reflexivity.
    + rewrite nassoc_nset_other in H0 by exact Hne. apply (c_tags s HC sid0 tags0 H0).
  - intros sid0 H0. destruct (N.eq_dec sid sid0) as [<-|Hne].
    + rewrite nassoc_nset_same. discriminate.
    + rewrite nassoc_nset_other by exact Hne. apply (c_pool_conn s HC sid0). unfold in_pool in *. cbn [sv_pool] in H0.
      rewrite nassoc_nset_other in H0 by exact Hne. exact H0.
Qed.

Lemma inv_drop_conn : forall s sid, Inv s -> in_pool s sid = false -> nassoc sid (sv_streams s) = None ->
  Inv (drop_conn s sid).
Proof.
  intros s sid [HC HT] Hp Hs. split; [|exact HT]. unfold drop_conn. constructor; cbn [sv_streams sv_pool sv_conns]; try apply HC.
  - intros sid0 st0 H0. assert (Hne : sid <> sid0) by (intros <-; congruence).
    destruct (c_rec s HC sid0 st0 H0) as (A & B & C). split; [exact A|split; [exact B|]]. rewrite nassoc_ndel_other by exact Hne. exact C.
  - intros sid0 H0. assert (Hne : sid <> sid0) by (intros <-; unfold in_pool in *; cbn [sv_pool] in H0; congruence).
    rewrite nassoc_ndel_other by exact Hne. apply (c_pool_conn s HC sid0 H0).
Qed.

Lemma inv_pub : forall c s sid space topic claim relayed wf, Inv s ->
  Inv (fst (handle_pub c s sid space topic claim relayed wf)).
Proof.
  intros c s sid space topic claim relayed wf HI.
  destruct (handle_pub_state c s sid space topic claim relayed wf) as [rate E]. rewrite E.
  destruct HI as [HC HT]. split; [apply (core_irrel s _ _ _ HC)|exact HT].
Qed.

(* the publisher's stream goes away while its Publish is handled: the state is that of "removal ; Publish" or of
   "Publish ; removal", the output is that of the Publish *)
Lemma pub_mid_fst : forall c s sid space topic claim relayed wf,
  fst (handle_pub_mid c s sid space topic claim relayed wf)
  = if pub_reaches_lookup c s sid space topic claim relayed wf
    then fst (handle_pub c (pool_remove s sid) sid space topic claim relayed wf)
    else pool_remove (fst (handle_pub c s sid space topic claim relayed wf)) sid.
Proof.
  intros. unfold handle_pub_mid. destruct (pub_reaches_lookup c s sid space topic claim relayed wf); [reflexivity|].
  destruct (handle_pub c s sid space topic claim relayed wf) as [s2 o]. reflexivity.
Qed.

Lemma pub_mid_snd : forall c s sid space topic claim relayed wf,
  snd (handle_pub_mid c s sid space topic claim relayed wf)
  = if pub_reaches_lookup c s sid space topic claim relayed wf
    then snd (handle_pub c (pool_remove s sid) sid space topic claim relayed wf)
    else snd (handle_pub c s sid space topic claim relayed wf).
Proof.
  intros. unfold handle_pub_mid. destruct (pub_reaches_lookup c s sid space topic claim relayed wf); [reflexivity|].
  destruct (handle_pub c s sid space topic claim relayed wf) as [s2 o]. reflexivity.
Qed.

Lemma inv_pub_mid : forall c s sid space topic claim relayed wf, Inv s ->
  Inv (fst (handle_pub_mid c s sid space topic claim relayed wf)).
Proof.
  intros c s sid space topic claim relayed wf HI. rewrite pub_mid_fst.
  destruct (pub_reaches_lookup c s sid space topic claim relayed wf).
  - apply inv_pub. apply (inv_pool_remove s sid HI).
  - apply inv_pool_remove. apply inv_pub. exact HI.
Qed.

Lemma inv_step : forall c s e, Inv s ->
  (forall sid acct, e = EOpen sid acct -> nassoc sid (sv_conns s) = None) ->
  Inv (fst (svc_step c s e)).
Proof.
  intros c s e HI Hfresh. destruct e; unfold svc_step, svc_step_gen; cbn [fst].
  - apply inv_open; [exact HI|]. eapply Hfresh. reflexivity.
  - apply inv_sub. exact HI.
  - apply inv_unsub. exact HI.
  - destruct (handle_pub_state c s sid space topic claim relayed wellformed) as [rate E]. rewrite E.
    destruct HI as [HC HT]. split; [apply (core_irrel s _ _ _ HC)|exact HT].
  - destruct (inv_pool_remove s sid HI) as (H1 & H2 & H3 & _). apply inv_drop_conn; assumption.
  - apply (inv_pool_remove s sid HI).
  - apply (evict_result s space (N.eqb acct) true HI). left. reflexivity.
  - apply (evict_result s space (fun a => negb (is_member s space a)) true HI). left. reflexivity.
  - apply (evict_result s space (fun _ => true) false HI). right. reflexivity.
  - destruct HI as [HC HT]. split; [apply (core_irrel s _ _ _ HC)|exact HT].
  - exact HI.
  - fold (handle_sub_mid c s sid victim space pats). rewrite (proj1 (mid_state c s sid victim space pats HI)).
    apply inv_pool_remove. apply inv_mid_pre. exact HI.
  - apply inv_pub_mid. exact HI.
Qed.
