(* Lemmas about the head storage as a finite map, FillDiff's element list, and the contents of the ldiff index
   after Set / RemoveId — used by Proofs/HeadIndexMain.v (property C08, DiffManager layer). *)
From Coq Require Import List NArith Bool Lia.
Import ListNotations.
From AnySync Require Import Model.Ldiff Model.HeadIndex Proofs.LdiffContents Proofs.LdiffTree.
Open Scope N_scope.

(* ------------------------------------------------------------------ the store as a finite map *)

Definition uniq_store (s : store) : Prop := NoDup (map e_id s).

Lemma existsb_eqb_in x l : existsb (N.eqb x) l = true <-> In x l.
Proof.
  rewrite existsb_exists. split.
  - intros (y & Hy & He). apply N.eqb_eq in He. subst. exact Hy.
  - intros Hx. exists x. split; [exact Hx|apply N.eqb_refl].
Qed.

Lemma uniq_nb_spec l : uniq_nb l = true -> NoDup l.
Proof.
  induction l as [|x r IH]; cbn [uniq_nb]; intros Hu; [constructor|].
  apply andb_true_iff in Hu as [Hx Hr]. constructor; [|apply IH, Hr].
  intros Hin. apply existsb_eqb_in in Hin. rewrite Hin in Hx. discriminate Hx.
Qed.

Lemma store_okb_spec s : store_okb s = true -> uniq_store s.
Proof. apply uniq_nb_spec. Qed.

Lemma in_put e u s : In e (put u s) <-> e = u \/ (In e s /\ e_id e <> e_id u).
Proof.
  unfold put. cbn [In]. rewrite filter_In, negb_true_iff, N.eqb_neq. split.
  - intros [He|He]; [left; symmetry; exact He|right; exact He].
  - intros [He|He]; [left; symmetry; exact He|right; exact He].
Qed.

Lemma nodup_map_filter (P : entry -> bool) s : NoDup (map e_id s) -> NoDup (map e_id (filter P s)).
Proof.
  induction s as [|a r IH]; cbn [filter map]; intros Hn; [constructor|].
  inversion Hn as [|? ? Hna Hnr]; subst.
  destruct (P a); [|apply IH, Hnr].
  cbn [map]. constructor; [|apply IH, Hnr].
  intros Hin. apply Hna. apply in_map_iff in Hin as (y & Hy & Hyin).
  apply in_map_iff. exists y. split; [exact Hy|]. apply filter_In in Hyin. apply Hyin.
Qed.

Lemma uniq_put u s : uniq_store s -> uniq_store (put u s).
Proof.
  unfold uniq_store, put. intros Hn. cbn [map]. constructor; [|apply nodup_map_filter, Hn].
  intros Hin. apply in_map_iff in Hin as (y & Hy & Hyin).
  apply filter_In in Hyin as [_ Hne]. apply negb_true_iff, N.eqb_neq in Hne. apply Hne, Hy.
Qed.

Lemma uniq_put_all l : forall s, uniq_store s -> uniq_store (put_all l s).
Proof.
  unfold put_all. induction l as [|u r IH]; intros s Hs; [exact Hs|]. cbn [fold_left]. apply IH, uniq_put, Hs.
Qed.

Lemma lookup_some id s e : lookup id s = Some e -> In e s /\ e_id e = id.
Proof. unfold lookup. intros Hf. apply find_some in Hf as [Hin He]. apply N.eqb_eq in He. split; assumption. Qed.

Lemma lookup_none id s : lookup id s = None -> forall e, In e s -> e_id e <> id.
Proof.
  unfold lookup. intros Hf e Hin He. pose proof (find_none _ _ Hf e Hin) as Hn. cbn in Hn.
  apply N.eqb_neq in Hn. apply Hn, He.
Qed.

Lemma uniq_same_id s : uniq_store s -> forall a b, In a s -> In b s -> e_id a = e_id b -> a = b.
Proof.
  unfold uniq_store. induction s as [|x r IH]; intros Hn a b Ha Hb Hid; [destruct Ha|].
  cbn [map] in Hn. inversion Hn as [|? ? Hnx Hnr]; subst.
  destruct Ha as [Ha|Ha], Hb as [Hb|Hb]; subst.
  - reflexivity.
  - exfalso. apply Hnx. rewrite Hid. apply in_map, Hb.
  - exfalso. apply Hnx. rewrite <- Hid. apply in_map, Ha.
  - apply IH; assumption.
Qed.

Lemma lookup_in s e : uniq_store s -> In e s -> lookup (e_id e) s = Some e.
Proof.
  intros Hu Hin. destruct (lookup (e_id e) s) as [e'|] eqn:Hl.
  - apply lookup_some in Hl as [Hin' Hid]. f_equal. apply (uniq_same_id s Hu); assumption.
  - exfalso. exact (lookup_none _ _ Hl e Hin eq_refl).
Qed.

Lemma nl_eqb_eq a : forall b, nl_eqb a b = true -> a = b.
Proof.
  induction a as [|x r IH]; intros [|y t]; cbn [nl_eqb]; intros Hq; try discriminate Hq; [reflexivity|].
  apply andb_true_iff in Hq as [Hx Hr]. apply N.eqb_eq in Hx. subst. f_equal. apply IH, Hr.
Qed.

(* ------------------------------------------------------------------ FillDiff's element list *)

Section Fill.
  Variable H : N -> N.
  Variable HD : list N -> N.
  Hypothesis H64 : forall id, H id <= U64MAX.

  Notation elem_of := (elem_of H HD).
  Notation fill_elems := (fill_elems H HD).

  Lemma eid_elem_of e : eid (elem_of e) = e_id e.
  Proof. reflexivity. Qed.

  Lemma elem_of_ok e : elem_ok H (elem_of e).
  Proof. split; [reflexivity|apply H64]. Qed.

  Lemma in_fill_elems x s :
    In x (fill_elems s) <-> exists e, In e s /\ included_fill e = true /\ x = elem_of e.
  Proof.
    unfold HeadIndex.fill_elems. rewrite in_map_iff. split.
    - intros (e & He & Hin). apply filter_In in Hin as [Hin Hi]. exists e. auto.
    - intros (e & Hin & Hi & He). exists e. split; [symmetry; exact He|apply filter_In; auto].
  Qed.

  Lemma fill_elems_ok s : Forall (elem_ok H) (fill_elems s).
  Proof. apply Forall_forall. intros x Hx. apply in_fill_elems in Hx as (e & _ & _ & ->). apply elem_of_ok. Qed.

  Lemma fill_elems_nodup s : uniq_store s -> NoDup (map eid (fill_elems s)).
  Proof.
    intros Hu. unfold HeadIndex.fill_elems. rewrite map_map.
    rewrite (map_ext (fun e => eid (elem_of e)) e_id (fun e => eq_refl)). apply nodup_map_filter, Hu.
  Qed.

  Lemma fill_ops_ok s : Forall (op_ok H) (fill_ops H HD s).
  Proof.
    unfold fill_ops. pose proof (fill_elems_ok s) as Hok.
    destruct (fill_elems s) as [|a r]; [constructor|]. constructor; [exact Hok|constructor].
  Qed.

  (* what FillDiff sees after an upsert *)
  Lemma in_fill_put x u s :
    In x (fill_elems (put u s)) <->
    (included_fill u = true /\ x = elem_of u) \/ (In x (fill_elems s) /\ eid x <> e_id u).
  Proof.
    rewrite !in_fill_elems. split.
    - intros (e & Hin & Hi & Hx). apply in_put in Hin as [->|[Hin Hne]].
      + left. auto.
      + right. split; [exists e; auto|]. subst x. exact Hne.
    - intros [[Hi Hx]|[(e & Hin & Hi & Hx) Hne]].
      + exists u. split; [apply in_put; left; reflexivity|auto].
      + exists e. split; [apply in_put; right; split; [exact Hin|subst x; exact Hne]|auto].
  Qed.

  (* an update that leaves FillDiff's view of its id unchanged leaves FillDiff's element set unchanged *)
  Lemma fill_put_same x u s :
    uniq_store s ->
    ocontrib_eqb (contrib u) (contrib_of s (e_id u)) = true ->
    (In x (fill_elems (put u s)) <-> In x (fill_elems s)).
  Proof.
    intros Hu Hc. rewrite in_fill_put. unfold contrib_of in Hc.
    destruct (N.eq_dec (eid x) (e_id u)) as [Hid|Hid].
    - (* the element of this id *)
      split.
      + intros [[Hi Hx]|[_ Hne]]; [|exfalso; exact (Hne Hid)].
        unfold contrib in Hc. rewrite Hi in Hc.
        destruct (lookup (e_id u) s) as [e0|] eqn:Hl; [|discriminate Hc].
        apply lookup_some in Hl as [Hin0 Hid0].
        destruct (included_fill e0) eqn:Hi0; [|discriminate Hc].
        cbn [ocontrib_eqb] in Hc. apply nl_eqb_eq in Hc.
        apply in_fill_elems. exists e0. split; [exact Hin0|split; [exact Hi0|]].
        subst x. unfold HeadIndex.elem_of. rewrite Hc, Hid0. reflexivity.
      + intros Hx. left. apply in_fill_elems in Hx as (e & Hin & Hi & Hx).
        assert (Hide : e_id e = e_id u) by (rewrite <- Hid, Hx; reflexivity).
        rewrite <- Hide, (lookup_in s e Hu Hin) in Hc. unfold contrib in Hc. rewrite Hi in Hc.
        destruct (included_fill u); [|discriminate Hc]. split; [reflexivity|].
        cbn [ocontrib_eqb] in Hc. apply nl_eqb_eq in Hc.
        subst x. unfold HeadIndex.elem_of. rewrite Hc, Hide. reflexivity.
    - split.
      + intros [[_ Hx]|[Hx _]]; [exfalso; apply Hid; subst x; reflexivity|exact Hx].
      + intros Hx. right. split; assumption.
  Qed.
End Fill.

(* ------------------------------------------------------------------ contents of the ldiff index *)

Section Contents.
  Variables (df th : N).

  Lemma contents_set_one ix e x :
    In x (contents (set_one df th ix e)) <-> x = e \/ (In x (contents ix) /\ eid x <> eid e).
  Proof.
    assert (Hc : contents (set_one df th ix e) = set_content e (contents ix))
      by (unfold set_one; destruct (has_id (eid e) (contents ix)); reflexivity).
    rewrite Hc. unfold set_content. rewrite in_insert, in_delete. reflexivity.
  Qed.

  Lemma contents_set_many es : forall ix x,
    NoDup (map eid es) ->
    (In x (contents (set_many df th ix es)) <->
     In x es \/ (In x (contents ix) /\ ~ In (eid x) (map eid es))).
  Proof.
    unfold set_many. induction es as [|e r IH]; intros ix x Hn; cbn [fold_left map In].
    - tauto.
    - inversion Hn as [|? ? Hne Hnr]; subst. rewrite (IH _ _ Hnr), contents_set_one. split.
      + intros [Hx|[[Hx|[Hx Hid]] Hnin]].
        * left. right. exact Hx.
        * left. left. symmetry. exact Hx.
        * right. split; [exact Hx|]. intros [Heq|Hin]; [apply Hid; symmetry; exact Heq|exact (Hnin Hin)].
      + intros [[Hx|Hx]|[Hx Hnin]].
        * right. split; [left; symmetry; exact Hx|]. subst x. exact Hne.
        * left. exact Hx.
        * right. split; [right; split; [exact Hx|]|].
          -- intros Heq. apply Hnin. left. symmetry. exact Heq.
          -- intros Hin. apply Hnin. right. exact Hin.
  Qed.

  Lemma contents_remove ix id x :
    In x (contents (fst (remove_id df th ix id))) <-> In x (contents ix) /\ eid x <> id.
  Proof.
    unfold remove_id. destruct (hash_of_id id (contents ix)) as [h|] eqn:Hh; cbn [fst contents].
    - apply in_delete.
    - apply hash_of_id_none in Hh. split; [|tauto]. intros Hx. split; [exact Hx|].
      intros Hid. assert (Hex : has_id id (contents ix) = true) by (apply has_id_spec; eauto).
      rewrite Hex in Hh. discriminate Hh.
  Qed.

  Lemma run_ops_snoc ops o : run_ops df th (ops ++ [o]) = step df th (run_ops df th ops) o.
  Proof. unfold run_ops. rewrite fold_left_app. reflexivity. Qed.
End Contents.
