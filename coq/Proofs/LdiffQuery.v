(* Range queries on a canonical index: what get_range returns, and that equal digests mean equal contents. *)
From Coq Require Import List NArith Bool Arith Lia ZifyBool ZifyN ZifyNat Sorting.Sorted.
Import ListNotations.
From AnySync Require Import Model.Ldiff Proofs.LdiffRanges Proofs.LdiffContents Proofs.LdiffTree.
Open Scope N_scope.

(* the numeral FUEL must never be unfolded by a tactic or by the conversion test *)
Local Opaque FUEL.

Section Query.
  Variables (df th : N).
  Hypothesis Hdf : 2 <= df.
  Hypothesis Hdf64 : df <= U64MAX.

  (* ---------------------------------------------------------------- children partition the contents *)
  Lemma gen_aux_partition l per al : ssorted l -> 1 <= per ->
    forall n j, (1 <= n)%nat ->
    in_range j (j + N.of_nat n * per + al - 1) l
    = concat (map (fun r => in_range (fst r) (snd r) l) (gen_aux j per al n)).
  Proof.
    intros Hs Hper. induction n as [|n IH]; intros j Hn; [lia|].
    destruct n as [|n].
    - cbn [gen_aux map concat fst snd]. rewrite app_nil_r. f_equal. lia.
    - change (gen_aux j per al (S (S n))) with ((j, j + per - 1) :: gen_aux (j + per) per al (S n)).
      cbn [map concat fst snd]. rewrite <- (IH (j + per)) by lia.
      rewrite (in_range_split j (j + per - 1) _ l Hs) by lia.
      f_equal. f_equal; lia.
  Qed.

  Lemma children_partition l a b : ssorted l -> a <= b -> can_divide df a b = true ->
    in_range a b l = concat (map (fun r => in_range (fst r) (snd r) l) (gen_tuple_ranges df a b)).
  Proof.
    intros Hs Hab Hcd. unfold gen_tuple_ranges. destruct (per_align df a b) as [per al] eqn:Hpa.
    destruct (per_align_spec df a b per al Hdf Hab Hcd Hpa) as (Hsum & Hal & Hper).
    rewrite <- (gen_aux_partition l per al Hs Hper (N.to_nat df) a) by lia.
    f_equal. rewrite N2Nat.id. lia.
  Qed.

  (* ---------------------------------------------------------------- digests *)
  Lemma pairs_nil l : pairs l = [] -> l = [].
  Proof. destruct l; [reflexivity|discriminate]. Qed.

  Lemma elems_digest_inj l1 l2 : elems_digest l1 = elems_digest l2 -> pairs l1 = pairs l2.
  Proof.
    destruct l1 as [|x1 r1], l2 as [|x2 r2]; cbn; intros H; try discriminate; [reflexivity|].
    injection H as H1 H2 H3. cbn. congruence.
  Qed.

  Lemma elems_digest_not_div l ds : elems_digest l <> HDiv ds.
  Proof. destruct l; discriminate. Qed.

  Lemma map_eq_pointwise {A B} (f g : A -> B) l : map f l = map g l -> forall x, In x l -> f x = g x.
  Proof.
    induction l as [|y r IH]; intros H x Hx; [destruct Hx|].
    cbn in H. injection H as H1 H2. destruct Hx as [<-|Hx]; auto.
  Qed.

  Lemma pairs_app l1 l2 : pairs (l1 ++ l2) = pairs l1 ++ pairs l2.
  Proof. apply map_app. Qed.

  Lemma pairs_concat ls : pairs (concat ls) = concat (map pairs ls).
  Proof. induction ls as [|l r IH]; [reflexivity|]. cbn. rewrite pairs_app, IH. reflexivity. Qed.

  (* children with pointwise equal pair lists give equal pair lists for the parent *)
  Lemma children_pairs L R a b :
    ssorted L -> ssorted R -> a <= b -> can_divide df a b = true ->
    (forall r, In r (gen_tuple_ranges df a b) ->
               pairs (in_range (fst r) (snd r) L) = pairs (in_range (fst r) (snd r) R)) ->
    pairs (in_range a b L) = pairs (in_range a b R).
  Proof.
    intros HL HR Hab Hcd Hch.
    rewrite (children_partition L a b HL Hab Hcd), (children_partition R a b HR Hab Hcd).
    rewrite !pairs_concat, !map_map. f_equal. apply map_ext_in. exact Hch.
  Qed.

  Lemma digest_inj L R : ssorted L -> ssorted R ->
    forall f1 f2 a b, a <= b -> fits f1 a b -> fits f2 a b ->
    rhash (build df th f1 L a b) = rhash (build df th f2 R a b) ->
    pairs (in_range a b L) = pairs (in_range a b R).
  Proof.
    intros HL HR. induction f1 as [|f1 IH]; intros f2 a b Hab Hf1 Hf2 Hd.
    - rewrite (build_eq df th 0), (fits_0_no_divide df Hdf a b Hab Hf1), andb_false_r in Hd. cbn [rhash] in Hd.
      rewrite build_eq in Hd.
      destruct ((th <? count_in a b R) && can_divide df a b) eqn:Hc.
      + apply andb_true_iff in Hc as [_ Hcd]. rewrite (fits_0_no_divide df Hdf a b Hab Hf1) in Hcd. discriminate.
      + cbn [rhash] in Hd. apply elems_digest_inj, Hd.
    - rewrite (build_eq df th (S f1)), (build_eq df th f2) in Hd.
      destruct ((th <? count_in a b L) && can_divide df a b) eqn:Hc1;
        destruct ((th <? count_in a b R) && can_divide df a b) eqn:Hc2.
      + apply andb_true_iff in Hc1 as [_ Hcd].
        destruct f2 as [|f2]; [rewrite (fits_0_no_divide df Hdf a b Hab Hf2) in Hcd; discriminate|].
        cbn zeta in Hd. cbn [rhash] in Hd. injection Hd as Hd. rewrite !map_map in Hd.
        apply (children_pairs L R a b HL HR Hab Hcd). intros [c d] Hin. cbn [fst snd].
        destruct (fits_child df Hdf f1 a b c d Hab Hcd Hf1 Hin) as (H1 & _ & _ & H4).
        destruct (fits_child df Hdf f2 a b c d Hab Hcd Hf2 Hin) as (_ & _ & _ & H4').
        apply (IH f2 c d H1 H4 H4').
        exact (map_eq_pointwise _ _ _ Hd (c, d) Hin).
      + cbn zeta in Hd. cbn [rhash] in Hd. symmetry in Hd. apply elems_digest_not_div in Hd. destruct Hd.
      + destruct f2 as [|f2]; cbn zeta in Hd; cbn [rhash] in Hd.
        * apply andb_true_iff in Hc2 as [_ Hcd]. rewrite (fits_0_no_divide df Hdf a b Hab Hf2) in Hcd. discriminate.
        * apply elems_digest_not_div in Hd. destruct Hd.
      + cbn [rhash] in Hd. apply elems_digest_inj, Hd.
  Qed.

  (* ---------------------------------------------------------------- what find_obj finds *)
  Definition is_build (all : list elem) (a b : N) (o : rtree) : Prop :=
    exists f, o = build df th f all a b /\ a <= b /\ fits f a b.

  Lemma find_obj_build all : forall f fu x y a b o, x <= y -> fits f x y ->
    find_obj fu (build df th f all x y) a b = Some o -> is_build all a b o.
  Proof.
    induction f as [|f IH]; intros fu x y a b o Hxy Hfit Hfo; rewrite build_eq in Hfo.
    - rewrite (fits_0_no_divide df Hdf x y Hxy Hfit), andb_false_r in Hfo.
      destruct fu; cbn [find_obj] in Hfo;
        (destruct ((x =? a) && (y =? b)) eqn:E; [|discriminate]);
        injection Hfo as <-; assert (x = a /\ y = b) as [-> ->] by lia;
        exists 0%nat; (split; [rewrite build_eq, (fits_0_no_divide df Hdf a b Hxy Hfit), andb_false_r; reflexivity|auto]).
    - destruct ((th <? count_in x y all) && can_divide df x y) eqn:Hc.
      + apply andb_true_iff in Hc as [Hc1 Hcd]. cbn zeta in Hfo.
        destruct fu as [|fu]; cbn [find_obj] in Hfo;
          (destruct ((x =? a) && (y =? b)) eqn:E;
           [injection Hfo as <-; assert (x = a /\ y = b) as [-> ->] by lia;
            exists (S f); split; [rewrite (build_eq df th (S f)), Hc1, Hcd; reflexivity|auto]|]);
          [discriminate|].
        destruct (find _ _) as [c|] eqn:Hfind; [|discriminate].
        apply find_some in Hfind as [Hin _]. apply in_map_iff in Hin as ([c0 c1] & <- & Hin). cbn [fst snd] in Hfo.
        destruct (fits_child df Hdf f x y c0 c1 Hxy Hcd Hfit Hin) as (H1 & _ & _ & H4).
        exact (IH fu c0 c1 a b o H1 H4 Hfo).
      + destruct fu; cbn [find_obj] in Hfo;
          (destruct ((x =? a) && (y =? b)) eqn:E; [|discriminate]);
          injection Hfo as <-; assert (x = a /\ y = b) as [-> ->] by lia;
          exists (S f); (split; [rewrite (build_eq df th (S f)), Hc; reflexivity|auto]).
  Qed.

  Lemma find_obj_top_gen (f0 : nat) all fu a b o :
    (forall c d, In (c, d) (gen_tuple_ranges df 0 U64MAX) -> c <= d /\ d <= U64MAX /\ fits f0 c d) ->
    find_obj (S fu) (build_top df th f0 all) a b = Some o ->
    ((a, b) = (0, U64MAX) /\ o = build_top df th f0 all) \/ ((a, b) <> (0, U64MAX) /\ is_build all a b o).
  Proof.
    intros Hf0. unfold build_top. cbn zeta.
    set (chs := map (fun r => build df th f0 all (fst r) (snd r)) (gen_tuple_ranges df 0 U64MAX)).
    set (top := RNode 0 U64MAX (count_in 0 U64MAX all) (HDiv (map rhash chs)) chs).
    assert (Hfo : find_obj (S fu) top a b =
                  if (0 =? a) && (U64MAX =? b) then Some top
                  else match find (fun c => (rfrom c <=? a) && (a <=? rto c)) chs with
                       | Some c => find_obj fu c a b
                       | None => None
                       end) by reflexivity.
    rewrite Hfo. clear Hfo. intros Hfo.
    destruct ((0 =? a) && (U64MAX =? b)) eqn:E.
    - left. apply andb_true_iff in E as [E1 E2]. apply N.eqb_eq in E1, E2. subst a b.
      injection Hfo as Hfo. auto.
    - right. split.
      + intros Heq. injection Heq as Ha Hb. subst a b. rewrite !N.eqb_refl in E. discriminate.
      + destruct (find (fun c => (rfrom c <=? a) && (a <=? rto c)) chs) as [c|] eqn:Hfind; [|discriminate].
        apply find_some in Hfind as [Hin _]. unfold chs in Hin.
        apply in_map_iff in Hin as ([c0 c1] & Hc & Hin). cbn [fst snd] in Hc. subst c.
        destruct (Hf0 c0 c1 Hin) as (H1 & _ & H3).
        exact (find_obj_build all f0 fu c0 c1 a b o H1 H3 Hfo).
  Qed.

  Lemma find_obj_top all fu a b o :
    find_obj (S fu) (build_top df th FUEL all) a b = Some o ->
    ((a, b) = (0, U64MAX) /\ o = build_top df th FUEL all) \/ ((a, b) <> (0, U64MAX) /\ is_build all a b o).
  Proof. apply find_obj_top_gen. apply (top_child_fits df Hdf Hdf64). Qed.

  Lemma build_rcnt all f a b : a <= b -> fits f a b -> rcnt (build df th f all a b) = count_in a b all.
  Proof.
    intros Hab Hfit. rewrite build_eq.
    destruct ((th <? count_in a b all) && can_divide df a b) eqn:Hc; [|reflexivity].
    destruct f; [|reflexivity].
    apply andb_true_iff in Hc as [_ Hcd]. rewrite (fits_0_no_divide df Hdf a b Hab Hfit) in Hcd. discriminate.
  Qed.

  (* ---------------------------------------------------------------- get_range on a fresh index *)
  Definition exact_elems (all : list elem) (a b : N) (r : rres) : Prop :=
    r_elems r = pairs (in_range a b all) /\ r_count r = len (r_elems r).

  Lemma len_pairs l : len (pairs l) = N.of_nat (length l).
  Proof. unfold len, pairs. rewrite map_length. reflexivity. Qed.

  Lemma get_range_true all a b : exact_elems all a b (get_range (fresh df th all) a b true).
  Proof.
    unfold get_range, exact_elems. cbn [contents tree fresh].
    destruct (find_obj _ _ a b); cbn [r_elems r_count]; rewrite len_pairs; auto.
  Qed.

  (* when the element list is as long as the count says, it IS the element list of the range *)
  Lemma get_range_has_elems all a b we :
    let r := get_range (fresh df th all) a b we in
    len (r_elems r) = r_count r -> r_elems r = pairs (in_range a b all).
  Proof.
    cbn zeta. unfold get_range. cbn [contents tree fresh].
    destruct (find_obj (S FUEL) (build_top df th FUEL all) a b) as [o|] eqn:Hfo; [|reflexivity].
    destruct we; cbn [r_elems r_count]; [reflexivity|].
    intros Hlen. change (len []) with 0 in Hlen.
    assert (Hc : rcnt o = count_in a b all).
    { apply find_obj_top in Hfo as [[[= -> ->] ->]|[_ (f & -> & Hab & Hfit)]]; [reflexivity|].
      apply build_rcnt; assumption. }
    rewrite Hc in Hlen. unfold count_in in Hlen.
    destruct (in_range a b all); [reflexivity|cbn in Hlen; lia].
  Qed.

  Lemma top_digest_inj L R : ssorted L -> ssorted R -> bounded L -> bounded R ->
    rhash (build_top df th FUEL L) = rhash (build_top df th FUEL R) -> pairs L = pairs R.
  Proof.
    intros HL HR HbL HbR Hd. unfold build_top in Hd. cbn zeta in Hd. cbn [rhash] in Hd.
    injection Hd as Hd. rewrite !map_map in Hd.
    rewrite <- (in_range_all L HbL), <- (in_range_all R HbR).
    assert (H0 : 0 <= U64MAX) by (unfold U64MAX; lia).
    apply (children_pairs L R 0 U64MAX HL HR H0 (top_can_divide df Hdf Hdf64)). intros [c d] Hin. cbn [fst snd].
    destruct (top_child_fits df Hdf Hdf64 c d Hin) as (H1 & _ & H3).
    apply (digest_inj L R HL HR FUEL FUEL c d H1 H3 H3).
    exact (map_eq_pointwise _ _ _ Hd (c, d) Hin).
  Qed.

  (* equal digests for the same range mean equal contents in that range *)
  Lemma get_range_digest_eq L R a b we1 we2 :
    ssorted L -> ssorted R -> bounded L -> bounded R ->
    r_hash (get_range (fresh df th L) a b we1) = r_hash (get_range (fresh df th R) a b we2) ->
    pairs (in_range a b L) = pairs (in_range a b R).
  Proof.
    intros HL HR HbL HbR. unfold get_range. cbn [contents tree fresh].
    destruct (find_obj (S FUEL) (build_top df th FUEL L) a b) as [o1|] eqn:H1;
      destruct (find_obj (S FUEL) (build_top df th FUEL R) a b) as [o2|] eqn:H2.
    - assert (Hh : rhash o1 = rhash o2 -> pairs (in_range a b L) = pairs (in_range a b R)).
      { apply find_obj_top in H1 as [[E1 ->]|[N1 (f1 & -> & Hab & Hf1)]];
          apply find_obj_top in H2 as [[E2 ->]|[N2 (f2 & -> & _ & Hf2)]]; try congruence.
        - injection E1 as -> ->. intros Hd. rewrite (in_range_all L HbL), (in_range_all R HbR).
          apply top_digest_inj; assumption.
        - apply digest_inj; assumption. }
      destruct we1, we2; cbn [r_hash]; exact Hh.
    - assert (Hh : rhash o1 = elems_digest (in_range a b R) -> pairs (in_range a b L) = pairs (in_range a b R)).
      { apply find_obj_top in H1 as [[E1 ->]|[N1 (f1 & -> & Hab & Hf1)]].
        - unfold build_top. cbn zeta. cbn [rhash]. intros Hd. symmetry in Hd. apply elems_digest_not_div in Hd. destruct Hd.
        - rewrite build_eq. destruct ((th <? count_in a b L) && can_divide df a b) eqn:Hc.
          + destruct f1; cbn zeta; cbn [rhash]; intros Hd.
            * apply andb_true_iff in Hc as [_ Hcd]. rewrite (fits_0_no_divide df Hdf a b Hab Hf1) in Hcd. discriminate.
            * symmetry in Hd. apply elems_digest_not_div in Hd. destruct Hd.
          + cbn [rhash]. apply elems_digest_inj. }
      destruct we1; cbn [r_hash]; exact Hh.
    - assert (Hh : elems_digest (in_range a b L) = rhash o2 -> pairs (in_range a b L) = pairs (in_range a b R)).
      { apply find_obj_top in H2 as [[E2 ->]|[N2 (f2 & -> & Hab & Hf2)]].
        - unfold build_top. cbn zeta. cbn [rhash]. intros Hd. apply elems_digest_not_div in Hd. destruct Hd.
        - rewrite build_eq. destruct ((th <? count_in a b R) && can_divide df a b) eqn:Hc.
          + destruct f2; cbn zeta; cbn [rhash]; intros Hd.
            * apply andb_true_iff in Hc as [_ Hcd]. rewrite (fits_0_no_divide df Hdf a b Hab Hf2) in Hcd. discriminate.
            * apply elems_digest_not_div in Hd. destruct Hd.
          + cbn [rhash]. apply elems_digest_inj. }
      destruct we2; cbn [r_hash]; exact Hh.
    - cbn [r_hash]. apply elems_digest_inj.
  Qed.
End Query.
