(* Proofs/TreeInc.v — the incremental tree keeps canonical Next lists, hence presents the canonical order
   of its attached set, whatever the arrival order, batching or duplication (C06). *)
From Coq Require Import List NArith Bool Arith Lia Permutation.
Import ListNotations.
From AnySync Require Import Lib.Dag Model.Dfs Model.Tree Proofs.DfsBase.

(* ---------------------------------------------------------------- association lists *)

Lemma alookup_aupdate : forall m k f q,
  alookup (aupdate m k f) q = if N.eqb k q then f (alookup m k) else alookup m q.
Proof.
  intros m k f q. induction m as [|[k' v] r IH]; cbn [aupdate alookup].
  - destruct (N.eqb k q); reflexivity.
  - destruct (N.eqb k' k) eqn:Ekk; cbn [alookup].
    + apply N.eqb_eq in Ekk. subst k'. destruct (N.eqb k q); reflexivity.
    + rewrite IH. destruct (N.eqb k' q) eqn:Ekq.
      * apply N.eqb_eq in Ekq. subst q. rewrite N.eqb_sym, Ekk. reflexivity.
      * reflexivity.
Qed.

Definition cnt (p : N) (l : list N) : nat := length (filter (N.eqb p) l).

Fixpoint iterN {A : Type} (n : nat) (f : A -> A) (x : A) : A :=
  match n with O => x | S k => f (iterN k f x) end.

Lemma iter_succ_r : forall (A : Type) (f : A -> A) n x, iterN (S n) f x = iterN n f (f x).
Proof. intros A f n x. induction n as [|n IH]; [reflexivity|]. cbn [iterN] in *. rewrite IH. reflexivity. Qed.

Lemma alookup_fold_insert : forall l m x p,
  alookup (fold_left (fun m q => aupdate m q (insert_sorted x)) l m) p
  = iterN (cnt p l) (insert_sorted x) (alookup m p).
Proof.
  induction l as [|q r IH]; intros m x p; cbn [fold_left]; [reflexivity|].
  rewrite IH, alookup_aupdate. unfold cnt. cbn [filter].
  rewrite (N.eqb_sym p q). destruct (N.eqb q p) eqn:E; cbn [length].
  - apply N.eqb_eq in E. subst q. rewrite iter_succ_r. reflexivity.
  - reflexivity.
Qed.

Lemma isort_const_app : forall (fl : list N) x rest,
  isort (map (fun _ => x) fl ++ rest) = iterN (length fl) (insert_sorted x) (isort rest).
Proof.
  induction fl as [|a r IH]; intros x rest; [reflexivity|].
  cbn [map app length iterN]. unfold isort in *. cbn [fold_right]. rewrite IH. reflexivity.
Qed.

Lemma next_of_cons : forall c S p,
  next_of (c :: S) p = iterN (cnt p (cprev c)) (insert_sorted (cid c)) (next_of S p).
Proof.
  intros c S p. unfold next_of, children_occ. cbn [flat_map]. unfold cites, cnt. apply isort_const_app.
Qed.

(* ---------------------------------------------------------------- the invariant *)

Definition nonroot (t : tree) : list change := view (t_att t) (t_root t).

Record inv (t : tree) : Prop := mkInv {
  inv_next  : forall p, nxf t p = next_of (nonroot t) p;                 (* Next lists are canonical *)
  inv_unatt : forall u, In u (t_unatt t) -> attached t (cid u) = false;  (* unAttached is disjoint from attached *)
  inv_root  : t_att t = [] \/ attached t (t_root t) = true               (* the root is attached *)
}.

Lemma inv_empty : inv empty_tree.
Proof. split; [reflexivity | intros u [] | left; reflexivity]. Qed.

Lemma attached_cons : forall t c i root nx un w h l d o,
  attached (mkTree root (c :: t_att t) nx un w h l d o) i = N.eqb i (cid c) || attached t i.
Proof. intros. unfold attached, has_change, ids, mem. cbn [t_att map existsb]. reflexivity. Qed.

(* attaching one change that is not yet attached, in a non-empty tree, keeps the first and third parts *)
Lemma attach_core_next : forall t c un w h l d o,
  inv t -> t_att t <> [] -> attached t (cid c) = false ->
  forall p,
    nxf (mkTree (t_root t) (c :: t_att t)
           (fold_left (fun m q => aupdate m q (insert_sorted (cid c))) (cprev c) (t_next t)) un w h l d o) p
    = next_of (nonroot (mkTree (t_root t) (c :: t_att t)
           (fold_left (fun m q => aupdate m q (insert_sorted (cid c))) (cprev c) (t_next t)) un w h l d o)) p.
Proof.
  intros t c un w h l d o Hinv Hne Hna p. unfold nxf, nonroot, view. cbn [t_next t_att t_root filter].
  rewrite alookup_fold_insert.
  assert (Hr : N.eqb (cid c) (t_root t) = false).
  { destruct (inv_root t Hinv) as [He|Hr]; [contradiction|].
    destruct (N.eqb (cid c) (t_root t)) eqn:E; [|reflexivity].
    apply N.eqb_eq in E. rewrite E in Hna. congruence. }
  rewrite Hr. cbn [negb]. rewrite next_of_cons. f_equal. apply (inv_next t Hinv).
Qed.

Lemma set_unatt_inv_parts : forall t u, t_att (set_unatt t u) = t_att t /\ t_next (set_unatt t u) = t_next t
  /\ t_root (set_unatt t u) = t_root t.
Proof. intros. repeat split. Qed.

Lemma can_attach_false_same : forall t c, fst (fst (can_attach t c false)) = t.
Proof.
  intros t c. unfold can_attach. cbn. destruct (filter _ (cprev c)); [destruct (attached t (csnap c))|]; reflexivity.
Qed.

Lemma can_attach_core : forall t c b,
  let t1 := fst (fst (can_attach t c b)) in
  t_att t1 = t_att t /\ t_next t1 = t_next t /\ t_root t1 = t_root t /\ t_unatt t1 = t_unatt t.
Proof.
  intros t c b. unfold can_attach. destruct b; cbn;
    destruct (filter _ (cprev c)); try destruct (attached t (csnap c)); cbn; repeat split.
Qed.

Lemma inv_transport : forall t t',
  t_att t' = t_att t -> t_next t' = t_next t -> t_root t' = t_root t ->
  (forall u, In u (t_unatt t') -> In u (t_unatt t)) -> inv t -> inv t'.
Proof.
  intros t t' Ha Hn Hr Hu [H1 H2 H3]. split.
  - intros p. unfold nxf, nonroot. rewrite Hn, Ha, Hr. apply H1.
  - intros u Hin. unfold attached. rewrite Ha. apply H2. apply Hu. exact Hin.
  - unfold attached. rewrite Ha, Hr. exact H3.
Qed.

Lemma remove_change_In : forall S i u, In u (remove_change S i) -> In u S /\ cid u <> i.
Proof.
  intros S i u H. unfold remove_change in H. apply filter_In in H. destruct H as [H1 H2].
  split; [exact H1|]. intros E. subst i. rewrite N.eqb_refl in H2. discriminate.
Qed.

Lemma find_change_In : forall S i c, find_change S i = Some c -> In c S /\ cid c = i.
Proof.
  induction S as [|a r IH]; intros i c H; cbn [find_change] in H; [discriminate|].
  destruct (N.eqb (cid a) i) eqn:E.
  - inversion H. subst. apply N.eqb_eq in E. split; [left; reflexivity | exact E].
  - destruct (IH i c H) as [H1 H2]. split; [right; exact H1 | exact H2].
Qed.

(* Tree.attach keeps the invariant, for every amount of fuel *)
Lemma attach_inv : forall fuel t added c newEl,
  inv t -> t_att t <> [] -> attached t (cid c) = false ->
  (newEl = true -> forall u, In u (t_unatt t) -> cid u <> cid c) ->
  inv (fst (attach fuel t added c newEl)) /\ t_att (fst (attach fuel t added c newEl)) <> [].
Proof.
  induction fuel as [|f IH]; intros t added c newEl Hinv Hne Hna Hnew.
  - cbn [attach fst]. split; [|exact Hne].
    apply (inv_transport t); try reflexivity; [intros u Hu; exact Hu | exact Hinv].
  - cbn [attach].
    set (t1 := mkTree (t_root t) (c :: t_att t)
                 (fold_left (fun m q => aupdate m q (insert_sorted (cid c))) (cprev c) (t_next t))
                 (if newEl then t_unatt t else remove_change (t_unatt t) (cid c))
                 (t_wait t) (t_heads t) (t_last t) true (t_oof t)).
    assert (Hinv1 : inv t1).
    { split.
      - apply attach_core_next; assumption.
      - intros u Hu. unfold t1. rewrite attached_cons. cbn [t_unatt] in Hu.
        assert (Hu' : In u (t_unatt t) /\ cid u <> cid c).
        { destruct newEl; [split; [exact Hu | apply Hnew; auto] | apply remove_change_In; exact Hu]. }
        destruct Hu' as [Hu1 Hu2]. rewrite (inv_unatt t Hinv u Hu1).
        destruct (N.eqb (cid u) (cid c)) eqn:E; [apply N.eqb_eq in E; contradiction | reflexivity].
      - right. unfold t1. rewrite attached_cons. cbn [t_root].
        destruct (inv_root t Hinv) as [He|Hr]; [contradiction | rewrite Hr; apply orb_true_r]. }
    assert (Hne1 : t_att t1 <> []) by (unfold t1; cbn [t_att]; discriminate).
    clearbody t1.
    (* the fold over the wait list *)
    assert (Hfold : forall (wl : list N) (acc : tree * list N),
               inv (fst acc) -> t_att (fst acc) <> [] ->
               let r := fold_left
                 (fun (acc : tree * list N) (wid : N) =>
                    let '(ta, ad) := acc in
                    match find_change (t_unatt ta) wid with
                    | None => acc
                    | Some nxt =>
                        let '(_, att, rem) := can_attach ta nxt false in
                        if att then attach f ta ad nxt false
                        else if rem then (set_unatt ta (remove_change (t_unatt ta) wid), ad)
                        else acc
                    end) wl acc in
               inv (fst r) /\ t_att (fst r) <> []).
    { induction wl as [|wid wl IHwl]; intros [ta ad] Hia Hna'; cbn [fold_left fst] in *; [split; assumption|].
      apply IHwl.
      - destruct (find_change (t_unatt ta) wid) as [nxt|] eqn:Ef; [|exact Hia].
        destruct (can_attach ta nxt false) as [[tx att] rem]. destruct att.
        + apply find_change_In in Ef. destruct Ef as [Hin _].
          apply IH; [exact Hia | exact Hna' | apply (inv_unatt ta Hia); exact Hin | intros Hf; discriminate].
        + destruct rem; [|exact Hia]. cbn [fst].
          apply (inv_transport ta); try reflexivity; [|exact Hia].
          intros u Hu. cbn [set_unatt t_unatt] in Hu. apply remove_change_In in Hu. tauto.
      - destruct (find_change (t_unatt ta) wid) as [nxt|] eqn:Ef; [|exact Hna'].
        destruct (can_attach ta nxt false) as [[tx att] rem]. destruct att.
        + apply find_change_In in Ef. destruct Ef as [Hin _].
          apply IH; [exact Hia | exact Hna' | apply (inv_unatt ta Hia); exact Hin | intros Hf; discriminate].
        + destruct rem; [|exact Hna']. cbn [fst set_unatt t_att]. exact Hna'. }
    specialize (Hfold (alookup (t_wait t1) (cid c)) (t1, added ++ [cid c]) Hinv1 Hne1).
    cbn zeta in Hfold.
    destruct (fold_left _ (alookup (t_wait t1) (cid c)) (t1, added ++ [cid c])) as [t2 added2].
    cbn [fst] in *. destruct Hfold as [Hi2 Hn2]. split; [|exact Hn2].
    apply (inv_transport t2); try reflexivity; [intros u Hu; exact Hu | exact Hi2].
Qed.

Lemma add_inv : forall t added c,
  inv t -> attached t (cid c) = false -> has_change (t_unatt t) (cid c) = false ->
  inv (fst (add t added c)) /\ (t_att (fst (add t added c)) <> []).
Proof.
  intros t added c Hinv Hna Hnu. unfold add. destruct (root_nil t) eqn:Ern.
  - cbn [fst]. split; [|cbn [t_att]; discriminate]. split.
    + intros p. unfold nxf, nonroot, view. cbn [t_next t_att t_root filter alookup].
      rewrite N.eqb_refl. reflexivity.
    + intros u [].
    + right. unfold attached, has_change, ids, mem. cbn. rewrite N.eqb_refl. reflexivity.
  - assert (Hne : t_att t <> []) by (unfold root_nil in Ern; destruct (t_att t); [discriminate | discriminate]).
    pose proof (can_attach_core t c true) as Hc. cbn zeta in Hc.
    destruct (can_attach t c true) as [[t1 att] rem]. cbn [fst] in Hc. destruct Hc as [Ha [Hn [Hr Hu]]].
    assert (Hinv1 : inv t1).
    { apply (inv_transport t); try assumption. intros u Hin. rewrite Hu in Hin. exact Hin. }
    destruct att.
    + apply attach_inv.
      * exact Hinv1.
      * rewrite Ha. exact Hne.
      * unfold attached. rewrite Ha. exact Hna.
      * intros _ u Hin E. rewrite Hu in Hin.
        assert (has_change (t_unatt t) (cid c) = true).
        { unfold has_change. apply mem_In. unfold ids. apply in_map_iff. exists u. auto. }
        congruence.
    + destruct rem; cbn [fst].
      * split; [exact Hinv1 | rewrite Ha; exact Hne].
      * split; [|cbn [set_unatt t_att]; rewrite Ha; exact Hne].
        destruct Hinv1 as [H1 H2 H3]. split.
        -- exact H1.
        -- intros u Hin. cbn [set_unatt t_unatt] in Hin. unfold attached. cbn [set_unatt t_att].
           destruct Hin as [Heq|Hin]; [subst u; rewrite Ha; exact Hna | apply H2; exact Hin].
        -- exact H3.
Qed.

Lemma add_all_inv : forall cs t added, inv t -> inv (fst (fst (add_all t added cs))).
Proof.
  induction cs as [|c r IH]; intros t added Hinv; cbn [add_all].
  - exact Hinv.
  - destruct (attached t (cid c) || has_change (t_unatt t) (cid c)) eqn:E.
    + specialize (IH t added Hinv). destruct (add_all t added r) as [[t' ad'] fl]. exact IH.
    + apply orb_false_iff in E. destruct E as [E1 E2].
      destruct (add_inv t added c Hinv E1 E2) as [Hi _].
      destruct (add t added c) as [t1 ad1]. cbn [fst] in Hi.
      specialize (IH t1 ad1 Hi). destruct (add_all t1 ad1 r) as [[t' ad'] fl]. exact IH.
Qed.

Lemma update_heads_inv : forall t, inv t -> inv (update_heads t).
Proof.
  intros t Hinv. unfold update_heads. destruct (iter_tree t);
    apply (inv_transport t); try reflexivity; try (intros u Hu; exact Hu); exact Hinv.
Qed.

Lemma set_unatt_nil_inv : forall t, inv t -> inv (set_unatt t []).
Proof. intros t Hinv. apply (inv_transport t); try reflexivity; [intros u [] | exact Hinv]. Qed.

Theorem tree_add_inv : forall t cs, inv t -> inv (fst (fst (tree_add t cs))).
Proof.
  intros t cs Hinv. unfold tree_add. pose proof (add_all_inv cs t [] Hinv) as H.
  destruct (add_all t [] cs) as [[t1 added] fresh]. cbn [fst] in H.
  destruct added as [|a ad]; cbn [fst].
  - apply set_unatt_nil_inv. exact H.
  - destruct (root_nil t); cbn [fst]; apply update_heads_inv, set_unatt_nil_inv; exact H.
Qed.

Theorem tree_add_fast_inv : forall t cs, inv t -> inv (fst (tree_add_fast t cs)).
Proof.
  intros t cs Hinv. unfold tree_add_fast. destruct cs as [|c r]; [exact Hinv|].
  pose proof (add_all_inv (c :: r) t [] Hinv) as H.
  destruct (add_all t [] (c :: r)) as [[t1 added] fresh]. cbn [fst] in *.
  apply set_unatt_nil_inv, update_heads_inv. exact H.
Qed.

(* ---------------------------------------------------------------- consequence: canonical presentation *)

Theorem inv_iter_canonical : forall t, inv t -> t_att t <> [] -> iter_tree t = order_opt (t_att t) (t_root t).
Proof.
  intros t Hinv Hne. unfold iter_tree, order_opt. destruct (t_att t) eqn:E; [contradiction|].
  rewrite <- E. apply dfs_loop_ext. intros i. apply (inv_next t Hinv).
Qed.

(* histories: any sequence of Tree.Add / Tree.AddFast calls on an initially empty tree *)
Inductive tree_op := OpAdd (cs : list change) | OpAddFast (cs : list change).

Definition apply_op (t : tree) (o : tree_op) : tree :=
  match o with
  | OpAdd cs => fst (fst (tree_add t cs))
  | OpAddFast cs => fst (tree_add_fast t cs)
  end.

Definition run_ops (ops : list tree_op) : tree := fold_left apply_op ops empty_tree.

Lemma run_ops_inv_from : forall ops t, inv t -> inv (fold_left apply_op ops t).
Proof.
  induction ops as [|o r IH]; intros t Hinv; cbn [fold_left]; [exact Hinv|].
  apply IH. destruct o; cbn [apply_op]; [apply tree_add_inv | apply tree_add_fast_inv]; exact Hinv.
Qed.

Theorem run_ops_inv : forall ops, inv (run_ops ops).
Proof. intros ops. apply run_ops_inv_from, inv_empty. Qed.

Theorem incremental_canonical : forall ops,
  t_att (run_ops ops) <> [] ->
  iter_tree (run_ops ops) = Some (order (t_att (run_ops ops)) (t_root (run_ops ops))).
Proof.
  intros ops Hne. rewrite inv_iter_canonical; [apply order_opt_order | apply run_ops_inv | exact Hne].
Qed.

(* two arbitrary histories that end with the same attached SET and the same root present the same sequence *)
Theorem same_set_same_order : forall ops1 ops2,
  Permutation (t_att (run_ops ops1)) (t_att (run_ops ops2)) ->
  t_root (run_ops ops1) = t_root (run_ops ops2) ->
  iter_ids (run_ops ops1) = iter_ids (run_ops ops2).
Proof.
  intros ops1 ops2 HP Hr. unfold iter_ids.
  destruct (t_att (run_ops ops1)) eqn:E1.
  - apply Permutation_nil in HP. unfold iter_tree. rewrite E1, HP. reflexivity.
  - assert (Hne1 : t_att (run_ops ops1) <> []) by (rewrite E1; discriminate).
    assert (Hne2 : t_att (run_ops ops2) <> []).
    { intros E2. rewrite E2 in HP. apply Permutation_sym, Permutation_nil in HP. discriminate. }
    rewrite <- E1 in HP.
    rewrite (incremental_canonical ops1 Hne1), (incremental_canonical ops2 Hne2).
    rewrite Hr. apply order_perm. exact HP.
Qed.

Lemma list_eqb_refl : forall l, list_eqb l l = true.
Proof. induction l as [|a r IH]; [reflexivity|]. cbn [list_eqb]. rewrite N.eqb_refl, IH. reflexivity. Qed.

(* the "function of the set" component of spec_C06 on the outputs of two model histories *)
Lemma meets_fun_of_set : forall ops1 ops2,
  Permutation (t_att (run_ops ops1)) (t_att (run_ops ops2)) ->
  t_root (run_ops ops1) = t_root (run_ops ops2) ->
  fun_of_set (keyed_of [iter_ids (run_ops ops1); iter_ids (run_ops ops2)]) = true.
Proof.
  intros ops1 ops2 HP Hr. rewrite (same_set_same_order ops1 ops2 HP Hr).
  unfold keyed_of. cbn [map fun_of_set forallb fst snd]. rewrite !list_eqb_refl. cbn. reflexivity.
Qed.
