(* Proofs about Model/StreamPool.v (property C19), part 2: the three pool indexes and streams[.].tags describe
   each other in every reachable state (multiset-exact, so duplicate tags are covered), hence neither
   log.Fatal branch nor a nil *stream dereference is reachable; cleanup after a stream ended. *)
From Coq Require Import List NArith Bool Lia Arith.
Import ListNotations.
From AnySync Require Import Model.StreamPool Proofs.StreamPoolProofs.
Open Scope N_scope.

(* ------------------------------------------------------------------ counting *)
Lemma countN_app : forall x a b, countN x (a ++ b) = (countN x a + countN x b)%nat.
Proof. intros x a b; induction a as [|y a IH]; cbn; auto. destruct (x =? y); cbn; lia. Qed.

Lemma countN_in : forall x l, In x l -> (1 <= countN x l)%nat.
Proof.
  intros x l; induction l as [|y l IH]; cbn; [tauto|].
  intros [H|H]; [subst; rewrite N.eqb_refl; lia|]. specialize (IH H). destruct (x =? y); lia.
Qed.

Lemma countN_pos_in : forall x l, (1 <= countN x l)%nat -> In x l.
Proof.
  intros x l; induction l as [|y l IH]; cbn; [lia|].
  destruct (x =? y) eqn:E; [apply N.eqb_eq in E; auto|auto].
Qed.

Lemma memN_count : forall x l, memN x l = negb (Nat.eqb (countN x l) 0).
Proof.
  intros x l; induction l as [|y l IH]; cbn; auto.
  destruct (x =? y); cbn; auto.
Qed.

Lemma remove_first_spec : forall x l,
  (1 <= countN x l)%nat ->
  exists l', remove_first x l = Some l' /\
             forall y, countN y l' = (countN y l - (if N.eqb y x then 1 else 0))%nat.
Proof.
  intros x l; induction l as [|z l IH]; cbn; [lia|].
  destruct (x =? z) eqn:E.
  - intros _. apply N.eqb_eq in E; subst z. exists l; split; auto.
    intros y. destruct (y =? x); lia.
  - intros H. destruct (IH H) as (l' & Hr & Hc). rewrite Hr. exists (z :: l'); split; auto.
    intros y. cbn. rewrite Hc. destruct (y =? z) eqn:E2; [|reflexivity].
    apply N.eqb_eq in E2; subst y. rewrite N.eqb_sym, E. lia.
Qed.

Lemma countN_filter_split : forall (f : N -> bool) t l,
  countN t l = (countN t (filter f l) + countN t (filter (fun x => negb (f x)) l))%nat.
Proof.
  intros f t l; induction l as [|y l IH]; cbn; auto.
  destruct (f y); cbn; destruct (t =? y); lia.
Qed.

(* ------------------------------------------------------------------ maps *)
Lemma mget_mdel : forall k k' m, mget k' (mdel k m) = if k' =? k then [] else mget k' m.
Proof.
  intros k k' m; induction m as [|[a v] r IH]; cbn; [destruct (k' =? k); auto|].
  destruct (k =? a) eqn:E.
  - apply N.eqb_eq in E; subst a. rewrite IH. destruct (k' =? k); auto.
  - cbn. rewrite IH. destruct (k' =? a) eqn:E2; auto.
    apply N.eqb_eq in E2; subst a. rewrite N.eqb_sym, E. reflexivity.
Qed.

Lemma mget_mset : forall k k' v m, mget k' (mset k v m) = if k' =? k then v else mget k' m.
Proof.
  intros k k' v m. unfold mset. destruct v as [|x v]; [apply mget_mdel|].
  cbn. destruct (k' =? k) eqn:E; auto. rewrite mget_mdel, E. reflexivity.
Qed.

Lemma mget_idx_append : forall m k sid k',
  mget k' (idx_append m k sid) = if k' =? k then mget k m ++ [sid] else mget k' m.
Proof. intros. unfold idx_append. apply mget_mset. Qed.

Lemma count_fold_append : forall tags m sid sid' t,
  countN sid' (mget t (fold_left (fun m t => idx_append m t sid) tags m))
  = (countN sid' (mget t m) + (if N.eqb sid' sid then countN t tags else 0))%nat.
Proof.
  induction tags as [|t0 tags IH]; intros m sid sid' t; cbn [fold_left countN].
  - destruct (sid' =? sid); lia.
  - rewrite IH, mget_idx_append.
    destruct (t =? t0) eqn:E.
    + apply N.eqb_eq in E; subst t0. rewrite countN_app. cbn [countN]. destruct (sid' =? sid); lia.
    + destruct (sid' =? sid); lia.
Qed.

Lemma idx_remove_spec : forall m key sid,
  (1 <= countN sid (mget key m))%nat ->
  exists m', idx_remove m key sid = Some m' /\
    forall sid' t, countN sid' (mget t m') =
                   (countN sid' (mget t m) - (if N.eqb sid' sid && N.eqb t key then 1 else 0))%nat.
Proof.
  intros m key sid H. unfold idx_remove.
  destruct (remove_first_spec sid (mget key m) H) as (l' & Hr & Hc). rewrite Hr.
  eexists; split; [reflexivity|]. intros sid' t. rewrite mget_mset.
  destruct (t =? key) eqn:E.
  - apply N.eqb_eq in E; subst t. rewrite Hc. destruct (sid' =? sid); cbn; lia.
  - rewrite andb_false_r. lia.
Qed.

Lemma idx_remove_all_spec : forall keys m sid,
  (forall t, (countN t keys <= countN sid (mget t m))%nat) ->
  exists m', idx_remove_all m keys sid = Some m' /\
    forall sid' t, countN sid' (mget t m') =
                   (countN sid' (mget t m) - (if N.eqb sid' sid then countN t keys else 0))%nat.
Proof.
  induction keys as [|k keys IH]; intros m sid H; cbn [idx_remove_all].
  - exists m; split; auto. intros. cbn. destruct (sid' =? sid); lia.
  - assert (H1 : (1 <= countN sid (mget k m))%nat).
    { specialize (H k). cbn in H. rewrite N.eqb_refl in H. lia. }
    destruct (idx_remove_spec m k sid H1) as (m1 & Hr & Hc). rewrite Hr.
    destruct (IH m1 sid) as (m' & Hr' & Hc').
    + intros t. rewrite Hc. rewrite N.eqb_refl. cbn [andb]. specialize (H t). cbn in H.
      destruct (t =? k); lia.
    + exists m'; split; auto. intros sid' t. rewrite Hc', Hc. cbn [countN].
      destruct (sid' =? sid); cbn [andb]; destruct (t =? k); lia.
Qed.

Lemma add_new_tags_count : forall tags cur cur' newt t,
  add_new_tags cur tags = (cur', newt) -> countN t cur' = (countN t cur + countN t newt)%nat.
Proof.
  induction tags as [|t0 tags IH]; intros cur cur' newt t H; cbn in H.
  - inversion H; subst; cbn; lia.
  - destruct (memN t0 cur); [eapply IH; eauto|].
    destruct (add_new_tags (cur ++ [t0]) tags) as [c' n] eqn:E. inversion H; subst.
    rewrite (IH _ _ _ t E), countN_app. cbn. destruct (t =? t0); lia.
Qed.

(* ------------------------------------------------------------------ the invariant *)
Definition live (s : state) (sid : N) : bool :=
  match hget sid (objs s) with Some st => negb (st_removed st) | None => false end.
Definition tags_of (s : state) (sid : N) : list N :=
  match hget sid (objs s) with Some st => st_tags st | None => [] end.
Definition peer_of (s : state) (sid : N) : N :=
  match hget sid (objs s) with Some st => st_peer st | None => 0 end.

Record idx_inv (s : state) : Prop := mkInv {
  ii_pool  : forall sid, memN sid (pool_ids s) = live s sid;
  ii_peer  : forall sid p, countN sid (mget p (by_peer s)) = if live s sid && (peer_of s sid =? p) then 1%nat else 0%nat;
  ii_tag   : forall sid t, countN sid (mget t (by_tag s)) = if live s sid then countN t (tags_of s sid) else 0%nat;
  ii_fresh : forall sid st, hget sid (objs s) = Some st -> sid <= last_id s;
  ii_alive : dead s = false;
  ii_pend  : forall cid p sid, cget cid (callers s) = Some p -> In sid (concat (p_groups p)) -> hget sid (objs s) <> None
}.

Lemma init_idx_inv : forall c, idx_inv (init c).
Proof.
  intros c. constructor; cbn; intros; auto; try discriminate.
Qed.

(* streams whose static part (peer, tags, removed) is untouched *)
Definition same_static (a b : stream) : Prop :=
  st_peer a = st_peer b /\ st_tags a = st_tags b /\ st_removed a = st_removed b.

Lemma idx_inv_static_update : forall s sid st st' cs,
  idx_inv s -> hget sid (objs s) = Some st -> same_static st st' ->
  (forall cid p x, cget cid cs = Some p -> In x (concat (p_groups p)) -> hget x (objs s) <> None) ->
  idx_inv (upd_callers (upd_objs s (hset sid st' (objs s))) cs).
Proof.
  intros s sid st st' cs [Hp Hpe Ht Hf Ha Hpd] Hg (E1 & E2 & E3) Hcs.
  assert (Hl : forall x, live (upd_callers (upd_objs s (hset sid st' (objs s))) cs) x = live s x).
  { intros x. unfold live; cbn. rewrite hget_hset. destruct (x =? sid) eqn:E; auto.
    apply N.eqb_eq in E; subst x. rewrite Hg, E3. reflexivity. }
  assert (Htg : forall x, tags_of (upd_callers (upd_objs s (hset sid st' (objs s))) cs) x = tags_of s x).
  { intros x. unfold tags_of; cbn. rewrite hget_hset. destruct (x =? sid) eqn:E; auto.
    apply N.eqb_eq in E; subst x. rewrite Hg, E2. reflexivity. }
  assert (Hpr : forall x, peer_of (upd_callers (upd_objs s (hset sid st' (objs s))) cs) x = peer_of s x).
  { intros x. unfold peer_of; cbn. rewrite hget_hset. destruct (x =? sid) eqn:E; auto.
    apply N.eqb_eq in E; subst x. rewrite Hg, E1. reflexivity. }
  constructor.
  - intros x. rewrite Hl. apply Hp.
  - intros x p. rewrite Hl, Hpr. apply Hpe.
  - intros x t. rewrite Hl, Htg. apply Ht.
  - intros x stx. cbn. rewrite hget_hset. destruct (x =? sid) eqn:E; [|apply Hf].
    apply N.eqb_eq in E; subst x. intros _. eapply Hf; eauto.
  - exact Ha.
  - intros cid p x Hc Hin. cbn. rewrite hget_hset. destruct (x =? sid); [discriminate|]. eapply Hcs; eauto.
Qed.

Lemma upd_callers_same : forall s, upd_callers s (callers s) = s.
Proof. intros [? ? ? ? ? ? ? ? ? ? ?]; reflexivity. Qed.

Lemma idx_inv_upd_stream : forall s sid f,
  (forall st, same_static st (f st)) -> idx_inv s -> idx_inv (upd_stream s sid f).
Proof.
  intros s sid f Hf Hi. unfold upd_stream. destruct (hget sid (objs s)) as [st|] eqn:E; auto.
  rewrite <- (upd_callers_same (upd_objs s (hset sid (f st) (objs s)))). cbn [callers upd_objs].
  eapply idx_inv_static_update; eauto. apply Hi.
Qed.

Lemma live_in_pool : forall s x, idx_inv s -> live s x = true -> memN x (pool_ids s) = true.
Proof. intros s x Hi H. rewrite (ii_pool s Hi). exact H. Qed.

Lemma in_by_tag_live : forall s t x, idx_inv s -> In x (mget t (by_tag s)) -> live s x = true.
Proof.
  intros s t x Hi Hin. apply countN_in in Hin. rewrite (ii_tag s Hi) in Hin.
  destruct (live s x); auto. lia.
Qed.

Lemma in_by_peer_live : forall s p x, idx_inv s -> In x (mget p (by_peer s)) -> live s x = true.
Proof.
  intros s p x Hi Hin. apply countN_in in Hin. rewrite (ii_peer s Hi) in Hin.
  destruct (live s x); auto. cbn in Hin. lia.
Qed.

Lemma live_hget : forall s x, live s x = true -> hget x (objs s) <> None.
Proof. intros s x H. unfold live in H. destruct (hget x (objs s)); [discriminate|discriminate]. Qed.

Lemma collect_ids_in : forall d ids seen x, In x (fst (collect_ids d ids seen)) -> In x ids.
Proof.
  intros d ids; induction ids as [|i r IH]; intros seen x; cbn; auto.
  destruct (d && memN i seen).
  - intros H. right. eapply IH; eauto.
  - destruct (collect_ids d r (if d then i :: seen else seen)) as [l seen'] eqn:E. cbn.
    intros [H|H]; auto. right. apply (IH (if d then i :: seen else seen)). rewrite E. exact H.
Qed.

Lemma collect_tags_in : forall d m tags seen x, In x (collect_tags d m tags seen) -> exists t, In x (mget t m).
Proof.
  intros d m tags; induction tags as [|t r IH]; intros seen x; cbn; [tauto|].
  destruct (collect_ids d (mget t m) seen) as [l seen'] eqn:E.
  intros H. apply in_app_or in H. destruct H as [H|H].
  - exists t. apply (collect_ids_in d _ seen). rewrite E. exact H.
  - eapply IH; eauto.
Qed.

Lemma peer_groups_in : forall m peers x, In x (concat (peer_groups m peers)) -> exists p, In x (mget p m).
Proof.
  intros m peers; induction peers as [|p r IH]; intros x; cbn; [tauto|].
  destruct (mget p m) as [|y g] eqn:E; auto.
  cbn [concat]. intros H. apply in_app_or in H. destruct H as [H|H]; auto.
  exists p. rewrite E. exact H.
Qed.

Lemma all_in_pool_true : forall s ids, (forall x, In x ids -> memN x (pool_ids s) = true) -> all_in_pool s ids = true.
Proof. intros s ids H. unfold all_in_pool. apply forallb_forall. exact H. Qed.

Lemma idx_inv_start_caller : forall s cid m md gs ps,
  idx_inv s -> (forall x, In x (concat gs) -> live s x = true) ->
  idx_inv (start_caller s cid m md gs ps).
Proof.
  intros s cid m md gs ps Hi Hl. unfold start_caller.
  rewrite all_in_pool_true; [|intros x Hx; apply live_in_pool; auto].
  destruct Hi as [Hp Hpe Ht Hf Ha Hpd]. constructor; auto.
  intros c p x Hc Hin. cbn [callers upd_callers objs] in Hc |- *.
  destruct (N.eq_dec c cid) as [->|Hne].
  - rewrite cget_cset_same in Hc. inversion Hc; subst. cbn in Hin. apply live_hget. auto.
  - rewrite cget_cset_other in Hc; auto. eapply Hpd; eauto.
Qed.

(* addStream *)
Lemma idx_inv_add_stream : forall s p c t g,
  idx_inv s -> idx_inv (fst (add_stream s p c t g))
               /\ live (fst (add_stream s p c t g)) (snd (add_stream s p c t g)) = true.
Proof.
  intros s p c t g [Hp Hpe Ht Hf Ha Hpd]. unfold add_stream. cbn [fst snd].
  set (sid := last_id s + 1).
  set (st := mkStream p (if c =? 0 then 100 else c) t [] None false false false false g [] [] []).
  assert (Hnew : hget sid (objs s) = None).
  { destruct (hget sid (objs s)) eqn:E; auto. apply Hf in E. unfold sid in E. lia. }
  assert (Hlive_old : live s sid = false) by (unfold live; rewrite Hnew; reflexivity).
  set (s' := mkState (cfg s) (hset sid st (objs s)) (pool_ids s ++ [sid]) (idx_append (by_peer s) p sid)
                     (fold_left (fun m t0 => idx_append m t0 sid) t (by_tag s)) sid (callers s) (dialq s)
                     (running s) (fatal s) (panicked s)).
  assert (Hl : forall x, live s' x = if x =? sid then true else live s x).
  { intros x. unfold live, s'; cbn. rewrite hget_hset. destruct (x =? sid); auto. }
  assert (Htg : forall x, tags_of s' x = if x =? sid then t else tags_of s x).
  { intros x. unfold tags_of, s'; cbn. rewrite hget_hset. destruct (x =? sid); auto. }
  assert (Hpr : forall x, peer_of s' x = if x =? sid then p else peer_of s x).
  { intros x. unfold peer_of, s'; cbn. rewrite hget_hset. destruct (x =? sid); auto. }
  split.
  - constructor.
    + intros x. rewrite Hl. change (pool_ids s') with (pool_ids s ++ [sid]).
      rewrite memN_count, countN_app. cbn [countN]. specialize (Hp x). rewrite memN_count in Hp.
      destruct (x =? sid) eqn:E.
      * destruct (countN x (pool_ids s)); reflexivity.
      * rewrite Nat.add_0_r. exact Hp.
    + intros x q. rewrite Hl, Hpr. change (by_peer s') with (idx_append (by_peer s) p sid).
      rewrite mget_idx_append. destruct (q =? p) eqn:Eq.
      * apply N.eqb_eq in Eq; subst q. rewrite countN_app, Hpe. cbn [countN].
        destruct (x =? sid) eqn:E.
        -- apply N.eqb_eq in E; subst x. rewrite Hlive_old, N.eqb_refl. reflexivity.
        -- rewrite Nat.add_0_r. reflexivity.
      * rewrite Hpe. destruct (x =? sid) eqn:E; auto.
        apply N.eqb_eq in E; subst x. rewrite Hlive_old. cbn. rewrite N.eqb_sym, Eq. reflexivity.
    + intros x tg. rewrite Hl, Htg. change (by_tag s') with (fold_left (fun m t0 => idx_append m t0 sid) t (by_tag s)).
      rewrite count_fold_append, Ht. destruct (x =? sid) eqn:E.
      * apply N.eqb_eq in E; subst x. rewrite Hlive_old. reflexivity.
      * rewrite Nat.add_0_r. reflexivity.
    + intros x stx. cbn. rewrite hget_hset. destruct (x =? sid) eqn:E.
      * apply N.eqb_eq in E; subst x. intros _. lia.
      * intros H. apply Hf in H. unfold sid. lia.
    + exact Ha.
    + intros cid pd x Hc Hin. cbn. rewrite hget_hset. destruct (x =? sid); [discriminate|]. eapply Hpd; eauto.
  - rewrite Hl, N.eqb_refl. reflexivity.
Qed.

Lemma next_target_in : forall gs x g rest,
  next_target gs = Some (x, g, rest) ->
  In x (concat gs) /\ forall y, In y (concat (g :: rest)) -> In y (concat gs).
Proof.
  induction gs as [|[|y g'] r IH]; intros x g rest H; cbn in H; try discriminate.
  - cbn. eapply IH; eauto.
  - inversion H; subst. cbn. split; auto.
Qed.

Lemma after_write_in : forall md r g rest y,
  In y (concat (after_write md r g rest)) -> In y (concat (g :: rest)).
Proof.
  intros md r g rest y. destruct r, md; cbn; auto; try tauto; intros H; apply in_or_app; auto.
Qed.

Lemma write_stream_static : forall st m, same_static st (fst (write_stream st m)).
Proof.
  intros st m. unfold write_stream, same_static.
  destruct (st_qclosed st); cbn; auto. destruct (st_cap st <=? N.of_nat (length (st_queue st))); cbn; auto.
Qed.

Lemma take_static : forall st, same_static st (fst (take st)).
Proof.
  intros st. unfold take, same_static. destruct (st_wdone st); cbn; auto.
  destruct (st_inflight st); cbn; auto. destruct (st_queue st); cbn; auto. destruct (st_qclosed st); cbn; auto.
Qed.

Lemma send_ok_static : forall st, same_static st (send_ok st).
Proof. intros st. unfold send_ok, same_static. destruct (st_inflight st); cbn; auto. Qed.
Lemma send_fail_static : forall st, same_static st (send_fail st).
Proof. intros st. unfold send_fail, same_static. destruct (st_inflight st); cbn; auto. Qed.
Lemma read_err_static : forall st, same_static st (read_err st).
Proof. intros st. unfold read_err, same_static. cbn; auto. Qed.
Lemma close_queue_static : forall st, same_static st (close_queue st).
Proof. intros st. unfold close_queue, same_static. destruct (st_closing st && negb (st_qclosed st)); cbn; auto. Qed.

Lemma idx_inv_do_write : forall s cid, idx_inv s -> idx_inv (fst (do_write s cid)).
Proof.
  intros s cid Hi. unfold do_write.
  destruct (cget cid (callers s)) as [p|] eqn:Ec; cbn [fst]; auto.
  destruct (next_target (p_groups p)) as [[[sid g] rest]|] eqn:En; cbn [fst]; auto.
  destruct (next_target_in _ _ _ _ En) as (Hin & Hsub).
  destruct (hget sid (objs s)) as [st|] eqn:Eh.
  - pose proof (write_stream_static st (p_msg p)) as Hs.
    destruct (write_stream st (p_msg p)) as [st' r]; cbn [fst] in *.
    eapply idx_inv_static_update; eauto.
    intros c pd x Hc Hx. destruct (N.eq_dec c cid) as [->|Hne].
    + rewrite cget_cset_same in Hc. inversion Hc; subst. cbn in Hx.
      eapply (ii_pend s Hi); eauto. apply Hsub. eapply after_write_in; eauto.
    + rewrite cget_cset_other in Hc; auto. eapply (ii_pend s Hi); eauto.
  - exfalso. eapply (ii_pend s Hi); eauto.
Qed.

Lemma dead_false_of_inv : forall s, idx_inv s -> fatal s || panicked s = false.
Proof. intros s Hi. exact (ii_alive s Hi). Qed.

Lemma pool_hget : forall s sid, idx_inv s -> memN sid (pool_ids s) = true ->
  exists st, hget sid (objs s) = Some st /\ st_removed st = false.
Proof.
  intros s sid Hi H. rewrite (ii_pool s Hi) in H. unfold live in H.
  destruct (hget sid (objs s)) as [st|]; [|discriminate]. exists st; split; auto.
  destruct (st_removed st); auto; discriminate.
Qed.

Lemma idx_inv_add_tags : forall s sid tags, idx_inv s -> idx_inv (fst (add_tags s sid tags)).
Proof.
  intros s sid tags Hi. unfold add_tags.
  destruct (memN sid (pool_ids s)) eqn:Em; cbn [negb fst]; auto.
  destruct (pool_hget s sid Hi Em) as (st & Hg & Hrm). rewrite Hg.
  destruct (add_new_tags (st_tags st) tags) as [cur' newt] eqn:Ea. cbn [fst].
  destruct Hi as [Hp Hpe Ht Hf Ha Hpd].
  set (s1 := upd_objs s (hset sid (set_tags st cur') (objs s))).
  set (s' := upd_by_tag s1 (fold_left (fun m t => idx_append m t sid) newt (by_tag s1))).
  assert (Hl : forall x, live s' x = live s x).
  { intros x. unfold live, s', s1; cbn. rewrite hget_hset. destruct (x =? sid) eqn:E; auto.
    apply N.eqb_eq in E; subst x. rewrite Hg. reflexivity. }
  assert (Htg : forall x, tags_of s' x = if x =? sid then cur' else tags_of s x).
  { intros x. unfold tags_of, s', s1; cbn. rewrite hget_hset. destruct (x =? sid); auto. }
  assert (Hpr : forall x, peer_of s' x = peer_of s x).
  { intros x. unfold peer_of, s', s1; cbn. rewrite hget_hset. destruct (x =? sid) eqn:E; auto.
    apply N.eqb_eq in E; subst x. rewrite Hg. reflexivity. }
  assert (Hls : live s sid = true) by (unfold live; rewrite Hg, Hrm; reflexivity).
  constructor.
  - intros x. rewrite Hl. apply Hp.
  - intros x q. rewrite Hl, Hpr. apply Hpe.
  - intros x t. rewrite Hl, Htg. unfold s'; cbn [by_tag upd_by_tag]. unfold s1; cbn [by_tag upd_objs].
    rewrite count_fold_append, Ht. destruct (x =? sid) eqn:E.
    + apply N.eqb_eq in E; subst x. rewrite Hls. unfold tags_of. rewrite Hg.
      symmetry. eapply add_new_tags_count; eauto.
    + lia.
  - intros x stx. cbn. rewrite hget_hset. destruct (x =? sid) eqn:E; [|apply Hf].
    apply N.eqb_eq in E; subst x. intros _. eapply Hf; eauto.
  - exact Ha.
  - intros cid pd x Hc Hin. cbn. rewrite hget_hset. destruct (x =? sid); [discriminate|]. eapply Hpd; eauto.
Qed.

Lemma countN_filter_le : forall (f : N -> bool) t l, (countN t (filter f l) <= countN t l)%nat.
Proof. intros. rewrite (countN_filter_split f t l). lia. Qed.

Lemma idx_inv_remove_tags : forall s sid tags byid, idx_inv s -> idx_inv (fst (remove_tags s sid tags byid)).
Proof.
  intros s sid tags byid Hi. unfold remove_tags.
  destruct (memN sid (pool_ids s)) eqn:Em; cbn [negb fst]; auto.
  destruct (pool_hget s sid Hi Em) as (st & Hg & Hrm). rewrite Hg.
  destruct Hi as [Hp Hpe Ht Hf Ha Hpd].
  assert (Hls : live s sid = true) by (unfold live; rewrite Hg, Hrm; reflexivity).
  set (rm := filter (fun t => memN t tags) (st_tags st)).
  set (keep := filter (fun t => negb (memN t tags)) (st_tags st)).
  set (s1 := upd_objs s (hset sid (set_tags st keep) (objs s))).
  destruct (idx_remove_all_spec rm (by_tag s1) sid) as (m' & Hr & Hc).
  { intros t. unfold s1; cbn [by_tag upd_objs]. rewrite Ht, Hls. unfold tags_of. rewrite Hg.
    apply countN_filter_le. }
  rewrite Hr. cbn [fst].
  set (s' := upd_by_tag s1 m').
  assert (Hl : forall x, live s' x = live s x).
  { intros x. unfold live, s', s1; cbn. rewrite hget_hset. destruct (x =? sid) eqn:E; auto.
    apply N.eqb_eq in E; subst x. rewrite Hg. reflexivity. }
  assert (Htg : forall x, tags_of s' x = if x =? sid then keep else tags_of s x).
  { intros x. unfold tags_of, s', s1; cbn. rewrite hget_hset. destruct (x =? sid); auto. }
  assert (Hpr : forall x, peer_of s' x = peer_of s x).
  { intros x. unfold peer_of, s', s1; cbn. rewrite hget_hset. destruct (x =? sid) eqn:E; auto.
    apply N.eqb_eq in E; subst x. rewrite Hg. reflexivity. }
  constructor.
  - intros x. rewrite Hl. apply Hp.
  - intros x q. rewrite Hl, Hpr. apply Hpe.
  - intros x t. rewrite Hl, Htg. unfold s'; cbn [by_tag upd_by_tag]. rewrite Hc.
    unfold s1; cbn [by_tag upd_objs]. rewrite Ht. destruct (x =? sid) eqn:E.
    + apply N.eqb_eq in E; subst x. rewrite Hls. unfold tags_of. rewrite Hg.
      rewrite (countN_filter_split (fun t0 => memN t0 tags) t (st_tags st)). fold rm keep. lia.
    + lia.
  - intros x stx. cbn. rewrite hget_hset. destruct (x =? sid) eqn:E; [|apply Hf].
    apply N.eqb_eq in E; subst x. intros _. eapply Hf; eauto.
  - exact Ha.
  - intros cid pd x Hc' Hin. cbn. rewrite hget_hset. destruct (x =? sid); [discriminate|]. eapply Hpd; eauto.
Qed.

Lemma countN_remove_all : forall x y l,
  countN x (remove_all_N y l) = if x =? y then 0%nat else countN x l.
Proof.
  intros x y l; induction l as [|z l IH]; cbn; [destruct (x =? y); auto|].
  destruct (y =? z) eqn:E.
  - apply N.eqb_eq in E; subst z. rewrite IH. destruct (x =? y); auto.
  - cbn. rewrite IH. destruct (x =? y) eqn:E2; auto.
    apply N.eqb_eq in E2; subst x. rewrite E. reflexivity.
Qed.

(* pool.removeStream never reaches log.Fatal and re-establishes the invariant *)
Lemma idx_inv_remove_stream : forall s sid, idx_inv s -> idx_inv (remove_stream s sid).
Proof.
  intros s sid Hi. unfold remove_stream.
  destruct (hget sid (objs s)) as [st|] eqn:Hg; auto.
  destruct (st_qclosed st && negb (st_removed st)) eqn:Eq; auto.
  apply andb_true_iff in Eq. destruct Eq as (Hqc & Hrm). apply negb_true_iff in Hrm.
  assert (Hls : live s sid = true) by (unfold live; rewrite Hg, Hrm; reflexivity).
  rewrite (live_in_pool s sid Hi Hls). cbn [negb].
  destruct Hi as [Hp Hpe Ht Hf Ha Hpd].
  destruct (idx_remove_spec (by_peer s) (st_peer st) sid) as (bp & Hr1 & Hc1).
  { rewrite Hpe, Hls. unfold peer_of. rewrite Hg, N.eqb_refl. cbn. lia. }
  rewrite Hr1.
  destruct (idx_remove_all_spec (st_tags st) (by_tag s) sid) as (bt & Hr2 & Hc2).
  { intros t. rewrite Ht, Hls. unfold tags_of. rewrite Hg. lia. }
  rewrite Hr2.
  set (s' := mkState (cfg s) (hset sid (mark_removed st) (objs s)) (remove_all_N sid (pool_ids s)) bp bt
                     (last_id s) (callers s) (dialq s) (running s) (fatal s) (panicked s)).
  assert (Hl : forall x, live s' x = if x =? sid then false else live s x).
  { intros x. unfold live, s'; cbn. rewrite hget_hset. destruct (x =? sid); auto. }
  assert (Htg : forall x, tags_of s' x = tags_of s x).
  { intros x. unfold tags_of, s'; cbn. rewrite hget_hset. destruct (x =? sid) eqn:E; auto.
    apply N.eqb_eq in E; subst x. rewrite Hg. reflexivity. }
  assert (Hpr : forall x, peer_of s' x = peer_of s x).
  { intros x. unfold peer_of, s'; cbn. rewrite hget_hset. destruct (x =? sid) eqn:E; auto.
    apply N.eqb_eq in E; subst x. rewrite Hg. reflexivity. }
  constructor.
  - intros x. rewrite Hl. change (pool_ids s') with (remove_all_N sid (pool_ids s)).
    rewrite memN_count, countN_remove_all. destruct (x =? sid); auto.
    rewrite <- memN_count. apply Hp.
  - intros x q. rewrite Hl, Hpr. change (by_peer s') with bp. rewrite Hc1, Hpe.
    destruct (x =? sid) eqn:E; cbn [andb].
    + apply N.eqb_eq in E; subst x. rewrite Hls. unfold peer_of. rewrite Hg. cbn [andb].
      rewrite (N.eqb_sym q). destruct (st_peer st =? q); lia.
    + lia.
  - intros x t. rewrite Hl, Htg. change (by_tag s') with bt. rewrite Hc2, Ht.
    destruct (x =? sid) eqn:E.
    + apply N.eqb_eq in E; subst x. rewrite Hls. unfold tags_of. rewrite Hg. lia.
    + lia.
  - intros x stx. cbn. rewrite hget_hset. destruct (x =? sid) eqn:E; [|apply Hf].
    apply N.eqb_eq in E; subst x. intros _. eapply Hf; eauto.
  - exact Ha.
  - intros cid pd x Hc Hin. cbn. rewrite hget_hset. destruct (x =? sid); [discriminate|]. eapply Hpd; eauto.
Qed.

Lemma idx_inv_callers_only : forall s cs,
  idx_inv s ->
  (forall cid p x, cget cid cs = Some p -> In x (concat (p_groups p)) -> hget x (objs s) <> None) ->
  forall q r, idx_inv (upd_callers (upd_dial s q r) cs).
Proof.
  intros s cs [Hp Hpe Ht Hf Ha Hpd] Hcs q r. constructor; auto.
Qed.

Lemma idx_inv_dial_peer : forall s cid opn, idx_inv s -> idx_inv (fst (dial_peer s cid opn)).
Proof.
  intros s cid opn Hi. unfold dial_peer.
  destruct (cget cid (callers s)) as [p|] eqn:Ec; cbn [fst]; auto.
  destruct (next_target (p_groups p)); cbn [fst]; auto.
  destruct (p_peers p) as [|peer rest]; cbn [fst]; auto.
  destruct (mget peer (by_peer s)) as [|y g] eqn:Em.
  - destruct opn as [[[cap tags] cg]|]; cbn [fst].
    + destruct (idx_inv_add_stream s peer cap tags cg Hi) as (Hi1 & Hl1).
      destruct (add_stream s peer cap tags cg) as [s1 sid]; cbn [fst snd] in *.
      apply idx_inv_start_caller; auto. intros x Hx. cbn in Hx. destruct Hx as [->|[]]; auto.
    + rewrite <- (upd_callers_same s) at 1.
      destruct Hi as [Hp Hpe Ht Hf Ha Hpd]. constructor; auto.
      intros c pd x Hc Hin. cbn [callers upd_callers objs] in Hc |- *. destruct (N.eq_dec c cid) as [->|Hne].
      * rewrite cget_cset_same in Hc. inversion Hc; subst. cbn in Hin. tauto.
      * rewrite cget_cset_other in Hc; auto. eapply Hpd; eauto.
  - cbn [fst]. apply idx_inv_start_caller; auto.
    intros x Hx. cbn in Hx. rewrite app_nil_r in Hx. eapply in_by_peer_live; eauto. rewrite Em. exact Hx.
Qed.

Theorem step_idx_inv : forall s l, idx_inv s -> idx_inv (step s l).
Proof.
  intros s l Hi. unfold step, step_out. rewrite (dead_false_of_inv s Hi).
  destruct l; cbn [fst].
  - pose proof (idx_inv_add_stream s peer cap tags cgate Hi) as (Ha & _).
    destruct (add_stream s peer cap tags cgate); cbn [fst] in *; auto.
  - apply idx_inv_start_caller; auto. intros x Hx. cbn in Hx. rewrite app_nil_r in Hx.
    unfold bcast_targets in Hx. apply collect_tags_in in Hx. destruct Hx as (t & Hx).
    eapply in_by_tag_live; eauto.
  - apply idx_inv_start_caller; auto. intros x Hx. apply peer_groups_in in Hx. destruct Hx as (p & Hx).
    eapply in_by_peer_live; eauto.
  - apply idx_inv_do_write; auto.
  - apply idx_inv_add_tags; auto.
  - apply idx_inv_remove_tags; auto.
  - rewrite all_in_pool_true; cbn [fst]; auto.
    intros x Hx. unfold streams_of in Hx. apply in_flat_map in Hx. destruct Hx as (t & _ & Hx).
    apply live_in_pool; auto. eapply in_by_tag_live; eauto.
  - destruct (hget sid (objs s)) as [st|] eqn:E; cbn [fst]; auto.
    pose proof (take_static st) as Hs. destruct (take st) as [st' o]; cbn [fst] in *.
    rewrite <- (upd_callers_same (upd_objs s (hset sid st' (objs s)))). cbn [callers upd_objs].
    eapply idx_inv_static_update; eauto. apply Hi.
  - apply idx_inv_upd_stream; auto using send_ok_static.
  - apply idx_inv_upd_stream; auto using send_fail_static.
  - apply idx_inv_upd_stream; auto using read_err_static.
  - apply idx_inv_upd_stream; auto using close_queue_static.
  - apply idx_inv_remove_stream; auto.
  - unfold send_enqueue.
    destruct ((0 <? dial_cap (cfg s)) && (dial_cap (cfg s) <=? N.of_nat (length (dialq s)))); cbn [fst]; auto.
    destruct Hi as [Hp Hpe Ht Hf Ha Hpd]. constructor; auto.
  - unfold dial_take. destruct (running s <? dial_workers (cfg s)); auto.
    destruct (dialq s) as [|[[c m] ps] q]; auto.
    apply idx_inv_callers_only; auto.
    intros c' pd x Hc Hin. destruct (N.eq_dec c' c) as [->|Hne].
    + rewrite cget_cset_same in Hc. inversion Hc; subst. cbn in Hin. tauto.
    + rewrite cget_cset_other in Hc; auto. eapply (ii_pend s Hi); eauto.
  - apply idx_inv_dial_peer; auto.
  - unfold dial_done. destruct (cget cid (callers s)) as [p|] eqn:Ec; auto.
    destruct (next_target (p_groups p)); auto. destruct (p_peers p); auto. destruct (p_mode p); auto.
    destruct (0 <? running s); auto.
    apply idx_inv_callers_only; auto.
    intros c' pd x Hc Hin. destruct (N.eq_dec c' cid) as [->|Hne].
    + exfalso. clear - Hc. induction (callers s) as [|[k v] r IH]; cbn in Hc; [discriminate|].
      destruct (cid =? k) eqn:E; auto. cbn in Hc. rewrite E in Hc. auto.
    + rewrite cget_cdel_other in Hc; auto. eapply (ii_pend s Hi); eauto.
Qed.

Theorem run_idx_inv : forall tr s, idx_inv s -> idx_inv (run s tr).
Proof. induction tr as [|l tr IH]; intros s Hs; cbn; auto. apply IH. apply step_idx_inv; auto. Qed.

Theorem reachable_idx_inv : forall c tr, idx_inv (run (init c) tr).
Proof. intros. apply run_idx_inv. apply init_idx_inv. Qed.

(* ------------------------------------------------------------------ consequences *)
(* neither log.Fatal branch (removeStream method / package-level removeStream) nor a nil *stream dereference
   is reachable, under any interleaving of tag changes, sends and closes, duplicate tags included *)
Theorem no_fatal_all_schedules : forall c tr,
  fatal (run (init c) tr) = false /\ panicked (run (init c) tr) = false.
Proof.
  intros c tr. pose proof (ii_alive _ (reachable_idx_inv c tr)) as H. unfold dead in H.
  apply orb_false_iff in H. exact H.
Qed.

(* after a stream ended (pool.removeStream done) no index mentions it ... *)
Theorem cleanup_all_schedules : forall c tr sid st,
  let s := run (init c) tr in
  hget sid (objs s) = Some st -> st_removed st = true ->
  memN sid (pool_ids s) = false
  /\ (forall p, ~ In sid (mget p (by_peer s)))
  /\ (forall t, ~ In sid (mget t (by_tag s)))
  (* ... so no later Broadcast / SendById / Send / Streams collects it ... *)
  /\ (forall tags, ~ In sid (bcast_targets s tags))
  /\ (forall peers, ~ In sid (concat (peer_groups (by_peer s) peers)))
  /\ (forall tags, ~ In sid (streams_of s tags))
  (* ... and its queue is closed: a caller that still holds the pointer gets an error, nothing is buffered *)
  /\ (forall m, write_stream st m = (st, WClosed)).
Proof.
  intros c tr sid st s Hg Hrm.
  pose proof (reachable_idx_inv c tr) as Hi. fold s in Hi.
  assert (Hl : live s sid = false) by (unfold live; rewrite Hg, Hrm; reflexivity).
  assert (Hp : forall p, ~ In sid (mget p (by_peer s))).
  { intros p Hin. apply (in_by_peer_live s p sid Hi) in Hin. congruence. }
  assert (Ht : forall t, ~ In sid (mget t (by_tag s))).
  { intros t Hin. apply (in_by_tag_live s t sid Hi) in Hin. congruence. }
  repeat split; auto.
  - rewrite (ii_pool s Hi). exact Hl.
  - intros tags Hin. unfold bcast_targets in Hin. apply collect_tags_in in Hin. destruct Hin as (t & Hin).
    eapply Ht; eauto.
  - intros peers Hin. apply peer_groups_in in Hin. destruct Hin as (p & Hin). eapply Hp; eauto.
  - intros tags Hin. unfold streams_of in Hin. apply in_flat_map in Hin. destruct Hin as (t & _ & Hin).
    eapply Ht; eauto.
  - intros m. apply write_stream_closed.
    pose proof (run_objs_ok tr (init c) (init_objs_ok c) sid st Hg) as (_ & _ & _ & _ & Hr & _). auto.
Qed.

(* index consistency, stated without the auxiliary definitions *)
Theorem index_consistent_all_schedules : forall c tr,
  let s := run (init c) tr in
  (forall sid, memN sid (pool_ids s) = true <->
               exists st, hget sid (objs s) = Some st /\ st_removed st = false)
  /\ (forall sid p, countN sid (mget p (by_peer s)) =
        match hget sid (objs s) with
        | Some st => if negb (st_removed st) && (st_peer st =? p) then 1%nat else 0%nat
        | None => 0%nat end)
  /\ (forall sid t, countN sid (mget t (by_tag s)) =
        match hget sid (objs s) with
        | Some st => if negb (st_removed st) then countN t (st_tags st) else 0%nat
        | None => 0%nat end).
Proof.
  intros c tr s. pose proof (reachable_idx_inv c tr) as Hi. fold s in Hi.
  split; [|split].
  - intros sid. rewrite (ii_pool s Hi). unfold live. destruct (hget sid (objs s)) as [st|].
    + split; [intros H; exists st; split; auto; destruct (st_removed st); auto; discriminate|].
      intros (st' & E & Hr). inversion E; subst. rewrite Hr. reflexivity.
    + split; [discriminate|intros (st' & E & _); discriminate].
  - intros sid p. rewrite (ii_peer s Hi). unfold live, peer_of. destruct (hget sid (objs s)); auto.
  - intros sid t. rewrite (ii_tag s Hi). unfold live, tags_of. destruct (hget sid (objs s)); auto.
Qed.
