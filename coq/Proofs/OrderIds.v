(* Proofs/OrderIds.v — the order ids assigned by Tree.updateHeads / ObjectTree.AddContent realise the presented
   (canonical) order: after any history of Tree.Add / Tree.AddFast / local AddContent-like adds from the empty tree
   the ids strictly increase along the presented sequence, are pairwise different, never change once assigned, a local
   change gets an id above all its parents, and sorting the attached changes by order id gives [order S root] (C06/C09).

   Hypotheses that stay visible: the four laws of the order ids (Section variables), and [acyclic_along rk]: one rank
   that every attached change exceeds over each of its previous ids, in every state the history goes through. *)
From Coq Require Import List NArith Bool Arith Lia Permutation Sorted.
Import ListNotations.
From AnySync Require Import Lib.Dag Model.Dfs Model.Tree Model.OrderIds Proofs.DfsBase Proofs.TreeInc Proofs.DfsTopo
  Proofs.DfsStable Proofs.TreeAppend Proofs.OrderIdsFill Proofs.OrderIdsTree.

Section Hist.
  Variable oid : Type.
  Variable oltb : oid -> oid -> bool.
  Variable first_id : oid.
  Variable next_id : oid -> oid.
  Variable between : oid -> oid -> oid.

  Notation olt := (olt oid oltb).
  Notation oget := (oget oid).
  Notation looked := (looked oid).
  Notation fill := (fill oid first_id next_id between).
  Notation it_add := (it_add oid first_id next_id between).
  Notation it_add_fast := (it_add_fast oid first_id next_id between).
  Notation it_local := (it_local oid next_id).
  Notation iapply := (iapply oid first_id next_id between).
  Notation irun := (irun oid first_id next_id between).
  Notation it_stored := (it_stored oid oltb).
  Notation chain := (chain oid oltb).
  Notation incr := (incr oid oltb).
  Notation it_tree := (it_tree oid).
  Notation it_ids := (it_ids oid).

  Hypothesis olt_trans : forall a b c, olt a b -> olt b c -> olt a c.
  Hypothesis olt_irrefl : forall a, ~ olt a a.
  Hypothesis next_gt : forall a, olt a (next_id a).
  Hypothesis between_gt : forall a b, olt a b -> olt a (between a b) /\ olt (between a b) b.

  (* every element of seq has an id and the ids strictly increase along seq *)
  Definition sorted_ids (m : idmap oid) (seq : list N) : Prop :=
    exists ks, map (oget m) seq = map Some ks /\ incr ks.

  Record oinv (s : itree oid) : Prop := mkOinv {
    oi_good   : good (it_tree s);
    oi_sorted : sorted_ids (it_ids s) (iter_ids (it_tree s));
    oi_dom    : forall i x, oget (it_ids s) i = Some x -> In i (iter_ids (it_tree s))
  }.

  Definition acyc (rk : N -> nat) (t : tree) : Prop := acyclic_by rk (view (t_att t) (t_root t)).

  Lemma oinv_empty : oinv (it_empty oid).
  Proof.
    split; [apply good_empty | exists []; split; [reflexivity | exact I] | intros i x H; discriminate H].
  Qed.

  Lemma sorted_nil : forall m, sorted_ids m [].
  Proof. intros m. exists []. split; [reflexivity | exact I]. Qed.

  Lemma iter_NoDup : forall t rk, inv t -> t_att t <> [] -> acyc rk t -> NoDup (iter_ids t).
  Proof.
    intros t rk Hinv Hne Hac. rewrite (iter_ids_order t Hinv Hne). apply (order_topological _ _ rk Hac).
  Qed.

  Lemma iter_root_first : forall t, inv t -> t_att t <> [] -> exists rest, iter_ids t = t_root t :: rest.
  Proof. intros t Hinv Hne. rewrite (iter_ids_order t Hinv Hne). apply order_root_first. Qed.

  (* ---------------------------------------------------------------- updateHeads on a grown tree *)

  Lemma fill_core : forall m t2 rk rest2,
    inv t2 -> t_att t2 <> [] -> acyc rk t2 -> iter_ids t2 = t_root t2 :: rest2 ->
    chain (root_id oid first_id m (t_root t2)) (akeys oid (looked m rest2)) ->
    sorted_ids (fill m (iter_ids t2)) (iter_ids t2).
  Proof.
    intros m t2 rk rest2 Hi2 Hne2 Hac Hit Hch.
    pose proof (iter_NoDup t2 rk Hi2 Hne2 Hac) as Hnd. rewrite Hit in *.
    destruct (fill_sorted oid oltb first_id next_id between next_gt between_gt m (t_root t2) rest2 Hnd Hch) as [Hk Hc].
    eexists. split; [exact Hk | exact Hc].
  Qed.

  Lemma fill_step_grown : forall t m t2 Nw rk,
    good t -> t_att t <> [] -> sorted_ids m (iter_ids t) -> (forall i x, oget m i = Some x -> In i (iter_ids t)) ->
    inv t2 -> grown t t2 Nw -> acyc rk t2 ->
    sorted_ids (fill m (iter_ids t2)) (iter_ids t2) /\
    (forall i x, oget (fill m (iter_ids t2)) i = Some x -> In i (iter_ids t2)).
  Proof.
    intros t m t2 Nw rk Hgood Hne Hsort Hdom Hi2 Hgr Hac.
    pose proof (grown_ne t t2 Nw Hne Hgr) as Hne2.
    pose proof (grown_stable t t2 Nw Hgood Hne Hi2 Hgr) as Hst.
    destruct (iter_root_first t (gd_inv t Hgood) Hne) as [rest Hit].
    destruct (iter_root_first t2 Hi2 Hne2) as [rest2 Hit2].
    assert (Hr : t_root t2 = t_root t) by (destruct Hgr as [_ [Hr _]]; exact Hr).
    assert (Hold : forall i, In i (iter_ids t) -> In i (iter_ids t2)).
    { intros i Hi. rewrite <- Hst in Hi. apply filter_In in Hi. exact (proj1 Hi). }
    split.
    - apply (fill_core m t2 rk rest2 Hi2 Hne2 Hac Hit2).
      rewrite Hit2, Hit, Hr in Hst. cbn [filter] in Hst.
      assert (Hrn : not_new Nw (t_root t) = true) by (apply not_new_true; apply (grown_h3 t t2 Nw Hgood Hne Hgr)).
      rewrite Hrn in Hst. inversion Hst as [Hst'].
      destruct Hsort as [ks [Hk Hinc]]. rewrite Hit in Hk. destruct ks as [|k0 ks']; [discriminate|].
      cbn [map] in Hk. inversion Hk as [[Hk0 Hk']].
      unfold root_id. rewrite Hr, Hk0.
      rewrite (akeys_filter oid m (not_new Nw) rest2).
      + rewrite Hst'. rewrite (akeys_all oid m rest ks' Hk'). exact Hinc.
      + intros i Hi Hf. apply not_new_false in Hf. destruct (oget m i) as [x|] eqn:E; [|reflexivity]. exfalso.
        pose proof (iter_in_att t (gd_inv t Hgood) Hne i (Hdom i x E)) as Hat.
        destruct Hgr as [_ [_ Hnd]]. exact (NoDup_app_disjoint _ _ i Hnd Hf Hat).
    - intros i x H. apply (fill_dom oid first_id next_id between) in H. destruct H as [H|H]; [exact H | apply Hold, (Hdom i x H)].
  Qed.

  Lemma fill_step_first : forall m t2 rk,
    (forall i, oget m i = None) -> inv t2 -> t_att t2 <> [] -> acyc rk t2 ->
    sorted_ids (fill m (iter_ids t2)) (iter_ids t2) /\
    (forall i x, oget (fill m (iter_ids t2)) i = Some x -> In i (iter_ids t2)).
  Proof.
    intros m t2 rk Hnone Hi2 Hne2 Hac. destruct (iter_root_first t2 Hi2 Hne2) as [rest2 Hit2]. split.
    - apply (fill_core m t2 rk rest2 Hi2 Hne2 Hac Hit2).
      assert (E : akeys oid (looked m rest2) = []).
      { clear Hit2. induction rest2 as [|i r IH]; [reflexivity|]. cbn [OrderIds.looked map akeys]. rewrite Hnone. exact IH. }
      rewrite E. exact I.
    - intros i x H. apply (fill_dom oid first_id next_id between) in H. destruct H as [H|H]; [exact H | rewrite Hnone in H; discriminate].
  Qed.

  Lemma dom_empty : forall s, oinv s -> t_att (it_tree s) = [] -> forall i, oget (it_ids s) i = None.
  Proof.
    intros s Hs He i. destruct (oget (it_ids s) i) as [x|] eqn:E; [|reflexivity].
    pose proof (oi_dom s Hs i x E) as Hin. rewrite (iter_ids_empty _ He) in Hin. destruct Hin.
  Qed.

  (* Tree.Add reporting nothing added leaves the attached set and the root as they were *)
  Lemma tree_add_nothing : forall t cs t2 m, good t -> tree_add t cs = (t2, m, []) -> t_att t2 = t_att t /\ t_root t2 = t_root t.
  Proof.
    intros t cs t2 m [Hinv H3 _] H. unfold tree_add in H.
    destruct (add_all t [] cs) as [[t1 added] fresh] eqn:E.
    destruct (add_all_facts t cs t1 added fresh Hinv H3 E) as [_ [_ Hsame]].
    destruct added as [|a ad].
    - inversion H; subst. destruct (Hsame eq_refl) as [Ha [Hr _]]. cbn [set_unatt t_att t_root]. split; assumption.
    - destruct (root_nil t); inversion H.
  Qed.

  Lemma same_iter : forall t t2, inv t -> inv t2 -> t_att t2 = t_att t -> t_root t2 = t_root t -> iter_ids t2 = iter_ids t.
  Proof.
    intros t t2 Hi Hi2 Ha Hr. destruct (t_att t) as [|a0 r0] eqn:E.
    - rewrite (iter_ids_empty t E), (iter_ids_empty t2 Ha). reflexivity.
    - assert (Hne : t_att t <> []) by (rewrite E; discriminate).
      assert (Hne2 : t_att t2 <> []) by (rewrite Ha; discriminate).
      rewrite (iter_ids_order t Hi Hne), (iter_ids_order t2 Hi2 Hne2), Ha, Hr, E. reflexivity.
  Qed.

  (* ---------------------------------------------------------------- one operation keeps the invariant *)

  Lemma it_add_oinv : forall s cs rk, oinv s -> acyc rk (it_tree (it_add s cs)) -> oinv (it_add s cs).
  Proof.
    intros s cs rk Hs Hac. pose proof Hs as [Hgood Hsort Hdom].
    unfold it_add, OrderIds.it_add in *. pose proof (tree_add_good (it_tree s) cs Hgood) as Hg2.
    destruct (t_att (it_tree s)) as [|a0 r0] eqn:Eatt.
    - (* empty tree *)
      destruct (tree_add (it_tree s) cs) as [[t2 md] added] eqn:E. cbn [fst it_tree it_ids OrderIds.it_tree OrderIds.it_ids] in *.
      destruct (t_att t2) as [|b0 q0] eqn:E2.
      + split; cbn [OrderIds.it_tree OrderIds.it_ids]; [exact Hg2 | rewrite (iter_ids_empty t2 E2); apply sorted_nil|].
        intros i x H. exfalso.
        assert (Hn : forall j, oget (OrderIds.it_ids oid s) j = None) by (apply dom_empty; assumption).
        destruct added; [rewrite Hn in H; discriminate|].
        rewrite (iter_ids_empty t2 E2) in H. cbn in H. rewrite Hn in H. discriminate.
      + assert (Hne2 : t_att t2 <> []) by (rewrite E2; discriminate).
        destruct added as [|a ad].
        * exfalso. destruct (tree_add_nothing _ _ _ _ Hgood E) as [Ha _]. rewrite Ha, Eatt in E2. discriminate.
        * destruct (fill_step_first (OrderIds.it_ids oid s) t2 rk (dom_empty s Hs Eatt) (gd_inv t2 Hg2) Hne2 Hac) as [H1 H2].
          split; cbn [OrderIds.it_tree OrderIds.it_ids]; assumption.
    - assert (Hne : t_att (it_tree s) <> []) by (rewrite Eatt; discriminate).
      destruct (tree_add_grown (it_tree s) cs Hgood Hne) as [Nw Hgr].
      destruct (tree_add (it_tree s) cs) as [[t2 md] added] eqn:E. cbn [fst it_tree it_ids OrderIds.it_tree OrderIds.it_ids] in *.
      destruct added as [|a ad].
      + destruct (tree_add_nothing _ _ _ _ Hgood E) as [Ha Hr].
        pose proof (same_iter _ t2 (gd_inv _ Hgood) (gd_inv t2 Hg2) Ha Hr) as Hsame.
        split; cbn [OrderIds.it_tree OrderIds.it_ids]; [exact Hg2 | rewrite Hsame; exact Hsort | rewrite Hsame; exact Hdom].
      + destruct (fill_step_grown _ (OrderIds.it_ids oid s) t2 Nw rk Hgood Hne Hsort Hdom (gd_inv t2 Hg2) Hgr Hac) as [H1 H2].
        split; cbn [OrderIds.it_tree OrderIds.it_ids]; assumption.
  Qed.

  Lemma it_add_fast_oinv : forall s cs rk, oinv s -> acyc rk (it_tree (it_add_fast s cs)) -> oinv (it_add_fast s cs).
  Proof.
    intros s cs rk Hs Hac. pose proof Hs as [Hgood Hsort Hdom].
    unfold it_add_fast, OrderIds.it_add_fast in *. destruct cs as [|c0 cr]; [exact Hs|].
    pose proof (tree_add_fast_good (it_tree s) (c0 :: cr) Hgood) as Hg2.
    destruct (t_att (it_tree s)) as [|a0 r0] eqn:Eatt.
    - destruct (tree_add_fast (it_tree s) (c0 :: cr)) as [t2 added] eqn:E. cbn [fst it_tree it_ids OrderIds.it_tree OrderIds.it_ids] in *.
      destruct (t_att t2) as [|b0 q0] eqn:E2.
      + split; cbn [OrderIds.it_tree OrderIds.it_ids]; [exact Hg2 | rewrite (iter_ids_empty t2 E2); apply sorted_nil|].
        intros i x H. exfalso. rewrite (iter_ids_empty t2 E2) in H. cbn in H.
        rewrite (dom_empty s Hs Eatt) in H. discriminate.
      + assert (Hne2 : t_att t2 <> []) by (rewrite E2; discriminate).
        destruct (fill_step_first (OrderIds.it_ids oid s) t2 rk (dom_empty s Hs Eatt) (gd_inv t2 Hg2) Hne2 Hac) as [H1 H2].
        split; cbn [OrderIds.it_tree OrderIds.it_ids]; assumption.
    - assert (Hne : t_att (it_tree s) <> []) by (rewrite Eatt; discriminate).
      destruct (tree_add_fast_grown (it_tree s) (c0 :: cr) Hgood Hne) as [Nw Hgr].
      destruct (tree_add_fast (it_tree s) (c0 :: cr)) as [t2 added] eqn:E. cbn [fst it_tree it_ids OrderIds.it_tree OrderIds.it_ids] in *.
      destruct (fill_step_grown _ (OrderIds.it_ids oid s) t2 Nw rk Hgood Hne Hsort Hdom (gd_inv t2 Hg2) Hgr Hac) as [H1 H2].
      split; cbn [OrderIds.it_tree OrderIds.it_ids]; assumption.
  Qed.

  Lemma incr_snoc : forall l a b, incr (l ++ [a]) -> olt a b -> incr ((l ++ [a]) ++ [b]).
  Proof.
    intros l a b H Hab. destruct l as [|k0 l']; cbn [app OrderIdsFill.incr] in *.
    - split; [exact Hab | exact I].
    - apply (chain_app oid oltb). split; [exact H|]. rewrite last_last. split; [exact Hab | exact I].
  Qed.

  Lemma incr_lt_last : forall l x, incr (l ++ [x]) -> forall k, In k l -> olt k x.
  Proof.
    induction l as [|a r IH]; intros x H k Hk; [destruct Hk|]. cbn [app OrderIdsFill.incr] in H.
    destruct Hk as [Hk|Hk].
    - subst k. apply (chain_all oid oltb olt_trans _ _ H). apply in_or_app. right. left. reflexivity.
    - apply (IH x); [|exact Hk]. destruct r as [|b r']; cbn [app OrderIdsFill.incr] in *; [exact I | exact (proj2 H)].
  Qed.

  (* what a successful local add looks like *)
  Record local_facts (s : itree oid) (id : N) (x : oid) (s' : itree oid) : Prop := mkLF {
    lf_last   : oget (it_ids s) (t_last (it_tree s)) = Some x;
    lf_ids    : it_ids s' = (id, next_id x) :: it_ids s;
    lf_iter   : iter_ids (it_tree s') = iter_ids (it_tree s) ++ [id];
    lf_lastit : last (iter_ids (it_tree s)) 0%N = t_last (it_tree s);
    lf_new    : ~ In id (iter_ids (it_tree s));
    lf_good   : good (it_tree s');
    lf_heads  : forall h, In h (t_heads (it_tree s)) -> In h (iter_ids (it_tree s))
  }.

  Lemma it_local_cases : forall s id rk, oinv s -> acyc rk (it_tree (it_local s id)) ->
    it_local s id = s \/ exists x, local_facts s id x (it_local s id).
  Proof.
    intros s id rk Hs Hac. pose proof Hs as [Hgood Hsort Hdom].
    unfold it_local, OrderIds.it_local in *.
    destruct (oget (OrderIds.it_ids oid s) (t_last (OrderIds.it_tree oid s))) as [x|] eqn:El; [|left; reflexivity].
    destruct (add_merged (OrderIds.it_tree oid s) (local_change (OrderIds.it_tree oid s) id false)) as [t'|] eqn:Em; [|left; reflexivity].
    right. exists x. cbn [OrderIds.it_tree OrderIds.it_ids] in *.
    assert (Hne : t_att (OrderIds.it_tree oid s) <> []).
    { intro He. rewrite (dom_empty s Hs He) in El. discriminate. }
    destruct (add_merged_facts _ _ t' rk Hgood Hne Em Hac) as [Hg' [_ [Hit [Hlh [Hll Hna]]]]].
    cbn [local_change cid] in Hit, Hna.
    split; cbn [OrderIds.it_tree OrderIds.it_ids]; try assumption; try reflexivity.
    - intro Hin. apply (iter_in_att _ (gd_inv _ Hgood) Hne) in Hin. apply attached_In in Hin. congruence.
    - intros h Hh. rewrite (gd_invh _ Hgood Hne) in Hh. unfold heads_now in Hh. apply (proj1 (isort_In _ _)) in Hh. apply filter_In in Hh.
      rewrite (iter_ids_order _ (gd_inv _ Hgood) Hne). exact (proj1 Hh).
  Qed.

  Lemma oget_cons_other : forall (m : idmap oid) id v i, i <> id -> oget ((id, v) :: m) i = oget m i.
  Proof.
    intros m id v i Hne. cbn [OrderIds.oget]. destruct (N.eqb id i) eqn:E; [apply N.eqb_eq in E; congruence | reflexivity].
  Qed.

  Lemma it_local_oinv : forall s id rk, oinv s -> acyc rk (it_tree (it_local s id)) -> oinv (it_local s id).
  Proof.
    intros s id rk Hs Hac. destruct (it_local_cases s id rk Hs Hac) as [E|[x [Hl Hids Hit Hlast Hnew Hg' _]]]; [rewrite E; exact Hs|].
    pose proof Hs as [Hgood Hsort Hdom]. split; [exact Hg'| |].
    - rewrite Hit, Hids. destruct Hsort as [ks [Hk Hinc]].
      assert (Hk' : map (oget ((id, next_id x) :: it_ids s)) (iter_ids (it_tree s)) = map Some ks).
      { rewrite <- Hk. apply map_ext_in. intros i Hi. apply oget_cons_other. intro E. subst i. contradiction. }
      exists (ks ++ [next_id x]). split.
      + rewrite !map_app, Hk'. cbn [map OrderIds.oget]. rewrite N.eqb_refl. reflexivity.
      + (* the last presented change carries x, the greatest id *)
        destruct (iter_ids (it_tree s)) as [|i0 r0] eqn:Ei.
        { exfalso. pose proof (oi_dom s Hs _ x Hl) as Hin. rewrite Ei in Hin. destruct Hin. }
        assert (Hnei : i0 :: r0 <> []) by discriminate.
        destruct (exists_last Hnei) as [A [z Ez]]. rewrite Ez in *. rewrite last_last in Hlast. subst z.
        rewrite map_app in Hk. cbn [map] in Hk. rewrite Hl in Hk. symmetry in Hk.
        apply map_eq_app in Hk. destruct Hk as [ks1 [ks2 [Eks [_ Hk2]]]].
        destruct ks2 as [|k2 [|k3 r3]]; try discriminate. cbn [map] in Hk2. inversion Hk2; subst k2.
        rewrite Eks in *. apply incr_snoc; [exact Hinc | apply next_gt].
    - intros i y H. rewrite Hids in H. rewrite Hit. apply in_or_app.
      destruct (N.eq_dec i id) as [E|E]; [right; left; symmetry; exact E|].
      left. rewrite oget_cons_other in H by exact E. apply (Hdom i y H).
  Qed.

  Lemma iapply_oinv : forall s o rk, oinv s -> acyc rk (it_tree (iapply s o)) -> oinv (iapply s o).
  Proof.
    intros s [cs|cs|id] rk Hs Hac; cbn [OrderIds.iapply] in *;
      [apply (it_add_oinv s cs rk) | apply (it_add_fast_oinv s cs rk) | apply (it_local_oinv s id rk)]; assumption.
  Qed.

  (* ---------------------------------------------------------------- histories *)

  (* one rank works for the attached set of every state the history goes through *)
  Fixpoint acyclic_along (rk : N -> nat) (s : itree oid) (ops : list (iop)) : Prop :=
    match ops with
    | [] => True
    | o :: r => acyc rk (it_tree (iapply s o)) /\ acyclic_along rk (iapply s o) r
    end.

  Definition hist_acyclic (rk : N -> nat) (ops : list iop) : Prop := acyclic_along rk (it_empty oid) ops.

  Lemma run_oinv_from : forall ops s rk, oinv s -> acyclic_along rk s ops -> oinv (fold_left iapply ops s).
  Proof.
    induction ops as [|o r IH]; intros s rk Hs Hac; cbn [fold_left]; [exact Hs|].
    destruct Hac as [H1 H2]. apply (IH _ rk); [apply (iapply_oinv s o rk); assumption | exact H2].
  Qed.

  Theorem run_oinv : forall ops rk, hist_acyclic rk ops -> oinv (irun ops).
  Proof. intros ops rk H. apply (run_oinv_from ops _ rk); [apply oinv_empty | exact H]. Qed.

  Lemma acyclic_along_app : forall ops1 ops2 s rk, acyclic_along rk s (ops1 ++ ops2) ->
    acyclic_along rk s ops1 /\ acyclic_along rk (fold_left iapply ops1 s) ops2.
  Proof.
    induction ops1 as [|o r IH]; intros ops2 s rk H; cbn [app fold_left acyclic_along] in *; [split; [exact I | exact H]|].
    destruct H as [H1 H2]. destruct (IH ops2 _ rk H2) as [A B]. split; [split; assumption | exact B].
  Qed.

  (* (b1) the ids strictly increase along the presented sequence, every presented change has one *)
  Theorem ids_increase_along_presented : forall ops rk, hist_acyclic rk ops ->
    sorted_ids (it_ids (irun ops)) (iter_ids (it_tree (irun ops))).
  Proof. intros ops rk H. exact (oi_sorted _ (run_oinv ops rk H)). Qed.

  Lemma sorted_inj : forall (m : idmap oid) l ks, map (oget m) l = map Some ks -> NoDup ks ->
    forall i j, In i l -> In j l -> oget m i = oget m j -> i = j.
  Proof.
    intros m. induction l as [|a r IH]; intros ks Hk Hnd i j Hi Hj E; [destruct Hi|].
    destruct ks as [|k ks']; [discriminate|]. cbn [map] in Hk. inversion Hk as [[Ha Hr]].
    inversion Hnd as [|? ? Hni Hnd']; subst.
    assert (Hrest : forall z, In z r -> oget m z <> Some k).
    { intros z Hz Ez. apply Hni. apply (in_map (oget m)) in Hz. rewrite Hr, Ez in Hz. apply in_map_iff in Hz.
      destruct Hz as [k' [Ek Hk']]. inversion Ek; subst. exact Hk'. }
    destruct Hi as [Hi|Hi]; destruct Hj as [Hj|Hj].
    - congruence.
    - subst i. exfalso. apply (Hrest j Hj). rewrite <- E. exact Ha.
    - subst j. exfalso. apply (Hrest i Hi). rewrite E. exact Ha.
    - apply (IH ks' Hr Hnd' i j Hi Hj E).
  Qed.

  Lemma incr_NoDup : forall ks, incr ks -> NoDup ks.
  Proof.
    intros [|k r] H; [constructor|]. cbn [OrderIdsFill.incr] in H.
    destruct (chain_NoDup oid oltb olt_trans olt_irrefl r k H) as [H1 H2]. constructor; assumption.
  Qed.

  (* (a1) assigned order ids are pairwise different *)
  Theorem ids_distinct : forall ops rk, hist_acyclic rk ops ->
    forall i j x, oget (it_ids (irun ops)) i = Some x -> oget (it_ids (irun ops)) j = Some x -> i = j.
  Proof.
    intros ops rk H i j x Hi Hj. pose proof (run_oinv ops rk H) as [_ [ks [Hk Hinc]] Hdom].
    apply (sorted_inj _ _ ks Hk (incr_NoDup ks Hinc)); [apply (Hdom i x Hi) | apply (Hdom j x Hj) | congruence].
  Qed.

  Lemma iapply_keeps : forall s o rk, oinv s -> acyc rk (it_tree (iapply s o)) ->
    forall i x, oget (it_ids s) i = Some x -> oget (it_ids (iapply s o)) i = Some x.
  Proof.
    intros s [cs|cs|id] rk Hs Hac i x H; cbn [OrderIds.iapply] in *.
    - unfold it_add, OrderIds.it_add. destruct (tree_add (OrderIds.it_tree oid s) cs) as [[t2 md] added].
      cbn [OrderIds.it_ids]. destruct added; [exact H | apply (fill_keeps oid first_id next_id between); exact H].
    - unfold it_add_fast, OrderIds.it_add_fast. destruct cs as [|c0 cr]; [exact H|].
      destruct (tree_add_fast (OrderIds.it_tree oid s) (c0 :: cr)) as [t2 added]. cbn [OrderIds.it_ids].
      apply (fill_keeps oid first_id next_id between). exact H.
    - destruct (it_local_cases s id rk Hs Hac) as [E|[y [_ Hids _ _ Hnew _ _]]]; [rewrite E; exact H|].
      rewrite Hids. rewrite oget_cons_other; [exact H|]. intro E. subst i. apply Hnew. apply (oi_dom s Hs id x H).
  Qed.

  (* (a2) an order id never changes once assigned *)
  Theorem ids_stable : forall ops1 ops2 rk, hist_acyclic rk (ops1 ++ ops2) ->
    forall i x, oget (it_ids (irun ops1)) i = Some x -> oget (it_ids (irun (ops1 ++ ops2))) i = Some x.
  Proof.
    intros ops1 ops2 rk H. unfold hist_acyclic in H. destruct (acyclic_along_app ops1 ops2 _ rk H) as [H1 H2].
    pose proof (run_oinv ops1 rk H1) as Hs1. unfold irun, OrderIds.irun in *. rewrite fold_left_app.
    set (s1 := fold_left iapply ops1 (it_empty oid)) in *. clearbody s1. clear H H1.
    revert s1 Hs1 H2. induction ops2 as [|o r IH]; intros s1 Hs1 H2 i x Hi; cbn [fold_left]; [exact Hi|].
    destruct H2 as [A B]. apply (IH (iapply s1 o)); [apply (iapply_oinv s1 o rk); assumption | exact B|].
    apply (iapply_keeps s1 o rk); assumption.
  Qed.

  (* (c) a local add gets an order id above the stored id of every one of its parents (the heads it merges) *)
  Theorem local_id_above_parents : forall ops id rk, hist_acyclic rk (ops ++ [ILocal id]) ->
    it_local (irun ops) id <> irun ops ->
    exists y, oget (it_ids (irun (ops ++ [ILocal id]))) id = Some y /\
      cprev (local_change (it_tree (irun ops)) id false) = t_heads (it_tree (irun ops)) /\
      forall p, In p (t_heads (it_tree (irun ops))) ->
        exists xp, oget (it_ids (irun ops)) p = Some xp /\ oget (it_ids (irun (ops ++ [ILocal id]))) p = Some xp /\ olt xp y.
  Proof.
    intros ops id rk H Hch. unfold hist_acyclic in H. destruct (acyclic_along_app ops [ILocal id] _ rk H) as [H1 H2].
    pose proof (run_oinv ops rk H1) as Hs. cbn [acyclic_along] in H2. destruct H2 as [Hac _].
    assert (Erun : irun (ops ++ [ILocal id]) = it_local (irun ops) id).
    { unfold irun, OrderIds.irun. rewrite fold_left_app. reflexivity. }
    rewrite Erun. fold (irun ops) in Hac. cbn [OrderIds.iapply] in Hac.
    destruct (it_local_cases (irun ops) id rk Hs Hac) as [E|[x [Hl Hids Hit Hlast Hnew Hg' Hheads]]]; [contradiction|].
    exists (next_id x). rewrite Hids. split; [cbn [OrderIds.oget]; rewrite N.eqb_refl; reflexivity|]. split; [reflexivity|].
    intros p Hp. pose proof (Hheads p Hp) as Hpin.
    destruct (oi_sorted _ Hs) as [ks [Hk Hinc]].
    destruct (iter_ids (it_tree (irun ops))) as [|i0 r0] eqn:Ei; [destruct Hpin|].
    assert (Hnei : i0 :: r0 <> []) by discriminate.
    destruct (exists_last Hnei) as [A [z Ez]]. rewrite Ez in *. rewrite last_last in Hlast. subst z.
    rewrite map_app in Hk. cbn [map] in Hk. rewrite Hl in Hk. symmetry in Hk.
    apply map_eq_app in Hk. destruct Hk as [ks1 [ks2 [Eks [Hk1 Hk2]]]].
    destruct ks2 as [|k2 [|k3 r3]]; try discriminate. cbn [map] in Hk2. inversion Hk2; subst k2. rewrite Eks in Hinc.
    assert (Hpne : p <> id) by (intro E; subst p; contradiction).
    apply in_app_or in Hpin. destruct Hpin as [Hpin|[Hpin|[]]].
    - apply (in_map (oget (it_ids (irun ops)))) in Hpin. rewrite <- Hk1 in Hpin. apply in_map_iff in Hpin.
      destruct Hpin as [kp [Ekp Hkp]]. exists kp. split; [symmetry; exact Ekp|]. split.
      + rewrite oget_cons_other by exact Hpne. symmetry. exact Ekp.
      + apply (olt_trans kp x (next_id x)); [apply (incr_lt_last ks1 x Hinc kp Hkp) | apply next_gt].
    - subst p. exists x. split; [exact Hl|]. split; [rewrite oget_cons_other by exact Hpne; exact Hl | apply next_gt].
  Qed.

  (* ---------------------------------------------------------------- (b) the stored order = the presented order *)

  (* well-formedness: every attached change other than the root cites something (else it is attached but unreachable
     from the root, is never presented and never gets an order id) *)
  Definition wf_prev (t : tree) : Prop := forall c, In c (view (t_att t) (t_root t)) -> cprev c <> [].

  Lemma order_covers_att : forall t rk, good t -> t_att t <> [] -> acyc rk t -> wf_prev t ->
    forall c, In c (t_att t) -> In (cid c) (order (t_att t) (t_root t)).
  Proof.
    intros t rk Hgood Hne Hac Hwf.
    destruct (order_topological (t_att t) (t_root t) rk Hac) as [_ Hlat].
    assert (H : forall n c, rk (cid c) < n -> In c (t_att t) -> In (cid c) (order (t_att t) (t_root t))).
    { induction n as [|n IH]; intros c Hn Hc; [lia|].
      destruct (N.eqb (cid c) (t_root t)) eqn:Er.
      - apply N.eqb_eq in Er. rewrite Er. apply (order_root_in _ _ rk Hac).
      - assert (Hcv : In c (view (t_att t) (t_root t))) by (apply filter_In; split; [exact Hc | rewrite Er; reflexivity]).
        destruct (cprev c) as [|p ps] eqn:Ep; [exfalso; apply (Hwf c Hcv Ep)|].
        assert (Hp : In p (cprev c)) by (rewrite Ep; left; reflexivity).
        pose proof (i2_closed t (i3_inv2 t (gd_inv3 t Hgood)) c p Hcv Hp) as Hat. apply attached_In in Hat.
        unfold ids in Hat. apply in_map_iff in Hat. destruct Hat as [cp [Ecp Hcp]].
        pose proof (Hac c p Hcv Hp) as Hrk.
        assert (Hpo : In p (order (t_att t) (t_root t))) by (rewrite <- Ecp; apply IH; [rewrite Ecp; lia | exact Hcp]).
        apply in_split in Hpo. destruct Hpo as [l1 [l2 E]]. rewrite E. apply in_or_app. right. right.
        apply (Hlat l1 p l2 E c Hcv Hp). }
    intros c Hc. apply (H (S (rk (cid c)))); [lia | exact Hc].
  Qed.

  Lemma final_acyc_from : forall ops s rk, acyc rk (it_tree s) -> acyclic_along rk s ops -> acyc rk (it_tree (fold_left iapply ops s)).
  Proof.
    induction ops as [|o r IH]; intros s rk Hs H; cbn [fold_left]; [exact Hs|]. destruct H as [H1 H2]. apply IH; assumption.
  Qed.

  Lemma final_acyc : forall ops rk, hist_acyclic rk ops -> acyc rk (it_tree (irun ops)).
  Proof. intros ops rk H. apply final_acyc_from; [intros c p Hc; destruct Hc | exact H]. Qed.

  Lemma presented_is_attached_set : forall ops rk, hist_acyclic rk ops ->
    t_att (it_tree (irun ops)) <> [] -> wf_prev (it_tree (irun ops)) ->
    Permutation (ids (t_att (it_tree (irun ops)))) (iter_ids (it_tree (irun ops))).
  Proof.
    intros ops rk H Hne Hwf. pose proof (run_oinv ops rk H) as [Hgood _ _]. pose proof (final_acyc ops rk H) as Hac.
    set (t := it_tree (irun ops)) in *.
    apply NoDup_Permutation.
    - exact (i2_nodup t (i3_inv2 t (gd_inv3 t Hgood))).
    - apply (iter_NoDup t rk (gd_inv t Hgood) Hne Hac).
    - intros y. split.
      + intros Hy. unfold ids in Hy. apply in_map_iff in Hy. destruct Hy as [c [Ec Hc]]. subst y.
        rewrite (iter_ids_order t (gd_inv t Hgood) Hne). apply (order_covers_att t rk Hgood Hne Hac Hwf c Hc).
      + apply (iter_in_att t (gd_inv t Hgood) Hne).
  Qed.

  (* (b) sorting the attached changes by order id — what GetAfterOrder streams — gives exactly the canonical order of
     the attached set, the sequence the tree presents *)
  Theorem storage_order_eq : forall ops rk, hist_acyclic rk ops ->
    t_att (it_tree (irun ops)) <> [] -> wf_prev (it_tree (irun ops)) ->
    it_stored (irun ops) = order (t_att (it_tree (irun ops))) (t_root (it_tree (irun ops))).
  Proof.
    intros ops rk H Hne Hwf. pose proof (run_oinv ops rk H) as Hs. pose proof (final_acyc ops rk H) as Hac.
    pose proof (presented_is_attached_set ops rk H Hne Hwf) as Hperm.
    destruct Hs as [Hgood [ks [Hk Hinc]] _].
    rewrite <- (iter_ids_order _ (gd_inv _ Hgood) Hne). unfold it_stored, OrderIds.it_stored.
    apply (sort_by_id_recovers oid oltb olt_trans olt_irrefl _ _ ks); [exact Hk | exact Hinc | exact Hperm|].
    apply (iter_NoDup _ rk (gd_inv _ Hgood) Hne Hac).
  Qed.

  (* ... hence the stored order is a linear extension of causality: no repeats, and every stored change has all the
     attached changes that cite it LATER in the stored order *)
  Theorem stored_order_causal : forall ops rk, hist_acyclic rk ops ->
    t_att (it_tree (irun ops)) <> [] -> wf_prev (it_tree (irun ops)) ->
    NoDup (it_stored (irun ops)) /\
    forall l1 p l2, it_stored (irun ops) = l1 ++ p :: l2 ->
      forall c, In c (view (t_att (it_tree (irun ops))) (t_root (it_tree (irun ops)))) -> In p (cprev c) -> In (cid c) l2.
  Proof.
    intros ops rk H Hne Hwf. rewrite (storage_order_eq ops rk H Hne Hwf).
    apply (order_topological _ _ rk (final_acyc ops rk H)).
  Qed.
End Hist.
