(* C17 — serving side of Model/PubSub.v: every event preserves the invariant [Inv] (Proofs/PubSubInv.v).
   Plain stdlib style. *)
From Coq Require Import List NArith Bool Arith Lia.
Import ListNotations.
From AnySync Require Import Model.Trie Model.PubSub Proofs.TrieProofs Proofs.PubSubBase Proofs.PubSubInv.

Lemma nset_nset : forall {V} k (v v' : V) l, nset k v (nset k v' l) = nset k v l.
Proof.
  induction l as [|[k2 v2] l IH]; cbn [nset].
  - rewrite N.eqb_refl. reflexivity.
  - destruct (N.eqb k k2) eqn:E; cbn [nset].
    + rewrite N.eqb_refl. reflexivity.
    + rewrite E, IH. reflexivity.
Qed.

Lemma by_ok_no_has_total : forall st, by_ok st -> (forall sp q, st_has st sp q = false) -> ss_total st = 0%N.
Proof.
  intros st (ND & HL & HT) HZ. destruct (ss_by st) as [|[k l] r] eqn:E.
  - rewrite HT. reflexivity.
  - exfalso. destruct (HL k l) as (Hne & _ & _). { cbn [nassoc]. rewrite N.eqb_refl. reflexivity. }
    destruct l as [|x l]; [congruence|]. specialize (HZ k x). unfold st_has in HZ. rewrite E in HZ.
    cbn [nassoc] in HZ. rewrite N.eqb_refl in HZ. cbn [mem_str] in HZ. rewrite str_eqb_refl in HZ. discriminate.
Qed.

Lemma by_ok_empty : forall a, by_ok (mkSS a [] 0).
Proof. intros a. split; [constructor|split; [intros sp l H; discriminate|reflexivity]]. Qed.

(* core does not look at sv_remote, sv_members, sv_rate *)
Lemma core_irrel : forall s rem mem rate,
  core s -> core (mkSvc rem (sv_streams s) (sv_pool s) (sv_conns s) mem rate).
Proof. intros s rem mem rate [H1 H2 H3 H4 H5]. constructor; auto. Qed.

Lemma tries_irrel : forall s pool conns mem rate,
  tries_ok s -> tries_ok (mkSvc (sv_remote s) (sv_streams s) pool conns mem rate).
Proof. intros s pool conns mem rate H. exact H. Qed.

(* ------------------------------------------------------------------ the accept loop *)

Lemma sub_loop_spec : forall c pats sp total tr acc sp' total' tr' acc' rej f,
  NoDup sp -> trie_inv tr f ->
  sub_loop c pats sp total tr acc = (sp', total', tr', acc', rej) ->
  exists added,
    acc' = acc ++ added /\ sp' = sp ++ added /\ total' = (total + N.of_nat (length added))%N
    /\ NoDup sp' /\ (forall p, In p added -> In p pats)
    /\ trie_inv tr' (fun q => (f q + N.of_nat (b2n (mem_str q added)))%N)
    /\ (added = [] -> tr' = tr).
Proof.
  intros c pats. induction pats as [|p r IH]; intros sp total tr acc sp' total' tr' acc' rej f ND HT E; cbn [sub_loop] in E.
  - inversion E; subst. exists []. rewrite !app_nil_r. cbn [length].
    split; [reflexivity|split; [reflexivity|split; [lia|split; [exact ND|split; [intros q []|split; [|reflexivity]]]]]].
    eapply trie_inv_ext; [exact HT|]. intros q. cbn [mem_str b2n]. lia.
  - destruct (mem_str p sp) eqn:EM.
    + destruct (IH _ _ _ _ _ _ _ _ _ f ND HT E) as (added & H1 & H2 & H3 & H4 & H5 & H6 & H7).
      exists added. split; [exact H1|split; [exact H2|split; [exact H3|split; [exact H4|split; [|split; [exact H6|exact H7]]]]]].
      intros q Hq. right. auto.
    + destruct (N.leb (max_space c) (N.of_nat (length sp)) || N.leb (max_stream c) total).
      * inversion E; subst. exists []. rewrite !app_nil_r. cbn [length].
        split; [reflexivity|split; [reflexivity|split; [lia|split; [exact ND|split; [intros q []|split; [|reflexivity]]]]]].
        eapply trie_inv_ext; [exact HT|]. intros q. cbn [mem_str b2n]. lia.
      * assert (Hn : ~ In p sp) by (rewrite <- mem_str_in, EM; discriminate).
        destruct (IH _ _ _ _ _ _ _ _ _ _ (nodup_snoc sp p ND Hn) (trie_inv_add tr f p HT) E)
          as (added & H1 & H2 & H3 & H4 & H5 & H6 & H7).
        exists (p :: added). rewrite <- !app_assoc in *. cbn [app] in *.
        split; [exact H1|split; [exact H2|split; [|split; [exact H4|split; [|split]]]]].
        -- rewrite H3. cbn [length]. lia.
        -- intros q [Hq|Hq]; [left; auto|right; auto].
        -- eapply trie_inv_ext; [exact H6|]. intros q. cbv beta. cbn [mem_str].
           destruct (str_eqb q p) eqn:Eq; cbn [orb b2n]; [|reflexivity].
           apply str_eqb_eq in Eq. subst q.
           assert (Hna : mem_str p added = false).
           { destruct (mem_str p added) eqn:Em; auto. exfalso. apply mem_str_in in Em.
             rewrite H2 in H4. apply NoDup_remove_2 in H4. apply H4. rewrite in_app_iff. right. exact Em. }
           rewrite Hna. cbn [b2n]. lia.
        -- discriminate.
Qed.

(* ------------------------------------------------------------------ handleSubscribe *)

Lemma in_pool_iff : forall s sid, in_pool s sid = true <-> exists tags, nassoc sid (sv_pool s) = Some tags.
Proof.
  intros. unfold in_pool. destruct (nassoc sid (sv_pool s)) as [t|]; split; intros H.
  - exists t. reflexivity.
  - reflexivity.
  - discriminate.
  - destruct H as [t H]. discriminate.
Qed.

Lemma trie_of_space : forall s space, tries_ok s ->
  trie_inv (match nassoc space (sv_remote s) with Some t => t | None => trie_empty end) (cnt (sv_streams s) space).
Proof.
  intros s space HT. specialize (HT space). destruct (nassoc space (sv_remote s)).
  - apply HT.
  - eapply trie_inv_ext; [apply trie_inv_empty|]. intros p. symmetry. apply HT.
Qed.

Lemma sub_noop_remote : forall s space, tries_ok s ->
  let tr := match nassoc space (sv_remote s) with Some t => t | None => trie_empty end in
  prune_space (nset space tr (sv_remote s)) space tr = sv_remote s.
Proof.
  intros s space HT tr. subst tr. pose proof (HT space) as H. destruct (nassoc space (sv_remote s)) as [t|] eqn:E.
  - destruct H as [Hi [p Hp]]. rewrite (nset_id _ _ _ E). unfold prune_space.
    destruct (N.eqb (trie_len t) 0) eqn:EL.
    + apply N.eqb_eq in EL. rewrite (proj1 (trie_inv_len0 _ _ Hi) EL p) in Hp. lia.
    + apply nset_id. exact E.
  - unfold prune_space. cbn. apply ndel_nset_fresh. exact E.
Qed.

Lemma sub_noop_streams : forall s sid space acct, core s ->
  let st := match nassoc sid (sv_streams s) with Some x => x | None => mkSS acct [] 0 end in
  let sp := match nassoc space (ss_by st) with Some l => l | None => [] end in
  let st1 := mkSS (ss_account st) (nset space sp (ss_by st)) (ss_total st) in
  let st2 := if is_nil sp then mkSS (ss_account st1) (ndel space (ss_by st1)) (ss_total st1) else st1 in
  prune_stream (nset sid st1 (sv_streams s)) sid st2 = sv_streams s.
Proof.
  intros s sid space acct HC. cbv zeta. destruct (nassoc sid (sv_streams s)) as [x|] eqn:E.
  - destruct (c_rec s HC sid x E) as (Hok & _ & _). pose proof (st_ok_total x Hok) as Htot.
    destruct Hok as [(ND & HL & HT) Hne].
    destruct (nassoc space (ss_by x)) as [l|] eqn:El.
    + destruct (HL space l El) as (Hl & _ & _). destruct l as [|y l]; [congruence|]. cbn [is_nil].
      rewrite (nset_id _ _ _ El), ss_eta, (nset_id _ _ _ E). unfold prune_stream.
      apply N.eqb_neq in Htot. rewrite Htot. apply nset_id. exact E.
    + cbn [is_nil ss_account ss_by ss_total]. rewrite (ndel_nset_fresh _ _ _ El), ss_eta. unfold prune_stream.
      apply N.eqb_neq in Htot. rewrite Htot. rewrite nset_nset. apply nset_id. exact E.
  - cbn [ss_by nassoc is_nil ss_account ss_total nset ndel]. rewrite N.eqb_refl. unfold prune_stream. cbn [ss_total N.eqb].
    apply ndel_nset_fresh. exact E.
Qed.

Lemma svc_eta : forall s, mkSvc (sv_remote s) (sv_streams s) (sv_pool s) (sv_conns s) (sv_members s) (sv_rate s) = s.
Proof. intros []. reflexivity. Qed.

Lemma inv_sub : forall c s sid space pats, Inv s -> Inv (fst (handle_sub c s sid space pats)).
Proof.
  intros c s sid space pats [HC HT]. unfold handle_sub, handle_sub_gen.
  destruct (nassoc sid (sv_conns s)) as [acct|] eqn:EC; [|split; assumption].
  destruct (negb (memN space (resp c))); [split; assumption|].
  destruct (negb (forallb validate_pattern pats)) eqn:EV; [split; assumption|].
  destruct (negb (is_member s space acct)); [split; assumption|].
  apply negb_false_iff in EV.
  pose proof (sub_noop_remote s space HT) as NoopR. pose proof (sub_noop_streams s sid space acct HC) as NoopS.
  pose proof (trie_of_space s space HT) as HTtr. cbv zeta in NoopR, NoopS.
  set (tr := match nassoc space (sv_remote s) with Some t => t | None => trie_empty end) in *.
  assert (Hst : exists st, st = match nassoc sid (sv_streams s) with Some x => x | None => mkSS acct [] 0 end
                 /\ by_ok st /\ ss_account st = acct
                 /\ (forall sp0 q, ohas (nassoc sid (sv_streams s)) sp0 q = st_has st sp0 q)
                 /\ (nassoc sid (sv_streams s) = None -> st = mkSS acct [] 0)).
  { destruct (nassoc sid (sv_streams s)) as [x|] eqn:E.
    - exists x. destruct (c_rec s HC sid x E) as ([Hb _] & _ & Ha). split; [reflexivity|split; [exact Hb|split; [congruence|split; [reflexivity|discriminate]]]].
    - exists (mkSS acct [] 0). split; [reflexivity|split; [apply by_ok_empty|split; [reflexivity|split; [reflexivity|reflexivity]]]]. }
  destruct Hst as (st & Est & HB & Hacct & Hohas & Hfresh). rewrite <- Est in *. clear Est.
  assert (Hsp : exists sp, sp = match nassoc space (ss_by st) with Some l => l | None => [] end
                 /\ NoDup sp /\ (forall p, In p sp -> validate_pattern p = true)
                 /\ (forall q, st_has st space q = mem_str q sp)).
  { unfold st_has. destruct HB as (_ & HL & _). destruct (nassoc space (ss_by st)) as [l|] eqn:E.
    - exists l. destruct (HL space l E) as (_ & Hn & Hv). split; [reflexivity|split; [exact Hn|split; [exact Hv|reflexivity]]].
    - exists []. split; [reflexivity|split; [constructor|split; [intros p []|reflexivity]]]. }
  destruct Hsp as (sp & Esp & NDsp & Vsp & Hhas_sp). rewrite <- Esp in *.
  destruct (sub_loop c pats sp (ss_total st) tr []) as [[[[sp' total'] tr'] accepted] rejected] eqn:ES.
  destruct (sub_loop_spec _ _ _ _ _ _ _ _ _ _ _ _ NDsp HTtr ES) as (added & Ha & Hsp' & Htot' & NDsp' & Hsub & HTtr' & Hnil).
  cbn [app] in Ha. subst accepted.
  destruct added as [|a0 added0] eqn:Eadded.
  - (* nothing accepted: the placeholders are pruned again, the state is unchanged *)
    cbn [is_nil fst]. rewrite app_nil_r in Hsp'. subst sp'. rewrite N.add_0_r in Htot'. subst total'.
    rewrite (Hnil eq_refl). rewrite NoopR.
    replace (prune_stream _ sid _) with (sv_streams s) by (symmetry; exact NoopS).
    cbn [fst]. rewrite svc_eta. split; assumption.
  - rewrite <- Eadded in *. assert (Hne : added <> []) by (rewrite Eadded; discriminate).
    assert (Eis : is_nil added = false) by (rewrite Eadded; reflexivity). rewrite Eis.
    set (st1 := mkSS (ss_account st) (nset space sp' (ss_by st)) total').
    assert (Hst1_has : forall sp0 q, st_has st1 sp0 q
                        = if N.eqb sp0 space then mem_str q sp || mem_str q added else st_has st sp0 q).
    { intros sp0 q. unfold st_has, st1. cbn [ss_by]. destruct (N.eqb sp0 space) eqn:E0.
      - apply N.eqb_eq in E0. subst sp0. rewrite nassoc_nset_same, Hsp'. apply mem_str_app.
      - apply N.eqb_neq in E0. rewrite nassoc_nset_other by congruence. reflexivity. }
    assert (Hdisj : forall q, mem_str q sp && mem_str q added = false).
    { intros q. destruct (mem_str q sp) eqn:E1; [|reflexivity]. destruct (mem_str q added) eqn:E2; [|reflexivity].
      exfalso. apply mem_str_in in E1. apply mem_str_in in E2. rewrite Hsp' in NDsp'. clear -NDsp' E1 E2.
      induction sp as [|y sp IH]; [contradiction|]. cbn [app] in NDsp'. inversion NDsp'; subst.
      destruct E1 as [->|E1]; [apply H1; rewrite in_app_iff; auto|auto]. }
    assert (HB1 : by_ok st1).
    { destruct HB as (ND & HL & HTt). split; [apply nodup_nset; exact ND|split].
      - intros sp0 l Hl. cbn [st1 ss_by] in Hl. destruct (N.eq_dec space sp0) as [<-|Hn0].
        + rewrite nassoc_nset_same in Hl. inversion Hl; subst l. split; [|split].
          * rewrite Hsp'. intros Hz. apply app_eq_nil in Hz. destruct Hz. contradiction.
          * exact NDsp'.
          * rewrite Hsp'. intros q Hq. rewrite in_app_iff in Hq. destruct Hq as [Hq|Hq]; [auto|].
            apply Hsub in Hq. rewrite forallb_forall in EV. auto.
        + rewrite nassoc_nset_other in Hl by exact Hn0. apply (HL sp0 l Hl).
      - cbn [st1 ss_by ss_total]. pose proof (tot_nset space sp' (ss_by st) ND) as Et. rewrite <- Esp in Et.
        rewrite Htot', HTt. rewrite Hsp' in Et |- *. rewrite app_length in Et. lia. }
    assert (Hcnt_space : forall q, cnt (nset sid st1 (sv_streams s)) space q
                          = (cnt (sv_streams s) space q + N.of_nat (b2n (mem_str q added)))%N).
    { intros q. pose proof (cnt_nset sid st1 (sv_streams s) space q (c_nd_streams s HC)) as Ec.
      rewrite Hohas, Hst1_has, N.eqb_refl, Hhas_sp in Ec. specialize (Hdisj q).
      destruct (mem_str q sp), (mem_str q added); cbn [orb b2n] in *; try discriminate; lia. }
    assert (Hcnt_other : forall sp0 q, sp0 <> space -> cnt (nset sid st1 (sv_streams s)) sp0 q = cnt (sv_streams s) sp0 q).
    { intros sp0 q Hn0. pose proof (cnt_nset sid st1 (sv_streams s) sp0 q (c_nd_streams s HC)) as Ec.
      rewrite Hohas, Hst1_has in Ec. apply N.eqb_neq in Hn0. rewrite Hn0 in Ec. lia. }
    destruct (nassoc sid (sv_pool s)) as [tags|] eqn:EP; cbn [fst].
    + (* tagged: the new interest is recorded in all three views *)
      split.
      * destruct (c_tags s HC sid tags EP) as [NDt Ht].
        destruct (add_tags_spec (map (fun p => (space, p)) added) tags) as [Hmt Hnd].
        constructor; cbn [sv_streams sv_pool sv_conns].
        -- apply nodup_nset. apply HC.
        -- apply nodup_nset. apply HC.
        -- intros sid0 st0 H0. destruct (N.eq_dec sid sid0) as [<-|Hn0].
           ++ rewrite nassoc_nset_same in H0. inversion H0; subst st0. split; [split; [exact HB1|]|split].
              ** cbn [st1 ss_by]. destruct (ss_by st) as [|[k v] r]; cbn [nset]; [discriminate|]. destruct (N.eqb space k); discriminate.
              ** unfold in_pool. cbn [sv_pool]. rewrite nassoc_nset_same. reflexivity.
              ** cbn [st1 ss_account]. rewrite Hacct. exact EC.
           ++ rewrite nassoc_nset_other in H0 by exact Hn0. destruct (c_rec s HC sid0 st0 H0) as (A & B & C).
              split; [exact A|split; [|exact C]]. unfold in_pool in *. cbn [sv_pool]. rewrite nassoc_nset_other by exact Hn0. exact B.
        -- intros sid0 tags0 H0. unfold has. cbn [sv_streams]. destruct (N.eq_dec sid sid0) as [<-|Hn0].
           ++ rewrite nassoc_nset_same in H0. inversion H0; subst tags0. split; [apply Hnd; exact NDt|].
              intros sp0 q. rewrite nassoc_nset_same. cbn [ohas]. rewrite Hmt, Ht, mem_tag_map, Hst1_has.
              unfold has. rewrite Hohas. destruct (N.eqb sp0 space) eqn:E0; cbn [andb]; [|apply orb_false_r].
              apply N.eqb_eq in E0. subst sp0. rewrite Hhas_sp. reflexivity.
           ++ rewrite nassoc_nset_other in H0 by exact Hn0. rewrite nassoc_nset_other by exact Hn0.
              apply (c_tags s HC sid0 tags0 H0).
        -- intros sid0 H0. unfold in_pool in H0. cbn [sv_pool] in H0. destruct (N.eq_dec sid sid0) as [<-|Hn0]; [congruence|].
           rewrite nassoc_nset_other in H0 by exact Hn0. apply (c_pool_conn s HC sid0). exact H0.
      * intros sp0. cbn [sv_remote sv_streams]. destruct (N.eq_dec space sp0) as [<-|Hn0].
        -- rewrite nassoc_nset_same. split.
           ++ eapply trie_inv_ext; [exact HTtr'|]. intros q. symmetry. apply Hcnt_space.
           ++ exists a0. rewrite Hcnt_space, Eadded. cbn [mem_str]. rewrite str_eqb_refl. cbn [orb b2n]. lia.
        -- rewrite nassoc_nset_other by exact Hn0. specialize (HT sp0).
           destruct (nassoc sp0 (sv_remote s)) as [t0|].
           ++ destruct HT as [Hi [p Hp]]. split; [|exists p; rewrite Hcnt_other by congruence; exact Hp].
              eapply trie_inv_ext; [exact Hi|]. intros q. symmetry. apply Hcnt_other. congruence.
           ++ intros q. rewrite Hcnt_other by congruence. apply HT.
    + (* the stream left the pool meanwhile: roll back *)
      assert (ENone : nassoc sid (sv_streams s) = None).
      { destruct (nassoc sid (sv_streams s)) as [x|] eqn:E; [|reflexivity].
        destruct (c_rec s HC sid x E) as (_ & Hp & _). unfold in_pool in Hp. rewrite EP in Hp. discriminate. }
      destruct (remove_patterns st1 tr' space added []) as [[st2 tr2] rem2] eqn:ER.
      destruct (remove_patterns_spec _ _ _ _ _ _ _ _ _ HB1 HTtr' ER) as (HB2 & _ & Hh2 & HT2 & _).
      assert (Hz2 : ss_total st2 = 0%N).
      { apply by_ok_no_has_total; [exact HB2|]. intros sp0 q. rewrite Hh2, Hst1_has.
        rewrite (Hfresh ENone) in *. subst sp. cbn [ss_by nassoc mem_str orb] in *.
        destruct (N.eqb sp0 space); cbn [andb negb]; [|reflexivity]. destruct (mem_str q added); reflexivity. }
      cbn [fst]. unfold prune_stream at 1. rewrite Hz2. cbn [N.eqb]. rewrite (ndel_nset_fresh _ _ _ ENone).
      split.
      * apply (core_irrel s _ (sv_members s) (sv_rate s) HC).
      * intros sp0. cbn [sv_remote sv_streams]. destruct (N.eq_dec space sp0) as [<-|Hn0].
        -- apply prune_space_ok. eapply trie_inv_ext; [exact HT2|]. intros q. cbv beta.
           rewrite Hst1_has, N.eqb_refl. rewrite (Hfresh ENone) in Esp. cbn [ss_by nassoc] in Esp. subst sp. cbn [mem_str orb].
           destruct (mem_str q added); cbn [andb b2n]; lia.
        -- rewrite prune_space_other by exact Hn0. rewrite nassoc_nset_other by exact Hn0. apply HT.
Qed.

(* ------------------------------------------------------------------ withdrawing part of one stream's interest in one space *)

Lemma space_ok_ext : forall f g o, space_ok f o -> (forall p, f p = g p) -> space_ok g o.
Proof.
  intros f g [t|] H E; cbn [space_ok] in *.
  - destruct H as [Hi [p Hp]]. split; [eapply trie_inv_ext; eauto|exists p; rewrite <- E; exact Hp].
  - intros p. rewrite <- E. apply H.
Qed.

Section Withdraw.
  Variables (s : svc) (sid space : N) (st st' : sstream) (G : str -> bool) (gone : list str).
  Hypothesis HC : core s.
  Hypothesis Hrec : nassoc sid (sv_streams s) = Some st.
  Hypothesis HB' : by_ok st'.
  Hypothesis Hacct : ss_account st' = ss_account st.
  Hypothesis Hh : forall sp0 q, st_has st' sp0 q = st_has st sp0 q && negb (N.eqb sp0 space && G q).
  Hypothesis Hgone : forall q, mem_str q gone = st_has st space q && G q.

  Let streams' := prune_stream (sv_streams s) sid st'.
  Let pool' := pool_remove_tags (sv_pool s) sid (map (fun p => (space, p)) gone).

  Lemma withdraw_has : forall sp0 q, ohas (nassoc sid streams') sp0 q = st_has st' sp0 q.
  Proof.
    intros. unfold streams'. rewrite prune_stream_same. destruct (N.eqb (ss_total st') 0) eqn:E; [|reflexivity].
    apply N.eqb_eq in E. cbn [ohas]. symmetry. apply st_has_nil. apply tot_zero_nil; auto.
  Qed.

  Lemma withdraw_core : forall rem mem rate, core (mkSvc rem streams' pool' (sv_conns s) mem rate).
  Proof.
    intros rem mem rate. destruct (c_rec s HC sid st Hrec) as (Hok & Hpool & Hconn).
    constructor; cbn [sv_streams sv_pool sv_conns].
    - apply prune_stream_nodup. apply HC.
    - apply pool_remove_tags_nodup. apply HC.
    - intros sid0 st0 H0. unfold in_pool. cbn [sv_pool]. destruct (N.eq_dec sid sid0) as [<-|Hn0].
      + unfold streams' in H0. rewrite prune_stream_same in H0. destruct (N.eqb (ss_total st') 0) eqn:E; [discriminate|].
        inversion H0; subst st0. split; [split; [exact HB'|]|split].
        * intros Hz. apply N.eqb_neq in E. apply E. destruct HB' as (_ & _ & Ht). rewrite Ht, Hz. reflexivity.
        * unfold pool'. rewrite pool_remove_tags_same. unfold in_pool in Hpool. destruct (nassoc sid (sv_pool s)); [reflexivity|discriminate].
        * rewrite Hacct. exact Hconn.
      + unfold streams' in H0. rewrite prune_stream_other in H0 by exact Hn0.
        destruct (c_rec s HC sid0 st0 H0) as (A & B & C). split; [exact A|split; [|exact C]].
        unfold pool'. rewrite pool_remove_tags_other by exact Hn0. exact B.
    - intros sid0 tags0 H0. unfold has. cbn [sv_streams]. destruct (N.eq_dec sid sid0) as [<-|Hn0].
      + unfold pool' in H0. rewrite pool_remove_tags_same in H0. destruct (nassoc sid (sv_pool s)) as [tags|] eqn:EP; [|discriminate].
        inversion H0; subst tags0. destruct (c_tags s HC sid tags EP) as [NDt Ht]. split; [apply nodup_remove_tags; exact NDt|].
        intros sp0 q. rewrite withdraw_has, mem_tag_remove_tags, Ht, mem_tag_map, Hh, Hgone. unfold has. rewrite Hrec. cbn [ohas].
        destruct (N.eqb sp0 space) eqn:E0; cbn [andb negb]; [|reflexivity].
        apply N.eqb_eq in E0. subst sp0. destruct (st_has st space q), (G q); reflexivity.
      + unfold pool' in H0. rewrite pool_remove_tags_other in H0 by exact Hn0. unfold streams'. rewrite prune_stream_other by exact Hn0.
        apply (c_tags s HC sid0 tags0 H0).
    - intros sid0 H0. apply (c_pool_conn s HC sid0). unfold in_pool in *. cbn [sv_pool] in H0. unfold pool' in H0.
      destruct (N.eq_dec sid sid0) as [<-|Hn0].
      + rewrite pool_remove_tags_same in H0. destruct (nassoc sid (sv_pool s)); [reflexivity|discriminate].
      + rewrite pool_remove_tags_other in H0 by exact Hn0. exact H0.
  Qed.

  Lemma withdraw_cnt_space : forall q,
    cnt streams' space q = (cnt (sv_streams s) space q - N.of_nat (b2n (st_has st space q && G q)))%N.
  Proof.
    intros q. pose proof (cnt_prune_stream (sv_streams s) sid st' space q (c_nd_streams s HC) HB') as E.
    rewrite Hrec in E. cbn [ohas] in E. rewrite Hh, N.eqb_refl in E. fold streams' in E.
    destruct (st_has st space q) eqn:E1; cbn [andb b2n] in *; [|lia].
    pose proof (cnt_ge_has sid st (sv_streams s) space q Hrec E1). destruct (G q); cbn [negb b2n andb] in *; lia.
  Qed.

  Lemma withdraw_cnt_other : forall sp0 q, sp0 <> space -> cnt streams' sp0 q = cnt (sv_streams s) sp0 q.
  Proof.
    intros sp0 q Hn. pose proof (cnt_prune_stream (sv_streams s) sid st' sp0 q (c_nd_streams s HC) HB') as E.
    rewrite Hrec in E. cbn [ohas] in E. rewrite Hh in E. apply N.eqb_neq in Hn. rewrite Hn in E. cbn [andb negb] in E.
    rewrite andb_true_r in E. fold streams' in E. lia.
  Qed.
End Withdraw.

(* ------------------------------------------------------------------ handleUnsubscribe *)

Lemma inv_unsub : forall s sid space pats, Inv s -> Inv (handle_unsub s sid space pats).
Proof.
  intros s sid space pats [HC HT]. unfold handle_unsub.
  destruct (nassoc sid (sv_conns s)) as [acct|]; [|split; assumption].
  destruct (nassoc sid (sv_streams s)) as [st|] eqn:ES; [|split; assumption].
  destruct (nassoc space (sv_remote s)) as [tr|] eqn:ER; [|split; assumption].
  set (ps := if is_nil pats then match nassoc space (ss_by st) with Some l => l | None => [] end else pats).
  destruct (remove_patterns st tr space ps []) as [[st' tr'] removed] eqn:ERP.
  destruct (c_rec s HC sid st ES) as ([HB _] & _ & _).
  pose proof (HT space) as HTs. rewrite ER in HTs. destruct HTs as [HTtr _].
  destruct (remove_patterns_spec _ _ _ _ _ _ _ _ _ HB HTtr ERP) as (HB' & Hacct & Hh & HT' & HR).
  cbn [mem_str orb] in HR.
  split.
  - apply (withdraw_core s sid space st st' (fun q => mem_str q ps) removed HC ES HB' Hacct Hh HR).
  - intros sp0. cbn [sv_remote sv_streams]. destruct (N.eq_dec space sp0) as [<-|Hn0].
    + apply prune_space_ok. eapply trie_inv_ext; [exact HT'|]. intros q. symmetry.
      apply (withdraw_cnt_space s sid space st st' (fun q => mem_str q ps) HC ES HB' Hacct Hh).
    + rewrite prune_space_other by exact Hn0. eapply space_ok_ext; [apply HT|]. intros q. symmetry.
      apply (withdraw_cnt_other s sid space st st' (fun q => mem_str q ps) HC ES HB' Hacct Hh). congruence.
Qed.

(* ------------------------------------------------------------------ a stream leaves the pool in the middle of handleSubscribe *)
(* [handle_sub_mid] follows the lock regions of the Go code.  Its resulting state is, structurally, the state
   reached by whole-handler events: the Subscribe, (if the subscribing stream itself left the pool before
   AddTagsCtx) an Unsubscribe of exactly the accepted patterns — that is what the roll-back amounts to —, and
   the removal of the victim with its close hook. *)

Lemma ndel_nset_same : forall {V} k (v : V) l, ndel k (nset k v l) = ndel k l.
Proof.
  induction l as [|[k2 v2] l IH]; cbn [nset ndel].
  - rewrite N.eqb_refl. reflexivity.
  - destruct (N.eqb k k2) eqn:E; cbn [ndel]; rewrite ?N.eqb_refl, ?E; [reflexivity|]. rewrite IH. reflexivity.
Qed.

Lemma ndel_nset_comm : forall {V} k k' (v : V) l, k <> k' -> ndel k (nset k' v l) = nset k' v (ndel k l).
Proof.
  intros V k k' v l Hne. induction l as [|[k2 v2] l IH]; cbn [nset ndel].
  - apply N.eqb_neq in Hne. rewrite Hne. reflexivity.
  - destruct (N.eqb k' k2) eqn:E1.
    + apply N.eqb_eq in E1. subst k2. cbn [ndel]. apply N.eqb_neq in Hne. rewrite Hne. cbn [nset]. rewrite N.eqb_refl. reflexivity.
    + cbn [ndel]. destruct (N.eqb k k2) eqn:E2; [exact IH|]. cbn [nset]. rewrite E1, IH. reflexivity.
Qed.

Lemma in_pool_drop_other : forall s v x, x <> v -> in_pool (drop_pool s v) x = in_pool s x.
Proof. intros s v x H. unfold in_pool, drop_pool. cbn [sv_pool]. rewrite nassoc_ndel_other by congruence. reflexivity. Qed.

(* another stream leaving the pool does not interact with the handler *)
Lemma handle_sub_drop_comm : forall c s sid v space pats, v <> sid ->
  handle_sub c (drop_pool s v) sid space pats
  = (drop_pool (fst (handle_sub c s sid space pats)) v, snd (handle_sub c s sid space pats)).
Proof.
  intros c s sid v space pats Hne. unfold handle_sub, handle_sub_gen, reply.
  rewrite (in_pool_drop_other s v sid) by congruence.
  unfold is_member.
  change (sv_conns (drop_pool s v)) with (sv_conns s). change (sv_remote (drop_pool s v)) with (sv_remote s).
  change (sv_streams (drop_pool s v)) with (sv_streams s). change (sv_members (drop_pool s v)) with (sv_members s).
  change (sv_rate (drop_pool s v)) with (sv_rate s). change (sv_pool (drop_pool s v)) with (ndel v (sv_pool s)).
  destruct (nassoc sid (sv_conns s)) as [acct|]; [|reflexivity].
  destruct (negb (memN space (resp c))); [reflexivity|].
  destruct (negb (forallb validate_pattern pats)); [reflexivity|].
  destruct (negb (existsb _ (sv_members s))); [reflexivity|].
  destruct (sub_loop _ _ _ _ _ _) as [[[[sp' total'] tr'] accepted] rejected].
  rewrite (nassoc_ndel_other v sid) by exact Hne.
  destruct (is_nil accepted).
  - destruct (is_nil sp'); reflexivity.
  - destruct (nassoc sid (sv_pool s)) as [tags|].
    + cbn [fst snd]. unfold drop_pool. cbn [sv_conns sv_remote sv_streams sv_pool sv_members sv_rate].
      rewrite ndel_nset_comm by exact Hne. reflexivity.
    + destruct (remove_patterns _ _ _ _ _) as [[st2 tr2] r2]. reflexivity.
Qed.

(* the subscribing stream itself leaves the pool between the recording of its interest and AddTagsCtx:
   the roll-back is the Unsubscribe of exactly the accepted patterns *)
Lemma handle_sub_drop_self : forall c s sid space pats,
  in_pool s sid = true -> sub_reaches_tagging c s sid space pats = true ->
  handle_sub c (drop_pool s sid) sid space pats
  = (drop_pool (handle_unsub (fst (handle_sub c s sid space pats)) sid space (sub_accepted c s sid space pats)) sid, ONone).
Proof.
  intros c s sid space pats Hip Hr. unfold sub_reaches_tagging, sub_accepted in *.
  unfold handle_sub, handle_sub_gen, reply.
  assert (Hipd : in_pool (drop_pool s sid) sid = false).
  { unfold in_pool, drop_pool. cbn [sv_pool]. rewrite nassoc_ndel_same. reflexivity. }
  rewrite Hipd.
  unfold is_member in *.
  change (sv_conns (drop_pool s sid)) with (sv_conns s). change (sv_remote (drop_pool s sid)) with (sv_remote s).
  change (sv_streams (drop_pool s sid)) with (sv_streams s). change (sv_members (drop_pool s sid)) with (sv_members s).
  change (sv_rate (drop_pool s sid)) with (sv_rate s). change (sv_pool (drop_pool s sid)) with (ndel sid (sv_pool s)).
  destruct (nassoc sid (sv_conns s)) as [acct|] eqn:EC; [|discriminate].
  destruct (negb (memN space (resp c))); [discriminate|].
  destruct (negb (forallb validate_pattern pats)); [discriminate|].
  destruct (negb (existsb _ (sv_members s))); [discriminate|].
  destruct (sub_loop _ _ _ _ _ _) as [[[[sp' total'] tr'] accepted] rejected].
  destruct (is_nil accepted) eqn:En; [discriminate|].
  rewrite nassoc_ndel_same.
  unfold in_pool in Hip. destruct (nassoc sid (sv_pool s)) as [tags|] eqn:EP; [|discriminate].
  cbn [fst snd]. unfold handle_unsub. cbn [sv_conns sv_remote sv_streams sv_pool sv_members sv_rate].
  rewrite EC, !nassoc_nset_same, En.
  destruct (remove_patterns _ _ _ _ _) as [[st2 tr2] r2].
  unfold drop_pool. cbn [sv_conns sv_remote sv_streams sv_pool sv_members sv_rate].
  unfold pool_remove_tags. rewrite nassoc_nset_same, !ndel_nset_same.
  destruct (is_nil rejected); reflexivity.
Qed.

(* the whole-handler state before the victim's removal *)
Definition mid_self (c : cfg) (s : svc) (sid victim space : N) (pats : list str) : bool :=
  N.eqb victim sid && sub_reaches_tagging c s sid space pats && in_pool s sid.
Definition mid_pre (c : cfg) (s : svc) (sid victim space : N) (pats : list str) : svc :=
  let s' := fst (handle_sub c s sid space pats) in
  if mid_self c s sid victim space pats
  then handle_unsub s' sid space (sub_accepted c s sid space pats) else s'.

Lemma inv_mid_pre : forall c s sid victim space pats, Inv s -> Inv (mid_pre c s sid victim space pats).
Proof.
  intros. unfold mid_pre. destruct (mid_self _ _ _ _ _ _); [apply inv_unsub|]; apply inv_sub; assumption.
Qed.

Lemma in_pool_sub : forall c s sid space pats x, in_pool (fst (handle_sub c s sid space pats)) x = in_pool s x.
Proof.
  intros. unfold handle_sub, handle_sub_gen.
  destruct (nassoc sid (sv_conns s)) as [acct|]; [|reflexivity].
  destruct (negb (memN space (resp c))); [reflexivity|].
  destruct (negb (forallb validate_pattern pats)); [reflexivity|].
  destruct (negb (is_member s space acct)); [reflexivity|].
  destruct (sub_loop _ _ _ _ _ _) as [[[[sp' total'] tr'] accepted] rejected].
  destruct (is_nil accepted); [reflexivity|].
  destruct (nassoc sid (sv_pool s)) as [tags|] eqn:EP.
  - cbn [fst]. unfold in_pool. cbn [sv_pool]. destruct (N.eq_dec sid x) as [<-|Hne].
    + rewrite nassoc_nset_same, EP. reflexivity.
    + rewrite nassoc_nset_other by exact Hne. reflexivity.
  - destruct (remove_patterns _ _ _ _ _) as [[st2 tr2] r2]. reflexivity.
Qed.

Lemma in_pool_unsub : forall s sid space pats x, in_pool (handle_unsub s sid space pats) x = in_pool s x.
Proof.
  intros. unfold handle_unsub.
  destruct (nassoc sid (sv_conns s)); [|reflexivity].
  destruct (nassoc sid (sv_streams s)); [|reflexivity].
  destruct (nassoc space (sv_remote s)); [|reflexivity].
  destruct (remove_patterns _ _ _ _ _) as [[st2 tr2] r2]. unfold in_pool. cbn [sv_pool].
  destruct (N.eq_dec sid x) as [<-|Hne].
  - rewrite pool_remove_tags_same. destruct (nassoc sid (sv_pool s)); reflexivity.
  - rewrite pool_remove_tags_other by exact Hne. reflexivity.
Qed.

Lemma in_pool_mid_pre : forall c s sid victim space pats x, in_pool (mid_pre c s sid victim space pats) x = in_pool s x.
Proof.
  intros. unfold mid_pre. destruct (mid_self _ _ _ _ _ _); [rewrite in_pool_unsub|]; apply in_pool_sub.
Qed.

(* a stream without a record: its close hook does nothing *)
Lemma close_no_record : forall s sid, nassoc sid (sv_streams s) = None -> on_stream_close s sid = s.
Proof. intros s sid H. unfold on_stream_close. rewrite H. reflexivity. Qed.

Lemma drop_pool_absent : forall s sid, in_pool s sid = false -> drop_pool s sid = s.
Proof.
  intros s sid H. unfold in_pool in H. unfold drop_pool. destruct (nassoc sid (sv_pool s)) eqn:E; [discriminate|].
  rewrite (ndel_absent _ _ E). apply svc_eta.
Qed.

Lemma close_after_drop : forall s sid, Inv s -> on_stream_close (drop_pool s sid) sid = pool_remove s sid.
Proof.
  intros s sid [HC _]. unfold pool_remove. destruct (in_pool s sid) eqn:E; [reflexivity|].
  rewrite (drop_pool_absent s sid E). apply close_no_record.
  destruct (nassoc sid (sv_streams s)) as [st|] eqn:Es; [|reflexivity].
  destruct (c_rec s HC sid st Es) as (_ & Hp & _). congruence.
Qed.

(* THE decomposition: the lock-region model of the race equals whole-handler events *)
Lemma mid_state : forall c s sid victim space pats, Inv s ->
  fst (handle_sub_mid c s sid victim space pats) = pool_remove (mid_pre c s sid victim space pats) victim
  /\ snd (handle_sub_mid c s sid victim space pats)
     = if mid_self c s sid victim space pats then ONone else snd (handle_sub c s sid space pats).
Proof.
  intros c s sid victim space pats HI. unfold handle_sub_mid, handle_sub_mid_gen, mid_pre, mid_self.
  fold (handle_sub c (drop_pool s victim) sid space pats). fold (handle_sub c s sid space pats).
  destruct (sub_reaches_tagging c s sid space pats) eqn:Er.
  - destruct (N.eq_dec victim sid) as [->|Hne].
    + rewrite N.eqb_refl. cbn [andb]. destruct (in_pool s sid) eqn:Eip.
      * rewrite (handle_sub_drop_self c s sid space pats Eip Er). cbn [fst snd]. split; [|reflexivity].
        apply close_after_drop. apply inv_unsub. apply inv_sub. exact HI.
      * rewrite (drop_pool_absent s sid Eip). destruct (handle_sub c s sid space pats) as [s2 o] eqn:E. cbn [fst snd].
        split; [|reflexivity]. replace s2 with (fst (handle_sub c s sid space pats)) by (rewrite E; reflexivity).
        rewrite <- close_after_drop by (apply inv_sub; exact HI).
        rewrite drop_pool_absent; [reflexivity|]. rewrite in_pool_sub. exact Eip.
    + apply N.eqb_neq in Hne as Hb. rewrite Hb. cbn [andb].
      rewrite (handle_sub_drop_comm c s sid victim space pats Hne). cbn [fst snd]. split; [|reflexivity].
      apply close_after_drop. apply inv_sub. exact HI.
  - rewrite andb_false_r. cbn [andb]. destruct (handle_sub c s sid space pats) as [s2 o]. split; reflexivity.
Qed.
