(* Proofs/TreeSyncSpecFull.v — C01: the model satisfies spec_C01.  The history the model itself produces on any label
   sequence that ends with a fair anti-entropy phase (honest tree root, loader [next_batch]) passes the executable
   property predicate [spec_C01]: after every step every replica's stored set is causally closed and contains its heads,
   heads and changes of every emitted message (response batches included) are stored by the emitter, and at the end all
   replicas show identical stored sets and identical heads. *)
From Coq Require Import List NArith Bool Arith Lia.
Import ListNotations.
From AnySync Require Import Lib.Dag Model.Dfs Model.Tree Model.LoadIter Model.TreeSync Proofs.DfsBase
  Proofs.LoadIter Proofs.TreeSyncClosure Proofs.TreeSyncConverge Proofs.TreeSyncSpec Proofs.TreeSyncSnapshot
  Proofs.TreeSyncExchange Proofs.TreeSyncHeads Proofs.TreeSyncExact.

(* ---------------------------------------------------------------- announced heads of response batches are stored *)

Lemma upd_heads_fold_in : forall q hs h, In h (fold_left upd_heads q hs) -> In h hs \/ In h (ids q).
Proof.
  induction q as [|c q IH]; intros hs h H; [left; exact H|]. cbn [fold_left] in H. apply IH in H.
  destruct H as [H|H]; [|right; right; exact H]. unfold upd_heads in H.
  destruct (mem (cid c) (filter (fun s => negb (mem s (cprev c))) hs)).
  - apply filter_In in H. left. exact (proj1 H).
  - apply in_app_or in H. destruct H as [H|[H|[]]]; [apply filter_In in H; left; exact (proj1 H) | right; left; exact H].
Qed.

Lemma stream_heads_in : forall (S : N -> Prop) fuel ms l,
  (forall h, In h (li_lastHeads l) -> S h) -> (forall e, In e (li_rest l) -> S (se_id e)) ->
  forall b, In b (stream next_batch fuel ms l) -> forall h, In h (b_heads b) -> S h.
Proof.
  intros S. induction fuel as [|f IH]; intros ms l Hl Hr b Hb h Hh; [destruct Hb|].
  cbn [stream] in Hb. destruct (next_batch ms l) as [bb l'] eqn:Enb.
  destruct (b_changes bb) as [|x xs] eqn:Ebb; [destruct Hb|].
  unfold next_batch in Enb. destruct (li_exhausted l) eqn:Eex; [inversion Enb; subst bb; discriminate|].
  destruct (scan ms (li_removed l) (li_rest l) [] (li_lastHeads l) 0) as [[[b0 hs] rest'] ex] eqn:Es.
  inversion Enb; subst bb l'. clear Enb.
  assert (Hb0 : bounded ms []) by (right; cbn; lia).
  destruct (scan_spec _ _ _ _ _ _ _ _ _ _ Es eq_refl Hb0) as [_ [[used [Hu1 Hu2]] _]].
  assert (Hhs : forall h0, In h0 hs -> S h0).
  { intros h0 H0. rewrite Hu2 in H0. apply upd_heads_fold_in in H0. destruct H0 as [H0|H0]; [apply Hl; exact H0|].
    rewrite LoadIterHeads.map_se_id in H0. apply in_map_iff in H0. destruct H0 as [e [<- He]]. apply Hr. rewrite Hu1.
    apply in_or_app. left. exact He. }
  destruct Hb as [<-|Hb]; [cbn [b_heads] in Hh; apply Hhs; exact Hh|].
  apply (IH ms (mkLI rest' (li_removed l) hs ex)) with (b := b); [exact Hhs | | exact Hb | exact Hh].
  cbn [li_rest]. intros e He. apply Hr. rewrite Hu1. apply in_or_app. right. exact He.
Qed.

Lemma responses_heads_stored : forall U rq p heads path,
  let G := map se_ch U in
  ginv G -> rinv G rq ->
  forall e, In e (handle_req next_batch U (groot G) rq p heads path) -> incl (msg_heads (snd e)) (r_have rq).
Proof.
  intros U rq p heads path G HG Hrq e He. pose proof Hrq as [Hcl [Hroot _]].
  pose proof (rep_heads_incl G rq Hroot) as Hcur.
  unfold handle_req in He. fold G in He.
  destruct (rep_path_exists G rq HG Hrq) as [P' HP]. rewrite HP in He.
  destruct (choose_snapshot (P' ++ [groot G]) path) as [cs|] eqn:Ecs; [|destruct He].
  assert (HcsB : In cs (r_have rq)).
  { unfold choose_snapshot in Ecs. destruct path as [|p0 pr].
    - inversion Ecs. rewrite last_last. exact (groot_have U HG rq Hrq).
    - apply common_snapshot_in in Ecs. eapply path_in_have; [exact HG | exact Hrq | exact HP | exact (proj1 Ecs)]. }
  destruct (same_set (rep_heads G rq) heads || contains_sorted heads (rep_heads G rq)).
  - destruct He as [<-|He]; [exact Hcur|]. destruct (Nat.eqb _ _); [destruct He|]. destruct He as [<-|[]]. exact Hcur.
  - apply in_app_or in He. destruct He as [He|He].
    + apply in_map_iff in He. destruct He as [b [<- Hb]]. cbn [snd msg_heads]. unfold respond_with in Hb.
      intros h Hh. revert h Hh.
      apply (stream_heads_in (fun h => In h (r_have rq)) (S (length (sigma_of U rq (groot G)))) batch_size (load (sigma_of U rq (groot G)) cs heads)) with (b := b); [| |exact Hb].
      * unfold load. cbn [li_lastHeads]. intros h [<-|[]]. exact HcsB.
      * unfold load. cbn [li_rest]. intros en Hen. destruct (from_id_suffix cs (sigma_of U rq (groot G))) as [pre Epre].
        assert (Hs : In en (sigma_of U rq (groot G))) by (rewrite Epre; apply in_or_app; right; exact Hen).
        exact (proj1 (proj2 (sigma_entry U HG rq Hrq en Hs))).
    + destruct (is_nil heads); [destruct He|]. destruct He as [<-|[]]. exact Hcur.
Qed.

(* ---------------------------------------------------------------- the model's own history *)

Fixpoint model_hist (nb : N -> liter -> batch * liter) (w : world) (ls : list label) : list (nat * sobs) :=
  match ls with
  | [] => []
  | l :: r => let '(w', em) := step nb w l in (actor_of l, mkSO false (observe w') em) :: model_hist nb w' r
  end.

Lemma step_G_ext : forall nb w l w' em, step nb w l = (w', em) -> exists ext, wG w' = wG w ++ ext.
Proof.
  intros nb w l w' em H. unfold step in H. destruct l as [i isSnap id size | i from m | i p].
  - destruct (Nat.ltb i (length (w_reps w)) && negb (has_change (wG w) id) && negb (N.eqb id 0));
      inversion H; subst; [|exists []; rewrite app_nil_r; reflexivity].
    eexists. unfold wG. cbn [w_uni]. rewrite map_app. reflexivity.
  - exists []. rewrite app_nil_r. destruct (Nat.ltb i (length (w_reps w))); [|inversion H; reflexivity].
    destruct m as [hs chs p | hs p | hs chs p].
    + destruct (handle_head _ _ _ _ _ _ _ _) as [r' em0]. inversion H. reflexivity.
    + inversion H. reflexivity.
    + destruct (handle_resp _ _ _ _ _ _ _ _) as [r' em0]. inversion H. reflexivity.
  - exists []. rewrite app_nil_r. destruct (Nat.ltb i (length (w_reps w))); inversion H; reflexivity.
Qed.

Lemma run_G_ext : forall nb ls w, exists ext, wG (run nb w ls) = wG w ++ ext.
Proof.
  intros nb ls. induction ls as [|l ls IH]; intros w; [exists []; rewrite app_nil_r; reflexivity|].
  rewrite run_cons. destruct (step nb w l) as [w1 em] eqn:E. cbn [fst]. destruct (step_G_ext _ _ _ _ _ E) as [e1 H1].
  destruct (IH w1) as [e2 H2]. exists (e1 ++ e2). rewrite H2, H1, app_assoc. reflexivity.
Qed.

Lemma subset_b_true : forall a b, incl a b -> subset_b a b = true.
Proof. exact subset_b_incl. Qed.

(* one step of the model from a state with the invariants passes step_ok, also w.r.t. any later universe *)
Lemma step_ok_model : forall w l w' em ext,
  sinv w -> step next_batch w l = (w', em) ->
  step_ok (wG w' ++ ext) (actor_of l) (mkSO false (observe w') em) = true.
Proof.
  intros w l w' em ext Hw H. pose proof (step_sinv _ _ _ _ _ Hw H) as Hw'.
  destruct (step_inv _ _ _ _ _ (sinv_winv w Hw) H) as [Hwi Hem].
  unfold step_ok. cbn [so_reps so_emit]. apply andb_true_iff. split.
  - apply forallb_forall. intros o Ho. unfold observe in Ho. apply in_map_iff in Ho. destruct Ho as [r [<- Hr]].
    destruct Hwi as [_ Hf]. rewrite Forall_forall in Hf. destruct (Hf r Hr) as [Hcl Hroot].
    unfold rep_ok. cbn [fst snd]. rewrite (closed_b_true _ _ (closed_app _ ext _ Hcl)).
    rewrite (subset_b_incl _ _ (rep_heads_incl (wG w') r Hroot)). reflexivity.
  - apply forallb_forall. intros e He.
    (* something is emitted only by an existing replica *)
    assert (Hact : actor_of l < length (w_reps w)).
    { unfold step in H. destruct l as [i isSnap id size | i from m | i p]; cbn [actor_of].
      - destruct (Nat.ltb i (length (w_reps w))) eqn:Ei; [apply Nat.ltb_lt; exact Ei|]. cbn [andb] in H. inversion H; subst. destruct He.
      - destruct (Nat.ltb i (length (w_reps w))) eqn:Ei; [apply Nat.ltb_lt; exact Ei|]. inversion H; subst. destruct He.
      - destruct (Nat.ltb i (length (w_reps w))) eqn:Ei; [apply Nat.ltb_lt; exact Ei|]. inversion H; subst. destruct He. }
    destruct (step_mono _ _ _ _ _ (sinv_winv w Hw) H) as [Hlen _].
    assert (Hnth : fst (nth (actor_of l) (observe w') ([], [])) = r_have (get_rep w' (actor_of l))).
    { unfold observe, get_rep.
      transitivity (fst ((fun r => (r_have r, rep_heads (wG w') r)) (nth (actor_of l) (w_reps w') norep))); [|reflexivity].
      f_equal. rewrite <- (map_nth (fun r => (r_have r, rep_heads (wG w') r))). apply nth_indep. rewrite map_length. lia. }
    rewrite Hnth. unfold emits_ok in Hem. rewrite Forall_forall in Hem. pose proof (Hem e He) as Hadv.
    destruct (snd e) as [hs chs p | hs p | hs chs p] eqn:Em; cbn [msg_heads msg_changes adv_ok] in *.
    + destruct Hadv as [H1 H2]. rewrite (subset_b_incl _ _ H1), (subset_b_incl _ _ H2). reflexivity.
    + rewrite (subset_b_incl _ _ Hadv). reflexivity.
    + (* a response: only the answer to a request emits one *)
      destruct l as [i isSnap id size | i from m | i q].
      * exfalso. unfold step in H. destruct (Nat.ltb i _ && _ && _); inversion H; subst; [|destruct He].
        unfold broadcast in He. apply in_map_iff in He. destruct He as [q0 [E _]]. rewrite <- E in Em. discriminate.
      * destruct m as [mh mc mp | mh mp | mh mc mp].
        -- exfalso. unfold step in H. destruct (Nat.ltb i (length (w_reps w))); [|inversion H; subst; destruct He].
           destruct (handle_head _ _ _ _ _ _ _ _) as [r' em0] eqn:Eh. inversion H; subst w' em. unfold handle_head in Eh.
           assert (Hb : forall G n me quiet r added e0, In e0 (broadcast G n me quiet r added) -> forall a b c, snd e0 <> MResp a b c).
           { intros G n me quiet r added e0 H0 a b c. unfold broadcast in H0. apply in_map_iff in H0. destruct H0 as [q0 [E _]]. rewrite <- E. discriminate. }
           assert (Ha : forall r1 em1 res, add_from_peer (wG w) (length (w_reps w)) i from (get_rep w i) mh mc mp = (r1, em1, res) ->
                        forall e0, In e0 em1 -> forall a b c, snd e0 <> MResp a b c).
           { intros r1 em1 res Ea e0 H0. unfold add_from_peer in Ea. destruct (has_heads _ _ _); [inversion Ea; subst; destruct H0|].
             destruct (apply _ _ _ _) as [r2 [| |added]]; inversion Ea; subst; try destruct H0. eapply Hb; exact H0. }
           destruct mc as [|c0 cr].
           ++ destruct (has_heads _ _ _); inversion Eh; subst; [destruct He|]. destruct He as [<-|[]]. discriminate.
           ++ destruct (add_from_peer _ _ _ _ _ _ (c0 :: cr) _) as [[r1 em1] res] eqn:Ea.
              destruct res as [rh|]; [destruct (same_set rh mh)|]; inversion Eh; subst.
              ** exact (Ha _ _ _ eq_refl e He _ _ _ Em).
              ** apply in_app_or in He. destruct He as [He|[<-|[]]]; [exact (Ha _ _ _ eq_refl e He _ _ _ Em) | discriminate].
              ** exact (Ha _ _ _ eq_refl e He _ _ _ Em).
        -- pose proof (step_req_stored w i from mh mp w' em Hw H) as Hst. rewrite Forall_forall in Hst.
           pose proof (Hst e He) as Hc. rewrite Em in Hc. cbn [msg_changes] in Hc. cbn [actor_of].
           assert (Hh : incl hs (r_have (get_rep w' i))).
           { unfold step in H. cbn [actor_of] in Hact. apply Nat.ltb_lt in Hact. rewrite Hact in H. apply Nat.ltb_lt in Hact.
             inversion H; subst w' em. rewrite root0_groot in He.
             pose proof (responses_heads_stored (w_uni w) (get_rep w i) from mh mp (proj1 Hw) (get_rep_rinv w i Hw Hact) e He) as Hx.
             rewrite Em in Hx. exact Hx. }
           rewrite (subset_b_incl _ _ Hh), (subset_b_incl _ _ Hc). reflexivity.
        -- exfalso. unfold step in H. destruct (Nat.ltb i (length (w_reps w))); [|inversion H; subst; destruct He].
           destruct (handle_resp _ _ _ _ _ _ _ _) as [r' em0] eqn:Eh. inversion H; subst w' em. unfold handle_resp in Eh.
           destruct mc as [|c0 cr]; [inversion Eh; subst; destruct He|].
           destruct (add_from_peer _ _ _ _ _ _ (c0 :: cr) _) as [[r1 em1] res] eqn:Ea. inversion Eh; subst.
           unfold add_from_peer in Ea. destruct (has_heads _ _ _); [inversion Ea; subst; destruct He|].
           destruct (apply _ _ _ _) as [r2 [| |added]]; inversion Ea; subst; try destruct He.
           unfold broadcast in He. apply in_map_iff in He. destruct He as [q0 [E _]]. rewrite <- E in Em. discriminate.
      * exfalso. unfold step in H. destruct (Nat.ltb i (length (w_reps w))); inversion H; subst; [|destruct He].
        destruct He as [<-|[]]. discriminate.
Qed.

Lemma hist_steps_ok : forall ls w ext, sinv w ->
  forallb (fun s => step_ok (wG (run next_batch w ls) ++ ext) (fst s) (snd s)) (model_hist next_batch w ls) = true.
Proof.
  induction ls as [|l ls IH]; intros w ext Hw; [reflexivity|].
  cbn [model_hist]. rewrite run_cons. destruct (step next_batch w l) as [w1 em] eqn:E. cbn [fst forallb snd].
  pose proof (step_sinv _ _ _ _ _ Hw E) as Hw1. apply andb_true_iff. split; [|apply IH; exact Hw1].
  destruct (run_G_ext next_batch ls w1) as [e1 H1]. rewrite H1, <- app_assoc. exact (step_ok_model w l w1 em (e1 ++ ext) Hw E).
Qed.

Lemma hist_last : forall nb ls w, ls <> [] ->
  exists pre a em, model_hist nb w ls = pre ++ [(a, mkSO false (observe (run nb w ls)) em)].
Proof.
  intros nb ls. induction ls as [|l ls IH]; intros w Hne; [contradiction|].
  cbn [model_hist]. rewrite run_cons. destruct (step nb w l) as [w1 em] eqn:E. cbn [fst].
  destruct ls as [|l2 ls2].
  - exists [], (actor_of l), em. reflexivity.
  - destruct (IH w1 ltac:(discriminate)) as [pre [a [em2 H]]]. rewrite H.
    exists ((actor_of l, mkSO false (observe w1) em) :: pre), a, em2. reflexivity.
Qed.

(* MODEL MEETS SPEC *)
Theorem model_meets_spec : forall n root size pre ls,
  honest_root root -> 0 < n ->
  let w := run next_batch (init_world n root size) pre in
  noadd ls -> fair next_batch w ls ->
  let w' := run next_batch w ls in
  spec_C01 (wG w') (model_hist next_batch (init_world n root size) (pre ++ ls)) = true.
Proof.
  intros n root size pre ls Hroot Hn w Hna Hfair w'. unfold spec_C01.
  assert (Hrun : run next_batch (init_world n root size) (pre ++ ls) = w') by (unfold w', w; apply run_app).
  apply andb_true_iff. split.
  - pose proof (hist_steps_ok (pre ++ ls) (init_world n root size) [] (init_sinv n root size Hroot)) as H.
    rewrite Hrun, app_nil_r in H. exact H.
  - destruct (pre ++ ls) as [|l0 rest] eqn:Eall; [reflexivity|].
    destruct (hist_last next_batch (l0 :: rest) (init_world n root size) ltac:(discriminate)) as [hp [a [em H]]].
    rewrite H, rev_app_distr. cbn [rev app so_reps]. rewrite Hrun.
    exact (final_all_equal n root size pre ls Hroot Hn Hna Hfair).
Qed.
