(* Proofs/DfsBase.v — basic facts about Lib/Dag.v and Model/Dfs.v:
   insertion sort is permutation-invariant, the canonical Next lists and the canonical order depend only on
   the SET of changes (permutation invariance), the DFS depends on Next only pointwise, and the DFS is total
   with the fuel [dfs_fuel]. *)
From Coq Require Import List NArith Bool Arith Lia Permutation.
Import ListNotations.
From AnySync Require Import Lib.Dag Model.Dfs.

(* ---------------------------------------------------------------- mem *)

Lemma mem_In : forall i l, mem i l = true <-> In i l.
Proof.
  intros i l. unfold mem. rewrite existsb_exists. split.
  - intros [x [Hin Heq]]. apply N.eqb_eq in Heq. subst. exact Hin.
  - intros Hin. exists i. split; [exact Hin | apply N.eqb_refl].
Qed.

Lemma mem_false_In : forall i l, mem i l = false <-> ~ In i l.
Proof.
  intros i l. rewrite <- mem_In. destruct (mem i l); split; intro H;
    [discriminate | exfalso; apply H; reflexivity | intro; discriminate | reflexivity].
Qed.

(* ---------------------------------------------------------------- insertion sort *)

Lemma insert_sorted_comm : forall x y l,
  insert_sorted x (insert_sorted y l) = insert_sorted y (insert_sorted x l).
Proof.
  intros x y l. induction l as [|a r IH]; cbn [insert_sorted].
  - destruct (N.leb_spec x y) as [Hxy|Hxy]; destruct (N.leb_spec y x) as [Hyx|Hyx]; try reflexivity.
    + assert (x = y) by lia. subst. reflexivity.
    + lia.
  - destruct (N.leb_spec y a) as [Hya|Hya]; destruct (N.leb_spec x a) as [Hxa|Hxa]; cbn [insert_sorted].
    + destruct (N.leb_spec x y) as [Hxy|Hxy]; destruct (N.leb_spec y x) as [Hyx|Hyx];
        repeat match goal with
               | |- context [N.leb ?a ?b] => destruct (N.leb_spec a b); try lia
               end; try reflexivity.
      assert (x = y) by lia. subst. reflexivity.
    + destruct (N.leb_spec x y); try lia. destruct (N.leb_spec x a); try lia.
      destruct (N.leb_spec y a); try lia. reflexivity.
    + destruct (N.leb_spec y x); try lia. destruct (N.leb_spec y a); try lia.
      destruct (N.leb_spec x a); try lia. reflexivity.
    + destruct (N.leb_spec x a); try lia. destruct (N.leb_spec y a); try lia. rewrite IH. reflexivity.
Qed.

Lemma isort_perm : forall l l', Permutation l l' -> isort l = isort l'.
Proof.
  intros l l' HP. induction HP as [|x l l' HP IH|x y l|l l' l'' HP1 IH1 HP2 IH2].
  - reflexivity.
  - unfold isort in *. cbn [fold_right]. rewrite IH. reflexivity.
  - unfold isort. cbn [fold_right]. apply insert_sorted_comm.
  - congruence.
Qed.

Lemma insert_sorted_length : forall x l, length (insert_sorted x l) = S (length l).
Proof.
  intros x l. induction l as [|a r IH]; cbn [insert_sorted length]; [reflexivity|].
  destruct (N.leb x a); cbn [length]; [reflexivity | rewrite IH; reflexivity].
Qed.

Lemma isort_length : forall l, length (isort l) = length l.
Proof.
  induction l as [|a r IH]; [reflexivity|].
  unfold isort in *. cbn [fold_right]. rewrite insert_sorted_length, IH. reflexivity.
Qed.

Lemma insert_sorted_In : forall x y l, In y (insert_sorted x l) <-> y = x \/ In y l.
Proof.
  intros x y l. induction l as [|a r IH]; cbn [insert_sorted].
  - cbn. intuition.
  - destruct (N.leb x a); cbn [In] in *; rewrite ?IH; intuition.
Qed.

Lemma isort_In : forall y l, In y (isort l) <-> In y l.
Proof.
  intros y l. induction l as [|a r IH]; [reflexivity|].
  unfold isort in *. cbn [fold_right]. rewrite insert_sorted_In, IH. cbn. intuition.
Qed.

(* ---------------------------------------------------------------- canonical Next lists depend on the set only *)

Lemma next_of_perm : forall S S' p, Permutation S S' -> next_of S p = next_of S' p.
Proof.
  intros S S' p HP. unfold next_of, children_occ. apply isort_perm.
  apply Permutation_flat_map. exact HP.
Qed.

Lemma sum_prev_perm : forall S S', Permutation S S' -> sum_prev S = sum_prev S'.
Proof.
  intros S S' HP. induction HP as [|x l l' HP IH|x y l|l l' l'' HP1 IH1 HP2 IH2]; cbn [sum_prev]; lia.
Qed.

Lemma dfs_fuel_perm : forall S S', Permutation S S' -> dfs_fuel S = dfs_fuel S'.
Proof.
  intros S S' HP. unfold dfs_fuel. rewrite (Permutation_length HP), (sum_prev_perm _ _ HP). reflexivity.
Qed.

Lemma cites_In : forall p c y, In y (cites p c) -> y = cid c /\ In p (cprev c).
Proof.
  intros p c y H. unfold cites in H. apply in_map_iff in H. destruct H as [q [Hy Hq]].
  apply filter_In in Hq. destruct Hq as [Hq Heq]. apply N.eqb_eq in Heq. subst. auto.
Qed.

Lemma children_occ_In : forall S p y, In y (children_occ S p) <-> exists c, In c S /\ cid c = y /\ In p (cprev c).
Proof.
  intros S p y. unfold children_occ. rewrite in_flat_map. split.
  - intros [c [Hc Hy]]. apply cites_In in Hy. destruct Hy as [Hy Hp]. exists c. auto.
  - intros [c [Hc [Hy Hp]]]. exists c. split; [exact Hc|]. unfold cites. apply in_map_iff.
    exists p. split; [exact Hy|]. apply filter_In. split; [exact Hp | apply N.eqb_refl].
Qed.

Lemma next_of_In : forall S p y, In y (next_of S p) <-> exists c, In c S /\ cid c = y /\ In p (cprev c).
Proof. intros S p y. unfold next_of. rewrite isort_In. apply children_occ_In. Qed.

Lemma filter_len_le : forall (A : Type) (f : A -> bool) (l : list A), length (filter f l) <= length l.
Proof. intros A f l. induction l as [|a r IH]; cbn [filter length]; [lia|]. destruct (f a); cbn [length]; lia. Qed.

Lemma cites_length : forall p c, length (cites p c) <= length (cprev c).
Proof. intros p c. unfold cites. rewrite map_length. apply filter_len_le. Qed.

Lemma children_occ_length : forall S p, length (children_occ S p) <= sum_prev S.
Proof.
  intros S p. unfold children_occ. induction S as [|c r IH]; cbn [flat_map sum_prev length]; [lia|].
  rewrite app_length. pose proof (cites_length p c). lia.
Qed.

Lemma next_of_length : forall S p, length (next_of S p) <= sum_prev S.
Proof. intros S p. unfold next_of. rewrite isort_length. apply children_occ_length. Qed.

(* ---------------------------------------------------------------- the DFS looks at Next pointwise *)

Lemma dfs_step_ext : forall nx nx' s, (forall i, nx i = nx' i) -> dfs_step nx s = dfs_step nx' s.
Proof. intros nx nx' s H. unfold dfs_step. destruct (d_stack s); [reflexivity|]. rewrite H. reflexivity. Qed.

Lemma dfs_loop_ext : forall nx nx' fuel s, (forall i, nx i = nx' i) -> dfs_loop nx fuel s = dfs_loop nx' fuel s.
Proof.
  intros nx nx' fuel. induction fuel as [|f IH]; intros s H; cbn [dfs_loop]; destruct (d_stack s) eqn:E; try reflexivity.
  rewrite (dfs_step_ext nx nx' s H). apply IH. exact H.
Qed.

Lemma reach_loop_ext : forall nx nx' fuel st vis, (forall i, nx i = nx' i) ->
  reach_loop nx fuel st vis = reach_loop nx' fuel st vis.
Proof.
  intros nx nx' fuel. induction fuel as [|f IH]; intros st vis H; cbn [reach_loop]; [reflexivity|].
  destruct st as [|ch st']; [reflexivity|]. destruct (mem ch vis); [apply IH; exact H|].
  rewrite H. apply IH. exact H.
Qed.

Lemma view_perm : forall S S' root, Permutation S S' -> Permutation (view S root) (view S' root).
Proof.
  intros S S' root HP. unfold view.
  induction HP as [|x l l' HP IH|x y l|l l' l'' HP1 IH1 HP2 IH2]; cbn [filter].
  - constructor.
  - destruct (negb (N.eqb (cid x) root)); [constructor|]; exact IH.
  - destruct (negb (N.eqb (cid x) root)); destruct (negb (N.eqb (cid y) root)); try apply Permutation_refl.
    apply perm_swap.
  - eapply Permutation_trans; eassumption.
Qed.

(* the canonical order is a function of the SET of changes *)
Theorem order_opt_perm : forall S S' root, Permutation S S' -> order_opt S root = order_opt S' root.
Proof.
  intros S S' root HP. unfold order_opt. pose proof (view_perm S S' root HP) as HV.
  rewrite (dfs_fuel_perm _ _ HV).
  apply dfs_loop_ext. intros i. apply next_of_perm. exact HV.
Qed.

Theorem order_perm : forall S S' root, Permutation S S' -> order S root = order S' root.
Proof. intros S S' root HP. unfold order. rewrite (order_opt_perm S S' root HP). reflexivity. Qed.

(* ---------------------------------------------------------------- totality *)

Section Total.
  Variable nx : N -> list N.
  Variable U : list N.          (* a universe closed under nx *)
  Variable B : nat.             (* bound on the length of every Next list *)
  Hypothesis U_closed : forall u y, In u U -> In y (nx u) -> In y U.
  Hypothesis nx_bound : forall u, length (nx u) <= B.

  Fixpoint W (l vis : list N) : nat :=
    match l with
    | [] => 0
    | u :: r => (if mem u vis then 0 else 2 + length (nx u)) + W r vis
    end.

  Lemma W_mono : forall l vis x, W l (x :: vis) <= W l vis.
  Proof.
    intros l vis x. induction l as [|u r IH]; cbn [W]; [lia|].
    cbn [mem existsb]. destruct (N.eqb u x); cbn [orb]; [lia|]. fold (mem u vis). destruct (mem u vis); lia.
  Qed.

  Lemma W_dec : forall l vis u, In u l -> mem u vis = false -> W l (u :: vis) + 2 + length (nx u) <= W l vis.
  Proof.
    intros l vis u Hin Hm. induction l as [|a r IH]; [destruct Hin|].
    cbn [W]. destruct Hin as [Heq|Hin].
    - subst a. rewrite Hm. cbn [mem existsb]. rewrite N.eqb_refl. cbn [orb]. pose proof (W_mono r vis u). lia.
    - specialize (IH Hin). cbn [mem existsb]. destruct (N.eqb a u) eqn:E; cbn [orb].
      + apply N.eqb_eq in E. subst a. rewrite Hm. lia.
      + fold (mem a vis). destruct (mem a vis); lia.
  Qed.

  Lemma W_bound : forall l vis, W l vis <= length l * (B + 2).
  Proof.
    intros l vis. induction l as [|u r IH]; cbn [W length]; [lia|].
    pose proof (nx_bound u). destruct (mem u vis); lia.
  Qed.

  Definition measure (s : dstate) : nat := length (d_stack s) + W U (d_vis s).

  Lemma dfs_step_measure : forall s ch st,
    d_stack s = ch :: st -> (forall x, In x (d_stack s) -> In x U) ->
    measure (dfs_step nx s) < measure s /\ (forall x, In x (d_stack (dfs_step nx s)) -> In x U).
  Proof.
    intros s ch st Hst HU. unfold dfs_step, measure. rewrite Hst.
    assert (HchU : In ch U) by (apply HU; rewrite Hst; left; reflexivity).
    assert (HstU : forall x, In x st -> In x U) by (intros x Hx; apply HU; rewrite Hst; right; exact Hx).
    destruct (mem ch (d_bf s)); cbn [d_stack d_vis length].
    - split; [lia | exact HstU].
    - destruct (mem ch (d_vis s)) eqn:Hv; cbn [d_stack d_vis length].
      + split; [lia | exact HstU].
      + pose proof (W_dec U (d_vis s) ch HchU Hv) as Hd.
        split.
        * rewrite app_length, rev_length. cbn [length].
          pose proof (filter_len_le N (fun i => negb (mem i (ch :: d_vis s))) (nx ch)). lia.
        * intros x Hx. apply in_app_or in Hx. destruct Hx as [Hx|[Hx|Hx]].
          -- apply in_rev in Hx. apply filter_In in Hx. destruct Hx as [Hx _]. apply (U_closed ch); assumption.
          -- subst x. exact HchU.
          -- apply HstU. exact Hx.
  Qed.

  Lemma dfs_loop_total : forall fuel s,
    (forall x, In x (d_stack s) -> In x U) -> measure s <= fuel -> exists l, dfs_loop nx fuel s = Some l.
  Proof.
    induction fuel as [|f IH]; intros s HU Hm.
    - unfold measure in Hm. destruct (d_stack s) eqn:E.
      + exists (d_res s). cbn [dfs_loop]. rewrite E. reflexivity.
      + cbn [length] in Hm. lia.
    - cbn [dfs_loop]. destruct (d_stack s) as [|ch st] eqn:E.
      + exists (d_res s). reflexivity.
      + rewrite <- E in HU. destruct (dfs_step_measure s ch st E HU) as [Hlt HU']. apply IH; [exact HU' | lia].
  Qed.
End Total.

Theorem order_total : forall S root, exists l, order_opt S root = Some l.
Proof.
  intros S0 root. unfold order_opt. set (S := view S0 root).
  apply dfs_loop_total with (U := root :: ids S).
  - intros u y _ Hy. apply next_of_In in Hy. destruct Hy as [c [Hc [Hy _]]]. right. unfold ids.
    apply in_map_iff. exists c. auto.
  - intros x Hx. cbn in Hx. destruct Hx as [Hx|[]]. left. exact Hx.
  - unfold measure, dfs_init. cbn [d_stack d_vis length].
    pose proof (W_bound (next_of S) (sum_prev S) (fun u => next_of_length S u) (root :: ids S) []) as Hb.
    cbn [length] in Hb. unfold ids in Hb. rewrite map_length in Hb. unfold dfs_fuel, ids. lia.
Qed.

Corollary order_opt_order : forall S root, order_opt S root = Some (order S root).
Proof.
  intros S root. destruct (order_total S root) as [l Hl]. unfold order. rewrite Hl. reflexivity.
Qed.

Lemma find_change_sound : forall S i c, find_change S i = Some c -> In c S /\ cid c = i.
Proof.
  induction S as [|a r IH]; intros i c H; cbn [find_change] in H; [discriminate|].
  destruct (N.eqb (cid a) i) eqn:E.
  - inversion H. subst. apply N.eqb_eq in E. split; [left; reflexivity | exact E].
  - destruct (IH i c H) as [H1 H2]. split; [right; exact H1 | exact H2].
Qed.
