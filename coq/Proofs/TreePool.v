(* C06 — independent trees over the shared iterator pool (Model/TreePool.v): what a reader is handed is the sequence
   its tree presented when the reader was opened, whatever is done with other trees (or readers) in between; the
   state of tree k depends only on the events addressed to tree k.  Stdlib style, no axioms. *)
From Coq Require Import List NArith Bool Arith Lia.
Import ListNotations.
From AnySync Require Import Lib.Dag Model.Dfs Model.Tree Model.TreePool Proofs.DfsBase Proofs.TreeInc.
Open Scope N_scope.

Lemma pget_pset : forall A (m : list (N * A)) k v k',
  pget (pset m k v) k' = if N.eqb k' k then Some v else pget m k'.
Proof. reflexivity. Qed.

Lemma pget_pdel : forall A (m : list (N * A)) k k',
  pget (pdel m k) k' = if N.eqb k' k then None else pget m k'.
Proof.
  intros A m k k'. unfold pdel. induction m as [|[a v] m IH]; cbn.
  - destruct (N.eqb k' k); reflexivity.
  - destruct (N.eqb k a) eqn:Eka; cbn.
    + apply N.eqb_eq in Eka. subst a. rewrite IH. destruct (N.eqb k' k); reflexivity.
    + rewrite IH. destruct (N.eqb k' a) eqn:Ek'a.
      * apply N.eqb_eq in Ek'a. subst a. rewrite N.eqb_sym, Eka. reflexivity.
      * reflexivity.
Qed.

Lemma hget_pset_other : forall h b L b', b' <> b -> hget (pset h b L) b' = hget h b'.
Proof.
  intros h b L b' Hne. unfold hget. rewrite pget_pset.
  destruct (N.eqb b' b) eqn:E; [apply N.eqb_eq in E; contradiction | reflexivity].
Qed.

Lemma hget_pset_same : forall h b L, hget (pset h b L) b = L.
Proof. intros h b L. unfold hget. rewrite pget_pset, N.eqb_refl. reflexivity. Qed.

(* ---- ownership invariant: iterators of readers in progress are pairwise different, allocated, not in the pool, and
   still hold what was sorted into them when their reader was opened *)
Definition inv_pool (s : pstate) : Prop :=
  NoDup (p_pool s) /\
  (forall b, In b (p_pool s) -> b < p_fresh s) /\
  (forall r rd, pget (p_readers s) r = Some rd ->
     rd_it rd < p_fresh s /\ ~ In (rd_it rd) (p_pool s) /\ hget (p_heap s) (rd_it rd) = rd_seq rd) /\
  (forall r1 r2 rd1 rd2, pget (p_readers s) r1 = Some rd1 -> pget (p_readers s) r2 = Some rd2 ->
     r1 <> r2 -> rd_it rd1 <> rd_it rd2).

Lemma inv_init : inv_pool p_init.
Proof.
  unfold inv_pool, p_init; cbn. repeat split; try constructor; try contradiction; try discriminate.
Qed.

Lemma take_spec : forall s b pool' fresh',
  inv_pool s -> take s = (b, pool', fresh') ->
  ~ In b pool' /\ NoDup pool' /\ b < fresh' /\ (forall x, In x pool' -> x < fresh') /\ p_fresh s <= fresh' /\
  (forall x, In x pool' -> In x (p_pool s)) /\
  (forall r rd, pget (p_readers s) r = Some rd -> rd_it rd <> b).
Proof.
  intros s b pool' fresh' (Hnd & Hlt & Hrd & _) Ht. unfold take in Ht.
  destruct (p_pool s) as [|b0 p] eqn:Ep; inversion Ht; subst; clear Ht.
  - split; [intros H; exact H|]. split; [constructor|]. split; [lia|].
    split; [intros x Hx; contradiction|]. split; [lia|]. split; [intros x Hx; contradiction|].
    intros r rd Hr. destruct (Hrd r rd Hr) as (Hlt' & _). lia.
  - inversion Hnd as [|? ? Hni Hnd']; subst.
    split; [exact Hni|]. split; [exact Hnd'|]. split; [apply Hlt; left; reflexivity|].
    split; [intros x Hx; apply Hlt; right; exact Hx|]. split; [lia|].
    split; [intros x Hx; right; exact Hx|].
    intros r rd Hr Heq. destruct (Hrd r rd Hr) as (_ & Hnp & _). apply Hnp. left. symmetry; exact Heq.
Qed.

(* an iterator is taken, filled and put back *)
Lemma inv_borrowed : forall s b pool' fresh' trees L,
  inv_pool s -> take s = (b, pool', fresh') ->
  inv_pool (mkP trees (pset (p_heap s) b L) (b :: pool') fresh' (p_readers s)).
Proof.
  intros s b pool' fresh' trees L Hinv Ht.
  destruct (take_spec s b pool' fresh' Hinv Ht) as (Hni & Hnd & Hb & Hlt & Hfr & Hsub & Hrb).
  destruct Hinv as (_ & _ & Hrd & Hdis).
  unfold inv_pool; cbn [p_pool p_fresh p_readers p_heap]. repeat split.
  - constructor; assumption.
  - intros x [Hx|Hx]; [subst; exact Hb | apply Hlt; exact Hx].
  - destruct (Hrd r rd H) as (Hl & _). lia.
  - intros [Hx|Hx].
    + apply (Hrb r rd H). symmetry; exact Hx.
    + destruct (Hrd r rd H) as (_ & Hnp & _). apply Hnp, Hsub, Hx.
  - rewrite hget_pset_other; [apply (Hrd r rd H) | apply (Hrb r rd H)].
  - exact Hdis.
Qed.

(* a reader is opened on a taken iterator *)
Lemma inv_opened : forall s b pool' fresh' r pos k L,
  inv_pool s -> take s = (b, pool', fresh') -> pget (p_readers s) r = None ->
  inv_pool (mkP (p_trees s) (pset (p_heap s) b L) pool' fresh' (pset (p_readers s) r (mkRd b pos k L))).
Proof.
  intros s b pool' fresh' r pos k L Hinv Ht Hnone.
  destruct (take_spec s b pool' fresh' Hinv Ht) as (Hni & Hnd & Hb & Hlt & Hfr & Hsub & Hrb).
  destruct Hinv as (_ & _ & Hrd & Hdis).
  unfold inv_pool; cbn [p_pool p_fresh p_readers p_heap]. split; [exact Hnd|]. split; [exact Hlt|]. split.
  - intros r' rd Hr'. rewrite pget_pset in Hr'. destruct (N.eqb r' r) eqn:E.
    + inversion Hr'; subst; cbn [rd_it rd_seq]. split; [exact Hb|]. split; [exact Hni|]. apply hget_pset_same.
    + destruct (Hrd r' rd Hr') as (Hl & Hnp & Hh). split; [lia|]. split.
      * intros Hx. apply Hnp, Hsub, Hx.
      * rewrite hget_pset_other; [exact Hh | apply (Hrb r' rd Hr')].
  - intros r1 r2 rd1 rd2 H1 H2 Hne. rewrite pget_pset in H1, H2.
    destruct (N.eqb r1 r) eqn:E1; destruct (N.eqb r2 r) eqn:E2.
    + apply N.eqb_eq in E1, E2. subst. contradiction.
    + inversion H1; subst; cbn [rd_it]. intros Heq. apply (Hrb r2 rd2 H2). symmetry; exact Heq.
    + inversion H2; subst; cbn [rd_it]. apply (Hrb r1 rd1 H1).
    + apply (Hdis r1 r2 rd1 rd2 H1 H2 Hne).
Qed.

(* a reader advances *)
Lemma inv_advanced : forall s r rd pos',
  inv_pool s -> pget (p_readers s) r = Some rd ->
  inv_pool (mkP (p_trees s) (p_heap s) (p_pool s) (p_fresh s)
                (pset (p_readers s) r (mkRd (rd_it rd) pos' (rd_tree rd) (rd_seq rd)))).
Proof.
  intros s r rd pos' (Hnd & Hlt & Hrd & Hdis) Hr.
  unfold inv_pool; cbn [p_pool p_fresh p_readers p_heap]. split; [exact Hnd|]. split; [exact Hlt|]. split.
  - intros r' rd' Hr'. rewrite pget_pset in Hr'. destruct (N.eqb r' r) eqn:E.
    + inversion Hr'; subst; cbn [rd_it rd_seq]. apply (Hrd r rd Hr).
    + apply (Hrd r' rd' Hr').
  - intros r1 r2 rd1 rd2 H1 H2 Hne. rewrite pget_pset in H1, H2.
    destruct (N.eqb r1 r) eqn:E1; destruct (N.eqb r2 r) eqn:E2.
    + apply N.eqb_eq in E1, E2. subst. contradiction.
    + apply N.eqb_eq in E1. subst r1. inversion H1; subst; cbn [rd_it]. apply (Hdis r r2 rd rd2 Hr H2 Hne).
    + apply N.eqb_eq in E2. subst r2. inversion H2; subst; cbn [rd_it]. apply (Hdis r1 r rd1 rd H1 Hr Hne).
    + apply (Hdis r1 r2 rd1 rd2 H1 H2 Hne).
Qed.

(* a reader ends: its iterator goes back to the pool *)
Lemma inv_released : forall s r rd,
  inv_pool s -> pget (p_readers s) r = Some rd ->
  inv_pool (mkP (p_trees s) (p_heap s) (rd_it rd :: p_pool s) (p_fresh s) (pdel (p_readers s) r)).
Proof.
  intros s r rd (Hnd & Hlt & Hrd & Hdis) Hr.
  destruct (Hrd r rd Hr) as (Hl & Hnp & _).
  unfold inv_pool; cbn [p_pool p_fresh p_readers p_heap]. split; [constructor; assumption|]. split.
  - intros x [Hx|Hx]; [subst; exact Hl | apply Hlt; exact Hx].
  - split.
    + intros r' rd' Hr'. rewrite pget_pdel in Hr'. destruct (N.eqb r' r) eqn:E; [discriminate|].
      destruct (Hrd r' rd' Hr') as (Hl' & Hnp' & Hh'). split; [exact Hl'|]. split; [|exact Hh'].
      intros [Hx|Hx]; [|exact (Hnp' Hx)].
      apply (Hdis r' r rd' rd Hr' Hr); [|symmetry; exact Hx].
      intros Heq. subst. rewrite N.eqb_refl in E. discriminate.
    + intros r1 r2 rd1 rd2 H1 H2 Hne. rewrite pget_pdel in H1, H2.
      destruct (N.eqb r1 r); [discriminate|]. destruct (N.eqb r2 r); [discriminate|].
      apply (Hdis r1 r2 rd1 rd2 H1 H2 Hne).
Qed.

Lemma inv_set_trees : forall s trees, inv_pool s -> inv_pool (set_trees s trees).
Proof. intros s trees H. exact H. Qed.

Lemma inv_borrow : forall s trees L, inv_pool s -> inv_pool (borrow s trees L).
Proof.
  intros s trees L H. unfold borrow. destruct (take s) as [[b pool'] fresh'] eqn:Ht.
  apply (inv_borrowed s b pool' fresh' trees L H Ht).
Qed.

Theorem step_inv : forall G s e, inv_pool s -> inv_pool (fst (pstep false G s e)).
Proof.
  intros G s e Hinv. destruct e as [k batch|k batch|k|r k from|r|r]; cbn [pstep].
  - destruct (tree_add (tget s k) (find_all G batch)) as [[t' m] added]. cbn [fst].
    destruct added; [apply inv_set_trees | apply inv_borrow]; exact Hinv.
  - destruct (tree_add_fast (tget s k) (find_all G batch)) as [t' ad]. cbn [fst].
    destruct batch; [apply inv_set_trees | apply inv_borrow]; exact Hinv.
  - destruct (root_nil (tget s k)); cbn [fst]; [exact Hinv | apply inv_borrow; exact Hinv].
  - destruct (pget (p_readers s) r) eqn:Hr; [exact Hinv|].
    destruct (take s) as [[b pool'] fresh'] eqn:Ht.
    destruct (nth_error _ _); cbn [fst].
    + apply (inv_opened s b pool' fresh' r _ k _ Hinv Ht Hr).
    + apply (inv_borrowed s b pool' fresh' (p_trees s) _ Hinv Ht).
  - destruct (pget (p_readers s) r) as [rd|] eqn:Hr; [|exact Hinv].
    destruct (nth_error _ _); cbn [fst release].
    + apply (inv_advanced s r rd _ Hinv Hr).
    + apply (inv_released s r rd Hinv Hr).
  - destruct (pget (p_readers s) r) as [rd|] eqn:Hr; [|exact Hinv].
    cbn [fst release]. apply (inv_released s r rd Hinv Hr).
Qed.

Lemma prun_cons : forall early G s e evs,
  prun early G s (e :: evs) =
  (fst (prun early G (fst (pstep early G s e)) evs),
   snd (pstep early G s e) :: snd (prun early G (fst (pstep early G s e)) evs)).
Proof.
  intros early G s e evs. cbn [prun]. destruct (pstep early G s e) as [s1 o]. cbn [fst snd].
  destruct (prun early G s1 evs) as [s2 os]. reflexivity.
Qed.

Theorem run_inv : forall G evs s, inv_pool s -> inv_pool (fst (prun false G s evs)).
Proof.
  intros G evs. induction evs as [|e evs IH]; intros s H; [exact H|].
  rewrite prun_cons. cbn [fst]. apply IH, step_inv, H.
Qed.

Theorem reachable_inv : forall G evs, inv_pool (fst (prun false G p_init evs)).
Proof. intros G evs. apply run_inv, inv_init. Qed.

(* ---- what a reader is handed *)

Theorem next_obs : forall G s r rd,
  inv_pool s -> pget (p_readers s) r = Some rd ->
  snd (pstep false G s (PNext r)) = OItem (nth_error (rd_seq rd) (rd_pos rd)).
Proof.
  intros G s r rd (_ & _ & Hrd & _) Hr. cbn [pstep]. rewrite Hr.
  destruct (Hrd r rd Hr) as (_ & _ & Hh). rewrite Hh.
  destruct (nth_error (rd_seq rd) (rd_pos rd)); reflexivity.
Qed.

Lemma next_state : forall G s r rd x,
  inv_pool s -> pget (p_readers s) r = Some rd -> nth_error (rd_seq rd) (rd_pos rd) = Some x ->
  pget (p_readers (fst (pstep false G s (PNext r)))) r
  = Some (mkRd (rd_it rd) (S (rd_pos rd)) (rd_tree rd) (rd_seq rd)).
Proof.
  intros G s r rd x (_ & _ & Hrd & _) Hr Hx. cbn [pstep]. rewrite Hr.
  destruct (Hrd r rd Hr) as (_ & _ & Hh). rewrite Hh, Hx. cbn [fst p_readers].
  rewrite pget_pset, N.eqb_refl. reflexivity.
Qed.

(* events not addressed to reader r leave its record alone *)
Lemma other_event_keeps_reader : forall early G s e r rd,
  pget (p_readers s) r = Some rd -> e <> PNext r -> e <> PClose r ->
  pget (p_readers (fst (pstep early G s e))) r = Some rd.
Proof.
  intros early G s e r rd Hr Hn Hc. destruct e as [k batch|k batch|k|r' k from|r'|r']; cbn [pstep].
  - destruct (tree_add (tget s k) (find_all G batch)) as [[t' m] added]. cbn [fst].
    destruct added; [exact Hr|]. unfold borrow. destruct (take s) as [[b p] f]. exact Hr.
  - destruct (tree_add_fast (tget s k) (find_all G batch)) as [t' ad]. cbn [fst].
    destruct batch; [exact Hr|]. unfold borrow. destruct (take s) as [[b p] f]. exact Hr.
  - destruct (root_nil (tget s k)); cbn [fst]; [exact Hr|].
    unfold borrow. destruct (take s) as [[b p] f]. exact Hr.
  - destruct (pget (p_readers s) r') eqn:Hr'; [exact Hr|].
    destruct (take s) as [[b p] f]. destruct (nth_error _ _); cbn [fst p_readers]; [|exact Hr].
    rewrite pget_pset. destruct (N.eqb r r') eqn:E; [|exact Hr].
    apply N.eqb_eq in E. subst. rewrite Hr in Hr'. discriminate.
  - assert (Hne : r <> r') by (intros Heq; subst; apply Hn; reflexivity).
    assert (E : N.eqb r r' = false) by (apply N.eqb_neq; exact Hne).
    destruct (pget (p_readers s) r') as [rd'|]; [|exact Hr].
    destruct (nth_error _ _); cbn [fst p_readers].
    + rewrite pget_pset, E. exact Hr.
    + rewrite pget_pdel, E. exact Hr.
  - assert (Hne : r <> r') by (intros Heq; subst; apply Hc; reflexivity).
    assert (E : N.eqb r r' = false) by (apply N.eqb_neq; exact Hne).
    destruct (pget (p_readers s) r') as [rd'|]; [|exact Hr].
    cbn [fst p_readers]. rewrite pget_pdel, E. exact Hr.
Qed.

Lemma skipn_nth_cons : forall (l : list N) n x, nth_error l n = Some x -> skipn n l = x :: skipn (S n) l.
Proof.
  induction l as [|a l IH]; intros n x H; destruct n; cbn in *; try discriminate.
  - inversion H; reflexivity.
  - apply IH, H.
Qed.

(* The changes handed to reader r by the PNext events of ANY continuation of the trace are, in order, the
   elements of the sequence sorted into its iterator when it was opened, from its current position on. *)
Theorem reader_trace : forall G evs s r rd,
  inv_pool s -> pget (p_readers s) r = Some rd ->
  exists rest, skipn (rd_pos rd) (rd_seq rd) = items_of r evs (snd (prun false G s evs)) ++ rest.
Proof.
  intros G evs. induction evs as [|e evs IH]; intros s r rd Hinv Hr.
  - exists (skipn (rd_pos rd) (rd_seq rd)). reflexivity.
  - rewrite prun_cons. cbn [snd].
    assert (Hinv1 : inv_pool (fst (pstep false G s e))) by (apply step_inv, Hinv).
    assert (Hother : e <> PNext r -> e <> PClose r ->
              exists rest, skipn (rd_pos rd) (rd_seq rd)
                           = items_of r evs (snd (prun false G (fst (pstep false G s e)) evs)) ++ rest).
    { intros Hn Hc. apply (IH _ r rd Hinv1). apply other_event_keeps_reader; assumption. }
    destruct e as [k batch|k batch|k|r' k from|r'|r'].
    + cbn [items_of]. apply Hother; discriminate.
    + cbn [items_of]. apply Hother; discriminate.
    + cbn [items_of]. apply Hother; discriminate.
    + cbn [items_of]. apply Hother; discriminate.
    + destruct (N.eqb r r') eqn:E.
      * apply N.eqb_eq in E. subst r'. rewrite (next_obs G s r rd Hinv Hr).
        destruct (nth_error (rd_seq rd) (rd_pos rd)) as [x|] eqn:Hx; cbn [items_of]; rewrite N.eqb_refl.
        -- destruct (IH _ r _ Hinv1 (next_state G s r rd x Hinv Hr Hx)) as [rest Hrest].
           cbn [rd_pos rd_seq] in Hrest. exists rest.
           rewrite (skipn_nth_cons _ _ _ Hx), Hrest. reflexivity.
        -- exists (skipn (rd_pos rd) (rd_seq rd)). reflexivity.
      * assert (Hne : r <> r') by (apply N.eqb_neq; exact E).
        assert (Hgoal : exists rest, skipn (rd_pos rd) (rd_seq rd)
                   = items_of r evs (snd (prun false G (fst (pstep false G s (PNext r'))) evs)) ++ rest).
        { apply Hother; intros Heq; inversion Heq; subst; apply Hne; reflexivity. }
        destruct (snd (pstep false G s (PNext r'))) as [| | |[x|]|]; cbn [items_of]; rewrite E; exact Hgoal.
    + destruct (N.eqb r r') eqn:E.
      * cbn [items_of]. rewrite E. exists (skipn (rd_pos rd) (rd_seq rd)). reflexivity.
      * assert (Hne : r <> r') by (apply N.eqb_neq; exact E).
        cbn [items_of]. rewrite E. apply Hother; intros Heq; inversion Heq; subst; apply Hne; reflexivity.
Qed.

(* ... and ALL of the rest if the reader runs to the end of its iteration *)
Lemma skipn_nth_none : forall (l : list N) n, nth_error l n = None -> skipn n l = [].
Proof.
  induction l as [|a l IH]; intros n H; destruct n; cbn in *; try reflexivity; try discriminate.
  apply IH, H.
Qed.

Theorem reader_trace_complete : forall G evs s r rd,
  inv_pool s -> pget (p_readers s) r = Some rd ->
  ended_in r evs (snd (prun false G s evs)) = true ->
  skipn (rd_pos rd) (rd_seq rd) = items_of r evs (snd (prun false G s evs)).
Proof.
  intros G evs. induction evs as [|e evs IH]; intros s r rd Hinv Hr Hend.
  - discriminate Hend.
  - rewrite prun_cons in *. cbn [snd] in *.
    assert (Hinv1 : inv_pool (fst (pstep false G s e))) by (apply step_inv, Hinv).
    assert (Hother : e <> PNext r -> e <> PClose r ->
              ended_in r evs (snd (prun false G (fst (pstep false G s e)) evs)) = true ->
              skipn (rd_pos rd) (rd_seq rd) = items_of r evs (snd (prun false G (fst (pstep false G s e)) evs))).
    { intros Hn Hc He. apply (IH _ r rd Hinv1); [|exact He]. apply other_event_keeps_reader; assumption. }
    destruct e as [k batch|k batch|k|r' k from|r'|r'].
    + cbn [items_of ended_in] in *. apply Hother; [discriminate|discriminate|exact Hend].
    + cbn [items_of ended_in] in *. apply Hother; [discriminate|discriminate|exact Hend].
    + cbn [items_of ended_in] in *. apply Hother; [discriminate|discriminate|exact Hend].
    + cbn [items_of ended_in] in *. apply Hother; [discriminate|discriminate|exact Hend].
    + destruct (N.eqb r r') eqn:E.
      * apply N.eqb_eq in E. subst r'. rewrite (next_obs G s r rd Hinv Hr) in *.
        destruct (nth_error (rd_seq rd) (rd_pos rd)) as [x|] eqn:Hx; cbn [items_of ended_in] in *; rewrite N.eqb_refl in *.
        -- rewrite (skipn_nth_cons _ _ _ Hx). f_equal.
           apply (IH _ r _ Hinv1 (next_state G s r rd x Hinv Hr Hx) Hend).
        -- apply skipn_nth_none, Hx.
      * assert (Hne : r <> r') by (apply N.eqb_neq; exact E).
        assert (Hn : PNext r' <> PNext r) by (intros Heq; inversion Heq; subst; apply Hne; reflexivity).
        assert (Hc : PNext r' <> PClose r) by discriminate.
        destruct (snd (pstep false G s (PNext r'))) as [| | |[x|]|]; cbn [items_of ended_in] in *;
          try rewrite E in *; apply (Hother Hn Hc Hend).
    + destruct (N.eqb r r') eqn:E.
      * cbn [items_of ended_in] in *. rewrite E in *. discriminate Hend.
      * assert (Hne : r <> r') by (apply N.eqb_neq; exact E).
        cbn [items_of ended_in] in *. rewrite E in *.
        apply Hother; [discriminate| intros Heq; inversion Heq; subst; apply Hne; reflexivity | exact Hend].
Qed.

(* opening a reader: the first change handed out and the record created *)
Theorem open_obs : forall G s r k from,
  pget (p_readers s) r = None ->
  let L := iter_ids (tget s k) in
  snd (pstep false G s (POpen r k from)) = OItem (nth_error L (find_pos from L)) /\
  (forall x, nth_error L (find_pos from L) = Some x ->
     exists b, pget (p_readers (fst (pstep false G s (POpen r k from)))) r = Some (mkRd b (S (find_pos from L)) k L)).
Proof.
  intros G s r k from Hr L. cbn [pstep]. rewrite Hr. fold L.
  destruct (take s) as [[b pool'] fresh']. rewrite hget_pset_same.
  destruct (nth_error L (find_pos from L)) as [x|] eqn:Hx; cbn [fst snd p_readers].
  - split; [reflexivity|]. intros x' _. exists b. rewrite pget_pset, N.eqb_refl. reflexivity.
  - split; [reflexivity|]. intros x' Hx'. discriminate.
Qed.

(* ---- frame: the state of tree k depends only on the events addressed to tree k (for both release disciplines) *)
Definition ops_of (G : list change) (k : N) (evs : list pev) : list tree_op :=
  flat_map (fun e => match e with
                     | PAdd k' b => if N.eqb k k' then [OpAdd (find_all G b)] else []
                     | PFast k' b => if N.eqb k k' then [OpAddFast (find_all G b)] else []
                     | _ => []
                     end) evs.

Lemma trees_borrow : forall s trees L, p_trees (borrow s trees L) = trees.
Proof. intros s trees L. unfold borrow. destruct (take s) as [[b p] f]. reflexivity. Qed.

Lemma tget_step : forall early G s e k,
  tget (fst (pstep early G s e)) k = fold_left apply_op (ops_of G k [e]) (tget s k).
Proof.
  intros early G s e k. unfold ops_of. cbn [flat_map]. rewrite app_nil_r.
  destruct e as [k' batch|k' batch|k'|r k' from|r|r]; cbn [pstep].
  - destruct (tree_add (tget s k') (find_all G batch)) as [[t' m] added] eqn:Ea. cbn [fst].
    assert (Ht : forall s', p_trees s' = pset (p_trees s) k' t' ->
                 tget s' k = fold_left apply_op (if N.eqb k k' then [OpAdd (find_all G batch)] else []) (tget s k)).
    { intros s' Hs'. unfold tget at 1. rewrite Hs', pget_pset. destruct (N.eqb k k') eqn:E.
      - apply N.eqb_eq in E. subst k'. cbn [fold_left apply_op]. rewrite Ea. reflexivity.
      - reflexivity. }
    destruct added; apply Ht; [reflexivity | apply trees_borrow].
  - destruct (tree_add_fast (tget s k') (find_all G batch)) as [t' ad] eqn:Ea. cbn [fst].
    assert (Ht : forall s', p_trees s' = pset (p_trees s) k' t' ->
                 tget s' k = fold_left apply_op (if N.eqb k k' then [OpAddFast (find_all G batch)] else []) (tget s k)).
    { intros s' Hs'. unfold tget at 1. rewrite Hs', pget_pset. destruct (N.eqb k k') eqn:E.
      - apply N.eqb_eq in E. subst k'. cbn [fold_left apply_op]. rewrite Ea. reflexivity.
      - reflexivity. }
    destruct batch; apply Ht; [reflexivity | apply trees_borrow].
  - destruct (root_nil (tget s k')); cbn [fst fold_left]; [reflexivity|].
    unfold tget. rewrite trees_borrow. reflexivity.
  - destruct (pget (p_readers s) r); [reflexivity|].
    destruct (take s) as [[b p] f]. destruct (nth_error _ _); reflexivity.
  - destruct (pget (p_readers s) r) as [rd|]; [|reflexivity]. destruct (nth_error _ _); reflexivity.
  - destruct (pget (p_readers s) r) as [rd|]; reflexivity.
Qed.

Theorem pool_frame : forall early G evs s k,
  tget (fst (prun early G s evs)) k = fold_left apply_op (ops_of G k evs) (tget s k).
Proof.
  intros early G evs. induction evs as [|e evs IH]; intros s k; [reflexivity|].
  rewrite prun_cons. cbn [fst]. rewrite IH, tget_step.
  change (e :: evs) with ([e] ++ evs). unfold ops_of. rewrite flat_map_app, fold_left_app. reflexivity.
Qed.

Corollary pool_tree_is_own_history : forall early G evs k,
  tget (fst (prun early G p_init evs)) k = run_ops (ops_of G k evs).
Proof. intros early G evs k. rewrite pool_frame. reflexivity. Qed.

(* ---- the property: what tree k presents to a reader — change by change, with arbitrary work on other trees (and on
   k itself) in between — is the canonical order of the set k held when the reader was opened; that set and order are
   determined by the additions to k alone. *)
Theorem presentation_private : forall G pre r k from post,
  let s := fst (prun false G p_init pre) in
  let t := run_ops (ops_of G k pre) in
  let L := iter_ids t in
  pget (p_readers s) r = None ->
  (t_att t <> [] -> L = order (t_att t) (t_root t)) /\
  snd (pstep false G s (POpen r k from)) = OItem (nth_error L (find_pos from L)) /\
  (forall x, nth_error L (find_pos from L) = Some x ->
     exists rest,
       skipn (S (find_pos from L)) L
       = items_of r post (snd (prun false G (fst (pstep false G s (POpen r k from))) post)) ++ rest).
Proof.
  intros G pre r k from post s t L Hr.
  assert (Ht : tget s k = t) by (apply pool_tree_is_own_history).
  split; [|split].
  - intros Hne. unfold L, iter_ids. unfold t in *. rewrite (incremental_canonical _ Hne). reflexivity.
  - destruct (open_obs G s r k from Hr) as [Ho _]. rewrite Ht in Ho. exact Ho.
  - intros x Hx. destruct (open_obs G s r k from Hr) as [_ Hrec]. rewrite Ht in Hrec.
    destruct (Hrec x Hx) as [b Hb].
    assert (Hinv : inv_pool (fst (pstep false G s (POpen r k from)))) by (apply step_inv, reachable_inv).
    destruct (reader_trace G post _ r _ Hinv Hb) as [rest Hrest]. cbn [rd_pos rd_seq] in Hrest.
    exists rest. exact Hrest.
Qed.

Theorem presentation_complete : forall G pre r k from post x,
  let s := fst (prun false G p_init pre) in
  let L := iter_ids (run_ops (ops_of G k pre)) in
  let obs := snd (prun false G (fst (pstep false G s (POpen r k from))) post) in
  pget (p_readers s) r = None ->
  nth_error L (find_pos from L) = Some x ->
  ended_in r post obs = true ->
  skipn (S (find_pos from L)) L = items_of r post obs.
Proof.
  intros G pre r k from post x s L obs Hr Hx Hend.
  assert (Ht : tget s k = run_ops (ops_of G k pre)) by (apply pool_tree_is_own_history).
  destruct (open_obs G s r k from Hr) as [_ Hrec]. rewrite Ht in Hrec.
  destruct (Hrec x Hx) as [b Hb].
  assert (Hinv : inv_pool (fst (pstep false G s (POpen r k from)))) by (apply step_inv, reachable_inv).
  exact (reader_trace_complete G post _ r _ Hinv Hb Hend).
Qed.
