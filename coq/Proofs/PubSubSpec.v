(* C17 — serving side: the model's outputs satisfy the declarative predicate [spec_C17_svc] for EVERY
   event sequence (simulation between the service state and the predicate's own state [pstate]).
   Plain stdlib style. *)
From Coq Require Import List NArith Bool Arith Lia FinFun.
Import ListNotations.
From AnySync Require Import Model.Trie Model.PubSub Proofs.TrieProofs Proofs.TrieValidate
  Proofs.PubSubBase Proofs.PubSubInv Proofs.PubSubStep Proofs.PubSubStep2 Proofs.PubSubThm Proofs.PubSubSub.

(* ------------------------------------------------------------------ boolean list toolkit *)

Lemma memN_in : forall x l, memN x l = true <-> In x l.
Proof.
  intros x l. unfold memN. rewrite existsb_exists. split.
  - intros (y & Hy & E). apply N.eqb_eq in E. subst. exact Hy.
  - intros H. exists x. split; [exact H|apply N.eqb_refl].
Qed.

Lemma nodupN_iff : forall l, nodupN l = true <-> NoDup l.
Proof.
  induction l as [|x l IH]; cbn.
  - split; [constructor|reflexivity].
  - change ((fix nd (l0 : list N) : bool := match l0 with [] => true | x0 :: r => negb (memN x0 r) && nd r end) l) with (nodupN l).
    rewrite andb_true_iff, negb_true_iff, IH. split.
    + intros [H1 H2]. constructor; [|exact H2]. rewrite <- memN_in. congruence.
    + intros H. inversion H; subst. split; [|assumption]. destruct (memN x l) eqn:E; [|reflexivity]. apply memN_in in E. contradiction.
Qed.

Lemma set_eqN_iff : forall a b, set_eqN a b = true <-> (forall x, In x a <-> In x b).
Proof.
  intros a b. unfold set_eqN. rewrite andb_true_iff, !forallb_forall. split.
  - intros [H1 H2] x. split; intros H; apply memN_in; auto.
  - intros H. split; intros x Hx; apply memN_in; apply H; exact Hx.
Qed.

Lemma dedupN_in : forall l x, In x (dedupN l) <-> In x l.
Proof.
  induction l as [|y l IH]; intros x; cbn; [reflexivity|].
  change ((fix dd (l0 : list N) : list N := match l0 with [] => [] | x0 :: r => if memN x0 r then dd r else x0 :: dd r end) l) with (dedupN l).
  destruct (memN y l) eqn:E.
  - rewrite IH. split; [auto|]. intros [->|H]; [apply memN_in; exact E|exact H].
  - cbn [In]. rewrite IH. reflexivity.
Qed.

Lemma nodup_len_eq : forall {A} (a b : list A), NoDup a -> NoDup b -> (forall x, In x a <-> In x b) -> length a = length b.
Proof.
  intros A a b Ha Hb H. apply Nat.le_antisymm; apply NoDup_incl_length; auto; intros x Hx; apply H; exact Hx.
Qed.

Lemma set_eq_str_iff : forall a b, set_eq_str a b = true <-> (forall x, In x a <-> In x b).
Proof.
  intros a b. unfold set_eq_str. rewrite andb_true_iff, !forallb_forall. split.
  - intros [H1 H2] x. split; intros H; apply mem_str_in; auto.
  - intros H. split; intros x Hx; apply mem_str_in; apply H; exact Hx.
Qed.

Lemma set_eq_tag_iff : forall a b, set_eq_tag a b = true <-> (forall x, In x a <-> In x b).
Proof.
  intros a b. unfold set_eq_tag. rewrite andb_true_iff, !forallb_forall. split.
  - intros [H1 H2] x. split; intros H; apply mem_tag_in; auto.
  - intros H. split; intros x Hx; apply mem_tag_in; apply H; exact Hx.
Qed.

Lemma dedup_str_in : forall l x, In x (dedup_str l) <-> In x l.
Proof.
  induction l as [|y l IH]; intros x; cbn [dedup_str]; [reflexivity|]. destruct (mem_str y l) eqn:E.
  - rewrite IH. split; [intros H; right; exact H|]. intros [->|H]; [apply mem_str_in; exact E|exact H].
  - cbn [In]. rewrite IH. reflexivity.
Qed.

Lemma dedup_str_nodup : forall l, NoDup (dedup_str l).
Proof.
  induction l as [|y l IH]; cbn [dedup_str]; [constructor|]. destruct (mem_str y l) eqn:E; [exact IH|].
  constructor; [|exact IH]. rewrite dedup_str_in. rewrite <- mem_str_in. congruence.
Qed.

Lemma triple_eqb_eq : forall a b : triple, triple_eqb a b = true <-> a = b.
Proof.
  intros [[a1 a2] a3] [[b1 b2] b3]. unfold triple_eqb, tr_sid, tr_space, tr_pat. cbn [fst snd].
  rewrite !andb_true_iff, !N.eqb_eq, str_eqb_eq. split; [intros [[H1 H2] H3]; congruence|intros H; inversion H; auto].
Qed.

Lemma mem_triple_in : forall t l, mem_triple t l = true <-> In t l.
Proof.
  intros t l. unfold mem_triple. rewrite existsb_exists. split.
  - intros (x & Hx & E). apply triple_eqb_eq in E. subst. exact Hx.
  - intros H. exists t. split; [exact H|apply triple_eqb_eq; reflexivity].
Qed.

Lemma mem_triple_filter : forall t f l, mem_triple t (filter f l) = mem_triple t l && f t.
Proof. intros. apply bool_ext. rewrite andb_true_iff, !mem_triple_in, filter_In. reflexivity. Qed.

Lemma memN_filter : forall x f l, memN x (filter f l) = memN x l && f x.
Proof. intros. apply bool_ext. rewrite andb_true_iff, !memN_in, filter_In. reflexivity. Qed.

Lemma reg_add_spec : forall sid space l reg,
  (forall t, mem_triple t (reg_add reg sid space l)
             = mem_triple t reg || (N.eqb (tr_sid t) sid && N.eqb (tr_space t) space && mem_str (tr_pat t) l))
  /\ (NoDup reg -> NoDup (reg_add reg sid space l)).
Proof.
  intros sid space. unfold reg_add. induction l as [|q l IH]; intros reg; cbn [fold_left].
  - split; [|auto]. intros t. cbn [mem_str]. rewrite andb_false_r, orb_false_r. reflexivity.
  - assert (Hq : forall t, triple_eqb t (sid, space, q) = N.eqb (tr_sid t) sid && N.eqb (tr_space t) space && str_eqb (tr_pat t) q).
    { intros [[t1 t2] t3]. reflexivity. }
    destruct (mem_triple (sid, space, q) reg) eqn:E.
    + destruct (IH reg) as [H1 H2]. split; [|exact H2]. intros t. rewrite H1. cbn [mem_str].
      destruct (triple_eqb t (sid, space, q)) eqn:Et.
      * apply triple_eqb_eq in Et. subst t. rewrite E. reflexivity.
      * rewrite Hq in Et. destruct (N.eqb (tr_sid t) sid), (N.eqb (tr_space t) space); cbn [andb] in *; try reflexivity.
        rewrite Et. reflexivity.
    + destruct (IH (reg ++ [(sid, space, q)])) as [H1 H2]. split.
      * intros t. rewrite H1. unfold mem_triple at 1. rewrite existsb_app. cbn [existsb]. rewrite orb_false_r.
        fold (mem_triple t reg). rewrite Hq. cbn [mem_str].
        destruct (mem_triple t reg), (N.eqb (tr_sid t) sid), (N.eqb (tr_space t) space), (str_eqb (tr_pat t) q); reflexivity.
      * intros ND. apply H2. apply nodup_snoc; [exact ND|]. rewrite <- mem_triple_in. congruence.
Qed.

(* ------------------------------------------------------------------ the simulation relation *)

Record rel (s : svc) (p : pstate) : Prop := mkRel {
  r_accts : p_accts p = sv_conns s;
  r_mem : p_mem p = sv_members s;
  r_passed : p_passed p = sv_rate s;
  r_pooled : forall x, memN x (p_pooled p) = in_pool s x;
  r_pooled_nd : NoDup (p_pooled p);
  r_reg : forall sid sp q, mem_triple (sid, sp, q) (p_reg p) = has s sid sp q;
  r_reg_nd : NoDup (p_reg p)
}.

Lemma rel_init : rel svc_init p_init.
Proof. constructor; cbn; auto; constructor. Qed.

Lemma in_pool_nset : forall s x sid tags,
  (match nassoc x (nset sid tags (sv_pool s)) with Some _ => true | None => false end) = N.eqb x sid || in_pool s x.
Proof.
  intros. unfold in_pool. destruct (N.eqb x sid) eqn:E.
  - apply N.eqb_eq in E. subst. rewrite nassoc_nset_same. reflexivity.
  - apply N.eqb_neq in E. rewrite nassoc_nset_other by congruence. reflexivity.
Qed.

(* ------------------------------------------------------------------ Subscribe, exactly *)

Lemma sub_loop_parts : forall c pats sp total tr acc sp' total' tr' acc' rej,
  sub_loop c pats sp total tr acc = (sp', total', tr', acc', rej) ->
  exists pre added, pats = pre ++ rej /\ acc' = acc ++ added /\ sp' = sp ++ added
    /\ (forall p, In p pre -> In p sp') /\ (forall p, In p added -> In p pre).
Proof.
  intros c pats. induction pats as [|p r IH]; intros sp total tr acc sp' total' tr' acc' rej E; cbn [sub_loop] in E.
  - inversion E; subst. exists [], []. rewrite !app_nil_r. repeat split; auto; intros p [].
  - destruct (mem_str p sp) eqn:EM.
    + destruct (IH _ _ _ _ _ _ _ _ _ E) as (pre & added & H1 & H2 & H3 & H4 & H5).
      exists (p :: pre), added. split; [cbn [app]; rewrite H1; reflexivity|]. split; [exact H2|]. split; [exact H3|]. split.
      * intros q [<-|Hq]; [rewrite H3; apply in_app_iff; left; apply mem_str_in; exact EM|auto].
      * intros q Hq. right. auto.
    + destruct (N.leb (max_space c) (N.of_nat (length sp)) || N.leb (max_stream c) total).
      * inversion E; subst. exists [], []. rewrite !app_nil_r. repeat split; auto; intros q [].
      * destruct (IH _ _ _ _ _ _ _ _ _ E) as (pre & added & H1 & H2 & H3 & H4 & H5).
        exists (p :: pre), (p :: added). rewrite <- !app_assoc in *. cbn [app] in *.
        split; [rewrite H1; reflexivity|]. split; [exact H2|]. split; [exact H3|]. split.
        -- intros q [<-|Hq]; [rewrite H3; apply in_app_iff; right; left; reflexivity|auto].
        -- intros q [<-|Hq]; [left; reflexivity|right; auto].
Qed.

Definition sub_elig (c : cfg) (s : svc) (acct space : N) (pats : list str) : bool :=
  memN space (resp c) && forallb validate_pattern pats && is_member s space acct.

Lemma sub_exact : forall c s sid space pats acct, Inv s -> nassoc sid (sv_conns s) = Some acct ->
  let s' := fst (handle_sub c s sid space pats) in
  let o := snd (handle_sub c s sid space pats) in
  sv_conns s' = sv_conns s /\ sv_members s' = sv_members s /\ sv_rate s' = sv_rate s
  /\ (forall x, in_pool s' x = in_pool s x)
  /\ if sub_elig c s acct space pats then
       exists pre rejected, pats = pre ++ rejected
         /\ o = (if is_nil rejected then ONone else reply s sid (OStatus TooManyTopics rejected))
         /\ forall sigma sp0 q, has s' sigma sp0 q
              = has s sigma sp0 q || (in_pool s sid && N.eqb sigma sid && N.eqb sp0 space && mem_str q pre)
     else s' = s /\ exists code, o = reply s sid (OStatus code pats) /\ N.eqb code TooManyTopics = false.
Proof.
  intros c s sid space pats acct HI EC. pose proof HI as [HC HT]. cbv zeta.
  pose proof (inv_sub c s sid space pats HI) as HI'. unfold handle_sub, handle_sub_gen in HI'.
  unfold sub_elig, handle_sub, handle_sub_gen. rewrite EC in *.
  destruct (memN space (resp c)); cbn [negb andb fst snd] in *;
    [|split; [reflexivity|split; [reflexivity|split; [reflexivity|split; [reflexivity|split; [reflexivity|exists NotResponsible; split; reflexivity]]]]]].
  destruct (forallb validate_pattern pats) eqn:EV; cbn [negb andb fst snd] in *;
    [|split; [reflexivity|split; [reflexivity|split; [reflexivity|split; [reflexivity|split; [reflexivity|exists InvalidTopic; split; reflexivity]]]]]].
  destruct (is_member s space acct); cbn [negb fst snd] in *;
    [|split; [reflexivity|split; [reflexivity|split; [reflexivity|split; [reflexivity|split; [reflexivity|exists NotAMember; split; reflexivity]]]]]].
  pose proof (sub_noop_remote s space HT) as NoopR. pose proof (sub_noop_streams s sid space acct HC) as NoopS.
  pose proof (trie_of_space s space HT) as HTtr. cbv zeta in NoopR, NoopS.
  set (tr := match nassoc space (sv_remote s) with Some t => t | None => trie_empty end) in *.
  assert (Hst : exists st, st = match nassoc sid (sv_streams s) with Some x => x | None => mkSS acct [] 0 end
                 /\ (forall sp0 q, has s sid sp0 q = st_has st sp0 q)
                 /\ exists sp, sp = match nassoc space (ss_by st) with Some l => l | None => [] end
                      /\ NoDup sp /\ (forall q, st_has st space q = mem_str q sp)).
  { unfold has. destruct (nassoc sid (sv_streams s)) as [x|] eqn:E.
    - exists x. split; [reflexivity|split; [reflexivity|]]. destruct (c_rec s HC sid x E) as ([(_ & HL & _) _] & _ & _).
      unfold st_has. destruct (nassoc space (ss_by x)) as [l|] eqn:El.
      + exists l. split; [reflexivity|split; [apply (HL space l El)|reflexivity]].
      + exists []. split; [reflexivity|split; [constructor|reflexivity]].
    - exists (mkSS acct [] 0). split; [reflexivity|split; [reflexivity|]]. exists []. split; [reflexivity|split; [constructor|reflexivity]]. }
  destruct Hst as (st & Est & Hhas & sp & Esp & NDsp & Hhas_sp). rewrite <- Est in *. rewrite <- Esp in *. clear Est Esp.
  destruct (sub_loop c pats sp (ss_total st) tr []) as [[[[sp' total'] tr'] accepted] rejected] eqn:ES.
  destruct (sub_loop_spec _ _ _ _ _ _ _ _ _ _ _ _ NDsp HTtr ES) as (added & Ha & Hsp' & Htot' & NDsp' & Hsub & HTtr' & Hnil).
  destruct (sub_loop_parts _ _ _ _ _ _ _ _ _ _ _ ES) as (pre & added2 & Hpats & Ha2 & Hsp2 & Hpre & Hadd).
  cbn [app] in Ha, Ha2. subst accepted. subst added2. clear Hsp2.
  assert (Hmem : forall q, mem_str q sp || mem_str q added = mem_str q sp || mem_str q pre).
  { intros q. apply bool_ext. rewrite !orb_true_iff, !mem_str_in. split.
    - intros [H|H]; [left; exact H|right; apply Hadd; exact H].
    - intros [H|H]; [left; exact H|]. apply Hpre in H. rewrite Hsp' in H. apply in_app_iff in H. exact H. }
  destruct added as [|a0 added0] eqn:Eadded.
  - cbn [is_nil fst snd] in *. rewrite app_nil_r in Hsp'. subst sp'. rewrite N.add_0_r in Htot'. subst total'.
    rewrite (Hnil eq_refl). rewrite NoopR.
    replace (prune_stream _ sid _) with (sv_streams s) by (symmetry; exact NoopS).
    rewrite svc_eta. split; [reflexivity|split; [reflexivity|split; [reflexivity|split; [reflexivity|]]]].
    exists pre, rejected. split; [exact Hpats|split; [reflexivity|]]. intros sigma sp0 q.
    destruct (N.eqb sigma sid) eqn:E1; [|rewrite andb_false_r; cbn [andb]; rewrite orb_false_r; reflexivity].
    destruct (N.eqb sp0 space) eqn:E2; [|rewrite andb_false_r; cbn [andb]; rewrite orb_false_r; reflexivity].
    apply N.eqb_eq in E1. apply N.eqb_eq in E2. subst sigma sp0. rewrite Hhas, Hhas_sp.
    specialize (Hmem q). cbn [mem_str] in Hmem. rewrite orb_false_r in Hmem.
    destruct (in_pool s sid); cbn [andb]; [exact Hmem|rewrite orb_false_r; reflexivity].
  - rewrite <- Eadded in *. assert (Eis : is_nil added = false) by (rewrite Eadded; reflexivity). rewrite Eis in *.
    set (st1 := mkSS (ss_account st) (nset space sp' (ss_by st)) total') in *.
    assert (Hst1_has : forall sp0 q, st_has st1 sp0 q
                        = if N.eqb sp0 space then mem_str q sp || mem_str q added else st_has st sp0 q).
    { intros sp0 q. unfold st_has, st1. cbn [ss_by]. destruct (N.eqb sp0 space) eqn:E0.
      - apply N.eqb_eq in E0. subst sp0. rewrite nassoc_nset_same, Hsp'. apply mem_str_app.
      - apply N.eqb_neq in E0. rewrite nassoc_nset_other by congruence. reflexivity. }
    destruct (nassoc sid (sv_pool s)) as [tags|] eqn:EP; cbn [fst snd] in *.
    + assert (Hp : in_pool s sid = true) by (unfold in_pool; rewrite EP; reflexivity).
      split; [reflexivity|split; [reflexivity|split; [reflexivity|split]]].
      * intros x. unfold in_pool at 1. cbn [sv_pool]. rewrite in_pool_nset. destruct (N.eqb x sid) eqn:E; [|reflexivity].
        apply N.eqb_eq in E. subst. rewrite Hp. reflexivity.
      * exists pre, rejected. split; [exact Hpats|split; [reflexivity|]]. intros sigma sp0 q. rewrite Hp. cbn [andb].
        unfold has at 1. cbn [sv_streams]. destruct (N.eqb sigma sid) eqn:E1; cbn [andb].
        -- apply N.eqb_eq in E1. subst sigma. rewrite nassoc_nset_same. cbn [ohas]. rewrite Hst1_has, Hhas.
           destruct (N.eqb sp0 space) eqn:E2; cbn [andb]; [|rewrite orb_false_r; reflexivity].
           apply N.eqb_eq in E2. subst sp0. rewrite Hhas_sp. apply Hmem.
        -- apply N.eqb_neq in E1. rewrite nassoc_nset_other by congruence. rewrite orb_false_r. reflexivity.
    + assert (Hnp : in_pool s sid = false) by (unfold in_pool; rewrite EP; reflexivity).
      assert (ENone : nassoc sid (sv_streams s) = None).
      { destruct (nassoc sid (sv_streams s)) as [x|] eqn:E; [|reflexivity].
        destruct (c_rec s HC sid x E) as (_ & Hp & _). congruence. }
      destruct (remove_patterns st1 tr' space added []) as [[st2 tr2] rem2] eqn:ER. cbn [fst snd] in *.
      set (s2 := mkSvc _ _ _ _ _ _) in *.
      assert (Hsame : forall sigma sp0 q, has s2 sigma sp0 q = has s sigma sp0 q).
      { intros sigma sp0 q. destruct (N.eq_dec sid sigma) as [<-|Hne].
        - destruct (has s2 sid sp0 q) eqn:E2.
          + destruct (has_record_conn s2 sid sp0 q HI' E2) as (_ & _ & _ & _ & Hp2).
            unfold in_pool, s2 in Hp2. cbn [sv_pool] in Hp2. unfold in_pool in Hnp. congruence.
          + unfold has. rewrite ENone. reflexivity.
        - unfold has, s2. cbn [sv_streams]. rewrite prune_stream_other by exact Hne. rewrite nassoc_nset_other by exact Hne. reflexivity. }
      split; [reflexivity|split; [reflexivity|split; [reflexivity|split; [reflexivity|]]]].
      exists pre, rejected. split; [exact Hpats|split; [reflexivity|]]. intros sigma sp0 q.
      rewrite Hsame, Hnp. cbn [andb]. rewrite orb_false_r. reflexivity.
Qed.

(* ------------------------------------------------------------------ frame facts of the other handlers *)

Lemma in_pool_remove_tags : forall pool sid gone x,
  (match nassoc x (pool_remove_tags pool sid gone) with Some _ => true | None => false end)
  = (match nassoc x pool with Some _ => true | None => false end).
Proof.
  intros. destruct (N.eq_dec sid x) as [<-|Hne].
  - rewrite pool_remove_tags_same. destruct (nassoc sid pool); reflexivity.
  - rewrite pool_remove_tags_other by exact Hne. reflexivity.
Qed.

Lemma unsub_frame : forall s sid space pats,
  let s' := handle_unsub s sid space pats in
  sv_conns s' = sv_conns s /\ sv_members s' = sv_members s /\ sv_rate s' = sv_rate s
  /\ forall x, in_pool s' x = in_pool s x.
Proof.
  intros s sid space pats. cbv zeta. unfold handle_unsub.
  destruct (nassoc sid (sv_conns s)); [|auto].
  destruct (nassoc sid (sv_streams s)); [|auto].
  destruct (nassoc space (sv_remote s)); [|auto].
  destruct (remove_patterns _ _ _ _ _) as [[st2 tr2] r2]. cbn [sv_conns sv_members sv_rate].
  repeat split. intros x. unfold in_pool. cbn [sv_pool]. apply in_pool_remove_tags.
Qed.

Lemma pool_remove_frame : forall s sid,
  let s' := pool_remove s sid in
  sv_conns s' = sv_conns s /\ sv_members s' = sv_members s /\ sv_rate s' = sv_rate s
  /\ forall x, in_pool s' x = in_pool s x && negb (N.eqb x sid).
Proof.
  intros s sid. cbv zeta. unfold pool_remove. destruct (in_pool s sid) eqn:EP.
  - rewrite on_stream_close_unfold. cbn [sv_streams sv_remote sv_pool sv_conns sv_members sv_rate].
    assert (H : forall x, in_pool (mkSvc (sv_remote s) (sv_streams s) (ndel sid (sv_pool s)) (sv_conns s) (sv_members s) (sv_rate s)) x
                          = in_pool s x && negb (N.eqb x sid)).
    { intros x. unfold in_pool. cbn [sv_pool]. destruct (N.eqb x sid) eqn:E.
      - apply N.eqb_eq in E. subst. rewrite nassoc_ndel_same, andb_false_r. reflexivity.
      - apply N.eqb_neq in E. rewrite nassoc_ndel_other by congruence. rewrite andb_true_r. reflexivity. }
    destruct (nassoc sid (sv_streams s)); cbn [sv_conns sv_members sv_rate]; repeat split; exact H.
  - repeat split. intros x. destruct (N.eqb x sid) eqn:E; [|rewrite andb_true_r; reflexivity].
    apply N.eqb_eq in E. subst. rewrite EP. reflexivity.
Qed.

Lemma ev_fold_pool : forall space evict wt l a x,
  (match nassoc x (snd (fst (fold_left (ev_body space evict wt) l a))) with Some _ => true | None => false end)
  = (match nassoc x (snd (fst a)) with Some _ => true | None => false end).
Proof.
  intros space evict wt. induction l as [|e l IH]; intros a x; cbn [fold_left]; [reflexivity|].
  rewrite IH. destruct a as [[strs pool] tro]. unfold ev_body. cbn [fst snd].
  destruct (nassoc space (ss_by (snd e))); [|reflexivity].
  destruct (is_nil l0 || negb (evict (ss_account (snd e)))); [reflexivity|]. cbn [fst snd]. apply in_pool_remove_tags.
Qed.

Lemma evict_in_pool : forall s space evict wt x, in_pool (evict_streams s space evict wt) x = in_pool s x.
Proof.
  intros. rewrite evict_streams_unfold. unfold in_pool.
  pose proof (ev_fold_pool space evict wt (sv_streams s) (sv_streams s, sv_pool s, nassoc space (sv_remote s)) x) as H.
  destruct (fold_left _ _ _) as [[a b] d]. cbn [fst snd sv_pool] in *. exact H.
Qed.

Lemma evict_has_exact : forall s space evict wt, Inv s -> (wt = true \/ forall a, evict a = true) ->
  forall sigma sp0 q,
  has (evict_streams s space evict wt) sigma sp0 q
  = has s sigma sp0 q && negb (N.eqb sp0 space && match nassoc sigma (sv_conns s) with Some a => evict a | None => false end).
Proof.
  intros s space evict wt HI Hm sigma sp0 q.
  destruct (evict_result s space evict wt HI Hm) as (HI' & Econ & _ & _ & Hmono & Hdone & Hkeep).
  apply bool_ext. rewrite andb_true_iff, negb_true_iff. split.
  - intros H. split; [apply Hmono; exact H|].
    destruct (N.eqb sp0 space) eqn:E0; [|reflexivity]. apply N.eqb_eq in E0. subst sp0. cbn [andb].
    destruct (nassoc sigma (sv_conns s)) as [a|] eqn:Ec; [|reflexivity].
    destruct (evict a) eqn:Ee; [|reflexivity].
    rewrite (evict_kills s space evict wt sigma q a HI Hm Ec Ee) in H. discriminate.
  - intros [H1 H2]. apply Hkeep; [exact H1|].
    destruct (N.eqb sp0 space) eqn:E0; [|left; apply N.eqb_neq; exact E0]. right. cbn [andb] in H2.
    destruct (has_record_conn s sigma sp0 q HI H1) as (st & Hs & _ & Hc & _). exists st. split; [exact Hs|].
    rewrite Hc in H2. exact H2.
Qed.

(* ------------------------------------------------------------------ little facts used by the predicate *)

Lemma strs_inner_refl : forall a : list str,
  (fix eq (a b : list str) := match a, b with
                              | [], [] => true
                              | x :: a', y :: b' => str_eqb x y && eq a' b'
                              | _, _ => false
                              end) a a = true.
Proof. induction a as [|x a IH]; [reflexivity|]. rewrite str_eqb_refl. exact IH. Qed.

Lemma is_suffix_app : forall pre rej, is_suffix rej (pre ++ rej) = true.
Proof.
  induction pre as [|x pre IH]; intros rej.
  - cbn [app]. destruct rej as [|y rej]; [reflexivity|]. cbn [is_suffix]. rewrite Nat.eqb_refl. rewrite str_eqb_refl. apply strs_inner_refl.
  - cbn [app is_suffix]. assert (E : Nat.eqb (length rej) (length (x :: pre ++ rej)) = false).
    { apply Nat.eqb_neq. cbn [length]. rewrite app_length. lia. }
    rewrite E. apply IH.
Qed.

Lemma firstn_pre : forall (pre rej : list str), firstn (length (pre ++ rej) - length rej) (pre ++ rej) = pre.
Proof.
  intros. rewrite app_length. replace (length pre + length rej - length rej) with (length pre) by lia.
  rewrite firstn_app, Nat.sub_diag, firstn_all. cbn [firstn]. apply app_nil_r.
Qed.

Lemma forallb_valid_spec : forall pats, forallb spec_valid_pattern pats = forallb validate_pattern pats.
Proof. induction pats as [|p l IH]; cbn [forallb]; [reflexivity|]. rewrite IH, validate_pattern_iff. reflexivity. Qed.

Lemma last_in : forall {A} (l : list A) d, l <> [] -> In (last l d) l.
Proof.
  induction l as [|x l IH]; intros d H; [congruence|]. destruct l as [|y l]; [left; reflexivity|].
  right. apply IH. discriminate.
Qed.

Lemma owner_equiv : forall c topic acct, validate_topic topic = true ->
  spec_owner_ok c topic acct
  = is_nil (topic_owner topic) || str_eqb (topic_owner topic) (name_of c acct).
Proof.
  intros c topic acct HV. unfold spec_owner_ok, topic_owner. rewrite (valid_topic_split topic HV).
  assert (Hne : forallb (fun s : str => negb (is_nil s)) (full_split topic) = true).
  { unfold validate_topic, validate_segments in HV. rewrite (valid_topic_split topic) in HV.
    - rewrite !andb_true_iff in HV. apply HV.
    - unfold validate_topic, validate_segments. exact HV. }
  destruct (full_split topic) as [|s0 [|s1 r]] eqn:E; [reflexivity|reflexivity|].
  destruct (str_eqb s0 acc_seg); [|reflexivity].
  assert (Hl : is_nil (last (s0 :: s1 :: r) []) = false).
  { rewrite forallb_forall in Hne. assert (Hnn : s0 :: s1 :: r <> []) by discriminate.
    specialize (Hne (last (s0 :: s1 :: r) []) (last_in (s0 :: s1 :: r) [] Hnn)).
    apply negb_true_iff in Hne. exact Hne. }
  rewrite Hl. reflexivity.
Qed.

(* ------------------------------------------------------------------ one step of the simulation *)

Definition sim (c : cfg) (s : svc) (p : pstate) (e : ev) : Prop :=
  exists p', spec_step c p e (snd (svc_step c s e)) = (true, p') /\ rel (fst (svc_step c s e)) p'.

Lemma p_member_eq : forall s p space acct, p_mem p = sv_members s -> p_member p space acct = is_member s space acct.
Proof. intros s p space acct H. unfold p_member, is_member. rewrite H. reflexivity. Qed.

Lemma sim_open : forall c s p sid acct, Inv s -> rel s p -> nassoc sid (sv_conns s) = None ->
  sim c s p (EOpen sid acct).
Proof.
  intros c s p sid acct HI [R1 R2 R3 R4 R5 R6 R7] Hf. unfold sim, svc_step, svc_step_gen. cbn [fst snd spec_step].
  eexists. split; [reflexivity|]. constructor; cbn [p_accts p_mem p_passed p_pooled p_reg sv_conns sv_members sv_rate]; auto.
  - rewrite R1. reflexivity.
  - intros x. unfold in_pool at 1. cbn [sv_pool]. rewrite in_pool_nset.
    change (memN x (sid :: filter (fun x0 => negb (N.eqb x0 sid)) (p_pooled p)))
      with (N.eqb x sid || memN x (filter (fun x0 => negb (N.eqb x0 sid)) (p_pooled p))).
    rewrite memN_filter, R4. destruct (N.eqb x sid), (in_pool s x); reflexivity.
  - constructor; [|apply NoDup_filter; exact R5]. intros H. apply filter_In in H. destruct H as [_ H].
    rewrite N.eqb_refl in H. discriminate.
Qed.

Lemma sim_sub : forall c s p sid space pats, Inv s -> rel s p -> sim c s p (ESub sid space pats).
Proof.
  intros c s p sid space pats HI HR. pose proof HR as [R1 R2 R3 R4 R5 R6 R7]. unfold sim, svc_step, svc_step_gen.
  fold (handle_sub c s sid space pats). cbn [spec_step]. unfold spec_sub. rewrite R1.
  destruct (nassoc sid (sv_conns s)) as [acct|] eqn:EC.
  2:{ unfold handle_sub, handle_sub_gen. rewrite EC. cbn [fst snd]. eexists. split; [reflexivity|exact HR]. }
  destruct (sub_exact c s sid space pats acct HI EC) as (Ec & Em & Er & Hip & Hcase).
  rewrite forallb_valid_spec, (p_member_eq s p space acct R2), R4. fold (sub_elig c s acct space pats).
  assert (Rel' : forall reg' accts', accts' = sv_conns s -> NoDup reg' ->
            (forall sigma sp0 q, mem_triple (sigma, sp0, q) reg' = has (fst (handle_sub c s sid space pats)) sigma sp0 q) ->
            rel (fst (handle_sub c s sid space pats)) (mkP reg' accts' (p_pooled p) (p_mem p) (p_passed p))).
  { intros reg' accts' Ea ND Hreg. constructor; cbn [p_accts p_mem p_passed p_pooled p_reg]; congruence. }
  destruct (sub_elig c s acct space pats).
  - destruct Hcase as (pre & rejected & Hpats & Ho & Hhas). rewrite Ho.
    destruct rejected as [|r0 rej] eqn:Erej; cbn [is_nil].
    + rewrite app_nil_r in Hpats. subst pre. destruct (in_pool s sid) eqn:Eip.
      * eexists. split; [reflexivity|]. destruct (reg_add_spec sid space pats (p_reg p)) as [Hm Hn].
        apply Rel'; [first [reflexivity|exact R1]|apply Hn; exact R7|]. intros sigma sp0 q. rewrite Hm, Hhas, R6. reflexivity.
      * eexists. split; [reflexivity|]. replace p with (mkP (p_reg p) (p_accts p) (p_pooled p) (p_mem p) (p_passed p)) by (destruct p; reflexivity).
        apply Rel'; [first [reflexivity|exact R1]|exact R7|]. intros sigma sp0 q. rewrite Hhas, R6. cbn [andb]. rewrite orb_false_r. reflexivity.
    + assert (Enil : is_nil (r0 :: rej) = false) by reflexivity. rewrite <- Erej in *. unfold reply. destruct (in_pool s sid) eqn:Eip.
      * assert (Esuf : is_suffix rejected pats = true) by (rewrite Hpats; apply is_suffix_app).
        assert (Efst : firstn (length pats - length rejected) pats = pre) by (rewrite Hpats; apply firstn_pre).
        cbn [N.eqb TooManyTopics Pos.eqb]. rewrite Esuf, Efst, Enil. cbn [negb andb].
        eexists. split; [reflexivity|]. destruct (reg_add_spec sid space pre (p_reg p)) as [Hm Hn].
        apply Rel'; [first [reflexivity|exact R1]|apply Hn; exact R7|]. intros sigma sp0 q. rewrite Hm, Hhas, R6. reflexivity.
      * eexists. split; [reflexivity|]. replace p with (mkP (p_reg p) (p_accts p) (p_pooled p) (p_mem p) (p_passed p)) by (destruct p; reflexivity).
        apply Rel'; [first [reflexivity|exact R1]|exact R7|]. intros sigma sp0 q. rewrite Hhas, R6. cbn [andb]. rewrite orb_false_r. reflexivity.
  - destruct Hcase as (Hs & code & Ho & Hcode). rewrite Ho, Hs. unfold reply. destruct (in_pool s sid) eqn:Eip.
    + rewrite Hcode. cbn [negb andb]. eexists. split; [reflexivity|exact HR].
    + eexists. split; [reflexivity|exact HR].
Qed.

Lemma sim_unsub : forall c s p sid space pats, Inv s -> rel s p -> sim c s p (EUnsub sid space pats).
Proof.
  intros c s p sid space pats HI HR. pose proof HR as [R1 R2 R3 R4 R5 R6 R7]. unfold sim, svc_step, svc_step_gen.
  cbn [fst snd spec_step]. rewrite R1.
  destruct (nassoc sid (sv_conns s)) as [acct|] eqn:EC.
  2:{ unfold handle_unsub. rewrite EC. eexists. split; [reflexivity|exact HR]. }
  eexists. split; [reflexivity|]. destruct (unsub_frame s sid space pats) as (Ec & Em & Er & Hip).
  constructor; cbn [p_accts p_mem p_passed p_pooled p_reg]; try congruence.
  - intros sigma sp0 q. rewrite mem_triple_filter, R6, has_unsub by exact HI. reflexivity.
  - apply NoDup_filter. exact R7.
Qed.

Lemma sim_close : forall c s p sid, Inv s -> rel s p -> sim c s p (EClose sid).
Proof.
  intros c s p sid HI HR. pose proof HR as [R1 R2 R3 R4 R5 R6 R7]. unfold sim, svc_step, svc_step_gen.
  cbn [fst snd spec_step]. eexists. split; [reflexivity|]. destruct (pool_remove_frame s sid) as (Ec & Em & Er & Hip).
  constructor; cbn [p_accts p_mem p_passed p_pooled p_reg].
  - unfold drop_conn. cbn [sv_conns]. rewrite Ec, R1. reflexivity.
  - unfold drop_conn. cbn [sv_members]. congruence.
  - unfold drop_conn. cbn [sv_rate]. congruence.
  - intros x. rewrite memN_filter, R4.
    change (in_pool (drop_conn (pool_remove s sid) sid) x) with (in_pool (pool_remove s sid) x). rewrite Hip. reflexivity.
  - apply NoDup_filter. exact R5.
  - intros sigma sp0 q. rewrite mem_triple_filter, R6.
    change (has (drop_conn (pool_remove s sid) sid) sigma sp0 q) with (has (pool_remove s sid) sigma sp0 q).
    rewrite has_pool_remove by exact HI. reflexivity.
  - apply NoDup_filter. exact R7.
Qed.

Lemma sim_break : forall c s p sid, Inv s -> rel s p -> sim c s p (EBreak sid).
Proof.
  intros c s p sid HI HR. pose proof HR as [R1 R2 R3 R4 R5 R6 R7]. unfold sim, svc_step, svc_step_gen.
  cbn [fst snd spec_step]. eexists. split; [reflexivity|]. destruct (pool_remove_frame s sid) as (Ec & Em & Er & Hip).
  constructor; cbn [p_accts p_mem p_passed p_pooled p_reg]; try congruence.
  - intros x. rewrite memN_filter, R4, Hip. reflexivity.
  - apply NoDup_filter. exact R5.
  - intros sigma sp0 q. rewrite mem_triple_filter, R6, has_pool_remove by exact HI. reflexivity.
  - apply NoDup_filter. exact R7.
Qed.

Lemma sim_evict_gen : forall s p space evict wt (f : triple -> bool), Inv s -> rel s p ->
  (wt = true \/ forall a, evict a = true) ->
  (forall sigma sp0 q a, nassoc sigma (sv_conns s) = Some a ->
     f (sigma, sp0, q) = negb (N.eqb sp0 space && evict a)) ->
  rel (evict_streams s space evict wt) (mkP (filter f (p_reg p)) (p_accts p) (p_pooled p) (p_mem p) (p_passed p)).
Proof.
  intros s p space evict wt f HI HR Hm Hf. pose proof HR as [R1 R2 R3 R4 R5 R6 R7].
  destruct (evict_result s space evict wt HI Hm) as (_ & Ec & Emm & Er & _).
  constructor; cbn [p_accts p_mem p_passed p_pooled p_reg]; try congruence.
  - intros x. rewrite evict_in_pool. apply R4.
  - intros sigma sp0 q. rewrite mem_triple_filter, R6, (evict_has_exact s space evict wt HI Hm).
    destruct (has s sigma sp0 q) eqn:E; [|reflexivity]. cbn [andb].
    destruct (has_record_conn s sigma sp0 q HI E) as (st & _ & _ & Hc & _). rewrite Hc. apply (Hf sigma sp0 q _ Hc).
  - apply NoDup_filter. exact R7.
Qed.

Lemma sim_evict : forall c s p space acct, Inv s -> rel s p -> sim c s p (EEvict space acct).
Proof.
  intros c s p space acct HI HR. unfold sim, svc_step, svc_step_gen. cbn [fst snd spec_step].
  eexists. split; [reflexivity|]. apply sim_evict_gen; [exact HI|exact HR|left; reflexivity|].
  intros sigma sp0 q a Hc. unfold tr_space, tr_sid. cbn [fst snd]. rewrite (r_accts s p HR), Hc, (N.eqb_sym a acct). reflexivity.
Qed.

Lemma sim_revalidate : forall c s p space, Inv s -> rel s p -> sim c s p (ERevalidate space).
Proof.
  intros c s p space HI HR. unfold sim, svc_step, svc_step_gen. cbn [fst snd spec_step].
  eexists. split; [reflexivity|]. apply (sim_evict_gen s p space (fun a => negb (is_member s space a)) true); [exact HI|exact HR|left; reflexivity|].
  intros sigma sp0 q a Hc. unfold tr_space, tr_sid. cbn [fst snd]. rewrite (r_accts s p HR), Hc, (p_member_eq s p space a (r_mem s p HR)). reflexivity.
Qed.

Lemma sim_closespace : forall c s p space, Inv s -> rel s p -> sim c s p (ECloseSpace space).
Proof.
  intros c s p space HI HR. unfold sim, svc_step, svc_step_gen. cbn [fst snd spec_step].
  eexists. split; [reflexivity|]. apply (sim_evict_gen s p space (fun _ => true) false); [exact HI|exact HR|right; reflexivity|].
  intros sigma sp0 q a Hc. unfold tr_space. cbn [fst snd]. rewrite andb_true_r. reflexivity.
Qed.

Lemma sim_setmember : forall c s p space acct b, rel s p -> sim c s p (ESetMember space acct b).
Proof.
  intros c s p space acct b HR. pose proof HR as [R1 R2 R3 R4 R5 R6 R7]. unfold sim, svc_step, svc_step_gen, set_member.
  cbn [fst snd spec_step]. eexists. split; [reflexivity|].
  constructor; cbn [p_accts p_mem p_passed p_pooled p_reg sv_conns sv_members sv_rate]; auto. rewrite R2. reflexivity.
Qed.

(* ------------------------------------------------------------------ publish *)

Lemma expected_ok : forall s p space topic, Inv s -> rel s p -> validate_topic topic = true ->
  nodupN (fanout s space topic) = true
  /\ set_eqN (fanout s space topic) (expected_delivery p space topic) = true.
Proof.
  intros s p space topic HI HR HV. destruct (fanout_spec s space topic HI) as [ND Hf].
  split; [apply nodupN_iff; exact ND|]. apply set_eqN_iff. intros sigma. rewrite Hf.
  unfold expected_delivery. rewrite filter_In, <- memN_in, (r_pooled s p HR), existsb_exists.
  split.
  - intros (Hp & q & Hh & Hm). split; [exact Hp|]. exists (sigma, space, q). split.
    + apply mem_triple_in. rewrite (r_reg s p HR). exact Hh.
    + unfold tr_sid, tr_space, tr_pat. cbn [fst snd]. rewrite !N.eqb_refl. cbn [andb].
      unfold spec_matches. rewrite <- (valid_pattern_split q (has_valid _ _ _ _ HI Hh)), <- (valid_topic_split topic HV). exact Hm.
  - intros (Hp & [[a b] q] & Hin & Hc). unfold tr_sid, tr_space, tr_pat in Hc. cbn [fst snd] in Hc.
    rewrite !andb_true_iff, !N.eqb_eq in Hc. destruct Hc as [[-> ->] Hm]. split; [exact Hp|]. exists q.
    apply mem_triple_in in Hin. rewrite (r_reg s p HR) in Hin. split; [exact Hin|].
    unfold spec_matches in Hm. rewrite <- (valid_pattern_split q (has_valid _ _ _ _ HI Hin)), <- (valid_topic_split topic HV) in Hm. exact Hm.
Qed.

Lemma sim_pub : forall c s p sid space topic claim relayed wf, Inv s -> rel s p ->
  sim c s p (EPub sid space topic claim relayed wf).
Proof.
  intros c s p sid space topic claim relayed wf HI HR. pose proof HR as [R1 R2 R3 R4 R5 R6 R7].
  unfold sim, svc_step, svc_step_gen. cbn [spec_step]. unfold spec_pub. rewrite R1, R3, R4.
  unfold handle_pub. destruct (nassoc sid (sv_conns s)) as [acct|] eqn:EC; cbn [fst snd].
  2:{ eexists. split; [reflexivity|exact HR]. }
  cbv zeta. rewrite (p_member_eq s p space acct R2), <- validate_topic_iff.
  destruct wf; cbn [negb andb fst snd]; [|eexists; split; [reflexivity|exact HR]].
  destruct (validate_topic topic) eqn:EV; cbn [negb andb fst snd]; [|eexists; split; [reflexivity|exact HR]].
  destruct (memN space (resp c)); cbn [negb andb fst snd]; [|eexists; split; [reflexivity|exact HR]].
  destruct relayed; cbn [negb andb orb fst snd].
  { destruct (memN sid (nodes c)); cbn [negb andb fst snd]; [|eexists; split; [reflexivity|exact HR]].
    destruct (expected_ok s p space topic HI HR EV) as [E1 E2]. rewrite E1, E2. cbn [andb Bool.eqb].
    eexists. split; [reflexivity|exact HR]. }
  destruct (N.eqb claim (acct + 1)) eqn:E1; cbn [negb andb orb fst snd].
  2:{ rewrite orb_true_r. cbn [fst snd]. eexists. split; [reflexivity|exact HR]. }
  assert (E0 : N.eqb claim 0 = false) by (apply N.eqb_neq; apply N.eqb_eq in E1; lia). rewrite E0. cbn [orb].
  destruct (is_member s space acct); cbn [negb andb fst snd]; [|eexists; split; [reflexivity|exact HR]].
  rewrite (owner_equiv c topic acct EV).
  destruct (is_nil (topic_owner topic) || str_eqb (topic_owner topic) (name_of c acct)) eqn:EO.
  2:{ apply orb_false_iff in EO. destruct EO as [EO1 EO2]. rewrite EO1, EO2. cbn [negb andb fst snd].
      eexists. split; [reflexivity|exact HR]. }
  assert (EO' : negb (is_nil (topic_owner topic)) && negb (str_eqb (topic_owner topic) (name_of c acct)) = false).
  { destruct (is_nil (topic_owner topic)); [reflexivity|]. cbn [orb] in EO. rewrite EO. reflexivity. }
  rewrite EO'. cbn [negb andb].
  destruct (N.leb (burst c) (match nassoc sid (sv_rate s) with Some u => u | None => 0%N end)) eqn:EL; cbn [fst snd].
  - (* rate limited *)
    unfold in_pool. destruct (nassoc sid (sv_pool s)); cbn [negb andb]; rewrite ?EL; cbn [N.eqb RateLimited Pos.eqb negb andb is_nil];
      eexists; (split; [reflexivity|exact HR]).
  - destruct (expected_ok s p space topic HI HR EV) as [E2 E3]. rewrite E2, E3.
    assert (ELt : N.ltb (match nassoc sid (sv_rate s) with Some u => u | None => 0%N end) (burst c) = true).
    { rewrite N.ltb_antisym, EL. reflexivity. }
    rewrite ELt. cbn [andb Bool.eqb negb]. eexists. split; [reflexivity|].
    constructor; cbn [p_accts p_mem p_passed p_pooled p_reg sv_conns sv_members sv_rate]; auto.
Qed.

(* ------------------------------------------------------------------ snapshot *)

Lemma nodup_map_filter_inj : forall {A B} (f : A -> bool) (g : A -> B) l, NoDup l ->
  (forall x y, In x l -> In y l -> f x = true -> f y = true -> g x = g y -> x = y) ->
  NoDup (map g (filter f l)).
Proof.
  intros A B f g. induction l as [|a l IH]; intros ND Hinj; cbn [filter map]; [constructor|].
  inversion ND as [|x xs Hn ND']; subst.
  assert (IH' : NoDup (map g (filter f l))).
  { apply IH; [exact ND'|]. intros x y Hx Hy. apply Hinj; right; assumption. }
  destruct (f a) eqn:E; [|exact IH']. cbn [map]. constructor; [|exact IH'].
  intros H. apply in_map_iff in H. destruct H as (y & Hg & Hy). apply filter_In in Hy. destruct Hy as [Hy Hfy].
  assert (y = a) by (apply Hinj; [right; exact Hy|left; reflexivity|exact Hfy|exact E|exact Hg]). subst. contradiction.
Qed.

Lemma forallb_map : forall {A B} (f : B -> bool) (g : A -> B) l, forallb f (map g l) = forallb (fun x => f (g x)) l.
Proof. induction l as [|a l IH]; cbn [map forallb]; [reflexivity|]. rewrite IH. reflexivity. Qed.

Lemma tags_of_in : forall reg sid sp q, In (sp, q) (tags_of reg sid) <-> In (sid, sp, q) reg.
Proof.
  intros. unfold tags_of. rewrite in_map_iff. split.
  - intros ([[a b] c0] & E & Hin). apply filter_In in Hin. destruct Hin as [Hin Hf]. unfold tr_sid, tr_space, tr_pat in *. cbn [fst snd] in *.
    apply N.eqb_eq in Hf. inversion E; subst. exact Hin.
  - intros H. exists (sid, sp, q). split; [reflexivity|]. apply filter_In. split; [exact H|]. unfold tr_sid. cbn [fst]. apply N.eqb_refl.
Qed.

Lemma tags_of_nodup : forall reg sid, NoDup reg -> NoDup (tags_of reg sid).
Proof.
  intros reg sid ND. unfold tags_of. apply nodup_map_filter_inj; [exact ND|].
  intros [[a b] c0] [[a' b'] c'] _ _ H1 H2 E. unfold tr_sid, tr_space, tr_pat in *. cbn [fst snd] in *.
  apply N.eqb_eq in H1. apply N.eqb_eq in H2. inversion E; subst. reflexivity.
Qed.

Lemma pats_of_in : forall reg sid sp q, In q (pats_of reg sid sp) <-> In (sid, sp, q) reg.
Proof.
  intros. unfold pats_of. rewrite in_map_iff. split.
  - intros ([[a b] c0] & E & Hin). apply filter_In in Hin. destruct Hin as [Hin Hf]. unfold tr_sid, tr_space, tr_pat in *. cbn [fst snd] in *.
    apply andb_true_iff in Hf. destruct Hf as [H1 H2]. apply N.eqb_eq in H1. apply N.eqb_eq in H2. subst. exact Hin.
  - intros H. exists (sid, sp, q). split; [reflexivity|]. apply filter_In. split; [exact H|]. unfold tr_sid, tr_space. cbn [fst snd].
    rewrite !N.eqb_refl. reflexivity.
Qed.

Lemma pats_of_nodup : forall reg sid sp, NoDup reg -> NoDup (pats_of reg sid sp).
Proof.
  intros reg sid sp ND. unfold pats_of. apply nodup_map_filter_inj; [exact ND|].
  intros [[a b] c0] [[a' b'] c'] _ _ H1 H2 E. unfold tr_sid, tr_space, tr_pat in *. cbn [fst snd] in *.
  apply andb_true_iff in H1. apply andb_true_iff in H2. destruct H1 as [H1 H1']. destruct H2 as [H2 H2'].
  apply N.eqb_eq in H1. apply N.eqb_eq in H1'. apply N.eqb_eq in H2. apply N.eqb_eq in H2'. subst. reflexivity.
Qed.

Lemma space_pats_in : forall reg sp q, In q (space_pats reg sp) <-> exists sid, In (sid, sp, q) reg.
Proof.
  intros. unfold space_pats. rewrite dedup_str_in, in_map_iff. split.
  - intros ([[a b] c0] & E & Hin). apply filter_In in Hin. destruct Hin as [Hin Hf]. unfold tr_space, tr_pat in *. cbn [fst snd] in *.
    apply N.eqb_eq in Hf. subst. exists a. exact Hin.
  - intros [sid H]. exists (sid, sp, q). split; [reflexivity|]. apply filter_In. split; [exact H|]. unfold tr_space. cbn [fst snd]. apply N.eqb_refl.
Qed.

(* the per-stream record flattened to (space, pattern) pairs *)
Definition flat (by_ : list (N * list str)) : list tag := flat_map (fun e => map (fun q => (fst e, q)) (snd e)) by_.

Lemma flat_length : forall by_, length (flat by_) = tot by_.
Proof.
  unfold flat, tot. induction by_ as [|e r IH]; cbn [flat_map wsum]; [reflexivity|]. rewrite app_length, map_length. f_equal. exact IH.
Qed.

Lemma flat_in : forall by_ sp q, In (sp, q) (flat by_) <-> exists l, In (sp, l) by_ /\ In q l.
Proof.
  intros. unfold flat. rewrite in_flat_map. split.
  - intros ([k l] & Hin & Hm). cbn [fst snd] in Hm. apply in_map_iff in Hm. destruct Hm as (x & E & Hx). inversion E; subst. exists l. auto.
  - intros (l & H1 & H2). exists (sp, l). split; [exact H1|]. cbn [fst snd]. apply in_map_iff. exists q. auto.
Qed.

Lemma nodup_app_intro : forall {A} (a b : list A), NoDup a -> NoDup b -> (forall t, In t a -> ~ In t b) -> NoDup (a ++ b).
Proof.
  induction a as [|x a IH]; intros b Na Nb D; cbn [app]; [exact Nb|]. inversion Na; subst. constructor.
  - rewrite in_app_iff. intros [H|H]; [contradiction|]. apply (D x); [left; reflexivity|exact H].
  - apply IH; [assumption|exact Nb|]. intros t Ht. apply D. right. exact Ht.
Qed.

Lemma flat_nodup : forall by_, NoDup (map fst by_) -> (forall sp l, In (sp, l) by_ -> NoDup l) -> NoDup (flat by_).
Proof.
  induction by_ as [|[k l] r IH]; intros ND HL; [constructor|].
  cbn [map fst] in ND. inversion ND as [|x xs Hn ND']; subst.
  change (flat ((k, l) :: r)) with (map (fun q : str => (k, q)) l ++ flat r).
  apply nodup_app_intro.
  - apply Injective_map_NoDup; [intros a b E; inversion E; reflexivity|apply (HL k l); left; reflexivity].
  - apply IH; [exact ND'|]. intros sp l0 H. apply (HL sp l0). right. exact H.
  - intros t Ht Hr. apply in_map_iff in Ht. destruct Ht as (q & <- & _). apply (flat_in r k q) in Hr.
    destruct Hr as (l0 & H1 & _). apply Hn. change k with (fst (k, l0)). apply in_map. exact H1.
Qed.

Section Snapshot.
  Variables (s : svc) (p : pstate).
  Hypothesis HI : Inv s.
  Hypothesis NDR : NoDup (map fst (sv_remote s)).
  Hypothesis HR : rel s p.

  Lemma reg_has : forall sid sp q, In (sid, sp, q) (p_reg p) <-> has s sid sp q = true.
  Proof. intros. rewrite <- mem_triple_in, (r_reg s p HR). reflexivity. Qed.

  Lemma record_has : forall sid st, nassoc sid (sv_streams s) = Some st -> exists sp q, has s sid sp q = true.
  Proof.
    intros sid st H. destruct HI as [HC _]. destruct (c_rec s HC sid st H) as ([(_ & HL & _) Hne] & _ & _).
    destruct (ss_by st) as [|[sp l] r] eqn:Eb; [congruence|].
    assert (H2 : nassoc sp (ss_by st) = Some l) by (rewrite Eb; cbn [nassoc]; rewrite N.eqb_refl; reflexivity).
    destruct (HL sp l) as (Hl & _ & _); [rewrite <- Eb; exact H2|]. destruct l as [|x l]; [congruence|].
    exists sp, x. unfold has. rewrite H. cbn [ohas]. unfold st_has. rewrite H2. cbn [mem_str]. rewrite str_eqb_refl. reflexivity.
  Qed.

  Lemma st_has_in : forall st sp q, by_ok st ->
    (st_has st sp q = true <-> exists l, In (sp, l) (ss_by st) /\ In q l).
  Proof.
    intros st sp q (ND & _ & _). unfold st_has. split.
    - destruct (nassoc sp (ss_by st)) as [l|] eqn:E; [|discriminate]. intros H. exists l. split; [apply nassoc_in; exact E|apply mem_str_in; exact H].
    - intros (l & H1 & H2). rewrite (in_nassoc sp l (ss_by st) ND H1). apply mem_str_in. exact H2.
  Qed.

  Lemma snap_c1 : set_eqN (map fst (sv_pool s)) (p_pooled p) = true
                  /\ Nat.eqb (length (sv_pool s)) (length (p_pooled p)) = true.
  Proof.
    pose proof HI as [HC _].
    assert (H : forall x, In x (map fst (sv_pool s)) <-> In x (p_pooled p)).
    { intros x. rewrite <- (memN_in x (p_pooled p)), (r_pooled s p HR). unfold in_pool.
      destruct (nassoc x (sv_pool s)) eqn:E.
      - split; [reflexivity|]. intros _. destruct (in_dec N.eq_dec x (map fst (sv_pool s))) as [Hi|Hn]; [exact Hi|].
        apply nassoc_none_notin in Hn. congruence.
      - split; [|discriminate]. intros Hi. apply nassoc_none_notin in E. contradiction. }
    split; [apply set_eqN_iff; exact H|]. apply Nat.eqb_eq. rewrite <- (map_length fst (sv_pool s)).
    apply nodup_len_eq; [apply HC|apply (r_pooled_nd s p HR)|exact H].
  Qed.

  Lemma snap_c2 : forallb (fun e : N * list tag => set_eq_tag (snd e) (tags_of (p_reg p) (fst e))
                             && Nat.eqb (length (snd e)) (length (tags_of (p_reg p) (fst e)))) (sv_pool s) = true.
  Proof.
    pose proof HI as [HC _]. apply forallb_forall. intros [sid tags] Hin. cbn [fst snd].
    assert (Hn : nassoc sid (sv_pool s) = Some tags) by (apply in_nassoc; [apply HC|exact Hin]).
    destruct (c_tags s HC sid tags Hn) as [ND Ht].
    assert (H : forall t, In t tags <-> In t (tags_of (p_reg p) sid)).
    { intros [sp q]. rewrite tags_of_in, reg_has, <- Ht. symmetry. apply mem_tag_in. }
    apply andb_true_iff. split; [apply set_eq_tag_iff; exact H|]. apply Nat.eqb_eq.
    apply nodup_len_eq; [exact ND|apply tags_of_nodup; apply (r_reg_nd s p HR)|exact H].
  Qed.

  Definition proj_stream (e : N * sstream) := (fst e, (ss_account (snd e), ss_total (snd e), ss_by (snd e))).

  Lemma keys_proj : map fst (map proj_stream (sv_streams s)) = map fst (sv_streams s).
  Proof. rewrite map_map. apply map_ext. intros [a b]. reflexivity. Qed.

  Lemma snap_c3 : set_eqN (map fst (map proj_stream (sv_streams s))) (dedupN (map tr_sid (p_reg p))) = true
                  /\ nodupN (map fst (map proj_stream (sv_streams s))) = true.
  Proof.
    pose proof HI as [HC _]. rewrite keys_proj. split; [|apply nodupN_iff; apply HC].
    apply set_eqN_iff. intros sid. rewrite dedupN_in. split.
    - intros Hin. apply in_map_iff. destruct (nassoc sid (sv_streams s)) as [st|] eqn:E.
      + destruct (record_has sid st E) as (sp & q & Hh). exists (sid, sp, q). split; [reflexivity|apply reg_has; exact Hh].
      + apply nassoc_none_notin in E. contradiction.
    - intros Hin. apply in_map_iff in Hin. destruct Hin as ([[a b] q] & <- & Hin). unfold tr_sid. cbn [fst]. apply reg_has in Hin.
      unfold has in Hin. destruct (nassoc a (sv_streams s)) as [st|] eqn:E; [|discriminate].
      apply nassoc_in in E. change a with (fst (a, st)). apply in_map. exact E.
  Qed.

  Lemma snap_c4 : forallb (fun e : N * (N * N * list (N * list str)) =>
                let sid := fst e in
                let '(acct, total, by_) := snd e in
                (match nassoc sid (p_accts p) with Some a => N.eqb a acct | None => false end)
                && N.eqb total (N.of_nat (length (tags_of (p_reg p) sid)))
                && nodupN (map fst by_)
                && set_eqN (map fst by_) (dedupN (map fst (tags_of (p_reg p) sid)))
                && forallb (fun b : N * list str => set_eq_str (snd b) (pats_of (p_reg p) sid (fst b))
                                     && Nat.eqb (length (snd b)) (length (pats_of (p_reg p) sid (fst b)))) by_)
             (map proj_stream (sv_streams s)) = true.
  Proof.
    pose proof HI as [HC _]. rewrite forallb_map. apply forallb_forall. intros [sid st] Hin. unfold proj_stream. cbn [fst snd].
    assert (Hn : nassoc sid (sv_streams s) = Some st) by (apply in_nassoc; [apply HC|exact Hin]).
    destruct (c_rec s HC sid st Hn) as ([HB Hne] & _ & Hc). pose proof HB as (NDb & HL & Htot).
    assert (Hhas : forall sp q, has s sid sp q = st_has st sp q) by (intros; unfold has; rewrite Hn; reflexivity).
    assert (Hflat : forall t, In t (flat (ss_by st)) <-> In t (tags_of (p_reg p) sid)).
    { intros [sp q]. rewrite flat_in, tags_of_in, reg_has, Hhas. symmetry. apply st_has_in. exact HB. }
    rewrite !andb_true_iff. repeat split.
    - rewrite (r_accts s p HR), Hc. apply N.eqb_refl.
    - apply N.eqb_eq. rewrite Htot, <- flat_length. f_equal.
      apply nodup_len_eq; [|apply tags_of_nodup; apply (r_reg_nd s p HR)|exact Hflat].
      apply flat_nodup; [exact NDb|]. intros sp l H. apply (HL sp l). apply in_nassoc; assumption.
    - apply nodupN_iff. exact NDb.
    - apply set_eqN_iff. intros sp. rewrite dedupN_in. split.
      + intros Hk. apply in_map_iff in Hk. destruct Hk as ([k l] & <- & Hkl). cbn [fst].
        destruct (HL k l (in_nassoc k l _ NDb Hkl)) as (Hl & _ & _). destruct l as [|x l]; [congruence|].
        apply in_map_iff. exists (k, x). split; [reflexivity|]. apply Hflat. apply flat_in. exists (x :: l). split; [exact Hkl|left; reflexivity].
      + intros Ht. apply in_map_iff in Ht. destruct Ht as ([k q] & <- & Ht). cbn [fst]. apply Hflat in Ht. apply flat_in in Ht. destruct Ht as (l & H1 & _).
        change k with (fst (k, l)). apply in_map. exact H1.
    - apply forallb_forall. intros [sp l] Hb. cbn [fst snd].
      destruct (HL sp l (in_nassoc sp l _ NDb Hb)) as (_ & NDl & _).
      assert (H : forall q, In q l <-> In q (pats_of (p_reg p) sid sp)).
      { intros q. rewrite pats_of_in, reg_has, Hhas. rewrite (st_has_in st sp q HB). split.
        - intros Hq. exists l. auto.
        - intros (l' & H1 & H2). assert (l' = l).
          { pose proof (in_nassoc sp l' _ NDb H1) as A. pose proof (in_nassoc sp l _ NDb Hb) as B. congruence. }
          subst. exact H2. }
      apply andb_true_iff. split; [apply set_eq_str_iff; exact H|]. apply Nat.eqb_eq.
      apply nodup_len_eq; [exact NDl|apply pats_of_nodup; apply (r_reg_nd s p HR)|exact H].
  Qed.

  Definition proj_remote (e : N * trie) := (fst e, (trie_len (snd e), trie_is_empty (snd e))).

  Lemma snap_c5 : set_eqN (map fst (map proj_remote (sv_remote s))) (dedupN (map tr_space (p_reg p))) = true
                  /\ nodupN (map fst (map proj_remote (sv_remote s))) = true.
  Proof.
    pose proof HI as [HC HT].
    assert (E : map fst (map proj_remote (sv_remote s)) = map fst (sv_remote s)).
    { rewrite map_map. apply map_ext. intros [a b]. reflexivity. }
    rewrite E. split; [|apply nodupN_iff; exact NDR].
    apply set_eqN_iff. intros sp. rewrite dedupN_in. split.
    - intros Hin. apply in_map_iff. pose proof (HT sp) as H. destruct (nassoc sp (sv_remote s)) as [tr|] eqn:En.
      + destruct H as [_ [q Hq]]. destruct (cnt_pos_has_s s sp q HI Hq) as [sid Hh].
        exists (sid, sp, q). split; [reflexivity|apply reg_has; exact Hh].
      + apply nassoc_none_notin in En. contradiction.
    - intros Hin. apply in_map_iff in Hin. destruct Hin as ([[a b] q] & <- & Hin). unfold tr_space. cbn [fst snd]. apply reg_has in Hin. apply has_pos_cnt in Hin.
      pose proof (HT b) as H. destruct (nassoc b (sv_remote s)) as [tr|] eqn:En.
      + apply nassoc_in in En. change b with (fst (b, tr)). apply in_map. exact En.
      + rewrite H in Hin. lia.
  Qed.

  Lemma snap_c6 : forallb (fun e : N * (N * bool) => N.eqb (fst (snd e)) (N.of_nat (length (space_pats (p_reg p) (fst e))))
                                       && negb (snd (snd e))) (map proj_remote (sv_remote s)) = true.
  Proof.
    pose proof HI as [HC HT]. rewrite forallb_map. apply forallb_forall. intros [sp tr] Hin. unfold proj_remote. cbn [fst snd].
    assert (Hn : nassoc sp (sv_remote s) = Some tr) by (apply in_nassoc; [exact NDR|exact Hin]).
    pose proof (HT sp) as H. rewrite Hn in H. destruct H as [Hi [q0 Hq0]].
    apply andb_true_iff. split.
    - destruct Hi as (_ & _ & L & [ND HL] & HS). apply N.eqb_eq. unfold trie_len. rewrite HS. f_equal.
      apply nodup_len_eq; [exact ND|unfold space_pats; apply dedup_str_nodup|].
      intros q. rewrite HL, space_pats_in. split.
      + intros Hq. destruct (cnt_pos_has_s s sp q HI Hq) as [sid Hh]. exists sid. apply reg_has. exact Hh.
      + intros [sid Hh]. apply reg_has in Hh. eapply has_pos_cnt; eauto.
    - rewrite (trie_inv_root_nonempty tr _ q0 Hi Hq0). reflexivity.
  Qed.

  Lemma snap_ok : spec_snapshot p (map proj_remote (sv_remote s)) (map proj_stream (sv_streams s)) (sv_pool s) = true.
  Proof.
    unfold spec_snapshot.
    destruct snap_c1 as [A1 A2]. destruct snap_c3 as [A3 A4]. destruct snap_c5 as [A5 A6].
    rewrite !andb_true_iff.
    repeat apply conj; [exact A1|exact A2|exact snap_c2|exact A3|exact A4|exact snap_c4|exact A5|exact A6|exact snap_c6].
  Qed.
End Snapshot.

(* ------------------------------------------------------------------ distinct keys of [remote] *)

Definition ndR (s : svc) : Prop := NoDup (map fst (sv_remote s)).

Lemma nodup_prune_space : forall rem sp tr, NoDup (map fst rem) -> NoDup (map fst (prune_space rem sp tr)).
Proof. intros. unfold prune_space. destruct (N.eqb (trie_len tr) 0); [apply nodup_ndel|apply nodup_nset]; assumption. Qed.

Lemma ndR_sub : forall c s sid space pats, ndR s -> ndR (fst (handle_sub c s sid space pats)).
Proof.
  intros c s sid space pats H. unfold ndR, handle_sub, handle_sub_gen in *.
  destruct (nassoc sid (sv_conns s)); [|exact H].
  destruct (negb (memN space (resp c))); [exact H|].
  destruct (negb (forallb validate_pattern pats)); [exact H|].
  destruct (negb (is_member s space n)); [exact H|].
  destruct (sub_loop _ _ _ _ _ _) as [[[[sp' total'] tr'] accepted] rejected].
  destruct (is_nil accepted); cbn [fst sv_remote].
  - apply nodup_prune_space. apply nodup_nset. exact H.
  - destruct (nassoc sid (sv_pool s)); cbn [fst sv_remote].
    + apply nodup_nset. exact H.
    + destruct (remove_patterns _ _ _ _ _) as [[st2 tr2] r2]. cbn [fst sv_remote]. apply nodup_prune_space. apply nodup_nset. exact H.
Qed.

Lemma ndR_unsub : forall s sid space pats, ndR s -> ndR (handle_unsub s sid space pats).
Proof.
  intros s sid space pats H. unfold ndR, handle_unsub in *.
  destruct (nassoc sid (sv_conns s)); [|exact H].
  destruct (nassoc sid (sv_streams s)); [|exact H].
  destruct (nassoc space (sv_remote s)); [|exact H].
  destruct (remove_patterns _ _ _ _ _) as [[st2 tr2] r2]. cbn [sv_remote]. apply nodup_prune_space. exact H.
Qed.

Lemma ndR_close_fold : forall by_ rem, NoDup (map fst rem) -> NoDup (map fst (fold_left close_body by_ rem)).
Proof.
  induction by_ as [|e r IH]; intros rem H; cbn [fold_left]; [exact H|]. apply IH. unfold close_body.
  destruct (nassoc (fst e) rem); [apply nodup_prune_space|]; exact H.
Qed.

Lemma ndR_pool_remove : forall s sid, ndR s -> ndR (pool_remove s sid).
Proof.
  intros s sid H. unfold ndR, pool_remove in *. destruct (in_pool s sid); [|exact H].
  rewrite on_stream_close_unfold. cbn [sv_streams sv_remote]. destruct (nassoc sid (sv_streams s)); cbn [sv_remote]; [|exact H].
  apply ndR_close_fold. exact H.
Qed.

Lemma ndR_evict : forall s space evict wt, ndR s -> ndR (evict_streams s space evict wt).
Proof.
  intros s space evict wt H. unfold ndR in *. rewrite evict_streams_unfold. destruct (fold_left _ _ _) as [[a b] d]. cbn [sv_remote].
  destruct wt; [destruct d; [apply nodup_prune_space|]; exact H|apply nodup_ndel; exact H].
Qed.

Lemma ndR_step : forall c s e, ndR s -> ndR (fst (svc_step c s e)).
Proof.
  intros c s e H. destruct e; unfold svc_step, svc_step_gen; cbn [fst].
  - exact H.
  - apply ndR_sub. exact H.
  - apply ndR_unsub. exact H.
  - destruct (handle_pub_state c s sid space topic claim relayed wellformed) as [rate E]. rewrite E. exact H.
  - apply (ndR_pool_remove s sid H).
  - apply ndR_pool_remove. exact H.
  - apply ndR_evict. exact H.
  - apply ndR_evict. exact H.
  - apply ndR_evict. exact H.
  - exact H.
  - exact H.
  - fold (handle_sub_mid c s sid victim space pats). unfold handle_sub_mid, handle_sub_mid_gen.
    fold (handle_sub c (drop_pool s victim) sid space pats). fold (handle_sub c s sid space pats).
    destruct (sub_reaches_tagging c s sid space pats).
    + pose proof (ndR_sub c (drop_pool s victim) sid space pats H) as H2.
      destruct (handle_sub c (drop_pool s victim) sid space pats) as [s2 o]. cbn [fst] in *.
      unfold ndR in *. rewrite on_stream_close_unfold. destruct (nassoc victim (sv_streams s2)); cbn [sv_remote]; [|exact H2].
      apply ndR_close_fold. exact H2.
    + pose proof (ndR_sub c s sid space pats H) as H2. destruct (handle_sub c s sid space pats) as [s2 o]. cbn [fst] in *.
      apply ndR_pool_remove. exact H2.
  - rewrite pub_mid_fst. destruct (pub_reaches_lookup c s sid space topic claim relayed wellformed).
    + destruct (handle_pub_state c (pool_remove s sid) sid space topic claim relayed wellformed) as [rate E]. rewrite E.
      apply (ndR_pool_remove s sid H).
    + apply ndR_pool_remove.
      destruct (handle_pub_state c s sid space topic claim relayed wellformed) as [rate E]. rewrite E. exact H.
Qed.

(* ------------------------------------------------------------------ a stream leaves the pool in the middle of handleSubscribe *)

Lemma sub_frame_mr : forall c s sid space pats,
  sv_members (fst (handle_sub c s sid space pats)) = sv_members s /\ sv_rate (fst (handle_sub c s sid space pats)) = sv_rate s.
Proof.
  intros. unfold handle_sub, handle_sub_gen.
  destruct (nassoc sid (sv_conns s)); [|auto].
  destruct (negb (memN space (resp c))); [auto|].
  destruct (negb (forallb validate_pattern pats)); [auto|].
  destruct (negb (is_member s space n)); [auto|].
  destruct (sub_loop _ _ _ _ _ _) as [[[[sp' total'] tr'] accepted] rejected].
  destruct (is_nil accepted); [auto|].
  destruct (nassoc sid (sv_pool s)); [auto|].
  destruct (remove_patterns _ _ _ _ _) as [[st2 tr2] r2]. auto.
Qed.

Lemma sub_mid_frame : forall c s sid victim space pats, Inv s ->
  let r := fst (handle_sub_mid c s sid victim space pats) in
  sv_conns r = sv_conns s /\ sv_members r = sv_members s /\ sv_rate r = sv_rate s
  /\ forall x, in_pool r x = in_pool s x && negb (N.eqb x victim).
Proof.
  intros c s sid victim space pats HI. cbv zeta. rewrite (proj1 (mid_state c s sid victim space pats HI)).
  destruct (pool_remove_frame (mid_pre c s sid victim space pats) victim) as (Ec & Em & Er & Hip).
  rewrite Ec, Em, Er. destruct (sub_frame_mr c s sid space pats) as [Em1 Er1].
  assert (Hpre : sv_conns (mid_pre c s sid victim space pats) = sv_conns s
                 /\ sv_members (mid_pre c s sid victim space pats) = sv_members s
                 /\ sv_rate (mid_pre c s sid victim space pats) = sv_rate s).
  { unfold mid_pre. destruct (mid_self c s sid victim space pats).
    - destruct (unsub_frame (fst (handle_sub c s sid space pats)) sid space (sub_accepted c s sid space pats)) as (A & B & C & _).
      rewrite A, B, C, conns_sub. auto.
    - rewrite conns_sub. auto. }
  destruct Hpre as (A & B & C). split; [exact A|split; [exact B|split; [exact C|]]].
  intros x. rewrite Hip, in_pool_mid_pre. reflexivity.
Qed.

Lemma reaches_elig : forall c s sid space pats, sub_reaches_tagging c s sid space pats = true ->
  exists acct, nassoc sid (sv_conns s) = Some acct /\ sub_elig c s acct space pats = true.
Proof.
  intros c s sid space pats H. unfold sub_reaches_tagging, sub_accepted in H. unfold sub_elig.
  destruct (nassoc sid (sv_conns s)) as [acct|]; [|discriminate]. exists acct. split; [reflexivity|].
  destruct (memN space (resp c)); [|discriminate].
  destruct (forallb validate_pattern pats); [|discriminate].
  destruct (is_member s space acct); [reflexivity|discriminate].
Qed.

Lemma sim_submid : forall c s p sid victim space pats, Inv s -> rel s p -> sim c s p (ESubMid sid victim space pats).
Proof.
  intros c s p sid victim space pats HI HR. unfold sim, svc_step, svc_step_gen.
  fold (handle_sub_mid c s sid victim space pats). cbn [spec_step].
  rewrite (proj2 (mid_state c s sid victim space pats HI)).
  destruct (mid_self c s sid victim space pats) eqn:Em.
  - (* the subscribing stream itself left the pool before AddTagsCtx: nothing reaches it, nothing stays registered *)
    unfold mid_self in Em. apply andb_true_iff in Em. destruct Em as [Em Eip]. apply andb_true_iff in Em. destruct Em as [Ev Er].
    apply N.eqb_eq in Ev. subst victim. pose proof HR as [R1 R2 R3 R4 R5 R6 R7].
    destruct (reaches_elig c s sid space pats Er) as (acct & EC & Hel).
    unfold spec_sub. rewrite R1, EC, R4, Eip, forallb_valid_spec, (p_member_eq s p space acct R2).
    fold (sub_elig c s acct space pats). rewrite Hel.
    eexists. split; [reflexivity|].
    destruct (sub_mid_frame c s sid sid space pats HI) as (Fc & Fm & Fr & Fp).
    destruct (reg_add_spec sid space pats (p_reg p)) as [Hm Hn].
    constructor; unfold after_break; cbn [p_accts p_mem p_passed p_pooled p_reg]; try congruence.
    + intros x. rewrite memN_filter, R4, Fp. reflexivity.
    + apply NoDup_filter. exact R5.
    + intros sigma sp0 q. rewrite mem_triple_filter, Hm, R6, (has_sub_mid_self c s sid space pats HI).
      cbn [tr_sid tr_space tr_pat fst snd]. destruct (N.eqb sigma sid); cbn [negb andb]; [rewrite !andb_false_r; reflexivity|].
      rewrite orb_false_r. reflexivity.
    + apply NoDup_filter. apply Hn. exact R7.
  - (* otherwise: the Subscribe as a whole, then the victim's removal *)
    destruct (sim_sub c s p sid space pats HI HR) as (p1 & Hs1 & HR1).
    unfold svc_step, svc_step_gen in Hs1, HR1. fold (handle_sub c s sid space pats) in Hs1, HR1. cbn [spec_step] in Hs1.
    rewrite Hs1.
    assert (HI1 : Inv (fst (handle_sub c s sid space pats))) by (apply inv_sub; exact HI).
    destruct (sim_break c (fst (handle_sub c s sid space pats)) p1 victim HI1 HR1) as (p2 & Hs2 & HR2).
    unfold svc_step, svc_step_gen in Hs2, HR2. cbn [fst snd spec_step] in Hs2, HR2. inversion Hs2; subst p2.
    exists (after_break p1 victim). split; [reflexivity|].
    rewrite (proj1 (mid_state c s sid victim space pats HI)). unfold mid_pre. rewrite Em. exact HR2.
Qed.

(* ------------------------------------------------------------------ the simulation, and the theorem *)

(* ------------------------------------------------------------------ the publisher's stream goes away while its Publish is handled *)

Lemma spec_pub_after_break : forall c p x sid space topic claim relayed wf o,
  snd (spec_pub c (after_break p x) sid space topic claim relayed wf o)
  = after_break (snd (spec_pub c p sid space topic claim relayed wf o)) x.
Proof.
  intros. unfold spec_pub. cbn [after_break p_accts p_mem p_passed]. unfold p_member. cbn [after_break p_mem].
  destruct (nassoc sid (p_accts p)) as [acct|]; [|reflexivity]. cbv zeta.
  destruct o as [| |delivered status forwarded|]; try reflexivity.
  match goal with |- context [if negb ?b then _ else _] => destruct b end; cbn [negb]; [|reflexivity].
  destruct status as [code|]; [reflexivity|].
  destruct (negb relayed && N.leb (burst c) match nassoc sid (p_passed p) with Some u => u | None => 0%N end); [reflexivity|].
  cbn [snd]. destruct relayed; reflexivity.
Qed.

Lemma sim_pubmid : forall c s p sid space topic claim relayed wf, Inv s -> rel s p ->
  sim c s p (EPubMid sid space topic claim relayed wf).
Proof.
  intros c s p sid space topic claim relayed wf HI HR. unfold sim, svc_step, svc_step_gen. cbn [spec_step].
  rewrite pub_mid_fst, pub_mid_snd.
  destruct (sim_break c s p sid HI HR) as (pb & Hb & HRb).
  unfold svc_step, svc_step_gen in Hb, HRb. cbn [fst snd spec_step] in Hb, HRb.
  fold (after_break p sid) in Hb. inversion Hb; subst pb. clear Hb.
  destruct (pub_reaches_lookup c s sid space topic claim relayed wf).
  - (* removal, then the Publish *)
    destruct (sim_pub c (pool_remove s sid) (after_break p sid) sid space topic claim relayed wf
                      (proj1 (inv_pool_remove s sid HI)) HRb) as (p' & Hs & HR').
    unfold svc_step, svc_step_gen in Hs, HR'. cbn [fst snd spec_step] in Hs, HR'.
    pose proof (spec_pub_after_break c p sid sid space topic claim relayed wf
                  (snd (handle_pub c (pool_remove s sid) sid space topic claim relayed wf))) as Hc.
    rewrite Hs in Hc. cbn [snd] in Hc. rewrite Hs.
    destruct (spec_pub c p sid space topic claim relayed wf _) as [ok2 p2]. cbn [snd] in Hc. cbn [orb].
    exists (after_break p2 sid). split; [reflexivity|]. rewrite <- Hc. exact HR'.
  - (* the Publish, then the removal *)
    destruct (sim_pub c s p sid space topic claim relayed wf HI HR) as (p2 & Hs & HR2).
    unfold svc_step, svc_step_gen in Hs, HR2. cbn [fst snd spec_step] in Hs, HR2.
    rewrite Hs. destruct (spec_pub c (after_break p sid) sid space topic claim relayed wf _) as [ok1 p1].
    rewrite orb_true_r. exists (after_break p2 sid). split; [reflexivity|].
    destruct (sim_break c (fst (handle_pub c s sid space topic claim relayed wf)) p2 sid
                        (inv_pub c s sid space topic claim relayed wf HI) HR2) as (pb & Hb & HRb2).
    unfold svc_step, svc_step_gen in Hb, HRb2. cbn [fst snd spec_step] in Hb, HRb2.
    fold (after_break p2 sid) in Hb. inversion Hb; subst pb. exact HRb2.
Qed.

Lemma sim_snap : forall c s p, Inv s -> ndR s -> rel s p -> sim c s p ESnap.
Proof.
  intros c s p HI HN HR. unfold sim, svc_step, svc_step_gen, snapshot. cbn [fst snd spec_step].
  exists p. split; [|exact HR]. f_equal. apply (snap_ok s p HI HN HR).
Qed.

Lemma sim_step : forall c s p e, Inv s -> ndR s -> rel s p ->
  (forall sid acct, e = EOpen sid acct -> nassoc sid (sv_conns s) = None) -> sim c s p e.
Proof.
  intros c s p e HI HN HR Hf. destruct e.
  - apply sim_open; [exact HI|exact HR|]. eapply Hf. reflexivity.
  - apply sim_sub; assumption.
  - apply sim_unsub; assumption.
  - apply sim_pub; assumption.
  - apply sim_close; assumption.
  - apply sim_break; assumption.
  - apply sim_evict; assumption.
  - apply sim_revalidate; assumption.
  - apply sim_closespace; assumption.
  - apply sim_setmember; assumption.
  - apply sim_snap; assumption.
  - apply sim_submid; assumption.
  - apply sim_pubmid; assumption.
Qed.

Lemma spec_from : forall c evs s p, Inv s -> ndR s -> rel s p -> NoDup (opens evs) ->
  (forall x, In x (opens evs) -> nassoc x (sv_conns s) = None) ->
  spec_svc_from c p evs (svc_run c s evs) = true.
Proof.
  intros c. induction evs as [|e r IH]; intros s p HI HN HR ND Hf; [reflexivity|].
  unfold svc_run. cbn [svc_run_gen spec_svc_from]. fold (svc_step c s e).
  assert (Hfe : forall sid acct, e = EOpen sid acct -> nassoc sid (sv_conns s) = None).
  { intros sid acct ->. apply Hf. left. reflexivity. }
  destruct (sim_step c s p e HI HN HR Hfe) as (p' & Hs & HR').
  destruct (svc_step c s e) as [s' o] eqn:E. cbn [fst snd] in *. rewrite Hs. cbn [andb].
  apply (IH s' p').
  - replace s' with (fst (svc_step c s e)) by (rewrite E; reflexivity). apply inv_step; assumption.
  - replace s' with (fst (svc_step c s e)) by (rewrite E; reflexivity). apply ndR_step. exact HN.
  - exact HR'.
  - destruct e; cbn [opens] in ND; auto. inversion ND; auto.
  - intros x Hx. destruct (nassoc x (sv_conns s')) eqn:Ex; [|reflexivity]. exfalso.
    destruct (conns_step c s e x) as [H|[a ->]]; [rewrite E; cbn [fst]; congruence| |].
    + apply H. apply Hf. apply opens_cons_in. exact Hx.
    + cbn [opens] in ND. inversion ND; subst. contradiction.
Qed.

(* For EVERY configuration and EVERY event sequence in which a stream id is opened at most once, the outputs
   of the serving-side model satisfy the declarative predicate that is applied to the real service. *)
Theorem model_satisfies_spec_svc : forall c evs, fresh_opens evs ->
  spec_C17_svc c evs (svc_run c svc_init evs) = true.
Proof.
  intros c evs H. unfold spec_C17_svc. apply spec_from; [apply inv_init|constructor|apply rel_init|exact H|reflexivity].
Qed.

(* ------------------------------------------------------------------ the subscribe/close race, over all histories *)
(* After ANY history: a Subscribe on [sid] during which stream [victim] is removed from the pool (at the
   latest possible point: after the interest was recorded, right before pool.AddTagsCtx) leaves the registered
   interest of "Subscribe, then removal of victim" and un-pools exactly the victim.  If the subscribing stream
   itself is the one that leaves, nothing is registered and every other stream keeps exactly its interest. *)
Theorem subscribe_close_race : forall c evs sid victim space pats, fresh_opens evs ->
  let s := svc_exec c svc_init evs in
  let s' := svc_exec c svc_init (evs ++ [ESubMid sid victim space pats]) in
  (forall sigma sp0 q,
     has s' sigma sp0 q = has (fst (handle_sub c s sid space pats)) sigma sp0 q && negb (N.eqb sigma victim))
  /\ (forall x, in_pool s' x = in_pool s x && negb (N.eqb x victim))
  /\ (victim = sid -> forall sigma sp0 q, has s' sigma sp0 q = has s sigma sp0 q && negb (N.eqb sigma sid)).
Proof.
  intros c evs sid victim space pats HF. cbv zeta. rewrite svc_exec_app.
  pose proof (reachable_inv c evs HF) as HI. set (s := svc_exec c svc_init evs) in *.
  change (svc_exec c s [ESubMid sid victim space pats]) with (fst (handle_sub_mid c s sid victim space pats)).
  split; [|split].
  - apply has_sub_mid. exact HI.
  - apply (sub_mid_frame c s sid victim space pats HI).
  - intros ->. apply has_sub_mid_self. exact HI.
Qed.

(* ------------------------------------------------------------------ delivery does not depend on the publisher's stream staying alive *)

Lemma ingress_frame : forall c s s' sid acct space topic claim relayed wf,
  sv_members s' = sv_members s -> sv_rate s' = sv_rate s ->
  ingress c s' sid acct space topic claim relayed wf = ingress c s sid acct space topic claim relayed wf.
Proof. intros c s s' sid acct space topic claim relayed wf Em Er. unfold ingress, is_member, rate_used. rewrite Em, Er. reflexivity. Qed.

(* After ANY history: a Publish on [sid] during whose handling the publisher's stream goes away (context
   cancelled, dropped by the pool, close hook run — at the first lookup, or after the handler) is written to every
   OTHER stream sigma exactly when the ingress checks pass — evaluated on the state in which the frame was read —
   and sigma is pooled and holds a registered pattern that matches; one copy per stream; it is forwarded iff
   accepted and direct; afterwards exactly the publisher's interest and pool entry are gone. *)
Theorem publish_survives_publisher_loss : forall c evs sid acct space topic claim relayed wf, fresh_opens evs ->
  let s := svc_exec c svc_init evs in
  let s' := svc_exec c svc_init (evs ++ [EPubMid sid space topic claim relayed wf]) in
  nassoc sid (sv_conns s) = Some acct ->
  (exists delivered status forwarded,
    last (svc_run c svc_init (evs ++ [EPubMid sid space topic claim relayed wf])) ONone
      = OPub delivered status forwarded
    /\ NoDup delivered
    /\ (forall sigma, sigma <> sid ->
          (In sigma delivered <->
             (ingress c s sid acct space topic claim relayed wf = true
              /\ in_pool s sigma = true
              /\ exists p, has s sigma space p = true /\ spec_matches p topic = true)))
    /\ forwarded = (ingress c s sid acct space topic claim relayed wf && negb relayed))
  /\ (forall sigma sp0 q, has s' sigma sp0 q = has s sigma sp0 q && negb (N.eqb sigma sid))
  /\ (forall x, in_pool s' x = in_pool s x && negb (N.eqb x sid)).
Proof.
  intros c evs sid acct space topic claim relayed wf HF. cbv zeta. rewrite svc_exec_app, run_last.
  pose proof (reachable_inv c evs HF) as HI. set (s := svc_exec c svc_init evs) in *. intros EC.
  change (svc_exec c s [EPubMid sid space topic claim relayed wf])
    with (fst (handle_pub_mid c s sid space topic claim relayed wf)).
  change (snd (svc_step c s (EPubMid sid space topic claim relayed wf)))
    with (snd (handle_pub_mid c s sid space topic claim relayed wf)).
  rewrite pub_mid_fst, pub_mid_snd.
  destruct (pool_remove_frame s sid) as (Ec & Em & Er & Hip).
  destruct (pub_reaches_lookup c s sid space topic claim relayed wf).
  - assert (EC' : nassoc sid (sv_conns (pool_remove s sid)) = Some acct) by (rewrite Ec; exact EC).
    destruct (delivery_exact_inv c (pool_remove s sid) sid acct space topic claim relayed wf
                (proj1 (inv_pool_remove s sid HI)) EC') as (d & st & f & E & ND & Hd & Hf & _).
    rewrite (ingress_frame c s (pool_remove s sid) sid acct space topic claim relayed wf Em Er) in Hd, Hf.
    split; [|split].
    + exists d, st, f. split; [exact E|split; [exact ND|split; [|exact Hf]]].
      intros sigma Hne. rewrite Hd, Hip. assert (En : N.eqb sigma sid = false) by (apply N.eqb_neq; exact Hne).
      rewrite En, andb_true_r. split.
      * intros (A & B & q & Hh & Hm). rewrite has_pool_remove, En, andb_true_r in Hh by exact HI. eauto 6.
      * intros (A & B & q & Hh & Hm). split; [exact A|split; [exact B|]]. exists q.
        rewrite has_pool_remove, En, andb_true_r by exact HI. auto.
    + intros sigma sp0 q. rewrite has_pub. apply has_pool_remove. exact HI.
    + intros x. rewrite in_pool_pub. apply Hip.
  - destruct (delivery_exact_inv c s sid acct space topic claim relayed wf HI EC) as (d & st & f & E & ND & Hd & Hf & _).
    pose proof (inv_pub c s sid space topic claim relayed wf HI) as HI2.
    split; [|split].
    + exists d, st, f. split; [exact E|split; [exact ND|split; [|exact Hf]]]. intros sigma _. apply Hd.
    + intros sigma sp0 q. rewrite has_pool_remove by exact HI2. rewrite has_pub. reflexivity.
    + intros x. destruct (pool_remove_frame (fst (handle_pub c s sid space topic claim relayed wf)) sid) as (_ & _ & _ & Hip2).
      rewrite Hip2, in_pool_pub. reflexivity.
Qed.
