(* Facts about the contents list of the ldiff model (the skip list): insertion, deletion, range filters. *)
From Coq Require Import List NArith Bool Arith Lia Sorting.Sorted ZifyBool ZifyN ZifyNat.
Import ListNotations.
From AnySync Require Import Model.Ldiff.
Open Scope N_scope.

Definition inb (a b h : N) : bool := (a <=? h) && (h <=? b).

Lemma in_rangeb_inb a b e : in_rangeb a b e = inb a b (ehash e).
Proof. reflexivity. Qed.

Definition cnt (a b : N) (l : list elem) : nat := length (in_range a b l).

Lemma count_in_cnt a b l : count_in a b l = N.of_nat (cnt a b l).
Proof. reflexivity. Qed.

(* [l'] and [l] hold the same elements in every range that does not contain the hash [h] *)
Definition off_eq (h : N) (l l' : list elem) : Prop :=
  forall a b, inb a b h = false -> in_range a b l' = in_range a b l.

Lemma off_eq_refl h l : off_eq h l l.
Proof. intros a b _. reflexivity. Qed.

Lemma off_eq_trans h l1 l2 l3 : off_eq h l1 l2 -> off_eq h l2 l3 -> off_eq h l1 l3.
Proof. intros H1 H2 a b Hab. rewrite (H2 a b Hab). apply H1, Hab. Qed.

(* ---- insert ---- *)
Lemma filter_insert_out (P : elem -> bool) e l : P e = false -> filter P (insert e l) = filter P l.
Proof.
  intros He. induction l as [|x r IH]; cbn [insert filter]; [rewrite He; reflexivity|].
  destruct (elem_lt e x); cbn [filter]; [rewrite He; reflexivity|]. rewrite IH. reflexivity.
Qed.

Lemma off_eq_insert e l : off_eq (ehash e) l (insert e l).
Proof. intros a b Hab. apply filter_insert_out. rewrite in_rangeb_inb. exact Hab. Qed.

Lemma length_filter_insert (P : elem -> bool) e l :
  length (filter P (insert e l)) = (length (filter P l) + (if P e then 1 else 0))%nat.
Proof.
  induction l as [|x r IH]; cbn [insert filter].
  - destruct (P e); reflexivity.
  - destruct (elem_lt e x); cbn [filter].
    + destruct (P e); cbn [length]; lia.
    + destruct (P x); cbn [length]; rewrite IH; lia.
Qed.

Lemma cnt_insert a b e l : cnt a b (insert e l) = (cnt a b l + (if inb a b (ehash e) then 1 else 0))%nat.
Proof. unfold cnt, in_range. rewrite length_filter_insert, in_rangeb_inb. reflexivity. Qed.

Lemma in_insert x e l : In x (insert e l) <-> x = e \/ In x l.
Proof.
  induction l as [|y r IH]; cbn [insert].
  - cbn. intuition.
  - destruct (elem_lt e y); cbn [In]; [intuition|]. rewrite IH. intuition.
Qed.

(* ---- delete ---- *)
Lemma in_delete x id l : In x (delete_id id l) <-> In x l /\ eid x <> id.
Proof.
  unfold delete_id. rewrite filter_In. rewrite negb_true_iff, N.eqb_neq. reflexivity.
Qed.

Lemma delete_absent id l : has_id id l = false -> delete_id id l = l.
Proof.
  unfold has_id, delete_id. induction l as [|x r IH]; cbn; [reflexivity|].
  intros H. apply orb_false_iff in H as [H1 H2]. rewrite H1. cbn. rewrite IH by exact H2. reflexivity.
Qed.

Lemma has_id_spec id l : has_id id l = true <-> exists x, In x l /\ eid x = id.
Proof.
  unfold has_id. rewrite existsb_exists. split; intros (x & Hx & H); exists x; split; auto; apply N.eqb_eq; auto.
Qed.

Lemma filter_filter_out (P Q : elem -> bool) l :
  (forall x, In x l -> Q x = false -> P x = false) -> filter P (filter Q l) = filter P l.
Proof.
  induction l as [|x r IH]; intros H; cbn [filter]; [reflexivity|].
  destruct (Q x) eqn:Hq; cbn [filter].
  - rewrite IH by (intros; apply H; [right|]; assumption). reflexivity.
  - rewrite (H x (or_introl eq_refl) Hq). apply IH. intros; apply H; [right|]; assumption.
Qed.

Lemma off_eq_delete h id l :
  (forall x, In x l -> eid x = id -> ehash x = h) -> off_eq h l (delete_id id l).
Proof.
  intros Hh a b Hab. unfold in_range, delete_id. apply filter_filter_out.
  intros x Hx Hq. apply negb_false_iff, N.eqb_eq in Hq. rewrite in_rangeb_inb, (Hh x Hx Hq). exact Hab.
Qed.

Definition uniq_ids (l : list elem) : Prop := NoDup (map eid l).

Lemma cnt_delete a b h id l :
  uniq_ids l -> (exists x, In x l /\ eid x = id /\ ehash x = h) ->
  (cnt a b (delete_id id l) + (if inb a b h then 1 else 0))%nat = cnt a b l.
Proof.
  unfold cnt, in_range, delete_id, uniq_ids.
  induction l as [|y r IH]; intros Hu (x & Hx & Hid & Hh); [destruct Hx|].
  cbn [map] in Hu. apply NoDup_cons_iff in Hu as [Hnotin Hu'].
  cbn [filter]. destruct (N.eqb_spec (eid y) id) as [E|E]; cbn [negb].
  - (* y is the element: it does not occur in r *)
    assert (Hr : filter (fun x0 => negb (eid x0 =? id)) r = r).
    { apply (delete_absent id r). destruct (has_id id r) eqn:Hh'; [|reflexivity].
      apply has_id_spec in Hh' as (z & Hz & Hzid). exfalso. apply Hnotin. rewrite E, <- Hzid. apply in_map, Hz. }
    rewrite Hr.
    assert (Hxy : x = y).
    { destruct Hx as [->|Hx]; [reflexivity|]. exfalso. apply Hnotin. rewrite E, <- Hid. apply in_map, Hx. }
    subst x. rewrite in_rangeb_inb, Hh. destruct (inb a b h); cbn [length]; lia.
  - assert (Hx' : In x r) by (destruct Hx as [->|Hx]; [congruence|exact Hx]).
    cbn [filter]. specialize (IH Hu' (ex_intro _ x (conj Hx' (conj Hid Hh)))).
    destruct (in_rangeb a b y); cbn [length]; lia.
Qed.

Lemma uniq_delete id l : uniq_ids l -> uniq_ids (delete_id id l).
Proof.
  unfold uniq_ids, delete_id. induction l as [|x r IH]; intros H; cbn; [constructor|].
  cbn in H. apply NoDup_cons_iff in H as [Hn Hr]. destruct (negb (eid x =? id)); cbn; [|auto].
  constructor; [|auto]. intros Hin. apply Hn. apply in_map_iff in Hin as (z & Hz & Hin).
  apply filter_In in Hin as [Hin _]. rewrite <- Hz. apply in_map, Hin.
Qed.

Lemma map_eid_insert_perm e l x : In x (map eid (insert e l)) <-> x = eid e \/ In x (map eid l).
Proof.
  rewrite !in_map_iff. split.
  - intros (z & Hz & Hin). apply in_insert in Hin as [->|Hin]; [left; auto|right; eauto].
  - intros [->|(z & Hz & Hin)]; [exists e; split; auto; apply in_insert; auto|].
    exists z; split; auto. apply in_insert; auto.
Qed.

Lemma uniq_insert e l : uniq_ids l -> has_id (eid e) l = false -> uniq_ids (insert e l).
Proof.
  unfold uniq_ids. intros Hu Hno. induction l as [|x r IH]; cbn [insert map]; [repeat constructor; auto|].
  cbn [map] in Hu. pose proof Hu as Hu0. apply NoDup_cons_iff in Hu as [Hn Hr].
  unfold has_id in Hno. cbn [existsb] in Hno. apply orb_false_iff in Hno as [Hx Hno].
  destruct (elem_lt e x); cbn [map].
  - constructor; [|exact Hu0]. intros [H|H].
    + apply N.eqb_neq in Hx. congruence.
    + assert (has_id (eid e) r = true); [|unfold has_id in *; congruence].
      apply has_id_spec. apply in_map_iff in H as (z & Hz & Hin). eauto.
  - constructor; [|apply IH; assumption].
    intros H. apply map_eid_insert_perm in H as [H|H]; [|auto].
    apply N.eqb_neq in Hx. congruence.
Qed.

Lemma has_id_delete id l : has_id id (delete_id id l) = false.
Proof.
  destruct (has_id id (delete_id id l)) eqn:H; [|reflexivity].
  apply has_id_spec in H as (x & Hx & Hid). apply in_delete in Hx as [_ Hne]. congruence.
Qed.

Lemma uniq_set_content e l : uniq_ids l -> uniq_ids (set_content e l).
Proof. intros H. apply uniq_insert; [apply uniq_delete, H|apply has_id_delete]. Qed.

(* ---- hashes are a function of ids ---- *)
Definition hashed (H : N -> N) (l : list elem) : Prop := forall x, In x l -> ehash x = H (eid x).

Lemma hashed_set_content H e l : hashed H l -> ehash e = H (eid e) -> hashed H (set_content e l).
Proof.
  intros Hl He x Hx. apply in_insert in Hx as [->|Hx]; [exact He|]. apply in_delete in Hx as [Hx _]. auto.
Qed.

Lemma hashed_delete H id l : hashed H l -> hashed H (delete_id id l).
Proof. intros Hl x Hx. apply in_delete in Hx as [Hx _]. auto. Qed.

Lemma hash_of_id_some id l h :
  hash_of_id id l = Some h -> exists x, In x l /\ eid x = id /\ ehash x = h.
Proof.
  unfold hash_of_id. destruct (find (fun x => eid x =? id) l) as [x|] eqn:Hf; [|discriminate].
  intros [= <-]. apply find_some in Hf as [Hin Hid]. apply N.eqb_eq in Hid. eauto.
Qed.

Lemma hash_of_id_none id l : hash_of_id id l = None -> has_id id l = false.
Proof.
  unfold hash_of_id. destruct (find (fun x => eid x =? id) l) as [x|] eqn:Hf; [discriminate|].
  intros _. destruct (has_id id l) eqn:Hh; [|reflexivity].
  apply has_id_spec in Hh as (x & Hx & Hid). pose proof (find_none _ _ Hf x Hx) as Hn.
  apply N.eqb_neq in Hn. congruence.
Qed.

(* ---- all hashes fit in 64 bits ---- *)
Definition bounded (l : list elem) : Prop := forall x, In x l -> ehash x <= U64MAX.

Lemma in_range_all l : bounded l -> in_range 0 U64MAX l = l.
Proof.
  intros Hb. unfold in_range. induction l as [|x r IH]; [reflexivity|]. cbn [filter].
  assert (in_rangeb 0 U64MAX x = true).
  { unfold in_rangeb. apply andb_true_iff. split; apply N.leb_le; [lia|apply Hb; left; reflexivity]. }
  rewrite H, IH; [reflexivity|]. intros y Hy. apply Hb. right. exact Hy.
Qed.

Lemma bounded_set_content e l : bounded l -> ehash e <= U64MAX -> bounded (set_content e l).
Proof.
  intros Hl He x Hx. apply in_insert in Hx as [->|Hx]; [exact He|]. apply in_delete in Hx as [Hx _]. auto.
Qed.

Lemma bounded_delete id l : bounded l -> bounded (delete_id id l).
Proof. intros Hl x Hx. apply in_delete in Hx as [Hx _]. auto. Qed.

(* ---- sortedness: the contents list is strictly sorted by (hash, id) ---- *)
Definition ltP (a b : elem) : Prop := elem_lt a b = true.

Lemma elem_lt_trans a b c : ltP a b -> ltP b c -> ltP a c.
Proof.
  unfold ltP, elem_lt. intros H1 H2.
  apply orb_true_iff in H1. apply orb_true_iff in H2. apply orb_true_iff.
  destruct H1 as [H1|H1], H2 as [H2|H2];
    rewrite ?andb_true_iff, ?N.ltb_lt, ?N.eqb_eq in *; [left; lia|left; lia|left; lia|right; lia].
Qed.

Lemma elem_lt_irrefl a : ~ ltP a a.
Proof.
  unfold ltP, elem_lt. intros H. apply orb_true_iff in H as [H|H];
    rewrite ?andb_true_iff, ?N.ltb_lt in *; lia.
Qed.

Lemma elem_lt_total a b : eid a <> eid b -> ltP a b \/ ltP b a.
Proof.
  unfold ltP, elem_lt. intros Hne.
  destruct (N.lt_trichotomy (ehash a) (ehash b)) as [H|[H|H]].
  - left. apply orb_true_iff. left. apply N.ltb_lt, H.
  - destruct (N.lt_trichotomy (eid a) (eid b)) as [H'|[H'|H']]; [left|contradiction|right];
      apply orb_true_iff; right; apply andb_true_iff; split; try (apply N.eqb_eq; lia); apply N.ltb_lt, H'.
  - right. apply orb_true_iff. left. apply N.ltb_lt, H.
Qed.

Definition ssorted (l : list elem) : Prop := StronglySorted ltP l.

Lemma ssorted_insert e l : ssorted l -> has_id (eid e) l = false -> ssorted (insert e l).
Proof.
  unfold ssorted. intros Hs Hno. induction Hs as [|x r Hr IH Hx]; cbn [insert]; [repeat constructor|].
  unfold has_id in Hno. cbn [existsb] in Hno. apply orb_false_iff in Hno as [Hxe Hno].
  destruct (elem_lt e x) eqn:Hlt.
  - constructor; [constructor; assumption|]. constructor; [exact Hlt|].
    rewrite Forall_forall in *. intros y Hy. eapply elem_lt_trans; [exact Hlt|apply Hx, Hy].
  - constructor; [apply IH, Hno|]. rewrite Forall_forall in *. intros y Hy.
    apply in_insert in Hy as [->|Hy]; [|apply Hx, Hy].
    apply N.eqb_neq in Hxe. destruct (elem_lt_total x e Hxe) as [H|H]; [exact H|].
    unfold ltP in H. congruence.
Qed.

Lemma ssorted_filter (P : elem -> bool) l : ssorted l -> ssorted (filter P l).
Proof.
  unfold ssorted. intros Hs. induction Hs as [|x r Hr IH Hx]; cbn [filter]; [constructor|].
  destruct (P x); [|exact IH]. constructor; [exact IH|].
  rewrite Forall_forall in *. intros y Hy. apply filter_In in Hy as [Hy _]. apply Hx, Hy.
Qed.

Lemma ssorted_set_content e l : ssorted l -> ssorted (set_content e l).
Proof. intros H. apply ssorted_insert; [apply ssorted_filter, H|apply has_id_delete]. Qed.

(* two strictly sorted lists with the same members are equal *)
Lemma ssorted_ext l1 l2 : ssorted l1 -> ssorted l2 -> (forall x, In x l1 <-> In x l2) -> l1 = l2.
Proof.
  unfold ssorted. intros H1. revert l2. induction H1 as [|x r Hr IH Hx]; intros l2 H2 Hext.
  - destruct l2 as [|y s]; [reflexivity|]. exfalso. apply (Hext y). left. reflexivity.
  - destruct H2 as [|y s Hs Hy].
    + exfalso. apply (Hext x). left. reflexivity.
    + rewrite Forall_forall in Hx, Hy.
      assert (Hxy : x = y).
      { destruct (proj1 (Hext x) (or_introl eq_refl)) as [E|Hin]; [auto|].
        destruct (proj2 (Hext y) (or_introl eq_refl)) as [E|Hin']; [auto|].
        exfalso. apply (elem_lt_irrefl x). eapply elem_lt_trans; [apply Hx, Hin'|apply Hy, Hin]. }
      subst y. f_equal. apply IH; [exact Hs|].
      intros z. split; intros Hz.
      * destruct (proj1 (Hext z) (or_intror Hz)) as [E|Hin]; [|exact Hin].
        subst z. exfalso. apply (elem_lt_irrefl x), Hx, Hz.
      * destruct (proj2 (Hext z) (or_intror Hz)) as [E|Hin]; [|exact Hin].
        subst z. exfalso. apply (elem_lt_irrefl x), Hy, Hz.
Qed.

(* a strictly sorted list is sorted by hash: range filters split it at a point *)
Lemma ssorted_hash_le x r : ssorted (x :: r) -> forall y, In y r -> ehash x <= ehash y.
Proof.
  intros H y Hy. inversion H as [|? ? _ Hx]; subst. rewrite Forall_forall in Hx.
  specialize (Hx y Hy). unfold ltP, elem_lt in Hx. apply orb_true_iff in Hx as [Hx|Hx];
    rewrite ?andb_true_iff, ?N.ltb_lt, ?N.eqb_eq in *; lia.
Qed.

Lemma filter_none (P : elem -> bool) l : (forall y, In y l -> P y = false) -> filter P l = [].
Proof.
  induction l as [|y s IH]; intros H; [reflexivity|]. cbn [filter].
  rewrite (H y (or_introl eq_refl)). apply IH. intros z Hz. apply H. right. exact Hz.
Qed.

Lemma in_range_split a m b l :
  ssorted l -> a <= m + 1 -> m <= b ->
  in_range a b l = in_range a m l ++ in_range (m + 1) b l.
Proof.
  intros Hs Ham Hmb. induction l as [|x r IH]; [reflexivity|].
  assert (Hs' : ssorted r) by (inversion Hs; assumption).
  specialize (IH Hs'). unfold in_range in *. cbn [filter].
  destruct (in_rangeb a b x) eqn:Eab, (in_rangeb a m x) eqn:Eam, (in_rangeb (m + 1) b x) eqn:Emb;
    unfold in_rangeb in Eab, Eam, Emb; try lia.
  - rewrite IH. reflexivity.
  - (* m < hash x <= b: the low part of r is empty, r lies above x *)
    rewrite IH.
    assert (Hlow : filter (in_rangeb a m) r = []).
    { apply filter_none. intros y Hy. pose proof (ssorted_hash_le x r Hs y Hy).
      unfold in_rangeb. apply andb_false_iff. right. apply N.leb_gt. lia. }
    rewrite Hlow. reflexivity.
  - exact IH.
Qed.
