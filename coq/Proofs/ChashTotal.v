(* Totality of the go-chash model (property C18): the ring walk of fillClosest always finds len(ms) members
   within the fuel the model gives it, i.e. [distribute] never returns OutOfFuel.

   The argument (it is also the reason the Go loop terminates):
   - before partition i every member was taken at most i times and all takes sum to i*rf; the quota
     q0 = P*rf/n + 1 satisfies n*q0 > P*rf, so some member still has a positive quota (pigeonhole):
     the first member of a partition is found within one lap;
   - once somebody is found, every lap that finds nobody passes a virtual node of a found member and therefore
     raises maxOverflow; as soon as maxOverflow >= P every not-yet-found member is acceptable, and one exists
     because fewer than rf <= n members are found;
   - so need*(P+2) - min(maxOverflow, P+1) decreases with every lap. *)
From Coq Require Import List NArith ZArith Bool Arith Lia Permutation.
Import ListNotations.
From AnySync Require Import Model.Chash Proofs.ChashProofs.

(* ---------------------------------------------------------------- takes bookkeeping *)
Lemma tget_tinc : forall id u t,
  tget u (tinc id t) = (tget u t + (if (id =? u)%N then 1 else 0))%Z.
Proof.
  intros id u t. induction t as [|[k v] r IH].
  - cbn [tinc tget]. destruct (id =? u)%N; lia.
  - cbn [tinc]. destruct (N.eqb_spec k id) as [Hki|Hki].
    + subst k. cbn [tget]. destruct (id =? u)%N; lia.
    + cbn [tget]. destruct (N.eqb_spec k u) as [Hku|Hku].
      * subst k. destruct (N.eqb_spec id u) as [Hiu|Hiu]; [congruence|lia].
      * exact IH.
Qed.

Fixpoint zsum (l : list Z) : Z := match l with [] => 0%Z | x :: r => (x + zsum r)%Z end.

Lemma zsum_map_add : forall (A : Type) (g h : A -> Z) l,
  zsum (map (fun u => (g u + h u)%Z) l) = (zsum (map g l) + zsum (map h l))%Z.
Proof. intros A g h l. induction l as [|a r IH]; cbn [map zsum]; lia. Qed.

Lemma zsum_map_ext : forall (A : Type) (g h : A -> Z) l,
  (forall u, In u l -> g u = h u) -> zsum (map g l) = zsum (map h l).
Proof.
  intros A g h l. induction l as [|a r IH]; intro He; [reflexivity|]. cbn [map zsum].
  rewrite (He a) by (left; reflexivity). rewrite IH; [reflexivity|]. intros u Hu. apply He. now right.
Qed.

Lemma zsum_zero : forall ids : list N, zsum (map (fun u => tget u []) ids) = 0%Z.
Proof. induction ids as [|a r IH]; [reflexivity|]. cbn [map zsum]. rewrite IH. reflexivity. Qed.

(* pigeonhole: a sum below c * length has an element below c *)
Lemma zsum_exists_small : forall (A : Type) (g : A -> Z) (c : Z) l,
  (zsum (map g l) < c * Z.of_nat (length l))%Z -> exists u, In u l /\ (g u < c)%Z.
Proof.
  intros A g c l. induction l as [|a r IH]; intro Hs.
  - cbn in Hs. lia.
  - destruct (Z_lt_dec (g a) c) as [Hlt|Hge].
    + exists a. split; [now left|exact Hlt].
    + destruct IH as [u [Hu Hgu]].
      * cbn [map zsum length] in Hs. lia.
      * exists u. split; [now right|exact Hgu].
Qed.

(* counting: the members of a duplicate-free sub-list f of ids *)
Lemma zsum_indicator : forall ids f, NoDup ids -> NoDup f -> (forall x, In x f -> In x ids) ->
  zsum (map (fun u => if memN u f then 1%Z else 0%Z) ids) = Z.of_nat (length f).
Proof.
  induction ids as [|a r IH]; intros f Hni Hnf Hsub.
  - destruct f as [|x f]; [reflexivity|]. exfalso. apply (Hsub x). now left.
  - inversion Hni as [|a' r' Ha Hr]; subst. cbn [map zsum].
    destruct (memN a f) eqn:Hm.
    + apply memN_true in Hm. apply in_split in Hm. destruct Hm as [f1 [f2 Hf]]. subst f.
      pose proof (NoDup_remove_1 _ _ _ Hnf) as Hnf'. pose proof (NoDup_remove_2 _ _ _ Hnf) as Hanf.
      rewrite (zsum_map_ext _ _ (fun u => if memN u (f1 ++ f2) then 1%Z else 0%Z)).
      * rewrite (IH (f1 ++ f2)); [| exact Hr | exact Hnf' |].
        -- rewrite !app_length. cbn [length]. lia.
        -- intros x Hx. assert (Hin : In x (f1 ++ a :: f2)).
           { apply in_app_or in Hx. apply in_or_app. destruct Hx as [Hx|Hx]; [now left|right; now right]. }
           apply Hsub in Hin. destruct Hin as [Hax|Hin]; [|exact Hin]. subst x. contradiction.
      * intros u Hu. assert (Hua : u <> a) by (intro Heq; subst u; contradiction).
        destruct (memN u (f1 ++ a :: f2)) eqn:H1; destruct (memN u (f1 ++ f2)) eqn:H2; try reflexivity.
        -- apply memN_true in H1. apply memN_false in H2. exfalso. apply H2.
           apply in_app_or in H1. apply in_or_app. destruct H1 as [H1|[H1|H1]]; [now left|congruence|now right].
        -- apply memN_false in H1. apply memN_true in H2. exfalso. apply H1.
           apply in_app_or in H2. apply in_or_app. destruct H2 as [H2|H2]; [now left|right; now right].
    + apply memN_false in Hm. rewrite (IH f); [lia|exact Hr|exact Hnf|].
      intros x Hx. destruct (Hsub x Hx) as [Hax|Hin]; [|exact Hin]. subst x. contradiction.
Qed.

(* fewer found than distinct candidates: somebody is not found yet *)
Lemma exists_unfound : forall ids found : list N, NoDup ids -> length found < length ids ->
  exists u, In u ids /\ ~ In u found.
Proof.
  intros ids found Hnd Hlen.
  destruct (existsb (fun u => negb (memN u found)) ids) eqn:He.
  - apply existsb_exists in He. destruct He as [u [Hu Hnf]]. apply negb_true_iff in Hnf.
    exists u. split; [exact Hu|now apply memN_false].
  - exfalso. assert (Hincl : incl ids found).
    { intros u Hu. apply memN_true. destruct (memN u found) eqn:Hm; [reflexivity|].
      assert (Ht : existsb (fun u => negb (memN u found)) ids = true).
      { apply existsb_exists. exists u. split; [exact Hu|now rewrite Hm]. }
      congruence. }
    pose proof (NoDup_incl_length Hnd Hincl). lia.
Qed.

(* ---------------------------------------------------------------- one stretch of the walk *)
Section WalkTotal.
  Variable q0 : Z.
  Variable tk0 : taken.     (* takes before this partition *)

  (* the takes so far = the takes before this partition + 1 for every member found in this partition *)
  Definition tkrel (st : wstate) : Prop :=
    forall u, tget u (ws_tk st) = (tget u tk0 + (if memN u (ws_found st) then 1 else 0))%Z.

  Lemma memN_snoc : forall u l x, memN u (l ++ [x]) = memN u l || (x =? u)%N.
  Proof.
    intros u l x. unfold memN. rewrite existsb_app. cbn [existsb]. rewrite orb_false_r.
    now rewrite (N.eqb_sym u x).
  Qed.

  Lemma walk_tkrel : forall l st, tkrel st -> tkrel (walk q0 l st).
  Proof.
    induction l as [|v r IH]; intros st Hrel; [exact Hrel|]. cbn [walk].
    destruct (ws_need st) as [|k]; [exact Hrel|].
    destruct (memN (snd v) (ws_found st)) eqn:Hmem.
    - apply IH. intro u. cbn [ws_tk ws_found]. apply Hrel.
    - destruct (- ws_ov st <? q0 - tget (snd v) (ws_tk st))%Z.
      + apply IH. intro u. cbn [ws_tk ws_found]. rewrite tget_tinc, memN_snoc, (Hrel u).
        destruct (N.eqb_spec (snd v) u) as [Heq|Hne].
        * subst u. rewrite Hmem. cbn [orb]. lia.
        * rewrite orb_false_r. lia.
      + apply IH. exact Hrel.
  Qed.

  Lemma walk_mono : forall l st,
    (ws_ov st <= ws_ov (walk q0 l st))%Z /\ ws_need (walk q0 l st) <= ws_need st.
  Proof.
    induction l as [|v r IH]; intro st; [cbn [walk]; lia|]. cbn [walk].
    destruct (ws_need st) as [|k] eqn:Hneed; [lia|].
    destruct (memN (snd v) (ws_found st)).
    - specialize (IH (mkW (Datatypes.S k) (ws_found st) (ws_ov st + 1) (ws_tk st))). cbn [ws_ov ws_need] in IH. lia.
    - destruct (- ws_ov st <? q0 - tget (snd v) (ws_tk st))%Z.
      + specialize (IH (mkW k (ws_found st ++ [snd v]) (ws_ov st) (tinc (snd v) (ws_tk st)))).
        cbn [ws_ov ws_need] in IH. lia.
      + specialize (IH st). lia.
  Qed.

  (* a not-yet-found member that is acceptable at the start of a stretch containing one of its virtual nodes:
     the stretch finds somebody *)
  Lemma walk_progress : forall l st u h,
    tkrel st -> In (h, u) l -> ~ In u (ws_found st) ->
    (- ws_ov st < q0 - tget u tk0)%Z -> 0 < ws_need st ->
    ws_need (walk q0 l st) < ws_need st.
  Proof.
    induction l as [|v r IH]; intros st u h Hrel Hin Hnf Hel Hneed; [destruct Hin|]. cbn [walk].
    destruct (ws_need st) as [|k] eqn:Hn; [lia|].
    destruct (memN (snd v) (ws_found st)) eqn:Hmem.
    - destruct Hin as [Hv|Hin].
      + subst v. cbn [snd] in Hmem. apply memN_true in Hmem. contradiction.
      + pose (st1 := mkW (Datatypes.S k) (ws_found st) (ws_ov st + 1) (ws_tk st)).
        assert (H1 : ws_need (walk q0 r st1) < ws_need st1).
        { apply (IH st1 u h); subst st1; cbn [ws_found ws_ov ws_need ws_tk]; try assumption; try lia. }
        subst st1. cbn [ws_need] in H1. exact H1.
    - destruct (- ws_ov st <? q0 - tget (snd v) (ws_tk st))%Z eqn:Hc.
      + pose proof (walk_mono r (mkW k (ws_found st ++ [snd v]) (ws_ov st) (tinc (snd v) (ws_tk st)))) as [_ Hm].
        cbn [ws_need] in Hm. lia.
      + destruct Hin as [Hv|Hin].
        * subst v. cbn [snd] in Hc, Hmem. rewrite (Hrel u) in Hc.
          apply memN_false in Hnf. rewrite Hnf in Hc. apply Z.ltb_ge in Hc. lia.
        * assert (H1 : ws_need (walk q0 r st) < ws_need st).
          { apply (IH st u h); try assumption. lia. }
          lia.
  Qed.

  (* a stretch containing a virtual node of an already found member finds somebody or raises maxOverflow *)
  Lemma walk_ov_or_progress : forall l st x h,
    In (h, x) l -> In x (ws_found st) -> 0 < ws_need st ->
    ws_need (walk q0 l st) < ws_need st \/ (ws_ov st + 1 <= ws_ov (walk q0 l st))%Z.
  Proof.
    induction l as [|v r IH]; intros st x h Hin Hf Hneed; [destruct Hin|]. cbn [walk].
    destruct (ws_need st) as [|k] eqn:Hn; [lia|].
    destruct (memN (snd v) (ws_found st)) eqn:Hmem.
    - right. pose proof (walk_mono r (mkW (Datatypes.S k) (ws_found st) (ws_ov st + 1) (ws_tk st))) as [Hm _].
      cbn [ws_ov] in Hm. exact Hm.
    - destruct (- ws_ov st <? q0 - tget (snd v) (ws_tk st))%Z.
      + left. pose proof (walk_mono r (mkW k (ws_found st ++ [snd v]) (ws_ov st) (tinc (snd v) (ws_tk st)))) as [_ Hm].
        cbn [ws_need] in Hm. lia.
      + destruct Hin as [Hv|Hin].
        * subst v. cbn [snd] in Hmem. apply memN_false in Hmem. contradiction.
        * destruct (IH st x h Hin Hf) as [H1|H1]; [lia|left; lia|right; exact H1].
  Qed.
End WalkTotal.

(* ---------------------------------------------------------------- laps *)
Section LapsTotal.
  Variable q0 : Z.
  Variable tk0 : taken.
  Variable rg : list vnode.
  Variable rf' : nat.
  Variable B : Z.
  Variable ids : list N.

  Hypothesis B_nonneg : (0 <= B)%Z.
  (* with maxOverflow >= B every member is acceptable *)
  Hypothesis B_bound : forall u, (tget u tk0 - q0 < B)%Z.
  (* some member on the ring still has a positive quota *)
  Hypothesis some_quota : exists h u, In (h, u) rg /\ (tget u tk0 < q0)%Z.
  Hypothesis ids_nodup : NoDup ids.
  Hypothesis ids_on_ring : forall x, In x ids -> exists h, In (h, x) rg.
  Hypothesis rf_le : rf' <= length ids.

  Let onring (x : N) : Prop := exists h, In (h, x) rg.

  Definition good (st : wstate) : Prop := winv onring rf' st /\ tkrel tk0 st /\ (0 <= ws_ov st)%Z.
  Definition phi (st : wstate) : Z := (Z.of_nat (ws_need st) * (B + 2) - Z.min (ws_ov st) (B + 1))%Z.

  Lemma rg_onring : forall v, In v rg -> onring (snd v).
  Proof. intros [h x] Hv. exists h. exact Hv. Qed.

  Lemma good_walk : forall l st, (forall v, In v l -> In v rg) -> good st -> good (walk q0 l st).
  Proof.
    intros l st Hl [Hinv [Hrel Hov]]. split; [|split].
    - apply walk_inv; [|exact Hinv]. intros v Hv. apply rg_onring. now apply Hl.
    - now apply walk_tkrel.
    - pose proof (walk_mono q0 l st) as [Hm _]. lia.
  Qed.

  Lemma lap_decreases : forall st, good st -> 0 < ws_need st -> (phi (walk q0 rg st) <= phi st - 1)%Z.
  Proof.
    intros st Hgood Hneed. pose proof (good_walk rg st (fun v Hv => Hv) Hgood) as Hgood'.
    destruct Hgood as [[Hnd [Hsub Hlen]] [Hrel Hov]]. destruct Hgood' as [_ [_ Hov']].
    pose proof (walk_mono q0 rg st) as [Hmo Hmn]. unfold phi.
    assert (Hprog : ws_need (walk q0 rg st) < ws_need st ->
                    (Z.of_nat (ws_need (walk q0 rg st)) * (B + 2) - Z.min (ws_ov (walk q0 rg st)) (B + 1)
                     <= Z.of_nat (ws_need st) * (B + 2) - Z.min (ws_ov st) (B + 1) - 1)%Z).
    { intro Hlt. nia. }
    destruct (ws_found st) as [|x fr] eqn:Hfound.
    - (* nobody found yet: the member with a positive quota is acceptable *)
      apply Hprog. destruct some_quota as [h [u [Hin Hq]]].
      assert (Hel : (- ws_ov st < q0 - tget u tk0)%Z) by lia.
      apply (walk_progress q0 tk0 rg st u h); try assumption. rewrite Hfound. intros [].
    - destruct (Z_lt_dec (ws_ov st) B) as [Hsmall|Hbig].
      + (* a found member's virtual node raises maxOverflow *)
        destruct (Hsub x) as [h Hx]; [left; reflexivity|].
        destruct (walk_ov_or_progress q0 rg st x h Hx) as [H1|H1];
          [rewrite Hfound; now left|exact Hneed|now apply Hprog|].
        assert (Hmul : (Z.of_nat (ws_need (walk q0 rg st)) * (B + 2) <= Z.of_nat (ws_need st) * (B + 2))%Z) by nia.
        lia.
      + (* maxOverflow >= B: any not-yet-found member is acceptable, and one exists *)
        apply Hprog. destruct (exists_unfound ids (ws_found st) ids_nodup) as [u [Hu Hnf]].
        { rewrite Hfound in *. lia. }
        destruct (ids_on_ring u Hu) as [h Hin].
        assert (Hel : (- ws_ov st < q0 - tget u tk0)%Z) by (pose proof (B_bound u); lia).
        apply (walk_progress q0 tk0 rg st u h); assumption.
  Qed.

  Lemma laps_total : forall fuel st, good st -> (phi st <= Z.of_nat fuel)%Z ->
    exists st', laps fuel q0 rg st = Ok st' /\ good st'.
  Proof.
    induction fuel as [|f IH]; intros st Hgood Hphi.
    - cbn [laps]. destruct (ws_need st) as [|k] eqn:Hn; [exists st; auto|].
      exfalso. unfold phi in Hphi. rewrite Hn in Hphi. destruct Hgood as [_ [_ Hov]]. nia.
    - cbn [laps]. destruct (ws_need st) as [|k] eqn:Hn; [exists st; auto|].
      apply IH; [apply good_walk; auto|].
      pose proof (lap_decreases st Hgood) as Hd. rewrite Hn in Hd. specialize (Hd (Nat.lt_0_succ k)). lia.
  Qed.

  Lemma fill_closest_total : forall fuel start,
    (forall v, In v start -> In v rg) ->
    (Z.of_nat rf' * (B + 2) <= Z.of_nat fuel)%Z ->
    exists f tk', fill_closest fuel q0 rg start rf' tk0 = Ok (f, tk') /\
      (forall u, tget u tk' = (tget u tk0 + (if memN u f then 1 else 0))%Z).
  Proof.
    intros fuel start Hstart Hfuel. unfold fill_closest.
    assert (Hg0 : good (mkW rf' [] 0%Z tk0)).
    { split; [|split].
      - unfold winv. cbn [ws_found ws_need length]. repeat split; [constructor|intros x []].
      - intro u. cbn [ws_tk ws_found memN existsb]. lia.
      - cbn [ws_ov]. lia. }
    pose proof (good_walk start _ Hstart Hg0) as Hg1.
    destruct (laps_total fuel (walk q0 start (mkW rf' [] 0%Z tk0)) Hg1) as [st' [Hl Hg']].
    - unfold phi. pose proof (walk_mono q0 start (mkW rf' [] 0%Z tk0)) as [Hmo Hmn].
      cbn [ws_ov ws_need] in Hmo, Hmn. nia.
    - rewrite Hl. exists (ws_found st'), (ws_tk st'). split; [reflexivity|].
      destruct Hg' as [_ [Hrel _]]. exact Hrel.
  Qed.
End LapsTotal.

(* ---------------------------------------------------------------- all partitions *)
Section DistTotal.
  Variable q0 : Z.
  Variable rg : list vnode.
  Variable rf' : nat.
  Variable ids : list N.        (* the distinct members *)
  Variable P : nat.             (* number of partitions *)
  Variable fuel : nat.

  Hypothesis ids_nodup : NoDup ids.
  Hypothesis ids_on_ring : forall x, In x ids -> exists h, In (h, x) rg.
  Hypothesis ring_ids : forall v, In v rg -> In (snd v) ids.
  Hypothesis rf_le : rf' <= length ids.
  Hypothesis q0_pos : (1 <= q0)%Z.
  (* n * q0 > P * rf *)
  Hypothesis q0_big : (Z.of_nat P * Z.of_nat rf' < q0 * Z.of_nat (length ids))%Z.
  Hypothesis fuel_ok : (Z.of_nat rf' * (Z.of_nat P + 2) <= Z.of_nat fuel)%Z.

  Definition takes_inv (i : nat) (tk : taken) : Prop :=
    (forall u, (0 <= tget u tk <= Z.of_nat i)%Z) /\
    zsum (map (fun u => tget u tk) ids) = (Z.of_nat i * Z.of_nat rf')%Z.

  Lemma dist_loop_total : forall phs i tk, i + length phs = P -> takes_inv i tk ->
    exists t, dist_loop fuel q0 rg (mk_index rg) rf' phs tk = Ok t.
  Proof.
    induction phs as [|h r IH]; intros i tk Hi [Hrange Hsum].
    - exists []. reflexivity.
    - cbn [length] in Hi. cbn [dist_loop].
      destruct (fill_closest_total q0 tk rg rf' (Z.of_nat P) ids) with (fuel := fuel)
        (start := find_start (mk_index rg) rg h) as [f [tk' [Hf Htk']]]; try assumption; try lia.
      + intro u. pose proof (Hrange u). lia.
      + destruct (zsum_exists_small _ (fun u => tget u tk) q0 ids) as [u [Hu Hq]].
        { rewrite Hsum. nia. }
        destruct (ids_on_ring u Hu) as [hh Hin]. exists hh, u. split; assumption.
      + intros v Hv. eapply find_start_in. exact Hv.
      + rewrite Hf.
        assert (Hshape : NoDup f /\ (forall x, In x f -> In x ids) /\ length f = rf').
        { eapply (fill_closest_ok (fun x => In x ids)); [exact ring_ids| |exact Hf].
          intros v Hv. apply ring_ids. eapply find_start_in. exact Hv. }
        destruct Hshape as [Hnf [Hsubf Hlenf]].
        destruct (IH (Datatypes.S i) tk') as [t Ht]; [lia| |rewrite Ht; eexists; reflexivity].
        split.
        * intro u. rewrite Htk'. pose proof (Hrange u). destruct (memN u f); lia.
        * rewrite (zsum_map_ext _ _ (fun u => (tget u tk + (if memN u f then 1 else 0))%Z)) by (intros u _; apply Htk').
          rewrite zsum_map_add, Hsum, zsum_indicator by assumption. lia.
  Qed.
End DistTotal.

Section ChashTotal.
  Variable PH : list N.
  Variable RF : nat.
  Variable VH : N -> list N.

  (* fillClosest always terminates within the model's fuel: distribute never returns OutOfFuel *)
  Theorem distribute_total : forall ms, (forall m, In m ms -> VH m <> []) ->
    exists t, distribute PH RF VH ms = Ok t.
  Proof.
    intros ms Hne. unfold distribute. destruct (ring VH ms) as [|v0 rg0] eqn:Hr; [eexists; reflexivity|].
    rewrite <- Hr. set (rg := ring VH ms). set (ids := nodup N.eq_dec ms).
    assert (Hn : 0 < length ids).
    { assert (Hin : In (snd v0) ms) by (eapply in_ring; rewrite Hr; left; reflexivity).
      apply (nodup_In N.eq_dec) in Hin. fold ids in Hin. destruct ids; [destruct Hin|cbn; lia]. }
    apply (dist_loop_total (quota0 PH RF ms) rg (eff_rf RF ms) ids (length PH) (lap_fuel PH RF ms)) with (i := 0).
    - apply NoDup_nodup.
    - intros x Hx. apply nodup_In in Hx. apply member_on_ring; [exact Hx|now apply Hne].
    - intros v Hv. apply nodup_In. eapply in_ring. exact Hv.
    - unfold eff_rf, member_count. fold ids. apply Nat.le_min_r.
    - unfold quota0.
      pose proof (N2Z.is_nonneg (N.of_nat (length PH) * N.of_nat (eff_rf RF ms) / N.of_nat (member_count ms))). lia.
    - unfold quota0, member_count. fold ids. set (rf' := eff_rf RF ms).
      rewrite N2Z.inj_div, N2Z.inj_mul, !nat_N_Z.
      pose proof (Z.mul_succ_div_gt (Z.of_nat (length PH) * Z.of_nat rf') (Z.of_nat (length ids))) as Hgt.
      lia.
    - unfold lap_fuel. lia.
    - reflexivity.
    - split; [intro u; cbn [tget]; lia|]. rewrite zsum_zero. lia.
  Qed.
End ChashTotal.
