(* No global deadlock: in every reachable state with an unfinished call some step is enabled, given that the
   harness-owned callbacks return (their return labels are always enabled in the model). *)
From Coq Require Import List NArith Bool Lia.
Import ListNotations.
From AnySync Require Import Model.OCache Proofs.OCacheProofs.
Open Scope N_scope.

Definition rk_refs (k : rk) : list N := match k with KRemove => [] | KClose p => p end.

(* every entry pointer a program counter mentions *)
Definition refs (p : pc) : list N :=
  match p with
  | GWaitClose _ r _ _ | GBlock _ r _ _ | GLoadStart _ r _ | GInLoad _ r _ | GWaitLoad _ r _ | PkWaitLoad r => [r]
  | RmWaitLoad r k | RmSetClosing r k | RmBlock r _ k | RmInClose r _ k => r :: rk_refs k
  | TrSetClosing r k | TrInTry r _ k => r :: tk_refs k
  | GcNext l | ClNext l => l
  | _ => []
  end.

Record Inv2 (s : state) : Prop := mkInv2 {
  j_refs   : forall t r, In r (refs (threads s t)) -> heap s r <> None;
  j_owner  : forall r e, heap s r = Some e -> e_state e = SClosing -> exists t n, owner (threads s t) = Some (r, n);
  j_loader : forall r e, heap s r = Some e -> e_loaddone e = false -> exists t id, loader (threads s t) = Some (r, id)
}.

Lemma inv2_init : Inv2 init.
Proof. constructor; simpl; intros; try contradiction; discriminate. Qed.

Lemma inv2_set_pc : forall s t p',
  Inv2 s ->
  (forall r, In r (refs p') -> heap s r <> None) ->
  (forall r n, owner (threads s t) = Some (r, n) ->
     owner p' = Some (r, n) \/ (forall e, heap s r = Some e -> e_state e <> SClosing)) ->
  (forall r id, loader (threads s t) = Some (r, id) ->
     loader p' = Some (r, id) \/ (forall e, heap s r = Some e -> e_loaddone e = true)) ->
  Inv2 (set_pc s t p').
Proof.
  intros s t p' J HR HO HL. destruct J. constructor; simpl.
  - intros t0 r. unfold upd. destruct (N.eqb_spec t0 t); [apply HR | apply j_refs0].
  - intros r e Hr Hst. destruct (j_owner0 _ _ Hr Hst) as [t0 [n O]].
    destruct (N.eq_dec t0 t) as [E|E].
    + subst t0. destruct (HO _ _ O) as [X|X].
      * exists t, n. unfold upd. rewrite N.eqb_refl. exact X.
      * exfalso. eapply X; eauto.
    + exists t0, n. unfold upd. destruct (N.eqb_spec t0 t); [contradiction | exact O].
  - intros r e Hr Hd. destruct (j_loader0 _ _ Hr Hd) as [t0 [id L]].
    destruct (N.eq_dec t0 t) as [E|E].
    + subst t0. destruct (HL _ _ L) as [X|X].
      * exists t, id. unfold upd. rewrite N.eqb_refl. exact X.
      * exfalso. rewrite (X _ Hr) in Hd. discriminate.
    + exists t0, id. unfold upd. destruct (N.eqb_spec t0 t); [contradiction | exact L].
Qed.

Lemma inv2_set_entry : forall s r e e',
  Inv2 s -> heap s r = Some e ->
  (e_state e' = SClosing -> e_state e = SClosing \/ exists t n, owner (threads s t) = Some (r, n)) ->
  (e_loaddone e' = false -> e_loaddone e = false) ->
  Inv2 (set_entry s r e').
Proof.
  intros s r e e' J Hr HC HD. destruct J. constructor; simpl.
  - intros t r0 Hin. unfold upd. destruct (N.eqb_spec r0 r); [discriminate | eapply j_refs0; eauto].
  - intros r0 e0. unfold upd. destruct (N.eqb_spec r0 r); intros H Hst.
    + inversion H; subst. destruct (HC Hst) as [X|X]; eauto.
    + eauto.
  - intros r0 e0. unfold upd. destruct (N.eqb_spec r0 r); intros H Hd.
    + inversion H; subst. eauto.
    + eauto.
Qed.

Lemma inv2_set_data : forall s id v, Inv2 s -> Inv2 (set_data s id v).
Proof. intros s id v J. destruct J. constructor; simpl; auto. Qed.

Lemma inv2_bump : forall s, Inv2 s -> Inv2 (bump_inst s).
Proof. intros s J. destruct J. constructor; simpl; auto. Qed.

Lemma inv2_emit : forall s e, Inv2 s -> Inv2 (emit s e).
Proof. intros s e J. destruct J. constructor; simpl; auto. Qed.

Lemma inv2_closed_cancel : forall s, Inv2 s -> Inv2 (set_closed_cancel s).
Proof.
  intros s J. destruct J. constructor; simpl.
  - intros t r Hin. specialize (j_refs0 _ _ Hin). destruct (heap s r); simpl; [discriminate | contradiction].
  - intros r e H Hst. destruct (heap s r) as [e0|] eqn:E; simpl in H; inversion H; subst. eapply j_owner0; eauto.
  - intros r e H Hd. destruct (heap s r) as [e0|] eqn:E; simpl in H; inversion H; subst. eapply j_loader0; eauto.
Qed.

(* a new entry; the stepping thread (without roles before) may become its loader *)
Lemma inv2_alloc_pc : forall s t e0 p',
  Inv s -> Inv2 s -> owner (threads s t) = None -> loader (threads s t) = None ->
  e_state e0 <> SClosing ->
  (forall r, In r (refs p') -> r = hsize s \/ heap s r <> None) ->
  (e_loaddone e0 = false -> exists id, loader p' = Some (hsize s, id)) ->
  Inv2 (set_pc (alloc s e0) t p').
Proof.
  intros s t e0 p' I J HO HL Hst HR HD. destruct J.
  assert (Hfresh : forall r e, heap s r = Some e -> r <> hsize s).
  { intros r e Hr Heq. apply (i_heap _ I) in Hr. lia. }
  constructor; simpl.
  - intros t0 r. unfold upd. destruct (N.eqb_spec t0 t); intros Hin.
    + destruct (N.eqb_spec r (hsize s)); [discriminate|]. destruct (HR _ Hin); [contradiction | auto].
    + destruct (N.eqb_spec r (hsize s)); [discriminate | eapply j_refs0; eauto].
  - intros r e. unfold upd at 1. destruct (N.eqb_spec r (hsize s)); intros H Hs.
    + inversion H; subst. contradiction.
    + destruct (j_owner0 _ _ H Hs) as [t0 [n1 O]]. exists t0, n1. unfold upd.
      destruct (N.eqb_spec t0 t); [subst; congruence | exact O].
  - intros r e. unfold upd at 1. destruct (N.eqb_spec r (hsize s)); intros H Hd.
    + inversion H; subst. destruct (HD Hd) as [id X]. exists t, id. unfold upd. rewrite N.eqb_refl. exact X.
    + destruct (j_loader0 _ _ H Hd) as [t0 [id L]]. exists t0, id. unfold upd.
      destruct (N.eqb_spec t0 t); [subst; congruence | exact L].
Qed.

Ltac old_refs J Epc t :=
  apply (j_refs _ J t); simpl; rewrite Epc; simpl; auto.

Ltac split_in :=
  repeat match goal with H : _ \/ _ |- _ => destruct H as [H|H] end; subst; try contradiction.

Ltac refs_tac I J Epc t :=
  simpl; intros ? Hin; split_in;
  first [ solve [old_refs J Epc t]
        | match goal with
          | Hd : data ?s0 ?id = Some ?r |- heap _ ?r <> None =>
              let e0 := fresh in let A := fresh in
              destruct (i_data _ I _ _ Hd) as [e0 [A _]]; simpl; congruence
          end
        | match goal with
          | Hs : In ?r (snapshot ?s0 ?p) |- _ =>
              let e0 := fresh in let A := fresh in
              destruct (snapshot_In _ _ _ Hs) as [e0 [A _]]; simpl; try rewrite A; simpl; congruence
          end
        | idtac ].

Ltac roles_keep Epc :=
  simpl; rewrite Epc; simpl; intros ? ? Ho; try discriminate; inversion Ho; subst; left; reflexivity.

Ltac pc2 I J Epc t :=
  apply inv2_set_pc; [ exact J | refs_tac I J Epc t | roles_keep Epc | roles_keep Epc ].

Lemma step_core_inv2 : forall s t a s' ev,
  Inv s -> Inv2 s -> step_core fixed s t a = Some (s', ev) -> Inv2 s'.
Proof.
  intros s t a s' ev I J H. unfold step_core in H.
  destruct (threads s t) eqn:Epc; destruct a; try discriminate H;
  break_step H; inversion H; subst; clear H;
  try solve [pc2 I J Epc t];
  try (match goal with k : rk |- _ => destruct k end; solve [pc2 I J Epc t]);
  try (match goal with k : tk |- _ => destruct k end; solve [pc2 I J Epc t]);
  (* facts about an entry known to be loaded; panic branches *)
  try (match goal with
       | Hr : heap s ?r = Some ?e |- _ =>
           match type of Epc with
           | _ = RmSetClosing r _ => idtac | _ = TrSetClosing r _ => idtac
           end;
           destruct (loaded_facts s t r e I Hr) as [Lk [Hns [Hvn Hnl]]]; [rewrite Epc; simpl; auto|]
       end);
  try (match goal with |- Inv2 (set_pc (set_panic _) _ _) => exfalso; congruence end);
  (* Add: call start *)
  try (match goal with
       | |- Inv2 (set_pc (bump_inst s) t ?p) =>
           change (Inv2 (bump_inst (set_pc s t p))); apply inv2_bump; pc2 I J Epc t
       end);
  (* new entries *)
  try (match goal with
       | |- Inv2 (set_pc (alloc s (new_loading ?id)) t _) =>
           apply inv2_alloc_pc; auto;
           [ rewrite Epc; reflexivity | rewrite Epc; reflexivity | discriminate
           | simpl; intros ? [E|[]]; left; auto | intros _; exists id; reflexivity ]
       | |- Inv2 (set_pc (alloc s (new_active ?id ?n)) t _) =>
           apply inv2_alloc_pc; auto; try (rewrite Epc; reflexivity); try discriminate;
           simpl; intros; try contradiction; discriminate
       end);
  (* the loader's own placeholder cannot be closing / closed *)
  try (match goal with
       | Hr : heap s ?r = Some ?e |- _ =>
           match type of Epc with _ = GWaitClose ?id r ?load _ =>
             destruct load;
             [ exfalso; destruct (i_loader _ I t r id) as [e0 [A [B _]]]; [rewrite Epc; reflexivity|];
               rewrite Hr in A; inversion A; subst;
               pose proof (shape_notloaded_loading _ (i_shape _ I _ _ Hr) B); congruence
             | pc2 I J Epc t ]
           end
       end);
  try (match goal with
       | |- Inv2 (set_pc s t (after_failed _ _ _)) => unfold after_failed; destruct (_ && _); pc2 I J Epc t
       end);
  (* entry updates that keep / drop the loader role *)
  try (match goal with
       | Hr : heap s ?r = Some ?e |- Inv2 (set_pc (set_entry s ?r (set_cancelset ?e)) t _) =>
           assert (J1 : Inv2 (set_entry s r (set_cancelset e)))
             by (eapply inv2_set_entry; eauto; simpl; auto);
           pc2 I J1 Epc t
       | Hr : heap s ?r = Some ?e |- Inv2 (set_pc (bump_inst (set_entry s ?r (publish_ok ?e ?n))) t ?p) =>
           assert (J1 : Inv2 (set_entry s r (publish_ok e n)))
             by (eapply inv2_set_entry; eauto; simpl; intros; discriminate);
           change (Inv2 (bump_inst (set_pc (set_entry s r (publish_ok e n)) t p))); apply inv2_bump;
           apply inv2_set_pc; [exact J1 | simpl; intros; contradiction
                              | simpl; rewrite Epc; simpl; intros; discriminate
                              | simpl; rewrite Epc; simpl; intros ? ? Hl; inversion Hl; subst; right;
                                unfold upd; rewrite N.eqb_refl; intros ? E; inversion E; reflexivity ]
       | Hr : heap s ?r = Some ?e |- Inv2 (set_pc (set_data (set_entry s ?r (publish_err ?e)) ?id None) t ?p) =>
           assert (J1 : Inv2 (set_entry s r (publish_err e)))
             by (eapply inv2_set_entry; eauto; simpl; intros; try discriminate; auto);
           change (Inv2 (set_data (set_pc (set_entry s r (publish_err e)) t p) id None)); apply inv2_set_data;
           unfold after_failed; destruct (_ && _);
           (apply inv2_set_pc; [exact J1 | simpl; intros; contradiction
                               | simpl; rewrite Epc; simpl; intros; discriminate
                               | simpl; rewrite Epc; simpl; intros ? ? Hl; inversion Hl; subst; right;
                                 unfold upd; rewrite N.eqb_refl; intros ? E; inversion E; reflexivity ])
       end);
  (* setClosing succeeds: become the owner, then mark the entry *)
  try (match goal with
       | Hr : heap s ?r = Some ?e |- Inv2 (set_pc (set_entry s ?r (set_closing ?e)) t ?p) =>
           assert (J1 : Inv2 (set_pc s t p)) by (pc2 I J Epc t);
           change (Inv2 (set_entry (set_pc s t p) r (set_closing e)));
           eapply inv2_set_entry; [exact J1 | simpl; exact Hr | | simpl; auto];
           intros _; right; exists t; eexists; simpl; unfold upd; rewrite N.eqb_refl; reflexivity
       end);
  (* the owner is done *)
  try (match goal with
       | Hr : heap s ?r = Some ?e |- Inv2 (set_pc (set_data (set_entry s ?r (set_state ?e SClosed)) ?id None) t ?p) =>
           assert (J1 : Inv2 (set_entry s r (set_state e SClosed)))
             by (eapply inv2_set_entry; eauto; simpl; intros; try discriminate; auto);
           change (Inv2 (set_data (set_pc (set_entry s r (set_state e SClosed)) t p) id None)); apply inv2_set_data;
           match goal with k : rk |- _ => destruct k | k : tk |- _ => destruct k end;
           (apply inv2_set_pc; [exact J1 | refs_tac I J1 Epc t
                               | simpl; rewrite Epc; simpl; intros ? ? Ho; inversion Ho; subst; right;
                                 unfold upd; rewrite N.eqb_refl; intros ? E; inversion E; discriminate
                               | simpl; rewrite Epc; simpl; intros; discriminate ])
       | Hr : heap s ?r = Some ?e |- Inv2 (set_pc (set_entry s ?r (set_state ?e SActive)) t ?p) =>
           assert (J1 : Inv2 (set_entry s r (set_state e SActive)))
             by (eapply inv2_set_entry; eauto; simpl; intros; try discriminate; auto);
           match goal with k : tk |- _ => destruct k end;
           (apply inv2_set_pc; [exact J1 | refs_tac I J1 Epc t
                               | simpl; rewrite Epc; simpl; intros ? ? Ho; inversion Ho; subst; right;
                                 unfold upd; rewrite N.eqb_refl; intros ? E; inversion E; discriminate
                               | simpl; rewrite Epc; simpl; intros; discriminate ])
       end);
  (* Close: start; GC / Close: next entry *)
  try (match goal with
       | |- Inv2 (set_pc (set_closed_cancel s) t _) =>
           apply inv2_set_pc; [apply inv2_closed_cancel; exact J | | roles_keep Epc | roles_keep Epc];
           simpl; intros ? Hs; destruct (snapshot_In _ _ _ Hs) as [e0 [A _]]; rewrite A; simpl; discriminate
       | Hm : mem ?r (?n :: ?l) = true |- Inv2 (set_pc s t _) =>
           apply inv2_set_pc; [exact J | | roles_keep Epc | roles_keep Epc];
           simpl; intros ? [E|E]; apply (j_refs _ J t); rewrite Epc; simpl;
           [ subst; apply (mem_In _ (n :: l)); exact Hm | apply (remove1_cons_In _ r n l); exact E ]
       end).
Qed.

Lemma step_inv2 : forall s l s', Inv s -> Inv2 s -> step fixed s l = Some s' -> Inv2 s'.
Proof.
  intros s l s' I J H. unfold step in H.
  destruct (step_core fixed s (fst l) (snd l)) as [[s1 [e|]]|] eqn:E; inversion H; subst.
  - apply inv2_emit. eapply step_core_inv2; eauto.
  - eapply step_core_inv2; eauto.
Qed.

Lemma run_inv2 : forall ls s s', Inv s -> Inv2 s -> run fixed s ls = Some s' -> Inv2 s'.
Proof.
  induction ls as [|l ls IH]; simpl; intros s s' I J H.
  - inversion H; subst; auto.
  - destruct (step fixed s l) eqn:E; [|discriminate].
    eapply IH; [eapply step_inv; eauto | eapply step_inv2; eauto | eauto].
Qed.

Theorem reachable_inv2 : forall ls s, run fixed init ls = Some s -> Inv2 s.
Proof. intros ls s H. eapply run_inv2; [apply init_inv | apply inv2_init | eauto]. Qed.

(* ------------------------------------------------------------------------------------------------
   No thread is ever in the panicked state *)
Lemma step_core_nodead : forall s t a s' ev,
  Inv s -> (forall u, threads s u <> PDead) -> step_core fixed s t a = Some (s', ev) ->
  forall u, threads s' u <> PDead.
Proof.
  intros s t a s' ev I D H u.
  pose proof (i_nopanic _ (step_core_inv _ _ _ _ _ I H)) as NP.
  unfold step_core in H.
  destruct (threads s t) eqn:Epc; destruct a; try discriminate H;
  break_step H; inversion H; subst; clear H; simpl in *; try discriminate NP;
  unfold upd; destruct (N.eqb_spec u t); try apply D;
  try discriminate;
  try (match goal with k : rk |- _ => destruct k end; discriminate);
  try (match goal with k : tk |- _ => destruct k end; discriminate);
  try (unfold after_failed; destruct (_ && _); discriminate).
Qed.

Lemma run_nodead : forall ls s s', Inv s -> (forall u, threads s u <> PDead) -> run fixed s ls = Some s' ->
  forall u, threads s' u <> PDead.
Proof.
  induction ls as [|l ls IH]; simpl; intros s s' I D H.
  - inversion H; subst; auto.
  - destruct (step fixed s l) as [s1|] eqn:E; [|discriminate].
    eapply IH; [eapply step_inv; eauto | | eauto].
    unfold step in E. destruct (step_core fixed s (fst l) (snd l)) as [[s2 [e|]]|] eqn:E2; inversion E; subst;
      simpl; eapply step_core_nodead; eauto.
Qed.

(* ------------------------------------------------------------------------------------------------
   Progress *)
Definition can_move (s : state) : Prop := exists l s', step fixed s l = Some s'.

Ltac fire :=
  unfold can_move, step, step_core; simpl;
  repeat match goal with
         | H : threads _ _ = _ |- _ => rewrite H
         | H : heap _ _ = Some _ |- _ => rewrite H
         | H : chan_closed _ _ = _ |- _ => rewrite H
         | H : e_loaddone _ = _ |- _ => rewrite H
         end; simpl;
  repeat (match goal with
          | |- context [match ?x with _ => _ end] =>
              lazymatch x with
              | context [match _ with _ => _ end] => fail
              | _ => destruct x eqn:?
              end
          end; simpl);
  eauto.

Lemma owner_can_move : forall s u r n e,
  owner (threads s u) = Some (r, n) -> heap s r = Some e -> can_move s.
Proof.
  intros s u r n e Ho Hr. destruct (threads s u) eqn:Epc; simpl in Ho; try discriminate; inversion Ho; subst.
  - exists (u, ACloseExit). fire.
  - exists (u, ATryExit false). fire.
Qed.

Lemma loader_can_move : forall s u r id e,
  loader (threads s u) = Some (r, id) -> heap s r = Some e -> can_move s.
Proof.
  intros s u r id e Hl Hr. destruct (threads s u) eqn:Epc; simpl in Hl; try discriminate.
  - destruct load; try discriminate. inversion Hl; subst. exists (u, AStep). fire.
  - inversion Hl; subst. exists (u, AStep). fire.
  - inversion Hl; subst. exists (u, ALoadEnd None). fire.
Qed.

Theorem progress : forall ls s t,
  run fixed init ls = Some s -> threads s t <> Idle -> can_move s.
Proof.
  intros ls s t H Hni.
  pose proof (reachable_inv _ _ H) as I. pose proof (reachable_inv2 _ _ H) as J.
  assert (D : threads s t <> PDead).
  { eapply run_nodead; [apply init_inv | | exact H]. intros u. simpl. discriminate. }
  destruct (threads s t) eqn:Epc; try congruence;
  (* the entry the thread refers to exists *)
  try (match type of Epc with
       | _ = ?p =>
           match eval simpl in (refs p) with
           | ?r :: _ =>
               let e := fresh "e" in let Hr := fresh "Hr" in
               destruct (heap s r) as [e|] eqn:Hr;
               [| exfalso; apply (j_refs _ J t r); [rewrite Epc; simpl; auto | exact Hr]]
           | _ => idtac
           end
       end);
  (* blocked on a close channel: its owner can move *)
  try (match type of Epc with
       | _ = GBlock _ ?r ?k _ => destruct (chan_closed e k) eqn:Hch
       | _ = RmBlock ?r ?k _ => destruct (chan_closed e k) eqn:Hch
       end;
       [ | unfold chan_closed in Hch; apply negb_false_iff in Hch; apply andb_true_iff in Hch;
           destruct Hch as [_ Hst]; apply estate_eqb_eq in Hst;
           destruct (j_owner _ J _ _ Hr Hst) as [u [n0 Ho]]; eapply owner_can_move; eauto ]);
  (* blocked on a load channel: its loader can move *)
  try (match type of Epc with
       | _ = GWaitLoad _ _ _ => destruct (e_loaddone e) eqn:Hld
       | _ = PkWaitLoad _ => destruct (e_loaddone e) eqn:Hld
       | _ = RmWaitLoad _ _ => destruct (e_loaddone e) eqn:Hld
       end;
       [ | destruct (j_loader _ J _ _ Hr Hld) as [u [id0 Hl]]; eapply loader_can_move; eauto ]);
  (* everything else moves by itself *)
  try (match type of Epc with
       | _ = GInLoad _ _ _ => exists (t, ALoadEnd None); solve [fire]
       | _ = RmInClose _ _ _ => exists (t, ACloseExit); solve [fire]
       | _ = TrInTry _ _ _ => exists (t, ATryExit false); solve [fire]
       | _ = GcNext ?l => destruct l as [|x l']; [exists (t, AStep); solve [fire] | exists (t, APick x); unfold can_move, step, step_core; simpl; rewrite Epc; simpl; rewrite N.eqb_refl; simpl; eauto]
       | _ = ClNext ?l => destruct l as [|x l']; [exists (t, AStep); solve [fire] | exists (t, APick x); unfold can_move, step, step_core; simpl; rewrite Epc; simpl; rewrite N.eqb_refl; simpl; eauto]
       end);
  try (exists (t, AStep); fire;
       try (exfalso; match goal with
                     | Hd : data s _ = Some ?r, Hn : heap s ?r = None |- _ =>
                         let A := fresh in destruct (i_data _ I _ _ Hd) as [? [A _]]; congruence
                     end); fail).
Qed.
