(* Proofs/OrderIdsFill.v — the gap filling of Tree.updateHeads keeps / makes the presented sequence strictly increasing
   in order id, never touches an id that was already assigned, and sorting by order id recovers the sequence (C06/C09).

   Pure list lemmas about Model/OrderIds.v.  The order ids are abstract; what lexid promises appears as the Section
   hypotheses  olt_trans / olt_irrefl  (the comparison is a strict order),  next_gt  (prev < Next(prev)) and
   between_gt  (prev < b -> prev < NextBefore(prev,b) < b).  They stay visible in every theorem after the Section. *)
From Coq Require Import List NArith Bool Arith Lia Permutation Sorted.
Import ListNotations.
From AnySync Require Import Lib.Dag Model.OrderIds Proofs.DfsBase.

(* what the theorems assume of lexid (github.com/anyproto/lexid), for the comparison [oltb] = Go's < on strings:
   it is a strict order, prev < Next(prev), and prev < b -> prev < NextBefore(prev, b) < b *)
Definition lexid_laws (oid : Type) (oltb : oid -> oid -> bool) (next_id : oid -> oid) (between : oid -> oid -> oid) : Prop :=
  (forall a b c, olt oid oltb a b -> olt oid oltb b c -> olt oid oltb a c) /\
  (forall a, ~ olt oid oltb a a) /\
  (forall a, olt oid oltb a (next_id a)) /\
  (forall a b, olt oid oltb a b -> olt oid oltb a (between a b) /\ olt oid oltb (between a b) b).

Section Fill.
  Variable oid : Type.
  Variable oltb : oid -> oid -> bool.
  Variable first_id : oid.
  Variable next_id : oid -> oid.
  Variable between : oid -> oid -> oid.

  Notation olt := (olt oid oltb).
  Notation oget := (oget oid).
  Notation looked := (looked oid).
  Notation next_assigned := (next_assigned oid).
  Notation new_id := (new_id oid next_id between).
  Notation fill_from := (fill_from oid next_id between).
  Notation fill := (fill oid first_id next_id between).
  Notation key_ltb := (key_ltb oid oltb).
  Notation insert_by := (insert_by oid oltb).
  Notation sort_by_id := (sort_by_id oid oltb).

  Hypothesis olt_trans : forall a b c, olt a b -> olt b c -> olt a c.
  Hypothesis olt_irrefl : forall a, ~ olt a a.
  Hypothesis next_gt : forall a, olt a (next_id a).
  Hypothesis between_gt : forall a b, olt a b -> olt a (between a b) /\ olt (between a b) b.

  (* ---------------------------------------------------------------- association lists *)

  Lemma oget_app : forall a b i, oget (a ++ b) i = match oget a i with Some x => Some x | None => oget b i end.
  Proof.
    induction a as [|[k v] r IH]; intros b i; cbn [app oget]; [reflexivity|].
    destruct (N.eqb k i); [reflexivity | apply IH].
  Qed.

  Lemma oget_notin : forall a i, ~ In i (map fst a) -> oget a i = None.
  Proof.
    induction a as [|[k v] r IH]; intros i Hn; cbn [oget]; [reflexivity|].
    destruct (N.eqb k i) eqn:E.
    - apply N.eqb_eq in E. exfalso. apply Hn. left. exact E.
    - apply IH. intro H. apply Hn. right. exact H.
  Qed.

  Lemma oget_in : forall a i x, oget a i = Some x -> In i (map fst a).
  Proof.
    induction a as [|[k v] r IH]; intros i x H; cbn [oget] in H; [discriminate|].
    destruct (N.eqb k i) eqn:E; [apply N.eqb_eq in E; left; exact E | right; apply (IH i x H)].
  Qed.

  (* ---------------------------------------------------------------- chains *)

  (* prev < k1 < k2 < ... *)
  Fixpoint chain (prev : oid) (ks : list oid) : Prop :=
    match ks with
    | [] => True
    | k :: r => olt prev k /\ chain k r
    end.

  Definition incr (ks : list oid) : Prop := match ks with [] => True | k :: r => chain k r end.

  Lemma chain_all : forall ks p, chain p ks -> forall k, In k ks -> olt p k.
  Proof.
    induction ks as [|a r IH]; intros p H k Hk; [destruct Hk|]. destruct H as [H1 H2].
    destruct Hk as [Hk|Hk]; [subst k; exact H1 | apply (olt_trans p a k H1); apply (IH a H2 k Hk)].
  Qed.

  Lemma last_cons_default : forall (r : list oid) a p, last (a :: r) p = last r a.
  Proof.
    induction r as [|b r' IH]; intros a p; [reflexivity|].
    change (last (a :: b :: r') p) with (last (b :: r') p). rewrite (IH b p), (IH b a). reflexivity.
  Qed.

  Lemma chain_app : forall l1 p l2, chain p (l1 ++ l2) <-> chain p l1 /\ chain (last l1 p) l2.
  Proof.
    induction l1 as [|a r IH]; intros p l2.
    - cbn [app last chain]. tauto.
    - cbn [app chain]. rewrite IH, last_cons_default. tauto.
  Qed.

  Lemma chain_NoDup : forall ks p, chain p ks -> NoDup ks /\ ~ In p ks.
  Proof.
    induction ks as [|a r IH]; intros p H; [split; [constructor | intros Hf; destruct Hf]|].
    destruct H as [H1 H2]. destruct (IH a H2) as [Hnd Hni]. split.
    - constructor; assumption.
    - intros [E|Hin]; [subst a; exact (olt_irrefl p H1)|].
      apply (olt_irrefl p). apply (olt_trans p a p H1). apply (chain_all r a H2 p Hin).
  Qed.

  (* the ids already assigned along l, in order *)
  Fixpoint akeys (l : list (N * option oid)) : list oid :=
    match l with
    | [] => []
    | (_, Some x) :: r => x :: akeys r
    | (_, None) :: r => akeys r
    end.

  (* the ids of ALL elements of l after filling *)
  Fixpoint keys_from (prev : oid) (l : list (N * option oid)) : list oid :=
    match l with
    | [] => []
    | (_, Some x) :: r => x :: keys_from x r
    | (_, None) :: r => let x := new_id prev r in x :: keys_from x r
    end.

  Lemma next_assigned_akeys : forall l, next_assigned l = hd_error (akeys l).
  Proof. induction l as [|[i [x|]] r IH]; cbn [OrderIds.next_assigned akeys hd_error]; [reflexivity | reflexivity | exact IH]. Qed.

  (* the heart: if the ids already assigned increase (from prev on), so do all ids after filling *)
  Lemma keys_from_chain : forall l prev, chain prev (akeys l) -> chain prev (keys_from prev l).
  Proof.
    induction l as [|[i [x|]] r IH]; intros prev H; cbn [akeys keys_from chain] in *; [exact I | |].
    - destruct H as [H1 H2]. split; [exact H1 | apply IH; exact H2].
    - unfold new_id, OrderIds.new_id. rewrite next_assigned_akeys.
      destruct (akeys r) as [|b ks] eqn:E; cbn [hd_error].
      + split; [apply next_gt|]. apply IH. try rewrite E. exact I.
      + destruct H as [H1 H2]. destruct (between_gt prev b H1) as [G1 G2].
        split; [exact G1|]. apply IH. try rewrite E. split; assumption.
  Qed.

  Lemma keys_from_length : forall l prev, length (keys_from prev l) = length l.
  Proof. induction l as [|[i [x|]] r IH]; intros prev; cbn [keys_from length]; [reflexivity | |]; rewrite IH; reflexivity. Qed.

  (* the new entries are for elements that had no id *)
  Lemma fill_from_keys : forall l prev k, In k (map fst (fill_from prev l)) -> In (k, None) l.
  Proof.
    induction l as [|[i [x|]] r IH]; intros prev k H; cbn [OrderIds.fill_from map fst] in H.
    - destruct H.
    - right. apply (IH x k H).
    - cbn [map fst] in H. destruct H as [H|H]; [subst k; left; reflexivity | right; apply (IH _ k H)].
  Qed.

  (* after filling, the map gives every element of l the id [keys_from] says *)
  Lemma oget_fill_from : forall l prev m,
    NoDup (map fst l) -> (forall i o, In (i, o) l -> oget m i = o) ->
    map (oget (fill_from prev l ++ m)) (map fst l) = map Some (keys_from prev l).
  Proof.
    induction l as [|[i [x|]] r IH]; intros prev m Hnd Hm; [reflexivity| |].
    - cbn [map fst OrderIds.fill_from keys_from]. inversion Hnd as [|? ? Hni Hnd']; subst. f_equal.
      + rewrite oget_app. rewrite oget_notin.
        * apply Hm. left. reflexivity.
        * intro Hin. apply fill_from_keys in Hin. apply Hni. apply (in_map fst) in Hin. exact Hin.
      + apply IH; [exact Hnd' | intros j o Hj; apply Hm; right; exact Hj].
    - cbn [map fst OrderIds.fill_from keys_from]. inversion Hnd as [|? ? Hni Hnd']; subst. cbn [app oget]. rewrite N.eqb_refl. f_equal.
      rewrite <- (IH (new_id prev r) m Hnd'); [|intros j o Hj; apply Hm; right; exact Hj].
      apply map_ext_in. intros j Hj. destruct (N.eqb i j) eqn:E; [|reflexivity].
      apply N.eqb_eq in E. subst j. contradiction.
  Qed.

  Lemma looked_fst : forall m l, map fst (looked m l) = l.
  Proof. intros m l. unfold looked, OrderIds.looked. rewrite map_map. cbn [fst]. apply map_id. Qed.

  Lemma looked_in : forall m l i o, In (i, o) (looked m l) -> oget m i = o.
  Proof.
    intros m l i o H. unfold looked, OrderIds.looked in H. apply in_map_iff in H. destruct H as [j [E _]].
    inversion E; subst. reflexivity.
  Qed.

  (* updateHeads never changes an id that is already assigned *)
  Theorem fill_keeps : forall m seq i x, oget m i = Some x -> oget (fill m seq) i = Some x.
  Proof.
    intros m seq i x H. unfold fill, OrderIds.fill.
    destruct seq as [|r rest]; [exact H|]. cbn [looked OrderIds.looked map].
    assert (Hnew : forall prev, oget (fill_from prev (looked m rest) ++ m) i = Some x).
    { intros prev. rewrite oget_app, oget_notin; [exact H|].
      intro Hin. apply fill_from_keys in Hin. apply looked_in in Hin. congruence. }
    destruct (oget m r) as [x0|] eqn:Er; [apply Hnew|].
    cbn [app oget]. destruct (N.eqb r i) eqn:E; [apply N.eqb_eq in E; subst r; congruence | apply Hnew].
  Qed.

  (* updateHeads gives ids only to presented elements *)
  Lemma fill_dom : forall m seq i x, oget (fill m seq) i = Some x -> In i seq \/ oget m i = Some x.
  Proof.
    intros m seq i x H. unfold fill, OrderIds.fill in H.
    destruct seq as [|r rest]; [right; exact H|]. cbn [looked OrderIds.looked map] in H.
    assert (Hnew : forall prev, oget (fill_from prev (looked m rest) ++ m) i = Some x -> In i rest \/ oget m i = Some x).
    { intros prev Hp. rewrite oget_app in Hp. destruct (oget (fill_from prev (looked m rest)) i) eqn:E; [|right; exact Hp].
      left. apply oget_in in E. apply fill_from_keys in E. apply (in_map fst) in E. rewrite looked_fst in E. exact E. }
    destruct (oget m r) as [x0|] eqn:Er.
    - destruct (Hnew _ H) as [Hi|Hi]; [left; right; exact Hi | right; exact Hi].
    - cbn [app oget] in H. destruct (N.eqb r i) eqn:E; [apply N.eqb_eq in E; left; left; exact E|].
      destruct (Hnew _ H) as [Hi|Hi]; [left; right; exact Hi | right; exact Hi].
  Qed.

  (* the id of the first presented element (the root) after updateHeads *)
  Definition root_id (m : idmap oid) (r : N) : oid := match oget m r with Some x => x | None => first_id end.

  (* if the ids already assigned along the presented sequence increase, then after updateHeads EVERY presented
     element has an id and the ids increase along the whole sequence *)
  Theorem fill_sorted : forall m r rest,
    NoDup (r :: rest) -> chain (root_id m r) (akeys (looked m rest)) ->
    map (oget (fill m (r :: rest))) (r :: rest) = map Some (root_id m r :: keys_from (root_id m r) (looked m rest))
    /\ chain (root_id m r) (keys_from (root_id m r) (looked m rest)).
  Proof.
    intros m r rest Hnd Hch. split; [|apply keys_from_chain; exact Hch].
    inversion Hnd as [|? ? Hni Hnd']; subst.
    assert (Hrest : forall prev, map (oget (fill_from prev (looked m rest) ++ m)) rest = map Some (keys_from prev (looked m rest))).
    { intros prev. rewrite <- (looked_fst m rest) at 2. apply oget_fill_from.
      - rewrite looked_fst. exact Hnd'.
      - intros i o Hio. apply (looked_in m rest). exact Hio. }
    unfold fill, OrderIds.fill, root_id. cbn [looked OrderIds.looked map].
    destruct (oget m r) as [x0|] eqn:Er.
    - f_equal; [|apply Hrest].
      rewrite oget_app, oget_notin; [exact Er|].
      intro Hin. apply fill_from_keys in Hin. apply looked_in in Hin. congruence.
    - cbn [app oget]. rewrite N.eqb_refl. f_equal. rewrite <- Hrest. apply map_ext_in. intros j Hj.
      destruct (N.eqb r j) eqn:E; [|reflexivity]. apply N.eqb_eq in E. subst j. contradiction.
  Qed.

  (* the elements of l that already have an id are those that pass f: only they contribute to akeys *)
  Lemma akeys_filter : forall m (f : N -> bool) l,
    (forall i, In i l -> f i = false -> oget m i = None) ->
    akeys (looked m l) = akeys (looked m (filter f l)).
  Proof.
    intros m f. induction l as [|i r IH]; intros H; [reflexivity|]. cbn [filter looked OrderIds.looked map akeys].
    assert (IH' : akeys (looked m r) = akeys (looked m (filter f r))) by (apply IH; intros j Hj; apply H; right; exact Hj).
    destruct (f i) eqn:E.
    - cbn [looked OrderIds.looked map akeys]. destruct (oget m i); [f_equal|]; exact IH'.
    - rewrite (H i (or_introl eq_refl) E). exact IH'.
  Qed.

  Lemma akeys_all : forall m l ks, map (oget m) l = map Some ks -> akeys (looked m l) = ks.
  Proof.
    intros m. induction l as [|i r IH]; intros ks H; destruct ks as [|k ks']; try discriminate; [reflexivity|].
    cbn [map] in H. inversion H as [[H1 H2]]. cbn [looked OrderIds.looked map akeys]. rewrite H1. f_equal. apply IH. exact H2.
  Qed.

  (* ---------------------------------------------------------------- sorting by order id *)

  Definition R (a b : N * option oid) : Prop := key_ltb a b = true.

  Lemma R_trans : forall a b c, R a b -> R b c -> R a c.
  Proof.
    intros [i [x|]] [j [y|]] [k [z|]]; unfold R, key_ltb, OrderIds.key_ltb; cbn [snd]; intros H1 H2; try discriminate; try reflexivity.
    apply (olt_trans x y z H1 H2).
  Qed.

  Lemma R_irrefl : forall a, ~ R a a.
  Proof. intros [i [x|]]; unfold R, key_ltb, OrderIds.key_ltb; cbn [snd]; [apply olt_irrefl | discriminate]. Qed.

  Lemma insert_by_sorted : forall a S,
    StronglySorted R S -> (forall b, In b S -> R a b \/ R b a) ->
    StronglySorted R (insert_by a S) /\ Permutation (a :: S) (insert_by a S).
  Proof.
    intros a. induction S as [|b r IH]; intros Hs Hc; cbn [OrderIds.insert_by].
    - split; [constructor; [constructor | constructor] | apply Permutation_refl].
    - inversion Hs as [|? ? Hsr Hall]; subst.
      destruct (key_ltb a b) eqn:E.
      + split; [|apply Permutation_refl]. constructor; [exact Hs|]. constructor; [exact E|].
        apply Forall_forall. intros c Hcin. rewrite Forall_forall in Hall. apply (R_trans a b c E (Hall c Hcin)).
      + assert (Hba : R b a).
        { destruct (Hc b (or_introl eq_refl)) as [H|H]; [unfold R in H; congruence | exact H]. }
        destruct (IH Hsr (fun c Hcin => Hc c (or_intror Hcin))) as [Hs' Hp]. split.
        * constructor; [exact Hs'|]. apply Forall_forall. intros c Hcin.
          apply (Permutation_in c (Permutation_sym Hp)) in Hcin. destruct Hcin as [Hcin|Hcin]; [subst c; exact Hba|].
          rewrite Forall_forall in Hall. apply Hall. exact Hcin.
        * apply (perm_trans (perm_swap b a r)). apply perm_skip. exact Hp.
  Qed.

  Lemma isort_by_sorted : forall L,
    NoDup L -> (forall a b, In a L -> In b L -> a <> b -> R a b \/ R b a) ->
    StronglySorted R (fold_right insert_by [] L) /\ Permutation L (fold_right insert_by [] L).
  Proof.
    induction L as [|a r IH]; intros Hnd Hc; cbn [fold_right]; [split; [constructor | constructor]|].
    inversion Hnd as [|? ? Hni Hnd']; subst.
    destruct (IH Hnd' (fun x y Hx Hy => Hc x y (or_intror Hx) (or_intror Hy))) as [Hs Hp].
    destruct (insert_by_sorted a _ Hs) as [Hs' Hp'].
    - intros b Hb. apply (Permutation_in b (Permutation_sym Hp)) in Hb.
      apply Hc; [left; reflexivity | right; exact Hb | intro E; subst b; contradiction].
    - split; [exact Hs'|]. apply (perm_trans (perm_skip a Hp)). exact Hp'.
  Qed.

  Lemma sorted_unique : forall l1 l2, StronglySorted R l1 -> StronglySorted R l2 -> Permutation l1 l2 -> l1 = l2.
  Proof.
    induction l1 as [|a r1 IH]; intros l2 H1 H2 Hp.
    - apply Permutation_nil in Hp. symmetry. exact Hp.
    - destruct l2 as [|b r2]; [apply Permutation_sym, Permutation_nil in Hp; discriminate|].
      inversion H1 as [|? ? Hs1 Ha1]; subst. inversion H2 as [|? ? Hs2 Ha2]; subst.
      rewrite Forall_forall in Ha1, Ha2.
      assert (E : a = b).
      { assert (Ha : In a (b :: r2)) by (apply (Permutation_in a Hp); left; reflexivity).
        assert (Hb : In b (a :: r1)) by (apply (Permutation_in b (Permutation_sym Hp)); left; reflexivity).
        destruct Ha as [Ha|Ha]; [symmetry; exact Ha|]. destruct Hb as [Hb|Hb]; [exact Hb|].
        exfalso. apply (R_irrefl a). apply (R_trans a b a (Ha1 b Hb) (Ha2 a Ha)). }
      subst b. f_equal. apply IH; [exact Hs1 | exact Hs2 | apply (Permutation_cons_inv Hp)].
  Qed.

  Lemma sorted_comparable : forall L, StronglySorted R L -> forall a b, In a L -> In b L -> a <> b -> R a b \/ R b a.
  Proof.
    induction L as [|c r IH]; intros Hs a b Ha Hb Hne; [destruct Ha|].
    inversion Hs as [|? ? Hsr Hall]; subst. rewrite Forall_forall in Hall.
    destruct Ha as [Ha|Ha]; destruct Hb as [Hb|Hb].
    - subst. contradiction.
    - subst a. left. apply Hall. exact Hb.
    - subst b. right. apply Hall. exact Ha.
    - apply IH; assumption.
  Qed.

  Lemma looked_sorted : forall m l ks p, map (oget m) l = map Some ks -> chain p ks ->
    StronglySorted R (looked m l) /\ forall e, In e (looked m l) -> exists k, snd e = Some k /\ olt p k.
  Proof.
    intros m. induction l as [|i r IH]; intros ks p H Hc; destruct ks as [|k ks']; try discriminate.
    - split; [constructor | intros e He; destruct He].
    - cbn [map] in H. inversion H as [[H1 H2]]. destruct Hc as [Hc1 Hc2].
      destruct (IH ks' k H2 Hc2) as [Hs Hall]. cbn [looked OrderIds.looked map]. rewrite H1. split.
      + constructor; [exact Hs|]. apply Forall_forall. intros e He. destruct (Hall e He) as [k' [Ek Hk]].
        unfold R, key_ltb, OrderIds.key_ltb. cbn [snd]. rewrite Ek. exact Hk.
      + intros e [He|He]; [subst e; exists k; split; [reflexivity | exact Hc1]|].
        destruct (Hall e He) as [k' [Ek Hk]]. exists k'. split; [exact Ek | apply (olt_trans p k k' Hc1 Hk)].
  Qed.

  (* sorting any listing of the elements by order id gives back the sequence along which the ids increase *)
  Theorem sort_by_id_recovers : forall m seq ks l',
    map (oget m) seq = map Some ks -> incr ks -> Permutation l' seq -> NoDup seq -> sort_by_id m l' = seq.
  Proof.
    intros m seq ks l' Hk Hinc Hp Hnd. unfold sort_by_id, OrderIds.sort_by_id.
    assert (HsL : StronglySorted R (looked m seq)).
    { destruct seq as [|i r]; [constructor|]. destruct ks as [|k ks']; [discriminate|].
      cbn [map] in Hk. inversion Hk as [[H1 H2]]. cbn [incr] in Hinc.
      destruct (looked_sorted m r ks' k H2 Hinc) as [Hs Hall]. cbn [looked OrderIds.looked map]. rewrite H1.
      constructor; [exact Hs|]. apply Forall_forall. intros e He. destruct (Hall e He) as [k' [Ek Hk']].
      unfold R, key_ltb, OrderIds.key_ltb. cbn [snd]. rewrite Ek. exact Hk'. }
    assert (HpL : Permutation (looked m l') (looked m seq)) by (apply Permutation_map; exact Hp).
    assert (HndL : NoDup (looked m l')).
    { apply (NoDup_map_inv fst). rewrite looked_fst. apply (Permutation_NoDup (Permutation_sym Hp) Hnd). }
    destruct (isort_by_sorted (looked m l') HndL) as [Hs Hp'].
    - intros a b Ha Hb Hne. apply (sorted_comparable _ HsL); [apply (Permutation_in a HpL Ha) | apply (Permutation_in b HpL Hb) | exact Hne].
    - rewrite (sorted_unique _ (looked m seq) Hs HsL); [apply looked_fst|].
      apply (perm_trans (Permutation_sym Hp') HpL).
  Qed.
End Fill.
